// Code generated for mon/c09 (declared recursive types, one first use each); DO NOT EDIT.

package c09

import "reflect"

type Rec000 struct {
	M    map[string]Peer000 `json:"m,omitempty" protobuf:"bytes,6,rep,name=m" protobuf_key:"bytes,1,opt,name=key" protobuf_val:"bytes,2,opt,name=value" thrift:"6"`
	V    int64              `json:"v" protobuf:"varint,1,opt,name=v" thrift:"1"`
	Next *Rec000            `json:"next,omitempty" protobuf:"bytes,2,opt,name=next" thrift:"2"`
	Kids []Rec000           `json:"kids,omitempty" protobuf:"bytes,3,rep,name=kids" thrift:"3"`
	Peer *Peer000           `json:"peer,omitempty" protobuf:"bytes,4,opt,name=peer" thrift:"4"`
	S    string             `json:"s,omitempty" protobuf:"bytes,5,opt,name=s" thrift:"5"`
	X00  int64              `json:"x0,omitempty" protobuf:"varint,20,opt,name=x0" thrift:"20"`
	X01  int64              `json:"x1,omitempty" protobuf:"varint,21,opt,name=x1" thrift:"21"`
	X02  int64              `json:"x2,omitempty" protobuf:"varint,22,opt,name=x2" thrift:"22"`
	X03  int64              `json:"x3,omitempty" protobuf:"varint,23,opt,name=x3" thrift:"23"`
	X04  int64              `json:"x4,omitempty" protobuf:"varint,24,opt,name=x4" thrift:"24"`
	X05  int64              `json:"x5,omitempty" protobuf:"varint,25,opt,name=x5" thrift:"25"`
	X06  int64              `json:"x6,omitempty" protobuf:"varint,26,opt,name=x6" thrift:"26"`
	X07  int64              `json:"x7,omitempty" protobuf:"varint,27,opt,name=x7" thrift:"27"`
	X08  int64              `json:"x8,omitempty" protobuf:"varint,28,opt,name=x8" thrift:"28"`
	X09  int64              `json:"x9,omitempty" protobuf:"varint,29,opt,name=x9" thrift:"29"`
	X10  int64              `json:"x10,omitempty" protobuf:"varint,30,opt,name=x10" thrift:"30"`
	X11  int64              `json:"x11,omitempty" protobuf:"varint,31,opt,name=x11" thrift:"31"`
	X12  int64              `json:"x12,omitempty" protobuf:"varint,32,opt,name=x12" thrift:"32"`
	X13  int64              `json:"x13,omitempty" protobuf:"varint,33,opt,name=x13" thrift:"33"`
	X14  int64              `json:"x14,omitempty" protobuf:"varint,34,opt,name=x14" thrift:"34"`
	X15  int64              `json:"x15,omitempty" protobuf:"varint,35,opt,name=x15" thrift:"35"`
	X16  int64              `json:"x16,omitempty" protobuf:"varint,36,opt,name=x16" thrift:"36"`
	X17  int64              `json:"x17,omitempty" protobuf:"varint,37,opt,name=x17" thrift:"37"`
	X18  int64              `json:"x18,omitempty" protobuf:"varint,38,opt,name=x18" thrift:"38"`
	X19  int64              `json:"x19,omitempty" protobuf:"varint,39,opt,name=x19" thrift:"39"`
	X20  int64              `json:"x20,omitempty" protobuf:"varint,40,opt,name=x20" thrift:"40"`
	X21  int64              `json:"x21,omitempty" protobuf:"varint,41,opt,name=x21" thrift:"41"`
	X22  int64              `json:"x22,omitempty" protobuf:"varint,42,opt,name=x22" thrift:"42"`
	X23  int64              `json:"x23,omitempty" protobuf:"varint,43,opt,name=x23" thrift:"43"`
}

type Peer000 struct {
	Back *Rec000   `json:"back,omitempty" protobuf:"bytes,1,opt,name=back" thrift:"1"`
	List []*Rec000 `json:"list,omitempty" protobuf:"bytes,2,rep,name=list" thrift:"2"`
	B    bool      `json:"b" protobuf:"varint,3,opt,name=b" thrift:"3"`
}

type Rec001 struct {
	M    map[string]Peer001 `json:"m,omitempty" protobuf:"bytes,6,rep,name=m" protobuf_key:"bytes,1,opt,name=key" protobuf_val:"bytes,2,opt,name=value" thrift:"6"`
	V    int64              `json:"v" protobuf:"varint,1,opt,name=v" thrift:"1"`
	Next *Rec001            `json:"next,omitempty" protobuf:"bytes,2,opt,name=next" thrift:"2"`
	Kids []Rec001           `json:"kids,omitempty" protobuf:"bytes,3,rep,name=kids" thrift:"3"`
	Peer *Peer001           `json:"peer,omitempty" protobuf:"bytes,4,opt,name=peer" thrift:"4"`
	S    string             `json:"s,omitempty" protobuf:"bytes,5,opt,name=s" thrift:"5"`
	X00  int64              `json:"x0,omitempty" protobuf:"varint,20,opt,name=x0" thrift:"20"`
	X01  int64              `json:"x1,omitempty" protobuf:"varint,21,opt,name=x1" thrift:"21"`
	X02  int64              `json:"x2,omitempty" protobuf:"varint,22,opt,name=x2" thrift:"22"`
	X03  int64              `json:"x3,omitempty" protobuf:"varint,23,opt,name=x3" thrift:"23"`
	X04  int64              `json:"x4,omitempty" protobuf:"varint,24,opt,name=x4" thrift:"24"`
	X05  int64              `json:"x5,omitempty" protobuf:"varint,25,opt,name=x5" thrift:"25"`
	X06  int64              `json:"x6,omitempty" protobuf:"varint,26,opt,name=x6" thrift:"26"`
	X07  int64              `json:"x7,omitempty" protobuf:"varint,27,opt,name=x7" thrift:"27"`
	X08  int64              `json:"x8,omitempty" protobuf:"varint,28,opt,name=x8" thrift:"28"`
	X09  int64              `json:"x9,omitempty" protobuf:"varint,29,opt,name=x9" thrift:"29"`
	X10  int64              `json:"x10,omitempty" protobuf:"varint,30,opt,name=x10" thrift:"30"`
	X11  int64              `json:"x11,omitempty" protobuf:"varint,31,opt,name=x11" thrift:"31"`
	X12  int64              `json:"x12,omitempty" protobuf:"varint,32,opt,name=x12" thrift:"32"`
	X13  int64              `json:"x13,omitempty" protobuf:"varint,33,opt,name=x13" thrift:"33"`
	X14  int64              `json:"x14,omitempty" protobuf:"varint,34,opt,name=x14" thrift:"34"`
	X15  int64              `json:"x15,omitempty" protobuf:"varint,35,opt,name=x15" thrift:"35"`
	X16  int64              `json:"x16,omitempty" protobuf:"varint,36,opt,name=x16" thrift:"36"`
	X17  int64              `json:"x17,omitempty" protobuf:"varint,37,opt,name=x17" thrift:"37"`
	X18  int64              `json:"x18,omitempty" protobuf:"varint,38,opt,name=x18" thrift:"38"`
	X19  int64              `json:"x19,omitempty" protobuf:"varint,39,opt,name=x19" thrift:"39"`
	X20  int64              `json:"x20,omitempty" protobuf:"varint,40,opt,name=x20" thrift:"40"`
	X21  int64              `json:"x21,omitempty" protobuf:"varint,41,opt,name=x21" thrift:"41"`
	X22  int64              `json:"x22,omitempty" protobuf:"varint,42,opt,name=x22" thrift:"42"`
	X23  int64              `json:"x23,omitempty" protobuf:"varint,43,opt,name=x23" thrift:"43"`
}

type Peer001 struct {
	Back *Rec001   `json:"back,omitempty" protobuf:"bytes,1,opt,name=back" thrift:"1"`
	List []*Rec001 `json:"list,omitempty" protobuf:"bytes,2,rep,name=list" thrift:"2"`
	B    bool      `json:"b" protobuf:"varint,3,opt,name=b" thrift:"3"`
}

type Rec002 struct {
	M    map[string]Peer002 `json:"m,omitempty" protobuf:"bytes,6,rep,name=m" protobuf_key:"bytes,1,opt,name=key" protobuf_val:"bytes,2,opt,name=value" thrift:"6"`
	V    int64              `json:"v" protobuf:"varint,1,opt,name=v" thrift:"1"`
	Next *Rec002            `json:"next,omitempty" protobuf:"bytes,2,opt,name=next" thrift:"2"`
	Kids []Rec002           `json:"kids,omitempty" protobuf:"bytes,3,rep,name=kids" thrift:"3"`
	Peer *Peer002           `json:"peer,omitempty" protobuf:"bytes,4,opt,name=peer" thrift:"4"`
	S    string             `json:"s,omitempty" protobuf:"bytes,5,opt,name=s" thrift:"5"`
	X00  int64              `json:"x0,omitempty" protobuf:"varint,20,opt,name=x0" thrift:"20"`
	X01  int64              `json:"x1,omitempty" protobuf:"varint,21,opt,name=x1" thrift:"21"`
	X02  int64              `json:"x2,omitempty" protobuf:"varint,22,opt,name=x2" thrift:"22"`
	X03  int64              `json:"x3,omitempty" protobuf:"varint,23,opt,name=x3" thrift:"23"`
	X04  int64              `json:"x4,omitempty" protobuf:"varint,24,opt,name=x4" thrift:"24"`
	X05  int64              `json:"x5,omitempty" protobuf:"varint,25,opt,name=x5" thrift:"25"`
	X06  int64              `json:"x6,omitempty" protobuf:"varint,26,opt,name=x6" thrift:"26"`
	X07  int64              `json:"x7,omitempty" protobuf:"varint,27,opt,name=x7" thrift:"27"`
	X08  int64              `json:"x8,omitempty" protobuf:"varint,28,opt,name=x8" thrift:"28"`
	X09  int64              `json:"x9,omitempty" protobuf:"varint,29,opt,name=x9" thrift:"29"`
	X10  int64              `json:"x10,omitempty" protobuf:"varint,30,opt,name=x10" thrift:"30"`
	X11  int64              `json:"x11,omitempty" protobuf:"varint,31,opt,name=x11" thrift:"31"`
	X12  int64              `json:"x12,omitempty" protobuf:"varint,32,opt,name=x12" thrift:"32"`
	X13  int64              `json:"x13,omitempty" protobuf:"varint,33,opt,name=x13" thrift:"33"`
	X14  int64              `json:"x14,omitempty" protobuf:"varint,34,opt,name=x14" thrift:"34"`
	X15  int64              `json:"x15,omitempty" protobuf:"varint,35,opt,name=x15" thrift:"35"`
	X16  int64              `json:"x16,omitempty" protobuf:"varint,36,opt,name=x16" thrift:"36"`
	X17  int64              `json:"x17,omitempty" protobuf:"varint,37,opt,name=x17" thrift:"37"`
	X18  int64              `json:"x18,omitempty" protobuf:"varint,38,opt,name=x18" thrift:"38"`
	X19  int64              `json:"x19,omitempty" protobuf:"varint,39,opt,name=x19" thrift:"39"`
	X20  int64              `json:"x20,omitempty" protobuf:"varint,40,opt,name=x20" thrift:"40"`
	X21  int64              `json:"x21,omitempty" protobuf:"varint,41,opt,name=x21" thrift:"41"`
	X22  int64              `json:"x22,omitempty" protobuf:"varint,42,opt,name=x22" thrift:"42"`
	X23  int64              `json:"x23,omitempty" protobuf:"varint,43,opt,name=x23" thrift:"43"`
}

type Peer002 struct {
	Back *Rec002   `json:"back,omitempty" protobuf:"bytes,1,opt,name=back" thrift:"1"`
	List []*Rec002 `json:"list,omitempty" protobuf:"bytes,2,rep,name=list" thrift:"2"`
	B    bool      `json:"b" protobuf:"varint,3,opt,name=b" thrift:"3"`
}

type Rec003 struct {
	M    map[string]Peer003 `json:"m,omitempty" protobuf:"bytes,6,rep,name=m" protobuf_key:"bytes,1,opt,name=key" protobuf_val:"bytes,2,opt,name=value" thrift:"6"`
	V    int64              `json:"v" protobuf:"varint,1,opt,name=v" thrift:"1"`
	Next *Rec003            `json:"next,omitempty" protobuf:"bytes,2,opt,name=next" thrift:"2"`
	Kids []Rec003           `json:"kids,omitempty" protobuf:"bytes,3,rep,name=kids" thrift:"3"`
	Peer *Peer003           `json:"peer,omitempty" protobuf:"bytes,4,opt,name=peer" thrift:"4"`
	S    string             `json:"s,omitempty" protobuf:"bytes,5,opt,name=s" thrift:"5"`
	X00  int64              `json:"x0,omitempty" protobuf:"varint,20,opt,name=x0" thrift:"20"`
	X01  int64              `json:"x1,omitempty" protobuf:"varint,21,opt,name=x1" thrift:"21"`
	X02  int64              `json:"x2,omitempty" protobuf:"varint,22,opt,name=x2" thrift:"22"`
	X03  int64              `json:"x3,omitempty" protobuf:"varint,23,opt,name=x3" thrift:"23"`
	X04  int64              `json:"x4,omitempty" protobuf:"varint,24,opt,name=x4" thrift:"24"`
	X05  int64              `json:"x5,omitempty" protobuf:"varint,25,opt,name=x5" thrift:"25"`
	X06  int64              `json:"x6,omitempty" protobuf:"varint,26,opt,name=x6" thrift:"26"`
	X07  int64              `json:"x7,omitempty" protobuf:"varint,27,opt,name=x7" thrift:"27"`
	X08  int64              `json:"x8,omitempty" protobuf:"varint,28,opt,name=x8" thrift:"28"`
	X09  int64              `json:"x9,omitempty" protobuf:"varint,29,opt,name=x9" thrift:"29"`
	X10  int64              `json:"x10,omitempty" protobuf:"varint,30,opt,name=x10" thrift:"30"`
	X11  int64              `json:"x11,omitempty" protobuf:"varint,31,opt,name=x11" thrift:"31"`
	X12  int64              `json:"x12,omitempty" protobuf:"varint,32,opt,name=x12" thrift:"32"`
	X13  int64              `json:"x13,omitempty" protobuf:"varint,33,opt,name=x13" thrift:"33"`
	X14  int64              `json:"x14,omitempty" protobuf:"varint,34,opt,name=x14" thrift:"34"`
	X15  int64              `json:"x15,omitempty" protobuf:"varint,35,opt,name=x15" thrift:"35"`
	X16  int64              `json:"x16,omitempty" protobuf:"varint,36,opt,name=x16" thrift:"36"`
	X17  int64              `json:"x17,omitempty" protobuf:"varint,37,opt,name=x17" thrift:"37"`
	X18  int64              `json:"x18,omitempty" protobuf:"varint,38,opt,name=x18" thrift:"38"`
	X19  int64              `json:"x19,omitempty" protobuf:"varint,39,opt,name=x19" thrift:"39"`
	X20  int64              `json:"x20,omitempty" protobuf:"varint,40,opt,name=x20" thrift:"40"`
	X21  int64              `json:"x21,omitempty" protobuf:"varint,41,opt,name=x21" thrift:"41"`
	X22  int64              `json:"x22,omitempty" protobuf:"varint,42,opt,name=x22" thrift:"42"`
	X23  int64              `json:"x23,omitempty" protobuf:"varint,43,opt,name=x23" thrift:"43"`
}

type Peer003 struct {
	Back *Rec003   `json:"back,omitempty" protobuf:"bytes,1,opt,name=back" thrift:"1"`
	List []*Rec003 `json:"list,omitempty" protobuf:"bytes,2,rep,name=list" thrift:"2"`
	B    bool      `json:"b" protobuf:"varint,3,opt,name=b" thrift:"3"`
}

type Rec004 struct {
	M    map[string]Peer004 `json:"m,omitempty" protobuf:"bytes,6,rep,name=m" protobuf_key:"bytes,1,opt,name=key" protobuf_val:"bytes,2,opt,name=value" thrift:"6"`
	V    int64              `json:"v" protobuf:"varint,1,opt,name=v" thrift:"1"`
	Next *Rec004            `json:"next,omitempty" protobuf:"bytes,2,opt,name=next" thrift:"2"`
	Kids []Rec004           `json:"kids,omitempty" protobuf:"bytes,3,rep,name=kids" thrift:"3"`
	Peer *Peer004           `json:"peer,omitempty" protobuf:"bytes,4,opt,name=peer" thrift:"4"`
	S    string             `json:"s,omitempty" protobuf:"bytes,5,opt,name=s" thrift:"5"`
	X00  int64              `json:"x0,omitempty" protobuf:"varint,20,opt,name=x0" thrift:"20"`
	X01  int64              `json:"x1,omitempty" protobuf:"varint,21,opt,name=x1" thrift:"21"`
	X02  int64              `json:"x2,omitempty" protobuf:"varint,22,opt,name=x2" thrift:"22"`
	X03  int64              `json:"x3,omitempty" protobuf:"varint,23,opt,name=x3" thrift:"23"`
	X04  int64              `json:"x4,omitempty" protobuf:"varint,24,opt,name=x4" thrift:"24"`
	X05  int64              `json:"x5,omitempty" protobuf:"varint,25,opt,name=x5" thrift:"25"`
	X06  int64              `json:"x6,omitempty" protobuf:"varint,26,opt,name=x6" thrift:"26"`
	X07  int64              `json:"x7,omitempty" protobuf:"varint,27,opt,name=x7" thrift:"27"`
	X08  int64              `json:"x8,omitempty" protobuf:"varint,28,opt,name=x8" thrift:"28"`
	X09  int64              `json:"x9,omitempty" protobuf:"varint,29,opt,name=x9" thrift:"29"`
	X10  int64              `json:"x10,omitempty" protobuf:"varint,30,opt,name=x10" thrift:"30"`
	X11  int64              `json:"x11,omitempty" protobuf:"varint,31,opt,name=x11" thrift:"31"`
	X12  int64              `json:"x12,omitempty" protobuf:"varint,32,opt,name=x12" thrift:"32"`
	X13  int64              `json:"x13,omitempty" protobuf:"varint,33,opt,name=x13" thrift:"33"`
	X14  int64              `json:"x14,omitempty" protobuf:"varint,34,opt,name=x14" thrift:"34"`
	X15  int64              `json:"x15,omitempty" protobuf:"varint,35,opt,name=x15" thrift:"35"`
	X16  int64              `json:"x16,omitempty" protobuf:"varint,36,opt,name=x16" thrift:"36"`
	X17  int64              `json:"x17,omitempty" protobuf:"varint,37,opt,name=x17" thrift:"37"`
	X18  int64              `json:"x18,omitempty" protobuf:"varint,38,opt,name=x18" thrift:"38"`
	X19  int64              `json:"x19,omitempty" protobuf:"varint,39,opt,name=x19" thrift:"39"`
	X20  int64              `json:"x20,omitempty" protobuf:"varint,40,opt,name=x20" thrift:"40"`
	X21  int64              `json:"x21,omitempty" protobuf:"varint,41,opt,name=x21" thrift:"41"`
	X22  int64              `json:"x22,omitempty" protobuf:"varint,42,opt,name=x22" thrift:"42"`
	X23  int64              `json:"x23,omitempty" protobuf:"varint,43,opt,name=x23" thrift:"43"`
}

type Peer004 struct {
	Back *Rec004   `json:"back,omitempty" protobuf:"bytes,1,opt,name=back" thrift:"1"`
	List []*Rec004 `json:"list,omitempty" protobuf:"bytes,2,rep,name=list" thrift:"2"`
	B    bool      `json:"b" protobuf:"varint,3,opt,name=b" thrift:"3"`
}

type Rec005 struct {
	M    map[string]Peer005 `json:"m,omitempty" protobuf:"bytes,6,rep,name=m" protobuf_key:"bytes,1,opt,name=key" protobuf_val:"bytes,2,opt,name=value" thrift:"6"`
	V    int64              `json:"v" protobuf:"varint,1,opt,name=v" thrift:"1"`
	Next *Rec005            `json:"next,omitempty" protobuf:"bytes,2,opt,name=next" thrift:"2"`
	Kids []Rec005           `json:"kids,omitempty" protobuf:"bytes,3,rep,name=kids" thrift:"3"`
	Peer *Peer005           `json:"peer,omitempty" protobuf:"bytes,4,opt,name=peer" thrift:"4"`
	S    string             `json:"s,omitempty" protobuf:"bytes,5,opt,name=s" thrift:"5"`
	X00  int64              `json:"x0,omitempty" protobuf:"varint,20,opt,name=x0" thrift:"20"`
	X01  int64              `json:"x1,omitempty" protobuf:"varint,21,opt,name=x1" thrift:"21"`
	X02  int64              `json:"x2,omitempty" protobuf:"varint,22,opt,name=x2" thrift:"22"`
	X03  int64              `json:"x3,omitempty" protobuf:"varint,23,opt,name=x3" thrift:"23"`
	X04  int64              `json:"x4,omitempty" protobuf:"varint,24,opt,name=x4" thrift:"24"`
	X05  int64              `json:"x5,omitempty" protobuf:"varint,25,opt,name=x5" thrift:"25"`
	X06  int64              `json:"x6,omitempty" protobuf:"varint,26,opt,name=x6" thrift:"26"`
	X07  int64              `json:"x7,omitempty" protobuf:"varint,27,opt,name=x7" thrift:"27"`
	X08  int64              `json:"x8,omitempty" protobuf:"varint,28,opt,name=x8" thrift:"28"`
	X09  int64              `json:"x9,omitempty" protobuf:"varint,29,opt,name=x9" thrift:"29"`
	X10  int64              `json:"x10,omitempty" protobuf:"varint,30,opt,name=x10" thrift:"30"`
	X11  int64              `json:"x11,omitempty" protobuf:"varint,31,opt,name=x11" thrift:"31"`
	X12  int64              `json:"x12,omitempty" protobuf:"varint,32,opt,name=x12" thrift:"32"`
	X13  int64              `json:"x13,omitempty" protobuf:"varint,33,opt,name=x13" thrift:"33"`
	X14  int64              `json:"x14,omitempty" protobuf:"varint,34,opt,name=x14" thrift:"34"`
	X15  int64              `json:"x15,omitempty" protobuf:"varint,35,opt,name=x15" thrift:"35"`
	X16  int64              `json:"x16,omitempty" protobuf:"varint,36,opt,name=x16" thrift:"36"`
	X17  int64              `json:"x17,omitempty" protobuf:"varint,37,opt,name=x17" thrift:"37"`
	X18  int64              `json:"x18,omitempty" protobuf:"varint,38,opt,name=x18" thrift:"38"`
	X19  int64              `json:"x19,omitempty" protobuf:"varint,39,opt,name=x19" thrift:"39"`
	X20  int64              `json:"x20,omitempty" protobuf:"varint,40,opt,name=x20" thrift:"40"`
	X21  int64              `json:"x21,omitempty" protobuf:"varint,41,opt,name=x21" thrift:"41"`
	X22  int64              `json:"x22,omitempty" protobuf:"varint,42,opt,name=x22" thrift:"42"`
	X23  int64              `json:"x23,omitempty" protobuf:"varint,43,opt,name=x23" thrift:"43"`
}

type Peer005 struct {
	Back *Rec005   `json:"back,omitempty" protobuf:"bytes,1,opt,name=back" thrift:"1"`
	List []*Rec005 `json:"list,omitempty" protobuf:"bytes,2,rep,name=list" thrift:"2"`
	B    bool      `json:"b" protobuf:"varint,3,opt,name=b" thrift:"3"`
}

type Rec006 struct {
	M    map[string]Peer006 `json:"m,omitempty" protobuf:"bytes,6,rep,name=m" protobuf_key:"bytes,1,opt,name=key" protobuf_val:"bytes,2,opt,name=value" thrift:"6"`
	V    int64              `json:"v" protobuf:"varint,1,opt,name=v" thrift:"1"`
	Next *Rec006            `json:"next,omitempty" protobuf:"bytes,2,opt,name=next" thrift:"2"`
	Kids []Rec006           `json:"kids,omitempty" protobuf:"bytes,3,rep,name=kids" thrift:"3"`
	Peer *Peer006           `json:"peer,omitempty" protobuf:"bytes,4,opt,name=peer" thrift:"4"`
	S    string             `json:"s,omitempty" protobuf:"bytes,5,opt,name=s" thrift:"5"`
	X00  int64              `json:"x0,omitempty" protobuf:"varint,20,opt,name=x0" thrift:"20"`
	X01  int64              `json:"x1,omitempty" protobuf:"varint,21,opt,name=x1" thrift:"21"`
	X02  int64              `json:"x2,omitempty" protobuf:"varint,22,opt,name=x2" thrift:"22"`
	X03  int64              `json:"x3,omitempty" protobuf:"varint,23,opt,name=x3" thrift:"23"`
	X04  int64              `json:"x4,omitempty" protobuf:"varint,24,opt,name=x4" thrift:"24"`
	X05  int64              `json:"x5,omitempty" protobuf:"varint,25,opt,name=x5" thrift:"25"`
	X06  int64              `json:"x6,omitempty" protobuf:"varint,26,opt,name=x6" thrift:"26"`
	X07  int64              `json:"x7,omitempty" protobuf:"varint,27,opt,name=x7" thrift:"27"`
	X08  int64              `json:"x8,omitempty" protobuf:"varint,28,opt,name=x8" thrift:"28"`
	X09  int64              `json:"x9,omitempty" protobuf:"varint,29,opt,name=x9" thrift:"29"`
	X10  int64              `json:"x10,omitempty" protobuf:"varint,30,opt,name=x10" thrift:"30"`
	X11  int64              `json:"x11,omitempty" protobuf:"varint,31,opt,name=x11" thrift:"31"`
	X12  int64              `json:"x12,omitempty" protobuf:"varint,32,opt,name=x12" thrift:"32"`
	X13  int64              `json:"x13,omitempty" protobuf:"varint,33,opt,name=x13" thrift:"33"`
	X14  int64              `json:"x14,omitempty" protobuf:"varint,34,opt,name=x14" thrift:"34"`
	X15  int64              `json:"x15,omitempty" protobuf:"varint,35,opt,name=x15" thrift:"35"`
	X16  int64              `json:"x16,omitempty" protobuf:"varint,36,opt,name=x16" thrift:"36"`
	X17  int64              `json:"x17,omitempty" protobuf:"varint,37,opt,name=x17" thrift:"37"`
	X18  int64              `json:"x18,omitempty" protobuf:"varint,38,opt,name=x18" thrift:"38"`
	X19  int64              `json:"x19,omitempty" protobuf:"varint,39,opt,name=x19" thrift:"39"`
	X20  int64              `json:"x20,omitempty" protobuf:"varint,40,opt,name=x20" thrift:"40"`
	X21  int64              `json:"x21,omitempty" protobuf:"varint,41,opt,name=x21" thrift:"41"`
	X22  int64              `json:"x22,omitempty" protobuf:"varint,42,opt,name=x22" thrift:"42"`
	X23  int64              `json:"x23,omitempty" protobuf:"varint,43,opt,name=x23" thrift:"43"`
}

type Peer006 struct {
	Back *Rec006   `json:"back,omitempty" protobuf:"bytes,1,opt,name=back" thrift:"1"`
	List []*Rec006 `json:"list,omitempty" protobuf:"bytes,2,rep,name=list" thrift:"2"`
	B    bool      `json:"b" protobuf:"varint,3,opt,name=b" thrift:"3"`
}

type Rec007 struct {
	M    map[string]Peer007 `json:"m,omitempty" protobuf:"bytes,6,rep,name=m" protobuf_key:"bytes,1,opt,name=key" protobuf_val:"bytes,2,opt,name=value" thrift:"6"`
	V    int64              `json:"v" protobuf:"varint,1,opt,name=v" thrift:"1"`
	Next *Rec007            `json:"next,omitempty" protobuf:"bytes,2,opt,name=next" thrift:"2"`
	Kids []Rec007           `json:"kids,omitempty" protobuf:"bytes,3,rep,name=kids" thrift:"3"`
	Peer *Peer007           `json:"peer,omitempty" protobuf:"bytes,4,opt,name=peer" thrift:"4"`
	S    string             `json:"s,omitempty" protobuf:"bytes,5,opt,name=s" thrift:"5"`
	X00  int64              `json:"x0,omitempty" protobuf:"varint,20,opt,name=x0" thrift:"20"`
	X01  int64              `json:"x1,omitempty" protobuf:"varint,21,opt,name=x1" thrift:"21"`
	X02  int64              `json:"x2,omitempty" protobuf:"varint,22,opt,name=x2" thrift:"22"`
	X03  int64              `json:"x3,omitempty" protobuf:"varint,23,opt,name=x3" thrift:"23"`
	X04  int64              `json:"x4,omitempty" protobuf:"varint,24,opt,name=x4" thrift:"24"`
	X05  int64              `json:"x5,omitempty" protobuf:"varint,25,opt,name=x5" thrift:"25"`
	X06  int64              `json:"x6,omitempty" protobuf:"varint,26,opt,name=x6" thrift:"26"`
	X07  int64              `json:"x7,omitempty" protobuf:"varint,27,opt,name=x7" thrift:"27"`
	X08  int64              `json:"x8,omitempty" protobuf:"varint,28,opt,name=x8" thrift:"28"`
	X09  int64              `json:"x9,omitempty" protobuf:"varint,29,opt,name=x9" thrift:"29"`
	X10  int64              `json:"x10,omitempty" protobuf:"varint,30,opt,name=x10" thrift:"30"`
	X11  int64              `json:"x11,omitempty" protobuf:"varint,31,opt,name=x11" thrift:"31"`
	X12  int64              `json:"x12,omitempty" protobuf:"varint,32,opt,name=x12" thrift:"32"`
	X13  int64              `json:"x13,omitempty" protobuf:"varint,33,opt,name=x13" thrift:"33"`
	X14  int64              `json:"x14,omitempty" protobuf:"varint,34,opt,name=x14" thrift:"34"`
	X15  int64              `json:"x15,omitempty" protobuf:"varint,35,opt,name=x15" thrift:"35"`
	X16  int64              `json:"x16,omitempty" protobuf:"varint,36,opt,name=x16" thrift:"36"`
	X17  int64              `json:"x17,omitempty" protobuf:"varint,37,opt,name=x17" thrift:"37"`
	X18  int64              `json:"x18,omitempty" protobuf:"varint,38,opt,name=x18" thrift:"38"`
	X19  int64              `json:"x19,omitempty" protobuf:"varint,39,opt,name=x19" thrift:"39"`
	X20  int64              `json:"x20,omitempty" protobuf:"varint,40,opt,name=x20" thrift:"40"`
	X21  int64              `json:"x21,omitempty" protobuf:"varint,41,opt,name=x21" thrift:"41"`
	X22  int64              `json:"x22,omitempty" protobuf:"varint,42,opt,name=x22" thrift:"42"`
	X23  int64              `json:"x23,omitempty" protobuf:"varint,43,opt,name=x23" thrift:"43"`
}

type Peer007 struct {
	Back *Rec007   `json:"back,omitempty" protobuf:"bytes,1,opt,name=back" thrift:"1"`
	List []*Rec007 `json:"list,omitempty" protobuf:"bytes,2,rep,name=list" thrift:"2"`
	B    bool      `json:"b" protobuf:"varint,3,opt,name=b" thrift:"3"`
}

type Rec008 struct {
	M    map[string]Peer008 `json:"m,omitempty" protobuf:"bytes,6,rep,name=m" protobuf_key:"bytes,1,opt,name=key" protobuf_val:"bytes,2,opt,name=value" thrift:"6"`
	V    int64              `json:"v" protobuf:"varint,1,opt,name=v" thrift:"1"`
	Next *Rec008            `json:"next,omitempty" protobuf:"bytes,2,opt,name=next" thrift:"2"`
	Kids []Rec008           `json:"kids,omitempty" protobuf:"bytes,3,rep,name=kids" thrift:"3"`
	Peer *Peer008           `json:"peer,omitempty" protobuf:"bytes,4,opt,name=peer" thrift:"4"`
	S    string             `json:"s,omitempty" protobuf:"bytes,5,opt,name=s" thrift:"5"`
	X00  int64              `json:"x0,omitempty" protobuf:"varint,20,opt,name=x0" thrift:"20"`
	X01  int64              `json:"x1,omitempty" protobuf:"varint,21,opt,name=x1" thrift:"21"`
	X02  int64              `json:"x2,omitempty" protobuf:"varint,22,opt,name=x2" thrift:"22"`
	X03  int64              `json:"x3,omitempty" protobuf:"varint,23,opt,name=x3" thrift:"23"`
	X04  int64              `json:"x4,omitempty" protobuf:"varint,24,opt,name=x4" thrift:"24"`
	X05  int64              `json:"x5,omitempty" protobuf:"varint,25,opt,name=x5" thrift:"25"`
	X06  int64              `json:"x6,omitempty" protobuf:"varint,26,opt,name=x6" thrift:"26"`
	X07  int64              `json:"x7,omitempty" protobuf:"varint,27,opt,name=x7" thrift:"27"`
	X08  int64              `json:"x8,omitempty" protobuf:"varint,28,opt,name=x8" thrift:"28"`
	X09  int64              `json:"x9,omitempty" protobuf:"varint,29,opt,name=x9" thrift:"29"`
	X10  int64              `json:"x10,omitempty" protobuf:"varint,30,opt,name=x10" thrift:"30"`
	X11  int64              `json:"x11,omitempty" protobuf:"varint,31,opt,name=x11" thrift:"31"`
	X12  int64              `json:"x12,omitempty" protobuf:"varint,32,opt,name=x12" thrift:"32"`
	X13  int64              `json:"x13,omitempty" protobuf:"varint,33,opt,name=x13" thrift:"33"`
	X14  int64              `json:"x14,omitempty" protobuf:"varint,34,opt,name=x14" thrift:"34"`
	X15  int64              `json:"x15,omitempty" protobuf:"varint,35,opt,name=x15" thrift:"35"`
	X16  int64              `json:"x16,omitempty" protobuf:"varint,36,opt,name=x16" thrift:"36"`
	X17  int64              `json:"x17,omitempty" protobuf:"varint,37,opt,name=x17" thrift:"37"`
	X18  int64              `json:"x18,omitempty" protobuf:"varint,38,opt,name=x18" thrift:"38"`
	X19  int64              `json:"x19,omitempty" protobuf:"varint,39,opt,name=x19" thrift:"39"`
	X20  int64              `json:"x20,omitempty" protobuf:"varint,40,opt,name=x20" thrift:"40"`
	X21  int64              `json:"x21,omitempty" protobuf:"varint,41,opt,name=x21" thrift:"41"`
	X22  int64              `json:"x22,omitempty" protobuf:"varint,42,opt,name=x22" thrift:"42"`
	X23  int64              `json:"x23,omitempty" protobuf:"varint,43,opt,name=x23" thrift:"43"`
}

type Peer008 struct {
	Back *Rec008   `json:"back,omitempty" protobuf:"bytes,1,opt,name=back" thrift:"1"`
	List []*Rec008 `json:"list,omitempty" protobuf:"bytes,2,rep,name=list" thrift:"2"`
	B    bool      `json:"b" protobuf:"varint,3,opt,name=b" thrift:"3"`
}

type Rec009 struct {
	M    map[string]Peer009 `json:"m,omitempty" protobuf:"bytes,6,rep,name=m" protobuf_key:"bytes,1,opt,name=key" protobuf_val:"bytes,2,opt,name=value" thrift:"6"`
	V    int64              `json:"v" protobuf:"varint,1,opt,name=v" thrift:"1"`
	Next *Rec009            `json:"next,omitempty" protobuf:"bytes,2,opt,name=next" thrift:"2"`
	Kids []Rec009           `json:"kids,omitempty" protobuf:"bytes,3,rep,name=kids" thrift:"3"`
	Peer *Peer009           `json:"peer,omitempty" protobuf:"bytes,4,opt,name=peer" thrift:"4"`
	S    string             `json:"s,omitempty" protobuf:"bytes,5,opt,name=s" thrift:"5"`
	X00  int64              `json:"x0,omitempty" protobuf:"varint,20,opt,name=x0" thrift:"20"`
	X01  int64              `json:"x1,omitempty" protobuf:"varint,21,opt,name=x1" thrift:"21"`
	X02  int64              `json:"x2,omitempty" protobuf:"varint,22,opt,name=x2" thrift:"22"`
	X03  int64              `json:"x3,omitempty" protobuf:"varint,23,opt,name=x3" thrift:"23"`
	X04  int64              `json:"x4,omitempty" protobuf:"varint,24,opt,name=x4" thrift:"24"`
	X05  int64              `json:"x5,omitempty" protobuf:"varint,25,opt,name=x5" thrift:"25"`
	X06  int64              `json:"x6,omitempty" protobuf:"varint,26,opt,name=x6" thrift:"26"`
	X07  int64              `json:"x7,omitempty" protobuf:"varint,27,opt,name=x7" thrift:"27"`
	X08  int64              `json:"x8,omitempty" protobuf:"varint,28,opt,name=x8" thrift:"28"`
	X09  int64              `json:"x9,omitempty" protobuf:"varint,29,opt,name=x9" thrift:"29"`
	X10  int64              `json:"x10,omitempty" protobuf:"varint,30,opt,name=x10" thrift:"30"`
	X11  int64              `json:"x11,omitempty" protobuf:"varint,31,opt,name=x11" thrift:"31"`
	X12  int64              `json:"x12,omitempty" protobuf:"varint,32,opt,name=x12" thrift:"32"`
	X13  int64              `json:"x13,omitempty" protobuf:"varint,33,opt,name=x13" thrift:"33"`
	X14  int64              `json:"x14,omitempty" protobuf:"varint,34,opt,name=x14" thrift:"34"`
	X15  int64              `json:"x15,omitempty" protobuf:"varint,35,opt,name=x15" thrift:"35"`
	X16  int64              `json:"x16,omitempty" protobuf:"varint,36,opt,name=x16" thrift:"36"`
	X17  int64              `json:"x17,omitempty" protobuf:"varint,37,opt,name=x17" thrift:"37"`
	X18  int64              `json:"x18,omitempty" protobuf:"varint,38,opt,name=x18" thrift:"38"`
	X19  int64              `json:"x19,omitempty" protobuf:"varint,39,opt,name=x19" thrift:"39"`
	X20  int64              `json:"x20,omitempty" protobuf:"varint,40,opt,name=x20" thrift:"40"`
	X21  int64              `json:"x21,omitempty" protobuf:"varint,41,opt,name=x21" thrift:"41"`
	X22  int64              `json:"x22,omitempty" protobuf:"varint,42,opt,name=x22" thrift:"42"`
	X23  int64              `json:"x23,omitempty" protobuf:"varint,43,opt,name=x23" thrift:"43"`
}

type Peer009 struct {
	Back *Rec009   `json:"back,omitempty" protobuf:"bytes,1,opt,name=back" thrift:"1"`
	List []*Rec009 `json:"list,omitempty" protobuf:"bytes,2,rep,name=list" thrift:"2"`
	B    bool      `json:"b" protobuf:"varint,3,opt,name=b" thrift:"3"`
}

type Rec010 struct {
	M    map[string]Peer010 `json:"m,omitempty" protobuf:"bytes,6,rep,name=m" protobuf_key:"bytes,1,opt,name=key" protobuf_val:"bytes,2,opt,name=value" thrift:"6"`
	V    int64              `json:"v" protobuf:"varint,1,opt,name=v" thrift:"1"`
	Next *Rec010            `json:"next,omitempty" protobuf:"bytes,2,opt,name=next" thrift:"2"`
	Kids []Rec010           `json:"kids,omitempty" protobuf:"bytes,3,rep,name=kids" thrift:"3"`
	Peer *Peer010           `json:"peer,omitempty" protobuf:"bytes,4,opt,name=peer" thrift:"4"`
	S    string             `json:"s,omitempty" protobuf:"bytes,5,opt,name=s" thrift:"5"`
	X00  int64              `json:"x0,omitempty" protobuf:"varint,20,opt,name=x0" thrift:"20"`
	X01  int64              `json:"x1,omitempty" protobuf:"varint,21,opt,name=x1" thrift:"21"`
	X02  int64              `json:"x2,omitempty" protobuf:"varint,22,opt,name=x2" thrift:"22"`
	X03  int64              `json:"x3,omitempty" protobuf:"varint,23,opt,name=x3" thrift:"23"`
	X04  int64              `json:"x4,omitempty" protobuf:"varint,24,opt,name=x4" thrift:"24"`
	X05  int64              `json:"x5,omitempty" protobuf:"varint,25,opt,name=x5" thrift:"25"`
	X06  int64              `json:"x6,omitempty" protobuf:"varint,26,opt,name=x6" thrift:"26"`
	X07  int64              `json:"x7,omitempty" protobuf:"varint,27,opt,name=x7" thrift:"27"`
	X08  int64              `json:"x8,omitempty" protobuf:"varint,28,opt,name=x8" thrift:"28"`
	X09  int64              `json:"x9,omitempty" protobuf:"varint,29,opt,name=x9" thrift:"29"`
	X10  int64              `json:"x10,omitempty" protobuf:"varint,30,opt,name=x10" thrift:"30"`
	X11  int64              `json:"x11,omitempty" protobuf:"varint,31,opt,name=x11" thrift:"31"`
	X12  int64              `json:"x12,omitempty" protobuf:"varint,32,opt,name=x12" thrift:"32"`
	X13  int64              `json:"x13,omitempty" protobuf:"varint,33,opt,name=x13" thrift:"33"`
	X14  int64              `json:"x14,omitempty" protobuf:"varint,34,opt,name=x14" thrift:"34"`
	X15  int64              `json:"x15,omitempty" protobuf:"varint,35,opt,name=x15" thrift:"35"`
	X16  int64              `json:"x16,omitempty" protobuf:"varint,36,opt,name=x16" thrift:"36"`
	X17  int64              `json:"x17,omitempty" protobuf:"varint,37,opt,name=x17" thrift:"37"`
	X18  int64              `json:"x18,omitempty" protobuf:"varint,38,opt,name=x18" thrift:"38"`
	X19  int64              `json:"x19,omitempty" protobuf:"varint,39,opt,name=x19" thrift:"39"`
	X20  int64              `json:"x20,omitempty" protobuf:"varint,40,opt,name=x20" thrift:"40"`
	X21  int64              `json:"x21,omitempty" protobuf:"varint,41,opt,name=x21" thrift:"41"`
	X22  int64              `json:"x22,omitempty" protobuf:"varint,42,opt,name=x22" thrift:"42"`
	X23  int64              `json:"x23,omitempty" protobuf:"varint,43,opt,name=x23" thrift:"43"`
}

type Peer010 struct {
	Back *Rec010   `json:"back,omitempty" protobuf:"bytes,1,opt,name=back" thrift:"1"`
	List []*Rec010 `json:"list,omitempty" protobuf:"bytes,2,rep,name=list" thrift:"2"`
	B    bool      `json:"b" protobuf:"varint,3,opt,name=b" thrift:"3"`
}

type Rec011 struct {
	M    map[string]Peer011 `json:"m,omitempty" protobuf:"bytes,6,rep,name=m" protobuf_key:"bytes,1,opt,name=key" protobuf_val:"bytes,2,opt,name=value" thrift:"6"`
	V    int64              `json:"v" protobuf:"varint,1,opt,name=v" thrift:"1"`
	Next *Rec011            `json:"next,omitempty" protobuf:"bytes,2,opt,name=next" thrift:"2"`
	Kids []Rec011           `json:"kids,omitempty" protobuf:"bytes,3,rep,name=kids" thrift:"3"`
	Peer *Peer011           `json:"peer,omitempty" protobuf:"bytes,4,opt,name=peer" thrift:"4"`
	S    string             `json:"s,omitempty" protobuf:"bytes,5,opt,name=s" thrift:"5"`
	X00  int64              `json:"x0,omitempty" protobuf:"varint,20,opt,name=x0" thrift:"20"`
	X01  int64              `json:"x1,omitempty" protobuf:"varint,21,opt,name=x1" thrift:"21"`
	X02  int64              `json:"x2,omitempty" protobuf:"varint,22,opt,name=x2" thrift:"22"`
	X03  int64              `json:"x3,omitempty" protobuf:"varint,23,opt,name=x3" thrift:"23"`
	X04  int64              `json:"x4,omitempty" protobuf:"varint,24,opt,name=x4" thrift:"24"`
	X05  int64              `json:"x5,omitempty" protobuf:"varint,25,opt,name=x5" thrift:"25"`
	X06  int64              `json:"x6,omitempty" protobuf:"varint,26,opt,name=x6" thrift:"26"`
	X07  int64              `json:"x7,omitempty" protobuf:"varint,27,opt,name=x7" thrift:"27"`
	X08  int64              `json:"x8,omitempty" protobuf:"varint,28,opt,name=x8" thrift:"28"`
	X09  int64              `json:"x9,omitempty" protobuf:"varint,29,opt,name=x9" thrift:"29"`
	X10  int64              `json:"x10,omitempty" protobuf:"varint,30,opt,name=x10" thrift:"30"`
	X11  int64              `json:"x11,omitempty" protobuf:"varint,31,opt,name=x11" thrift:"31"`
	X12  int64              `json:"x12,omitempty" protobuf:"varint,32,opt,name=x12" thrift:"32"`
	X13  int64              `json:"x13,omitempty" protobuf:"varint,33,opt,name=x13" thrift:"33"`
	X14  int64              `json:"x14,omitempty" protobuf:"varint,34,opt,name=x14" thrift:"34"`
	X15  int64              `json:"x15,omitempty" protobuf:"varint,35,opt,name=x15" thrift:"35"`
	X16  int64              `json:"x16,omitempty" protobuf:"varint,36,opt,name=x16" thrift:"36"`
	X17  int64              `json:"x17,omitempty" protobuf:"varint,37,opt,name=x17" thrift:"37"`
	X18  int64              `json:"x18,omitempty" protobuf:"varint,38,opt,name=x18" thrift:"38"`
	X19  int64              `json:"x19,omitempty" protobuf:"varint,39,opt,name=x19" thrift:"39"`
	X20  int64              `json:"x20,omitempty" protobuf:"varint,40,opt,name=x20" thrift:"40"`
	X21  int64              `json:"x21,omitempty" protobuf:"varint,41,opt,name=x21" thrift:"41"`
	X22  int64              `json:"x22,omitempty" protobuf:"varint,42,opt,name=x22" thrift:"42"`
	X23  int64              `json:"x23,omitempty" protobuf:"varint,43,opt,name=x23" thrift:"43"`
}

type Peer011 struct {
	Back *Rec011   `json:"back,omitempty" protobuf:"bytes,1,opt,name=back" thrift:"1"`
	List []*Rec011 `json:"list,omitempty" protobuf:"bytes,2,rep,name=list" thrift:"2"`
	B    bool      `json:"b" protobuf:"varint,3,opt,name=b" thrift:"3"`
}

type Rec012 struct {
	M    map[string]Peer012 `json:"m,omitempty" protobuf:"bytes,6,rep,name=m" protobuf_key:"bytes,1,opt,name=key" protobuf_val:"bytes,2,opt,name=value" thrift:"6"`
	V    int64              `json:"v" protobuf:"varint,1,opt,name=v" thrift:"1"`
	Next *Rec012            `json:"next,omitempty" protobuf:"bytes,2,opt,name=next" thrift:"2"`
	Kids []Rec012           `json:"kids,omitempty" protobuf:"bytes,3,rep,name=kids" thrift:"3"`
	Peer *Peer012           `json:"peer,omitempty" protobuf:"bytes,4,opt,name=peer" thrift:"4"`
	S    string             `json:"s,omitempty" protobuf:"bytes,5,opt,name=s" thrift:"5"`
	X00  int64              `json:"x0,omitempty" protobuf:"varint,20,opt,name=x0" thrift:"20"`
	X01  int64              `json:"x1,omitempty" protobuf:"varint,21,opt,name=x1" thrift:"21"`
	X02  int64              `json:"x2,omitempty" protobuf:"varint,22,opt,name=x2" thrift:"22"`
	X03  int64              `json:"x3,omitempty" protobuf:"varint,23,opt,name=x3" thrift:"23"`
	X04  int64              `json:"x4,omitempty" protobuf:"varint,24,opt,name=x4" thrift:"24"`
	X05  int64              `json:"x5,omitempty" protobuf:"varint,25,opt,name=x5" thrift:"25"`
	X06  int64              `json:"x6,omitempty" protobuf:"varint,26,opt,name=x6" thrift:"26"`
	X07  int64              `json:"x7,omitempty" protobuf:"varint,27,opt,name=x7" thrift:"27"`
	X08  int64              `json:"x8,omitempty" protobuf:"varint,28,opt,name=x8" thrift:"28"`
	X09  int64              `json:"x9,omitempty" protobuf:"varint,29,opt,name=x9" thrift:"29"`
	X10  int64              `json:"x10,omitempty" protobuf:"varint,30,opt,name=x10" thrift:"30"`
	X11  int64              `json:"x11,omitempty" protobuf:"varint,31,opt,name=x11" thrift:"31"`
	X12  int64              `json:"x12,omitempty" protobuf:"varint,32,opt,name=x12" thrift:"32"`
	X13  int64              `json:"x13,omitempty" protobuf:"varint,33,opt,name=x13" thrift:"33"`
	X14  int64              `json:"x14,omitempty" protobuf:"varint,34,opt,name=x14" thrift:"34"`
	X15  int64              `json:"x15,omitempty" protobuf:"varint,35,opt,name=x15" thrift:"35"`
	X16  int64              `json:"x16,omitempty" protobuf:"varint,36,opt,name=x16" thrift:"36"`
	X17  int64              `json:"x17,omitempty" protobuf:"varint,37,opt,name=x17" thrift:"37"`
	X18  int64              `json:"x18,omitempty" protobuf:"varint,38,opt,name=x18" thrift:"38"`
	X19  int64              `json:"x19,omitempty" protobuf:"varint,39,opt,name=x19" thrift:"39"`
	X20  int64              `json:"x20,omitempty" protobuf:"varint,40,opt,name=x20" thrift:"40"`
	X21  int64              `json:"x21,omitempty" protobuf:"varint,41,opt,name=x21" thrift:"41"`
	X22  int64              `json:"x22,omitempty" protobuf:"varint,42,opt,name=x22" thrift:"42"`
	X23  int64              `json:"x23,omitempty" protobuf:"varint,43,opt,name=x23" thrift:"43"`
}

type Peer012 struct {
	Back *Rec012   `json:"back,omitempty" protobuf:"bytes,1,opt,name=back" thrift:"1"`
	List []*Rec012 `json:"list,omitempty" protobuf:"bytes,2,rep,name=list" thrift:"2"`
	B    bool      `json:"b" protobuf:"varint,3,opt,name=b" thrift:"3"`
}

type Rec013 struct {
	M    map[string]Peer013 `json:"m,omitempty" protobuf:"bytes,6,rep,name=m" protobuf_key:"bytes,1,opt,name=key" protobuf_val:"bytes,2,opt,name=value" thrift:"6"`
	V    int64              `json:"v" protobuf:"varint,1,opt,name=v" thrift:"1"`
	Next *Rec013            `json:"next,omitempty" protobuf:"bytes,2,opt,name=next" thrift:"2"`
	Kids []Rec013           `json:"kids,omitempty" protobuf:"bytes,3,rep,name=kids" thrift:"3"`
	Peer *Peer013           `json:"peer,omitempty" protobuf:"bytes,4,opt,name=peer" thrift:"4"`
	S    string             `json:"s,omitempty" protobuf:"bytes,5,opt,name=s" thrift:"5"`
	X00  int64              `json:"x0,omitempty" protobuf:"varint,20,opt,name=x0" thrift:"20"`
	X01  int64              `json:"x1,omitempty" protobuf:"varint,21,opt,name=x1" thrift:"21"`
	X02  int64              `json:"x2,omitempty" protobuf:"varint,22,opt,name=x2" thrift:"22"`
	X03  int64              `json:"x3,omitempty" protobuf:"varint,23,opt,name=x3" thrift:"23"`
	X04  int64              `json:"x4,omitempty" protobuf:"varint,24,opt,name=x4" thrift:"24"`
	X05  int64              `json:"x5,omitempty" protobuf:"varint,25,opt,name=x5" thrift:"25"`
	X06  int64              `json:"x6,omitempty" protobuf:"varint,26,opt,name=x6" thrift:"26"`
	X07  int64              `json:"x7,omitempty" protobuf:"varint,27,opt,name=x7" thrift:"27"`
	X08  int64              `json:"x8,omitempty" protobuf:"varint,28,opt,name=x8" thrift:"28"`
	X09  int64              `json:"x9,omitempty" protobuf:"varint,29,opt,name=x9" thrift:"29"`
	X10  int64              `json:"x10,omitempty" protobuf:"varint,30,opt,name=x10" thrift:"30"`
	X11  int64              `json:"x11,omitempty" protobuf:"varint,31,opt,name=x11" thrift:"31"`
	X12  int64              `json:"x12,omitempty" protobuf:"varint,32,opt,name=x12" thrift:"32"`
	X13  int64              `json:"x13,omitempty" protobuf:"varint,33,opt,name=x13" thrift:"33"`
	X14  int64              `json:"x14,omitempty" protobuf:"varint,34,opt,name=x14" thrift:"34"`
	X15  int64              `json:"x15,omitempty" protobuf:"varint,35,opt,name=x15" thrift:"35"`
	X16  int64              `json:"x16,omitempty" protobuf:"varint,36,opt,name=x16" thrift:"36"`
	X17  int64              `json:"x17,omitempty" protobuf:"varint,37,opt,name=x17" thrift:"37"`
	X18  int64              `json:"x18,omitempty" protobuf:"varint,38,opt,name=x18" thrift:"38"`
	X19  int64              `json:"x19,omitempty" protobuf:"varint,39,opt,name=x19" thrift:"39"`
	X20  int64              `json:"x20,omitempty" protobuf:"varint,40,opt,name=x20" thrift:"40"`
	X21  int64              `json:"x21,omitempty" protobuf:"varint,41,opt,name=x21" thrift:"41"`
	X22  int64              `json:"x22,omitempty" protobuf:"varint,42,opt,name=x22" thrift:"42"`
	X23  int64              `json:"x23,omitempty" protobuf:"varint,43,opt,name=x23" thrift:"43"`
}

type Peer013 struct {
	Back *Rec013   `json:"back,omitempty" protobuf:"bytes,1,opt,name=back" thrift:"1"`
	List []*Rec013 `json:"list,omitempty" protobuf:"bytes,2,rep,name=list" thrift:"2"`
	B    bool      `json:"b" protobuf:"varint,3,opt,name=b" thrift:"3"`
}

type Rec014 struct {
	M    map[string]Peer014 `json:"m,omitempty" protobuf:"bytes,6,rep,name=m" protobuf_key:"bytes,1,opt,name=key" protobuf_val:"bytes,2,opt,name=value" thrift:"6"`
	V    int64              `json:"v" protobuf:"varint,1,opt,name=v" thrift:"1"`
	Next *Rec014            `json:"next,omitempty" protobuf:"bytes,2,opt,name=next" thrift:"2"`
	Kids []Rec014           `json:"kids,omitempty" protobuf:"bytes,3,rep,name=kids" thrift:"3"`
	Peer *Peer014           `json:"peer,omitempty" protobuf:"bytes,4,opt,name=peer" thrift:"4"`
	S    string             `json:"s,omitempty" protobuf:"bytes,5,opt,name=s" thrift:"5"`
	X00  int64              `json:"x0,omitempty" protobuf:"varint,20,opt,name=x0" thrift:"20"`
	X01  int64              `json:"x1,omitempty" protobuf:"varint,21,opt,name=x1" thrift:"21"`
	X02  int64              `json:"x2,omitempty" protobuf:"varint,22,opt,name=x2" thrift:"22"`
	X03  int64              `json:"x3,omitempty" protobuf:"varint,23,opt,name=x3" thrift:"23"`
	X04  int64              `json:"x4,omitempty" protobuf:"varint,24,opt,name=x4" thrift:"24"`
	X05  int64              `json:"x5,omitempty" protobuf:"varint,25,opt,name=x5" thrift:"25"`
	X06  int64              `json:"x6,omitempty" protobuf:"varint,26,opt,name=x6" thrift:"26"`
	X07  int64              `json:"x7,omitempty" protobuf:"varint,27,opt,name=x7" thrift:"27"`
	X08  int64              `json:"x8,omitempty" protobuf:"varint,28,opt,name=x8" thrift:"28"`
	X09  int64              `json:"x9,omitempty" protobuf:"varint,29,opt,name=x9" thrift:"29"`
	X10  int64              `json:"x10,omitempty" protobuf:"varint,30,opt,name=x10" thrift:"30"`
	X11  int64              `json:"x11,omitempty" protobuf:"varint,31,opt,name=x11" thrift:"31"`
	X12  int64              `json:"x12,omitempty" protobuf:"varint,32,opt,name=x12" thrift:"32"`
	X13  int64              `json:"x13,omitempty" protobuf:"varint,33,opt,name=x13" thrift:"33"`
	X14  int64              `json:"x14,omitempty" protobuf:"varint,34,opt,name=x14" thrift:"34"`
	X15  int64              `json:"x15,omitempty" protobuf:"varint,35,opt,name=x15" thrift:"35"`
	X16  int64              `json:"x16,omitempty" protobuf:"varint,36,opt,name=x16" thrift:"36"`
	X17  int64              `json:"x17,omitempty" protobuf:"varint,37,opt,name=x17" thrift:"37"`
	X18  int64              `json:"x18,omitempty" protobuf:"varint,38,opt,name=x18" thrift:"38"`
	X19  int64              `json:"x19,omitempty" protobuf:"varint,39,opt,name=x19" thrift:"39"`
	X20  int64              `json:"x20,omitempty" protobuf:"varint,40,opt,name=x20" thrift:"40"`
	X21  int64              `json:"x21,omitempty" protobuf:"varint,41,opt,name=x21" thrift:"41"`
	X22  int64              `json:"x22,omitempty" protobuf:"varint,42,opt,name=x22" thrift:"42"`
	X23  int64              `json:"x23,omitempty" protobuf:"varint,43,opt,name=x23" thrift:"43"`
}

type Peer014 struct {
	Back *Rec014   `json:"back,omitempty" protobuf:"bytes,1,opt,name=back" thrift:"1"`
	List []*Rec014 `json:"list,omitempty" protobuf:"bytes,2,rep,name=list" thrift:"2"`
	B    bool      `json:"b" protobuf:"varint,3,opt,name=b" thrift:"3"`
}

type Rec015 struct {
	M    map[string]Peer015 `json:"m,omitempty" protobuf:"bytes,6,rep,name=m" protobuf_key:"bytes,1,opt,name=key" protobuf_val:"bytes,2,opt,name=value" thrift:"6"`
	V    int64              `json:"v" protobuf:"varint,1,opt,name=v" thrift:"1"`
	Next *Rec015            `json:"next,omitempty" protobuf:"bytes,2,opt,name=next" thrift:"2"`
	Kids []Rec015           `json:"kids,omitempty" protobuf:"bytes,3,rep,name=kids" thrift:"3"`
	Peer *Peer015           `json:"peer,omitempty" protobuf:"bytes,4,opt,name=peer" thrift:"4"`
	S    string             `json:"s,omitempty" protobuf:"bytes,5,opt,name=s" thrift:"5"`
	X00  int64              `json:"x0,omitempty" protobuf:"varint,20,opt,name=x0" thrift:"20"`
	X01  int64              `json:"x1,omitempty" protobuf:"varint,21,opt,name=x1" thrift:"21"`
	X02  int64              `json:"x2,omitempty" protobuf:"varint,22,opt,name=x2" thrift:"22"`
	X03  int64              `json:"x3,omitempty" protobuf:"varint,23,opt,name=x3" thrift:"23"`
	X04  int64              `json:"x4,omitempty" protobuf:"varint,24,opt,name=x4" thrift:"24"`
	X05  int64              `json:"x5,omitempty" protobuf:"varint,25,opt,name=x5" thrift:"25"`
	X06  int64              `json:"x6,omitempty" protobuf:"varint,26,opt,name=x6" thrift:"26"`
	X07  int64              `json:"x7,omitempty" protobuf:"varint,27,opt,name=x7" thrift:"27"`
	X08  int64              `json:"x8,omitempty" protobuf:"varint,28,opt,name=x8" thrift:"28"`
	X09  int64              `json:"x9,omitempty" protobuf:"varint,29,opt,name=x9" thrift:"29"`
	X10  int64              `json:"x10,omitempty" protobuf:"varint,30,opt,name=x10" thrift:"30"`
	X11  int64              `json:"x11,omitempty" protobuf:"varint,31,opt,name=x11" thrift:"31"`
	X12  int64              `json:"x12,omitempty" protobuf:"varint,32,opt,name=x12" thrift:"32"`
	X13  int64              `json:"x13,omitempty" protobuf:"varint,33,opt,name=x13" thrift:"33"`
	X14  int64              `json:"x14,omitempty" protobuf:"varint,34,opt,name=x14" thrift:"34"`
	X15  int64              `json:"x15,omitempty" protobuf:"varint,35,opt,name=x15" thrift:"35"`
	X16  int64              `json:"x16,omitempty" protobuf:"varint,36,opt,name=x16" thrift:"36"`
	X17  int64              `json:"x17,omitempty" protobuf:"varint,37,opt,name=x17" thrift:"37"`
	X18  int64              `json:"x18,omitempty" protobuf:"varint,38,opt,name=x18" thrift:"38"`
	X19  int64              `json:"x19,omitempty" protobuf:"varint,39,opt,name=x19" thrift:"39"`
	X20  int64              `json:"x20,omitempty" protobuf:"varint,40,opt,name=x20" thrift:"40"`
	X21  int64              `json:"x21,omitempty" protobuf:"varint,41,opt,name=x21" thrift:"41"`
	X22  int64              `json:"x22,omitempty" protobuf:"varint,42,opt,name=x22" thrift:"42"`
	X23  int64              `json:"x23,omitempty" protobuf:"varint,43,opt,name=x23" thrift:"43"`
}

type Peer015 struct {
	Back *Rec015   `json:"back,omitempty" protobuf:"bytes,1,opt,name=back" thrift:"1"`
	List []*Rec015 `json:"list,omitempty" protobuf:"bytes,2,rep,name=list" thrift:"2"`
	B    bool      `json:"b" protobuf:"varint,3,opt,name=b" thrift:"3"`
}

type Rec016 struct {
	M    map[string]Peer016 `json:"m,omitempty" protobuf:"bytes,6,rep,name=m" protobuf_key:"bytes,1,opt,name=key" protobuf_val:"bytes,2,opt,name=value" thrift:"6"`
	V    int64              `json:"v" protobuf:"varint,1,opt,name=v" thrift:"1"`
	Next *Rec016            `json:"next,omitempty" protobuf:"bytes,2,opt,name=next" thrift:"2"`
	Kids []Rec016           `json:"kids,omitempty" protobuf:"bytes,3,rep,name=kids" thrift:"3"`
	Peer *Peer016           `json:"peer,omitempty" protobuf:"bytes,4,opt,name=peer" thrift:"4"`
	S    string             `json:"s,omitempty" protobuf:"bytes,5,opt,name=s" thrift:"5"`
	X00  int64              `json:"x0,omitempty" protobuf:"varint,20,opt,name=x0" thrift:"20"`
	X01  int64              `json:"x1,omitempty" protobuf:"varint,21,opt,name=x1" thrift:"21"`
	X02  int64              `json:"x2,omitempty" protobuf:"varint,22,opt,name=x2" thrift:"22"`
	X03  int64              `json:"x3,omitempty" protobuf:"varint,23,opt,name=x3" thrift:"23"`
	X04  int64              `json:"x4,omitempty" protobuf:"varint,24,opt,name=x4" thrift:"24"`
	X05  int64              `json:"x5,omitempty" protobuf:"varint,25,opt,name=x5" thrift:"25"`
	X06  int64              `json:"x6,omitempty" protobuf:"varint,26,opt,name=x6" thrift:"26"`
	X07  int64              `json:"x7,omitempty" protobuf:"varint,27,opt,name=x7" thrift:"27"`
	X08  int64              `json:"x8,omitempty" protobuf:"varint,28,opt,name=x8" thrift:"28"`
	X09  int64              `json:"x9,omitempty" protobuf:"varint,29,opt,name=x9" thrift:"29"`
	X10  int64              `json:"x10,omitempty" protobuf:"varint,30,opt,name=x10" thrift:"30"`
	X11  int64              `json:"x11,omitempty" protobuf:"varint,31,opt,name=x11" thrift:"31"`
	X12  int64              `json:"x12,omitempty" protobuf:"varint,32,opt,name=x12" thrift:"32"`
	X13  int64              `json:"x13,omitempty" protobuf:"varint,33,opt,name=x13" thrift:"33"`
	X14  int64              `json:"x14,omitempty" protobuf:"varint,34,opt,name=x14" thrift:"34"`
	X15  int64              `json:"x15,omitempty" protobuf:"varint,35,opt,name=x15" thrift:"35"`
	X16  int64              `json:"x16,omitempty" protobuf:"varint,36,opt,name=x16" thrift:"36"`
	X17  int64              `json:"x17,omitempty" protobuf:"varint,37,opt,name=x17" thrift:"37"`
	X18  int64              `json:"x18,omitempty" protobuf:"varint,38,opt,name=x18" thrift:"38"`
	X19  int64              `json:"x19,omitempty" protobuf:"varint,39,opt,name=x19" thrift:"39"`
	X20  int64              `json:"x20,omitempty" protobuf:"varint,40,opt,name=x20" thrift:"40"`
	X21  int64              `json:"x21,omitempty" protobuf:"varint,41,opt,name=x21" thrift:"41"`
	X22  int64              `json:"x22,omitempty" protobuf:"varint,42,opt,name=x22" thrift:"42"`
	X23  int64              `json:"x23,omitempty" protobuf:"varint,43,opt,name=x23" thrift:"43"`
}

type Peer016 struct {
	Back *Rec016   `json:"back,omitempty" protobuf:"bytes,1,opt,name=back" thrift:"1"`
	List []*Rec016 `json:"list,omitempty" protobuf:"bytes,2,rep,name=list" thrift:"2"`
	B    bool      `json:"b" protobuf:"varint,3,opt,name=b" thrift:"3"`
}

type Rec017 struct {
	M    map[string]Peer017 `json:"m,omitempty" protobuf:"bytes,6,rep,name=m" protobuf_key:"bytes,1,opt,name=key" protobuf_val:"bytes,2,opt,name=value" thrift:"6"`
	V    int64              `json:"v" protobuf:"varint,1,opt,name=v" thrift:"1"`
	Next *Rec017            `json:"next,omitempty" protobuf:"bytes,2,opt,name=next" thrift:"2"`
	Kids []Rec017           `json:"kids,omitempty" protobuf:"bytes,3,rep,name=kids" thrift:"3"`
	Peer *Peer017           `json:"peer,omitempty" protobuf:"bytes,4,opt,name=peer" thrift:"4"`
	S    string             `json:"s,omitempty" protobuf:"bytes,5,opt,name=s" thrift:"5"`
	X00  int64              `json:"x0,omitempty" protobuf:"varint,20,opt,name=x0" thrift:"20"`
	X01  int64              `json:"x1,omitempty" protobuf:"varint,21,opt,name=x1" thrift:"21"`
	X02  int64              `json:"x2,omitempty" protobuf:"varint,22,opt,name=x2" thrift:"22"`
	X03  int64              `json:"x3,omitempty" protobuf:"varint,23,opt,name=x3" thrift:"23"`
	X04  int64              `json:"x4,omitempty" protobuf:"varint,24,opt,name=x4" thrift:"24"`
	X05  int64              `json:"x5,omitempty" protobuf:"varint,25,opt,name=x5" thrift:"25"`
	X06  int64              `json:"x6,omitempty" protobuf:"varint,26,opt,name=x6" thrift:"26"`
	X07  int64              `json:"x7,omitempty" protobuf:"varint,27,opt,name=x7" thrift:"27"`
	X08  int64              `json:"x8,omitempty" protobuf:"varint,28,opt,name=x8" thrift:"28"`
	X09  int64              `json:"x9,omitempty" protobuf:"varint,29,opt,name=x9" thrift:"29"`
	X10  int64              `json:"x10,omitempty" protobuf:"varint,30,opt,name=x10" thrift:"30"`
	X11  int64              `json:"x11,omitempty" protobuf:"varint,31,opt,name=x11" thrift:"31"`
	X12  int64              `json:"x12,omitempty" protobuf:"varint,32,opt,name=x12" thrift:"32"`
	X13  int64              `json:"x13,omitempty" protobuf:"varint,33,opt,name=x13" thrift:"33"`
	X14  int64              `json:"x14,omitempty" protobuf:"varint,34,opt,name=x14" thrift:"34"`
	X15  int64              `json:"x15,omitempty" protobuf:"varint,35,opt,name=x15" thrift:"35"`
	X16  int64              `json:"x16,omitempty" protobuf:"varint,36,opt,name=x16" thrift:"36"`
	X17  int64              `json:"x17,omitempty" protobuf:"varint,37,opt,name=x17" thrift:"37"`
	X18  int64              `json:"x18,omitempty" protobuf:"varint,38,opt,name=x18" thrift:"38"`
	X19  int64              `json:"x19,omitempty" protobuf:"varint,39,opt,name=x19" thrift:"39"`
	X20  int64              `json:"x20,omitempty" protobuf:"varint,40,opt,name=x20" thrift:"40"`
	X21  int64              `json:"x21,omitempty" protobuf:"varint,41,opt,name=x21" thrift:"41"`
	X22  int64              `json:"x22,omitempty" protobuf:"varint,42,opt,name=x22" thrift:"42"`
	X23  int64              `json:"x23,omitempty" protobuf:"varint,43,opt,name=x23" thrift:"43"`
}

type Peer017 struct {
	Back *Rec017   `json:"back,omitempty" protobuf:"bytes,1,opt,name=back" thrift:"1"`
	List []*Rec017 `json:"list,omitempty" protobuf:"bytes,2,rep,name=list" thrift:"2"`
	B    bool      `json:"b" protobuf:"varint,3,opt,name=b" thrift:"3"`
}

type Rec018 struct {
	M    map[string]Peer018 `json:"m,omitempty" protobuf:"bytes,6,rep,name=m" protobuf_key:"bytes,1,opt,name=key" protobuf_val:"bytes,2,opt,name=value" thrift:"6"`
	V    int64              `json:"v" protobuf:"varint,1,opt,name=v" thrift:"1"`
	Next *Rec018            `json:"next,omitempty" protobuf:"bytes,2,opt,name=next" thrift:"2"`
	Kids []Rec018           `json:"kids,omitempty" protobuf:"bytes,3,rep,name=kids" thrift:"3"`
	Peer *Peer018           `json:"peer,omitempty" protobuf:"bytes,4,opt,name=peer" thrift:"4"`
	S    string             `json:"s,omitempty" protobuf:"bytes,5,opt,name=s" thrift:"5"`
	X00  int64              `json:"x0,omitempty" protobuf:"varint,20,opt,name=x0" thrift:"20"`
	X01  int64              `json:"x1,omitempty" protobuf:"varint,21,opt,name=x1" thrift:"21"`
	X02  int64              `json:"x2,omitempty" protobuf:"varint,22,opt,name=x2" thrift:"22"`
	X03  int64              `json:"x3,omitempty" protobuf:"varint,23,opt,name=x3" thrift:"23"`
	X04  int64              `json:"x4,omitempty" protobuf:"varint,24,opt,name=x4" thrift:"24"`
	X05  int64              `json:"x5,omitempty" protobuf:"varint,25,opt,name=x5" thrift:"25"`
	X06  int64              `json:"x6,omitempty" protobuf:"varint,26,opt,name=x6" thrift:"26"`
	X07  int64              `json:"x7,omitempty" protobuf:"varint,27,opt,name=x7" thrift:"27"`
	X08  int64              `json:"x8,omitempty" protobuf:"varint,28,opt,name=x8" thrift:"28"`
	X09  int64              `json:"x9,omitempty" protobuf:"varint,29,opt,name=x9" thrift:"29"`
	X10  int64              `json:"x10,omitempty" protobuf:"varint,30,opt,name=x10" thrift:"30"`
	X11  int64              `json:"x11,omitempty" protobuf:"varint,31,opt,name=x11" thrift:"31"`
	X12  int64              `json:"x12,omitempty" protobuf:"varint,32,opt,name=x12" thrift:"32"`
	X13  int64              `json:"x13,omitempty" protobuf:"varint,33,opt,name=x13" thrift:"33"`
	X14  int64              `json:"x14,omitempty" protobuf:"varint,34,opt,name=x14" thrift:"34"`
	X15  int64              `json:"x15,omitempty" protobuf:"varint,35,opt,name=x15" thrift:"35"`
	X16  int64              `json:"x16,omitempty" protobuf:"varint,36,opt,name=x16" thrift:"36"`
	X17  int64              `json:"x17,omitempty" protobuf:"varint,37,opt,name=x17" thrift:"37"`
	X18  int64              `json:"x18,omitempty" protobuf:"varint,38,opt,name=x18" thrift:"38"`
	X19  int64              `json:"x19,omitempty" protobuf:"varint,39,opt,name=x19" thrift:"39"`
	X20  int64              `json:"x20,omitempty" protobuf:"varint,40,opt,name=x20" thrift:"40"`
	X21  int64              `json:"x21,omitempty" protobuf:"varint,41,opt,name=x21" thrift:"41"`
	X22  int64              `json:"x22,omitempty" protobuf:"varint,42,opt,name=x22" thrift:"42"`
	X23  int64              `json:"x23,omitempty" protobuf:"varint,43,opt,name=x23" thrift:"43"`
}

type Peer018 struct {
	Back *Rec018   `json:"back,omitempty" protobuf:"bytes,1,opt,name=back" thrift:"1"`
	List []*Rec018 `json:"list,omitempty" protobuf:"bytes,2,rep,name=list" thrift:"2"`
	B    bool      `json:"b" protobuf:"varint,3,opt,name=b" thrift:"3"`
}

type Rec019 struct {
	M    map[string]Peer019 `json:"m,omitempty" protobuf:"bytes,6,rep,name=m" protobuf_key:"bytes,1,opt,name=key" protobuf_val:"bytes,2,opt,name=value" thrift:"6"`
	V    int64              `json:"v" protobuf:"varint,1,opt,name=v" thrift:"1"`
	Next *Rec019            `json:"next,omitempty" protobuf:"bytes,2,opt,name=next" thrift:"2"`
	Kids []Rec019           `json:"kids,omitempty" protobuf:"bytes,3,rep,name=kids" thrift:"3"`
	Peer *Peer019           `json:"peer,omitempty" protobuf:"bytes,4,opt,name=peer" thrift:"4"`
	S    string             `json:"s,omitempty" protobuf:"bytes,5,opt,name=s" thrift:"5"`
	X00  int64              `json:"x0,omitempty" protobuf:"varint,20,opt,name=x0" thrift:"20"`
	X01  int64              `json:"x1,omitempty" protobuf:"varint,21,opt,name=x1" thrift:"21"`
	X02  int64              `json:"x2,omitempty" protobuf:"varint,22,opt,name=x2" thrift:"22"`
	X03  int64              `json:"x3,omitempty" protobuf:"varint,23,opt,name=x3" thrift:"23"`
	X04  int64              `json:"x4,omitempty" protobuf:"varint,24,opt,name=x4" thrift:"24"`
	X05  int64              `json:"x5,omitempty" protobuf:"varint,25,opt,name=x5" thrift:"25"`
	X06  int64              `json:"x6,omitempty" protobuf:"varint,26,opt,name=x6" thrift:"26"`
	X07  int64              `json:"x7,omitempty" protobuf:"varint,27,opt,name=x7" thrift:"27"`
	X08  int64              `json:"x8,omitempty" protobuf:"varint,28,opt,name=x8" thrift:"28"`
	X09  int64              `json:"x9,omitempty" protobuf:"varint,29,opt,name=x9" thrift:"29"`
	X10  int64              `json:"x10,omitempty" protobuf:"varint,30,opt,name=x10" thrift:"30"`
	X11  int64              `json:"x11,omitempty" protobuf:"varint,31,opt,name=x11" thrift:"31"`
	X12  int64              `json:"x12,omitempty" protobuf:"varint,32,opt,name=x12" thrift:"32"`
	X13  int64              `json:"x13,omitempty" protobuf:"varint,33,opt,name=x13" thrift:"33"`
	X14  int64              `json:"x14,omitempty" protobuf:"varint,34,opt,name=x14" thrift:"34"`
	X15  int64              `json:"x15,omitempty" protobuf:"varint,35,opt,name=x15" thrift:"35"`
	X16  int64              `json:"x16,omitempty" protobuf:"varint,36,opt,name=x16" thrift:"36"`
	X17  int64              `json:"x17,omitempty" protobuf:"varint,37,opt,name=x17" thrift:"37"`
	X18  int64              `json:"x18,omitempty" protobuf:"varint,38,opt,name=x18" thrift:"38"`
	X19  int64              `json:"x19,omitempty" protobuf:"varint,39,opt,name=x19" thrift:"39"`
	X20  int64              `json:"x20,omitempty" protobuf:"varint,40,opt,name=x20" thrift:"40"`
	X21  int64              `json:"x21,omitempty" protobuf:"varint,41,opt,name=x21" thrift:"41"`
	X22  int64              `json:"x22,omitempty" protobuf:"varint,42,opt,name=x22" thrift:"42"`
	X23  int64              `json:"x23,omitempty" protobuf:"varint,43,opt,name=x23" thrift:"43"`
}

type Peer019 struct {
	Back *Rec019   `json:"back,omitempty" protobuf:"bytes,1,opt,name=back" thrift:"1"`
	List []*Rec019 `json:"list,omitempty" protobuf:"bytes,2,rep,name=list" thrift:"2"`
	B    bool      `json:"b" protobuf:"varint,3,opt,name=b" thrift:"3"`
}

type Rec020 struct {
	M    map[string]Peer020 `json:"m,omitempty" protobuf:"bytes,6,rep,name=m" protobuf_key:"bytes,1,opt,name=key" protobuf_val:"bytes,2,opt,name=value" thrift:"6"`
	V    int64              `json:"v" protobuf:"varint,1,opt,name=v" thrift:"1"`
	Next *Rec020            `json:"next,omitempty" protobuf:"bytes,2,opt,name=next" thrift:"2"`
	Kids []Rec020           `json:"kids,omitempty" protobuf:"bytes,3,rep,name=kids" thrift:"3"`
	Peer *Peer020           `json:"peer,omitempty" protobuf:"bytes,4,opt,name=peer" thrift:"4"`
	S    string             `json:"s,omitempty" protobuf:"bytes,5,opt,name=s" thrift:"5"`
	X00  int64              `json:"x0,omitempty" protobuf:"varint,20,opt,name=x0" thrift:"20"`
	X01  int64              `json:"x1,omitempty" protobuf:"varint,21,opt,name=x1" thrift:"21"`
	X02  int64              `json:"x2,omitempty" protobuf:"varint,22,opt,name=x2" thrift:"22"`
	X03  int64              `json:"x3,omitempty" protobuf:"varint,23,opt,name=x3" thrift:"23"`
	X04  int64              `json:"x4,omitempty" protobuf:"varint,24,opt,name=x4" thrift:"24"`
	X05  int64              `json:"x5,omitempty" protobuf:"varint,25,opt,name=x5" thrift:"25"`
	X06  int64              `json:"x6,omitempty" protobuf:"varint,26,opt,name=x6" thrift:"26"`
	X07  int64              `json:"x7,omitempty" protobuf:"varint,27,opt,name=x7" thrift:"27"`
	X08  int64              `json:"x8,omitempty" protobuf:"varint,28,opt,name=x8" thrift:"28"`
	X09  int64              `json:"x9,omitempty" protobuf:"varint,29,opt,name=x9" thrift:"29"`
	X10  int64              `json:"x10,omitempty" protobuf:"varint,30,opt,name=x10" thrift:"30"`
	X11  int64              `json:"x11,omitempty" protobuf:"varint,31,opt,name=x11" thrift:"31"`
	X12  int64              `json:"x12,omitempty" protobuf:"varint,32,opt,name=x12" thrift:"32"`
	X13  int64              `json:"x13,omitempty" protobuf:"varint,33,opt,name=x13" thrift:"33"`
	X14  int64              `json:"x14,omitempty" protobuf:"varint,34,opt,name=x14" thrift:"34"`
	X15  int64              `json:"x15,omitempty" protobuf:"varint,35,opt,name=x15" thrift:"35"`
	X16  int64              `json:"x16,omitempty" protobuf:"varint,36,opt,name=x16" thrift:"36"`
	X17  int64              `json:"x17,omitempty" protobuf:"varint,37,opt,name=x17" thrift:"37"`
	X18  int64              `json:"x18,omitempty" protobuf:"varint,38,opt,name=x18" thrift:"38"`
	X19  int64              `json:"x19,omitempty" protobuf:"varint,39,opt,name=x19" thrift:"39"`
	X20  int64              `json:"x20,omitempty" protobuf:"varint,40,opt,name=x20" thrift:"40"`
	X21  int64              `json:"x21,omitempty" protobuf:"varint,41,opt,name=x21" thrift:"41"`
	X22  int64              `json:"x22,omitempty" protobuf:"varint,42,opt,name=x22" thrift:"42"`
	X23  int64              `json:"x23,omitempty" protobuf:"varint,43,opt,name=x23" thrift:"43"`
}

type Peer020 struct {
	Back *Rec020   `json:"back,omitempty" protobuf:"bytes,1,opt,name=back" thrift:"1"`
	List []*Rec020 `json:"list,omitempty" protobuf:"bytes,2,rep,name=list" thrift:"2"`
	B    bool      `json:"b" protobuf:"varint,3,opt,name=b" thrift:"3"`
}

type Rec021 struct {
	M    map[string]Peer021 `json:"m,omitempty" protobuf:"bytes,6,rep,name=m" protobuf_key:"bytes,1,opt,name=key" protobuf_val:"bytes,2,opt,name=value" thrift:"6"`
	V    int64              `json:"v" protobuf:"varint,1,opt,name=v" thrift:"1"`
	Next *Rec021            `json:"next,omitempty" protobuf:"bytes,2,opt,name=next" thrift:"2"`
	Kids []Rec021           `json:"kids,omitempty" protobuf:"bytes,3,rep,name=kids" thrift:"3"`
	Peer *Peer021           `json:"peer,omitempty" protobuf:"bytes,4,opt,name=peer" thrift:"4"`
	S    string             `json:"s,omitempty" protobuf:"bytes,5,opt,name=s" thrift:"5"`
	X00  int64              `json:"x0,omitempty" protobuf:"varint,20,opt,name=x0" thrift:"20"`
	X01  int64              `json:"x1,omitempty" protobuf:"varint,21,opt,name=x1" thrift:"21"`
	X02  int64              `json:"x2,omitempty" protobuf:"varint,22,opt,name=x2" thrift:"22"`
	X03  int64              `json:"x3,omitempty" protobuf:"varint,23,opt,name=x3" thrift:"23"`
	X04  int64              `json:"x4,omitempty" protobuf:"varint,24,opt,name=x4" thrift:"24"`
	X05  int64              `json:"x5,omitempty" protobuf:"varint,25,opt,name=x5" thrift:"25"`
	X06  int64              `json:"x6,omitempty" protobuf:"varint,26,opt,name=x6" thrift:"26"`
	X07  int64              `json:"x7,omitempty" protobuf:"varint,27,opt,name=x7" thrift:"27"`
	X08  int64              `json:"x8,omitempty" protobuf:"varint,28,opt,name=x8" thrift:"28"`
	X09  int64              `json:"x9,omitempty" protobuf:"varint,29,opt,name=x9" thrift:"29"`
	X10  int64              `json:"x10,omitempty" protobuf:"varint,30,opt,name=x10" thrift:"30"`
	X11  int64              `json:"x11,omitempty" protobuf:"varint,31,opt,name=x11" thrift:"31"`
	X12  int64              `json:"x12,omitempty" protobuf:"varint,32,opt,name=x12" thrift:"32"`
	X13  int64              `json:"x13,omitempty" protobuf:"varint,33,opt,name=x13" thrift:"33"`
	X14  int64              `json:"x14,omitempty" protobuf:"varint,34,opt,name=x14" thrift:"34"`
	X15  int64              `json:"x15,omitempty" protobuf:"varint,35,opt,name=x15" thrift:"35"`
	X16  int64              `json:"x16,omitempty" protobuf:"varint,36,opt,name=x16" thrift:"36"`
	X17  int64              `json:"x17,omitempty" protobuf:"varint,37,opt,name=x17" thrift:"37"`
	X18  int64              `json:"x18,omitempty" protobuf:"varint,38,opt,name=x18" thrift:"38"`
	X19  int64              `json:"x19,omitempty" protobuf:"varint,39,opt,name=x19" thrift:"39"`
	X20  int64              `json:"x20,omitempty" protobuf:"varint,40,opt,name=x20" thrift:"40"`
	X21  int64              `json:"x21,omitempty" protobuf:"varint,41,opt,name=x21" thrift:"41"`
	X22  int64              `json:"x22,omitempty" protobuf:"varint,42,opt,name=x22" thrift:"42"`
	X23  int64              `json:"x23,omitempty" protobuf:"varint,43,opt,name=x23" thrift:"43"`
}

type Peer021 struct {
	Back *Rec021   `json:"back,omitempty" protobuf:"bytes,1,opt,name=back" thrift:"1"`
	List []*Rec021 `json:"list,omitempty" protobuf:"bytes,2,rep,name=list" thrift:"2"`
	B    bool      `json:"b" protobuf:"varint,3,opt,name=b" thrift:"3"`
}

type Rec022 struct {
	M    map[string]Peer022 `json:"m,omitempty" protobuf:"bytes,6,rep,name=m" protobuf_key:"bytes,1,opt,name=key" protobuf_val:"bytes,2,opt,name=value" thrift:"6"`
	V    int64              `json:"v" protobuf:"varint,1,opt,name=v" thrift:"1"`
	Next *Rec022            `json:"next,omitempty" protobuf:"bytes,2,opt,name=next" thrift:"2"`
	Kids []Rec022           `json:"kids,omitempty" protobuf:"bytes,3,rep,name=kids" thrift:"3"`
	Peer *Peer022           `json:"peer,omitempty" protobuf:"bytes,4,opt,name=peer" thrift:"4"`
	S    string             `json:"s,omitempty" protobuf:"bytes,5,opt,name=s" thrift:"5"`
	X00  int64              `json:"x0,omitempty" protobuf:"varint,20,opt,name=x0" thrift:"20"`
	X01  int64              `json:"x1,omitempty" protobuf:"varint,21,opt,name=x1" thrift:"21"`
	X02  int64              `json:"x2,omitempty" protobuf:"varint,22,opt,name=x2" thrift:"22"`
	X03  int64              `json:"x3,omitempty" protobuf:"varint,23,opt,name=x3" thrift:"23"`
	X04  int64              `json:"x4,omitempty" protobuf:"varint,24,opt,name=x4" thrift:"24"`
	X05  int64              `json:"x5,omitempty" protobuf:"varint,25,opt,name=x5" thrift:"25"`
	X06  int64              `json:"x6,omitempty" protobuf:"varint,26,opt,name=x6" thrift:"26"`
	X07  int64              `json:"x7,omitempty" protobuf:"varint,27,opt,name=x7" thrift:"27"`
	X08  int64              `json:"x8,omitempty" protobuf:"varint,28,opt,name=x8" thrift:"28"`
	X09  int64              `json:"x9,omitempty" protobuf:"varint,29,opt,name=x9" thrift:"29"`
	X10  int64              `json:"x10,omitempty" protobuf:"varint,30,opt,name=x10" thrift:"30"`
	X11  int64              `json:"x11,omitempty" protobuf:"varint,31,opt,name=x11" thrift:"31"`
	X12  int64              `json:"x12,omitempty" protobuf:"varint,32,opt,name=x12" thrift:"32"`
	X13  int64              `json:"x13,omitempty" protobuf:"varint,33,opt,name=x13" thrift:"33"`
	X14  int64              `json:"x14,omitempty" protobuf:"varint,34,opt,name=x14" thrift:"34"`
	X15  int64              `json:"x15,omitempty" protobuf:"varint,35,opt,name=x15" thrift:"35"`
	X16  int64              `json:"x16,omitempty" protobuf:"varint,36,opt,name=x16" thrift:"36"`
	X17  int64              `json:"x17,omitempty" protobuf:"varint,37,opt,name=x17" thrift:"37"`
	X18  int64              `json:"x18,omitempty" protobuf:"varint,38,opt,name=x18" thrift:"38"`
	X19  int64              `json:"x19,omitempty" protobuf:"varint,39,opt,name=x19" thrift:"39"`
	X20  int64              `json:"x20,omitempty" protobuf:"varint,40,opt,name=x20" thrift:"40"`
	X21  int64              `json:"x21,omitempty" protobuf:"varint,41,opt,name=x21" thrift:"41"`
	X22  int64              `json:"x22,omitempty" protobuf:"varint,42,opt,name=x22" thrift:"42"`
	X23  int64              `json:"x23,omitempty" protobuf:"varint,43,opt,name=x23" thrift:"43"`
}

type Peer022 struct {
	Back *Rec022   `json:"back,omitempty" protobuf:"bytes,1,opt,name=back" thrift:"1"`
	List []*Rec022 `json:"list,omitempty" protobuf:"bytes,2,rep,name=list" thrift:"2"`
	B    bool      `json:"b" protobuf:"varint,3,opt,name=b" thrift:"3"`
}

type Rec023 struct {
	M    map[string]Peer023 `json:"m,omitempty" protobuf:"bytes,6,rep,name=m" protobuf_key:"bytes,1,opt,name=key" protobuf_val:"bytes,2,opt,name=value" thrift:"6"`
	V    int64              `json:"v" protobuf:"varint,1,opt,name=v" thrift:"1"`
	Next *Rec023            `json:"next,omitempty" protobuf:"bytes,2,opt,name=next" thrift:"2"`
	Kids []Rec023           `json:"kids,omitempty" protobuf:"bytes,3,rep,name=kids" thrift:"3"`
	Peer *Peer023           `json:"peer,omitempty" protobuf:"bytes,4,opt,name=peer" thrift:"4"`
	S    string             `json:"s,omitempty" protobuf:"bytes,5,opt,name=s" thrift:"5"`
	X00  int64              `json:"x0,omitempty" protobuf:"varint,20,opt,name=x0" thrift:"20"`
	X01  int64              `json:"x1,omitempty" protobuf:"varint,21,opt,name=x1" thrift:"21"`
	X02  int64              `json:"x2,omitempty" protobuf:"varint,22,opt,name=x2" thrift:"22"`
	X03  int64              `json:"x3,omitempty" protobuf:"varint,23,opt,name=x3" thrift:"23"`
	X04  int64              `json:"x4,omitempty" protobuf:"varint,24,opt,name=x4" thrift:"24"`
	X05  int64              `json:"x5,omitempty" protobuf:"varint,25,opt,name=x5" thrift:"25"`
	X06  int64              `json:"x6,omitempty" protobuf:"varint,26,opt,name=x6" thrift:"26"`
	X07  int64              `json:"x7,omitempty" protobuf:"varint,27,opt,name=x7" thrift:"27"`
	X08  int64              `json:"x8,omitempty" protobuf:"varint,28,opt,name=x8" thrift:"28"`
	X09  int64              `json:"x9,omitempty" protobuf:"varint,29,opt,name=x9" thrift:"29"`
	X10  int64              `json:"x10,omitempty" protobuf:"varint,30,opt,name=x10" thrift:"30"`
	X11  int64              `json:"x11,omitempty" protobuf:"varint,31,opt,name=x11" thrift:"31"`
	X12  int64              `json:"x12,omitempty" protobuf:"varint,32,opt,name=x12" thrift:"32"`
	X13  int64              `json:"x13,omitempty" protobuf:"varint,33,opt,name=x13" thrift:"33"`
	X14  int64              `json:"x14,omitempty" protobuf:"varint,34,opt,name=x14" thrift:"34"`
	X15  int64              `json:"x15,omitempty" protobuf:"varint,35,opt,name=x15" thrift:"35"`
	X16  int64              `json:"x16,omitempty" protobuf:"varint,36,opt,name=x16" thrift:"36"`
	X17  int64              `json:"x17,omitempty" protobuf:"varint,37,opt,name=x17" thrift:"37"`
	X18  int64              `json:"x18,omitempty" protobuf:"varint,38,opt,name=x18" thrift:"38"`
	X19  int64              `json:"x19,omitempty" protobuf:"varint,39,opt,name=x19" thrift:"39"`
	X20  int64              `json:"x20,omitempty" protobuf:"varint,40,opt,name=x20" thrift:"40"`
	X21  int64              `json:"x21,omitempty" protobuf:"varint,41,opt,name=x21" thrift:"41"`
	X22  int64              `json:"x22,omitempty" protobuf:"varint,42,opt,name=x22" thrift:"42"`
	X23  int64              `json:"x23,omitempty" protobuf:"varint,43,opt,name=x23" thrift:"43"`
}

type Peer023 struct {
	Back *Rec023   `json:"back,omitempty" protobuf:"bytes,1,opt,name=back" thrift:"1"`
	List []*Rec023 `json:"list,omitempty" protobuf:"bytes,2,rep,name=list" thrift:"2"`
	B    bool      `json:"b" protobuf:"varint,3,opt,name=b" thrift:"3"`
}

type Rec024 struct {
	M    map[string]Peer024 `json:"m,omitempty" protobuf:"bytes,6,rep,name=m" protobuf_key:"bytes,1,opt,name=key" protobuf_val:"bytes,2,opt,name=value" thrift:"6"`
	V    int64              `json:"v" protobuf:"varint,1,opt,name=v" thrift:"1"`
	Next *Rec024            `json:"next,omitempty" protobuf:"bytes,2,opt,name=next" thrift:"2"`
	Kids []Rec024           `json:"kids,omitempty" protobuf:"bytes,3,rep,name=kids" thrift:"3"`
	Peer *Peer024           `json:"peer,omitempty" protobuf:"bytes,4,opt,name=peer" thrift:"4"`
	S    string             `json:"s,omitempty" protobuf:"bytes,5,opt,name=s" thrift:"5"`
	X00  int64              `json:"x0,omitempty" protobuf:"varint,20,opt,name=x0" thrift:"20"`
	X01  int64              `json:"x1,omitempty" protobuf:"varint,21,opt,name=x1" thrift:"21"`
	X02  int64              `json:"x2,omitempty" protobuf:"varint,22,opt,name=x2" thrift:"22"`
	X03  int64              `json:"x3,omitempty" protobuf:"varint,23,opt,name=x3" thrift:"23"`
	X04  int64              `json:"x4,omitempty" protobuf:"varint,24,opt,name=x4" thrift:"24"`
	X05  int64              `json:"x5,omitempty" protobuf:"varint,25,opt,name=x5" thrift:"25"`
	X06  int64              `json:"x6,omitempty" protobuf:"varint,26,opt,name=x6" thrift:"26"`
	X07  int64              `json:"x7,omitempty" protobuf:"varint,27,opt,name=x7" thrift:"27"`
	X08  int64              `json:"x8,omitempty" protobuf:"varint,28,opt,name=x8" thrift:"28"`
	X09  int64              `json:"x9,omitempty" protobuf:"varint,29,opt,name=x9" thrift:"29"`
	X10  int64              `json:"x10,omitempty" protobuf:"varint,30,opt,name=x10" thrift:"30"`
	X11  int64              `json:"x11,omitempty" protobuf:"varint,31,opt,name=x11" thrift:"31"`
	X12  int64              `json:"x12,omitempty" protobuf:"varint,32,opt,name=x12" thrift:"32"`
	X13  int64              `json:"x13,omitempty" protobuf:"varint,33,opt,name=x13" thrift:"33"`
	X14  int64              `json:"x14,omitempty" protobuf:"varint,34,opt,name=x14" thrift:"34"`
	X15  int64              `json:"x15,omitempty" protobuf:"varint,35,opt,name=x15" thrift:"35"`
	X16  int64              `json:"x16,omitempty" protobuf:"varint,36,opt,name=x16" thrift:"36"`
	X17  int64              `json:"x17,omitempty" protobuf:"varint,37,opt,name=x17" thrift:"37"`
	X18  int64              `json:"x18,omitempty" protobuf:"varint,38,opt,name=x18" thrift:"38"`
	X19  int64              `json:"x19,omitempty" protobuf:"varint,39,opt,name=x19" thrift:"39"`
	X20  int64              `json:"x20,omitempty" protobuf:"varint,40,opt,name=x20" thrift:"40"`
	X21  int64              `json:"x21,omitempty" protobuf:"varint,41,opt,name=x21" thrift:"41"`
	X22  int64              `json:"x22,omitempty" protobuf:"varint,42,opt,name=x22" thrift:"42"`
	X23  int64              `json:"x23,omitempty" protobuf:"varint,43,opt,name=x23" thrift:"43"`
}

type Peer024 struct {
	Back *Rec024   `json:"back,omitempty" protobuf:"bytes,1,opt,name=back" thrift:"1"`
	List []*Rec024 `json:"list,omitempty" protobuf:"bytes,2,rep,name=list" thrift:"2"`
	B    bool      `json:"b" protobuf:"varint,3,opt,name=b" thrift:"3"`
}

type Rec025 struct {
	M    map[string]Peer025 `json:"m,omitempty" protobuf:"bytes,6,rep,name=m" protobuf_key:"bytes,1,opt,name=key" protobuf_val:"bytes,2,opt,name=value" thrift:"6"`
	V    int64              `json:"v" protobuf:"varint,1,opt,name=v" thrift:"1"`
	Next *Rec025            `json:"next,omitempty" protobuf:"bytes,2,opt,name=next" thrift:"2"`
	Kids []Rec025           `json:"kids,omitempty" protobuf:"bytes,3,rep,name=kids" thrift:"3"`
	Peer *Peer025           `json:"peer,omitempty" protobuf:"bytes,4,opt,name=peer" thrift:"4"`
	S    string             `json:"s,omitempty" protobuf:"bytes,5,opt,name=s" thrift:"5"`
	X00  int64              `json:"x0,omitempty" protobuf:"varint,20,opt,name=x0" thrift:"20"`
	X01  int64              `json:"x1,omitempty" protobuf:"varint,21,opt,name=x1" thrift:"21"`
	X02  int64              `json:"x2,omitempty" protobuf:"varint,22,opt,name=x2" thrift:"22"`
	X03  int64              `json:"x3,omitempty" protobuf:"varint,23,opt,name=x3" thrift:"23"`
	X04  int64              `json:"x4,omitempty" protobuf:"varint,24,opt,name=x4" thrift:"24"`
	X05  int64              `json:"x5,omitempty" protobuf:"varint,25,opt,name=x5" thrift:"25"`
	X06  int64              `json:"x6,omitempty" protobuf:"varint,26,opt,name=x6" thrift:"26"`
	X07  int64              `json:"x7,omitempty" protobuf:"varint,27,opt,name=x7" thrift:"27"`
	X08  int64              `json:"x8,omitempty" protobuf:"varint,28,opt,name=x8" thrift:"28"`
	X09  int64              `json:"x9,omitempty" protobuf:"varint,29,opt,name=x9" thrift:"29"`
	X10  int64              `json:"x10,omitempty" protobuf:"varint,30,opt,name=x10" thrift:"30"`
	X11  int64              `json:"x11,omitempty" protobuf:"varint,31,opt,name=x11" thrift:"31"`
	X12  int64              `json:"x12,omitempty" protobuf:"varint,32,opt,name=x12" thrift:"32"`
	X13  int64              `json:"x13,omitempty" protobuf:"varint,33,opt,name=x13" thrift:"33"`
	X14  int64              `json:"x14,omitempty" protobuf:"varint,34,opt,name=x14" thrift:"34"`
	X15  int64              `json:"x15,omitempty" protobuf:"varint,35,opt,name=x15" thrift:"35"`
	X16  int64              `json:"x16,omitempty" protobuf:"varint,36,opt,name=x16" thrift:"36"`
	X17  int64              `json:"x17,omitempty" protobuf:"varint,37,opt,name=x17" thrift:"37"`
	X18  int64              `json:"x18,omitempty" protobuf:"varint,38,opt,name=x18" thrift:"38"`
	X19  int64              `json:"x19,omitempty" protobuf:"varint,39,opt,name=x19" thrift:"39"`
	X20  int64              `json:"x20,omitempty" protobuf:"varint,40,opt,name=x20" thrift:"40"`
	X21  int64              `json:"x21,omitempty" protobuf:"varint,41,opt,name=x21" thrift:"41"`
	X22  int64              `json:"x22,omitempty" protobuf:"varint,42,opt,name=x22" thrift:"42"`
	X23  int64              `json:"x23,omitempty" protobuf:"varint,43,opt,name=x23" thrift:"43"`
}

type Peer025 struct {
	Back *Rec025   `json:"back,omitempty" protobuf:"bytes,1,opt,name=back" thrift:"1"`
	List []*Rec025 `json:"list,omitempty" protobuf:"bytes,2,rep,name=list" thrift:"2"`
	B    bool      `json:"b" protobuf:"varint,3,opt,name=b" thrift:"3"`
}

type Rec026 struct {
	M    map[string]Peer026 `json:"m,omitempty" protobuf:"bytes,6,rep,name=m" protobuf_key:"bytes,1,opt,name=key" protobuf_val:"bytes,2,opt,name=value" thrift:"6"`
	V    int64              `json:"v" protobuf:"varint,1,opt,name=v" thrift:"1"`
	Next *Rec026            `json:"next,omitempty" protobuf:"bytes,2,opt,name=next" thrift:"2"`
	Kids []Rec026           `json:"kids,omitempty" protobuf:"bytes,3,rep,name=kids" thrift:"3"`
	Peer *Peer026           `json:"peer,omitempty" protobuf:"bytes,4,opt,name=peer" thrift:"4"`
	S    string             `json:"s,omitempty" protobuf:"bytes,5,opt,name=s" thrift:"5"`
	X00  int64              `json:"x0,omitempty" protobuf:"varint,20,opt,name=x0" thrift:"20"`
	X01  int64              `json:"x1,omitempty" protobuf:"varint,21,opt,name=x1" thrift:"21"`
	X02  int64              `json:"x2,omitempty" protobuf:"varint,22,opt,name=x2" thrift:"22"`
	X03  int64              `json:"x3,omitempty" protobuf:"varint,23,opt,name=x3" thrift:"23"`
	X04  int64              `json:"x4,omitempty" protobuf:"varint,24,opt,name=x4" thrift:"24"`
	X05  int64              `json:"x5,omitempty" protobuf:"varint,25,opt,name=x5" thrift:"25"`
	X06  int64              `json:"x6,omitempty" protobuf:"varint,26,opt,name=x6" thrift:"26"`
	X07  int64              `json:"x7,omitempty" protobuf:"varint,27,opt,name=x7" thrift:"27"`
	X08  int64              `json:"x8,omitempty" protobuf:"varint,28,opt,name=x8" thrift:"28"`
	X09  int64              `json:"x9,omitempty" protobuf:"varint,29,opt,name=x9" thrift:"29"`
	X10  int64              `json:"x10,omitempty" protobuf:"varint,30,opt,name=x10" thrift:"30"`
	X11  int64              `json:"x11,omitempty" protobuf:"varint,31,opt,name=x11" thrift:"31"`
	X12  int64              `json:"x12,omitempty" protobuf:"varint,32,opt,name=x12" thrift:"32"`
	X13  int64              `json:"x13,omitempty" protobuf:"varint,33,opt,name=x13" thrift:"33"`
	X14  int64              `json:"x14,omitempty" protobuf:"varint,34,opt,name=x14" thrift:"34"`
	X15  int64              `json:"x15,omitempty" protobuf:"varint,35,opt,name=x15" thrift:"35"`
	X16  int64              `json:"x16,omitempty" protobuf:"varint,36,opt,name=x16" thrift:"36"`
	X17  int64              `json:"x17,omitempty" protobuf:"varint,37,opt,name=x17" thrift:"37"`
	X18  int64              `json:"x18,omitempty" protobuf:"varint,38,opt,name=x18" thrift:"38"`
	X19  int64              `json:"x19,omitempty" protobuf:"varint,39,opt,name=x19" thrift:"39"`
	X20  int64              `json:"x20,omitempty" protobuf:"varint,40,opt,name=x20" thrift:"40"`
	X21  int64              `json:"x21,omitempty" protobuf:"varint,41,opt,name=x21" thrift:"41"`
	X22  int64              `json:"x22,omitempty" protobuf:"varint,42,opt,name=x22" thrift:"42"`
	X23  int64              `json:"x23,omitempty" protobuf:"varint,43,opt,name=x23" thrift:"43"`
}

type Peer026 struct {
	Back *Rec026   `json:"back,omitempty" protobuf:"bytes,1,opt,name=back" thrift:"1"`
	List []*Rec026 `json:"list,omitempty" protobuf:"bytes,2,rep,name=list" thrift:"2"`
	B    bool      `json:"b" protobuf:"varint,3,opt,name=b" thrift:"3"`
}

type Rec027 struct {
	M    map[string]Peer027 `json:"m,omitempty" protobuf:"bytes,6,rep,name=m" protobuf_key:"bytes,1,opt,name=key" protobuf_val:"bytes,2,opt,name=value" thrift:"6"`
	V    int64              `json:"v" protobuf:"varint,1,opt,name=v" thrift:"1"`
	Next *Rec027            `json:"next,omitempty" protobuf:"bytes,2,opt,name=next" thrift:"2"`
	Kids []Rec027           `json:"kids,omitempty" protobuf:"bytes,3,rep,name=kids" thrift:"3"`
	Peer *Peer027           `json:"peer,omitempty" protobuf:"bytes,4,opt,name=peer" thrift:"4"`
	S    string             `json:"s,omitempty" protobuf:"bytes,5,opt,name=s" thrift:"5"`
	X00  int64              `json:"x0,omitempty" protobuf:"varint,20,opt,name=x0" thrift:"20"`
	X01  int64              `json:"x1,omitempty" protobuf:"varint,21,opt,name=x1" thrift:"21"`
	X02  int64              `json:"x2,omitempty" protobuf:"varint,22,opt,name=x2" thrift:"22"`
	X03  int64              `json:"x3,omitempty" protobuf:"varint,23,opt,name=x3" thrift:"23"`
	X04  int64              `json:"x4,omitempty" protobuf:"varint,24,opt,name=x4" thrift:"24"`
	X05  int64              `json:"x5,omitempty" protobuf:"varint,25,opt,name=x5" thrift:"25"`
	X06  int64              `json:"x6,omitempty" protobuf:"varint,26,opt,name=x6" thrift:"26"`
	X07  int64              `json:"x7,omitempty" protobuf:"varint,27,opt,name=x7" thrift:"27"`
	X08  int64              `json:"x8,omitempty" protobuf:"varint,28,opt,name=x8" thrift:"28"`
	X09  int64              `json:"x9,omitempty" protobuf:"varint,29,opt,name=x9" thrift:"29"`
	X10  int64              `json:"x10,omitempty" protobuf:"varint,30,opt,name=x10" thrift:"30"`
	X11  int64              `json:"x11,omitempty" protobuf:"varint,31,opt,name=x11" thrift:"31"`
	X12  int64              `json:"x12,omitempty" protobuf:"varint,32,opt,name=x12" thrift:"32"`
	X13  int64              `json:"x13,omitempty" protobuf:"varint,33,opt,name=x13" thrift:"33"`
	X14  int64              `json:"x14,omitempty" protobuf:"varint,34,opt,name=x14" thrift:"34"`
	X15  int64              `json:"x15,omitempty" protobuf:"varint,35,opt,name=x15" thrift:"35"`
	X16  int64              `json:"x16,omitempty" protobuf:"varint,36,opt,name=x16" thrift:"36"`
	X17  int64              `json:"x17,omitempty" protobuf:"varint,37,opt,name=x17" thrift:"37"`
	X18  int64              `json:"x18,omitempty" protobuf:"varint,38,opt,name=x18" thrift:"38"`
	X19  int64              `json:"x19,omitempty" protobuf:"varint,39,opt,name=x19" thrift:"39"`
	X20  int64              `json:"x20,omitempty" protobuf:"varint,40,opt,name=x20" thrift:"40"`
	X21  int64              `json:"x21,omitempty" protobuf:"varint,41,opt,name=x21" thrift:"41"`
	X22  int64              `json:"x22,omitempty" protobuf:"varint,42,opt,name=x22" thrift:"42"`
	X23  int64              `json:"x23,omitempty" protobuf:"varint,43,opt,name=x23" thrift:"43"`
}

type Peer027 struct {
	Back *Rec027   `json:"back,omitempty" protobuf:"bytes,1,opt,name=back" thrift:"1"`
	List []*Rec027 `json:"list,omitempty" protobuf:"bytes,2,rep,name=list" thrift:"2"`
	B    bool      `json:"b" protobuf:"varint,3,opt,name=b" thrift:"3"`
}

type Rec028 struct {
	M    map[string]Peer028 `json:"m,omitempty" protobuf:"bytes,6,rep,name=m" protobuf_key:"bytes,1,opt,name=key" protobuf_val:"bytes,2,opt,name=value" thrift:"6"`
	V    int64              `json:"v" protobuf:"varint,1,opt,name=v" thrift:"1"`
	Next *Rec028            `json:"next,omitempty" protobuf:"bytes,2,opt,name=next" thrift:"2"`
	Kids []Rec028           `json:"kids,omitempty" protobuf:"bytes,3,rep,name=kids" thrift:"3"`
	Peer *Peer028           `json:"peer,omitempty" protobuf:"bytes,4,opt,name=peer" thrift:"4"`
	S    string             `json:"s,omitempty" protobuf:"bytes,5,opt,name=s" thrift:"5"`
	X00  int64              `json:"x0,omitempty" protobuf:"varint,20,opt,name=x0" thrift:"20"`
	X01  int64              `json:"x1,omitempty" protobuf:"varint,21,opt,name=x1" thrift:"21"`
	X02  int64              `json:"x2,omitempty" protobuf:"varint,22,opt,name=x2" thrift:"22"`
	X03  int64              `json:"x3,omitempty" protobuf:"varint,23,opt,name=x3" thrift:"23"`
	X04  int64              `json:"x4,omitempty" protobuf:"varint,24,opt,name=x4" thrift:"24"`
	X05  int64              `json:"x5,omitempty" protobuf:"varint,25,opt,name=x5" thrift:"25"`
	X06  int64              `json:"x6,omitempty" protobuf:"varint,26,opt,name=x6" thrift:"26"`
	X07  int64              `json:"x7,omitempty" protobuf:"varint,27,opt,name=x7" thrift:"27"`
	X08  int64              `json:"x8,omitempty" protobuf:"varint,28,opt,name=x8" thrift:"28"`
	X09  int64              `json:"x9,omitempty" protobuf:"varint,29,opt,name=x9" thrift:"29"`
	X10  int64              `json:"x10,omitempty" protobuf:"varint,30,opt,name=x10" thrift:"30"`
	X11  int64              `json:"x11,omitempty" protobuf:"varint,31,opt,name=x11" thrift:"31"`
	X12  int64              `json:"x12,omitempty" protobuf:"varint,32,opt,name=x12" thrift:"32"`
	X13  int64              `json:"x13,omitempty" protobuf:"varint,33,opt,name=x13" thrift:"33"`
	X14  int64              `json:"x14,omitempty" protobuf:"varint,34,opt,name=x14" thrift:"34"`
	X15  int64              `json:"x15,omitempty" protobuf:"varint,35,opt,name=x15" thrift:"35"`
	X16  int64              `json:"x16,omitempty" protobuf:"varint,36,opt,name=x16" thrift:"36"`
	X17  int64              `json:"x17,omitempty" protobuf:"varint,37,opt,name=x17" thrift:"37"`
	X18  int64              `json:"x18,omitempty" protobuf:"varint,38,opt,name=x18" thrift:"38"`
	X19  int64              `json:"x19,omitempty" protobuf:"varint,39,opt,name=x19" thrift:"39"`
	X20  int64              `json:"x20,omitempty" protobuf:"varint,40,opt,name=x20" thrift:"40"`
	X21  int64              `json:"x21,omitempty" protobuf:"varint,41,opt,name=x21" thrift:"41"`
	X22  int64              `json:"x22,omitempty" protobuf:"varint,42,opt,name=x22" thrift:"42"`
	X23  int64              `json:"x23,omitempty" protobuf:"varint,43,opt,name=x23" thrift:"43"`
}

type Peer028 struct {
	Back *Rec028   `json:"back,omitempty" protobuf:"bytes,1,opt,name=back" thrift:"1"`
	List []*Rec028 `json:"list,omitempty" protobuf:"bytes,2,rep,name=list" thrift:"2"`
	B    bool      `json:"b" protobuf:"varint,3,opt,name=b" thrift:"3"`
}

type Rec029 struct {
	M    map[string]Peer029 `json:"m,omitempty" protobuf:"bytes,6,rep,name=m" protobuf_key:"bytes,1,opt,name=key" protobuf_val:"bytes,2,opt,name=value" thrift:"6"`
	V    int64              `json:"v" protobuf:"varint,1,opt,name=v" thrift:"1"`
	Next *Rec029            `json:"next,omitempty" protobuf:"bytes,2,opt,name=next" thrift:"2"`
	Kids []Rec029           `json:"kids,omitempty" protobuf:"bytes,3,rep,name=kids" thrift:"3"`
	Peer *Peer029           `json:"peer,omitempty" protobuf:"bytes,4,opt,name=peer" thrift:"4"`
	S    string             `json:"s,omitempty" protobuf:"bytes,5,opt,name=s" thrift:"5"`
	X00  int64              `json:"x0,omitempty" protobuf:"varint,20,opt,name=x0" thrift:"20"`
	X01  int64              `json:"x1,omitempty" protobuf:"varint,21,opt,name=x1" thrift:"21"`
	X02  int64              `json:"x2,omitempty" protobuf:"varint,22,opt,name=x2" thrift:"22"`
	X03  int64              `json:"x3,omitempty" protobuf:"varint,23,opt,name=x3" thrift:"23"`
	X04  int64              `json:"x4,omitempty" protobuf:"varint,24,opt,name=x4" thrift:"24"`
	X05  int64              `json:"x5,omitempty" protobuf:"varint,25,opt,name=x5" thrift:"25"`
	X06  int64              `json:"x6,omitempty" protobuf:"varint,26,opt,name=x6" thrift:"26"`
	X07  int64              `json:"x7,omitempty" protobuf:"varint,27,opt,name=x7" thrift:"27"`
	X08  int64              `json:"x8,omitempty" protobuf:"varint,28,opt,name=x8" thrift:"28"`
	X09  int64              `json:"x9,omitempty" protobuf:"varint,29,opt,name=x9" thrift:"29"`
	X10  int64              `json:"x10,omitempty" protobuf:"varint,30,opt,name=x10" thrift:"30"`
	X11  int64              `json:"x11,omitempty" protobuf:"varint,31,opt,name=x11" thrift:"31"`
	X12  int64              `json:"x12,omitempty" protobuf:"varint,32,opt,name=x12" thrift:"32"`
	X13  int64              `json:"x13,omitempty" protobuf:"varint,33,opt,name=x13" thrift:"33"`
	X14  int64              `json:"x14,omitempty" protobuf:"varint,34,opt,name=x14" thrift:"34"`
	X15  int64              `json:"x15,omitempty" protobuf:"varint,35,opt,name=x15" thrift:"35"`
	X16  int64              `json:"x16,omitempty" protobuf:"varint,36,opt,name=x16" thrift:"36"`
	X17  int64              `json:"x17,omitempty" protobuf:"varint,37,opt,name=x17" thrift:"37"`
	X18  int64              `json:"x18,omitempty" protobuf:"varint,38,opt,name=x18" thrift:"38"`
	X19  int64              `json:"x19,omitempty" protobuf:"varint,39,opt,name=x19" thrift:"39"`
	X20  int64              `json:"x20,omitempty" protobuf:"varint,40,opt,name=x20" thrift:"40"`
	X21  int64              `json:"x21,omitempty" protobuf:"varint,41,opt,name=x21" thrift:"41"`
	X22  int64              `json:"x22,omitempty" protobuf:"varint,42,opt,name=x22" thrift:"42"`
	X23  int64              `json:"x23,omitempty" protobuf:"varint,43,opt,name=x23" thrift:"43"`
}

type Peer029 struct {
	Back *Rec029   `json:"back,omitempty" protobuf:"bytes,1,opt,name=back" thrift:"1"`
	List []*Rec029 `json:"list,omitempty" protobuf:"bytes,2,rep,name=list" thrift:"2"`
	B    bool      `json:"b" protobuf:"varint,3,opt,name=b" thrift:"3"`
}

type Rec030 struct {
	M    map[string]Peer030 `json:"m,omitempty" protobuf:"bytes,6,rep,name=m" protobuf_key:"bytes,1,opt,name=key" protobuf_val:"bytes,2,opt,name=value" thrift:"6"`
	V    int64              `json:"v" protobuf:"varint,1,opt,name=v" thrift:"1"`
	Next *Rec030            `json:"next,omitempty" protobuf:"bytes,2,opt,name=next" thrift:"2"`
	Kids []Rec030           `json:"kids,omitempty" protobuf:"bytes,3,rep,name=kids" thrift:"3"`
	Peer *Peer030           `json:"peer,omitempty" protobuf:"bytes,4,opt,name=peer" thrift:"4"`
	S    string             `json:"s,omitempty" protobuf:"bytes,5,opt,name=s" thrift:"5"`
	X00  int64              `json:"x0,omitempty" protobuf:"varint,20,opt,name=x0" thrift:"20"`
	X01  int64              `json:"x1,omitempty" protobuf:"varint,21,opt,name=x1" thrift:"21"`
	X02  int64              `json:"x2,omitempty" protobuf:"varint,22,opt,name=x2" thrift:"22"`
	X03  int64              `json:"x3,omitempty" protobuf:"varint,23,opt,name=x3" thrift:"23"`
	X04  int64              `json:"x4,omitempty" protobuf:"varint,24,opt,name=x4" thrift:"24"`
	X05  int64              `json:"x5,omitempty" protobuf:"varint,25,opt,name=x5" thrift:"25"`
	X06  int64              `json:"x6,omitempty" protobuf:"varint,26,opt,name=x6" thrift:"26"`
	X07  int64              `json:"x7,omitempty" protobuf:"varint,27,opt,name=x7" thrift:"27"`
	X08  int64              `json:"x8,omitempty" protobuf:"varint,28,opt,name=x8" thrift:"28"`
	X09  int64              `json:"x9,omitempty" protobuf:"varint,29,opt,name=x9" thrift:"29"`
	X10  int64              `json:"x10,omitempty" protobuf:"varint,30,opt,name=x10" thrift:"30"`
	X11  int64              `json:"x11,omitempty" protobuf:"varint,31,opt,name=x11" thrift:"31"`
	X12  int64              `json:"x12,omitempty" protobuf:"varint,32,opt,name=x12" thrift:"32"`
	X13  int64              `json:"x13,omitempty" protobuf:"varint,33,opt,name=x13" thrift:"33"`
	X14  int64              `json:"x14,omitempty" protobuf:"varint,34,opt,name=x14" thrift:"34"`
	X15  int64              `json:"x15,omitempty" protobuf:"varint,35,opt,name=x15" thrift:"35"`
	X16  int64              `json:"x16,omitempty" protobuf:"varint,36,opt,name=x16" thrift:"36"`
	X17  int64              `json:"x17,omitempty" protobuf:"varint,37,opt,name=x17" thrift:"37"`
	X18  int64              `json:"x18,omitempty" protobuf:"varint,38,opt,name=x18" thrift:"38"`
	X19  int64              `json:"x19,omitempty" protobuf:"varint,39,opt,name=x19" thrift:"39"`
	X20  int64              `json:"x20,omitempty" protobuf:"varint,40,opt,name=x20" thrift:"40"`
	X21  int64              `json:"x21,omitempty" protobuf:"varint,41,opt,name=x21" thrift:"41"`
	X22  int64              `json:"x22,omitempty" protobuf:"varint,42,opt,name=x22" thrift:"42"`
	X23  int64              `json:"x23,omitempty" protobuf:"varint,43,opt,name=x23" thrift:"43"`
}

type Peer030 struct {
	Back *Rec030   `json:"back,omitempty" protobuf:"bytes,1,opt,name=back" thrift:"1"`
	List []*Rec030 `json:"list,omitempty" protobuf:"bytes,2,rep,name=list" thrift:"2"`
	B    bool      `json:"b" protobuf:"varint,3,opt,name=b" thrift:"3"`
}

type Rec031 struct {
	M    map[string]Peer031 `json:"m,omitempty" protobuf:"bytes,6,rep,name=m" protobuf_key:"bytes,1,opt,name=key" protobuf_val:"bytes,2,opt,name=value" thrift:"6"`
	V    int64              `json:"v" protobuf:"varint,1,opt,name=v" thrift:"1"`
	Next *Rec031            `json:"next,omitempty" protobuf:"bytes,2,opt,name=next" thrift:"2"`
	Kids []Rec031           `json:"kids,omitempty" protobuf:"bytes,3,rep,name=kids" thrift:"3"`
	Peer *Peer031           `json:"peer,omitempty" protobuf:"bytes,4,opt,name=peer" thrift:"4"`
	S    string             `json:"s,omitempty" protobuf:"bytes,5,opt,name=s" thrift:"5"`
	X00  int64              `json:"x0,omitempty" protobuf:"varint,20,opt,name=x0" thrift:"20"`
	X01  int64              `json:"x1,omitempty" protobuf:"varint,21,opt,name=x1" thrift:"21"`
	X02  int64              `json:"x2,omitempty" protobuf:"varint,22,opt,name=x2" thrift:"22"`
	X03  int64              `json:"x3,omitempty" protobuf:"varint,23,opt,name=x3" thrift:"23"`
	X04  int64              `json:"x4,omitempty" protobuf:"varint,24,opt,name=x4" thrift:"24"`
	X05  int64              `json:"x5,omitempty" protobuf:"varint,25,opt,name=x5" thrift:"25"`
	X06  int64              `json:"x6,omitempty" protobuf:"varint,26,opt,name=x6" thrift:"26"`
	X07  int64              `json:"x7,omitempty" protobuf:"varint,27,opt,name=x7" thrift:"27"`
	X08  int64              `json:"x8,omitempty" protobuf:"varint,28,opt,name=x8" thrift:"28"`
	X09  int64              `json:"x9,omitempty" protobuf:"varint,29,opt,name=x9" thrift:"29"`
	X10  int64              `json:"x10,omitempty" protobuf:"varint,30,opt,name=x10" thrift:"30"`
	X11  int64              `json:"x11,omitempty" protobuf:"varint,31,opt,name=x11" thrift:"31"`
	X12  int64              `json:"x12,omitempty" protobuf:"varint,32,opt,name=x12" thrift:"32"`
	X13  int64              `json:"x13,omitempty" protobuf:"varint,33,opt,name=x13" thrift:"33"`
	X14  int64              `json:"x14,omitempty" protobuf:"varint,34,opt,name=x14" thrift:"34"`
	X15  int64              `json:"x15,omitempty" protobuf:"varint,35,opt,name=x15" thrift:"35"`
	X16  int64              `json:"x16,omitempty" protobuf:"varint,36,opt,name=x16" thrift:"36"`
	X17  int64              `json:"x17,omitempty" protobuf:"varint,37,opt,name=x17" thrift:"37"`
	X18  int64              `json:"x18,omitempty" protobuf:"varint,38,opt,name=x18" thrift:"38"`
	X19  int64              `json:"x19,omitempty" protobuf:"varint,39,opt,name=x19" thrift:"39"`
	X20  int64              `json:"x20,omitempty" protobuf:"varint,40,opt,name=x20" thrift:"40"`
	X21  int64              `json:"x21,omitempty" protobuf:"varint,41,opt,name=x21" thrift:"41"`
	X22  int64              `json:"x22,omitempty" protobuf:"varint,42,opt,name=x22" thrift:"42"`
	X23  int64              `json:"x23,omitempty" protobuf:"varint,43,opt,name=x23" thrift:"43"`
}

type Peer031 struct {
	Back *Rec031   `json:"back,omitempty" protobuf:"bytes,1,opt,name=back" thrift:"1"`
	List []*Rec031 `json:"list,omitempty" protobuf:"bytes,2,rep,name=list" thrift:"2"`
	B    bool      `json:"b" protobuf:"varint,3,opt,name=b" thrift:"3"`
}

type Rec032 struct {
	M    map[string]Peer032 `json:"m,omitempty" protobuf:"bytes,6,rep,name=m" protobuf_key:"bytes,1,opt,name=key" protobuf_val:"bytes,2,opt,name=value" thrift:"6"`
	V    int64              `json:"v" protobuf:"varint,1,opt,name=v" thrift:"1"`
	Next *Rec032            `json:"next,omitempty" protobuf:"bytes,2,opt,name=next" thrift:"2"`
	Kids []Rec032           `json:"kids,omitempty" protobuf:"bytes,3,rep,name=kids" thrift:"3"`
	Peer *Peer032           `json:"peer,omitempty" protobuf:"bytes,4,opt,name=peer" thrift:"4"`
	S    string             `json:"s,omitempty" protobuf:"bytes,5,opt,name=s" thrift:"5"`
	X00  int64              `json:"x0,omitempty" protobuf:"varint,20,opt,name=x0" thrift:"20"`
	X01  int64              `json:"x1,omitempty" protobuf:"varint,21,opt,name=x1" thrift:"21"`
	X02  int64              `json:"x2,omitempty" protobuf:"varint,22,opt,name=x2" thrift:"22"`
	X03  int64              `json:"x3,omitempty" protobuf:"varint,23,opt,name=x3" thrift:"23"`
	X04  int64              `json:"x4,omitempty" protobuf:"varint,24,opt,name=x4" thrift:"24"`
	X05  int64              `json:"x5,omitempty" protobuf:"varint,25,opt,name=x5" thrift:"25"`
	X06  int64              `json:"x6,omitempty" protobuf:"varint,26,opt,name=x6" thrift:"26"`
	X07  int64              `json:"x7,omitempty" protobuf:"varint,27,opt,name=x7" thrift:"27"`
	X08  int64              `json:"x8,omitempty" protobuf:"varint,28,opt,name=x8" thrift:"28"`
	X09  int64              `json:"x9,omitempty" protobuf:"varint,29,opt,name=x9" thrift:"29"`
	X10  int64              `json:"x10,omitempty" protobuf:"varint,30,opt,name=x10" thrift:"30"`
	X11  int64              `json:"x11,omitempty" protobuf:"varint,31,opt,name=x11" thrift:"31"`
	X12  int64              `json:"x12,omitempty" protobuf:"varint,32,opt,name=x12" thrift:"32"`
	X13  int64              `json:"x13,omitempty" protobuf:"varint,33,opt,name=x13" thrift:"33"`
	X14  int64              `json:"x14,omitempty" protobuf:"varint,34,opt,name=x14" thrift:"34"`
	X15  int64              `json:"x15,omitempty" protobuf:"varint,35,opt,name=x15" thrift:"35"`
	X16  int64              `json:"x16,omitempty" protobuf:"varint,36,opt,name=x16" thrift:"36"`
	X17  int64              `json:"x17,omitempty" protobuf:"varint,37,opt,name=x17" thrift:"37"`
	X18  int64              `json:"x18,omitempty" protobuf:"varint,38,opt,name=x18" thrift:"38"`
	X19  int64              `json:"x19,omitempty" protobuf:"varint,39,opt,name=x19" thrift:"39"`
	X20  int64              `json:"x20,omitempty" protobuf:"varint,40,opt,name=x20" thrift:"40"`
	X21  int64              `json:"x21,omitempty" protobuf:"varint,41,opt,name=x21" thrift:"41"`
	X22  int64              `json:"x22,omitempty" protobuf:"varint,42,opt,name=x22" thrift:"42"`
	X23  int64              `json:"x23,omitempty" protobuf:"varint,43,opt,name=x23" thrift:"43"`
}

type Peer032 struct {
	Back *Rec032   `json:"back,omitempty" protobuf:"bytes,1,opt,name=back" thrift:"1"`
	List []*Rec032 `json:"list,omitempty" protobuf:"bytes,2,rep,name=list" thrift:"2"`
	B    bool      `json:"b" protobuf:"varint,3,opt,name=b" thrift:"3"`
}

type Rec033 struct {
	M    map[string]Peer033 `json:"m,omitempty" protobuf:"bytes,6,rep,name=m" protobuf_key:"bytes,1,opt,name=key" protobuf_val:"bytes,2,opt,name=value" thrift:"6"`
	V    int64              `json:"v" protobuf:"varint,1,opt,name=v" thrift:"1"`
	Next *Rec033            `json:"next,omitempty" protobuf:"bytes,2,opt,name=next" thrift:"2"`
	Kids []Rec033           `json:"kids,omitempty" protobuf:"bytes,3,rep,name=kids" thrift:"3"`
	Peer *Peer033           `json:"peer,omitempty" protobuf:"bytes,4,opt,name=peer" thrift:"4"`
	S    string             `json:"s,omitempty" protobuf:"bytes,5,opt,name=s" thrift:"5"`
	X00  int64              `json:"x0,omitempty" protobuf:"varint,20,opt,name=x0" thrift:"20"`
	X01  int64              `json:"x1,omitempty" protobuf:"varint,21,opt,name=x1" thrift:"21"`
	X02  int64              `json:"x2,omitempty" protobuf:"varint,22,opt,name=x2" thrift:"22"`
	X03  int64              `json:"x3,omitempty" protobuf:"varint,23,opt,name=x3" thrift:"23"`
	X04  int64              `json:"x4,omitempty" protobuf:"varint,24,opt,name=x4" thrift:"24"`
	X05  int64              `json:"x5,omitempty" protobuf:"varint,25,opt,name=x5" thrift:"25"`
	X06  int64              `json:"x6,omitempty" protobuf:"varint,26,opt,name=x6" thrift:"26"`
	X07  int64              `json:"x7,omitempty" protobuf:"varint,27,opt,name=x7" thrift:"27"`
	X08  int64              `json:"x8,omitempty" protobuf:"varint,28,opt,name=x8" thrift:"28"`
	X09  int64              `json:"x9,omitempty" protobuf:"varint,29,opt,name=x9" thrift:"29"`
	X10  int64              `json:"x10,omitempty" protobuf:"varint,30,opt,name=x10" thrift:"30"`
	X11  int64              `json:"x11,omitempty" protobuf:"varint,31,opt,name=x11" thrift:"31"`
	X12  int64              `json:"x12,omitempty" protobuf:"varint,32,opt,name=x12" thrift:"32"`
	X13  int64              `json:"x13,omitempty" protobuf:"varint,33,opt,name=x13" thrift:"33"`
	X14  int64              `json:"x14,omitempty" protobuf:"varint,34,opt,name=x14" thrift:"34"`
	X15  int64              `json:"x15,omitempty" protobuf:"varint,35,opt,name=x15" thrift:"35"`
	X16  int64              `json:"x16,omitempty" protobuf:"varint,36,opt,name=x16" thrift:"36"`
	X17  int64              `json:"x17,omitempty" protobuf:"varint,37,opt,name=x17" thrift:"37"`
	X18  int64              `json:"x18,omitempty" protobuf:"varint,38,opt,name=x18" thrift:"38"`
	X19  int64              `json:"x19,omitempty" protobuf:"varint,39,opt,name=x19" thrift:"39"`
	X20  int64              `json:"x20,omitempty" protobuf:"varint,40,opt,name=x20" thrift:"40"`
	X21  int64              `json:"x21,omitempty" protobuf:"varint,41,opt,name=x21" thrift:"41"`
	X22  int64              `json:"x22,omitempty" protobuf:"varint,42,opt,name=x22" thrift:"42"`
	X23  int64              `json:"x23,omitempty" protobuf:"varint,43,opt,name=x23" thrift:"43"`
}

type Peer033 struct {
	Back *Rec033   `json:"back,omitempty" protobuf:"bytes,1,opt,name=back" thrift:"1"`
	List []*Rec033 `json:"list,omitempty" protobuf:"bytes,2,rep,name=list" thrift:"2"`
	B    bool      `json:"b" protobuf:"varint,3,opt,name=b" thrift:"3"`
}

type Rec034 struct {
	M    map[string]Peer034 `json:"m,omitempty" protobuf:"bytes,6,rep,name=m" protobuf_key:"bytes,1,opt,name=key" protobuf_val:"bytes,2,opt,name=value" thrift:"6"`
	V    int64              `json:"v" protobuf:"varint,1,opt,name=v" thrift:"1"`
	Next *Rec034            `json:"next,omitempty" protobuf:"bytes,2,opt,name=next" thrift:"2"`
	Kids []Rec034           `json:"kids,omitempty" protobuf:"bytes,3,rep,name=kids" thrift:"3"`
	Peer *Peer034           `json:"peer,omitempty" protobuf:"bytes,4,opt,name=peer" thrift:"4"`
	S    string             `json:"s,omitempty" protobuf:"bytes,5,opt,name=s" thrift:"5"`
	X00  int64              `json:"x0,omitempty" protobuf:"varint,20,opt,name=x0" thrift:"20"`
	X01  int64              `json:"x1,omitempty" protobuf:"varint,21,opt,name=x1" thrift:"21"`
	X02  int64              `json:"x2,omitempty" protobuf:"varint,22,opt,name=x2" thrift:"22"`
	X03  int64              `json:"x3,omitempty" protobuf:"varint,23,opt,name=x3" thrift:"23"`
	X04  int64              `json:"x4,omitempty" protobuf:"varint,24,opt,name=x4" thrift:"24"`
	X05  int64              `json:"x5,omitempty" protobuf:"varint,25,opt,name=x5" thrift:"25"`
	X06  int64              `json:"x6,omitempty" protobuf:"varint,26,opt,name=x6" thrift:"26"`
	X07  int64              `json:"x7,omitempty" protobuf:"varint,27,opt,name=x7" thrift:"27"`
	X08  int64              `json:"x8,omitempty" protobuf:"varint,28,opt,name=x8" thrift:"28"`
	X09  int64              `json:"x9,omitempty" protobuf:"varint,29,opt,name=x9" thrift:"29"`
	X10  int64              `json:"x10,omitempty" protobuf:"varint,30,opt,name=x10" thrift:"30"`
	X11  int64              `json:"x11,omitempty" protobuf:"varint,31,opt,name=x11" thrift:"31"`
	X12  int64              `json:"x12,omitempty" protobuf:"varint,32,opt,name=x12" thrift:"32"`
	X13  int64              `json:"x13,omitempty" protobuf:"varint,33,opt,name=x13" thrift:"33"`
	X14  int64              `json:"x14,omitempty" protobuf:"varint,34,opt,name=x14" thrift:"34"`
	X15  int64              `json:"x15,omitempty" protobuf:"varint,35,opt,name=x15" thrift:"35"`
	X16  int64              `json:"x16,omitempty" protobuf:"varint,36,opt,name=x16" thrift:"36"`
	X17  int64              `json:"x17,omitempty" protobuf:"varint,37,opt,name=x17" thrift:"37"`
	X18  int64              `json:"x18,omitempty" protobuf:"varint,38,opt,name=x18" thrift:"38"`
	X19  int64              `json:"x19,omitempty" protobuf:"varint,39,opt,name=x19" thrift:"39"`
	X20  int64              `json:"x20,omitempty" protobuf:"varint,40,opt,name=x20" thrift:"40"`
	X21  int64              `json:"x21,omitempty" protobuf:"varint,41,opt,name=x21" thrift:"41"`
	X22  int64              `json:"x22,omitempty" protobuf:"varint,42,opt,name=x22" thrift:"42"`
	X23  int64              `json:"x23,omitempty" protobuf:"varint,43,opt,name=x23" thrift:"43"`
}

type Peer034 struct {
	Back *Rec034   `json:"back,omitempty" protobuf:"bytes,1,opt,name=back" thrift:"1"`
	List []*Rec034 `json:"list,omitempty" protobuf:"bytes,2,rep,name=list" thrift:"2"`
	B    bool      `json:"b" protobuf:"varint,3,opt,name=b" thrift:"3"`
}

type Rec035 struct {
	M    map[string]Peer035 `json:"m,omitempty" protobuf:"bytes,6,rep,name=m" protobuf_key:"bytes,1,opt,name=key" protobuf_val:"bytes,2,opt,name=value" thrift:"6"`
	V    int64              `json:"v" protobuf:"varint,1,opt,name=v" thrift:"1"`
	Next *Rec035            `json:"next,omitempty" protobuf:"bytes,2,opt,name=next" thrift:"2"`
	Kids []Rec035           `json:"kids,omitempty" protobuf:"bytes,3,rep,name=kids" thrift:"3"`
	Peer *Peer035           `json:"peer,omitempty" protobuf:"bytes,4,opt,name=peer" thrift:"4"`
	S    string             `json:"s,omitempty" protobuf:"bytes,5,opt,name=s" thrift:"5"`
	X00  int64              `json:"x0,omitempty" protobuf:"varint,20,opt,name=x0" thrift:"20"`
	X01  int64              `json:"x1,omitempty" protobuf:"varint,21,opt,name=x1" thrift:"21"`
	X02  int64              `json:"x2,omitempty" protobuf:"varint,22,opt,name=x2" thrift:"22"`
	X03  int64              `json:"x3,omitempty" protobuf:"varint,23,opt,name=x3" thrift:"23"`
	X04  int64              `json:"x4,omitempty" protobuf:"varint,24,opt,name=x4" thrift:"24"`
	X05  int64              `json:"x5,omitempty" protobuf:"varint,25,opt,name=x5" thrift:"25"`
	X06  int64              `json:"x6,omitempty" protobuf:"varint,26,opt,name=x6" thrift:"26"`
	X07  int64              `json:"x7,omitempty" protobuf:"varint,27,opt,name=x7" thrift:"27"`
	X08  int64              `json:"x8,omitempty" protobuf:"varint,28,opt,name=x8" thrift:"28"`
	X09  int64              `json:"x9,omitempty" protobuf:"varint,29,opt,name=x9" thrift:"29"`
	X10  int64              `json:"x10,omitempty" protobuf:"varint,30,opt,name=x10" thrift:"30"`
	X11  int64              `json:"x11,omitempty" protobuf:"varint,31,opt,name=x11" thrift:"31"`
	X12  int64              `json:"x12,omitempty" protobuf:"varint,32,opt,name=x12" thrift:"32"`
	X13  int64              `json:"x13,omitempty" protobuf:"varint,33,opt,name=x13" thrift:"33"`
	X14  int64              `json:"x14,omitempty" protobuf:"varint,34,opt,name=x14" thrift:"34"`
	X15  int64              `json:"x15,omitempty" protobuf:"varint,35,opt,name=x15" thrift:"35"`
	X16  int64              `json:"x16,omitempty" protobuf:"varint,36,opt,name=x16" thrift:"36"`
	X17  int64              `json:"x17,omitempty" protobuf:"varint,37,opt,name=x17" thrift:"37"`
	X18  int64              `json:"x18,omitempty" protobuf:"varint,38,opt,name=x18" thrift:"38"`
	X19  int64              `json:"x19,omitempty" protobuf:"varint,39,opt,name=x19" thrift:"39"`
	X20  int64              `json:"x20,omitempty" protobuf:"varint,40,opt,name=x20" thrift:"40"`
	X21  int64              `json:"x21,omitempty" protobuf:"varint,41,opt,name=x21" thrift:"41"`
	X22  int64              `json:"x22,omitempty" protobuf:"varint,42,opt,name=x22" thrift:"42"`
	X23  int64              `json:"x23,omitempty" protobuf:"varint,43,opt,name=x23" thrift:"43"`
}

type Peer035 struct {
	Back *Rec035   `json:"back,omitempty" protobuf:"bytes,1,opt,name=back" thrift:"1"`
	List []*Rec035 `json:"list,omitempty" protobuf:"bytes,2,rep,name=list" thrift:"2"`
	B    bool      `json:"b" protobuf:"varint,3,opt,name=b" thrift:"3"`
}

type Rec036 struct {
	M    map[string]Peer036 `json:"m,omitempty" protobuf:"bytes,6,rep,name=m" protobuf_key:"bytes,1,opt,name=key" protobuf_val:"bytes,2,opt,name=value" thrift:"6"`
	V    int64              `json:"v" protobuf:"varint,1,opt,name=v" thrift:"1"`
	Next *Rec036            `json:"next,omitempty" protobuf:"bytes,2,opt,name=next" thrift:"2"`
	Kids []Rec036           `json:"kids,omitempty" protobuf:"bytes,3,rep,name=kids" thrift:"3"`
	Peer *Peer036           `json:"peer,omitempty" protobuf:"bytes,4,opt,name=peer" thrift:"4"`
	S    string             `json:"s,omitempty" protobuf:"bytes,5,opt,name=s" thrift:"5"`
	X00  int64              `json:"x0,omitempty" protobuf:"varint,20,opt,name=x0" thrift:"20"`
	X01  int64              `json:"x1,omitempty" protobuf:"varint,21,opt,name=x1" thrift:"21"`
	X02  int64              `json:"x2,omitempty" protobuf:"varint,22,opt,name=x2" thrift:"22"`
	X03  int64              `json:"x3,omitempty" protobuf:"varint,23,opt,name=x3" thrift:"23"`
	X04  int64              `json:"x4,omitempty" protobuf:"varint,24,opt,name=x4" thrift:"24"`
	X05  int64              `json:"x5,omitempty" protobuf:"varint,25,opt,name=x5" thrift:"25"`
	X06  int64              `json:"x6,omitempty" protobuf:"varint,26,opt,name=x6" thrift:"26"`
	X07  int64              `json:"x7,omitempty" protobuf:"varint,27,opt,name=x7" thrift:"27"`
	X08  int64              `json:"x8,omitempty" protobuf:"varint,28,opt,name=x8" thrift:"28"`
	X09  int64              `json:"x9,omitempty" protobuf:"varint,29,opt,name=x9" thrift:"29"`
	X10  int64              `json:"x10,omitempty" protobuf:"varint,30,opt,name=x10" thrift:"30"`
	X11  int64              `json:"x11,omitempty" protobuf:"varint,31,opt,name=x11" thrift:"31"`
	X12  int64              `json:"x12,omitempty" protobuf:"varint,32,opt,name=x12" thrift:"32"`
	X13  int64              `json:"x13,omitempty" protobuf:"varint,33,opt,name=x13" thrift:"33"`
	X14  int64              `json:"x14,omitempty" protobuf:"varint,34,opt,name=x14" thrift:"34"`
	X15  int64              `json:"x15,omitempty" protobuf:"varint,35,opt,name=x15" thrift:"35"`
	X16  int64              `json:"x16,omitempty" protobuf:"varint,36,opt,name=x16" thrift:"36"`
	X17  int64              `json:"x17,omitempty" protobuf:"varint,37,opt,name=x17" thrift:"37"`
	X18  int64              `json:"x18,omitempty" protobuf:"varint,38,opt,name=x18" thrift:"38"`
	X19  int64              `json:"x19,omitempty" protobuf:"varint,39,opt,name=x19" thrift:"39"`
	X20  int64              `json:"x20,omitempty" protobuf:"varint,40,opt,name=x20" thrift:"40"`
	X21  int64              `json:"x21,omitempty" protobuf:"varint,41,opt,name=x21" thrift:"41"`
	X22  int64              `json:"x22,omitempty" protobuf:"varint,42,opt,name=x22" thrift:"42"`
	X23  int64              `json:"x23,omitempty" protobuf:"varint,43,opt,name=x23" thrift:"43"`
}

type Peer036 struct {
	Back *Rec036   `json:"back,omitempty" protobuf:"bytes,1,opt,name=back" thrift:"1"`
	List []*Rec036 `json:"list,omitempty" protobuf:"bytes,2,rep,name=list" thrift:"2"`
	B    bool      `json:"b" protobuf:"varint,3,opt,name=b" thrift:"3"`
}

type Rec037 struct {
	M    map[string]Peer037 `json:"m,omitempty" protobuf:"bytes,6,rep,name=m" protobuf_key:"bytes,1,opt,name=key" protobuf_val:"bytes,2,opt,name=value" thrift:"6"`
	V    int64              `json:"v" protobuf:"varint,1,opt,name=v" thrift:"1"`
	Next *Rec037            `json:"next,omitempty" protobuf:"bytes,2,opt,name=next" thrift:"2"`
	Kids []Rec037           `json:"kids,omitempty" protobuf:"bytes,3,rep,name=kids" thrift:"3"`
	Peer *Peer037           `json:"peer,omitempty" protobuf:"bytes,4,opt,name=peer" thrift:"4"`
	S    string             `json:"s,omitempty" protobuf:"bytes,5,opt,name=s" thrift:"5"`
	X00  int64              `json:"x0,omitempty" protobuf:"varint,20,opt,name=x0" thrift:"20"`
	X01  int64              `json:"x1,omitempty" protobuf:"varint,21,opt,name=x1" thrift:"21"`
	X02  int64              `json:"x2,omitempty" protobuf:"varint,22,opt,name=x2" thrift:"22"`
	X03  int64              `json:"x3,omitempty" protobuf:"varint,23,opt,name=x3" thrift:"23"`
	X04  int64              `json:"x4,omitempty" protobuf:"varint,24,opt,name=x4" thrift:"24"`
	X05  int64              `json:"x5,omitempty" protobuf:"varint,25,opt,name=x5" thrift:"25"`
	X06  int64              `json:"x6,omitempty" protobuf:"varint,26,opt,name=x6" thrift:"26"`
	X07  int64              `json:"x7,omitempty" protobuf:"varint,27,opt,name=x7" thrift:"27"`
	X08  int64              `json:"x8,omitempty" protobuf:"varint,28,opt,name=x8" thrift:"28"`
	X09  int64              `json:"x9,omitempty" protobuf:"varint,29,opt,name=x9" thrift:"29"`
	X10  int64              `json:"x10,omitempty" protobuf:"varint,30,opt,name=x10" thrift:"30"`
	X11  int64              `json:"x11,omitempty" protobuf:"varint,31,opt,name=x11" thrift:"31"`
	X12  int64              `json:"x12,omitempty" protobuf:"varint,32,opt,name=x12" thrift:"32"`
	X13  int64              `json:"x13,omitempty" protobuf:"varint,33,opt,name=x13" thrift:"33"`
	X14  int64              `json:"x14,omitempty" protobuf:"varint,34,opt,name=x14" thrift:"34"`
	X15  int64              `json:"x15,omitempty" protobuf:"varint,35,opt,name=x15" thrift:"35"`
	X16  int64              `json:"x16,omitempty" protobuf:"varint,36,opt,name=x16" thrift:"36"`
	X17  int64              `json:"x17,omitempty" protobuf:"varint,37,opt,name=x17" thrift:"37"`
	X18  int64              `json:"x18,omitempty" protobuf:"varint,38,opt,name=x18" thrift:"38"`
	X19  int64              `json:"x19,omitempty" protobuf:"varint,39,opt,name=x19" thrift:"39"`
	X20  int64              `json:"x20,omitempty" protobuf:"varint,40,opt,name=x20" thrift:"40"`
	X21  int64              `json:"x21,omitempty" protobuf:"varint,41,opt,name=x21" thrift:"41"`
	X22  int64              `json:"x22,omitempty" protobuf:"varint,42,opt,name=x22" thrift:"42"`
	X23  int64              `json:"x23,omitempty" protobuf:"varint,43,opt,name=x23" thrift:"43"`
}

type Peer037 struct {
	Back *Rec037   `json:"back,omitempty" protobuf:"bytes,1,opt,name=back" thrift:"1"`
	List []*Rec037 `json:"list,omitempty" protobuf:"bytes,2,rep,name=list" thrift:"2"`
	B    bool      `json:"b" protobuf:"varint,3,opt,name=b" thrift:"3"`
}

type Rec038 struct {
	M    map[string]Peer038 `json:"m,omitempty" protobuf:"bytes,6,rep,name=m" protobuf_key:"bytes,1,opt,name=key" protobuf_val:"bytes,2,opt,name=value" thrift:"6"`
	V    int64              `json:"v" protobuf:"varint,1,opt,name=v" thrift:"1"`
	Next *Rec038            `json:"next,omitempty" protobuf:"bytes,2,opt,name=next" thrift:"2"`
	Kids []Rec038           `json:"kids,omitempty" protobuf:"bytes,3,rep,name=kids" thrift:"3"`
	Peer *Peer038           `json:"peer,omitempty" protobuf:"bytes,4,opt,name=peer" thrift:"4"`
	S    string             `json:"s,omitempty" protobuf:"bytes,5,opt,name=s" thrift:"5"`
	X00  int64              `json:"x0,omitempty" protobuf:"varint,20,opt,name=x0" thrift:"20"`
	X01  int64              `json:"x1,omitempty" protobuf:"varint,21,opt,name=x1" thrift:"21"`
	X02  int64              `json:"x2,omitempty" protobuf:"varint,22,opt,name=x2" thrift:"22"`
	X03  int64              `json:"x3,omitempty" protobuf:"varint,23,opt,name=x3" thrift:"23"`
	X04  int64              `json:"x4,omitempty" protobuf:"varint,24,opt,name=x4" thrift:"24"`
	X05  int64              `json:"x5,omitempty" protobuf:"varint,25,opt,name=x5" thrift:"25"`
	X06  int64              `json:"x6,omitempty" protobuf:"varint,26,opt,name=x6" thrift:"26"`
	X07  int64              `json:"x7,omitempty" protobuf:"varint,27,opt,name=x7" thrift:"27"`
	X08  int64              `json:"x8,omitempty" protobuf:"varint,28,opt,name=x8" thrift:"28"`
	X09  int64              `json:"x9,omitempty" protobuf:"varint,29,opt,name=x9" thrift:"29"`
	X10  int64              `json:"x10,omitempty" protobuf:"varint,30,opt,name=x10" thrift:"30"`
	X11  int64              `json:"x11,omitempty" protobuf:"varint,31,opt,name=x11" thrift:"31"`
	X12  int64              `json:"x12,omitempty" protobuf:"varint,32,opt,name=x12" thrift:"32"`
	X13  int64              `json:"x13,omitempty" protobuf:"varint,33,opt,name=x13" thrift:"33"`
	X14  int64              `json:"x14,omitempty" protobuf:"varint,34,opt,name=x14" thrift:"34"`
	X15  int64              `json:"x15,omitempty" protobuf:"varint,35,opt,name=x15" thrift:"35"`
	X16  int64              `json:"x16,omitempty" protobuf:"varint,36,opt,name=x16" thrift:"36"`
	X17  int64              `json:"x17,omitempty" protobuf:"varint,37,opt,name=x17" thrift:"37"`
	X18  int64              `json:"x18,omitempty" protobuf:"varint,38,opt,name=x18" thrift:"38"`
	X19  int64              `json:"x19,omitempty" protobuf:"varint,39,opt,name=x19" thrift:"39"`
	X20  int64              `json:"x20,omitempty" protobuf:"varint,40,opt,name=x20" thrift:"40"`
	X21  int64              `json:"x21,omitempty" protobuf:"varint,41,opt,name=x21" thrift:"41"`
	X22  int64              `json:"x22,omitempty" protobuf:"varint,42,opt,name=x22" thrift:"42"`
	X23  int64              `json:"x23,omitempty" protobuf:"varint,43,opt,name=x23" thrift:"43"`
}

type Peer038 struct {
	Back *Rec038   `json:"back,omitempty" protobuf:"bytes,1,opt,name=back" thrift:"1"`
	List []*Rec038 `json:"list,omitempty" protobuf:"bytes,2,rep,name=list" thrift:"2"`
	B    bool      `json:"b" protobuf:"varint,3,opt,name=b" thrift:"3"`
}

type Rec039 struct {
	M    map[string]Peer039 `json:"m,omitempty" protobuf:"bytes,6,rep,name=m" protobuf_key:"bytes,1,opt,name=key" protobuf_val:"bytes,2,opt,name=value" thrift:"6"`
	V    int64              `json:"v" protobuf:"varint,1,opt,name=v" thrift:"1"`
	Next *Rec039            `json:"next,omitempty" protobuf:"bytes,2,opt,name=next" thrift:"2"`
	Kids []Rec039           `json:"kids,omitempty" protobuf:"bytes,3,rep,name=kids" thrift:"3"`
	Peer *Peer039           `json:"peer,omitempty" protobuf:"bytes,4,opt,name=peer" thrift:"4"`
	S    string             `json:"s,omitempty" protobuf:"bytes,5,opt,name=s" thrift:"5"`
	X00  int64              `json:"x0,omitempty" protobuf:"varint,20,opt,name=x0" thrift:"20"`
	X01  int64              `json:"x1,omitempty" protobuf:"varint,21,opt,name=x1" thrift:"21"`
	X02  int64              `json:"x2,omitempty" protobuf:"varint,22,opt,name=x2" thrift:"22"`
	X03  int64              `json:"x3,omitempty" protobuf:"varint,23,opt,name=x3" thrift:"23"`
	X04  int64              `json:"x4,omitempty" protobuf:"varint,24,opt,name=x4" thrift:"24"`
	X05  int64              `json:"x5,omitempty" protobuf:"varint,25,opt,name=x5" thrift:"25"`
	X06  int64              `json:"x6,omitempty" protobuf:"varint,26,opt,name=x6" thrift:"26"`
	X07  int64              `json:"x7,omitempty" protobuf:"varint,27,opt,name=x7" thrift:"27"`
	X08  int64              `json:"x8,omitempty" protobuf:"varint,28,opt,name=x8" thrift:"28"`
	X09  int64              `json:"x9,omitempty" protobuf:"varint,29,opt,name=x9" thrift:"29"`
	X10  int64              `json:"x10,omitempty" protobuf:"varint,30,opt,name=x10" thrift:"30"`
	X11  int64              `json:"x11,omitempty" protobuf:"varint,31,opt,name=x11" thrift:"31"`
	X12  int64              `json:"x12,omitempty" protobuf:"varint,32,opt,name=x12" thrift:"32"`
	X13  int64              `json:"x13,omitempty" protobuf:"varint,33,opt,name=x13" thrift:"33"`
	X14  int64              `json:"x14,omitempty" protobuf:"varint,34,opt,name=x14" thrift:"34"`
	X15  int64              `json:"x15,omitempty" protobuf:"varint,35,opt,name=x15" thrift:"35"`
	X16  int64              `json:"x16,omitempty" protobuf:"varint,36,opt,name=x16" thrift:"36"`
	X17  int64              `json:"x17,omitempty" protobuf:"varint,37,opt,name=x17" thrift:"37"`
	X18  int64              `json:"x18,omitempty" protobuf:"varint,38,opt,name=x18" thrift:"38"`
	X19  int64              `json:"x19,omitempty" protobuf:"varint,39,opt,name=x19" thrift:"39"`
	X20  int64              `json:"x20,omitempty" protobuf:"varint,40,opt,name=x20" thrift:"40"`
	X21  int64              `json:"x21,omitempty" protobuf:"varint,41,opt,name=x21" thrift:"41"`
	X22  int64              `json:"x22,omitempty" protobuf:"varint,42,opt,name=x22" thrift:"42"`
	X23  int64              `json:"x23,omitempty" protobuf:"varint,43,opt,name=x23" thrift:"43"`
}

type Peer039 struct {
	Back *Rec039   `json:"back,omitempty" protobuf:"bytes,1,opt,name=back" thrift:"1"`
	List []*Rec039 `json:"list,omitempty" protobuf:"bytes,2,rep,name=list" thrift:"2"`
	B    bool      `json:"b" protobuf:"varint,3,opt,name=b" thrift:"3"`
}

type Rec040 struct {
	M    map[string]Peer040 `json:"m,omitempty" protobuf:"bytes,6,rep,name=m" protobuf_key:"bytes,1,opt,name=key" protobuf_val:"bytes,2,opt,name=value" thrift:"6"`
	V    int64              `json:"v" protobuf:"varint,1,opt,name=v" thrift:"1"`
	Next *Rec040            `json:"next,omitempty" protobuf:"bytes,2,opt,name=next" thrift:"2"`
	Kids []Rec040           `json:"kids,omitempty" protobuf:"bytes,3,rep,name=kids" thrift:"3"`
	Peer *Peer040           `json:"peer,omitempty" protobuf:"bytes,4,opt,name=peer" thrift:"4"`
	S    string             `json:"s,omitempty" protobuf:"bytes,5,opt,name=s" thrift:"5"`
	X00  int64              `json:"x0,omitempty" protobuf:"varint,20,opt,name=x0" thrift:"20"`
	X01  int64              `json:"x1,omitempty" protobuf:"varint,21,opt,name=x1" thrift:"21"`
	X02  int64              `json:"x2,omitempty" protobuf:"varint,22,opt,name=x2" thrift:"22"`
	X03  int64              `json:"x3,omitempty" protobuf:"varint,23,opt,name=x3" thrift:"23"`
	X04  int64              `json:"x4,omitempty" protobuf:"varint,24,opt,name=x4" thrift:"24"`
	X05  int64              `json:"x5,omitempty" protobuf:"varint,25,opt,name=x5" thrift:"25"`
	X06  int64              `json:"x6,omitempty" protobuf:"varint,26,opt,name=x6" thrift:"26"`
	X07  int64              `json:"x7,omitempty" protobuf:"varint,27,opt,name=x7" thrift:"27"`
	X08  int64              `json:"x8,omitempty" protobuf:"varint,28,opt,name=x8" thrift:"28"`
	X09  int64              `json:"x9,omitempty" protobuf:"varint,29,opt,name=x9" thrift:"29"`
	X10  int64              `json:"x10,omitempty" protobuf:"varint,30,opt,name=x10" thrift:"30"`
	X11  int64              `json:"x11,omitempty" protobuf:"varint,31,opt,name=x11" thrift:"31"`
	X12  int64              `json:"x12,omitempty" protobuf:"varint,32,opt,name=x12" thrift:"32"`
	X13  int64              `json:"x13,omitempty" protobuf:"varint,33,opt,name=x13" thrift:"33"`
	X14  int64              `json:"x14,omitempty" protobuf:"varint,34,opt,name=x14" thrift:"34"`
	X15  int64              `json:"x15,omitempty" protobuf:"varint,35,opt,name=x15" thrift:"35"`
	X16  int64              `json:"x16,omitempty" protobuf:"varint,36,opt,name=x16" thrift:"36"`
	X17  int64              `json:"x17,omitempty" protobuf:"varint,37,opt,name=x17" thrift:"37"`
	X18  int64              `json:"x18,omitempty" protobuf:"varint,38,opt,name=x18" thrift:"38"`
	X19  int64              `json:"x19,omitempty" protobuf:"varint,39,opt,name=x19" thrift:"39"`
	X20  int64              `json:"x20,omitempty" protobuf:"varint,40,opt,name=x20" thrift:"40"`
	X21  int64              `json:"x21,omitempty" protobuf:"varint,41,opt,name=x21" thrift:"41"`
	X22  int64              `json:"x22,omitempty" protobuf:"varint,42,opt,name=x22" thrift:"42"`
	X23  int64              `json:"x23,omitempty" protobuf:"varint,43,opt,name=x23" thrift:"43"`
}

type Peer040 struct {
	Back *Rec040   `json:"back,omitempty" protobuf:"bytes,1,opt,name=back" thrift:"1"`
	List []*Rec040 `json:"list,omitempty" protobuf:"bytes,2,rep,name=list" thrift:"2"`
	B    bool      `json:"b" protobuf:"varint,3,opt,name=b" thrift:"3"`
}

type Rec041 struct {
	M    map[string]Peer041 `json:"m,omitempty" protobuf:"bytes,6,rep,name=m" protobuf_key:"bytes,1,opt,name=key" protobuf_val:"bytes,2,opt,name=value" thrift:"6"`
	V    int64              `json:"v" protobuf:"varint,1,opt,name=v" thrift:"1"`
	Next *Rec041            `json:"next,omitempty" protobuf:"bytes,2,opt,name=next" thrift:"2"`
	Kids []Rec041           `json:"kids,omitempty" protobuf:"bytes,3,rep,name=kids" thrift:"3"`
	Peer *Peer041           `json:"peer,omitempty" protobuf:"bytes,4,opt,name=peer" thrift:"4"`
	S    string             `json:"s,omitempty" protobuf:"bytes,5,opt,name=s" thrift:"5"`
	X00  int64              `json:"x0,omitempty" protobuf:"varint,20,opt,name=x0" thrift:"20"`
	X01  int64              `json:"x1,omitempty" protobuf:"varint,21,opt,name=x1" thrift:"21"`
	X02  int64              `json:"x2,omitempty" protobuf:"varint,22,opt,name=x2" thrift:"22"`
	X03  int64              `json:"x3,omitempty" protobuf:"varint,23,opt,name=x3" thrift:"23"`
	X04  int64              `json:"x4,omitempty" protobuf:"varint,24,opt,name=x4" thrift:"24"`
	X05  int64              `json:"x5,omitempty" protobuf:"varint,25,opt,name=x5" thrift:"25"`
	X06  int64              `json:"x6,omitempty" protobuf:"varint,26,opt,name=x6" thrift:"26"`
	X07  int64              `json:"x7,omitempty" protobuf:"varint,27,opt,name=x7" thrift:"27"`
	X08  int64              `json:"x8,omitempty" protobuf:"varint,28,opt,name=x8" thrift:"28"`
	X09  int64              `json:"x9,omitempty" protobuf:"varint,29,opt,name=x9" thrift:"29"`
	X10  int64              `json:"x10,omitempty" protobuf:"varint,30,opt,name=x10" thrift:"30"`
	X11  int64              `json:"x11,omitempty" protobuf:"varint,31,opt,name=x11" thrift:"31"`
	X12  int64              `json:"x12,omitempty" protobuf:"varint,32,opt,name=x12" thrift:"32"`
	X13  int64              `json:"x13,omitempty" protobuf:"varint,33,opt,name=x13" thrift:"33"`
	X14  int64              `json:"x14,omitempty" protobuf:"varint,34,opt,name=x14" thrift:"34"`
	X15  int64              `json:"x15,omitempty" protobuf:"varint,35,opt,name=x15" thrift:"35"`
	X16  int64              `json:"x16,omitempty" protobuf:"varint,36,opt,name=x16" thrift:"36"`
	X17  int64              `json:"x17,omitempty" protobuf:"varint,37,opt,name=x17" thrift:"37"`
	X18  int64              `json:"x18,omitempty" protobuf:"varint,38,opt,name=x18" thrift:"38"`
	X19  int64              `json:"x19,omitempty" protobuf:"varint,39,opt,name=x19" thrift:"39"`
	X20  int64              `json:"x20,omitempty" protobuf:"varint,40,opt,name=x20" thrift:"40"`
	X21  int64              `json:"x21,omitempty" protobuf:"varint,41,opt,name=x21" thrift:"41"`
	X22  int64              `json:"x22,omitempty" protobuf:"varint,42,opt,name=x22" thrift:"42"`
	X23  int64              `json:"x23,omitempty" protobuf:"varint,43,opt,name=x23" thrift:"43"`
}

type Peer041 struct {
	Back *Rec041   `json:"back,omitempty" protobuf:"bytes,1,opt,name=back" thrift:"1"`
	List []*Rec041 `json:"list,omitempty" protobuf:"bytes,2,rep,name=list" thrift:"2"`
	B    bool      `json:"b" protobuf:"varint,3,opt,name=b" thrift:"3"`
}

type Rec042 struct {
	M    map[string]Peer042 `json:"m,omitempty" protobuf:"bytes,6,rep,name=m" protobuf_key:"bytes,1,opt,name=key" protobuf_val:"bytes,2,opt,name=value" thrift:"6"`
	V    int64              `json:"v" protobuf:"varint,1,opt,name=v" thrift:"1"`
	Next *Rec042            `json:"next,omitempty" protobuf:"bytes,2,opt,name=next" thrift:"2"`
	Kids []Rec042           `json:"kids,omitempty" protobuf:"bytes,3,rep,name=kids" thrift:"3"`
	Peer *Peer042           `json:"peer,omitempty" protobuf:"bytes,4,opt,name=peer" thrift:"4"`
	S    string             `json:"s,omitempty" protobuf:"bytes,5,opt,name=s" thrift:"5"`
	X00  int64              `json:"x0,omitempty" protobuf:"varint,20,opt,name=x0" thrift:"20"`
	X01  int64              `json:"x1,omitempty" protobuf:"varint,21,opt,name=x1" thrift:"21"`
	X02  int64              `json:"x2,omitempty" protobuf:"varint,22,opt,name=x2" thrift:"22"`
	X03  int64              `json:"x3,omitempty" protobuf:"varint,23,opt,name=x3" thrift:"23"`
	X04  int64              `json:"x4,omitempty" protobuf:"varint,24,opt,name=x4" thrift:"24"`
	X05  int64              `json:"x5,omitempty" protobuf:"varint,25,opt,name=x5" thrift:"25"`
	X06  int64              `json:"x6,omitempty" protobuf:"varint,26,opt,name=x6" thrift:"26"`
	X07  int64              `json:"x7,omitempty" protobuf:"varint,27,opt,name=x7" thrift:"27"`
	X08  int64              `json:"x8,omitempty" protobuf:"varint,28,opt,name=x8" thrift:"28"`
	X09  int64              `json:"x9,omitempty" protobuf:"varint,29,opt,name=x9" thrift:"29"`
	X10  int64              `json:"x10,omitempty" protobuf:"varint,30,opt,name=x10" thrift:"30"`
	X11  int64              `json:"x11,omitempty" protobuf:"varint,31,opt,name=x11" thrift:"31"`
	X12  int64              `json:"x12,omitempty" protobuf:"varint,32,opt,name=x12" thrift:"32"`
	X13  int64              `json:"x13,omitempty" protobuf:"varint,33,opt,name=x13" thrift:"33"`
	X14  int64              `json:"x14,omitempty" protobuf:"varint,34,opt,name=x14" thrift:"34"`
	X15  int64              `json:"x15,omitempty" protobuf:"varint,35,opt,name=x15" thrift:"35"`
	X16  int64              `json:"x16,omitempty" protobuf:"varint,36,opt,name=x16" thrift:"36"`
	X17  int64              `json:"x17,omitempty" protobuf:"varint,37,opt,name=x17" thrift:"37"`
	X18  int64              `json:"x18,omitempty" protobuf:"varint,38,opt,name=x18" thrift:"38"`
	X19  int64              `json:"x19,omitempty" protobuf:"varint,39,opt,name=x19" thrift:"39"`
	X20  int64              `json:"x20,omitempty" protobuf:"varint,40,opt,name=x20" thrift:"40"`
	X21  int64              `json:"x21,omitempty" protobuf:"varint,41,opt,name=x21" thrift:"41"`
	X22  int64              `json:"x22,omitempty" protobuf:"varint,42,opt,name=x22" thrift:"42"`
	X23  int64              `json:"x23,omitempty" protobuf:"varint,43,opt,name=x23" thrift:"43"`
}

type Peer042 struct {
	Back *Rec042   `json:"back,omitempty" protobuf:"bytes,1,opt,name=back" thrift:"1"`
	List []*Rec042 `json:"list,omitempty" protobuf:"bytes,2,rep,name=list" thrift:"2"`
	B    bool      `json:"b" protobuf:"varint,3,opt,name=b" thrift:"3"`
}

type Rec043 struct {
	M    map[string]Peer043 `json:"m,omitempty" protobuf:"bytes,6,rep,name=m" protobuf_key:"bytes,1,opt,name=key" protobuf_val:"bytes,2,opt,name=value" thrift:"6"`
	V    int64              `json:"v" protobuf:"varint,1,opt,name=v" thrift:"1"`
	Next *Rec043            `json:"next,omitempty" protobuf:"bytes,2,opt,name=next" thrift:"2"`
	Kids []Rec043           `json:"kids,omitempty" protobuf:"bytes,3,rep,name=kids" thrift:"3"`
	Peer *Peer043           `json:"peer,omitempty" protobuf:"bytes,4,opt,name=peer" thrift:"4"`
	S    string             `json:"s,omitempty" protobuf:"bytes,5,opt,name=s" thrift:"5"`
	X00  int64              `json:"x0,omitempty" protobuf:"varint,20,opt,name=x0" thrift:"20"`
	X01  int64              `json:"x1,omitempty" protobuf:"varint,21,opt,name=x1" thrift:"21"`
	X02  int64              `json:"x2,omitempty" protobuf:"varint,22,opt,name=x2" thrift:"22"`
	X03  int64              `json:"x3,omitempty" protobuf:"varint,23,opt,name=x3" thrift:"23"`
	X04  int64              `json:"x4,omitempty" protobuf:"varint,24,opt,name=x4" thrift:"24"`
	X05  int64              `json:"x5,omitempty" protobuf:"varint,25,opt,name=x5" thrift:"25"`
	X06  int64              `json:"x6,omitempty" protobuf:"varint,26,opt,name=x6" thrift:"26"`
	X07  int64              `json:"x7,omitempty" protobuf:"varint,27,opt,name=x7" thrift:"27"`
	X08  int64              `json:"x8,omitempty" protobuf:"varint,28,opt,name=x8" thrift:"28"`
	X09  int64              `json:"x9,omitempty" protobuf:"varint,29,opt,name=x9" thrift:"29"`
	X10  int64              `json:"x10,omitempty" protobuf:"varint,30,opt,name=x10" thrift:"30"`
	X11  int64              `json:"x11,omitempty" protobuf:"varint,31,opt,name=x11" thrift:"31"`
	X12  int64              `json:"x12,omitempty" protobuf:"varint,32,opt,name=x12" thrift:"32"`
	X13  int64              `json:"x13,omitempty" protobuf:"varint,33,opt,name=x13" thrift:"33"`
	X14  int64              `json:"x14,omitempty" protobuf:"varint,34,opt,name=x14" thrift:"34"`
	X15  int64              `json:"x15,omitempty" protobuf:"varint,35,opt,name=x15" thrift:"35"`
	X16  int64              `json:"x16,omitempty" protobuf:"varint,36,opt,name=x16" thrift:"36"`
	X17  int64              `json:"x17,omitempty" protobuf:"varint,37,opt,name=x17" thrift:"37"`
	X18  int64              `json:"x18,omitempty" protobuf:"varint,38,opt,name=x18" thrift:"38"`
	X19  int64              `json:"x19,omitempty" protobuf:"varint,39,opt,name=x19" thrift:"39"`
	X20  int64              `json:"x20,omitempty" protobuf:"varint,40,opt,name=x20" thrift:"40"`
	X21  int64              `json:"x21,omitempty" protobuf:"varint,41,opt,name=x21" thrift:"41"`
	X22  int64              `json:"x22,omitempty" protobuf:"varint,42,opt,name=x22" thrift:"42"`
	X23  int64              `json:"x23,omitempty" protobuf:"varint,43,opt,name=x23" thrift:"43"`
}

type Peer043 struct {
	Back *Rec043   `json:"back,omitempty" protobuf:"bytes,1,opt,name=back" thrift:"1"`
	List []*Rec043 `json:"list,omitempty" protobuf:"bytes,2,rep,name=list" thrift:"2"`
	B    bool      `json:"b" protobuf:"varint,3,opt,name=b" thrift:"3"`
}

type Rec044 struct {
	M    map[string]Peer044 `json:"m,omitempty" protobuf:"bytes,6,rep,name=m" protobuf_key:"bytes,1,opt,name=key" protobuf_val:"bytes,2,opt,name=value" thrift:"6"`
	V    int64              `json:"v" protobuf:"varint,1,opt,name=v" thrift:"1"`
	Next *Rec044            `json:"next,omitempty" protobuf:"bytes,2,opt,name=next" thrift:"2"`
	Kids []Rec044           `json:"kids,omitempty" protobuf:"bytes,3,rep,name=kids" thrift:"3"`
	Peer *Peer044           `json:"peer,omitempty" protobuf:"bytes,4,opt,name=peer" thrift:"4"`
	S    string             `json:"s,omitempty" protobuf:"bytes,5,opt,name=s" thrift:"5"`
	X00  int64              `json:"x0,omitempty" protobuf:"varint,20,opt,name=x0" thrift:"20"`
	X01  int64              `json:"x1,omitempty" protobuf:"varint,21,opt,name=x1" thrift:"21"`
	X02  int64              `json:"x2,omitempty" protobuf:"varint,22,opt,name=x2" thrift:"22"`
	X03  int64              `json:"x3,omitempty" protobuf:"varint,23,opt,name=x3" thrift:"23"`
	X04  int64              `json:"x4,omitempty" protobuf:"varint,24,opt,name=x4" thrift:"24"`
	X05  int64              `json:"x5,omitempty" protobuf:"varint,25,opt,name=x5" thrift:"25"`
	X06  int64              `json:"x6,omitempty" protobuf:"varint,26,opt,name=x6" thrift:"26"`
	X07  int64              `json:"x7,omitempty" protobuf:"varint,27,opt,name=x7" thrift:"27"`
	X08  int64              `json:"x8,omitempty" protobuf:"varint,28,opt,name=x8" thrift:"28"`
	X09  int64              `json:"x9,omitempty" protobuf:"varint,29,opt,name=x9" thrift:"29"`
	X10  int64              `json:"x10,omitempty" protobuf:"varint,30,opt,name=x10" thrift:"30"`
	X11  int64              `json:"x11,omitempty" protobuf:"varint,31,opt,name=x11" thrift:"31"`
	X12  int64              `json:"x12,omitempty" protobuf:"varint,32,opt,name=x12" thrift:"32"`
	X13  int64              `json:"x13,omitempty" protobuf:"varint,33,opt,name=x13" thrift:"33"`
	X14  int64              `json:"x14,omitempty" protobuf:"varint,34,opt,name=x14" thrift:"34"`
	X15  int64              `json:"x15,omitempty" protobuf:"varint,35,opt,name=x15" thrift:"35"`
	X16  int64              `json:"x16,omitempty" protobuf:"varint,36,opt,name=x16" thrift:"36"`
	X17  int64              `json:"x17,omitempty" protobuf:"varint,37,opt,name=x17" thrift:"37"`
	X18  int64              `json:"x18,omitempty" protobuf:"varint,38,opt,name=x18" thrift:"38"`
	X19  int64              `json:"x19,omitempty" protobuf:"varint,39,opt,name=x19" thrift:"39"`
	X20  int64              `json:"x20,omitempty" protobuf:"varint,40,opt,name=x20" thrift:"40"`
	X21  int64              `json:"x21,omitempty" protobuf:"varint,41,opt,name=x21" thrift:"41"`
	X22  int64              `json:"x22,omitempty" protobuf:"varint,42,opt,name=x22" thrift:"42"`
	X23  int64              `json:"x23,omitempty" protobuf:"varint,43,opt,name=x23" thrift:"43"`
}

type Peer044 struct {
	Back *Rec044   `json:"back,omitempty" protobuf:"bytes,1,opt,name=back" thrift:"1"`
	List []*Rec044 `json:"list,omitempty" protobuf:"bytes,2,rep,name=list" thrift:"2"`
	B    bool      `json:"b" protobuf:"varint,3,opt,name=b" thrift:"3"`
}

type Rec045 struct {
	M    map[string]Peer045 `json:"m,omitempty" protobuf:"bytes,6,rep,name=m" protobuf_key:"bytes,1,opt,name=key" protobuf_val:"bytes,2,opt,name=value" thrift:"6"`
	V    int64              `json:"v" protobuf:"varint,1,opt,name=v" thrift:"1"`
	Next *Rec045            `json:"next,omitempty" protobuf:"bytes,2,opt,name=next" thrift:"2"`
	Kids []Rec045           `json:"kids,omitempty" protobuf:"bytes,3,rep,name=kids" thrift:"3"`
	Peer *Peer045           `json:"peer,omitempty" protobuf:"bytes,4,opt,name=peer" thrift:"4"`
	S    string             `json:"s,omitempty" protobuf:"bytes,5,opt,name=s" thrift:"5"`
	X00  int64              `json:"x0,omitempty" protobuf:"varint,20,opt,name=x0" thrift:"20"`
	X01  int64              `json:"x1,omitempty" protobuf:"varint,21,opt,name=x1" thrift:"21"`
	X02  int64              `json:"x2,omitempty" protobuf:"varint,22,opt,name=x2" thrift:"22"`
	X03  int64              `json:"x3,omitempty" protobuf:"varint,23,opt,name=x3" thrift:"23"`
	X04  int64              `json:"x4,omitempty" protobuf:"varint,24,opt,name=x4" thrift:"24"`
	X05  int64              `json:"x5,omitempty" protobuf:"varint,25,opt,name=x5" thrift:"25"`
	X06  int64              `json:"x6,omitempty" protobuf:"varint,26,opt,name=x6" thrift:"26"`
	X07  int64              `json:"x7,omitempty" protobuf:"varint,27,opt,name=x7" thrift:"27"`
	X08  int64              `json:"x8,omitempty" protobuf:"varint,28,opt,name=x8" thrift:"28"`
	X09  int64              `json:"x9,omitempty" protobuf:"varint,29,opt,name=x9" thrift:"29"`
	X10  int64              `json:"x10,omitempty" protobuf:"varint,30,opt,name=x10" thrift:"30"`
	X11  int64              `json:"x11,omitempty" protobuf:"varint,31,opt,name=x11" thrift:"31"`
	X12  int64              `json:"x12,omitempty" protobuf:"varint,32,opt,name=x12" thrift:"32"`
	X13  int64              `json:"x13,omitempty" protobuf:"varint,33,opt,name=x13" thrift:"33"`
	X14  int64              `json:"x14,omitempty" protobuf:"varint,34,opt,name=x14" thrift:"34"`
	X15  int64              `json:"x15,omitempty" protobuf:"varint,35,opt,name=x15" thrift:"35"`
	X16  int64              `json:"x16,omitempty" protobuf:"varint,36,opt,name=x16" thrift:"36"`
	X17  int64              `json:"x17,omitempty" protobuf:"varint,37,opt,name=x17" thrift:"37"`
	X18  int64              `json:"x18,omitempty" protobuf:"varint,38,opt,name=x18" thrift:"38"`
	X19  int64              `json:"x19,omitempty" protobuf:"varint,39,opt,name=x19" thrift:"39"`
	X20  int64              `json:"x20,omitempty" protobuf:"varint,40,opt,name=x20" thrift:"40"`
	X21  int64              `json:"x21,omitempty" protobuf:"varint,41,opt,name=x21" thrift:"41"`
	X22  int64              `json:"x22,omitempty" protobuf:"varint,42,opt,name=x22" thrift:"42"`
	X23  int64              `json:"x23,omitempty" protobuf:"varint,43,opt,name=x23" thrift:"43"`
}

type Peer045 struct {
	Back *Rec045   `json:"back,omitempty" protobuf:"bytes,1,opt,name=back" thrift:"1"`
	List []*Rec045 `json:"list,omitempty" protobuf:"bytes,2,rep,name=list" thrift:"2"`
	B    bool      `json:"b" protobuf:"varint,3,opt,name=b" thrift:"3"`
}

type Rec046 struct {
	M    map[string]Peer046 `json:"m,omitempty" protobuf:"bytes,6,rep,name=m" protobuf_key:"bytes,1,opt,name=key" protobuf_val:"bytes,2,opt,name=value" thrift:"6"`
	V    int64              `json:"v" protobuf:"varint,1,opt,name=v" thrift:"1"`
	Next *Rec046            `json:"next,omitempty" protobuf:"bytes,2,opt,name=next" thrift:"2"`
	Kids []Rec046           `json:"kids,omitempty" protobuf:"bytes,3,rep,name=kids" thrift:"3"`
	Peer *Peer046           `json:"peer,omitempty" protobuf:"bytes,4,opt,name=peer" thrift:"4"`
	S    string             `json:"s,omitempty" protobuf:"bytes,5,opt,name=s" thrift:"5"`
	X00  int64              `json:"x0,omitempty" protobuf:"varint,20,opt,name=x0" thrift:"20"`
	X01  int64              `json:"x1,omitempty" protobuf:"varint,21,opt,name=x1" thrift:"21"`
	X02  int64              `json:"x2,omitempty" protobuf:"varint,22,opt,name=x2" thrift:"22"`
	X03  int64              `json:"x3,omitempty" protobuf:"varint,23,opt,name=x3" thrift:"23"`
	X04  int64              `json:"x4,omitempty" protobuf:"varint,24,opt,name=x4" thrift:"24"`
	X05  int64              `json:"x5,omitempty" protobuf:"varint,25,opt,name=x5" thrift:"25"`
	X06  int64              `json:"x6,omitempty" protobuf:"varint,26,opt,name=x6" thrift:"26"`
	X07  int64              `json:"x7,omitempty" protobuf:"varint,27,opt,name=x7" thrift:"27"`
	X08  int64              `json:"x8,omitempty" protobuf:"varint,28,opt,name=x8" thrift:"28"`
	X09  int64              `json:"x9,omitempty" protobuf:"varint,29,opt,name=x9" thrift:"29"`
	X10  int64              `json:"x10,omitempty" protobuf:"varint,30,opt,name=x10" thrift:"30"`
	X11  int64              `json:"x11,omitempty" protobuf:"varint,31,opt,name=x11" thrift:"31"`
	X12  int64              `json:"x12,omitempty" protobuf:"varint,32,opt,name=x12" thrift:"32"`
	X13  int64              `json:"x13,omitempty" protobuf:"varint,33,opt,name=x13" thrift:"33"`
	X14  int64              `json:"x14,omitempty" protobuf:"varint,34,opt,name=x14" thrift:"34"`
	X15  int64              `json:"x15,omitempty" protobuf:"varint,35,opt,name=x15" thrift:"35"`
	X16  int64              `json:"x16,omitempty" protobuf:"varint,36,opt,name=x16" thrift:"36"`
	X17  int64              `json:"x17,omitempty" protobuf:"varint,37,opt,name=x17" thrift:"37"`
	X18  int64              `json:"x18,omitempty" protobuf:"varint,38,opt,name=x18" thrift:"38"`
	X19  int64              `json:"x19,omitempty" protobuf:"varint,39,opt,name=x19" thrift:"39"`
	X20  int64              `json:"x20,omitempty" protobuf:"varint,40,opt,name=x20" thrift:"40"`
	X21  int64              `json:"x21,omitempty" protobuf:"varint,41,opt,name=x21" thrift:"41"`
	X22  int64              `json:"x22,omitempty" protobuf:"varint,42,opt,name=x22" thrift:"42"`
	X23  int64              `json:"x23,omitempty" protobuf:"varint,43,opt,name=x23" thrift:"43"`
}

type Peer046 struct {
	Back *Rec046   `json:"back,omitempty" protobuf:"bytes,1,opt,name=back" thrift:"1"`
	List []*Rec046 `json:"list,omitempty" protobuf:"bytes,2,rep,name=list" thrift:"2"`
	B    bool      `json:"b" protobuf:"varint,3,opt,name=b" thrift:"3"`
}

type Rec047 struct {
	M    map[string]Peer047 `json:"m,omitempty" protobuf:"bytes,6,rep,name=m" protobuf_key:"bytes,1,opt,name=key" protobuf_val:"bytes,2,opt,name=value" thrift:"6"`
	V    int64              `json:"v" protobuf:"varint,1,opt,name=v" thrift:"1"`
	Next *Rec047            `json:"next,omitempty" protobuf:"bytes,2,opt,name=next" thrift:"2"`
	Kids []Rec047           `json:"kids,omitempty" protobuf:"bytes,3,rep,name=kids" thrift:"3"`
	Peer *Peer047           `json:"peer,omitempty" protobuf:"bytes,4,opt,name=peer" thrift:"4"`
	S    string             `json:"s,omitempty" protobuf:"bytes,5,opt,name=s" thrift:"5"`
	X00  int64              `json:"x0,omitempty" protobuf:"varint,20,opt,name=x0" thrift:"20"`
	X01  int64              `json:"x1,omitempty" protobuf:"varint,21,opt,name=x1" thrift:"21"`
	X02  int64              `json:"x2,omitempty" protobuf:"varint,22,opt,name=x2" thrift:"22"`
	X03  int64              `json:"x3,omitempty" protobuf:"varint,23,opt,name=x3" thrift:"23"`
	X04  int64              `json:"x4,omitempty" protobuf:"varint,24,opt,name=x4" thrift:"24"`
	X05  int64              `json:"x5,omitempty" protobuf:"varint,25,opt,name=x5" thrift:"25"`
	X06  int64              `json:"x6,omitempty" protobuf:"varint,26,opt,name=x6" thrift:"26"`
	X07  int64              `json:"x7,omitempty" protobuf:"varint,27,opt,name=x7" thrift:"27"`
	X08  int64              `json:"x8,omitempty" protobuf:"varint,28,opt,name=x8" thrift:"28"`
	X09  int64              `json:"x9,omitempty" protobuf:"varint,29,opt,name=x9" thrift:"29"`
	X10  int64              `json:"x10,omitempty" protobuf:"varint,30,opt,name=x10" thrift:"30"`
	X11  int64              `json:"x11,omitempty" protobuf:"varint,31,opt,name=x11" thrift:"31"`
	X12  int64              `json:"x12,omitempty" protobuf:"varint,32,opt,name=x12" thrift:"32"`
	X13  int64              `json:"x13,omitempty" protobuf:"varint,33,opt,name=x13" thrift:"33"`
	X14  int64              `json:"x14,omitempty" protobuf:"varint,34,opt,name=x14" thrift:"34"`
	X15  int64              `json:"x15,omitempty" protobuf:"varint,35,opt,name=x15" thrift:"35"`
	X16  int64              `json:"x16,omitempty" protobuf:"varint,36,opt,name=x16" thrift:"36"`
	X17  int64              `json:"x17,omitempty" protobuf:"varint,37,opt,name=x17" thrift:"37"`
	X18  int64              `json:"x18,omitempty" protobuf:"varint,38,opt,name=x18" thrift:"38"`
	X19  int64              `json:"x19,omitempty" protobuf:"varint,39,opt,name=x19" thrift:"39"`
	X20  int64              `json:"x20,omitempty" protobuf:"varint,40,opt,name=x20" thrift:"40"`
	X21  int64              `json:"x21,omitempty" protobuf:"varint,41,opt,name=x21" thrift:"41"`
	X22  int64              `json:"x22,omitempty" protobuf:"varint,42,opt,name=x22" thrift:"42"`
	X23  int64              `json:"x23,omitempty" protobuf:"varint,43,opt,name=x23" thrift:"43"`
}

type Peer047 struct {
	Back *Rec047   `json:"back,omitempty" protobuf:"bytes,1,opt,name=back" thrift:"1"`
	List []*Rec047 `json:"list,omitempty" protobuf:"bytes,2,rep,name=list" thrift:"2"`
	B    bool      `json:"b" protobuf:"varint,3,opt,name=b" thrift:"3"`
}

type Rec048 struct {
	M    map[string]Peer048 `json:"m,omitempty" protobuf:"bytes,6,rep,name=m" protobuf_key:"bytes,1,opt,name=key" protobuf_val:"bytes,2,opt,name=value" thrift:"6"`
	V    int64              `json:"v" protobuf:"varint,1,opt,name=v" thrift:"1"`
	Next *Rec048            `json:"next,omitempty" protobuf:"bytes,2,opt,name=next" thrift:"2"`
	Kids []Rec048           `json:"kids,omitempty" protobuf:"bytes,3,rep,name=kids" thrift:"3"`
	Peer *Peer048           `json:"peer,omitempty" protobuf:"bytes,4,opt,name=peer" thrift:"4"`
	S    string             `json:"s,omitempty" protobuf:"bytes,5,opt,name=s" thrift:"5"`
	X00  int64              `json:"x0,omitempty" protobuf:"varint,20,opt,name=x0" thrift:"20"`
	X01  int64              `json:"x1,omitempty" protobuf:"varint,21,opt,name=x1" thrift:"21"`
	X02  int64              `json:"x2,omitempty" protobuf:"varint,22,opt,name=x2" thrift:"22"`
	X03  int64              `json:"x3,omitempty" protobuf:"varint,23,opt,name=x3" thrift:"23"`
	X04  int64              `json:"x4,omitempty" protobuf:"varint,24,opt,name=x4" thrift:"24"`
	X05  int64              `json:"x5,omitempty" protobuf:"varint,25,opt,name=x5" thrift:"25"`
	X06  int64              `json:"x6,omitempty" protobuf:"varint,26,opt,name=x6" thrift:"26"`
	X07  int64              `json:"x7,omitempty" protobuf:"varint,27,opt,name=x7" thrift:"27"`
	X08  int64              `json:"x8,omitempty" protobuf:"varint,28,opt,name=x8" thrift:"28"`
	X09  int64              `json:"x9,omitempty" protobuf:"varint,29,opt,name=x9" thrift:"29"`
	X10  int64              `json:"x10,omitempty" protobuf:"varint,30,opt,name=x10" thrift:"30"`
	X11  int64              `json:"x11,omitempty" protobuf:"varint,31,opt,name=x11" thrift:"31"`
	X12  int64              `json:"x12,omitempty" protobuf:"varint,32,opt,name=x12" thrift:"32"`
	X13  int64              `json:"x13,omitempty" protobuf:"varint,33,opt,name=x13" thrift:"33"`
	X14  int64              `json:"x14,omitempty" protobuf:"varint,34,opt,name=x14" thrift:"34"`
	X15  int64              `json:"x15,omitempty" protobuf:"varint,35,opt,name=x15" thrift:"35"`
	X16  int64              `json:"x16,omitempty" protobuf:"varint,36,opt,name=x16" thrift:"36"`
	X17  int64              `json:"x17,omitempty" protobuf:"varint,37,opt,name=x17" thrift:"37"`
	X18  int64              `json:"x18,omitempty" protobuf:"varint,38,opt,name=x18" thrift:"38"`
	X19  int64              `json:"x19,omitempty" protobuf:"varint,39,opt,name=x19" thrift:"39"`
	X20  int64              `json:"x20,omitempty" protobuf:"varint,40,opt,name=x20" thrift:"40"`
	X21  int64              `json:"x21,omitempty" protobuf:"varint,41,opt,name=x21" thrift:"41"`
	X22  int64              `json:"x22,omitempty" protobuf:"varint,42,opt,name=x22" thrift:"42"`
	X23  int64              `json:"x23,omitempty" protobuf:"varint,43,opt,name=x23" thrift:"43"`
}

type Peer048 struct {
	Back *Rec048   `json:"back,omitempty" protobuf:"bytes,1,opt,name=back" thrift:"1"`
	List []*Rec048 `json:"list,omitempty" protobuf:"bytes,2,rep,name=list" thrift:"2"`
	B    bool      `json:"b" protobuf:"varint,3,opt,name=b" thrift:"3"`
}

type Rec049 struct {
	M    map[string]Peer049 `json:"m,omitempty" protobuf:"bytes,6,rep,name=m" protobuf_key:"bytes,1,opt,name=key" protobuf_val:"bytes,2,opt,name=value" thrift:"6"`
	V    int64              `json:"v" protobuf:"varint,1,opt,name=v" thrift:"1"`
	Next *Rec049            `json:"next,omitempty" protobuf:"bytes,2,opt,name=next" thrift:"2"`
	Kids []Rec049           `json:"kids,omitempty" protobuf:"bytes,3,rep,name=kids" thrift:"3"`
	Peer *Peer049           `json:"peer,omitempty" protobuf:"bytes,4,opt,name=peer" thrift:"4"`
	S    string             `json:"s,omitempty" protobuf:"bytes,5,opt,name=s" thrift:"5"`
	X00  int64              `json:"x0,omitempty" protobuf:"varint,20,opt,name=x0" thrift:"20"`
	X01  int64              `json:"x1,omitempty" protobuf:"varint,21,opt,name=x1" thrift:"21"`
	X02  int64              `json:"x2,omitempty" protobuf:"varint,22,opt,name=x2" thrift:"22"`
	X03  int64              `json:"x3,omitempty" protobuf:"varint,23,opt,name=x3" thrift:"23"`
	X04  int64              `json:"x4,omitempty" protobuf:"varint,24,opt,name=x4" thrift:"24"`
	X05  int64              `json:"x5,omitempty" protobuf:"varint,25,opt,name=x5" thrift:"25"`
	X06  int64              `json:"x6,omitempty" protobuf:"varint,26,opt,name=x6" thrift:"26"`
	X07  int64              `json:"x7,omitempty" protobuf:"varint,27,opt,name=x7" thrift:"27"`
	X08  int64              `json:"x8,omitempty" protobuf:"varint,28,opt,name=x8" thrift:"28"`
	X09  int64              `json:"x9,omitempty" protobuf:"varint,29,opt,name=x9" thrift:"29"`
	X10  int64              `json:"x10,omitempty" protobuf:"varint,30,opt,name=x10" thrift:"30"`
	X11  int64              `json:"x11,omitempty" protobuf:"varint,31,opt,name=x11" thrift:"31"`
	X12  int64              `json:"x12,omitempty" protobuf:"varint,32,opt,name=x12" thrift:"32"`
	X13  int64              `json:"x13,omitempty" protobuf:"varint,33,opt,name=x13" thrift:"33"`
	X14  int64              `json:"x14,omitempty" protobuf:"varint,34,opt,name=x14" thrift:"34"`
	X15  int64              `json:"x15,omitempty" protobuf:"varint,35,opt,name=x15" thrift:"35"`
	X16  int64              `json:"x16,omitempty" protobuf:"varint,36,opt,name=x16" thrift:"36"`
	X17  int64              `json:"x17,omitempty" protobuf:"varint,37,opt,name=x17" thrift:"37"`
	X18  int64              `json:"x18,omitempty" protobuf:"varint,38,opt,name=x18" thrift:"38"`
	X19  int64              `json:"x19,omitempty" protobuf:"varint,39,opt,name=x19" thrift:"39"`
	X20  int64              `json:"x20,omitempty" protobuf:"varint,40,opt,name=x20" thrift:"40"`
	X21  int64              `json:"x21,omitempty" protobuf:"varint,41,opt,name=x21" thrift:"41"`
	X22  int64              `json:"x22,omitempty" protobuf:"varint,42,opt,name=x22" thrift:"42"`
	X23  int64              `json:"x23,omitempty" protobuf:"varint,43,opt,name=x23" thrift:"43"`
}

type Peer049 struct {
	Back *Rec049   `json:"back,omitempty" protobuf:"bytes,1,opt,name=back" thrift:"1"`
	List []*Rec049 `json:"list,omitempty" protobuf:"bytes,2,rep,name=list" thrift:"2"`
	B    bool      `json:"b" protobuf:"varint,3,opt,name=b" thrift:"3"`
}

type Rec050 struct {
	M    map[string]Peer050 `json:"m,omitempty" protobuf:"bytes,6,rep,name=m" protobuf_key:"bytes,1,opt,name=key" protobuf_val:"bytes,2,opt,name=value" thrift:"6"`
	V    int64              `json:"v" protobuf:"varint,1,opt,name=v" thrift:"1"`
	Next *Rec050            `json:"next,omitempty" protobuf:"bytes,2,opt,name=next" thrift:"2"`
	Kids []Rec050           `json:"kids,omitempty" protobuf:"bytes,3,rep,name=kids" thrift:"3"`
	Peer *Peer050           `json:"peer,omitempty" protobuf:"bytes,4,opt,name=peer" thrift:"4"`
	S    string             `json:"s,omitempty" protobuf:"bytes,5,opt,name=s" thrift:"5"`
	X00  int64              `json:"x0,omitempty" protobuf:"varint,20,opt,name=x0" thrift:"20"`
	X01  int64              `json:"x1,omitempty" protobuf:"varint,21,opt,name=x1" thrift:"21"`
	X02  int64              `json:"x2,omitempty" protobuf:"varint,22,opt,name=x2" thrift:"22"`
	X03  int64              `json:"x3,omitempty" protobuf:"varint,23,opt,name=x3" thrift:"23"`
	X04  int64              `json:"x4,omitempty" protobuf:"varint,24,opt,name=x4" thrift:"24"`
	X05  int64              `json:"x5,omitempty" protobuf:"varint,25,opt,name=x5" thrift:"25"`
	X06  int64              `json:"x6,omitempty" protobuf:"varint,26,opt,name=x6" thrift:"26"`
	X07  int64              `json:"x7,omitempty" protobuf:"varint,27,opt,name=x7" thrift:"27"`
	X08  int64              `json:"x8,omitempty" protobuf:"varint,28,opt,name=x8" thrift:"28"`
	X09  int64              `json:"x9,omitempty" protobuf:"varint,29,opt,name=x9" thrift:"29"`
	X10  int64              `json:"x10,omitempty" protobuf:"varint,30,opt,name=x10" thrift:"30"`
	X11  int64              `json:"x11,omitempty" protobuf:"varint,31,opt,name=x11" thrift:"31"`
	X12  int64              `json:"x12,omitempty" protobuf:"varint,32,opt,name=x12" thrift:"32"`
	X13  int64              `json:"x13,omitempty" protobuf:"varint,33,opt,name=x13" thrift:"33"`
	X14  int64              `json:"x14,omitempty" protobuf:"varint,34,opt,name=x14" thrift:"34"`
	X15  int64              `json:"x15,omitempty" protobuf:"varint,35,opt,name=x15" thrift:"35"`
	X16  int64              `json:"x16,omitempty" protobuf:"varint,36,opt,name=x16" thrift:"36"`
	X17  int64              `json:"x17,omitempty" protobuf:"varint,37,opt,name=x17" thrift:"37"`
	X18  int64              `json:"x18,omitempty" protobuf:"varint,38,opt,name=x18" thrift:"38"`
	X19  int64              `json:"x19,omitempty" protobuf:"varint,39,opt,name=x19" thrift:"39"`
	X20  int64              `json:"x20,omitempty" protobuf:"varint,40,opt,name=x20" thrift:"40"`
	X21  int64              `json:"x21,omitempty" protobuf:"varint,41,opt,name=x21" thrift:"41"`
	X22  int64              `json:"x22,omitempty" protobuf:"varint,42,opt,name=x22" thrift:"42"`
	X23  int64              `json:"x23,omitempty" protobuf:"varint,43,opt,name=x23" thrift:"43"`
}

type Peer050 struct {
	Back *Rec050   `json:"back,omitempty" protobuf:"bytes,1,opt,name=back" thrift:"1"`
	List []*Rec050 `json:"list,omitempty" protobuf:"bytes,2,rep,name=list" thrift:"2"`
	B    bool      `json:"b" protobuf:"varint,3,opt,name=b" thrift:"3"`
}

type Rec051 struct {
	M    map[string]Peer051 `json:"m,omitempty" protobuf:"bytes,6,rep,name=m" protobuf_key:"bytes,1,opt,name=key" protobuf_val:"bytes,2,opt,name=value" thrift:"6"`
	V    int64              `json:"v" protobuf:"varint,1,opt,name=v" thrift:"1"`
	Next *Rec051            `json:"next,omitempty" protobuf:"bytes,2,opt,name=next" thrift:"2"`
	Kids []Rec051           `json:"kids,omitempty" protobuf:"bytes,3,rep,name=kids" thrift:"3"`
	Peer *Peer051           `json:"peer,omitempty" protobuf:"bytes,4,opt,name=peer" thrift:"4"`
	S    string             `json:"s,omitempty" protobuf:"bytes,5,opt,name=s" thrift:"5"`
	X00  int64              `json:"x0,omitempty" protobuf:"varint,20,opt,name=x0" thrift:"20"`
	X01  int64              `json:"x1,omitempty" protobuf:"varint,21,opt,name=x1" thrift:"21"`
	X02  int64              `json:"x2,omitempty" protobuf:"varint,22,opt,name=x2" thrift:"22"`
	X03  int64              `json:"x3,omitempty" protobuf:"varint,23,opt,name=x3" thrift:"23"`
	X04  int64              `json:"x4,omitempty" protobuf:"varint,24,opt,name=x4" thrift:"24"`
	X05  int64              `json:"x5,omitempty" protobuf:"varint,25,opt,name=x5" thrift:"25"`
	X06  int64              `json:"x6,omitempty" protobuf:"varint,26,opt,name=x6" thrift:"26"`
	X07  int64              `json:"x7,omitempty" protobuf:"varint,27,opt,name=x7" thrift:"27"`
	X08  int64              `json:"x8,omitempty" protobuf:"varint,28,opt,name=x8" thrift:"28"`
	X09  int64              `json:"x9,omitempty" protobuf:"varint,29,opt,name=x9" thrift:"29"`
	X10  int64              `json:"x10,omitempty" protobuf:"varint,30,opt,name=x10" thrift:"30"`
	X11  int64              `json:"x11,omitempty" protobuf:"varint,31,opt,name=x11" thrift:"31"`
	X12  int64              `json:"x12,omitempty" protobuf:"varint,32,opt,name=x12" thrift:"32"`
	X13  int64              `json:"x13,omitempty" protobuf:"varint,33,opt,name=x13" thrift:"33"`
	X14  int64              `json:"x14,omitempty" protobuf:"varint,34,opt,name=x14" thrift:"34"`
	X15  int64              `json:"x15,omitempty" protobuf:"varint,35,opt,name=x15" thrift:"35"`
	X16  int64              `json:"x16,omitempty" protobuf:"varint,36,opt,name=x16" thrift:"36"`
	X17  int64              `json:"x17,omitempty" protobuf:"varint,37,opt,name=x17" thrift:"37"`
	X18  int64              `json:"x18,omitempty" protobuf:"varint,38,opt,name=x18" thrift:"38"`
	X19  int64              `json:"x19,omitempty" protobuf:"varint,39,opt,name=x19" thrift:"39"`
	X20  int64              `json:"x20,omitempty" protobuf:"varint,40,opt,name=x20" thrift:"40"`
	X21  int64              `json:"x21,omitempty" protobuf:"varint,41,opt,name=x21" thrift:"41"`
	X22  int64              `json:"x22,omitempty" protobuf:"varint,42,opt,name=x22" thrift:"42"`
	X23  int64              `json:"x23,omitempty" protobuf:"varint,43,opt,name=x23" thrift:"43"`
}

type Peer051 struct {
	Back *Rec051   `json:"back,omitempty" protobuf:"bytes,1,opt,name=back" thrift:"1"`
	List []*Rec051 `json:"list,omitempty" protobuf:"bytes,2,rep,name=list" thrift:"2"`
	B    bool      `json:"b" protobuf:"varint,3,opt,name=b" thrift:"3"`
}

type Rec052 struct {
	M    map[string]Peer052 `json:"m,omitempty" protobuf:"bytes,6,rep,name=m" protobuf_key:"bytes,1,opt,name=key" protobuf_val:"bytes,2,opt,name=value" thrift:"6"`
	V    int64              `json:"v" protobuf:"varint,1,opt,name=v" thrift:"1"`
	Next *Rec052            `json:"next,omitempty" protobuf:"bytes,2,opt,name=next" thrift:"2"`
	Kids []Rec052           `json:"kids,omitempty" protobuf:"bytes,3,rep,name=kids" thrift:"3"`
	Peer *Peer052           `json:"peer,omitempty" protobuf:"bytes,4,opt,name=peer" thrift:"4"`
	S    string             `json:"s,omitempty" protobuf:"bytes,5,opt,name=s" thrift:"5"`
	X00  int64              `json:"x0,omitempty" protobuf:"varint,20,opt,name=x0" thrift:"20"`
	X01  int64              `json:"x1,omitempty" protobuf:"varint,21,opt,name=x1" thrift:"21"`
	X02  int64              `json:"x2,omitempty" protobuf:"varint,22,opt,name=x2" thrift:"22"`
	X03  int64              `json:"x3,omitempty" protobuf:"varint,23,opt,name=x3" thrift:"23"`
	X04  int64              `json:"x4,omitempty" protobuf:"varint,24,opt,name=x4" thrift:"24"`
	X05  int64              `json:"x5,omitempty" protobuf:"varint,25,opt,name=x5" thrift:"25"`
	X06  int64              `json:"x6,omitempty" protobuf:"varint,26,opt,name=x6" thrift:"26"`
	X07  int64              `json:"x7,omitempty" protobuf:"varint,27,opt,name=x7" thrift:"27"`
	X08  int64              `json:"x8,omitempty" protobuf:"varint,28,opt,name=x8" thrift:"28"`
	X09  int64              `json:"x9,omitempty" protobuf:"varint,29,opt,name=x9" thrift:"29"`
	X10  int64              `json:"x10,omitempty" protobuf:"varint,30,opt,name=x10" thrift:"30"`
	X11  int64              `json:"x11,omitempty" protobuf:"varint,31,opt,name=x11" thrift:"31"`
	X12  int64              `json:"x12,omitempty" protobuf:"varint,32,opt,name=x12" thrift:"32"`
	X13  int64              `json:"x13,omitempty" protobuf:"varint,33,opt,name=x13" thrift:"33"`
	X14  int64              `json:"x14,omitempty" protobuf:"varint,34,opt,name=x14" thrift:"34"`
	X15  int64              `json:"x15,omitempty" protobuf:"varint,35,opt,name=x15" thrift:"35"`
	X16  int64              `json:"x16,omitempty" protobuf:"varint,36,opt,name=x16" thrift:"36"`
	X17  int64              `json:"x17,omitempty" protobuf:"varint,37,opt,name=x17" thrift:"37"`
	X18  int64              `json:"x18,omitempty" protobuf:"varint,38,opt,name=x18" thrift:"38"`
	X19  int64              `json:"x19,omitempty" protobuf:"varint,39,opt,name=x19" thrift:"39"`
	X20  int64              `json:"x20,omitempty" protobuf:"varint,40,opt,name=x20" thrift:"40"`
	X21  int64              `json:"x21,omitempty" protobuf:"varint,41,opt,name=x21" thrift:"41"`
	X22  int64              `json:"x22,omitempty" protobuf:"varint,42,opt,name=x22" thrift:"42"`
	X23  int64              `json:"x23,omitempty" protobuf:"varint,43,opt,name=x23" thrift:"43"`
}

type Peer052 struct {
	Back *Rec052   `json:"back,omitempty" protobuf:"bytes,1,opt,name=back" thrift:"1"`
	List []*Rec052 `json:"list,omitempty" protobuf:"bytes,2,rep,name=list" thrift:"2"`
	B    bool      `json:"b" protobuf:"varint,3,opt,name=b" thrift:"3"`
}

type Rec053 struct {
	M    map[string]Peer053 `json:"m,omitempty" protobuf:"bytes,6,rep,name=m" protobuf_key:"bytes,1,opt,name=key" protobuf_val:"bytes,2,opt,name=value" thrift:"6"`
	V    int64              `json:"v" protobuf:"varint,1,opt,name=v" thrift:"1"`
	Next *Rec053            `json:"next,omitempty" protobuf:"bytes,2,opt,name=next" thrift:"2"`
	Kids []Rec053           `json:"kids,omitempty" protobuf:"bytes,3,rep,name=kids" thrift:"3"`
	Peer *Peer053           `json:"peer,omitempty" protobuf:"bytes,4,opt,name=peer" thrift:"4"`
	S    string             `json:"s,omitempty" protobuf:"bytes,5,opt,name=s" thrift:"5"`
	X00  int64              `json:"x0,omitempty" protobuf:"varint,20,opt,name=x0" thrift:"20"`
	X01  int64              `json:"x1,omitempty" protobuf:"varint,21,opt,name=x1" thrift:"21"`
	X02  int64              `json:"x2,omitempty" protobuf:"varint,22,opt,name=x2" thrift:"22"`
	X03  int64              `json:"x3,omitempty" protobuf:"varint,23,opt,name=x3" thrift:"23"`
	X04  int64              `json:"x4,omitempty" protobuf:"varint,24,opt,name=x4" thrift:"24"`
	X05  int64              `json:"x5,omitempty" protobuf:"varint,25,opt,name=x5" thrift:"25"`
	X06  int64              `json:"x6,omitempty" protobuf:"varint,26,opt,name=x6" thrift:"26"`
	X07  int64              `json:"x7,omitempty" protobuf:"varint,27,opt,name=x7" thrift:"27"`
	X08  int64              `json:"x8,omitempty" protobuf:"varint,28,opt,name=x8" thrift:"28"`
	X09  int64              `json:"x9,omitempty" protobuf:"varint,29,opt,name=x9" thrift:"29"`
	X10  int64              `json:"x10,omitempty" protobuf:"varint,30,opt,name=x10" thrift:"30"`
	X11  int64              `json:"x11,omitempty" protobuf:"varint,31,opt,name=x11" thrift:"31"`
	X12  int64              `json:"x12,omitempty" protobuf:"varint,32,opt,name=x12" thrift:"32"`
	X13  int64              `json:"x13,omitempty" protobuf:"varint,33,opt,name=x13" thrift:"33"`
	X14  int64              `json:"x14,omitempty" protobuf:"varint,34,opt,name=x14" thrift:"34"`
	X15  int64              `json:"x15,omitempty" protobuf:"varint,35,opt,name=x15" thrift:"35"`
	X16  int64              `json:"x16,omitempty" protobuf:"varint,36,opt,name=x16" thrift:"36"`
	X17  int64              `json:"x17,omitempty" protobuf:"varint,37,opt,name=x17" thrift:"37"`
	X18  int64              `json:"x18,omitempty" protobuf:"varint,38,opt,name=x18" thrift:"38"`
	X19  int64              `json:"x19,omitempty" protobuf:"varint,39,opt,name=x19" thrift:"39"`
	X20  int64              `json:"x20,omitempty" protobuf:"varint,40,opt,name=x20" thrift:"40"`
	X21  int64              `json:"x21,omitempty" protobuf:"varint,41,opt,name=x21" thrift:"41"`
	X22  int64              `json:"x22,omitempty" protobuf:"varint,42,opt,name=x22" thrift:"42"`
	X23  int64              `json:"x23,omitempty" protobuf:"varint,43,opt,name=x23" thrift:"43"`
}

type Peer053 struct {
	Back *Rec053   `json:"back,omitempty" protobuf:"bytes,1,opt,name=back" thrift:"1"`
	List []*Rec053 `json:"list,omitempty" protobuf:"bytes,2,rep,name=list" thrift:"2"`
	B    bool      `json:"b" protobuf:"varint,3,opt,name=b" thrift:"3"`
}

type Rec054 struct {
	M    map[string]Peer054 `json:"m,omitempty" protobuf:"bytes,6,rep,name=m" protobuf_key:"bytes,1,opt,name=key" protobuf_val:"bytes,2,opt,name=value" thrift:"6"`
	V    int64              `json:"v" protobuf:"varint,1,opt,name=v" thrift:"1"`
	Next *Rec054            `json:"next,omitempty" protobuf:"bytes,2,opt,name=next" thrift:"2"`
	Kids []Rec054           `json:"kids,omitempty" protobuf:"bytes,3,rep,name=kids" thrift:"3"`
	Peer *Peer054           `json:"peer,omitempty" protobuf:"bytes,4,opt,name=peer" thrift:"4"`
	S    string             `json:"s,omitempty" protobuf:"bytes,5,opt,name=s" thrift:"5"`
	X00  int64              `json:"x0,omitempty" protobuf:"varint,20,opt,name=x0" thrift:"20"`
	X01  int64              `json:"x1,omitempty" protobuf:"varint,21,opt,name=x1" thrift:"21"`
	X02  int64              `json:"x2,omitempty" protobuf:"varint,22,opt,name=x2" thrift:"22"`
	X03  int64              `json:"x3,omitempty" protobuf:"varint,23,opt,name=x3" thrift:"23"`
	X04  int64              `json:"x4,omitempty" protobuf:"varint,24,opt,name=x4" thrift:"24"`
	X05  int64              `json:"x5,omitempty" protobuf:"varint,25,opt,name=x5" thrift:"25"`
	X06  int64              `json:"x6,omitempty" protobuf:"varint,26,opt,name=x6" thrift:"26"`
	X07  int64              `json:"x7,omitempty" protobuf:"varint,27,opt,name=x7" thrift:"27"`
	X08  int64              `json:"x8,omitempty" protobuf:"varint,28,opt,name=x8" thrift:"28"`
	X09  int64              `json:"x9,omitempty" protobuf:"varint,29,opt,name=x9" thrift:"29"`
	X10  int64              `json:"x10,omitempty" protobuf:"varint,30,opt,name=x10" thrift:"30"`
	X11  int64              `json:"x11,omitempty" protobuf:"varint,31,opt,name=x11" thrift:"31"`
	X12  int64              `json:"x12,omitempty" protobuf:"varint,32,opt,name=x12" thrift:"32"`
	X13  int64              `json:"x13,omitempty" protobuf:"varint,33,opt,name=x13" thrift:"33"`
	X14  int64              `json:"x14,omitempty" protobuf:"varint,34,opt,name=x14" thrift:"34"`
	X15  int64              `json:"x15,omitempty" protobuf:"varint,35,opt,name=x15" thrift:"35"`
	X16  int64              `json:"x16,omitempty" protobuf:"varint,36,opt,name=x16" thrift:"36"`
	X17  int64              `json:"x17,omitempty" protobuf:"varint,37,opt,name=x17" thrift:"37"`
	X18  int64              `json:"x18,omitempty" protobuf:"varint,38,opt,name=x18" thrift:"38"`
	X19  int64              `json:"x19,omitempty" protobuf:"varint,39,opt,name=x19" thrift:"39"`
	X20  int64              `json:"x20,omitempty" protobuf:"varint,40,opt,name=x20" thrift:"40"`
	X21  int64              `json:"x21,omitempty" protobuf:"varint,41,opt,name=x21" thrift:"41"`
	X22  int64              `json:"x22,omitempty" protobuf:"varint,42,opt,name=x22" thrift:"42"`
	X23  int64              `json:"x23,omitempty" protobuf:"varint,43,opt,name=x23" thrift:"43"`
}

type Peer054 struct {
	Back *Rec054   `json:"back,omitempty" protobuf:"bytes,1,opt,name=back" thrift:"1"`
	List []*Rec054 `json:"list,omitempty" protobuf:"bytes,2,rep,name=list" thrift:"2"`
	B    bool      `json:"b" protobuf:"varint,3,opt,name=b" thrift:"3"`
}

type Rec055 struct {
	M    map[string]Peer055 `json:"m,omitempty" protobuf:"bytes,6,rep,name=m" protobuf_key:"bytes,1,opt,name=key" protobuf_val:"bytes,2,opt,name=value" thrift:"6"`
	V    int64              `json:"v" protobuf:"varint,1,opt,name=v" thrift:"1"`
	Next *Rec055            `json:"next,omitempty" protobuf:"bytes,2,opt,name=next" thrift:"2"`
	Kids []Rec055           `json:"kids,omitempty" protobuf:"bytes,3,rep,name=kids" thrift:"3"`
	Peer *Peer055           `json:"peer,omitempty" protobuf:"bytes,4,opt,name=peer" thrift:"4"`
	S    string             `json:"s,omitempty" protobuf:"bytes,5,opt,name=s" thrift:"5"`
	X00  int64              `json:"x0,omitempty" protobuf:"varint,20,opt,name=x0" thrift:"20"`
	X01  int64              `json:"x1,omitempty" protobuf:"varint,21,opt,name=x1" thrift:"21"`
	X02  int64              `json:"x2,omitempty" protobuf:"varint,22,opt,name=x2" thrift:"22"`
	X03  int64              `json:"x3,omitempty" protobuf:"varint,23,opt,name=x3" thrift:"23"`
	X04  int64              `json:"x4,omitempty" protobuf:"varint,24,opt,name=x4" thrift:"24"`
	X05  int64              `json:"x5,omitempty" protobuf:"varint,25,opt,name=x5" thrift:"25"`
	X06  int64              `json:"x6,omitempty" protobuf:"varint,26,opt,name=x6" thrift:"26"`
	X07  int64              `json:"x7,omitempty" protobuf:"varint,27,opt,name=x7" thrift:"27"`
	X08  int64              `json:"x8,omitempty" protobuf:"varint,28,opt,name=x8" thrift:"28"`
	X09  int64              `json:"x9,omitempty" protobuf:"varint,29,opt,name=x9" thrift:"29"`
	X10  int64              `json:"x10,omitempty" protobuf:"varint,30,opt,name=x10" thrift:"30"`
	X11  int64              `json:"x11,omitempty" protobuf:"varint,31,opt,name=x11" thrift:"31"`
	X12  int64              `json:"x12,omitempty" protobuf:"varint,32,opt,name=x12" thrift:"32"`
	X13  int64              `json:"x13,omitempty" protobuf:"varint,33,opt,name=x13" thrift:"33"`
	X14  int64              `json:"x14,omitempty" protobuf:"varint,34,opt,name=x14" thrift:"34"`
	X15  int64              `json:"x15,omitempty" protobuf:"varint,35,opt,name=x15" thrift:"35"`
	X16  int64              `json:"x16,omitempty" protobuf:"varint,36,opt,name=x16" thrift:"36"`
	X17  int64              `json:"x17,omitempty" protobuf:"varint,37,opt,name=x17" thrift:"37"`
	X18  int64              `json:"x18,omitempty" protobuf:"varint,38,opt,name=x18" thrift:"38"`
	X19  int64              `json:"x19,omitempty" protobuf:"varint,39,opt,name=x19" thrift:"39"`
	X20  int64              `json:"x20,omitempty" protobuf:"varint,40,opt,name=x20" thrift:"40"`
	X21  int64              `json:"x21,omitempty" protobuf:"varint,41,opt,name=x21" thrift:"41"`
	X22  int64              `json:"x22,omitempty" protobuf:"varint,42,opt,name=x22" thrift:"42"`
	X23  int64              `json:"x23,omitempty" protobuf:"varint,43,opt,name=x23" thrift:"43"`
}

type Peer055 struct {
	Back *Rec055   `json:"back,omitempty" protobuf:"bytes,1,opt,name=back" thrift:"1"`
	List []*Rec055 `json:"list,omitempty" protobuf:"bytes,2,rep,name=list" thrift:"2"`
	B    bool      `json:"b" protobuf:"varint,3,opt,name=b" thrift:"3"`
}

type Rec056 struct {
	M    map[string]Peer056 `json:"m,omitempty" protobuf:"bytes,6,rep,name=m" protobuf_key:"bytes,1,opt,name=key" protobuf_val:"bytes,2,opt,name=value" thrift:"6"`
	V    int64              `json:"v" protobuf:"varint,1,opt,name=v" thrift:"1"`
	Next *Rec056            `json:"next,omitempty" protobuf:"bytes,2,opt,name=next" thrift:"2"`
	Kids []Rec056           `json:"kids,omitempty" protobuf:"bytes,3,rep,name=kids" thrift:"3"`
	Peer *Peer056           `json:"peer,omitempty" protobuf:"bytes,4,opt,name=peer" thrift:"4"`
	S    string             `json:"s,omitempty" protobuf:"bytes,5,opt,name=s" thrift:"5"`
	X00  int64              `json:"x0,omitempty" protobuf:"varint,20,opt,name=x0" thrift:"20"`
	X01  int64              `json:"x1,omitempty" protobuf:"varint,21,opt,name=x1" thrift:"21"`
	X02  int64              `json:"x2,omitempty" protobuf:"varint,22,opt,name=x2" thrift:"22"`
	X03  int64              `json:"x3,omitempty" protobuf:"varint,23,opt,name=x3" thrift:"23"`
	X04  int64              `json:"x4,omitempty" protobuf:"varint,24,opt,name=x4" thrift:"24"`
	X05  int64              `json:"x5,omitempty" protobuf:"varint,25,opt,name=x5" thrift:"25"`
	X06  int64              `json:"x6,omitempty" protobuf:"varint,26,opt,name=x6" thrift:"26"`
	X07  int64              `json:"x7,omitempty" protobuf:"varint,27,opt,name=x7" thrift:"27"`
	X08  int64              `json:"x8,omitempty" protobuf:"varint,28,opt,name=x8" thrift:"28"`
	X09  int64              `json:"x9,omitempty" protobuf:"varint,29,opt,name=x9" thrift:"29"`
	X10  int64              `json:"x10,omitempty" protobuf:"varint,30,opt,name=x10" thrift:"30"`
	X11  int64              `json:"x11,omitempty" protobuf:"varint,31,opt,name=x11" thrift:"31"`
	X12  int64              `json:"x12,omitempty" protobuf:"varint,32,opt,name=x12" thrift:"32"`
	X13  int64              `json:"x13,omitempty" protobuf:"varint,33,opt,name=x13" thrift:"33"`
	X14  int64              `json:"x14,omitempty" protobuf:"varint,34,opt,name=x14" thrift:"34"`
	X15  int64              `json:"x15,omitempty" protobuf:"varint,35,opt,name=x15" thrift:"35"`
	X16  int64              `json:"x16,omitempty" protobuf:"varint,36,opt,name=x16" thrift:"36"`
	X17  int64              `json:"x17,omitempty" protobuf:"varint,37,opt,name=x17" thrift:"37"`
	X18  int64              `json:"x18,omitempty" protobuf:"varint,38,opt,name=x18" thrift:"38"`
	X19  int64              `json:"x19,omitempty" protobuf:"varint,39,opt,name=x19" thrift:"39"`
	X20  int64              `json:"x20,omitempty" protobuf:"varint,40,opt,name=x20" thrift:"40"`
	X21  int64              `json:"x21,omitempty" protobuf:"varint,41,opt,name=x21" thrift:"41"`
	X22  int64              `json:"x22,omitempty" protobuf:"varint,42,opt,name=x22" thrift:"42"`
	X23  int64              `json:"x23,omitempty" protobuf:"varint,43,opt,name=x23" thrift:"43"`
}

type Peer056 struct {
	Back *Rec056   `json:"back,omitempty" protobuf:"bytes,1,opt,name=back" thrift:"1"`
	List []*Rec056 `json:"list,omitempty" protobuf:"bytes,2,rep,name=list" thrift:"2"`
	B    bool      `json:"b" protobuf:"varint,3,opt,name=b" thrift:"3"`
}

type Rec057 struct {
	M    map[string]Peer057 `json:"m,omitempty" protobuf:"bytes,6,rep,name=m" protobuf_key:"bytes,1,opt,name=key" protobuf_val:"bytes,2,opt,name=value" thrift:"6"`
	V    int64              `json:"v" protobuf:"varint,1,opt,name=v" thrift:"1"`
	Next *Rec057            `json:"next,omitempty" protobuf:"bytes,2,opt,name=next" thrift:"2"`
	Kids []Rec057           `json:"kids,omitempty" protobuf:"bytes,3,rep,name=kids" thrift:"3"`
	Peer *Peer057           `json:"peer,omitempty" protobuf:"bytes,4,opt,name=peer" thrift:"4"`
	S    string             `json:"s,omitempty" protobuf:"bytes,5,opt,name=s" thrift:"5"`
	X00  int64              `json:"x0,omitempty" protobuf:"varint,20,opt,name=x0" thrift:"20"`
	X01  int64              `json:"x1,omitempty" protobuf:"varint,21,opt,name=x1" thrift:"21"`
	X02  int64              `json:"x2,omitempty" protobuf:"varint,22,opt,name=x2" thrift:"22"`
	X03  int64              `json:"x3,omitempty" protobuf:"varint,23,opt,name=x3" thrift:"23"`
	X04  int64              `json:"x4,omitempty" protobuf:"varint,24,opt,name=x4" thrift:"24"`
	X05  int64              `json:"x5,omitempty" protobuf:"varint,25,opt,name=x5" thrift:"25"`
	X06  int64              `json:"x6,omitempty" protobuf:"varint,26,opt,name=x6" thrift:"26"`
	X07  int64              `json:"x7,omitempty" protobuf:"varint,27,opt,name=x7" thrift:"27"`
	X08  int64              `json:"x8,omitempty" protobuf:"varint,28,opt,name=x8" thrift:"28"`
	X09  int64              `json:"x9,omitempty" protobuf:"varint,29,opt,name=x9" thrift:"29"`
	X10  int64              `json:"x10,omitempty" protobuf:"varint,30,opt,name=x10" thrift:"30"`
	X11  int64              `json:"x11,omitempty" protobuf:"varint,31,opt,name=x11" thrift:"31"`
	X12  int64              `json:"x12,omitempty" protobuf:"varint,32,opt,name=x12" thrift:"32"`
	X13  int64              `json:"x13,omitempty" protobuf:"varint,33,opt,name=x13" thrift:"33"`
	X14  int64              `json:"x14,omitempty" protobuf:"varint,34,opt,name=x14" thrift:"34"`
	X15  int64              `json:"x15,omitempty" protobuf:"varint,35,opt,name=x15" thrift:"35"`
	X16  int64              `json:"x16,omitempty" protobuf:"varint,36,opt,name=x16" thrift:"36"`
	X17  int64              `json:"x17,omitempty" protobuf:"varint,37,opt,name=x17" thrift:"37"`
	X18  int64              `json:"x18,omitempty" protobuf:"varint,38,opt,name=x18" thrift:"38"`
	X19  int64              `json:"x19,omitempty" protobuf:"varint,39,opt,name=x19" thrift:"39"`
	X20  int64              `json:"x20,omitempty" protobuf:"varint,40,opt,name=x20" thrift:"40"`
	X21  int64              `json:"x21,omitempty" protobuf:"varint,41,opt,name=x21" thrift:"41"`
	X22  int64              `json:"x22,omitempty" protobuf:"varint,42,opt,name=x22" thrift:"42"`
	X23  int64              `json:"x23,omitempty" protobuf:"varint,43,opt,name=x23" thrift:"43"`
}

type Peer057 struct {
	Back *Rec057   `json:"back,omitempty" protobuf:"bytes,1,opt,name=back" thrift:"1"`
	List []*Rec057 `json:"list,omitempty" protobuf:"bytes,2,rep,name=list" thrift:"2"`
	B    bool      `json:"b" protobuf:"varint,3,opt,name=b" thrift:"3"`
}

type Rec058 struct {
	M    map[string]Peer058 `json:"m,omitempty" protobuf:"bytes,6,rep,name=m" protobuf_key:"bytes,1,opt,name=key" protobuf_val:"bytes,2,opt,name=value" thrift:"6"`
	V    int64              `json:"v" protobuf:"varint,1,opt,name=v" thrift:"1"`
	Next *Rec058            `json:"next,omitempty" protobuf:"bytes,2,opt,name=next" thrift:"2"`
	Kids []Rec058           `json:"kids,omitempty" protobuf:"bytes,3,rep,name=kids" thrift:"3"`
	Peer *Peer058           `json:"peer,omitempty" protobuf:"bytes,4,opt,name=peer" thrift:"4"`
	S    string             `json:"s,omitempty" protobuf:"bytes,5,opt,name=s" thrift:"5"`
	X00  int64              `json:"x0,omitempty" protobuf:"varint,20,opt,name=x0" thrift:"20"`
	X01  int64              `json:"x1,omitempty" protobuf:"varint,21,opt,name=x1" thrift:"21"`
	X02  int64              `json:"x2,omitempty" protobuf:"varint,22,opt,name=x2" thrift:"22"`
	X03  int64              `json:"x3,omitempty" protobuf:"varint,23,opt,name=x3" thrift:"23"`
	X04  int64              `json:"x4,omitempty" protobuf:"varint,24,opt,name=x4" thrift:"24"`
	X05  int64              `json:"x5,omitempty" protobuf:"varint,25,opt,name=x5" thrift:"25"`
	X06  int64              `json:"x6,omitempty" protobuf:"varint,26,opt,name=x6" thrift:"26"`
	X07  int64              `json:"x7,omitempty" protobuf:"varint,27,opt,name=x7" thrift:"27"`
	X08  int64              `json:"x8,omitempty" protobuf:"varint,28,opt,name=x8" thrift:"28"`
	X09  int64              `json:"x9,omitempty" protobuf:"varint,29,opt,name=x9" thrift:"29"`
	X10  int64              `json:"x10,omitempty" protobuf:"varint,30,opt,name=x10" thrift:"30"`
	X11  int64              `json:"x11,omitempty" protobuf:"varint,31,opt,name=x11" thrift:"31"`
	X12  int64              `json:"x12,omitempty" protobuf:"varint,32,opt,name=x12" thrift:"32"`
	X13  int64              `json:"x13,omitempty" protobuf:"varint,33,opt,name=x13" thrift:"33"`
	X14  int64              `json:"x14,omitempty" protobuf:"varint,34,opt,name=x14" thrift:"34"`
	X15  int64              `json:"x15,omitempty" protobuf:"varint,35,opt,name=x15" thrift:"35"`
	X16  int64              `json:"x16,omitempty" protobuf:"varint,36,opt,name=x16" thrift:"36"`
	X17  int64              `json:"x17,omitempty" protobuf:"varint,37,opt,name=x17" thrift:"37"`
	X18  int64              `json:"x18,omitempty" protobuf:"varint,38,opt,name=x18" thrift:"38"`
	X19  int64              `json:"x19,omitempty" protobuf:"varint,39,opt,name=x19" thrift:"39"`
	X20  int64              `json:"x20,omitempty" protobuf:"varint,40,opt,name=x20" thrift:"40"`
	X21  int64              `json:"x21,omitempty" protobuf:"varint,41,opt,name=x21" thrift:"41"`
	X22  int64              `json:"x22,omitempty" protobuf:"varint,42,opt,name=x22" thrift:"42"`
	X23  int64              `json:"x23,omitempty" protobuf:"varint,43,opt,name=x23" thrift:"43"`
}

type Peer058 struct {
	Back *Rec058   `json:"back,omitempty" protobuf:"bytes,1,opt,name=back" thrift:"1"`
	List []*Rec058 `json:"list,omitempty" protobuf:"bytes,2,rep,name=list" thrift:"2"`
	B    bool      `json:"b" protobuf:"varint,3,opt,name=b" thrift:"3"`
}

type Rec059 struct {
	M    map[string]Peer059 `json:"m,omitempty" protobuf:"bytes,6,rep,name=m" protobuf_key:"bytes,1,opt,name=key" protobuf_val:"bytes,2,opt,name=value" thrift:"6"`
	V    int64              `json:"v" protobuf:"varint,1,opt,name=v" thrift:"1"`
	Next *Rec059            `json:"next,omitempty" protobuf:"bytes,2,opt,name=next" thrift:"2"`
	Kids []Rec059           `json:"kids,omitempty" protobuf:"bytes,3,rep,name=kids" thrift:"3"`
	Peer *Peer059           `json:"peer,omitempty" protobuf:"bytes,4,opt,name=peer" thrift:"4"`
	S    string             `json:"s,omitempty" protobuf:"bytes,5,opt,name=s" thrift:"5"`
	X00  int64              `json:"x0,omitempty" protobuf:"varint,20,opt,name=x0" thrift:"20"`
	X01  int64              `json:"x1,omitempty" protobuf:"varint,21,opt,name=x1" thrift:"21"`
	X02  int64              `json:"x2,omitempty" protobuf:"varint,22,opt,name=x2" thrift:"22"`
	X03  int64              `json:"x3,omitempty" protobuf:"varint,23,opt,name=x3" thrift:"23"`
	X04  int64              `json:"x4,omitempty" protobuf:"varint,24,opt,name=x4" thrift:"24"`
	X05  int64              `json:"x5,omitempty" protobuf:"varint,25,opt,name=x5" thrift:"25"`
	X06  int64              `json:"x6,omitempty" protobuf:"varint,26,opt,name=x6" thrift:"26"`
	X07  int64              `json:"x7,omitempty" protobuf:"varint,27,opt,name=x7" thrift:"27"`
	X08  int64              `json:"x8,omitempty" protobuf:"varint,28,opt,name=x8" thrift:"28"`
	X09  int64              `json:"x9,omitempty" protobuf:"varint,29,opt,name=x9" thrift:"29"`
	X10  int64              `json:"x10,omitempty" protobuf:"varint,30,opt,name=x10" thrift:"30"`
	X11  int64              `json:"x11,omitempty" protobuf:"varint,31,opt,name=x11" thrift:"31"`
	X12  int64              `json:"x12,omitempty" protobuf:"varint,32,opt,name=x12" thrift:"32"`
	X13  int64              `json:"x13,omitempty" protobuf:"varint,33,opt,name=x13" thrift:"33"`
	X14  int64              `json:"x14,omitempty" protobuf:"varint,34,opt,name=x14" thrift:"34"`
	X15  int64              `json:"x15,omitempty" protobuf:"varint,35,opt,name=x15" thrift:"35"`
	X16  int64              `json:"x16,omitempty" protobuf:"varint,36,opt,name=x16" thrift:"36"`
	X17  int64              `json:"x17,omitempty" protobuf:"varint,37,opt,name=x17" thrift:"37"`
	X18  int64              `json:"x18,omitempty" protobuf:"varint,38,opt,name=x18" thrift:"38"`
	X19  int64              `json:"x19,omitempty" protobuf:"varint,39,opt,name=x19" thrift:"39"`
	X20  int64              `json:"x20,omitempty" protobuf:"varint,40,opt,name=x20" thrift:"40"`
	X21  int64              `json:"x21,omitempty" protobuf:"varint,41,opt,name=x21" thrift:"41"`
	X22  int64              `json:"x22,omitempty" protobuf:"varint,42,opt,name=x22" thrift:"42"`
	X23  int64              `json:"x23,omitempty" protobuf:"varint,43,opt,name=x23" thrift:"43"`
}

type Peer059 struct {
	Back *Rec059   `json:"back,omitempty" protobuf:"bytes,1,opt,name=back" thrift:"1"`
	List []*Rec059 `json:"list,omitempty" protobuf:"bytes,2,rep,name=list" thrift:"2"`
	B    bool      `json:"b" protobuf:"varint,3,opt,name=b" thrift:"3"`
}

type Rec060 struct {
	M    map[string]Peer060 `json:"m,omitempty" protobuf:"bytes,6,rep,name=m" protobuf_key:"bytes,1,opt,name=key" protobuf_val:"bytes,2,opt,name=value" thrift:"6"`
	V    int64              `json:"v" protobuf:"varint,1,opt,name=v" thrift:"1"`
	Next *Rec060            `json:"next,omitempty" protobuf:"bytes,2,opt,name=next" thrift:"2"`
	Kids []Rec060           `json:"kids,omitempty" protobuf:"bytes,3,rep,name=kids" thrift:"3"`
	Peer *Peer060           `json:"peer,omitempty" protobuf:"bytes,4,opt,name=peer" thrift:"4"`
	S    string             `json:"s,omitempty" protobuf:"bytes,5,opt,name=s" thrift:"5"`
	X00  int64              `json:"x0,omitempty" protobuf:"varint,20,opt,name=x0" thrift:"20"`
	X01  int64              `json:"x1,omitempty" protobuf:"varint,21,opt,name=x1" thrift:"21"`
	X02  int64              `json:"x2,omitempty" protobuf:"varint,22,opt,name=x2" thrift:"22"`
	X03  int64              `json:"x3,omitempty" protobuf:"varint,23,opt,name=x3" thrift:"23"`
	X04  int64              `json:"x4,omitempty" protobuf:"varint,24,opt,name=x4" thrift:"24"`
	X05  int64              `json:"x5,omitempty" protobuf:"varint,25,opt,name=x5" thrift:"25"`
	X06  int64              `json:"x6,omitempty" protobuf:"varint,26,opt,name=x6" thrift:"26"`
	X07  int64              `json:"x7,omitempty" protobuf:"varint,27,opt,name=x7" thrift:"27"`
	X08  int64              `json:"x8,omitempty" protobuf:"varint,28,opt,name=x8" thrift:"28"`
	X09  int64              `json:"x9,omitempty" protobuf:"varint,29,opt,name=x9" thrift:"29"`
	X10  int64              `json:"x10,omitempty" protobuf:"varint,30,opt,name=x10" thrift:"30"`
	X11  int64              `json:"x11,omitempty" protobuf:"varint,31,opt,name=x11" thrift:"31"`
	X12  int64              `json:"x12,omitempty" protobuf:"varint,32,opt,name=x12" thrift:"32"`
	X13  int64              `json:"x13,omitempty" protobuf:"varint,33,opt,name=x13" thrift:"33"`
	X14  int64              `json:"x14,omitempty" protobuf:"varint,34,opt,name=x14" thrift:"34"`
	X15  int64              `json:"x15,omitempty" protobuf:"varint,35,opt,name=x15" thrift:"35"`
	X16  int64              `json:"x16,omitempty" protobuf:"varint,36,opt,name=x16" thrift:"36"`
	X17  int64              `json:"x17,omitempty" protobuf:"varint,37,opt,name=x17" thrift:"37"`
	X18  int64              `json:"x18,omitempty" protobuf:"varint,38,opt,name=x18" thrift:"38"`
	X19  int64              `json:"x19,omitempty" protobuf:"varint,39,opt,name=x19" thrift:"39"`
	X20  int64              `json:"x20,omitempty" protobuf:"varint,40,opt,name=x20" thrift:"40"`
	X21  int64              `json:"x21,omitempty" protobuf:"varint,41,opt,name=x21" thrift:"41"`
	X22  int64              `json:"x22,omitempty" protobuf:"varint,42,opt,name=x22" thrift:"42"`
	X23  int64              `json:"x23,omitempty" protobuf:"varint,43,opt,name=x23" thrift:"43"`
}

type Peer060 struct {
	Back *Rec060   `json:"back,omitempty" protobuf:"bytes,1,opt,name=back" thrift:"1"`
	List []*Rec060 `json:"list,omitempty" protobuf:"bytes,2,rep,name=list" thrift:"2"`
	B    bool      `json:"b" protobuf:"varint,3,opt,name=b" thrift:"3"`
}

type Rec061 struct {
	M    map[string]Peer061 `json:"m,omitempty" protobuf:"bytes,6,rep,name=m" protobuf_key:"bytes,1,opt,name=key" protobuf_val:"bytes,2,opt,name=value" thrift:"6"`
	V    int64              `json:"v" protobuf:"varint,1,opt,name=v" thrift:"1"`
	Next *Rec061            `json:"next,omitempty" protobuf:"bytes,2,opt,name=next" thrift:"2"`
	Kids []Rec061           `json:"kids,omitempty" protobuf:"bytes,3,rep,name=kids" thrift:"3"`
	Peer *Peer061           `json:"peer,omitempty" protobuf:"bytes,4,opt,name=peer" thrift:"4"`
	S    string             `json:"s,omitempty" protobuf:"bytes,5,opt,name=s" thrift:"5"`
	X00  int64              `json:"x0,omitempty" protobuf:"varint,20,opt,name=x0" thrift:"20"`
	X01  int64              `json:"x1,omitempty" protobuf:"varint,21,opt,name=x1" thrift:"21"`
	X02  int64              `json:"x2,omitempty" protobuf:"varint,22,opt,name=x2" thrift:"22"`
	X03  int64              `json:"x3,omitempty" protobuf:"varint,23,opt,name=x3" thrift:"23"`
	X04  int64              `json:"x4,omitempty" protobuf:"varint,24,opt,name=x4" thrift:"24"`
	X05  int64              `json:"x5,omitempty" protobuf:"varint,25,opt,name=x5" thrift:"25"`
	X06  int64              `json:"x6,omitempty" protobuf:"varint,26,opt,name=x6" thrift:"26"`
	X07  int64              `json:"x7,omitempty" protobuf:"varint,27,opt,name=x7" thrift:"27"`
	X08  int64              `json:"x8,omitempty" protobuf:"varint,28,opt,name=x8" thrift:"28"`
	X09  int64              `json:"x9,omitempty" protobuf:"varint,29,opt,name=x9" thrift:"29"`
	X10  int64              `json:"x10,omitempty" protobuf:"varint,30,opt,name=x10" thrift:"30"`
	X11  int64              `json:"x11,omitempty" protobuf:"varint,31,opt,name=x11" thrift:"31"`
	X12  int64              `json:"x12,omitempty" protobuf:"varint,32,opt,name=x12" thrift:"32"`
	X13  int64              `json:"x13,omitempty" protobuf:"varint,33,opt,name=x13" thrift:"33"`
	X14  int64              `json:"x14,omitempty" protobuf:"varint,34,opt,name=x14" thrift:"34"`
	X15  int64              `json:"x15,omitempty" protobuf:"varint,35,opt,name=x15" thrift:"35"`
	X16  int64              `json:"x16,omitempty" protobuf:"varint,36,opt,name=x16" thrift:"36"`
	X17  int64              `json:"x17,omitempty" protobuf:"varint,37,opt,name=x17" thrift:"37"`
	X18  int64              `json:"x18,omitempty" protobuf:"varint,38,opt,name=x18" thrift:"38"`
	X19  int64              `json:"x19,omitempty" protobuf:"varint,39,opt,name=x19" thrift:"39"`
	X20  int64              `json:"x20,omitempty" protobuf:"varint,40,opt,name=x20" thrift:"40"`
	X21  int64              `json:"x21,omitempty" protobuf:"varint,41,opt,name=x21" thrift:"41"`
	X22  int64              `json:"x22,omitempty" protobuf:"varint,42,opt,name=x22" thrift:"42"`
	X23  int64              `json:"x23,omitempty" protobuf:"varint,43,opt,name=x23" thrift:"43"`
}

type Peer061 struct {
	Back *Rec061   `json:"back,omitempty" protobuf:"bytes,1,opt,name=back" thrift:"1"`
	List []*Rec061 `json:"list,omitempty" protobuf:"bytes,2,rep,name=list" thrift:"2"`
	B    bool      `json:"b" protobuf:"varint,3,opt,name=b" thrift:"3"`
}

type Rec062 struct {
	M    map[string]Peer062 `json:"m,omitempty" protobuf:"bytes,6,rep,name=m" protobuf_key:"bytes,1,opt,name=key" protobuf_val:"bytes,2,opt,name=value" thrift:"6"`
	V    int64              `json:"v" protobuf:"varint,1,opt,name=v" thrift:"1"`
	Next *Rec062            `json:"next,omitempty" protobuf:"bytes,2,opt,name=next" thrift:"2"`
	Kids []Rec062           `json:"kids,omitempty" protobuf:"bytes,3,rep,name=kids" thrift:"3"`
	Peer *Peer062           `json:"peer,omitempty" protobuf:"bytes,4,opt,name=peer" thrift:"4"`
	S    string             `json:"s,omitempty" protobuf:"bytes,5,opt,name=s" thrift:"5"`
	X00  int64              `json:"x0,omitempty" protobuf:"varint,20,opt,name=x0" thrift:"20"`
	X01  int64              `json:"x1,omitempty" protobuf:"varint,21,opt,name=x1" thrift:"21"`
	X02  int64              `json:"x2,omitempty" protobuf:"varint,22,opt,name=x2" thrift:"22"`
	X03  int64              `json:"x3,omitempty" protobuf:"varint,23,opt,name=x3" thrift:"23"`
	X04  int64              `json:"x4,omitempty" protobuf:"varint,24,opt,name=x4" thrift:"24"`
	X05  int64              `json:"x5,omitempty" protobuf:"varint,25,opt,name=x5" thrift:"25"`
	X06  int64              `json:"x6,omitempty" protobuf:"varint,26,opt,name=x6" thrift:"26"`
	X07  int64              `json:"x7,omitempty" protobuf:"varint,27,opt,name=x7" thrift:"27"`
	X08  int64              `json:"x8,omitempty" protobuf:"varint,28,opt,name=x8" thrift:"28"`
	X09  int64              `json:"x9,omitempty" protobuf:"varint,29,opt,name=x9" thrift:"29"`
	X10  int64              `json:"x10,omitempty" protobuf:"varint,30,opt,name=x10" thrift:"30"`
	X11  int64              `json:"x11,omitempty" protobuf:"varint,31,opt,name=x11" thrift:"31"`
	X12  int64              `json:"x12,omitempty" protobuf:"varint,32,opt,name=x12" thrift:"32"`
	X13  int64              `json:"x13,omitempty" protobuf:"varint,33,opt,name=x13" thrift:"33"`
	X14  int64              `json:"x14,omitempty" protobuf:"varint,34,opt,name=x14" thrift:"34"`
	X15  int64              `json:"x15,omitempty" protobuf:"varint,35,opt,name=x15" thrift:"35"`
	X16  int64              `json:"x16,omitempty" protobuf:"varint,36,opt,name=x16" thrift:"36"`
	X17  int64              `json:"x17,omitempty" protobuf:"varint,37,opt,name=x17" thrift:"37"`
	X18  int64              `json:"x18,omitempty" protobuf:"varint,38,opt,name=x18" thrift:"38"`
	X19  int64              `json:"x19,omitempty" protobuf:"varint,39,opt,name=x19" thrift:"39"`
	X20  int64              `json:"x20,omitempty" protobuf:"varint,40,opt,name=x20" thrift:"40"`
	X21  int64              `json:"x21,omitempty" protobuf:"varint,41,opt,name=x21" thrift:"41"`
	X22  int64              `json:"x22,omitempty" protobuf:"varint,42,opt,name=x22" thrift:"42"`
	X23  int64              `json:"x23,omitempty" protobuf:"varint,43,opt,name=x23" thrift:"43"`
}

type Peer062 struct {
	Back *Rec062   `json:"back,omitempty" protobuf:"bytes,1,opt,name=back" thrift:"1"`
	List []*Rec062 `json:"list,omitempty" protobuf:"bytes,2,rep,name=list" thrift:"2"`
	B    bool      `json:"b" protobuf:"varint,3,opt,name=b" thrift:"3"`
}

type Rec063 struct {
	M    map[string]Peer063 `json:"m,omitempty" protobuf:"bytes,6,rep,name=m" protobuf_key:"bytes,1,opt,name=key" protobuf_val:"bytes,2,opt,name=value" thrift:"6"`
	V    int64              `json:"v" protobuf:"varint,1,opt,name=v" thrift:"1"`
	Next *Rec063            `json:"next,omitempty" protobuf:"bytes,2,opt,name=next" thrift:"2"`
	Kids []Rec063           `json:"kids,omitempty" protobuf:"bytes,3,rep,name=kids" thrift:"3"`
	Peer *Peer063           `json:"peer,omitempty" protobuf:"bytes,4,opt,name=peer" thrift:"4"`
	S    string             `json:"s,omitempty" protobuf:"bytes,5,opt,name=s" thrift:"5"`
	X00  int64              `json:"x0,omitempty" protobuf:"varint,20,opt,name=x0" thrift:"20"`
	X01  int64              `json:"x1,omitempty" protobuf:"varint,21,opt,name=x1" thrift:"21"`
	X02  int64              `json:"x2,omitempty" protobuf:"varint,22,opt,name=x2" thrift:"22"`
	X03  int64              `json:"x3,omitempty" protobuf:"varint,23,opt,name=x3" thrift:"23"`
	X04  int64              `json:"x4,omitempty" protobuf:"varint,24,opt,name=x4" thrift:"24"`
	X05  int64              `json:"x5,omitempty" protobuf:"varint,25,opt,name=x5" thrift:"25"`
	X06  int64              `json:"x6,omitempty" protobuf:"varint,26,opt,name=x6" thrift:"26"`
	X07  int64              `json:"x7,omitempty" protobuf:"varint,27,opt,name=x7" thrift:"27"`
	X08  int64              `json:"x8,omitempty" protobuf:"varint,28,opt,name=x8" thrift:"28"`
	X09  int64              `json:"x9,omitempty" protobuf:"varint,29,opt,name=x9" thrift:"29"`
	X10  int64              `json:"x10,omitempty" protobuf:"varint,30,opt,name=x10" thrift:"30"`
	X11  int64              `json:"x11,omitempty" protobuf:"varint,31,opt,name=x11" thrift:"31"`
	X12  int64              `json:"x12,omitempty" protobuf:"varint,32,opt,name=x12" thrift:"32"`
	X13  int64              `json:"x13,omitempty" protobuf:"varint,33,opt,name=x13" thrift:"33"`
	X14  int64              `json:"x14,omitempty" protobuf:"varint,34,opt,name=x14" thrift:"34"`
	X15  int64              `json:"x15,omitempty" protobuf:"varint,35,opt,name=x15" thrift:"35"`
	X16  int64              `json:"x16,omitempty" protobuf:"varint,36,opt,name=x16" thrift:"36"`
	X17  int64              `json:"x17,omitempty" protobuf:"varint,37,opt,name=x17" thrift:"37"`
	X18  int64              `json:"x18,omitempty" protobuf:"varint,38,opt,name=x18" thrift:"38"`
	X19  int64              `json:"x19,omitempty" protobuf:"varint,39,opt,name=x19" thrift:"39"`
	X20  int64              `json:"x20,omitempty" protobuf:"varint,40,opt,name=x20" thrift:"40"`
	X21  int64              `json:"x21,omitempty" protobuf:"varint,41,opt,name=x21" thrift:"41"`
	X22  int64              `json:"x22,omitempty" protobuf:"varint,42,opt,name=x22" thrift:"42"`
	X23  int64              `json:"x23,omitempty" protobuf:"varint,43,opt,name=x23" thrift:"43"`
}

type Peer063 struct {
	Back *Rec063   `json:"back,omitempty" protobuf:"bytes,1,opt,name=back" thrift:"1"`
	List []*Rec063 `json:"list,omitempty" protobuf:"bytes,2,rep,name=list" thrift:"2"`
	B    bool      `json:"b" protobuf:"varint,3,opt,name=b" thrift:"3"`
}

type Rec064 struct {
	M    map[string]Peer064 `json:"m,omitempty" protobuf:"bytes,6,rep,name=m" protobuf_key:"bytes,1,opt,name=key" protobuf_val:"bytes,2,opt,name=value" thrift:"6"`
	V    int64              `json:"v" protobuf:"varint,1,opt,name=v" thrift:"1"`
	Next *Rec064            `json:"next,omitempty" protobuf:"bytes,2,opt,name=next" thrift:"2"`
	Kids []Rec064           `json:"kids,omitempty" protobuf:"bytes,3,rep,name=kids" thrift:"3"`
	Peer *Peer064           `json:"peer,omitempty" protobuf:"bytes,4,opt,name=peer" thrift:"4"`
	S    string             `json:"s,omitempty" protobuf:"bytes,5,opt,name=s" thrift:"5"`
	X00  int64              `json:"x0,omitempty" protobuf:"varint,20,opt,name=x0" thrift:"20"`
	X01  int64              `json:"x1,omitempty" protobuf:"varint,21,opt,name=x1" thrift:"21"`
	X02  int64              `json:"x2,omitempty" protobuf:"varint,22,opt,name=x2" thrift:"22"`
	X03  int64              `json:"x3,omitempty" protobuf:"varint,23,opt,name=x3" thrift:"23"`
	X04  int64              `json:"x4,omitempty" protobuf:"varint,24,opt,name=x4" thrift:"24"`
	X05  int64              `json:"x5,omitempty" protobuf:"varint,25,opt,name=x5" thrift:"25"`
	X06  int64              `json:"x6,omitempty" protobuf:"varint,26,opt,name=x6" thrift:"26"`
	X07  int64              `json:"x7,omitempty" protobuf:"varint,27,opt,name=x7" thrift:"27"`
	X08  int64              `json:"x8,omitempty" protobuf:"varint,28,opt,name=x8" thrift:"28"`
	X09  int64              `json:"x9,omitempty" protobuf:"varint,29,opt,name=x9" thrift:"29"`
	X10  int64              `json:"x10,omitempty" protobuf:"varint,30,opt,name=x10" thrift:"30"`
	X11  int64              `json:"x11,omitempty" protobuf:"varint,31,opt,name=x11" thrift:"31"`
	X12  int64              `json:"x12,omitempty" protobuf:"varint,32,opt,name=x12" thrift:"32"`
	X13  int64              `json:"x13,omitempty" protobuf:"varint,33,opt,name=x13" thrift:"33"`
	X14  int64              `json:"x14,omitempty" protobuf:"varint,34,opt,name=x14" thrift:"34"`
	X15  int64              `json:"x15,omitempty" protobuf:"varint,35,opt,name=x15" thrift:"35"`
	X16  int64              `json:"x16,omitempty" protobuf:"varint,36,opt,name=x16" thrift:"36"`
	X17  int64              `json:"x17,omitempty" protobuf:"varint,37,opt,name=x17" thrift:"37"`
	X18  int64              `json:"x18,omitempty" protobuf:"varint,38,opt,name=x18" thrift:"38"`
	X19  int64              `json:"x19,omitempty" protobuf:"varint,39,opt,name=x19" thrift:"39"`
	X20  int64              `json:"x20,omitempty" protobuf:"varint,40,opt,name=x20" thrift:"40"`
	X21  int64              `json:"x21,omitempty" protobuf:"varint,41,opt,name=x21" thrift:"41"`
	X22  int64              `json:"x22,omitempty" protobuf:"varint,42,opt,name=x22" thrift:"42"`
	X23  int64              `json:"x23,omitempty" protobuf:"varint,43,opt,name=x23" thrift:"43"`
}

type Peer064 struct {
	Back *Rec064   `json:"back,omitempty" protobuf:"bytes,1,opt,name=back" thrift:"1"`
	List []*Rec064 `json:"list,omitempty" protobuf:"bytes,2,rep,name=list" thrift:"2"`
	B    bool      `json:"b" protobuf:"varint,3,opt,name=b" thrift:"3"`
}

type Rec065 struct {
	M    map[string]Peer065 `json:"m,omitempty" protobuf:"bytes,6,rep,name=m" protobuf_key:"bytes,1,opt,name=key" protobuf_val:"bytes,2,opt,name=value" thrift:"6"`
	V    int64              `json:"v" protobuf:"varint,1,opt,name=v" thrift:"1"`
	Next *Rec065            `json:"next,omitempty" protobuf:"bytes,2,opt,name=next" thrift:"2"`
	Kids []Rec065           `json:"kids,omitempty" protobuf:"bytes,3,rep,name=kids" thrift:"3"`
	Peer *Peer065           `json:"peer,omitempty" protobuf:"bytes,4,opt,name=peer" thrift:"4"`
	S    string             `json:"s,omitempty" protobuf:"bytes,5,opt,name=s" thrift:"5"`
	X00  int64              `json:"x0,omitempty" protobuf:"varint,20,opt,name=x0" thrift:"20"`
	X01  int64              `json:"x1,omitempty" protobuf:"varint,21,opt,name=x1" thrift:"21"`
	X02  int64              `json:"x2,omitempty" protobuf:"varint,22,opt,name=x2" thrift:"22"`
	X03  int64              `json:"x3,omitempty" protobuf:"varint,23,opt,name=x3" thrift:"23"`
	X04  int64              `json:"x4,omitempty" protobuf:"varint,24,opt,name=x4" thrift:"24"`
	X05  int64              `json:"x5,omitempty" protobuf:"varint,25,opt,name=x5" thrift:"25"`
	X06  int64              `json:"x6,omitempty" protobuf:"varint,26,opt,name=x6" thrift:"26"`
	X07  int64              `json:"x7,omitempty" protobuf:"varint,27,opt,name=x7" thrift:"27"`
	X08  int64              `json:"x8,omitempty" protobuf:"varint,28,opt,name=x8" thrift:"28"`
	X09  int64              `json:"x9,omitempty" protobuf:"varint,29,opt,name=x9" thrift:"29"`
	X10  int64              `json:"x10,omitempty" protobuf:"varint,30,opt,name=x10" thrift:"30"`
	X11  int64              `json:"x11,omitempty" protobuf:"varint,31,opt,name=x11" thrift:"31"`
	X12  int64              `json:"x12,omitempty" protobuf:"varint,32,opt,name=x12" thrift:"32"`
	X13  int64              `json:"x13,omitempty" protobuf:"varint,33,opt,name=x13" thrift:"33"`
	X14  int64              `json:"x14,omitempty" protobuf:"varint,34,opt,name=x14" thrift:"34"`
	X15  int64              `json:"x15,omitempty" protobuf:"varint,35,opt,name=x15" thrift:"35"`
	X16  int64              `json:"x16,omitempty" protobuf:"varint,36,opt,name=x16" thrift:"36"`
	X17  int64              `json:"x17,omitempty" protobuf:"varint,37,opt,name=x17" thrift:"37"`
	X18  int64              `json:"x18,omitempty" protobuf:"varint,38,opt,name=x18" thrift:"38"`
	X19  int64              `json:"x19,omitempty" protobuf:"varint,39,opt,name=x19" thrift:"39"`
	X20  int64              `json:"x20,omitempty" protobuf:"varint,40,opt,name=x20" thrift:"40"`
	X21  int64              `json:"x21,omitempty" protobuf:"varint,41,opt,name=x21" thrift:"41"`
	X22  int64              `json:"x22,omitempty" protobuf:"varint,42,opt,name=x22" thrift:"42"`
	X23  int64              `json:"x23,omitempty" protobuf:"varint,43,opt,name=x23" thrift:"43"`
}

type Peer065 struct {
	Back *Rec065   `json:"back,omitempty" protobuf:"bytes,1,opt,name=back" thrift:"1"`
	List []*Rec065 `json:"list,omitempty" protobuf:"bytes,2,rep,name=list" thrift:"2"`
	B    bool      `json:"b" protobuf:"varint,3,opt,name=b" thrift:"3"`
}

type Rec066 struct {
	M    map[string]Peer066 `json:"m,omitempty" protobuf:"bytes,6,rep,name=m" protobuf_key:"bytes,1,opt,name=key" protobuf_val:"bytes,2,opt,name=value" thrift:"6"`
	V    int64              `json:"v" protobuf:"varint,1,opt,name=v" thrift:"1"`
	Next *Rec066            `json:"next,omitempty" protobuf:"bytes,2,opt,name=next" thrift:"2"`
	Kids []Rec066           `json:"kids,omitempty" protobuf:"bytes,3,rep,name=kids" thrift:"3"`
	Peer *Peer066           `json:"peer,omitempty" protobuf:"bytes,4,opt,name=peer" thrift:"4"`
	S    string             `json:"s,omitempty" protobuf:"bytes,5,opt,name=s" thrift:"5"`
	X00  int64              `json:"x0,omitempty" protobuf:"varint,20,opt,name=x0" thrift:"20"`
	X01  int64              `json:"x1,omitempty" protobuf:"varint,21,opt,name=x1" thrift:"21"`
	X02  int64              `json:"x2,omitempty" protobuf:"varint,22,opt,name=x2" thrift:"22"`
	X03  int64              `json:"x3,omitempty" protobuf:"varint,23,opt,name=x3" thrift:"23"`
	X04  int64              `json:"x4,omitempty" protobuf:"varint,24,opt,name=x4" thrift:"24"`
	X05  int64              `json:"x5,omitempty" protobuf:"varint,25,opt,name=x5" thrift:"25"`
	X06  int64              `json:"x6,omitempty" protobuf:"varint,26,opt,name=x6" thrift:"26"`
	X07  int64              `json:"x7,omitempty" protobuf:"varint,27,opt,name=x7" thrift:"27"`
	X08  int64              `json:"x8,omitempty" protobuf:"varint,28,opt,name=x8" thrift:"28"`
	X09  int64              `json:"x9,omitempty" protobuf:"varint,29,opt,name=x9" thrift:"29"`
	X10  int64              `json:"x10,omitempty" protobuf:"varint,30,opt,name=x10" thrift:"30"`
	X11  int64              `json:"x11,omitempty" protobuf:"varint,31,opt,name=x11" thrift:"31"`
	X12  int64              `json:"x12,omitempty" protobuf:"varint,32,opt,name=x12" thrift:"32"`
	X13  int64              `json:"x13,omitempty" protobuf:"varint,33,opt,name=x13" thrift:"33"`
	X14  int64              `json:"x14,omitempty" protobuf:"varint,34,opt,name=x14" thrift:"34"`
	X15  int64              `json:"x15,omitempty" protobuf:"varint,35,opt,name=x15" thrift:"35"`
	X16  int64              `json:"x16,omitempty" protobuf:"varint,36,opt,name=x16" thrift:"36"`
	X17  int64              `json:"x17,omitempty" protobuf:"varint,37,opt,name=x17" thrift:"37"`
	X18  int64              `json:"x18,omitempty" protobuf:"varint,38,opt,name=x18" thrift:"38"`
	X19  int64              `json:"x19,omitempty" protobuf:"varint,39,opt,name=x19" thrift:"39"`
	X20  int64              `json:"x20,omitempty" protobuf:"varint,40,opt,name=x20" thrift:"40"`
	X21  int64              `json:"x21,omitempty" protobuf:"varint,41,opt,name=x21" thrift:"41"`
	X22  int64              `json:"x22,omitempty" protobuf:"varint,42,opt,name=x22" thrift:"42"`
	X23  int64              `json:"x23,omitempty" protobuf:"varint,43,opt,name=x23" thrift:"43"`
}

type Peer066 struct {
	Back *Rec066   `json:"back,omitempty" protobuf:"bytes,1,opt,name=back" thrift:"1"`
	List []*Rec066 `json:"list,omitempty" protobuf:"bytes,2,rep,name=list" thrift:"2"`
	B    bool      `json:"b" protobuf:"varint,3,opt,name=b" thrift:"3"`
}

type Rec067 struct {
	M    map[string]Peer067 `json:"m,omitempty" protobuf:"bytes,6,rep,name=m" protobuf_key:"bytes,1,opt,name=key" protobuf_val:"bytes,2,opt,name=value" thrift:"6"`
	V    int64              `json:"v" protobuf:"varint,1,opt,name=v" thrift:"1"`
	Next *Rec067            `json:"next,omitempty" protobuf:"bytes,2,opt,name=next" thrift:"2"`
	Kids []Rec067           `json:"kids,omitempty" protobuf:"bytes,3,rep,name=kids" thrift:"3"`
	Peer *Peer067           `json:"peer,omitempty" protobuf:"bytes,4,opt,name=peer" thrift:"4"`
	S    string             `json:"s,omitempty" protobuf:"bytes,5,opt,name=s" thrift:"5"`
	X00  int64              `json:"x0,omitempty" protobuf:"varint,20,opt,name=x0" thrift:"20"`
	X01  int64              `json:"x1,omitempty" protobuf:"varint,21,opt,name=x1" thrift:"21"`
	X02  int64              `json:"x2,omitempty" protobuf:"varint,22,opt,name=x2" thrift:"22"`
	X03  int64              `json:"x3,omitempty" protobuf:"varint,23,opt,name=x3" thrift:"23"`
	X04  int64              `json:"x4,omitempty" protobuf:"varint,24,opt,name=x4" thrift:"24"`
	X05  int64              `json:"x5,omitempty" protobuf:"varint,25,opt,name=x5" thrift:"25"`
	X06  int64              `json:"x6,omitempty" protobuf:"varint,26,opt,name=x6" thrift:"26"`
	X07  int64              `json:"x7,omitempty" protobuf:"varint,27,opt,name=x7" thrift:"27"`
	X08  int64              `json:"x8,omitempty" protobuf:"varint,28,opt,name=x8" thrift:"28"`
	X09  int64              `json:"x9,omitempty" protobuf:"varint,29,opt,name=x9" thrift:"29"`
	X10  int64              `json:"x10,omitempty" protobuf:"varint,30,opt,name=x10" thrift:"30"`
	X11  int64              `json:"x11,omitempty" protobuf:"varint,31,opt,name=x11" thrift:"31"`
	X12  int64              `json:"x12,omitempty" protobuf:"varint,32,opt,name=x12" thrift:"32"`
	X13  int64              `json:"x13,omitempty" protobuf:"varint,33,opt,name=x13" thrift:"33"`
	X14  int64              `json:"x14,omitempty" protobuf:"varint,34,opt,name=x14" thrift:"34"`
	X15  int64              `json:"x15,omitempty" protobuf:"varint,35,opt,name=x15" thrift:"35"`
	X16  int64              `json:"x16,omitempty" protobuf:"varint,36,opt,name=x16" thrift:"36"`
	X17  int64              `json:"x17,omitempty" protobuf:"varint,37,opt,name=x17" thrift:"37"`
	X18  int64              `json:"x18,omitempty" protobuf:"varint,38,opt,name=x18" thrift:"38"`
	X19  int64              `json:"x19,omitempty" protobuf:"varint,39,opt,name=x19" thrift:"39"`
	X20  int64              `json:"x20,omitempty" protobuf:"varint,40,opt,name=x20" thrift:"40"`
	X21  int64              `json:"x21,omitempty" protobuf:"varint,41,opt,name=x21" thrift:"41"`
	X22  int64              `json:"x22,omitempty" protobuf:"varint,42,opt,name=x22" thrift:"42"`
	X23  int64              `json:"x23,omitempty" protobuf:"varint,43,opt,name=x23" thrift:"43"`
}

type Peer067 struct {
	Back *Rec067   `json:"back,omitempty" protobuf:"bytes,1,opt,name=back" thrift:"1"`
	List []*Rec067 `json:"list,omitempty" protobuf:"bytes,2,rep,name=list" thrift:"2"`
	B    bool      `json:"b" protobuf:"varint,3,opt,name=b" thrift:"3"`
}

type Rec068 struct {
	M    map[string]Peer068 `json:"m,omitempty" protobuf:"bytes,6,rep,name=m" protobuf_key:"bytes,1,opt,name=key" protobuf_val:"bytes,2,opt,name=value" thrift:"6"`
	V    int64              `json:"v" protobuf:"varint,1,opt,name=v" thrift:"1"`
	Next *Rec068            `json:"next,omitempty" protobuf:"bytes,2,opt,name=next" thrift:"2"`
	Kids []Rec068           `json:"kids,omitempty" protobuf:"bytes,3,rep,name=kids" thrift:"3"`
	Peer *Peer068           `json:"peer,omitempty" protobuf:"bytes,4,opt,name=peer" thrift:"4"`
	S    string             `json:"s,omitempty" protobuf:"bytes,5,opt,name=s" thrift:"5"`
	X00  int64              `json:"x0,omitempty" protobuf:"varint,20,opt,name=x0" thrift:"20"`
	X01  int64              `json:"x1,omitempty" protobuf:"varint,21,opt,name=x1" thrift:"21"`
	X02  int64              `json:"x2,omitempty" protobuf:"varint,22,opt,name=x2" thrift:"22"`
	X03  int64              `json:"x3,omitempty" protobuf:"varint,23,opt,name=x3" thrift:"23"`
	X04  int64              `json:"x4,omitempty" protobuf:"varint,24,opt,name=x4" thrift:"24"`
	X05  int64              `json:"x5,omitempty" protobuf:"varint,25,opt,name=x5" thrift:"25"`
	X06  int64              `json:"x6,omitempty" protobuf:"varint,26,opt,name=x6" thrift:"26"`
	X07  int64              `json:"x7,omitempty" protobuf:"varint,27,opt,name=x7" thrift:"27"`
	X08  int64              `json:"x8,omitempty" protobuf:"varint,28,opt,name=x8" thrift:"28"`
	X09  int64              `json:"x9,omitempty" protobuf:"varint,29,opt,name=x9" thrift:"29"`
	X10  int64              `json:"x10,omitempty" protobuf:"varint,30,opt,name=x10" thrift:"30"`
	X11  int64              `json:"x11,omitempty" protobuf:"varint,31,opt,name=x11" thrift:"31"`
	X12  int64              `json:"x12,omitempty" protobuf:"varint,32,opt,name=x12" thrift:"32"`
	X13  int64              `json:"x13,omitempty" protobuf:"varint,33,opt,name=x13" thrift:"33"`
	X14  int64              `json:"x14,omitempty" protobuf:"varint,34,opt,name=x14" thrift:"34"`
	X15  int64              `json:"x15,omitempty" protobuf:"varint,35,opt,name=x15" thrift:"35"`
	X16  int64              `json:"x16,omitempty" protobuf:"varint,36,opt,name=x16" thrift:"36"`
	X17  int64              `json:"x17,omitempty" protobuf:"varint,37,opt,name=x17" thrift:"37"`
	X18  int64              `json:"x18,omitempty" protobuf:"varint,38,opt,name=x18" thrift:"38"`
	X19  int64              `json:"x19,omitempty" protobuf:"varint,39,opt,name=x19" thrift:"39"`
	X20  int64              `json:"x20,omitempty" protobuf:"varint,40,opt,name=x20" thrift:"40"`
	X21  int64              `json:"x21,omitempty" protobuf:"varint,41,opt,name=x21" thrift:"41"`
	X22  int64              `json:"x22,omitempty" protobuf:"varint,42,opt,name=x22" thrift:"42"`
	X23  int64              `json:"x23,omitempty" protobuf:"varint,43,opt,name=x23" thrift:"43"`
}

type Peer068 struct {
	Back *Rec068   `json:"back,omitempty" protobuf:"bytes,1,opt,name=back" thrift:"1"`
	List []*Rec068 `json:"list,omitempty" protobuf:"bytes,2,rep,name=list" thrift:"2"`
	B    bool      `json:"b" protobuf:"varint,3,opt,name=b" thrift:"3"`
}

type Rec069 struct {
	M    map[string]Peer069 `json:"m,omitempty" protobuf:"bytes,6,rep,name=m" protobuf_key:"bytes,1,opt,name=key" protobuf_val:"bytes,2,opt,name=value" thrift:"6"`
	V    int64              `json:"v" protobuf:"varint,1,opt,name=v" thrift:"1"`
	Next *Rec069            `json:"next,omitempty" protobuf:"bytes,2,opt,name=next" thrift:"2"`
	Kids []Rec069           `json:"kids,omitempty" protobuf:"bytes,3,rep,name=kids" thrift:"3"`
	Peer *Peer069           `json:"peer,omitempty" protobuf:"bytes,4,opt,name=peer" thrift:"4"`
	S    string             `json:"s,omitempty" protobuf:"bytes,5,opt,name=s" thrift:"5"`
	X00  int64              `json:"x0,omitempty" protobuf:"varint,20,opt,name=x0" thrift:"20"`
	X01  int64              `json:"x1,omitempty" protobuf:"varint,21,opt,name=x1" thrift:"21"`
	X02  int64              `json:"x2,omitempty" protobuf:"varint,22,opt,name=x2" thrift:"22"`
	X03  int64              `json:"x3,omitempty" protobuf:"varint,23,opt,name=x3" thrift:"23"`
	X04  int64              `json:"x4,omitempty" protobuf:"varint,24,opt,name=x4" thrift:"24"`
	X05  int64              `json:"x5,omitempty" protobuf:"varint,25,opt,name=x5" thrift:"25"`
	X06  int64              `json:"x6,omitempty" protobuf:"varint,26,opt,name=x6" thrift:"26"`
	X07  int64              `json:"x7,omitempty" protobuf:"varint,27,opt,name=x7" thrift:"27"`
	X08  int64              `json:"x8,omitempty" protobuf:"varint,28,opt,name=x8" thrift:"28"`
	X09  int64              `json:"x9,omitempty" protobuf:"varint,29,opt,name=x9" thrift:"29"`
	X10  int64              `json:"x10,omitempty" protobuf:"varint,30,opt,name=x10" thrift:"30"`
	X11  int64              `json:"x11,omitempty" protobuf:"varint,31,opt,name=x11" thrift:"31"`
	X12  int64              `json:"x12,omitempty" protobuf:"varint,32,opt,name=x12" thrift:"32"`
	X13  int64              `json:"x13,omitempty" protobuf:"varint,33,opt,name=x13" thrift:"33"`
	X14  int64              `json:"x14,omitempty" protobuf:"varint,34,opt,name=x14" thrift:"34"`
	X15  int64              `json:"x15,omitempty" protobuf:"varint,35,opt,name=x15" thrift:"35"`
	X16  int64              `json:"x16,omitempty" protobuf:"varint,36,opt,name=x16" thrift:"36"`
	X17  int64              `json:"x17,omitempty" protobuf:"varint,37,opt,name=x17" thrift:"37"`
	X18  int64              `json:"x18,omitempty" protobuf:"varint,38,opt,name=x18" thrift:"38"`
	X19  int64              `json:"x19,omitempty" protobuf:"varint,39,opt,name=x19" thrift:"39"`
	X20  int64              `json:"x20,omitempty" protobuf:"varint,40,opt,name=x20" thrift:"40"`
	X21  int64              `json:"x21,omitempty" protobuf:"varint,41,opt,name=x21" thrift:"41"`
	X22  int64              `json:"x22,omitempty" protobuf:"varint,42,opt,name=x22" thrift:"42"`
	X23  int64              `json:"x23,omitempty" protobuf:"varint,43,opt,name=x23" thrift:"43"`
}

type Peer069 struct {
	Back *Rec069   `json:"back,omitempty" protobuf:"bytes,1,opt,name=back" thrift:"1"`
	List []*Rec069 `json:"list,omitempty" protobuf:"bytes,2,rep,name=list" thrift:"2"`
	B    bool      `json:"b" protobuf:"varint,3,opt,name=b" thrift:"3"`
}

type Rec070 struct {
	M    map[string]Peer070 `json:"m,omitempty" protobuf:"bytes,6,rep,name=m" protobuf_key:"bytes,1,opt,name=key" protobuf_val:"bytes,2,opt,name=value" thrift:"6"`
	V    int64              `json:"v" protobuf:"varint,1,opt,name=v" thrift:"1"`
	Next *Rec070            `json:"next,omitempty" protobuf:"bytes,2,opt,name=next" thrift:"2"`
	Kids []Rec070           `json:"kids,omitempty" protobuf:"bytes,3,rep,name=kids" thrift:"3"`
	Peer *Peer070           `json:"peer,omitempty" protobuf:"bytes,4,opt,name=peer" thrift:"4"`
	S    string             `json:"s,omitempty" protobuf:"bytes,5,opt,name=s" thrift:"5"`
	X00  int64              `json:"x0,omitempty" protobuf:"varint,20,opt,name=x0" thrift:"20"`
	X01  int64              `json:"x1,omitempty" protobuf:"varint,21,opt,name=x1" thrift:"21"`
	X02  int64              `json:"x2,omitempty" protobuf:"varint,22,opt,name=x2" thrift:"22"`
	X03  int64              `json:"x3,omitempty" protobuf:"varint,23,opt,name=x3" thrift:"23"`
	X04  int64              `json:"x4,omitempty" protobuf:"varint,24,opt,name=x4" thrift:"24"`
	X05  int64              `json:"x5,omitempty" protobuf:"varint,25,opt,name=x5" thrift:"25"`
	X06  int64              `json:"x6,omitempty" protobuf:"varint,26,opt,name=x6" thrift:"26"`
	X07  int64              `json:"x7,omitempty" protobuf:"varint,27,opt,name=x7" thrift:"27"`
	X08  int64              `json:"x8,omitempty" protobuf:"varint,28,opt,name=x8" thrift:"28"`
	X09  int64              `json:"x9,omitempty" protobuf:"varint,29,opt,name=x9" thrift:"29"`
	X10  int64              `json:"x10,omitempty" protobuf:"varint,30,opt,name=x10" thrift:"30"`
	X11  int64              `json:"x11,omitempty" protobuf:"varint,31,opt,name=x11" thrift:"31"`
	X12  int64              `json:"x12,omitempty" protobuf:"varint,32,opt,name=x12" thrift:"32"`
	X13  int64              `json:"x13,omitempty" protobuf:"varint,33,opt,name=x13" thrift:"33"`
	X14  int64              `json:"x14,omitempty" protobuf:"varint,34,opt,name=x14" thrift:"34"`
	X15  int64              `json:"x15,omitempty" protobuf:"varint,35,opt,name=x15" thrift:"35"`
	X16  int64              `json:"x16,omitempty" protobuf:"varint,36,opt,name=x16" thrift:"36"`
	X17  int64              `json:"x17,omitempty" protobuf:"varint,37,opt,name=x17" thrift:"37"`
	X18  int64              `json:"x18,omitempty" protobuf:"varint,38,opt,name=x18" thrift:"38"`
	X19  int64              `json:"x19,omitempty" protobuf:"varint,39,opt,name=x19" thrift:"39"`
	X20  int64              `json:"x20,omitempty" protobuf:"varint,40,opt,name=x20" thrift:"40"`
	X21  int64              `json:"x21,omitempty" protobuf:"varint,41,opt,name=x21" thrift:"41"`
	X22  int64              `json:"x22,omitempty" protobuf:"varint,42,opt,name=x22" thrift:"42"`
	X23  int64              `json:"x23,omitempty" protobuf:"varint,43,opt,name=x23" thrift:"43"`
}

type Peer070 struct {
	Back *Rec070   `json:"back,omitempty" protobuf:"bytes,1,opt,name=back" thrift:"1"`
	List []*Rec070 `json:"list,omitempty" protobuf:"bytes,2,rep,name=list" thrift:"2"`
	B    bool      `json:"b" protobuf:"varint,3,opt,name=b" thrift:"3"`
}

type Rec071 struct {
	M    map[string]Peer071 `json:"m,omitempty" protobuf:"bytes,6,rep,name=m" protobuf_key:"bytes,1,opt,name=key" protobuf_val:"bytes,2,opt,name=value" thrift:"6"`
	V    int64              `json:"v" protobuf:"varint,1,opt,name=v" thrift:"1"`
	Next *Rec071            `json:"next,omitempty" protobuf:"bytes,2,opt,name=next" thrift:"2"`
	Kids []Rec071           `json:"kids,omitempty" protobuf:"bytes,3,rep,name=kids" thrift:"3"`
	Peer *Peer071           `json:"peer,omitempty" protobuf:"bytes,4,opt,name=peer" thrift:"4"`
	S    string             `json:"s,omitempty" protobuf:"bytes,5,opt,name=s" thrift:"5"`
	X00  int64              `json:"x0,omitempty" protobuf:"varint,20,opt,name=x0" thrift:"20"`
	X01  int64              `json:"x1,omitempty" protobuf:"varint,21,opt,name=x1" thrift:"21"`
	X02  int64              `json:"x2,omitempty" protobuf:"varint,22,opt,name=x2" thrift:"22"`
	X03  int64              `json:"x3,omitempty" protobuf:"varint,23,opt,name=x3" thrift:"23"`
	X04  int64              `json:"x4,omitempty" protobuf:"varint,24,opt,name=x4" thrift:"24"`
	X05  int64              `json:"x5,omitempty" protobuf:"varint,25,opt,name=x5" thrift:"25"`
	X06  int64              `json:"x6,omitempty" protobuf:"varint,26,opt,name=x6" thrift:"26"`
	X07  int64              `json:"x7,omitempty" protobuf:"varint,27,opt,name=x7" thrift:"27"`
	X08  int64              `json:"x8,omitempty" protobuf:"varint,28,opt,name=x8" thrift:"28"`
	X09  int64              `json:"x9,omitempty" protobuf:"varint,29,opt,name=x9" thrift:"29"`
	X10  int64              `json:"x10,omitempty" protobuf:"varint,30,opt,name=x10" thrift:"30"`
	X11  int64              `json:"x11,omitempty" protobuf:"varint,31,opt,name=x11" thrift:"31"`
	X12  int64              `json:"x12,omitempty" protobuf:"varint,32,opt,name=x12" thrift:"32"`
	X13  int64              `json:"x13,omitempty" protobuf:"varint,33,opt,name=x13" thrift:"33"`
	X14  int64              `json:"x14,omitempty" protobuf:"varint,34,opt,name=x14" thrift:"34"`
	X15  int64              `json:"x15,omitempty" protobuf:"varint,35,opt,name=x15" thrift:"35"`
	X16  int64              `json:"x16,omitempty" protobuf:"varint,36,opt,name=x16" thrift:"36"`
	X17  int64              `json:"x17,omitempty" protobuf:"varint,37,opt,name=x17" thrift:"37"`
	X18  int64              `json:"x18,omitempty" protobuf:"varint,38,opt,name=x18" thrift:"38"`
	X19  int64              `json:"x19,omitempty" protobuf:"varint,39,opt,name=x19" thrift:"39"`
	X20  int64              `json:"x20,omitempty" protobuf:"varint,40,opt,name=x20" thrift:"40"`
	X21  int64              `json:"x21,omitempty" protobuf:"varint,41,opt,name=x21" thrift:"41"`
	X22  int64              `json:"x22,omitempty" protobuf:"varint,42,opt,name=x22" thrift:"42"`
	X23  int64              `json:"x23,omitempty" protobuf:"varint,43,opt,name=x23" thrift:"43"`
}

type Peer071 struct {
	Back *Rec071   `json:"back,omitempty" protobuf:"bytes,1,opt,name=back" thrift:"1"`
	List []*Rec071 `json:"list,omitempty" protobuf:"bytes,2,rep,name=list" thrift:"2"`
	B    bool      `json:"b" protobuf:"varint,3,opt,name=b" thrift:"3"`
}

type Rec072 struct {
	M    map[string]Peer072 `json:"m,omitempty" protobuf:"bytes,6,rep,name=m" protobuf_key:"bytes,1,opt,name=key" protobuf_val:"bytes,2,opt,name=value" thrift:"6"`
	V    int64              `json:"v" protobuf:"varint,1,opt,name=v" thrift:"1"`
	Next *Rec072            `json:"next,omitempty" protobuf:"bytes,2,opt,name=next" thrift:"2"`
	Kids []Rec072           `json:"kids,omitempty" protobuf:"bytes,3,rep,name=kids" thrift:"3"`
	Peer *Peer072           `json:"peer,omitempty" protobuf:"bytes,4,opt,name=peer" thrift:"4"`
	S    string             `json:"s,omitempty" protobuf:"bytes,5,opt,name=s" thrift:"5"`
	X00  int64              `json:"x0,omitempty" protobuf:"varint,20,opt,name=x0" thrift:"20"`
	X01  int64              `json:"x1,omitempty" protobuf:"varint,21,opt,name=x1" thrift:"21"`
	X02  int64              `json:"x2,omitempty" protobuf:"varint,22,opt,name=x2" thrift:"22"`
	X03  int64              `json:"x3,omitempty" protobuf:"varint,23,opt,name=x3" thrift:"23"`
	X04  int64              `json:"x4,omitempty" protobuf:"varint,24,opt,name=x4" thrift:"24"`
	X05  int64              `json:"x5,omitempty" protobuf:"varint,25,opt,name=x5" thrift:"25"`
	X06  int64              `json:"x6,omitempty" protobuf:"varint,26,opt,name=x6" thrift:"26"`
	X07  int64              `json:"x7,omitempty" protobuf:"varint,27,opt,name=x7" thrift:"27"`
	X08  int64              `json:"x8,omitempty" protobuf:"varint,28,opt,name=x8" thrift:"28"`
	X09  int64              `json:"x9,omitempty" protobuf:"varint,29,opt,name=x9" thrift:"29"`
	X10  int64              `json:"x10,omitempty" protobuf:"varint,30,opt,name=x10" thrift:"30"`
	X11  int64              `json:"x11,omitempty" protobuf:"varint,31,opt,name=x11" thrift:"31"`
	X12  int64              `json:"x12,omitempty" protobuf:"varint,32,opt,name=x12" thrift:"32"`
	X13  int64              `json:"x13,omitempty" protobuf:"varint,33,opt,name=x13" thrift:"33"`
	X14  int64              `json:"x14,omitempty" protobuf:"varint,34,opt,name=x14" thrift:"34"`
	X15  int64              `json:"x15,omitempty" protobuf:"varint,35,opt,name=x15" thrift:"35"`
	X16  int64              `json:"x16,omitempty" protobuf:"varint,36,opt,name=x16" thrift:"36"`
	X17  int64              `json:"x17,omitempty" protobuf:"varint,37,opt,name=x17" thrift:"37"`
	X18  int64              `json:"x18,omitempty" protobuf:"varint,38,opt,name=x18" thrift:"38"`
	X19  int64              `json:"x19,omitempty" protobuf:"varint,39,opt,name=x19" thrift:"39"`
	X20  int64              `json:"x20,omitempty" protobuf:"varint,40,opt,name=x20" thrift:"40"`
	X21  int64              `json:"x21,omitempty" protobuf:"varint,41,opt,name=x21" thrift:"41"`
	X22  int64              `json:"x22,omitempty" protobuf:"varint,42,opt,name=x22" thrift:"42"`
	X23  int64              `json:"x23,omitempty" protobuf:"varint,43,opt,name=x23" thrift:"43"`
}

type Peer072 struct {
	Back *Rec072   `json:"back,omitempty" protobuf:"bytes,1,opt,name=back" thrift:"1"`
	List []*Rec072 `json:"list,omitempty" protobuf:"bytes,2,rep,name=list" thrift:"2"`
	B    bool      `json:"b" protobuf:"varint,3,opt,name=b" thrift:"3"`
}

type Rec073 struct {
	M    map[string]Peer073 `json:"m,omitempty" protobuf:"bytes,6,rep,name=m" protobuf_key:"bytes,1,opt,name=key" protobuf_val:"bytes,2,opt,name=value" thrift:"6"`
	V    int64              `json:"v" protobuf:"varint,1,opt,name=v" thrift:"1"`
	Next *Rec073            `json:"next,omitempty" protobuf:"bytes,2,opt,name=next" thrift:"2"`
	Kids []Rec073           `json:"kids,omitempty" protobuf:"bytes,3,rep,name=kids" thrift:"3"`
	Peer *Peer073           `json:"peer,omitempty" protobuf:"bytes,4,opt,name=peer" thrift:"4"`
	S    string             `json:"s,omitempty" protobuf:"bytes,5,opt,name=s" thrift:"5"`
	X00  int64              `json:"x0,omitempty" protobuf:"varint,20,opt,name=x0" thrift:"20"`
	X01  int64              `json:"x1,omitempty" protobuf:"varint,21,opt,name=x1" thrift:"21"`
	X02  int64              `json:"x2,omitempty" protobuf:"varint,22,opt,name=x2" thrift:"22"`
	X03  int64              `json:"x3,omitempty" protobuf:"varint,23,opt,name=x3" thrift:"23"`
	X04  int64              `json:"x4,omitempty" protobuf:"varint,24,opt,name=x4" thrift:"24"`
	X05  int64              `json:"x5,omitempty" protobuf:"varint,25,opt,name=x5" thrift:"25"`
	X06  int64              `json:"x6,omitempty" protobuf:"varint,26,opt,name=x6" thrift:"26"`
	X07  int64              `json:"x7,omitempty" protobuf:"varint,27,opt,name=x7" thrift:"27"`
	X08  int64              `json:"x8,omitempty" protobuf:"varint,28,opt,name=x8" thrift:"28"`
	X09  int64              `json:"x9,omitempty" protobuf:"varint,29,opt,name=x9" thrift:"29"`
	X10  int64              `json:"x10,omitempty" protobuf:"varint,30,opt,name=x10" thrift:"30"`
	X11  int64              `json:"x11,omitempty" protobuf:"varint,31,opt,name=x11" thrift:"31"`
	X12  int64              `json:"x12,omitempty" protobuf:"varint,32,opt,name=x12" thrift:"32"`
	X13  int64              `json:"x13,omitempty" protobuf:"varint,33,opt,name=x13" thrift:"33"`
	X14  int64              `json:"x14,omitempty" protobuf:"varint,34,opt,name=x14" thrift:"34"`
	X15  int64              `json:"x15,omitempty" protobuf:"varint,35,opt,name=x15" thrift:"35"`
	X16  int64              `json:"x16,omitempty" protobuf:"varint,36,opt,name=x16" thrift:"36"`
	X17  int64              `json:"x17,omitempty" protobuf:"varint,37,opt,name=x17" thrift:"37"`
	X18  int64              `json:"x18,omitempty" protobuf:"varint,38,opt,name=x18" thrift:"38"`
	X19  int64              `json:"x19,omitempty" protobuf:"varint,39,opt,name=x19" thrift:"39"`
	X20  int64              `json:"x20,omitempty" protobuf:"varint,40,opt,name=x20" thrift:"40"`
	X21  int64              `json:"x21,omitempty" protobuf:"varint,41,opt,name=x21" thrift:"41"`
	X22  int64              `json:"x22,omitempty" protobuf:"varint,42,opt,name=x22" thrift:"42"`
	X23  int64              `json:"x23,omitempty" protobuf:"varint,43,opt,name=x23" thrift:"43"`
}

type Peer073 struct {
	Back *Rec073   `json:"back,omitempty" protobuf:"bytes,1,opt,name=back" thrift:"1"`
	List []*Rec073 `json:"list,omitempty" protobuf:"bytes,2,rep,name=list" thrift:"2"`
	B    bool      `json:"b" protobuf:"varint,3,opt,name=b" thrift:"3"`
}

type Rec074 struct {
	M    map[string]Peer074 `json:"m,omitempty" protobuf:"bytes,6,rep,name=m" protobuf_key:"bytes,1,opt,name=key" protobuf_val:"bytes,2,opt,name=value" thrift:"6"`
	V    int64              `json:"v" protobuf:"varint,1,opt,name=v" thrift:"1"`
	Next *Rec074            `json:"next,omitempty" protobuf:"bytes,2,opt,name=next" thrift:"2"`
	Kids []Rec074           `json:"kids,omitempty" protobuf:"bytes,3,rep,name=kids" thrift:"3"`
	Peer *Peer074           `json:"peer,omitempty" protobuf:"bytes,4,opt,name=peer" thrift:"4"`
	S    string             `json:"s,omitempty" protobuf:"bytes,5,opt,name=s" thrift:"5"`
	X00  int64              `json:"x0,omitempty" protobuf:"varint,20,opt,name=x0" thrift:"20"`
	X01  int64              `json:"x1,omitempty" protobuf:"varint,21,opt,name=x1" thrift:"21"`
	X02  int64              `json:"x2,omitempty" protobuf:"varint,22,opt,name=x2" thrift:"22"`
	X03  int64              `json:"x3,omitempty" protobuf:"varint,23,opt,name=x3" thrift:"23"`
	X04  int64              `json:"x4,omitempty" protobuf:"varint,24,opt,name=x4" thrift:"24"`
	X05  int64              `json:"x5,omitempty" protobuf:"varint,25,opt,name=x5" thrift:"25"`
	X06  int64              `json:"x6,omitempty" protobuf:"varint,26,opt,name=x6" thrift:"26"`
	X07  int64              `json:"x7,omitempty" protobuf:"varint,27,opt,name=x7" thrift:"27"`
	X08  int64              `json:"x8,omitempty" protobuf:"varint,28,opt,name=x8" thrift:"28"`
	X09  int64              `json:"x9,omitempty" protobuf:"varint,29,opt,name=x9" thrift:"29"`
	X10  int64              `json:"x10,omitempty" protobuf:"varint,30,opt,name=x10" thrift:"30"`
	X11  int64              `json:"x11,omitempty" protobuf:"varint,31,opt,name=x11" thrift:"31"`
	X12  int64              `json:"x12,omitempty" protobuf:"varint,32,opt,name=x12" thrift:"32"`
	X13  int64              `json:"x13,omitempty" protobuf:"varint,33,opt,name=x13" thrift:"33"`
	X14  int64              `json:"x14,omitempty" protobuf:"varint,34,opt,name=x14" thrift:"34"`
	X15  int64              `json:"x15,omitempty" protobuf:"varint,35,opt,name=x15" thrift:"35"`
	X16  int64              `json:"x16,omitempty" protobuf:"varint,36,opt,name=x16" thrift:"36"`
	X17  int64              `json:"x17,omitempty" protobuf:"varint,37,opt,name=x17" thrift:"37"`
	X18  int64              `json:"x18,omitempty" protobuf:"varint,38,opt,name=x18" thrift:"38"`
	X19  int64              `json:"x19,omitempty" protobuf:"varint,39,opt,name=x19" thrift:"39"`
	X20  int64              `json:"x20,omitempty" protobuf:"varint,40,opt,name=x20" thrift:"40"`
	X21  int64              `json:"x21,omitempty" protobuf:"varint,41,opt,name=x21" thrift:"41"`
	X22  int64              `json:"x22,omitempty" protobuf:"varint,42,opt,name=x22" thrift:"42"`
	X23  int64              `json:"x23,omitempty" protobuf:"varint,43,opt,name=x23" thrift:"43"`
}

type Peer074 struct {
	Back *Rec074   `json:"back,omitempty" protobuf:"bytes,1,opt,name=back" thrift:"1"`
	List []*Rec074 `json:"list,omitempty" protobuf:"bytes,2,rep,name=list" thrift:"2"`
	B    bool      `json:"b" protobuf:"varint,3,opt,name=b" thrift:"3"`
}

type Rec075 struct {
	M    map[string]Peer075 `json:"m,omitempty" protobuf:"bytes,6,rep,name=m" protobuf_key:"bytes,1,opt,name=key" protobuf_val:"bytes,2,opt,name=value" thrift:"6"`
	V    int64              `json:"v" protobuf:"varint,1,opt,name=v" thrift:"1"`
	Next *Rec075            `json:"next,omitempty" protobuf:"bytes,2,opt,name=next" thrift:"2"`
	Kids []Rec075           `json:"kids,omitempty" protobuf:"bytes,3,rep,name=kids" thrift:"3"`
	Peer *Peer075           `json:"peer,omitempty" protobuf:"bytes,4,opt,name=peer" thrift:"4"`
	S    string             `json:"s,omitempty" protobuf:"bytes,5,opt,name=s" thrift:"5"`
	X00  int64              `json:"x0,omitempty" protobuf:"varint,20,opt,name=x0" thrift:"20"`
	X01  int64              `json:"x1,omitempty" protobuf:"varint,21,opt,name=x1" thrift:"21"`
	X02  int64              `json:"x2,omitempty" protobuf:"varint,22,opt,name=x2" thrift:"22"`
	X03  int64              `json:"x3,omitempty" protobuf:"varint,23,opt,name=x3" thrift:"23"`
	X04  int64              `json:"x4,omitempty" protobuf:"varint,24,opt,name=x4" thrift:"24"`
	X05  int64              `json:"x5,omitempty" protobuf:"varint,25,opt,name=x5" thrift:"25"`
	X06  int64              `json:"x6,omitempty" protobuf:"varint,26,opt,name=x6" thrift:"26"`
	X07  int64              `json:"x7,omitempty" protobuf:"varint,27,opt,name=x7" thrift:"27"`
	X08  int64              `json:"x8,omitempty" protobuf:"varint,28,opt,name=x8" thrift:"28"`
	X09  int64              `json:"x9,omitempty" protobuf:"varint,29,opt,name=x9" thrift:"29"`
	X10  int64              `json:"x10,omitempty" protobuf:"varint,30,opt,name=x10" thrift:"30"`
	X11  int64              `json:"x11,omitempty" protobuf:"varint,31,opt,name=x11" thrift:"31"`
	X12  int64              `json:"x12,omitempty" protobuf:"varint,32,opt,name=x12" thrift:"32"`
	X13  int64              `json:"x13,omitempty" protobuf:"varint,33,opt,name=x13" thrift:"33"`
	X14  int64              `json:"x14,omitempty" protobuf:"varint,34,opt,name=x14" thrift:"34"`
	X15  int64              `json:"x15,omitempty" protobuf:"varint,35,opt,name=x15" thrift:"35"`
	X16  int64              `json:"x16,omitempty" protobuf:"varint,36,opt,name=x16" thrift:"36"`
	X17  int64              `json:"x17,omitempty" protobuf:"varint,37,opt,name=x17" thrift:"37"`
	X18  int64              `json:"x18,omitempty" protobuf:"varint,38,opt,name=x18" thrift:"38"`
	X19  int64              `json:"x19,omitempty" protobuf:"varint,39,opt,name=x19" thrift:"39"`
	X20  int64              `json:"x20,omitempty" protobuf:"varint,40,opt,name=x20" thrift:"40"`
	X21  int64              `json:"x21,omitempty" protobuf:"varint,41,opt,name=x21" thrift:"41"`
	X22  int64              `json:"x22,omitempty" protobuf:"varint,42,opt,name=x22" thrift:"42"`
	X23  int64              `json:"x23,omitempty" protobuf:"varint,43,opt,name=x23" thrift:"43"`
}

type Peer075 struct {
	Back *Rec075   `json:"back,omitempty" protobuf:"bytes,1,opt,name=back" thrift:"1"`
	List []*Rec075 `json:"list,omitempty" protobuf:"bytes,2,rep,name=list" thrift:"2"`
	B    bool      `json:"b" protobuf:"varint,3,opt,name=b" thrift:"3"`
}

type Rec076 struct {
	M    map[string]Peer076 `json:"m,omitempty" protobuf:"bytes,6,rep,name=m" protobuf_key:"bytes,1,opt,name=key" protobuf_val:"bytes,2,opt,name=value" thrift:"6"`
	V    int64              `json:"v" protobuf:"varint,1,opt,name=v" thrift:"1"`
	Next *Rec076            `json:"next,omitempty" protobuf:"bytes,2,opt,name=next" thrift:"2"`
	Kids []Rec076           `json:"kids,omitempty" protobuf:"bytes,3,rep,name=kids" thrift:"3"`
	Peer *Peer076           `json:"peer,omitempty" protobuf:"bytes,4,opt,name=peer" thrift:"4"`
	S    string             `json:"s,omitempty" protobuf:"bytes,5,opt,name=s" thrift:"5"`
	X00  int64              `json:"x0,omitempty" protobuf:"varint,20,opt,name=x0" thrift:"20"`
	X01  int64              `json:"x1,omitempty" protobuf:"varint,21,opt,name=x1" thrift:"21"`
	X02  int64              `json:"x2,omitempty" protobuf:"varint,22,opt,name=x2" thrift:"22"`
	X03  int64              `json:"x3,omitempty" protobuf:"varint,23,opt,name=x3" thrift:"23"`
	X04  int64              `json:"x4,omitempty" protobuf:"varint,24,opt,name=x4" thrift:"24"`
	X05  int64              `json:"x5,omitempty" protobuf:"varint,25,opt,name=x5" thrift:"25"`
	X06  int64              `json:"x6,omitempty" protobuf:"varint,26,opt,name=x6" thrift:"26"`
	X07  int64              `json:"x7,omitempty" protobuf:"varint,27,opt,name=x7" thrift:"27"`
	X08  int64              `json:"x8,omitempty" protobuf:"varint,28,opt,name=x8" thrift:"28"`
	X09  int64              `json:"x9,omitempty" protobuf:"varint,29,opt,name=x9" thrift:"29"`
	X10  int64              `json:"x10,omitempty" protobuf:"varint,30,opt,name=x10" thrift:"30"`
	X11  int64              `json:"x11,omitempty" protobuf:"varint,31,opt,name=x11" thrift:"31"`
	X12  int64              `json:"x12,omitempty" protobuf:"varint,32,opt,name=x12" thrift:"32"`
	X13  int64              `json:"x13,omitempty" protobuf:"varint,33,opt,name=x13" thrift:"33"`
	X14  int64              `json:"x14,omitempty" protobuf:"varint,34,opt,name=x14" thrift:"34"`
	X15  int64              `json:"x15,omitempty" protobuf:"varint,35,opt,name=x15" thrift:"35"`
	X16  int64              `json:"x16,omitempty" protobuf:"varint,36,opt,name=x16" thrift:"36"`
	X17  int64              `json:"x17,omitempty" protobuf:"varint,37,opt,name=x17" thrift:"37"`
	X18  int64              `json:"x18,omitempty" protobuf:"varint,38,opt,name=x18" thrift:"38"`
	X19  int64              `json:"x19,omitempty" protobuf:"varint,39,opt,name=x19" thrift:"39"`
	X20  int64              `json:"x20,omitempty" protobuf:"varint,40,opt,name=x20" thrift:"40"`
	X21  int64              `json:"x21,omitempty" protobuf:"varint,41,opt,name=x21" thrift:"41"`
	X22  int64              `json:"x22,omitempty" protobuf:"varint,42,opt,name=x22" thrift:"42"`
	X23  int64              `json:"x23,omitempty" protobuf:"varint,43,opt,name=x23" thrift:"43"`
}

type Peer076 struct {
	Back *Rec076   `json:"back,omitempty" protobuf:"bytes,1,opt,name=back" thrift:"1"`
	List []*Rec076 `json:"list,omitempty" protobuf:"bytes,2,rep,name=list" thrift:"2"`
	B    bool      `json:"b" protobuf:"varint,3,opt,name=b" thrift:"3"`
}

type Rec077 struct {
	M    map[string]Peer077 `json:"m,omitempty" protobuf:"bytes,6,rep,name=m" protobuf_key:"bytes,1,opt,name=key" protobuf_val:"bytes,2,opt,name=value" thrift:"6"`
	V    int64              `json:"v" protobuf:"varint,1,opt,name=v" thrift:"1"`
	Next *Rec077            `json:"next,omitempty" protobuf:"bytes,2,opt,name=next" thrift:"2"`
	Kids []Rec077           `json:"kids,omitempty" protobuf:"bytes,3,rep,name=kids" thrift:"3"`
	Peer *Peer077           `json:"peer,omitempty" protobuf:"bytes,4,opt,name=peer" thrift:"4"`
	S    string             `json:"s,omitempty" protobuf:"bytes,5,opt,name=s" thrift:"5"`
	X00  int64              `json:"x0,omitempty" protobuf:"varint,20,opt,name=x0" thrift:"20"`
	X01  int64              `json:"x1,omitempty" protobuf:"varint,21,opt,name=x1" thrift:"21"`
	X02  int64              `json:"x2,omitempty" protobuf:"varint,22,opt,name=x2" thrift:"22"`
	X03  int64              `json:"x3,omitempty" protobuf:"varint,23,opt,name=x3" thrift:"23"`
	X04  int64              `json:"x4,omitempty" protobuf:"varint,24,opt,name=x4" thrift:"24"`
	X05  int64              `json:"x5,omitempty" protobuf:"varint,25,opt,name=x5" thrift:"25"`
	X06  int64              `json:"x6,omitempty" protobuf:"varint,26,opt,name=x6" thrift:"26"`
	X07  int64              `json:"x7,omitempty" protobuf:"varint,27,opt,name=x7" thrift:"27"`
	X08  int64              `json:"x8,omitempty" protobuf:"varint,28,opt,name=x8" thrift:"28"`
	X09  int64              `json:"x9,omitempty" protobuf:"varint,29,opt,name=x9" thrift:"29"`
	X10  int64              `json:"x10,omitempty" protobuf:"varint,30,opt,name=x10" thrift:"30"`
	X11  int64              `json:"x11,omitempty" protobuf:"varint,31,opt,name=x11" thrift:"31"`
	X12  int64              `json:"x12,omitempty" protobuf:"varint,32,opt,name=x12" thrift:"32"`
	X13  int64              `json:"x13,omitempty" protobuf:"varint,33,opt,name=x13" thrift:"33"`
	X14  int64              `json:"x14,omitempty" protobuf:"varint,34,opt,name=x14" thrift:"34"`
	X15  int64              `json:"x15,omitempty" protobuf:"varint,35,opt,name=x15" thrift:"35"`
	X16  int64              `json:"x16,omitempty" protobuf:"varint,36,opt,name=x16" thrift:"36"`
	X17  int64              `json:"x17,omitempty" protobuf:"varint,37,opt,name=x17" thrift:"37"`
	X18  int64              `json:"x18,omitempty" protobuf:"varint,38,opt,name=x18" thrift:"38"`
	X19  int64              `json:"x19,omitempty" protobuf:"varint,39,opt,name=x19" thrift:"39"`
	X20  int64              `json:"x20,omitempty" protobuf:"varint,40,opt,name=x20" thrift:"40"`
	X21  int64              `json:"x21,omitempty" protobuf:"varint,41,opt,name=x21" thrift:"41"`
	X22  int64              `json:"x22,omitempty" protobuf:"varint,42,opt,name=x22" thrift:"42"`
	X23  int64              `json:"x23,omitempty" protobuf:"varint,43,opt,name=x23" thrift:"43"`
}

type Peer077 struct {
	Back *Rec077   `json:"back,omitempty" protobuf:"bytes,1,opt,name=back" thrift:"1"`
	List []*Rec077 `json:"list,omitempty" protobuf:"bytes,2,rep,name=list" thrift:"2"`
	B    bool      `json:"b" protobuf:"varint,3,opt,name=b" thrift:"3"`
}

type Rec078 struct {
	M    map[string]Peer078 `json:"m,omitempty" protobuf:"bytes,6,rep,name=m" protobuf_key:"bytes,1,opt,name=key" protobuf_val:"bytes,2,opt,name=value" thrift:"6"`
	V    int64              `json:"v" protobuf:"varint,1,opt,name=v" thrift:"1"`
	Next *Rec078            `json:"next,omitempty" protobuf:"bytes,2,opt,name=next" thrift:"2"`
	Kids []Rec078           `json:"kids,omitempty" protobuf:"bytes,3,rep,name=kids" thrift:"3"`
	Peer *Peer078           `json:"peer,omitempty" protobuf:"bytes,4,opt,name=peer" thrift:"4"`
	S    string             `json:"s,omitempty" protobuf:"bytes,5,opt,name=s" thrift:"5"`
	X00  int64              `json:"x0,omitempty" protobuf:"varint,20,opt,name=x0" thrift:"20"`
	X01  int64              `json:"x1,omitempty" protobuf:"varint,21,opt,name=x1" thrift:"21"`
	X02  int64              `json:"x2,omitempty" protobuf:"varint,22,opt,name=x2" thrift:"22"`
	X03  int64              `json:"x3,omitempty" protobuf:"varint,23,opt,name=x3" thrift:"23"`
	X04  int64              `json:"x4,omitempty" protobuf:"varint,24,opt,name=x4" thrift:"24"`
	X05  int64              `json:"x5,omitempty" protobuf:"varint,25,opt,name=x5" thrift:"25"`
	X06  int64              `json:"x6,omitempty" protobuf:"varint,26,opt,name=x6" thrift:"26"`
	X07  int64              `json:"x7,omitempty" protobuf:"varint,27,opt,name=x7" thrift:"27"`
	X08  int64              `json:"x8,omitempty" protobuf:"varint,28,opt,name=x8" thrift:"28"`
	X09  int64              `json:"x9,omitempty" protobuf:"varint,29,opt,name=x9" thrift:"29"`
	X10  int64              `json:"x10,omitempty" protobuf:"varint,30,opt,name=x10" thrift:"30"`
	X11  int64              `json:"x11,omitempty" protobuf:"varint,31,opt,name=x11" thrift:"31"`
	X12  int64              `json:"x12,omitempty" protobuf:"varint,32,opt,name=x12" thrift:"32"`
	X13  int64              `json:"x13,omitempty" protobuf:"varint,33,opt,name=x13" thrift:"33"`
	X14  int64              `json:"x14,omitempty" protobuf:"varint,34,opt,name=x14" thrift:"34"`
	X15  int64              `json:"x15,omitempty" protobuf:"varint,35,opt,name=x15" thrift:"35"`
	X16  int64              `json:"x16,omitempty" protobuf:"varint,36,opt,name=x16" thrift:"36"`
	X17  int64              `json:"x17,omitempty" protobuf:"varint,37,opt,name=x17" thrift:"37"`
	X18  int64              `json:"x18,omitempty" protobuf:"varint,38,opt,name=x18" thrift:"38"`
	X19  int64              `json:"x19,omitempty" protobuf:"varint,39,opt,name=x19" thrift:"39"`
	X20  int64              `json:"x20,omitempty" protobuf:"varint,40,opt,name=x20" thrift:"40"`
	X21  int64              `json:"x21,omitempty" protobuf:"varint,41,opt,name=x21" thrift:"41"`
	X22  int64              `json:"x22,omitempty" protobuf:"varint,42,opt,name=x22" thrift:"42"`
	X23  int64              `json:"x23,omitempty" protobuf:"varint,43,opt,name=x23" thrift:"43"`
}

type Peer078 struct {
	Back *Rec078   `json:"back,omitempty" protobuf:"bytes,1,opt,name=back" thrift:"1"`
	List []*Rec078 `json:"list,omitempty" protobuf:"bytes,2,rep,name=list" thrift:"2"`
	B    bool      `json:"b" protobuf:"varint,3,opt,name=b" thrift:"3"`
}

type Rec079 struct {
	M    map[string]Peer079 `json:"m,omitempty" protobuf:"bytes,6,rep,name=m" protobuf_key:"bytes,1,opt,name=key" protobuf_val:"bytes,2,opt,name=value" thrift:"6"`
	V    int64              `json:"v" protobuf:"varint,1,opt,name=v" thrift:"1"`
	Next *Rec079            `json:"next,omitempty" protobuf:"bytes,2,opt,name=next" thrift:"2"`
	Kids []Rec079           `json:"kids,omitempty" protobuf:"bytes,3,rep,name=kids" thrift:"3"`
	Peer *Peer079           `json:"peer,omitempty" protobuf:"bytes,4,opt,name=peer" thrift:"4"`
	S    string             `json:"s,omitempty" protobuf:"bytes,5,opt,name=s" thrift:"5"`
	X00  int64              `json:"x0,omitempty" protobuf:"varint,20,opt,name=x0" thrift:"20"`
	X01  int64              `json:"x1,omitempty" protobuf:"varint,21,opt,name=x1" thrift:"21"`
	X02  int64              `json:"x2,omitempty" protobuf:"varint,22,opt,name=x2" thrift:"22"`
	X03  int64              `json:"x3,omitempty" protobuf:"varint,23,opt,name=x3" thrift:"23"`
	X04  int64              `json:"x4,omitempty" protobuf:"varint,24,opt,name=x4" thrift:"24"`
	X05  int64              `json:"x5,omitempty" protobuf:"varint,25,opt,name=x5" thrift:"25"`
	X06  int64              `json:"x6,omitempty" protobuf:"varint,26,opt,name=x6" thrift:"26"`
	X07  int64              `json:"x7,omitempty" protobuf:"varint,27,opt,name=x7" thrift:"27"`
	X08  int64              `json:"x8,omitempty" protobuf:"varint,28,opt,name=x8" thrift:"28"`
	X09  int64              `json:"x9,omitempty" protobuf:"varint,29,opt,name=x9" thrift:"29"`
	X10  int64              `json:"x10,omitempty" protobuf:"varint,30,opt,name=x10" thrift:"30"`
	X11  int64              `json:"x11,omitempty" protobuf:"varint,31,opt,name=x11" thrift:"31"`
	X12  int64              `json:"x12,omitempty" protobuf:"varint,32,opt,name=x12" thrift:"32"`
	X13  int64              `json:"x13,omitempty" protobuf:"varint,33,opt,name=x13" thrift:"33"`
	X14  int64              `json:"x14,omitempty" protobuf:"varint,34,opt,name=x14" thrift:"34"`
	X15  int64              `json:"x15,omitempty" protobuf:"varint,35,opt,name=x15" thrift:"35"`
	X16  int64              `json:"x16,omitempty" protobuf:"varint,36,opt,name=x16" thrift:"36"`
	X17  int64              `json:"x17,omitempty" protobuf:"varint,37,opt,name=x17" thrift:"37"`
	X18  int64              `json:"x18,omitempty" protobuf:"varint,38,opt,name=x18" thrift:"38"`
	X19  int64              `json:"x19,omitempty" protobuf:"varint,39,opt,name=x19" thrift:"39"`
	X20  int64              `json:"x20,omitempty" protobuf:"varint,40,opt,name=x20" thrift:"40"`
	X21  int64              `json:"x21,omitempty" protobuf:"varint,41,opt,name=x21" thrift:"41"`
	X22  int64              `json:"x22,omitempty" protobuf:"varint,42,opt,name=x22" thrift:"42"`
	X23  int64              `json:"x23,omitempty" protobuf:"varint,43,opt,name=x23" thrift:"43"`
}

type Peer079 struct {
	Back *Rec079   `json:"back,omitempty" protobuf:"bytes,1,opt,name=back" thrift:"1"`
	List []*Rec079 `json:"list,omitempty" protobuf:"bytes,2,rep,name=list" thrift:"2"`
	B    bool      `json:"b" protobuf:"varint,3,opt,name=b" thrift:"3"`
}

type Rec080 struct {
	M    map[string]Peer080 `json:"m,omitempty" protobuf:"bytes,6,rep,name=m" protobuf_key:"bytes,1,opt,name=key" protobuf_val:"bytes,2,opt,name=value" thrift:"6"`
	V    int64              `json:"v" protobuf:"varint,1,opt,name=v" thrift:"1"`
	Next *Rec080            `json:"next,omitempty" protobuf:"bytes,2,opt,name=next" thrift:"2"`
	Kids []Rec080           `json:"kids,omitempty" protobuf:"bytes,3,rep,name=kids" thrift:"3"`
	Peer *Peer080           `json:"peer,omitempty" protobuf:"bytes,4,opt,name=peer" thrift:"4"`
	S    string             `json:"s,omitempty" protobuf:"bytes,5,opt,name=s" thrift:"5"`
	X00  int64              `json:"x0,omitempty" protobuf:"varint,20,opt,name=x0" thrift:"20"`
	X01  int64              `json:"x1,omitempty" protobuf:"varint,21,opt,name=x1" thrift:"21"`
	X02  int64              `json:"x2,omitempty" protobuf:"varint,22,opt,name=x2" thrift:"22"`
	X03  int64              `json:"x3,omitempty" protobuf:"varint,23,opt,name=x3" thrift:"23"`
	X04  int64              `json:"x4,omitempty" protobuf:"varint,24,opt,name=x4" thrift:"24"`
	X05  int64              `json:"x5,omitempty" protobuf:"varint,25,opt,name=x5" thrift:"25"`
	X06  int64              `json:"x6,omitempty" protobuf:"varint,26,opt,name=x6" thrift:"26"`
	X07  int64              `json:"x7,omitempty" protobuf:"varint,27,opt,name=x7" thrift:"27"`
	X08  int64              `json:"x8,omitempty" protobuf:"varint,28,opt,name=x8" thrift:"28"`
	X09  int64              `json:"x9,omitempty" protobuf:"varint,29,opt,name=x9" thrift:"29"`
	X10  int64              `json:"x10,omitempty" protobuf:"varint,30,opt,name=x10" thrift:"30"`
	X11  int64              `json:"x11,omitempty" protobuf:"varint,31,opt,name=x11" thrift:"31"`
	X12  int64              `json:"x12,omitempty" protobuf:"varint,32,opt,name=x12" thrift:"32"`
	X13  int64              `json:"x13,omitempty" protobuf:"varint,33,opt,name=x13" thrift:"33"`
	X14  int64              `json:"x14,omitempty" protobuf:"varint,34,opt,name=x14" thrift:"34"`
	X15  int64              `json:"x15,omitempty" protobuf:"varint,35,opt,name=x15" thrift:"35"`
	X16  int64              `json:"x16,omitempty" protobuf:"varint,36,opt,name=x16" thrift:"36"`
	X17  int64              `json:"x17,omitempty" protobuf:"varint,37,opt,name=x17" thrift:"37"`
	X18  int64              `json:"x18,omitempty" protobuf:"varint,38,opt,name=x18" thrift:"38"`
	X19  int64              `json:"x19,omitempty" protobuf:"varint,39,opt,name=x19" thrift:"39"`
	X20  int64              `json:"x20,omitempty" protobuf:"varint,40,opt,name=x20" thrift:"40"`
	X21  int64              `json:"x21,omitempty" protobuf:"varint,41,opt,name=x21" thrift:"41"`
	X22  int64              `json:"x22,omitempty" protobuf:"varint,42,opt,name=x22" thrift:"42"`
	X23  int64              `json:"x23,omitempty" protobuf:"varint,43,opt,name=x23" thrift:"43"`
}

type Peer080 struct {
	Back *Rec080   `json:"back,omitempty" protobuf:"bytes,1,opt,name=back" thrift:"1"`
	List []*Rec080 `json:"list,omitempty" protobuf:"bytes,2,rep,name=list" thrift:"2"`
	B    bool      `json:"b" protobuf:"varint,3,opt,name=b" thrift:"3"`
}

type Rec081 struct {
	M    map[string]Peer081 `json:"m,omitempty" protobuf:"bytes,6,rep,name=m" protobuf_key:"bytes,1,opt,name=key" protobuf_val:"bytes,2,opt,name=value" thrift:"6"`
	V    int64              `json:"v" protobuf:"varint,1,opt,name=v" thrift:"1"`
	Next *Rec081            `json:"next,omitempty" protobuf:"bytes,2,opt,name=next" thrift:"2"`
	Kids []Rec081           `json:"kids,omitempty" protobuf:"bytes,3,rep,name=kids" thrift:"3"`
	Peer *Peer081           `json:"peer,omitempty" protobuf:"bytes,4,opt,name=peer" thrift:"4"`
	S    string             `json:"s,omitempty" protobuf:"bytes,5,opt,name=s" thrift:"5"`
	X00  int64              `json:"x0,omitempty" protobuf:"varint,20,opt,name=x0" thrift:"20"`
	X01  int64              `json:"x1,omitempty" protobuf:"varint,21,opt,name=x1" thrift:"21"`
	X02  int64              `json:"x2,omitempty" protobuf:"varint,22,opt,name=x2" thrift:"22"`
	X03  int64              `json:"x3,omitempty" protobuf:"varint,23,opt,name=x3" thrift:"23"`
	X04  int64              `json:"x4,omitempty" protobuf:"varint,24,opt,name=x4" thrift:"24"`
	X05  int64              `json:"x5,omitempty" protobuf:"varint,25,opt,name=x5" thrift:"25"`
	X06  int64              `json:"x6,omitempty" protobuf:"varint,26,opt,name=x6" thrift:"26"`
	X07  int64              `json:"x7,omitempty" protobuf:"varint,27,opt,name=x7" thrift:"27"`
	X08  int64              `json:"x8,omitempty" protobuf:"varint,28,opt,name=x8" thrift:"28"`
	X09  int64              `json:"x9,omitempty" protobuf:"varint,29,opt,name=x9" thrift:"29"`
	X10  int64              `json:"x10,omitempty" protobuf:"varint,30,opt,name=x10" thrift:"30"`
	X11  int64              `json:"x11,omitempty" protobuf:"varint,31,opt,name=x11" thrift:"31"`
	X12  int64              `json:"x12,omitempty" protobuf:"varint,32,opt,name=x12" thrift:"32"`
	X13  int64              `json:"x13,omitempty" protobuf:"varint,33,opt,name=x13" thrift:"33"`
	X14  int64              `json:"x14,omitempty" protobuf:"varint,34,opt,name=x14" thrift:"34"`
	X15  int64              `json:"x15,omitempty" protobuf:"varint,35,opt,name=x15" thrift:"35"`
	X16  int64              `json:"x16,omitempty" protobuf:"varint,36,opt,name=x16" thrift:"36"`
	X17  int64              `json:"x17,omitempty" protobuf:"varint,37,opt,name=x17" thrift:"37"`
	X18  int64              `json:"x18,omitempty" protobuf:"varint,38,opt,name=x18" thrift:"38"`
	X19  int64              `json:"x19,omitempty" protobuf:"varint,39,opt,name=x19" thrift:"39"`
	X20  int64              `json:"x20,omitempty" protobuf:"varint,40,opt,name=x20" thrift:"40"`
	X21  int64              `json:"x21,omitempty" protobuf:"varint,41,opt,name=x21" thrift:"41"`
	X22  int64              `json:"x22,omitempty" protobuf:"varint,42,opt,name=x22" thrift:"42"`
	X23  int64              `json:"x23,omitempty" protobuf:"varint,43,opt,name=x23" thrift:"43"`
}

type Peer081 struct {
	Back *Rec081   `json:"back,omitempty" protobuf:"bytes,1,opt,name=back" thrift:"1"`
	List []*Rec081 `json:"list,omitempty" protobuf:"bytes,2,rep,name=list" thrift:"2"`
	B    bool      `json:"b" protobuf:"varint,3,opt,name=b" thrift:"3"`
}

type Rec082 struct {
	M    map[string]Peer082 `json:"m,omitempty" protobuf:"bytes,6,rep,name=m" protobuf_key:"bytes,1,opt,name=key" protobuf_val:"bytes,2,opt,name=value" thrift:"6"`
	V    int64              `json:"v" protobuf:"varint,1,opt,name=v" thrift:"1"`
	Next *Rec082            `json:"next,omitempty" protobuf:"bytes,2,opt,name=next" thrift:"2"`
	Kids []Rec082           `json:"kids,omitempty" protobuf:"bytes,3,rep,name=kids" thrift:"3"`
	Peer *Peer082           `json:"peer,omitempty" protobuf:"bytes,4,opt,name=peer" thrift:"4"`
	S    string             `json:"s,omitempty" protobuf:"bytes,5,opt,name=s" thrift:"5"`
	X00  int64              `json:"x0,omitempty" protobuf:"varint,20,opt,name=x0" thrift:"20"`
	X01  int64              `json:"x1,omitempty" protobuf:"varint,21,opt,name=x1" thrift:"21"`
	X02  int64              `json:"x2,omitempty" protobuf:"varint,22,opt,name=x2" thrift:"22"`
	X03  int64              `json:"x3,omitempty" protobuf:"varint,23,opt,name=x3" thrift:"23"`
	X04  int64              `json:"x4,omitempty" protobuf:"varint,24,opt,name=x4" thrift:"24"`
	X05  int64              `json:"x5,omitempty" protobuf:"varint,25,opt,name=x5" thrift:"25"`
	X06  int64              `json:"x6,omitempty" protobuf:"varint,26,opt,name=x6" thrift:"26"`
	X07  int64              `json:"x7,omitempty" protobuf:"varint,27,opt,name=x7" thrift:"27"`
	X08  int64              `json:"x8,omitempty" protobuf:"varint,28,opt,name=x8" thrift:"28"`
	X09  int64              `json:"x9,omitempty" protobuf:"varint,29,opt,name=x9" thrift:"29"`
	X10  int64              `json:"x10,omitempty" protobuf:"varint,30,opt,name=x10" thrift:"30"`
	X11  int64              `json:"x11,omitempty" protobuf:"varint,31,opt,name=x11" thrift:"31"`
	X12  int64              `json:"x12,omitempty" protobuf:"varint,32,opt,name=x12" thrift:"32"`
	X13  int64              `json:"x13,omitempty" protobuf:"varint,33,opt,name=x13" thrift:"33"`
	X14  int64              `json:"x14,omitempty" protobuf:"varint,34,opt,name=x14" thrift:"34"`
	X15  int64              `json:"x15,omitempty" protobuf:"varint,35,opt,name=x15" thrift:"35"`
	X16  int64              `json:"x16,omitempty" protobuf:"varint,36,opt,name=x16" thrift:"36"`
	X17  int64              `json:"x17,omitempty" protobuf:"varint,37,opt,name=x17" thrift:"37"`
	X18  int64              `json:"x18,omitempty" protobuf:"varint,38,opt,name=x18" thrift:"38"`
	X19  int64              `json:"x19,omitempty" protobuf:"varint,39,opt,name=x19" thrift:"39"`
	X20  int64              `json:"x20,omitempty" protobuf:"varint,40,opt,name=x20" thrift:"40"`
	X21  int64              `json:"x21,omitempty" protobuf:"varint,41,opt,name=x21" thrift:"41"`
	X22  int64              `json:"x22,omitempty" protobuf:"varint,42,opt,name=x22" thrift:"42"`
	X23  int64              `json:"x23,omitempty" protobuf:"varint,43,opt,name=x23" thrift:"43"`
}

type Peer082 struct {
	Back *Rec082   `json:"back,omitempty" protobuf:"bytes,1,opt,name=back" thrift:"1"`
	List []*Rec082 `json:"list,omitempty" protobuf:"bytes,2,rep,name=list" thrift:"2"`
	B    bool      `json:"b" protobuf:"varint,3,opt,name=b" thrift:"3"`
}

type Rec083 struct {
	M    map[string]Peer083 `json:"m,omitempty" protobuf:"bytes,6,rep,name=m" protobuf_key:"bytes,1,opt,name=key" protobuf_val:"bytes,2,opt,name=value" thrift:"6"`
	V    int64              `json:"v" protobuf:"varint,1,opt,name=v" thrift:"1"`
	Next *Rec083            `json:"next,omitempty" protobuf:"bytes,2,opt,name=next" thrift:"2"`
	Kids []Rec083           `json:"kids,omitempty" protobuf:"bytes,3,rep,name=kids" thrift:"3"`
	Peer *Peer083           `json:"peer,omitempty" protobuf:"bytes,4,opt,name=peer" thrift:"4"`
	S    string             `json:"s,omitempty" protobuf:"bytes,5,opt,name=s" thrift:"5"`
	X00  int64              `json:"x0,omitempty" protobuf:"varint,20,opt,name=x0" thrift:"20"`
	X01  int64              `json:"x1,omitempty" protobuf:"varint,21,opt,name=x1" thrift:"21"`
	X02  int64              `json:"x2,omitempty" protobuf:"varint,22,opt,name=x2" thrift:"22"`
	X03  int64              `json:"x3,omitempty" protobuf:"varint,23,opt,name=x3" thrift:"23"`
	X04  int64              `json:"x4,omitempty" protobuf:"varint,24,opt,name=x4" thrift:"24"`
	X05  int64              `json:"x5,omitempty" protobuf:"varint,25,opt,name=x5" thrift:"25"`
	X06  int64              `json:"x6,omitempty" protobuf:"varint,26,opt,name=x6" thrift:"26"`
	X07  int64              `json:"x7,omitempty" protobuf:"varint,27,opt,name=x7" thrift:"27"`
	X08  int64              `json:"x8,omitempty" protobuf:"varint,28,opt,name=x8" thrift:"28"`
	X09  int64              `json:"x9,omitempty" protobuf:"varint,29,opt,name=x9" thrift:"29"`
	X10  int64              `json:"x10,omitempty" protobuf:"varint,30,opt,name=x10" thrift:"30"`
	X11  int64              `json:"x11,omitempty" protobuf:"varint,31,opt,name=x11" thrift:"31"`
	X12  int64              `json:"x12,omitempty" protobuf:"varint,32,opt,name=x12" thrift:"32"`
	X13  int64              `json:"x13,omitempty" protobuf:"varint,33,opt,name=x13" thrift:"33"`
	X14  int64              `json:"x14,omitempty" protobuf:"varint,34,opt,name=x14" thrift:"34"`
	X15  int64              `json:"x15,omitempty" protobuf:"varint,35,opt,name=x15" thrift:"35"`
	X16  int64              `json:"x16,omitempty" protobuf:"varint,36,opt,name=x16" thrift:"36"`
	X17  int64              `json:"x17,omitempty" protobuf:"varint,37,opt,name=x17" thrift:"37"`
	X18  int64              `json:"x18,omitempty" protobuf:"varint,38,opt,name=x18" thrift:"38"`
	X19  int64              `json:"x19,omitempty" protobuf:"varint,39,opt,name=x19" thrift:"39"`
	X20  int64              `json:"x20,omitempty" protobuf:"varint,40,opt,name=x20" thrift:"40"`
	X21  int64              `json:"x21,omitempty" protobuf:"varint,41,opt,name=x21" thrift:"41"`
	X22  int64              `json:"x22,omitempty" protobuf:"varint,42,opt,name=x22" thrift:"42"`
	X23  int64              `json:"x23,omitempty" protobuf:"varint,43,opt,name=x23" thrift:"43"`
}

type Peer083 struct {
	Back *Rec083   `json:"back,omitempty" protobuf:"bytes,1,opt,name=back" thrift:"1"`
	List []*Rec083 `json:"list,omitempty" protobuf:"bytes,2,rep,name=list" thrift:"2"`
	B    bool      `json:"b" protobuf:"varint,3,opt,name=b" thrift:"3"`
}

type Rec084 struct {
	M    map[string]Peer084 `json:"m,omitempty" protobuf:"bytes,6,rep,name=m" protobuf_key:"bytes,1,opt,name=key" protobuf_val:"bytes,2,opt,name=value" thrift:"6"`
	V    int64              `json:"v" protobuf:"varint,1,opt,name=v" thrift:"1"`
	Next *Rec084            `json:"next,omitempty" protobuf:"bytes,2,opt,name=next" thrift:"2"`
	Kids []Rec084           `json:"kids,omitempty" protobuf:"bytes,3,rep,name=kids" thrift:"3"`
	Peer *Peer084           `json:"peer,omitempty" protobuf:"bytes,4,opt,name=peer" thrift:"4"`
	S    string             `json:"s,omitempty" protobuf:"bytes,5,opt,name=s" thrift:"5"`
	X00  int64              `json:"x0,omitempty" protobuf:"varint,20,opt,name=x0" thrift:"20"`
	X01  int64              `json:"x1,omitempty" protobuf:"varint,21,opt,name=x1" thrift:"21"`
	X02  int64              `json:"x2,omitempty" protobuf:"varint,22,opt,name=x2" thrift:"22"`
	X03  int64              `json:"x3,omitempty" protobuf:"varint,23,opt,name=x3" thrift:"23"`
	X04  int64              `json:"x4,omitempty" protobuf:"varint,24,opt,name=x4" thrift:"24"`
	X05  int64              `json:"x5,omitempty" protobuf:"varint,25,opt,name=x5" thrift:"25"`
	X06  int64              `json:"x6,omitempty" protobuf:"varint,26,opt,name=x6" thrift:"26"`
	X07  int64              `json:"x7,omitempty" protobuf:"varint,27,opt,name=x7" thrift:"27"`
	X08  int64              `json:"x8,omitempty" protobuf:"varint,28,opt,name=x8" thrift:"28"`
	X09  int64              `json:"x9,omitempty" protobuf:"varint,29,opt,name=x9" thrift:"29"`
	X10  int64              `json:"x10,omitempty" protobuf:"varint,30,opt,name=x10" thrift:"30"`
	X11  int64              `json:"x11,omitempty" protobuf:"varint,31,opt,name=x11" thrift:"31"`
	X12  int64              `json:"x12,omitempty" protobuf:"varint,32,opt,name=x12" thrift:"32"`
	X13  int64              `json:"x13,omitempty" protobuf:"varint,33,opt,name=x13" thrift:"33"`
	X14  int64              `json:"x14,omitempty" protobuf:"varint,34,opt,name=x14" thrift:"34"`
	X15  int64              `json:"x15,omitempty" protobuf:"varint,35,opt,name=x15" thrift:"35"`
	X16  int64              `json:"x16,omitempty" protobuf:"varint,36,opt,name=x16" thrift:"36"`
	X17  int64              `json:"x17,omitempty" protobuf:"varint,37,opt,name=x17" thrift:"37"`
	X18  int64              `json:"x18,omitempty" protobuf:"varint,38,opt,name=x18" thrift:"38"`
	X19  int64              `json:"x19,omitempty" protobuf:"varint,39,opt,name=x19" thrift:"39"`
	X20  int64              `json:"x20,omitempty" protobuf:"varint,40,opt,name=x20" thrift:"40"`
	X21  int64              `json:"x21,omitempty" protobuf:"varint,41,opt,name=x21" thrift:"41"`
	X22  int64              `json:"x22,omitempty" protobuf:"varint,42,opt,name=x22" thrift:"42"`
	X23  int64              `json:"x23,omitempty" protobuf:"varint,43,opt,name=x23" thrift:"43"`
}

type Peer084 struct {
	Back *Rec084   `json:"back,omitempty" protobuf:"bytes,1,opt,name=back" thrift:"1"`
	List []*Rec084 `json:"list,omitempty" protobuf:"bytes,2,rep,name=list" thrift:"2"`
	B    bool      `json:"b" protobuf:"varint,3,opt,name=b" thrift:"3"`
}

type Rec085 struct {
	M    map[string]Peer085 `json:"m,omitempty" protobuf:"bytes,6,rep,name=m" protobuf_key:"bytes,1,opt,name=key" protobuf_val:"bytes,2,opt,name=value" thrift:"6"`
	V    int64              `json:"v" protobuf:"varint,1,opt,name=v" thrift:"1"`
	Next *Rec085            `json:"next,omitempty" protobuf:"bytes,2,opt,name=next" thrift:"2"`
	Kids []Rec085           `json:"kids,omitempty" protobuf:"bytes,3,rep,name=kids" thrift:"3"`
	Peer *Peer085           `json:"peer,omitempty" protobuf:"bytes,4,opt,name=peer" thrift:"4"`
	S    string             `json:"s,omitempty" protobuf:"bytes,5,opt,name=s" thrift:"5"`
	X00  int64              `json:"x0,omitempty" protobuf:"varint,20,opt,name=x0" thrift:"20"`
	X01  int64              `json:"x1,omitempty" protobuf:"varint,21,opt,name=x1" thrift:"21"`
	X02  int64              `json:"x2,omitempty" protobuf:"varint,22,opt,name=x2" thrift:"22"`
	X03  int64              `json:"x3,omitempty" protobuf:"varint,23,opt,name=x3" thrift:"23"`
	X04  int64              `json:"x4,omitempty" protobuf:"varint,24,opt,name=x4" thrift:"24"`
	X05  int64              `json:"x5,omitempty" protobuf:"varint,25,opt,name=x5" thrift:"25"`
	X06  int64              `json:"x6,omitempty" protobuf:"varint,26,opt,name=x6" thrift:"26"`
	X07  int64              `json:"x7,omitempty" protobuf:"varint,27,opt,name=x7" thrift:"27"`
	X08  int64              `json:"x8,omitempty" protobuf:"varint,28,opt,name=x8" thrift:"28"`
	X09  int64              `json:"x9,omitempty" protobuf:"varint,29,opt,name=x9" thrift:"29"`
	X10  int64              `json:"x10,omitempty" protobuf:"varint,30,opt,name=x10" thrift:"30"`
	X11  int64              `json:"x11,omitempty" protobuf:"varint,31,opt,name=x11" thrift:"31"`
	X12  int64              `json:"x12,omitempty" protobuf:"varint,32,opt,name=x12" thrift:"32"`
	X13  int64              `json:"x13,omitempty" protobuf:"varint,33,opt,name=x13" thrift:"33"`
	X14  int64              `json:"x14,omitempty" protobuf:"varint,34,opt,name=x14" thrift:"34"`
	X15  int64              `json:"x15,omitempty" protobuf:"varint,35,opt,name=x15" thrift:"35"`
	X16  int64              `json:"x16,omitempty" protobuf:"varint,36,opt,name=x16" thrift:"36"`
	X17  int64              `json:"x17,omitempty" protobuf:"varint,37,opt,name=x17" thrift:"37"`
	X18  int64              `json:"x18,omitempty" protobuf:"varint,38,opt,name=x18" thrift:"38"`
	X19  int64              `json:"x19,omitempty" protobuf:"varint,39,opt,name=x19" thrift:"39"`
	X20  int64              `json:"x20,omitempty" protobuf:"varint,40,opt,name=x20" thrift:"40"`
	X21  int64              `json:"x21,omitempty" protobuf:"varint,41,opt,name=x21" thrift:"41"`
	X22  int64              `json:"x22,omitempty" protobuf:"varint,42,opt,name=x22" thrift:"42"`
	X23  int64              `json:"x23,omitempty" protobuf:"varint,43,opt,name=x23" thrift:"43"`
}

type Peer085 struct {
	Back *Rec085   `json:"back,omitempty" protobuf:"bytes,1,opt,name=back" thrift:"1"`
	List []*Rec085 `json:"list,omitempty" protobuf:"bytes,2,rep,name=list" thrift:"2"`
	B    bool      `json:"b" protobuf:"varint,3,opt,name=b" thrift:"3"`
}

type Rec086 struct {
	M    map[string]Peer086 `json:"m,omitempty" protobuf:"bytes,6,rep,name=m" protobuf_key:"bytes,1,opt,name=key" protobuf_val:"bytes,2,opt,name=value" thrift:"6"`
	V    int64              `json:"v" protobuf:"varint,1,opt,name=v" thrift:"1"`
	Next *Rec086            `json:"next,omitempty" protobuf:"bytes,2,opt,name=next" thrift:"2"`
	Kids []Rec086           `json:"kids,omitempty" protobuf:"bytes,3,rep,name=kids" thrift:"3"`
	Peer *Peer086           `json:"peer,omitempty" protobuf:"bytes,4,opt,name=peer" thrift:"4"`
	S    string             `json:"s,omitempty" protobuf:"bytes,5,opt,name=s" thrift:"5"`
	X00  int64              `json:"x0,omitempty" protobuf:"varint,20,opt,name=x0" thrift:"20"`
	X01  int64              `json:"x1,omitempty" protobuf:"varint,21,opt,name=x1" thrift:"21"`
	X02  int64              `json:"x2,omitempty" protobuf:"varint,22,opt,name=x2" thrift:"22"`
	X03  int64              `json:"x3,omitempty" protobuf:"varint,23,opt,name=x3" thrift:"23"`
	X04  int64              `json:"x4,omitempty" protobuf:"varint,24,opt,name=x4" thrift:"24"`
	X05  int64              `json:"x5,omitempty" protobuf:"varint,25,opt,name=x5" thrift:"25"`
	X06  int64              `json:"x6,omitempty" protobuf:"varint,26,opt,name=x6" thrift:"26"`
	X07  int64              `json:"x7,omitempty" protobuf:"varint,27,opt,name=x7" thrift:"27"`
	X08  int64              `json:"x8,omitempty" protobuf:"varint,28,opt,name=x8" thrift:"28"`
	X09  int64              `json:"x9,omitempty" protobuf:"varint,29,opt,name=x9" thrift:"29"`
	X10  int64              `json:"x10,omitempty" protobuf:"varint,30,opt,name=x10" thrift:"30"`
	X11  int64              `json:"x11,omitempty" protobuf:"varint,31,opt,name=x11" thrift:"31"`
	X12  int64              `json:"x12,omitempty" protobuf:"varint,32,opt,name=x12" thrift:"32"`
	X13  int64              `json:"x13,omitempty" protobuf:"varint,33,opt,name=x13" thrift:"33"`
	X14  int64              `json:"x14,omitempty" protobuf:"varint,34,opt,name=x14" thrift:"34"`
	X15  int64              `json:"x15,omitempty" protobuf:"varint,35,opt,name=x15" thrift:"35"`
	X16  int64              `json:"x16,omitempty" protobuf:"varint,36,opt,name=x16" thrift:"36"`
	X17  int64              `json:"x17,omitempty" protobuf:"varint,37,opt,name=x17" thrift:"37"`
	X18  int64              `json:"x18,omitempty" protobuf:"varint,38,opt,name=x18" thrift:"38"`
	X19  int64              `json:"x19,omitempty" protobuf:"varint,39,opt,name=x19" thrift:"39"`
	X20  int64              `json:"x20,omitempty" protobuf:"varint,40,opt,name=x20" thrift:"40"`
	X21  int64              `json:"x21,omitempty" protobuf:"varint,41,opt,name=x21" thrift:"41"`
	X22  int64              `json:"x22,omitempty" protobuf:"varint,42,opt,name=x22" thrift:"42"`
	X23  int64              `json:"x23,omitempty" protobuf:"varint,43,opt,name=x23" thrift:"43"`
}

type Peer086 struct {
	Back *Rec086   `json:"back,omitempty" protobuf:"bytes,1,opt,name=back" thrift:"1"`
	List []*Rec086 `json:"list,omitempty" protobuf:"bytes,2,rep,name=list" thrift:"2"`
	B    bool      `json:"b" protobuf:"varint,3,opt,name=b" thrift:"3"`
}

type Rec087 struct {
	M    map[string]Peer087 `json:"m,omitempty" protobuf:"bytes,6,rep,name=m" protobuf_key:"bytes,1,opt,name=key" protobuf_val:"bytes,2,opt,name=value" thrift:"6"`
	V    int64              `json:"v" protobuf:"varint,1,opt,name=v" thrift:"1"`
	Next *Rec087            `json:"next,omitempty" protobuf:"bytes,2,opt,name=next" thrift:"2"`
	Kids []Rec087           `json:"kids,omitempty" protobuf:"bytes,3,rep,name=kids" thrift:"3"`
	Peer *Peer087           `json:"peer,omitempty" protobuf:"bytes,4,opt,name=peer" thrift:"4"`
	S    string             `json:"s,omitempty" protobuf:"bytes,5,opt,name=s" thrift:"5"`
	X00  int64              `json:"x0,omitempty" protobuf:"varint,20,opt,name=x0" thrift:"20"`
	X01  int64              `json:"x1,omitempty" protobuf:"varint,21,opt,name=x1" thrift:"21"`
	X02  int64              `json:"x2,omitempty" protobuf:"varint,22,opt,name=x2" thrift:"22"`
	X03  int64              `json:"x3,omitempty" protobuf:"varint,23,opt,name=x3" thrift:"23"`
	X04  int64              `json:"x4,omitempty" protobuf:"varint,24,opt,name=x4" thrift:"24"`
	X05  int64              `json:"x5,omitempty" protobuf:"varint,25,opt,name=x5" thrift:"25"`
	X06  int64              `json:"x6,omitempty" protobuf:"varint,26,opt,name=x6" thrift:"26"`
	X07  int64              `json:"x7,omitempty" protobuf:"varint,27,opt,name=x7" thrift:"27"`
	X08  int64              `json:"x8,omitempty" protobuf:"varint,28,opt,name=x8" thrift:"28"`
	X09  int64              `json:"x9,omitempty" protobuf:"varint,29,opt,name=x9" thrift:"29"`
	X10  int64              `json:"x10,omitempty" protobuf:"varint,30,opt,name=x10" thrift:"30"`
	X11  int64              `json:"x11,omitempty" protobuf:"varint,31,opt,name=x11" thrift:"31"`
	X12  int64              `json:"x12,omitempty" protobuf:"varint,32,opt,name=x12" thrift:"32"`
	X13  int64              `json:"x13,omitempty" protobuf:"varint,33,opt,name=x13" thrift:"33"`
	X14  int64              `json:"x14,omitempty" protobuf:"varint,34,opt,name=x14" thrift:"34"`
	X15  int64              `json:"x15,omitempty" protobuf:"varint,35,opt,name=x15" thrift:"35"`
	X16  int64              `json:"x16,omitempty" protobuf:"varint,36,opt,name=x16" thrift:"36"`
	X17  int64              `json:"x17,omitempty" protobuf:"varint,37,opt,name=x17" thrift:"37"`
	X18  int64              `json:"x18,omitempty" protobuf:"varint,38,opt,name=x18" thrift:"38"`
	X19  int64              `json:"x19,omitempty" protobuf:"varint,39,opt,name=x19" thrift:"39"`
	X20  int64              `json:"x20,omitempty" protobuf:"varint,40,opt,name=x20" thrift:"40"`
	X21  int64              `json:"x21,omitempty" protobuf:"varint,41,opt,name=x21" thrift:"41"`
	X22  int64              `json:"x22,omitempty" protobuf:"varint,42,opt,name=x22" thrift:"42"`
	X23  int64              `json:"x23,omitempty" protobuf:"varint,43,opt,name=x23" thrift:"43"`
}

type Peer087 struct {
	Back *Rec087   `json:"back,omitempty" protobuf:"bytes,1,opt,name=back" thrift:"1"`
	List []*Rec087 `json:"list,omitempty" protobuf:"bytes,2,rep,name=list" thrift:"2"`
	B    bool      `json:"b" protobuf:"varint,3,opt,name=b" thrift:"3"`
}

type Rec088 struct {
	M    map[string]Peer088 `json:"m,omitempty" protobuf:"bytes,6,rep,name=m" protobuf_key:"bytes,1,opt,name=key" protobuf_val:"bytes,2,opt,name=value" thrift:"6"`
	V    int64              `json:"v" protobuf:"varint,1,opt,name=v" thrift:"1"`
	Next *Rec088            `json:"next,omitempty" protobuf:"bytes,2,opt,name=next" thrift:"2"`
	Kids []Rec088           `json:"kids,omitempty" protobuf:"bytes,3,rep,name=kids" thrift:"3"`
	Peer *Peer088           `json:"peer,omitempty" protobuf:"bytes,4,opt,name=peer" thrift:"4"`
	S    string             `json:"s,omitempty" protobuf:"bytes,5,opt,name=s" thrift:"5"`
	X00  int64              `json:"x0,omitempty" protobuf:"varint,20,opt,name=x0" thrift:"20"`
	X01  int64              `json:"x1,omitempty" protobuf:"varint,21,opt,name=x1" thrift:"21"`
	X02  int64              `json:"x2,omitempty" protobuf:"varint,22,opt,name=x2" thrift:"22"`
	X03  int64              `json:"x3,omitempty" protobuf:"varint,23,opt,name=x3" thrift:"23"`
	X04  int64              `json:"x4,omitempty" protobuf:"varint,24,opt,name=x4" thrift:"24"`
	X05  int64              `json:"x5,omitempty" protobuf:"varint,25,opt,name=x5" thrift:"25"`
	X06  int64              `json:"x6,omitempty" protobuf:"varint,26,opt,name=x6" thrift:"26"`
	X07  int64              `json:"x7,omitempty" protobuf:"varint,27,opt,name=x7" thrift:"27"`
	X08  int64              `json:"x8,omitempty" protobuf:"varint,28,opt,name=x8" thrift:"28"`
	X09  int64              `json:"x9,omitempty" protobuf:"varint,29,opt,name=x9" thrift:"29"`
	X10  int64              `json:"x10,omitempty" protobuf:"varint,30,opt,name=x10" thrift:"30"`
	X11  int64              `json:"x11,omitempty" protobuf:"varint,31,opt,name=x11" thrift:"31"`
	X12  int64              `json:"x12,omitempty" protobuf:"varint,32,opt,name=x12" thrift:"32"`
	X13  int64              `json:"x13,omitempty" protobuf:"varint,33,opt,name=x13" thrift:"33"`
	X14  int64              `json:"x14,omitempty" protobuf:"varint,34,opt,name=x14" thrift:"34"`
	X15  int64              `json:"x15,omitempty" protobuf:"varint,35,opt,name=x15" thrift:"35"`
	X16  int64              `json:"x16,omitempty" protobuf:"varint,36,opt,name=x16" thrift:"36"`
	X17  int64              `json:"x17,omitempty" protobuf:"varint,37,opt,name=x17" thrift:"37"`
	X18  int64              `json:"x18,omitempty" protobuf:"varint,38,opt,name=x18" thrift:"38"`
	X19  int64              `json:"x19,omitempty" protobuf:"varint,39,opt,name=x19" thrift:"39"`
	X20  int64              `json:"x20,omitempty" protobuf:"varint,40,opt,name=x20" thrift:"40"`
	X21  int64              `json:"x21,omitempty" protobuf:"varint,41,opt,name=x21" thrift:"41"`
	X22  int64              `json:"x22,omitempty" protobuf:"varint,42,opt,name=x22" thrift:"42"`
	X23  int64              `json:"x23,omitempty" protobuf:"varint,43,opt,name=x23" thrift:"43"`
}

type Peer088 struct {
	Back *Rec088   `json:"back,omitempty" protobuf:"bytes,1,opt,name=back" thrift:"1"`
	List []*Rec088 `json:"list,omitempty" protobuf:"bytes,2,rep,name=list" thrift:"2"`
	B    bool      `json:"b" protobuf:"varint,3,opt,name=b" thrift:"3"`
}

type Rec089 struct {
	M    map[string]Peer089 `json:"m,omitempty" protobuf:"bytes,6,rep,name=m" protobuf_key:"bytes,1,opt,name=key" protobuf_val:"bytes,2,opt,name=value" thrift:"6"`
	V    int64              `json:"v" protobuf:"varint,1,opt,name=v" thrift:"1"`
	Next *Rec089            `json:"next,omitempty" protobuf:"bytes,2,opt,name=next" thrift:"2"`
	Kids []Rec089           `json:"kids,omitempty" protobuf:"bytes,3,rep,name=kids" thrift:"3"`
	Peer *Peer089           `json:"peer,omitempty" protobuf:"bytes,4,opt,name=peer" thrift:"4"`
	S    string             `json:"s,omitempty" protobuf:"bytes,5,opt,name=s" thrift:"5"`
	X00  int64              `json:"x0,omitempty" protobuf:"varint,20,opt,name=x0" thrift:"20"`
	X01  int64              `json:"x1,omitempty" protobuf:"varint,21,opt,name=x1" thrift:"21"`
	X02  int64              `json:"x2,omitempty" protobuf:"varint,22,opt,name=x2" thrift:"22"`
	X03  int64              `json:"x3,omitempty" protobuf:"varint,23,opt,name=x3" thrift:"23"`
	X04  int64              `json:"x4,omitempty" protobuf:"varint,24,opt,name=x4" thrift:"24"`
	X05  int64              `json:"x5,omitempty" protobuf:"varint,25,opt,name=x5" thrift:"25"`
	X06  int64              `json:"x6,omitempty" protobuf:"varint,26,opt,name=x6" thrift:"26"`
	X07  int64              `json:"x7,omitempty" protobuf:"varint,27,opt,name=x7" thrift:"27"`
	X08  int64              `json:"x8,omitempty" protobuf:"varint,28,opt,name=x8" thrift:"28"`
	X09  int64              `json:"x9,omitempty" protobuf:"varint,29,opt,name=x9" thrift:"29"`
	X10  int64              `json:"x10,omitempty" protobuf:"varint,30,opt,name=x10" thrift:"30"`
	X11  int64              `json:"x11,omitempty" protobuf:"varint,31,opt,name=x11" thrift:"31"`
	X12  int64              `json:"x12,omitempty" protobuf:"varint,32,opt,name=x12" thrift:"32"`
	X13  int64              `json:"x13,omitempty" protobuf:"varint,33,opt,name=x13" thrift:"33"`
	X14  int64              `json:"x14,omitempty" protobuf:"varint,34,opt,name=x14" thrift:"34"`
	X15  int64              `json:"x15,omitempty" protobuf:"varint,35,opt,name=x15" thrift:"35"`
	X16  int64              `json:"x16,omitempty" protobuf:"varint,36,opt,name=x16" thrift:"36"`
	X17  int64              `json:"x17,omitempty" protobuf:"varint,37,opt,name=x17" thrift:"37"`
	X18  int64              `json:"x18,omitempty" protobuf:"varint,38,opt,name=x18" thrift:"38"`
	X19  int64              `json:"x19,omitempty" protobuf:"varint,39,opt,name=x19" thrift:"39"`
	X20  int64              `json:"x20,omitempty" protobuf:"varint,40,opt,name=x20" thrift:"40"`
	X21  int64              `json:"x21,omitempty" protobuf:"varint,41,opt,name=x21" thrift:"41"`
	X22  int64              `json:"x22,omitempty" protobuf:"varint,42,opt,name=x22" thrift:"42"`
	X23  int64              `json:"x23,omitempty" protobuf:"varint,43,opt,name=x23" thrift:"43"`
}

type Peer089 struct {
	Back *Rec089   `json:"back,omitempty" protobuf:"bytes,1,opt,name=back" thrift:"1"`
	List []*Rec089 `json:"list,omitempty" protobuf:"bytes,2,rep,name=list" thrift:"2"`
	B    bool      `json:"b" protobuf:"varint,3,opt,name=b" thrift:"3"`
}

type Rec090 struct {
	M    map[string]Peer090 `json:"m,omitempty" protobuf:"bytes,6,rep,name=m" protobuf_key:"bytes,1,opt,name=key" protobuf_val:"bytes,2,opt,name=value" thrift:"6"`
	V    int64              `json:"v" protobuf:"varint,1,opt,name=v" thrift:"1"`
	Next *Rec090            `json:"next,omitempty" protobuf:"bytes,2,opt,name=next" thrift:"2"`
	Kids []Rec090           `json:"kids,omitempty" protobuf:"bytes,3,rep,name=kids" thrift:"3"`
	Peer *Peer090           `json:"peer,omitempty" protobuf:"bytes,4,opt,name=peer" thrift:"4"`
	S    string             `json:"s,omitempty" protobuf:"bytes,5,opt,name=s" thrift:"5"`
	X00  int64              `json:"x0,omitempty" protobuf:"varint,20,opt,name=x0" thrift:"20"`
	X01  int64              `json:"x1,omitempty" protobuf:"varint,21,opt,name=x1" thrift:"21"`
	X02  int64              `json:"x2,omitempty" protobuf:"varint,22,opt,name=x2" thrift:"22"`
	X03  int64              `json:"x3,omitempty" protobuf:"varint,23,opt,name=x3" thrift:"23"`
	X04  int64              `json:"x4,omitempty" protobuf:"varint,24,opt,name=x4" thrift:"24"`
	X05  int64              `json:"x5,omitempty" protobuf:"varint,25,opt,name=x5" thrift:"25"`
	X06  int64              `json:"x6,omitempty" protobuf:"varint,26,opt,name=x6" thrift:"26"`
	X07  int64              `json:"x7,omitempty" protobuf:"varint,27,opt,name=x7" thrift:"27"`
	X08  int64              `json:"x8,omitempty" protobuf:"varint,28,opt,name=x8" thrift:"28"`
	X09  int64              `json:"x9,omitempty" protobuf:"varint,29,opt,name=x9" thrift:"29"`
	X10  int64              `json:"x10,omitempty" protobuf:"varint,30,opt,name=x10" thrift:"30"`
	X11  int64              `json:"x11,omitempty" protobuf:"varint,31,opt,name=x11" thrift:"31"`
	X12  int64              `json:"x12,omitempty" protobuf:"varint,32,opt,name=x12" thrift:"32"`
	X13  int64              `json:"x13,omitempty" protobuf:"varint,33,opt,name=x13" thrift:"33"`
	X14  int64              `json:"x14,omitempty" protobuf:"varint,34,opt,name=x14" thrift:"34"`
	X15  int64              `json:"x15,omitempty" protobuf:"varint,35,opt,name=x15" thrift:"35"`
	X16  int64              `json:"x16,omitempty" protobuf:"varint,36,opt,name=x16" thrift:"36"`
	X17  int64              `json:"x17,omitempty" protobuf:"varint,37,opt,name=x17" thrift:"37"`
	X18  int64              `json:"x18,omitempty" protobuf:"varint,38,opt,name=x18" thrift:"38"`
	X19  int64              `json:"x19,omitempty" protobuf:"varint,39,opt,name=x19" thrift:"39"`
	X20  int64              `json:"x20,omitempty" protobuf:"varint,40,opt,name=x20" thrift:"40"`
	X21  int64              `json:"x21,omitempty" protobuf:"varint,41,opt,name=x21" thrift:"41"`
	X22  int64              `json:"x22,omitempty" protobuf:"varint,42,opt,name=x22" thrift:"42"`
	X23  int64              `json:"x23,omitempty" protobuf:"varint,43,opt,name=x23" thrift:"43"`
}

type Peer090 struct {
	Back *Rec090   `json:"back,omitempty" protobuf:"bytes,1,opt,name=back" thrift:"1"`
	List []*Rec090 `json:"list,omitempty" protobuf:"bytes,2,rep,name=list" thrift:"2"`
	B    bool      `json:"b" protobuf:"varint,3,opt,name=b" thrift:"3"`
}

type Rec091 struct {
	M    map[string]Peer091 `json:"m,omitempty" protobuf:"bytes,6,rep,name=m" protobuf_key:"bytes,1,opt,name=key" protobuf_val:"bytes,2,opt,name=value" thrift:"6"`
	V    int64              `json:"v" protobuf:"varint,1,opt,name=v" thrift:"1"`
	Next *Rec091            `json:"next,omitempty" protobuf:"bytes,2,opt,name=next" thrift:"2"`
	Kids []Rec091           `json:"kids,omitempty" protobuf:"bytes,3,rep,name=kids" thrift:"3"`
	Peer *Peer091           `json:"peer,omitempty" protobuf:"bytes,4,opt,name=peer" thrift:"4"`
	S    string             `json:"s,omitempty" protobuf:"bytes,5,opt,name=s" thrift:"5"`
	X00  int64              `json:"x0,omitempty" protobuf:"varint,20,opt,name=x0" thrift:"20"`
	X01  int64              `json:"x1,omitempty" protobuf:"varint,21,opt,name=x1" thrift:"21"`
	X02  int64              `json:"x2,omitempty" protobuf:"varint,22,opt,name=x2" thrift:"22"`
	X03  int64              `json:"x3,omitempty" protobuf:"varint,23,opt,name=x3" thrift:"23"`
	X04  int64              `json:"x4,omitempty" protobuf:"varint,24,opt,name=x4" thrift:"24"`
	X05  int64              `json:"x5,omitempty" protobuf:"varint,25,opt,name=x5" thrift:"25"`
	X06  int64              `json:"x6,omitempty" protobuf:"varint,26,opt,name=x6" thrift:"26"`
	X07  int64              `json:"x7,omitempty" protobuf:"varint,27,opt,name=x7" thrift:"27"`
	X08  int64              `json:"x8,omitempty" protobuf:"varint,28,opt,name=x8" thrift:"28"`
	X09  int64              `json:"x9,omitempty" protobuf:"varint,29,opt,name=x9" thrift:"29"`
	X10  int64              `json:"x10,omitempty" protobuf:"varint,30,opt,name=x10" thrift:"30"`
	X11  int64              `json:"x11,omitempty" protobuf:"varint,31,opt,name=x11" thrift:"31"`
	X12  int64              `json:"x12,omitempty" protobuf:"varint,32,opt,name=x12" thrift:"32"`
	X13  int64              `json:"x13,omitempty" protobuf:"varint,33,opt,name=x13" thrift:"33"`
	X14  int64              `json:"x14,omitempty" protobuf:"varint,34,opt,name=x14" thrift:"34"`
	X15  int64              `json:"x15,omitempty" protobuf:"varint,35,opt,name=x15" thrift:"35"`
	X16  int64              `json:"x16,omitempty" protobuf:"varint,36,opt,name=x16" thrift:"36"`
	X17  int64              `json:"x17,omitempty" protobuf:"varint,37,opt,name=x17" thrift:"37"`
	X18  int64              `json:"x18,omitempty" protobuf:"varint,38,opt,name=x18" thrift:"38"`
	X19  int64              `json:"x19,omitempty" protobuf:"varint,39,opt,name=x19" thrift:"39"`
	X20  int64              `json:"x20,omitempty" protobuf:"varint,40,opt,name=x20" thrift:"40"`
	X21  int64              `json:"x21,omitempty" protobuf:"varint,41,opt,name=x21" thrift:"41"`
	X22  int64              `json:"x22,omitempty" protobuf:"varint,42,opt,name=x22" thrift:"42"`
	X23  int64              `json:"x23,omitempty" protobuf:"varint,43,opt,name=x23" thrift:"43"`
}

type Peer091 struct {
	Back *Rec091   `json:"back,omitempty" protobuf:"bytes,1,opt,name=back" thrift:"1"`
	List []*Rec091 `json:"list,omitempty" protobuf:"bytes,2,rep,name=list" thrift:"2"`
	B    bool      `json:"b" protobuf:"varint,3,opt,name=b" thrift:"3"`
}

type Rec092 struct {
	M    map[string]Peer092 `json:"m,omitempty" protobuf:"bytes,6,rep,name=m" protobuf_key:"bytes,1,opt,name=key" protobuf_val:"bytes,2,opt,name=value" thrift:"6"`
	V    int64              `json:"v" protobuf:"varint,1,opt,name=v" thrift:"1"`
	Next *Rec092            `json:"next,omitempty" protobuf:"bytes,2,opt,name=next" thrift:"2"`
	Kids []Rec092           `json:"kids,omitempty" protobuf:"bytes,3,rep,name=kids" thrift:"3"`
	Peer *Peer092           `json:"peer,omitempty" protobuf:"bytes,4,opt,name=peer" thrift:"4"`
	S    string             `json:"s,omitempty" protobuf:"bytes,5,opt,name=s" thrift:"5"`
	X00  int64              `json:"x0,omitempty" protobuf:"varint,20,opt,name=x0" thrift:"20"`
	X01  int64              `json:"x1,omitempty" protobuf:"varint,21,opt,name=x1" thrift:"21"`
	X02  int64              `json:"x2,omitempty" protobuf:"varint,22,opt,name=x2" thrift:"22"`
	X03  int64              `json:"x3,omitempty" protobuf:"varint,23,opt,name=x3" thrift:"23"`
	X04  int64              `json:"x4,omitempty" protobuf:"varint,24,opt,name=x4" thrift:"24"`
	X05  int64              `json:"x5,omitempty" protobuf:"varint,25,opt,name=x5" thrift:"25"`
	X06  int64              `json:"x6,omitempty" protobuf:"varint,26,opt,name=x6" thrift:"26"`
	X07  int64              `json:"x7,omitempty" protobuf:"varint,27,opt,name=x7" thrift:"27"`
	X08  int64              `json:"x8,omitempty" protobuf:"varint,28,opt,name=x8" thrift:"28"`
	X09  int64              `json:"x9,omitempty" protobuf:"varint,29,opt,name=x9" thrift:"29"`
	X10  int64              `json:"x10,omitempty" protobuf:"varint,30,opt,name=x10" thrift:"30"`
	X11  int64              `json:"x11,omitempty" protobuf:"varint,31,opt,name=x11" thrift:"31"`
	X12  int64              `json:"x12,omitempty" protobuf:"varint,32,opt,name=x12" thrift:"32"`
	X13  int64              `json:"x13,omitempty" protobuf:"varint,33,opt,name=x13" thrift:"33"`
	X14  int64              `json:"x14,omitempty" protobuf:"varint,34,opt,name=x14" thrift:"34"`
	X15  int64              `json:"x15,omitempty" protobuf:"varint,35,opt,name=x15" thrift:"35"`
	X16  int64              `json:"x16,omitempty" protobuf:"varint,36,opt,name=x16" thrift:"36"`
	X17  int64              `json:"x17,omitempty" protobuf:"varint,37,opt,name=x17" thrift:"37"`
	X18  int64              `json:"x18,omitempty" protobuf:"varint,38,opt,name=x18" thrift:"38"`
	X19  int64              `json:"x19,omitempty" protobuf:"varint,39,opt,name=x19" thrift:"39"`
	X20  int64              `json:"x20,omitempty" protobuf:"varint,40,opt,name=x20" thrift:"40"`
	X21  int64              `json:"x21,omitempty" protobuf:"varint,41,opt,name=x21" thrift:"41"`
	X22  int64              `json:"x22,omitempty" protobuf:"varint,42,opt,name=x22" thrift:"42"`
	X23  int64              `json:"x23,omitempty" protobuf:"varint,43,opt,name=x23" thrift:"43"`
}

type Peer092 struct {
	Back *Rec092   `json:"back,omitempty" protobuf:"bytes,1,opt,name=back" thrift:"1"`
	List []*Rec092 `json:"list,omitempty" protobuf:"bytes,2,rep,name=list" thrift:"2"`
	B    bool      `json:"b" protobuf:"varint,3,opt,name=b" thrift:"3"`
}

type Rec093 struct {
	M    map[string]Peer093 `json:"m,omitempty" protobuf:"bytes,6,rep,name=m" protobuf_key:"bytes,1,opt,name=key" protobuf_val:"bytes,2,opt,name=value" thrift:"6"`
	V    int64              `json:"v" protobuf:"varint,1,opt,name=v" thrift:"1"`
	Next *Rec093            `json:"next,omitempty" protobuf:"bytes,2,opt,name=next" thrift:"2"`
	Kids []Rec093           `json:"kids,omitempty" protobuf:"bytes,3,rep,name=kids" thrift:"3"`
	Peer *Peer093           `json:"peer,omitempty" protobuf:"bytes,4,opt,name=peer" thrift:"4"`
	S    string             `json:"s,omitempty" protobuf:"bytes,5,opt,name=s" thrift:"5"`
	X00  int64              `json:"x0,omitempty" protobuf:"varint,20,opt,name=x0" thrift:"20"`
	X01  int64              `json:"x1,omitempty" protobuf:"varint,21,opt,name=x1" thrift:"21"`
	X02  int64              `json:"x2,omitempty" protobuf:"varint,22,opt,name=x2" thrift:"22"`
	X03  int64              `json:"x3,omitempty" protobuf:"varint,23,opt,name=x3" thrift:"23"`
	X04  int64              `json:"x4,omitempty" protobuf:"varint,24,opt,name=x4" thrift:"24"`
	X05  int64              `json:"x5,omitempty" protobuf:"varint,25,opt,name=x5" thrift:"25"`
	X06  int64              `json:"x6,omitempty" protobuf:"varint,26,opt,name=x6" thrift:"26"`
	X07  int64              `json:"x7,omitempty" protobuf:"varint,27,opt,name=x7" thrift:"27"`
	X08  int64              `json:"x8,omitempty" protobuf:"varint,28,opt,name=x8" thrift:"28"`
	X09  int64              `json:"x9,omitempty" protobuf:"varint,29,opt,name=x9" thrift:"29"`
	X10  int64              `json:"x10,omitempty" protobuf:"varint,30,opt,name=x10" thrift:"30"`
	X11  int64              `json:"x11,omitempty" protobuf:"varint,31,opt,name=x11" thrift:"31"`
	X12  int64              `json:"x12,omitempty" protobuf:"varint,32,opt,name=x12" thrift:"32"`
	X13  int64              `json:"x13,omitempty" protobuf:"varint,33,opt,name=x13" thrift:"33"`
	X14  int64              `json:"x14,omitempty" protobuf:"varint,34,opt,name=x14" thrift:"34"`
	X15  int64              `json:"x15,omitempty" protobuf:"varint,35,opt,name=x15" thrift:"35"`
	X16  int64              `json:"x16,omitempty" protobuf:"varint,36,opt,name=x16" thrift:"36"`
	X17  int64              `json:"x17,omitempty" protobuf:"varint,37,opt,name=x17" thrift:"37"`
	X18  int64              `json:"x18,omitempty" protobuf:"varint,38,opt,name=x18" thrift:"38"`
	X19  int64              `json:"x19,omitempty" protobuf:"varint,39,opt,name=x19" thrift:"39"`
	X20  int64              `json:"x20,omitempty" protobuf:"varint,40,opt,name=x20" thrift:"40"`
	X21  int64              `json:"x21,omitempty" protobuf:"varint,41,opt,name=x21" thrift:"41"`
	X22  int64              `json:"x22,omitempty" protobuf:"varint,42,opt,name=x22" thrift:"42"`
	X23  int64              `json:"x23,omitempty" protobuf:"varint,43,opt,name=x23" thrift:"43"`
}

type Peer093 struct {
	Back *Rec093   `json:"back,omitempty" protobuf:"bytes,1,opt,name=back" thrift:"1"`
	List []*Rec093 `json:"list,omitempty" protobuf:"bytes,2,rep,name=list" thrift:"2"`
	B    bool      `json:"b" protobuf:"varint,3,opt,name=b" thrift:"3"`
}

type Rec094 struct {
	M    map[string]Peer094 `json:"m,omitempty" protobuf:"bytes,6,rep,name=m" protobuf_key:"bytes,1,opt,name=key" protobuf_val:"bytes,2,opt,name=value" thrift:"6"`
	V    int64              `json:"v" protobuf:"varint,1,opt,name=v" thrift:"1"`
	Next *Rec094            `json:"next,omitempty" protobuf:"bytes,2,opt,name=next" thrift:"2"`
	Kids []Rec094           `json:"kids,omitempty" protobuf:"bytes,3,rep,name=kids" thrift:"3"`
	Peer *Peer094           `json:"peer,omitempty" protobuf:"bytes,4,opt,name=peer" thrift:"4"`
	S    string             `json:"s,omitempty" protobuf:"bytes,5,opt,name=s" thrift:"5"`
	X00  int64              `json:"x0,omitempty" protobuf:"varint,20,opt,name=x0" thrift:"20"`
	X01  int64              `json:"x1,omitempty" protobuf:"varint,21,opt,name=x1" thrift:"21"`
	X02  int64              `json:"x2,omitempty" protobuf:"varint,22,opt,name=x2" thrift:"22"`
	X03  int64              `json:"x3,omitempty" protobuf:"varint,23,opt,name=x3" thrift:"23"`
	X04  int64              `json:"x4,omitempty" protobuf:"varint,24,opt,name=x4" thrift:"24"`
	X05  int64              `json:"x5,omitempty" protobuf:"varint,25,opt,name=x5" thrift:"25"`
	X06  int64              `json:"x6,omitempty" protobuf:"varint,26,opt,name=x6" thrift:"26"`
	X07  int64              `json:"x7,omitempty" protobuf:"varint,27,opt,name=x7" thrift:"27"`
	X08  int64              `json:"x8,omitempty" protobuf:"varint,28,opt,name=x8" thrift:"28"`
	X09  int64              `json:"x9,omitempty" protobuf:"varint,29,opt,name=x9" thrift:"29"`
	X10  int64              `json:"x10,omitempty" protobuf:"varint,30,opt,name=x10" thrift:"30"`
	X11  int64              `json:"x11,omitempty" protobuf:"varint,31,opt,name=x11" thrift:"31"`
	X12  int64              `json:"x12,omitempty" protobuf:"varint,32,opt,name=x12" thrift:"32"`
	X13  int64              `json:"x13,omitempty" protobuf:"varint,33,opt,name=x13" thrift:"33"`
	X14  int64              `json:"x14,omitempty" protobuf:"varint,34,opt,name=x14" thrift:"34"`
	X15  int64              `json:"x15,omitempty" protobuf:"varint,35,opt,name=x15" thrift:"35"`
	X16  int64              `json:"x16,omitempty" protobuf:"varint,36,opt,name=x16" thrift:"36"`
	X17  int64              `json:"x17,omitempty" protobuf:"varint,37,opt,name=x17" thrift:"37"`
	X18  int64              `json:"x18,omitempty" protobuf:"varint,38,opt,name=x18" thrift:"38"`
	X19  int64              `json:"x19,omitempty" protobuf:"varint,39,opt,name=x19" thrift:"39"`
	X20  int64              `json:"x20,omitempty" protobuf:"varint,40,opt,name=x20" thrift:"40"`
	X21  int64              `json:"x21,omitempty" protobuf:"varint,41,opt,name=x21" thrift:"41"`
	X22  int64              `json:"x22,omitempty" protobuf:"varint,42,opt,name=x22" thrift:"42"`
	X23  int64              `json:"x23,omitempty" protobuf:"varint,43,opt,name=x23" thrift:"43"`
}

type Peer094 struct {
	Back *Rec094   `json:"back,omitempty" protobuf:"bytes,1,opt,name=back" thrift:"1"`
	List []*Rec094 `json:"list,omitempty" protobuf:"bytes,2,rep,name=list" thrift:"2"`
	B    bool      `json:"b" protobuf:"varint,3,opt,name=b" thrift:"3"`
}

type Rec095 struct {
	M    map[string]Peer095 `json:"m,omitempty" protobuf:"bytes,6,rep,name=m" protobuf_key:"bytes,1,opt,name=key" protobuf_val:"bytes,2,opt,name=value" thrift:"6"`
	V    int64              `json:"v" protobuf:"varint,1,opt,name=v" thrift:"1"`
	Next *Rec095            `json:"next,omitempty" protobuf:"bytes,2,opt,name=next" thrift:"2"`
	Kids []Rec095           `json:"kids,omitempty" protobuf:"bytes,3,rep,name=kids" thrift:"3"`
	Peer *Peer095           `json:"peer,omitempty" protobuf:"bytes,4,opt,name=peer" thrift:"4"`
	S    string             `json:"s,omitempty" protobuf:"bytes,5,opt,name=s" thrift:"5"`
	X00  int64              `json:"x0,omitempty" protobuf:"varint,20,opt,name=x0" thrift:"20"`
	X01  int64              `json:"x1,omitempty" protobuf:"varint,21,opt,name=x1" thrift:"21"`
	X02  int64              `json:"x2,omitempty" protobuf:"varint,22,opt,name=x2" thrift:"22"`
	X03  int64              `json:"x3,omitempty" protobuf:"varint,23,opt,name=x3" thrift:"23"`
	X04  int64              `json:"x4,omitempty" protobuf:"varint,24,opt,name=x4" thrift:"24"`
	X05  int64              `json:"x5,omitempty" protobuf:"varint,25,opt,name=x5" thrift:"25"`
	X06  int64              `json:"x6,omitempty" protobuf:"varint,26,opt,name=x6" thrift:"26"`
	X07  int64              `json:"x7,omitempty" protobuf:"varint,27,opt,name=x7" thrift:"27"`
	X08  int64              `json:"x8,omitempty" protobuf:"varint,28,opt,name=x8" thrift:"28"`
	X09  int64              `json:"x9,omitempty" protobuf:"varint,29,opt,name=x9" thrift:"29"`
	X10  int64              `json:"x10,omitempty" protobuf:"varint,30,opt,name=x10" thrift:"30"`
	X11  int64              `json:"x11,omitempty" protobuf:"varint,31,opt,name=x11" thrift:"31"`
	X12  int64              `json:"x12,omitempty" protobuf:"varint,32,opt,name=x12" thrift:"32"`
	X13  int64              `json:"x13,omitempty" protobuf:"varint,33,opt,name=x13" thrift:"33"`
	X14  int64              `json:"x14,omitempty" protobuf:"varint,34,opt,name=x14" thrift:"34"`
	X15  int64              `json:"x15,omitempty" protobuf:"varint,35,opt,name=x15" thrift:"35"`
	X16  int64              `json:"x16,omitempty" protobuf:"varint,36,opt,name=x16" thrift:"36"`
	X17  int64              `json:"x17,omitempty" protobuf:"varint,37,opt,name=x17" thrift:"37"`
	X18  int64              `json:"x18,omitempty" protobuf:"varint,38,opt,name=x18" thrift:"38"`
	X19  int64              `json:"x19,omitempty" protobuf:"varint,39,opt,name=x19" thrift:"39"`
	X20  int64              `json:"x20,omitempty" protobuf:"varint,40,opt,name=x20" thrift:"40"`
	X21  int64              `json:"x21,omitempty" protobuf:"varint,41,opt,name=x21" thrift:"41"`
	X22  int64              `json:"x22,omitempty" protobuf:"varint,42,opt,name=x22" thrift:"42"`
	X23  int64              `json:"x23,omitempty" protobuf:"varint,43,opt,name=x23" thrift:"43"`
}

type Peer095 struct {
	Back *Rec095   `json:"back,omitempty" protobuf:"bytes,1,opt,name=back" thrift:"1"`
	List []*Rec095 `json:"list,omitempty" protobuf:"bytes,2,rep,name=list" thrift:"2"`
	B    bool      `json:"b" protobuf:"varint,3,opt,name=b" thrift:"3"`
}

type Rec096 struct {
	M    map[string]Peer096 `json:"m,omitempty" protobuf:"bytes,6,rep,name=m" protobuf_key:"bytes,1,opt,name=key" protobuf_val:"bytes,2,opt,name=value" thrift:"6"`
	V    int64              `json:"v" protobuf:"varint,1,opt,name=v" thrift:"1"`
	Next *Rec096            `json:"next,omitempty" protobuf:"bytes,2,opt,name=next" thrift:"2"`
	Kids []Rec096           `json:"kids,omitempty" protobuf:"bytes,3,rep,name=kids" thrift:"3"`
	Peer *Peer096           `json:"peer,omitempty" protobuf:"bytes,4,opt,name=peer" thrift:"4"`
	S    string             `json:"s,omitempty" protobuf:"bytes,5,opt,name=s" thrift:"5"`
	X00  int64              `json:"x0,omitempty" protobuf:"varint,20,opt,name=x0" thrift:"20"`
	X01  int64              `json:"x1,omitempty" protobuf:"varint,21,opt,name=x1" thrift:"21"`
	X02  int64              `json:"x2,omitempty" protobuf:"varint,22,opt,name=x2" thrift:"22"`
	X03  int64              `json:"x3,omitempty" protobuf:"varint,23,opt,name=x3" thrift:"23"`
	X04  int64              `json:"x4,omitempty" protobuf:"varint,24,opt,name=x4" thrift:"24"`
	X05  int64              `json:"x5,omitempty" protobuf:"varint,25,opt,name=x5" thrift:"25"`
	X06  int64              `json:"x6,omitempty" protobuf:"varint,26,opt,name=x6" thrift:"26"`
	X07  int64              `json:"x7,omitempty" protobuf:"varint,27,opt,name=x7" thrift:"27"`
	X08  int64              `json:"x8,omitempty" protobuf:"varint,28,opt,name=x8" thrift:"28"`
	X09  int64              `json:"x9,omitempty" protobuf:"varint,29,opt,name=x9" thrift:"29"`
	X10  int64              `json:"x10,omitempty" protobuf:"varint,30,opt,name=x10" thrift:"30"`
	X11  int64              `json:"x11,omitempty" protobuf:"varint,31,opt,name=x11" thrift:"31"`
	X12  int64              `json:"x12,omitempty" protobuf:"varint,32,opt,name=x12" thrift:"32"`
	X13  int64              `json:"x13,omitempty" protobuf:"varint,33,opt,name=x13" thrift:"33"`
	X14  int64              `json:"x14,omitempty" protobuf:"varint,34,opt,name=x14" thrift:"34"`
	X15  int64              `json:"x15,omitempty" protobuf:"varint,35,opt,name=x15" thrift:"35"`
	X16  int64              `json:"x16,omitempty" protobuf:"varint,36,opt,name=x16" thrift:"36"`
	X17  int64              `json:"x17,omitempty" protobuf:"varint,37,opt,name=x17" thrift:"37"`
	X18  int64              `json:"x18,omitempty" protobuf:"varint,38,opt,name=x18" thrift:"38"`
	X19  int64              `json:"x19,omitempty" protobuf:"varint,39,opt,name=x19" thrift:"39"`
	X20  int64              `json:"x20,omitempty" protobuf:"varint,40,opt,name=x20" thrift:"40"`
	X21  int64              `json:"x21,omitempty" protobuf:"varint,41,opt,name=x21" thrift:"41"`
	X22  int64              `json:"x22,omitempty" protobuf:"varint,42,opt,name=x22" thrift:"42"`
	X23  int64              `json:"x23,omitempty" protobuf:"varint,43,opt,name=x23" thrift:"43"`
}

type Peer096 struct {
	Back *Rec096   `json:"back,omitempty" protobuf:"bytes,1,opt,name=back" thrift:"1"`
	List []*Rec096 `json:"list,omitempty" protobuf:"bytes,2,rep,name=list" thrift:"2"`
	B    bool      `json:"b" protobuf:"varint,3,opt,name=b" thrift:"3"`
}

type Rec097 struct {
	M    map[string]Peer097 `json:"m,omitempty" protobuf:"bytes,6,rep,name=m" protobuf_key:"bytes,1,opt,name=key" protobuf_val:"bytes,2,opt,name=value" thrift:"6"`
	V    int64              `json:"v" protobuf:"varint,1,opt,name=v" thrift:"1"`
	Next *Rec097            `json:"next,omitempty" protobuf:"bytes,2,opt,name=next" thrift:"2"`
	Kids []Rec097           `json:"kids,omitempty" protobuf:"bytes,3,rep,name=kids" thrift:"3"`
	Peer *Peer097           `json:"peer,omitempty" protobuf:"bytes,4,opt,name=peer" thrift:"4"`
	S    string             `json:"s,omitempty" protobuf:"bytes,5,opt,name=s" thrift:"5"`
	X00  int64              `json:"x0,omitempty" protobuf:"varint,20,opt,name=x0" thrift:"20"`
	X01  int64              `json:"x1,omitempty" protobuf:"varint,21,opt,name=x1" thrift:"21"`
	X02  int64              `json:"x2,omitempty" protobuf:"varint,22,opt,name=x2" thrift:"22"`
	X03  int64              `json:"x3,omitempty" protobuf:"varint,23,opt,name=x3" thrift:"23"`
	X04  int64              `json:"x4,omitempty" protobuf:"varint,24,opt,name=x4" thrift:"24"`
	X05  int64              `json:"x5,omitempty" protobuf:"varint,25,opt,name=x5" thrift:"25"`
	X06  int64              `json:"x6,omitempty" protobuf:"varint,26,opt,name=x6" thrift:"26"`
	X07  int64              `json:"x7,omitempty" protobuf:"varint,27,opt,name=x7" thrift:"27"`
	X08  int64              `json:"x8,omitempty" protobuf:"varint,28,opt,name=x8" thrift:"28"`
	X09  int64              `json:"x9,omitempty" protobuf:"varint,29,opt,name=x9" thrift:"29"`
	X10  int64              `json:"x10,omitempty" protobuf:"varint,30,opt,name=x10" thrift:"30"`
	X11  int64              `json:"x11,omitempty" protobuf:"varint,31,opt,name=x11" thrift:"31"`
	X12  int64              `json:"x12,omitempty" protobuf:"varint,32,opt,name=x12" thrift:"32"`
	X13  int64              `json:"x13,omitempty" protobuf:"varint,33,opt,name=x13" thrift:"33"`
	X14  int64              `json:"x14,omitempty" protobuf:"varint,34,opt,name=x14" thrift:"34"`
	X15  int64              `json:"x15,omitempty" protobuf:"varint,35,opt,name=x15" thrift:"35"`
	X16  int64              `json:"x16,omitempty" protobuf:"varint,36,opt,name=x16" thrift:"36"`
	X17  int64              `json:"x17,omitempty" protobuf:"varint,37,opt,name=x17" thrift:"37"`
	X18  int64              `json:"x18,omitempty" protobuf:"varint,38,opt,name=x18" thrift:"38"`
	X19  int64              `json:"x19,omitempty" protobuf:"varint,39,opt,name=x19" thrift:"39"`
	X20  int64              `json:"x20,omitempty" protobuf:"varint,40,opt,name=x20" thrift:"40"`
	X21  int64              `json:"x21,omitempty" protobuf:"varint,41,opt,name=x21" thrift:"41"`
	X22  int64              `json:"x22,omitempty" protobuf:"varint,42,opt,name=x22" thrift:"42"`
	X23  int64              `json:"x23,omitempty" protobuf:"varint,43,opt,name=x23" thrift:"43"`
}

type Peer097 struct {
	Back *Rec097   `json:"back,omitempty" protobuf:"bytes,1,opt,name=back" thrift:"1"`
	List []*Rec097 `json:"list,omitempty" protobuf:"bytes,2,rep,name=list" thrift:"2"`
	B    bool      `json:"b" protobuf:"varint,3,opt,name=b" thrift:"3"`
}

type Rec098 struct {
	M    map[string]Peer098 `json:"m,omitempty" protobuf:"bytes,6,rep,name=m" protobuf_key:"bytes,1,opt,name=key" protobuf_val:"bytes,2,opt,name=value" thrift:"6"`
	V    int64              `json:"v" protobuf:"varint,1,opt,name=v" thrift:"1"`
	Next *Rec098            `json:"next,omitempty" protobuf:"bytes,2,opt,name=next" thrift:"2"`
	Kids []Rec098           `json:"kids,omitempty" protobuf:"bytes,3,rep,name=kids" thrift:"3"`
	Peer *Peer098           `json:"peer,omitempty" protobuf:"bytes,4,opt,name=peer" thrift:"4"`
	S    string             `json:"s,omitempty" protobuf:"bytes,5,opt,name=s" thrift:"5"`
	X00  int64              `json:"x0,omitempty" protobuf:"varint,20,opt,name=x0" thrift:"20"`
	X01  int64              `json:"x1,omitempty" protobuf:"varint,21,opt,name=x1" thrift:"21"`
	X02  int64              `json:"x2,omitempty" protobuf:"varint,22,opt,name=x2" thrift:"22"`
	X03  int64              `json:"x3,omitempty" protobuf:"varint,23,opt,name=x3" thrift:"23"`
	X04  int64              `json:"x4,omitempty" protobuf:"varint,24,opt,name=x4" thrift:"24"`
	X05  int64              `json:"x5,omitempty" protobuf:"varint,25,opt,name=x5" thrift:"25"`
	X06  int64              `json:"x6,omitempty" protobuf:"varint,26,opt,name=x6" thrift:"26"`
	X07  int64              `json:"x7,omitempty" protobuf:"varint,27,opt,name=x7" thrift:"27"`
	X08  int64              `json:"x8,omitempty" protobuf:"varint,28,opt,name=x8" thrift:"28"`
	X09  int64              `json:"x9,omitempty" protobuf:"varint,29,opt,name=x9" thrift:"29"`
	X10  int64              `json:"x10,omitempty" protobuf:"varint,30,opt,name=x10" thrift:"30"`
	X11  int64              `json:"x11,omitempty" protobuf:"varint,31,opt,name=x11" thrift:"31"`
	X12  int64              `json:"x12,omitempty" protobuf:"varint,32,opt,name=x12" thrift:"32"`
	X13  int64              `json:"x13,omitempty" protobuf:"varint,33,opt,name=x13" thrift:"33"`
	X14  int64              `json:"x14,omitempty" protobuf:"varint,34,opt,name=x14" thrift:"34"`
	X15  int64              `json:"x15,omitempty" protobuf:"varint,35,opt,name=x15" thrift:"35"`
	X16  int64              `json:"x16,omitempty" protobuf:"varint,36,opt,name=x16" thrift:"36"`
	X17  int64              `json:"x17,omitempty" protobuf:"varint,37,opt,name=x17" thrift:"37"`
	X18  int64              `json:"x18,omitempty" protobuf:"varint,38,opt,name=x18" thrift:"38"`
	X19  int64              `json:"x19,omitempty" protobuf:"varint,39,opt,name=x19" thrift:"39"`
	X20  int64              `json:"x20,omitempty" protobuf:"varint,40,opt,name=x20" thrift:"40"`
	X21  int64              `json:"x21,omitempty" protobuf:"varint,41,opt,name=x21" thrift:"41"`
	X22  int64              `json:"x22,omitempty" protobuf:"varint,42,opt,name=x22" thrift:"42"`
	X23  int64              `json:"x23,omitempty" protobuf:"varint,43,opt,name=x23" thrift:"43"`
}

type Peer098 struct {
	Back *Rec098   `json:"back,omitempty" protobuf:"bytes,1,opt,name=back" thrift:"1"`
	List []*Rec098 `json:"list,omitempty" protobuf:"bytes,2,rep,name=list" thrift:"2"`
	B    bool      `json:"b" protobuf:"varint,3,opt,name=b" thrift:"3"`
}

type Rec099 struct {
	M    map[string]Peer099 `json:"m,omitempty" protobuf:"bytes,6,rep,name=m" protobuf_key:"bytes,1,opt,name=key" protobuf_val:"bytes,2,opt,name=value" thrift:"6"`
	V    int64              `json:"v" protobuf:"varint,1,opt,name=v" thrift:"1"`
	Next *Rec099            `json:"next,omitempty" protobuf:"bytes,2,opt,name=next" thrift:"2"`
	Kids []Rec099           `json:"kids,omitempty" protobuf:"bytes,3,rep,name=kids" thrift:"3"`
	Peer *Peer099           `json:"peer,omitempty" protobuf:"bytes,4,opt,name=peer" thrift:"4"`
	S    string             `json:"s,omitempty" protobuf:"bytes,5,opt,name=s" thrift:"5"`
	X00  int64              `json:"x0,omitempty" protobuf:"varint,20,opt,name=x0" thrift:"20"`
	X01  int64              `json:"x1,omitempty" protobuf:"varint,21,opt,name=x1" thrift:"21"`
	X02  int64              `json:"x2,omitempty" protobuf:"varint,22,opt,name=x2" thrift:"22"`
	X03  int64              `json:"x3,omitempty" protobuf:"varint,23,opt,name=x3" thrift:"23"`
	X04  int64              `json:"x4,omitempty" protobuf:"varint,24,opt,name=x4" thrift:"24"`
	X05  int64              `json:"x5,omitempty" protobuf:"varint,25,opt,name=x5" thrift:"25"`
	X06  int64              `json:"x6,omitempty" protobuf:"varint,26,opt,name=x6" thrift:"26"`
	X07  int64              `json:"x7,omitempty" protobuf:"varint,27,opt,name=x7" thrift:"27"`
	X08  int64              `json:"x8,omitempty" protobuf:"varint,28,opt,name=x8" thrift:"28"`
	X09  int64              `json:"x9,omitempty" protobuf:"varint,29,opt,name=x9" thrift:"29"`
	X10  int64              `json:"x10,omitempty" protobuf:"varint,30,opt,name=x10" thrift:"30"`
	X11  int64              `json:"x11,omitempty" protobuf:"varint,31,opt,name=x11" thrift:"31"`
	X12  int64              `json:"x12,omitempty" protobuf:"varint,32,opt,name=x12" thrift:"32"`
	X13  int64              `json:"x13,omitempty" protobuf:"varint,33,opt,name=x13" thrift:"33"`
	X14  int64              `json:"x14,omitempty" protobuf:"varint,34,opt,name=x14" thrift:"34"`
	X15  int64              `json:"x15,omitempty" protobuf:"varint,35,opt,name=x15" thrift:"35"`
	X16  int64              `json:"x16,omitempty" protobuf:"varint,36,opt,name=x16" thrift:"36"`
	X17  int64              `json:"x17,omitempty" protobuf:"varint,37,opt,name=x17" thrift:"37"`
	X18  int64              `json:"x18,omitempty" protobuf:"varint,38,opt,name=x18" thrift:"38"`
	X19  int64              `json:"x19,omitempty" protobuf:"varint,39,opt,name=x19" thrift:"39"`
	X20  int64              `json:"x20,omitempty" protobuf:"varint,40,opt,name=x20" thrift:"40"`
	X21  int64              `json:"x21,omitempty" protobuf:"varint,41,opt,name=x21" thrift:"41"`
	X22  int64              `json:"x22,omitempty" protobuf:"varint,42,opt,name=x22" thrift:"42"`
	X23  int64              `json:"x23,omitempty" protobuf:"varint,43,opt,name=x23" thrift:"43"`
}

type Peer099 struct {
	Back *Rec099   `json:"back,omitempty" protobuf:"bytes,1,opt,name=back" thrift:"1"`
	List []*Rec099 `json:"list,omitempty" protobuf:"bytes,2,rep,name=list" thrift:"2"`
	B    bool      `json:"b" protobuf:"varint,3,opt,name=b" thrift:"3"`
}

type Rec100 struct {
	M    map[string]Peer100 `json:"m,omitempty" protobuf:"bytes,6,rep,name=m" protobuf_key:"bytes,1,opt,name=key" protobuf_val:"bytes,2,opt,name=value" thrift:"6"`
	V    int64              `json:"v" protobuf:"varint,1,opt,name=v" thrift:"1"`
	Next *Rec100            `json:"next,omitempty" protobuf:"bytes,2,opt,name=next" thrift:"2"`
	Kids []Rec100           `json:"kids,omitempty" protobuf:"bytes,3,rep,name=kids" thrift:"3"`
	Peer *Peer100           `json:"peer,omitempty" protobuf:"bytes,4,opt,name=peer" thrift:"4"`
	S    string             `json:"s,omitempty" protobuf:"bytes,5,opt,name=s" thrift:"5"`
	X00  int64              `json:"x0,omitempty" protobuf:"varint,20,opt,name=x0" thrift:"20"`
	X01  int64              `json:"x1,omitempty" protobuf:"varint,21,opt,name=x1" thrift:"21"`
	X02  int64              `json:"x2,omitempty" protobuf:"varint,22,opt,name=x2" thrift:"22"`
	X03  int64              `json:"x3,omitempty" protobuf:"varint,23,opt,name=x3" thrift:"23"`
	X04  int64              `json:"x4,omitempty" protobuf:"varint,24,opt,name=x4" thrift:"24"`
	X05  int64              `json:"x5,omitempty" protobuf:"varint,25,opt,name=x5" thrift:"25"`
	X06  int64              `json:"x6,omitempty" protobuf:"varint,26,opt,name=x6" thrift:"26"`
	X07  int64              `json:"x7,omitempty" protobuf:"varint,27,opt,name=x7" thrift:"27"`
	X08  int64              `json:"x8,omitempty" protobuf:"varint,28,opt,name=x8" thrift:"28"`
	X09  int64              `json:"x9,omitempty" protobuf:"varint,29,opt,name=x9" thrift:"29"`
	X10  int64              `json:"x10,omitempty" protobuf:"varint,30,opt,name=x10" thrift:"30"`
	X11  int64              `json:"x11,omitempty" protobuf:"varint,31,opt,name=x11" thrift:"31"`
	X12  int64              `json:"x12,omitempty" protobuf:"varint,32,opt,name=x12" thrift:"32"`
	X13  int64              `json:"x13,omitempty" protobuf:"varint,33,opt,name=x13" thrift:"33"`
	X14  int64              `json:"x14,omitempty" protobuf:"varint,34,opt,name=x14" thrift:"34"`
	X15  int64              `json:"x15,omitempty" protobuf:"varint,35,opt,name=x15" thrift:"35"`
	X16  int64              `json:"x16,omitempty" protobuf:"varint,36,opt,name=x16" thrift:"36"`
	X17  int64              `json:"x17,omitempty" protobuf:"varint,37,opt,name=x17" thrift:"37"`
	X18  int64              `json:"x18,omitempty" protobuf:"varint,38,opt,name=x18" thrift:"38"`
	X19  int64              `json:"x19,omitempty" protobuf:"varint,39,opt,name=x19" thrift:"39"`
	X20  int64              `json:"x20,omitempty" protobuf:"varint,40,opt,name=x20" thrift:"40"`
	X21  int64              `json:"x21,omitempty" protobuf:"varint,41,opt,name=x21" thrift:"41"`
	X22  int64              `json:"x22,omitempty" protobuf:"varint,42,opt,name=x22" thrift:"42"`
	X23  int64              `json:"x23,omitempty" protobuf:"varint,43,opt,name=x23" thrift:"43"`
}

type Peer100 struct {
	Back *Rec100   `json:"back,omitempty" protobuf:"bytes,1,opt,name=back" thrift:"1"`
	List []*Rec100 `json:"list,omitempty" protobuf:"bytes,2,rep,name=list" thrift:"2"`
	B    bool      `json:"b" protobuf:"varint,3,opt,name=b" thrift:"3"`
}

type Rec101 struct {
	M    map[string]Peer101 `json:"m,omitempty" protobuf:"bytes,6,rep,name=m" protobuf_key:"bytes,1,opt,name=key" protobuf_val:"bytes,2,opt,name=value" thrift:"6"`
	V    int64              `json:"v" protobuf:"varint,1,opt,name=v" thrift:"1"`
	Next *Rec101            `json:"next,omitempty" protobuf:"bytes,2,opt,name=next" thrift:"2"`
	Kids []Rec101           `json:"kids,omitempty" protobuf:"bytes,3,rep,name=kids" thrift:"3"`
	Peer *Peer101           `json:"peer,omitempty" protobuf:"bytes,4,opt,name=peer" thrift:"4"`
	S    string             `json:"s,omitempty" protobuf:"bytes,5,opt,name=s" thrift:"5"`
	X00  int64              `json:"x0,omitempty" protobuf:"varint,20,opt,name=x0" thrift:"20"`
	X01  int64              `json:"x1,omitempty" protobuf:"varint,21,opt,name=x1" thrift:"21"`
	X02  int64              `json:"x2,omitempty" protobuf:"varint,22,opt,name=x2" thrift:"22"`
	X03  int64              `json:"x3,omitempty" protobuf:"varint,23,opt,name=x3" thrift:"23"`
	X04  int64              `json:"x4,omitempty" protobuf:"varint,24,opt,name=x4" thrift:"24"`
	X05  int64              `json:"x5,omitempty" protobuf:"varint,25,opt,name=x5" thrift:"25"`
	X06  int64              `json:"x6,omitempty" protobuf:"varint,26,opt,name=x6" thrift:"26"`
	X07  int64              `json:"x7,omitempty" protobuf:"varint,27,opt,name=x7" thrift:"27"`
	X08  int64              `json:"x8,omitempty" protobuf:"varint,28,opt,name=x8" thrift:"28"`
	X09  int64              `json:"x9,omitempty" protobuf:"varint,29,opt,name=x9" thrift:"29"`
	X10  int64              `json:"x10,omitempty" protobuf:"varint,30,opt,name=x10" thrift:"30"`
	X11  int64              `json:"x11,omitempty" protobuf:"varint,31,opt,name=x11" thrift:"31"`
	X12  int64              `json:"x12,omitempty" protobuf:"varint,32,opt,name=x12" thrift:"32"`
	X13  int64              `json:"x13,omitempty" protobuf:"varint,33,opt,name=x13" thrift:"33"`
	X14  int64              `json:"x14,omitempty" protobuf:"varint,34,opt,name=x14" thrift:"34"`
	X15  int64              `json:"x15,omitempty" protobuf:"varint,35,opt,name=x15" thrift:"35"`
	X16  int64              `json:"x16,omitempty" protobuf:"varint,36,opt,name=x16" thrift:"36"`
	X17  int64              `json:"x17,omitempty" protobuf:"varint,37,opt,name=x17" thrift:"37"`
	X18  int64              `json:"x18,omitempty" protobuf:"varint,38,opt,name=x18" thrift:"38"`
	X19  int64              `json:"x19,omitempty" protobuf:"varint,39,opt,name=x19" thrift:"39"`
	X20  int64              `json:"x20,omitempty" protobuf:"varint,40,opt,name=x20" thrift:"40"`
	X21  int64              `json:"x21,omitempty" protobuf:"varint,41,opt,name=x21" thrift:"41"`
	X22  int64              `json:"x22,omitempty" protobuf:"varint,42,opt,name=x22" thrift:"42"`
	X23  int64              `json:"x23,omitempty" protobuf:"varint,43,opt,name=x23" thrift:"43"`
}

type Peer101 struct {
	Back *Rec101   `json:"back,omitempty" protobuf:"bytes,1,opt,name=back" thrift:"1"`
	List []*Rec101 `json:"list,omitempty" protobuf:"bytes,2,rep,name=list" thrift:"2"`
	B    bool      `json:"b" protobuf:"varint,3,opt,name=b" thrift:"3"`
}

type Rec102 struct {
	M    map[string]Peer102 `json:"m,omitempty" protobuf:"bytes,6,rep,name=m" protobuf_key:"bytes,1,opt,name=key" protobuf_val:"bytes,2,opt,name=value" thrift:"6"`
	V    int64              `json:"v" protobuf:"varint,1,opt,name=v" thrift:"1"`
	Next *Rec102            `json:"next,omitempty" protobuf:"bytes,2,opt,name=next" thrift:"2"`
	Kids []Rec102           `json:"kids,omitempty" protobuf:"bytes,3,rep,name=kids" thrift:"3"`
	Peer *Peer102           `json:"peer,omitempty" protobuf:"bytes,4,opt,name=peer" thrift:"4"`
	S    string             `json:"s,omitempty" protobuf:"bytes,5,opt,name=s" thrift:"5"`
	X00  int64              `json:"x0,omitempty" protobuf:"varint,20,opt,name=x0" thrift:"20"`
	X01  int64              `json:"x1,omitempty" protobuf:"varint,21,opt,name=x1" thrift:"21"`
	X02  int64              `json:"x2,omitempty" protobuf:"varint,22,opt,name=x2" thrift:"22"`
	X03  int64              `json:"x3,omitempty" protobuf:"varint,23,opt,name=x3" thrift:"23"`
	X04  int64              `json:"x4,omitempty" protobuf:"varint,24,opt,name=x4" thrift:"24"`
	X05  int64              `json:"x5,omitempty" protobuf:"varint,25,opt,name=x5" thrift:"25"`
	X06  int64              `json:"x6,omitempty" protobuf:"varint,26,opt,name=x6" thrift:"26"`
	X07  int64              `json:"x7,omitempty" protobuf:"varint,27,opt,name=x7" thrift:"27"`
	X08  int64              `json:"x8,omitempty" protobuf:"varint,28,opt,name=x8" thrift:"28"`
	X09  int64              `json:"x9,omitempty" protobuf:"varint,29,opt,name=x9" thrift:"29"`
	X10  int64              `json:"x10,omitempty" protobuf:"varint,30,opt,name=x10" thrift:"30"`
	X11  int64              `json:"x11,omitempty" protobuf:"varint,31,opt,name=x11" thrift:"31"`
	X12  int64              `json:"x12,omitempty" protobuf:"varint,32,opt,name=x12" thrift:"32"`
	X13  int64              `json:"x13,omitempty" protobuf:"varint,33,opt,name=x13" thrift:"33"`
	X14  int64              `json:"x14,omitempty" protobuf:"varint,34,opt,name=x14" thrift:"34"`
	X15  int64              `json:"x15,omitempty" protobuf:"varint,35,opt,name=x15" thrift:"35"`
	X16  int64              `json:"x16,omitempty" protobuf:"varint,36,opt,name=x16" thrift:"36"`
	X17  int64              `json:"x17,omitempty" protobuf:"varint,37,opt,name=x17" thrift:"37"`
	X18  int64              `json:"x18,omitempty" protobuf:"varint,38,opt,name=x18" thrift:"38"`
	X19  int64              `json:"x19,omitempty" protobuf:"varint,39,opt,name=x19" thrift:"39"`
	X20  int64              `json:"x20,omitempty" protobuf:"varint,40,opt,name=x20" thrift:"40"`
	X21  int64              `json:"x21,omitempty" protobuf:"varint,41,opt,name=x21" thrift:"41"`
	X22  int64              `json:"x22,omitempty" protobuf:"varint,42,opt,name=x22" thrift:"42"`
	X23  int64              `json:"x23,omitempty" protobuf:"varint,43,opt,name=x23" thrift:"43"`
}

type Peer102 struct {
	Back *Rec102   `json:"back,omitempty" protobuf:"bytes,1,opt,name=back" thrift:"1"`
	List []*Rec102 `json:"list,omitempty" protobuf:"bytes,2,rep,name=list" thrift:"2"`
	B    bool      `json:"b" protobuf:"varint,3,opt,name=b" thrift:"3"`
}

type Rec103 struct {
	M    map[string]Peer103 `json:"m,omitempty" protobuf:"bytes,6,rep,name=m" protobuf_key:"bytes,1,opt,name=key" protobuf_val:"bytes,2,opt,name=value" thrift:"6"`
	V    int64              `json:"v" protobuf:"varint,1,opt,name=v" thrift:"1"`
	Next *Rec103            `json:"next,omitempty" protobuf:"bytes,2,opt,name=next" thrift:"2"`
	Kids []Rec103           `json:"kids,omitempty" protobuf:"bytes,3,rep,name=kids" thrift:"3"`
	Peer *Peer103           `json:"peer,omitempty" protobuf:"bytes,4,opt,name=peer" thrift:"4"`
	S    string             `json:"s,omitempty" protobuf:"bytes,5,opt,name=s" thrift:"5"`
	X00  int64              `json:"x0,omitempty" protobuf:"varint,20,opt,name=x0" thrift:"20"`
	X01  int64              `json:"x1,omitempty" protobuf:"varint,21,opt,name=x1" thrift:"21"`
	X02  int64              `json:"x2,omitempty" protobuf:"varint,22,opt,name=x2" thrift:"22"`
	X03  int64              `json:"x3,omitempty" protobuf:"varint,23,opt,name=x3" thrift:"23"`
	X04  int64              `json:"x4,omitempty" protobuf:"varint,24,opt,name=x4" thrift:"24"`
	X05  int64              `json:"x5,omitempty" protobuf:"varint,25,opt,name=x5" thrift:"25"`
	X06  int64              `json:"x6,omitempty" protobuf:"varint,26,opt,name=x6" thrift:"26"`
	X07  int64              `json:"x7,omitempty" protobuf:"varint,27,opt,name=x7" thrift:"27"`
	X08  int64              `json:"x8,omitempty" protobuf:"varint,28,opt,name=x8" thrift:"28"`
	X09  int64              `json:"x9,omitempty" protobuf:"varint,29,opt,name=x9" thrift:"29"`
	X10  int64              `json:"x10,omitempty" protobuf:"varint,30,opt,name=x10" thrift:"30"`
	X11  int64              `json:"x11,omitempty" protobuf:"varint,31,opt,name=x11" thrift:"31"`
	X12  int64              `json:"x12,omitempty" protobuf:"varint,32,opt,name=x12" thrift:"32"`
	X13  int64              `json:"x13,omitempty" protobuf:"varint,33,opt,name=x13" thrift:"33"`
	X14  int64              `json:"x14,omitempty" protobuf:"varint,34,opt,name=x14" thrift:"34"`
	X15  int64              `json:"x15,omitempty" protobuf:"varint,35,opt,name=x15" thrift:"35"`
	X16  int64              `json:"x16,omitempty" protobuf:"varint,36,opt,name=x16" thrift:"36"`
	X17  int64              `json:"x17,omitempty" protobuf:"varint,37,opt,name=x17" thrift:"37"`
	X18  int64              `json:"x18,omitempty" protobuf:"varint,38,opt,name=x18" thrift:"38"`
	X19  int64              `json:"x19,omitempty" protobuf:"varint,39,opt,name=x19" thrift:"39"`
	X20  int64              `json:"x20,omitempty" protobuf:"varint,40,opt,name=x20" thrift:"40"`
	X21  int64              `json:"x21,omitempty" protobuf:"varint,41,opt,name=x21" thrift:"41"`
	X22  int64              `json:"x22,omitempty" protobuf:"varint,42,opt,name=x22" thrift:"42"`
	X23  int64              `json:"x23,omitempty" protobuf:"varint,43,opt,name=x23" thrift:"43"`
}

type Peer103 struct {
	Back *Rec103   `json:"back,omitempty" protobuf:"bytes,1,opt,name=back" thrift:"1"`
	List []*Rec103 `json:"list,omitempty" protobuf:"bytes,2,rep,name=list" thrift:"2"`
	B    bool      `json:"b" protobuf:"varint,3,opt,name=b" thrift:"3"`
}

type Rec104 struct {
	M    map[string]Peer104 `json:"m,omitempty" protobuf:"bytes,6,rep,name=m" protobuf_key:"bytes,1,opt,name=key" protobuf_val:"bytes,2,opt,name=value" thrift:"6"`
	V    int64              `json:"v" protobuf:"varint,1,opt,name=v" thrift:"1"`
	Next *Rec104            `json:"next,omitempty" protobuf:"bytes,2,opt,name=next" thrift:"2"`
	Kids []Rec104           `json:"kids,omitempty" protobuf:"bytes,3,rep,name=kids" thrift:"3"`
	Peer *Peer104           `json:"peer,omitempty" protobuf:"bytes,4,opt,name=peer" thrift:"4"`
	S    string             `json:"s,omitempty" protobuf:"bytes,5,opt,name=s" thrift:"5"`
	X00  int64              `json:"x0,omitempty" protobuf:"varint,20,opt,name=x0" thrift:"20"`
	X01  int64              `json:"x1,omitempty" protobuf:"varint,21,opt,name=x1" thrift:"21"`
	X02  int64              `json:"x2,omitempty" protobuf:"varint,22,opt,name=x2" thrift:"22"`
	X03  int64              `json:"x3,omitempty" protobuf:"varint,23,opt,name=x3" thrift:"23"`
	X04  int64              `json:"x4,omitempty" protobuf:"varint,24,opt,name=x4" thrift:"24"`
	X05  int64              `json:"x5,omitempty" protobuf:"varint,25,opt,name=x5" thrift:"25"`
	X06  int64              `json:"x6,omitempty" protobuf:"varint,26,opt,name=x6" thrift:"26"`
	X07  int64              `json:"x7,omitempty" protobuf:"varint,27,opt,name=x7" thrift:"27"`
	X08  int64              `json:"x8,omitempty" protobuf:"varint,28,opt,name=x8" thrift:"28"`
	X09  int64              `json:"x9,omitempty" protobuf:"varint,29,opt,name=x9" thrift:"29"`
	X10  int64              `json:"x10,omitempty" protobuf:"varint,30,opt,name=x10" thrift:"30"`
	X11  int64              `json:"x11,omitempty" protobuf:"varint,31,opt,name=x11" thrift:"31"`
	X12  int64              `json:"x12,omitempty" protobuf:"varint,32,opt,name=x12" thrift:"32"`
	X13  int64              `json:"x13,omitempty" protobuf:"varint,33,opt,name=x13" thrift:"33"`
	X14  int64              `json:"x14,omitempty" protobuf:"varint,34,opt,name=x14" thrift:"34"`
	X15  int64              `json:"x15,omitempty" protobuf:"varint,35,opt,name=x15" thrift:"35"`
	X16  int64              `json:"x16,omitempty" protobuf:"varint,36,opt,name=x16" thrift:"36"`
	X17  int64              `json:"x17,omitempty" protobuf:"varint,37,opt,name=x17" thrift:"37"`
	X18  int64              `json:"x18,omitempty" protobuf:"varint,38,opt,name=x18" thrift:"38"`
	X19  int64              `json:"x19,omitempty" protobuf:"varint,39,opt,name=x19" thrift:"39"`
	X20  int64              `json:"x20,omitempty" protobuf:"varint,40,opt,name=x20" thrift:"40"`
	X21  int64              `json:"x21,omitempty" protobuf:"varint,41,opt,name=x21" thrift:"41"`
	X22  int64              `json:"x22,omitempty" protobuf:"varint,42,opt,name=x22" thrift:"42"`
	X23  int64              `json:"x23,omitempty" protobuf:"varint,43,opt,name=x23" thrift:"43"`
}

type Peer104 struct {
	Back *Rec104   `json:"back,omitempty" protobuf:"bytes,1,opt,name=back" thrift:"1"`
	List []*Rec104 `json:"list,omitempty" protobuf:"bytes,2,rep,name=list" thrift:"2"`
	B    bool      `json:"b" protobuf:"varint,3,opt,name=b" thrift:"3"`
}

type Rec105 struct {
	M    map[string]Peer105 `json:"m,omitempty" protobuf:"bytes,6,rep,name=m" protobuf_key:"bytes,1,opt,name=key" protobuf_val:"bytes,2,opt,name=value" thrift:"6"`
	V    int64              `json:"v" protobuf:"varint,1,opt,name=v" thrift:"1"`
	Next *Rec105            `json:"next,omitempty" protobuf:"bytes,2,opt,name=next" thrift:"2"`
	Kids []Rec105           `json:"kids,omitempty" protobuf:"bytes,3,rep,name=kids" thrift:"3"`
	Peer *Peer105           `json:"peer,omitempty" protobuf:"bytes,4,opt,name=peer" thrift:"4"`
	S    string             `json:"s,omitempty" protobuf:"bytes,5,opt,name=s" thrift:"5"`
	X00  int64              `json:"x0,omitempty" protobuf:"varint,20,opt,name=x0" thrift:"20"`
	X01  int64              `json:"x1,omitempty" protobuf:"varint,21,opt,name=x1" thrift:"21"`
	X02  int64              `json:"x2,omitempty" protobuf:"varint,22,opt,name=x2" thrift:"22"`
	X03  int64              `json:"x3,omitempty" protobuf:"varint,23,opt,name=x3" thrift:"23"`
	X04  int64              `json:"x4,omitempty" protobuf:"varint,24,opt,name=x4" thrift:"24"`
	X05  int64              `json:"x5,omitempty" protobuf:"varint,25,opt,name=x5" thrift:"25"`
	X06  int64              `json:"x6,omitempty" protobuf:"varint,26,opt,name=x6" thrift:"26"`
	X07  int64              `json:"x7,omitempty" protobuf:"varint,27,opt,name=x7" thrift:"27"`
	X08  int64              `json:"x8,omitempty" protobuf:"varint,28,opt,name=x8" thrift:"28"`
	X09  int64              `json:"x9,omitempty" protobuf:"varint,29,opt,name=x9" thrift:"29"`
	X10  int64              `json:"x10,omitempty" protobuf:"varint,30,opt,name=x10" thrift:"30"`
	X11  int64              `json:"x11,omitempty" protobuf:"varint,31,opt,name=x11" thrift:"31"`
	X12  int64              `json:"x12,omitempty" protobuf:"varint,32,opt,name=x12" thrift:"32"`
	X13  int64              `json:"x13,omitempty" protobuf:"varint,33,opt,name=x13" thrift:"33"`
	X14  int64              `json:"x14,omitempty" protobuf:"varint,34,opt,name=x14" thrift:"34"`
	X15  int64              `json:"x15,omitempty" protobuf:"varint,35,opt,name=x15" thrift:"35"`
	X16  int64              `json:"x16,omitempty" protobuf:"varint,36,opt,name=x16" thrift:"36"`
	X17  int64              `json:"x17,omitempty" protobuf:"varint,37,opt,name=x17" thrift:"37"`
	X18  int64              `json:"x18,omitempty" protobuf:"varint,38,opt,name=x18" thrift:"38"`
	X19  int64              `json:"x19,omitempty" protobuf:"varint,39,opt,name=x19" thrift:"39"`
	X20  int64              `json:"x20,omitempty" protobuf:"varint,40,opt,name=x20" thrift:"40"`
	X21  int64              `json:"x21,omitempty" protobuf:"varint,41,opt,name=x21" thrift:"41"`
	X22  int64              `json:"x22,omitempty" protobuf:"varint,42,opt,name=x22" thrift:"42"`
	X23  int64              `json:"x23,omitempty" protobuf:"varint,43,opt,name=x23" thrift:"43"`
}

type Peer105 struct {
	Back *Rec105   `json:"back,omitempty" protobuf:"bytes,1,opt,name=back" thrift:"1"`
	List []*Rec105 `json:"list,omitempty" protobuf:"bytes,2,rep,name=list" thrift:"2"`
	B    bool      `json:"b" protobuf:"varint,3,opt,name=b" thrift:"3"`
}

type Rec106 struct {
	M    map[string]Peer106 `json:"m,omitempty" protobuf:"bytes,6,rep,name=m" protobuf_key:"bytes,1,opt,name=key" protobuf_val:"bytes,2,opt,name=value" thrift:"6"`
	V    int64              `json:"v" protobuf:"varint,1,opt,name=v" thrift:"1"`
	Next *Rec106            `json:"next,omitempty" protobuf:"bytes,2,opt,name=next" thrift:"2"`
	Kids []Rec106           `json:"kids,omitempty" protobuf:"bytes,3,rep,name=kids" thrift:"3"`
	Peer *Peer106           `json:"peer,omitempty" protobuf:"bytes,4,opt,name=peer" thrift:"4"`
	S    string             `json:"s,omitempty" protobuf:"bytes,5,opt,name=s" thrift:"5"`
	X00  int64              `json:"x0,omitempty" protobuf:"varint,20,opt,name=x0" thrift:"20"`
	X01  int64              `json:"x1,omitempty" protobuf:"varint,21,opt,name=x1" thrift:"21"`
	X02  int64              `json:"x2,omitempty" protobuf:"varint,22,opt,name=x2" thrift:"22"`
	X03  int64              `json:"x3,omitempty" protobuf:"varint,23,opt,name=x3" thrift:"23"`
	X04  int64              `json:"x4,omitempty" protobuf:"varint,24,opt,name=x4" thrift:"24"`
	X05  int64              `json:"x5,omitempty" protobuf:"varint,25,opt,name=x5" thrift:"25"`
	X06  int64              `json:"x6,omitempty" protobuf:"varint,26,opt,name=x6" thrift:"26"`
	X07  int64              `json:"x7,omitempty" protobuf:"varint,27,opt,name=x7" thrift:"27"`
	X08  int64              `json:"x8,omitempty" protobuf:"varint,28,opt,name=x8" thrift:"28"`
	X09  int64              `json:"x9,omitempty" protobuf:"varint,29,opt,name=x9" thrift:"29"`
	X10  int64              `json:"x10,omitempty" protobuf:"varint,30,opt,name=x10" thrift:"30"`
	X11  int64              `json:"x11,omitempty" protobuf:"varint,31,opt,name=x11" thrift:"31"`
	X12  int64              `json:"x12,omitempty" protobuf:"varint,32,opt,name=x12" thrift:"32"`
	X13  int64              `json:"x13,omitempty" protobuf:"varint,33,opt,name=x13" thrift:"33"`
	X14  int64              `json:"x14,omitempty" protobuf:"varint,34,opt,name=x14" thrift:"34"`
	X15  int64              `json:"x15,omitempty" protobuf:"varint,35,opt,name=x15" thrift:"35"`
	X16  int64              `json:"x16,omitempty" protobuf:"varint,36,opt,name=x16" thrift:"36"`
	X17  int64              `json:"x17,omitempty" protobuf:"varint,37,opt,name=x17" thrift:"37"`
	X18  int64              `json:"x18,omitempty" protobuf:"varint,38,opt,name=x18" thrift:"38"`
	X19  int64              `json:"x19,omitempty" protobuf:"varint,39,opt,name=x19" thrift:"39"`
	X20  int64              `json:"x20,omitempty" protobuf:"varint,40,opt,name=x20" thrift:"40"`
	X21  int64              `json:"x21,omitempty" protobuf:"varint,41,opt,name=x21" thrift:"41"`
	X22  int64              `json:"x22,omitempty" protobuf:"varint,42,opt,name=x22" thrift:"42"`
	X23  int64              `json:"x23,omitempty" protobuf:"varint,43,opt,name=x23" thrift:"43"`
}

type Peer106 struct {
	Back *Rec106   `json:"back,omitempty" protobuf:"bytes,1,opt,name=back" thrift:"1"`
	List []*Rec106 `json:"list,omitempty" protobuf:"bytes,2,rep,name=list" thrift:"2"`
	B    bool      `json:"b" protobuf:"varint,3,opt,name=b" thrift:"3"`
}

type Rec107 struct {
	M    map[string]Peer107 `json:"m,omitempty" protobuf:"bytes,6,rep,name=m" protobuf_key:"bytes,1,opt,name=key" protobuf_val:"bytes,2,opt,name=value" thrift:"6"`
	V    int64              `json:"v" protobuf:"varint,1,opt,name=v" thrift:"1"`
	Next *Rec107            `json:"next,omitempty" protobuf:"bytes,2,opt,name=next" thrift:"2"`
	Kids []Rec107           `json:"kids,omitempty" protobuf:"bytes,3,rep,name=kids" thrift:"3"`
	Peer *Peer107           `json:"peer,omitempty" protobuf:"bytes,4,opt,name=peer" thrift:"4"`
	S    string             `json:"s,omitempty" protobuf:"bytes,5,opt,name=s" thrift:"5"`
	X00  int64              `json:"x0,omitempty" protobuf:"varint,20,opt,name=x0" thrift:"20"`
	X01  int64              `json:"x1,omitempty" protobuf:"varint,21,opt,name=x1" thrift:"21"`
	X02  int64              `json:"x2,omitempty" protobuf:"varint,22,opt,name=x2" thrift:"22"`
	X03  int64              `json:"x3,omitempty" protobuf:"varint,23,opt,name=x3" thrift:"23"`
	X04  int64              `json:"x4,omitempty" protobuf:"varint,24,opt,name=x4" thrift:"24"`
	X05  int64              `json:"x5,omitempty" protobuf:"varint,25,opt,name=x5" thrift:"25"`
	X06  int64              `json:"x6,omitempty" protobuf:"varint,26,opt,name=x6" thrift:"26"`
	X07  int64              `json:"x7,omitempty" protobuf:"varint,27,opt,name=x7" thrift:"27"`
	X08  int64              `json:"x8,omitempty" protobuf:"varint,28,opt,name=x8" thrift:"28"`
	X09  int64              `json:"x9,omitempty" protobuf:"varint,29,opt,name=x9" thrift:"29"`
	X10  int64              `json:"x10,omitempty" protobuf:"varint,30,opt,name=x10" thrift:"30"`
	X11  int64              `json:"x11,omitempty" protobuf:"varint,31,opt,name=x11" thrift:"31"`
	X12  int64              `json:"x12,omitempty" protobuf:"varint,32,opt,name=x12" thrift:"32"`
	X13  int64              `json:"x13,omitempty" protobuf:"varint,33,opt,name=x13" thrift:"33"`
	X14  int64              `json:"x14,omitempty" protobuf:"varint,34,opt,name=x14" thrift:"34"`
	X15  int64              `json:"x15,omitempty" protobuf:"varint,35,opt,name=x15" thrift:"35"`
	X16  int64              `json:"x16,omitempty" protobuf:"varint,36,opt,name=x16" thrift:"36"`
	X17  int64              `json:"x17,omitempty" protobuf:"varint,37,opt,name=x17" thrift:"37"`
	X18  int64              `json:"x18,omitempty" protobuf:"varint,38,opt,name=x18" thrift:"38"`
	X19  int64              `json:"x19,omitempty" protobuf:"varint,39,opt,name=x19" thrift:"39"`
	X20  int64              `json:"x20,omitempty" protobuf:"varint,40,opt,name=x20" thrift:"40"`
	X21  int64              `json:"x21,omitempty" protobuf:"varint,41,opt,name=x21" thrift:"41"`
	X22  int64              `json:"x22,omitempty" protobuf:"varint,42,opt,name=x22" thrift:"42"`
	X23  int64              `json:"x23,omitempty" protobuf:"varint,43,opt,name=x23" thrift:"43"`
}

type Peer107 struct {
	Back *Rec107   `json:"back,omitempty" protobuf:"bytes,1,opt,name=back" thrift:"1"`
	List []*Rec107 `json:"list,omitempty" protobuf:"bytes,2,rep,name=list" thrift:"2"`
	B    bool      `json:"b" protobuf:"varint,3,opt,name=b" thrift:"3"`
}

type Rec108 struct {
	M    map[string]Peer108 `json:"m,omitempty" protobuf:"bytes,6,rep,name=m" protobuf_key:"bytes,1,opt,name=key" protobuf_val:"bytes,2,opt,name=value" thrift:"6"`
	V    int64              `json:"v" protobuf:"varint,1,opt,name=v" thrift:"1"`
	Next *Rec108            `json:"next,omitempty" protobuf:"bytes,2,opt,name=next" thrift:"2"`
	Kids []Rec108           `json:"kids,omitempty" protobuf:"bytes,3,rep,name=kids" thrift:"3"`
	Peer *Peer108           `json:"peer,omitempty" protobuf:"bytes,4,opt,name=peer" thrift:"4"`
	S    string             `json:"s,omitempty" protobuf:"bytes,5,opt,name=s" thrift:"5"`
	X00  int64              `json:"x0,omitempty" protobuf:"varint,20,opt,name=x0" thrift:"20"`
	X01  int64              `json:"x1,omitempty" protobuf:"varint,21,opt,name=x1" thrift:"21"`
	X02  int64              `json:"x2,omitempty" protobuf:"varint,22,opt,name=x2" thrift:"22"`
	X03  int64              `json:"x3,omitempty" protobuf:"varint,23,opt,name=x3" thrift:"23"`
	X04  int64              `json:"x4,omitempty" protobuf:"varint,24,opt,name=x4" thrift:"24"`
	X05  int64              `json:"x5,omitempty" protobuf:"varint,25,opt,name=x5" thrift:"25"`
	X06  int64              `json:"x6,omitempty" protobuf:"varint,26,opt,name=x6" thrift:"26"`
	X07  int64              `json:"x7,omitempty" protobuf:"varint,27,opt,name=x7" thrift:"27"`
	X08  int64              `json:"x8,omitempty" protobuf:"varint,28,opt,name=x8" thrift:"28"`
	X09  int64              `json:"x9,omitempty" protobuf:"varint,29,opt,name=x9" thrift:"29"`
	X10  int64              `json:"x10,omitempty" protobuf:"varint,30,opt,name=x10" thrift:"30"`
	X11  int64              `json:"x11,omitempty" protobuf:"varint,31,opt,name=x11" thrift:"31"`
	X12  int64              `json:"x12,omitempty" protobuf:"varint,32,opt,name=x12" thrift:"32"`
	X13  int64              `json:"x13,omitempty" protobuf:"varint,33,opt,name=x13" thrift:"33"`
	X14  int64              `json:"x14,omitempty" protobuf:"varint,34,opt,name=x14" thrift:"34"`
	X15  int64              `json:"x15,omitempty" protobuf:"varint,35,opt,name=x15" thrift:"35"`
	X16  int64              `json:"x16,omitempty" protobuf:"varint,36,opt,name=x16" thrift:"36"`
	X17  int64              `json:"x17,omitempty" protobuf:"varint,37,opt,name=x17" thrift:"37"`
	X18  int64              `json:"x18,omitempty" protobuf:"varint,38,opt,name=x18" thrift:"38"`
	X19  int64              `json:"x19,omitempty" protobuf:"varint,39,opt,name=x19" thrift:"39"`
	X20  int64              `json:"x20,omitempty" protobuf:"varint,40,opt,name=x20" thrift:"40"`
	X21  int64              `json:"x21,omitempty" protobuf:"varint,41,opt,name=x21" thrift:"41"`
	X22  int64              `json:"x22,omitempty" protobuf:"varint,42,opt,name=x22" thrift:"42"`
	X23  int64              `json:"x23,omitempty" protobuf:"varint,43,opt,name=x23" thrift:"43"`
}

type Peer108 struct {
	Back *Rec108   `json:"back,omitempty" protobuf:"bytes,1,opt,name=back" thrift:"1"`
	List []*Rec108 `json:"list,omitempty" protobuf:"bytes,2,rep,name=list" thrift:"2"`
	B    bool      `json:"b" protobuf:"varint,3,opt,name=b" thrift:"3"`
}

type Rec109 struct {
	M    map[string]Peer109 `json:"m,omitempty" protobuf:"bytes,6,rep,name=m" protobuf_key:"bytes,1,opt,name=key" protobuf_val:"bytes,2,opt,name=value" thrift:"6"`
	V    int64              `json:"v" protobuf:"varint,1,opt,name=v" thrift:"1"`
	Next *Rec109            `json:"next,omitempty" protobuf:"bytes,2,opt,name=next" thrift:"2"`
	Kids []Rec109           `json:"kids,omitempty" protobuf:"bytes,3,rep,name=kids" thrift:"3"`
	Peer *Peer109           `json:"peer,omitempty" protobuf:"bytes,4,opt,name=peer" thrift:"4"`
	S    string             `json:"s,omitempty" protobuf:"bytes,5,opt,name=s" thrift:"5"`
	X00  int64              `json:"x0,omitempty" protobuf:"varint,20,opt,name=x0" thrift:"20"`
	X01  int64              `json:"x1,omitempty" protobuf:"varint,21,opt,name=x1" thrift:"21"`
	X02  int64              `json:"x2,omitempty" protobuf:"varint,22,opt,name=x2" thrift:"22"`
	X03  int64              `json:"x3,omitempty" protobuf:"varint,23,opt,name=x3" thrift:"23"`
	X04  int64              `json:"x4,omitempty" protobuf:"varint,24,opt,name=x4" thrift:"24"`
	X05  int64              `json:"x5,omitempty" protobuf:"varint,25,opt,name=x5" thrift:"25"`
	X06  int64              `json:"x6,omitempty" protobuf:"varint,26,opt,name=x6" thrift:"26"`
	X07  int64              `json:"x7,omitempty" protobuf:"varint,27,opt,name=x7" thrift:"27"`
	X08  int64              `json:"x8,omitempty" protobuf:"varint,28,opt,name=x8" thrift:"28"`
	X09  int64              `json:"x9,omitempty" protobuf:"varint,29,opt,name=x9" thrift:"29"`
	X10  int64              `json:"x10,omitempty" protobuf:"varint,30,opt,name=x10" thrift:"30"`
	X11  int64              `json:"x11,omitempty" protobuf:"varint,31,opt,name=x11" thrift:"31"`
	X12  int64              `json:"x12,omitempty" protobuf:"varint,32,opt,name=x12" thrift:"32"`
	X13  int64              `json:"x13,omitempty" protobuf:"varint,33,opt,name=x13" thrift:"33"`
	X14  int64              `json:"x14,omitempty" protobuf:"varint,34,opt,name=x14" thrift:"34"`
	X15  int64              `json:"x15,omitempty" protobuf:"varint,35,opt,name=x15" thrift:"35"`
	X16  int64              `json:"x16,omitempty" protobuf:"varint,36,opt,name=x16" thrift:"36"`
	X17  int64              `json:"x17,omitempty" protobuf:"varint,37,opt,name=x17" thrift:"37"`
	X18  int64              `json:"x18,omitempty" protobuf:"varint,38,opt,name=x18" thrift:"38"`
	X19  int64              `json:"x19,omitempty" protobuf:"varint,39,opt,name=x19" thrift:"39"`
	X20  int64              `json:"x20,omitempty" protobuf:"varint,40,opt,name=x20" thrift:"40"`
	X21  int64              `json:"x21,omitempty" protobuf:"varint,41,opt,name=x21" thrift:"41"`
	X22  int64              `json:"x22,omitempty" protobuf:"varint,42,opt,name=x22" thrift:"42"`
	X23  int64              `json:"x23,omitempty" protobuf:"varint,43,opt,name=x23" thrift:"43"`
}

type Peer109 struct {
	Back *Rec109   `json:"back,omitempty" protobuf:"bytes,1,opt,name=back" thrift:"1"`
	List []*Rec109 `json:"list,omitempty" protobuf:"bytes,2,rep,name=list" thrift:"2"`
	B    bool      `json:"b" protobuf:"varint,3,opt,name=b" thrift:"3"`
}

type Rec110 struct {
	M    map[string]Peer110 `json:"m,omitempty" protobuf:"bytes,6,rep,name=m" protobuf_key:"bytes,1,opt,name=key" protobuf_val:"bytes,2,opt,name=value" thrift:"6"`
	V    int64              `json:"v" protobuf:"varint,1,opt,name=v" thrift:"1"`
	Next *Rec110            `json:"next,omitempty" protobuf:"bytes,2,opt,name=next" thrift:"2"`
	Kids []Rec110           `json:"kids,omitempty" protobuf:"bytes,3,rep,name=kids" thrift:"3"`
	Peer *Peer110           `json:"peer,omitempty" protobuf:"bytes,4,opt,name=peer" thrift:"4"`
	S    string             `json:"s,omitempty" protobuf:"bytes,5,opt,name=s" thrift:"5"`
	X00  int64              `json:"x0,omitempty" protobuf:"varint,20,opt,name=x0" thrift:"20"`
	X01  int64              `json:"x1,omitempty" protobuf:"varint,21,opt,name=x1" thrift:"21"`
	X02  int64              `json:"x2,omitempty" protobuf:"varint,22,opt,name=x2" thrift:"22"`
	X03  int64              `json:"x3,omitempty" protobuf:"varint,23,opt,name=x3" thrift:"23"`
	X04  int64              `json:"x4,omitempty" protobuf:"varint,24,opt,name=x4" thrift:"24"`
	X05  int64              `json:"x5,omitempty" protobuf:"varint,25,opt,name=x5" thrift:"25"`
	X06  int64              `json:"x6,omitempty" protobuf:"varint,26,opt,name=x6" thrift:"26"`
	X07  int64              `json:"x7,omitempty" protobuf:"varint,27,opt,name=x7" thrift:"27"`
	X08  int64              `json:"x8,omitempty" protobuf:"varint,28,opt,name=x8" thrift:"28"`
	X09  int64              `json:"x9,omitempty" protobuf:"varint,29,opt,name=x9" thrift:"29"`
	X10  int64              `json:"x10,omitempty" protobuf:"varint,30,opt,name=x10" thrift:"30"`
	X11  int64              `json:"x11,omitempty" protobuf:"varint,31,opt,name=x11" thrift:"31"`
	X12  int64              `json:"x12,omitempty" protobuf:"varint,32,opt,name=x12" thrift:"32"`
	X13  int64              `json:"x13,omitempty" protobuf:"varint,33,opt,name=x13" thrift:"33"`
	X14  int64              `json:"x14,omitempty" protobuf:"varint,34,opt,name=x14" thrift:"34"`
	X15  int64              `json:"x15,omitempty" protobuf:"varint,35,opt,name=x15" thrift:"35"`
	X16  int64              `json:"x16,omitempty" protobuf:"varint,36,opt,name=x16" thrift:"36"`
	X17  int64              `json:"x17,omitempty" protobuf:"varint,37,opt,name=x17" thrift:"37"`
	X18  int64              `json:"x18,omitempty" protobuf:"varint,38,opt,name=x18" thrift:"38"`
	X19  int64              `json:"x19,omitempty" protobuf:"varint,39,opt,name=x19" thrift:"39"`
	X20  int64              `json:"x20,omitempty" protobuf:"varint,40,opt,name=x20" thrift:"40"`
	X21  int64              `json:"x21,omitempty" protobuf:"varint,41,opt,name=x21" thrift:"41"`
	X22  int64              `json:"x22,omitempty" protobuf:"varint,42,opt,name=x22" thrift:"42"`
	X23  int64              `json:"x23,omitempty" protobuf:"varint,43,opt,name=x23" thrift:"43"`
}

type Peer110 struct {
	Back *Rec110   `json:"back,omitempty" protobuf:"bytes,1,opt,name=back" thrift:"1"`
	List []*Rec110 `json:"list,omitempty" protobuf:"bytes,2,rep,name=list" thrift:"2"`
	B    bool      `json:"b" protobuf:"varint,3,opt,name=b" thrift:"3"`
}

type Rec111 struct {
	M    map[string]Peer111 `json:"m,omitempty" protobuf:"bytes,6,rep,name=m" protobuf_key:"bytes,1,opt,name=key" protobuf_val:"bytes,2,opt,name=value" thrift:"6"`
	V    int64              `json:"v" protobuf:"varint,1,opt,name=v" thrift:"1"`
	Next *Rec111            `json:"next,omitempty" protobuf:"bytes,2,opt,name=next" thrift:"2"`
	Kids []Rec111           `json:"kids,omitempty" protobuf:"bytes,3,rep,name=kids" thrift:"3"`
	Peer *Peer111           `json:"peer,omitempty" protobuf:"bytes,4,opt,name=peer" thrift:"4"`
	S    string             `json:"s,omitempty" protobuf:"bytes,5,opt,name=s" thrift:"5"`
	X00  int64              `json:"x0,omitempty" protobuf:"varint,20,opt,name=x0" thrift:"20"`
	X01  int64              `json:"x1,omitempty" protobuf:"varint,21,opt,name=x1" thrift:"21"`
	X02  int64              `json:"x2,omitempty" protobuf:"varint,22,opt,name=x2" thrift:"22"`
	X03  int64              `json:"x3,omitempty" protobuf:"varint,23,opt,name=x3" thrift:"23"`
	X04  int64              `json:"x4,omitempty" protobuf:"varint,24,opt,name=x4" thrift:"24"`
	X05  int64              `json:"x5,omitempty" protobuf:"varint,25,opt,name=x5" thrift:"25"`
	X06  int64              `json:"x6,omitempty" protobuf:"varint,26,opt,name=x6" thrift:"26"`
	X07  int64              `json:"x7,omitempty" protobuf:"varint,27,opt,name=x7" thrift:"27"`
	X08  int64              `json:"x8,omitempty" protobuf:"varint,28,opt,name=x8" thrift:"28"`
	X09  int64              `json:"x9,omitempty" protobuf:"varint,29,opt,name=x9" thrift:"29"`
	X10  int64              `json:"x10,omitempty" protobuf:"varint,30,opt,name=x10" thrift:"30"`
	X11  int64              `json:"x11,omitempty" protobuf:"varint,31,opt,name=x11" thrift:"31"`
	X12  int64              `json:"x12,omitempty" protobuf:"varint,32,opt,name=x12" thrift:"32"`
	X13  int64              `json:"x13,omitempty" protobuf:"varint,33,opt,name=x13" thrift:"33"`
	X14  int64              `json:"x14,omitempty" protobuf:"varint,34,opt,name=x14" thrift:"34"`
	X15  int64              `json:"x15,omitempty" protobuf:"varint,35,opt,name=x15" thrift:"35"`
	X16  int64              `json:"x16,omitempty" protobuf:"varint,36,opt,name=x16" thrift:"36"`
	X17  int64              `json:"x17,omitempty" protobuf:"varint,37,opt,name=x17" thrift:"37"`
	X18  int64              `json:"x18,omitempty" protobuf:"varint,38,opt,name=x18" thrift:"38"`
	X19  int64              `json:"x19,omitempty" protobuf:"varint,39,opt,name=x19" thrift:"39"`
	X20  int64              `json:"x20,omitempty" protobuf:"varint,40,opt,name=x20" thrift:"40"`
	X21  int64              `json:"x21,omitempty" protobuf:"varint,41,opt,name=x21" thrift:"41"`
	X22  int64              `json:"x22,omitempty" protobuf:"varint,42,opt,name=x22" thrift:"42"`
	X23  int64              `json:"x23,omitempty" protobuf:"varint,43,opt,name=x23" thrift:"43"`
}

type Peer111 struct {
	Back *Rec111   `json:"back,omitempty" protobuf:"bytes,1,opt,name=back" thrift:"1"`
	List []*Rec111 `json:"list,omitempty" protobuf:"bytes,2,rep,name=list" thrift:"2"`
	B    bool      `json:"b" protobuf:"varint,3,opt,name=b" thrift:"3"`
}

type Rec112 struct {
	M    map[string]Peer112 `json:"m,omitempty" protobuf:"bytes,6,rep,name=m" protobuf_key:"bytes,1,opt,name=key" protobuf_val:"bytes,2,opt,name=value" thrift:"6"`
	V    int64              `json:"v" protobuf:"varint,1,opt,name=v" thrift:"1"`
	Next *Rec112            `json:"next,omitempty" protobuf:"bytes,2,opt,name=next" thrift:"2"`
	Kids []Rec112           `json:"kids,omitempty" protobuf:"bytes,3,rep,name=kids" thrift:"3"`
	Peer *Peer112           `json:"peer,omitempty" protobuf:"bytes,4,opt,name=peer" thrift:"4"`
	S    string             `json:"s,omitempty" protobuf:"bytes,5,opt,name=s" thrift:"5"`
	X00  int64              `json:"x0,omitempty" protobuf:"varint,20,opt,name=x0" thrift:"20"`
	X01  int64              `json:"x1,omitempty" protobuf:"varint,21,opt,name=x1" thrift:"21"`
	X02  int64              `json:"x2,omitempty" protobuf:"varint,22,opt,name=x2" thrift:"22"`
	X03  int64              `json:"x3,omitempty" protobuf:"varint,23,opt,name=x3" thrift:"23"`
	X04  int64              `json:"x4,omitempty" protobuf:"varint,24,opt,name=x4" thrift:"24"`
	X05  int64              `json:"x5,omitempty" protobuf:"varint,25,opt,name=x5" thrift:"25"`
	X06  int64              `json:"x6,omitempty" protobuf:"varint,26,opt,name=x6" thrift:"26"`
	X07  int64              `json:"x7,omitempty" protobuf:"varint,27,opt,name=x7" thrift:"27"`
	X08  int64              `json:"x8,omitempty" protobuf:"varint,28,opt,name=x8" thrift:"28"`
	X09  int64              `json:"x9,omitempty" protobuf:"varint,29,opt,name=x9" thrift:"29"`
	X10  int64              `json:"x10,omitempty" protobuf:"varint,30,opt,name=x10" thrift:"30"`
	X11  int64              `json:"x11,omitempty" protobuf:"varint,31,opt,name=x11" thrift:"31"`
	X12  int64              `json:"x12,omitempty" protobuf:"varint,32,opt,name=x12" thrift:"32"`
	X13  int64              `json:"x13,omitempty" protobuf:"varint,33,opt,name=x13" thrift:"33"`
	X14  int64              `json:"x14,omitempty" protobuf:"varint,34,opt,name=x14" thrift:"34"`
	X15  int64              `json:"x15,omitempty" protobuf:"varint,35,opt,name=x15" thrift:"35"`
	X16  int64              `json:"x16,omitempty" protobuf:"varint,36,opt,name=x16" thrift:"36"`
	X17  int64              `json:"x17,omitempty" protobuf:"varint,37,opt,name=x17" thrift:"37"`
	X18  int64              `json:"x18,omitempty" protobuf:"varint,38,opt,name=x18" thrift:"38"`
	X19  int64              `json:"x19,omitempty" protobuf:"varint,39,opt,name=x19" thrift:"39"`
	X20  int64              `json:"x20,omitempty" protobuf:"varint,40,opt,name=x20" thrift:"40"`
	X21  int64              `json:"x21,omitempty" protobuf:"varint,41,opt,name=x21" thrift:"41"`
	X22  int64              `json:"x22,omitempty" protobuf:"varint,42,opt,name=x22" thrift:"42"`
	X23  int64              `json:"x23,omitempty" protobuf:"varint,43,opt,name=x23" thrift:"43"`
}

type Peer112 struct {
	Back *Rec112   `json:"back,omitempty" protobuf:"bytes,1,opt,name=back" thrift:"1"`
	List []*Rec112 `json:"list,omitempty" protobuf:"bytes,2,rep,name=list" thrift:"2"`
	B    bool      `json:"b" protobuf:"varint,3,opt,name=b" thrift:"3"`
}

type Rec113 struct {
	M    map[string]Peer113 `json:"m,omitempty" protobuf:"bytes,6,rep,name=m" protobuf_key:"bytes,1,opt,name=key" protobuf_val:"bytes,2,opt,name=value" thrift:"6"`
	V    int64              `json:"v" protobuf:"varint,1,opt,name=v" thrift:"1"`
	Next *Rec113            `json:"next,omitempty" protobuf:"bytes,2,opt,name=next" thrift:"2"`
	Kids []Rec113           `json:"kids,omitempty" protobuf:"bytes,3,rep,name=kids" thrift:"3"`
	Peer *Peer113           `json:"peer,omitempty" protobuf:"bytes,4,opt,name=peer" thrift:"4"`
	S    string             `json:"s,omitempty" protobuf:"bytes,5,opt,name=s" thrift:"5"`
	X00  int64              `json:"x0,omitempty" protobuf:"varint,20,opt,name=x0" thrift:"20"`
	X01  int64              `json:"x1,omitempty" protobuf:"varint,21,opt,name=x1" thrift:"21"`
	X02  int64              `json:"x2,omitempty" protobuf:"varint,22,opt,name=x2" thrift:"22"`
	X03  int64              `json:"x3,omitempty" protobuf:"varint,23,opt,name=x3" thrift:"23"`
	X04  int64              `json:"x4,omitempty" protobuf:"varint,24,opt,name=x4" thrift:"24"`
	X05  int64              `json:"x5,omitempty" protobuf:"varint,25,opt,name=x5" thrift:"25"`
	X06  int64              `json:"x6,omitempty" protobuf:"varint,26,opt,name=x6" thrift:"26"`
	X07  int64              `json:"x7,omitempty" protobuf:"varint,27,opt,name=x7" thrift:"27"`
	X08  int64              `json:"x8,omitempty" protobuf:"varint,28,opt,name=x8" thrift:"28"`
	X09  int64              `json:"x9,omitempty" protobuf:"varint,29,opt,name=x9" thrift:"29"`
	X10  int64              `json:"x10,omitempty" protobuf:"varint,30,opt,name=x10" thrift:"30"`
	X11  int64              `json:"x11,omitempty" protobuf:"varint,31,opt,name=x11" thrift:"31"`
	X12  int64              `json:"x12,omitempty" protobuf:"varint,32,opt,name=x12" thrift:"32"`
	X13  int64              `json:"x13,omitempty" protobuf:"varint,33,opt,name=x13" thrift:"33"`
	X14  int64              `json:"x14,omitempty" protobuf:"varint,34,opt,name=x14" thrift:"34"`
	X15  int64              `json:"x15,omitempty" protobuf:"varint,35,opt,name=x15" thrift:"35"`
	X16  int64              `json:"x16,omitempty" protobuf:"varint,36,opt,name=x16" thrift:"36"`
	X17  int64              `json:"x17,omitempty" protobuf:"varint,37,opt,name=x17" thrift:"37"`
	X18  int64              `json:"x18,omitempty" protobuf:"varint,38,opt,name=x18" thrift:"38"`
	X19  int64              `json:"x19,omitempty" protobuf:"varint,39,opt,name=x19" thrift:"39"`
	X20  int64              `json:"x20,omitempty" protobuf:"varint,40,opt,name=x20" thrift:"40"`
	X21  int64              `json:"x21,omitempty" protobuf:"varint,41,opt,name=x21" thrift:"41"`
	X22  int64              `json:"x22,omitempty" protobuf:"varint,42,opt,name=x22" thrift:"42"`
	X23  int64              `json:"x23,omitempty" protobuf:"varint,43,opt,name=x23" thrift:"43"`
}

type Peer113 struct {
	Back *Rec113   `json:"back,omitempty" protobuf:"bytes,1,opt,name=back" thrift:"1"`
	List []*Rec113 `json:"list,omitempty" protobuf:"bytes,2,rep,name=list" thrift:"2"`
	B    bool      `json:"b" protobuf:"varint,3,opt,name=b" thrift:"3"`
}

type Rec114 struct {
	M    map[string]Peer114 `json:"m,omitempty" protobuf:"bytes,6,rep,name=m" protobuf_key:"bytes,1,opt,name=key" protobuf_val:"bytes,2,opt,name=value" thrift:"6"`
	V    int64              `json:"v" protobuf:"varint,1,opt,name=v" thrift:"1"`
	Next *Rec114            `json:"next,omitempty" protobuf:"bytes,2,opt,name=next" thrift:"2"`
	Kids []Rec114           `json:"kids,omitempty" protobuf:"bytes,3,rep,name=kids" thrift:"3"`
	Peer *Peer114           `json:"peer,omitempty" protobuf:"bytes,4,opt,name=peer" thrift:"4"`
	S    string             `json:"s,omitempty" protobuf:"bytes,5,opt,name=s" thrift:"5"`
	X00  int64              `json:"x0,omitempty" protobuf:"varint,20,opt,name=x0" thrift:"20"`
	X01  int64              `json:"x1,omitempty" protobuf:"varint,21,opt,name=x1" thrift:"21"`
	X02  int64              `json:"x2,omitempty" protobuf:"varint,22,opt,name=x2" thrift:"22"`
	X03  int64              `json:"x3,omitempty" protobuf:"varint,23,opt,name=x3" thrift:"23"`
	X04  int64              `json:"x4,omitempty" protobuf:"varint,24,opt,name=x4" thrift:"24"`
	X05  int64              `json:"x5,omitempty" protobuf:"varint,25,opt,name=x5" thrift:"25"`
	X06  int64              `json:"x6,omitempty" protobuf:"varint,26,opt,name=x6" thrift:"26"`
	X07  int64              `json:"x7,omitempty" protobuf:"varint,27,opt,name=x7" thrift:"27"`
	X08  int64              `json:"x8,omitempty" protobuf:"varint,28,opt,name=x8" thrift:"28"`
	X09  int64              `json:"x9,omitempty" protobuf:"varint,29,opt,name=x9" thrift:"29"`
	X10  int64              `json:"x10,omitempty" protobuf:"varint,30,opt,name=x10" thrift:"30"`
	X11  int64              `json:"x11,omitempty" protobuf:"varint,31,opt,name=x11" thrift:"31"`
	X12  int64              `json:"x12,omitempty" protobuf:"varint,32,opt,name=x12" thrift:"32"`
	X13  int64              `json:"x13,omitempty" protobuf:"varint,33,opt,name=x13" thrift:"33"`
	X14  int64              `json:"x14,omitempty" protobuf:"varint,34,opt,name=x14" thrift:"34"`
	X15  int64              `json:"x15,omitempty" protobuf:"varint,35,opt,name=x15" thrift:"35"`
	X16  int64              `json:"x16,omitempty" protobuf:"varint,36,opt,name=x16" thrift:"36"`
	X17  int64              `json:"x17,omitempty" protobuf:"varint,37,opt,name=x17" thrift:"37"`
	X18  int64              `json:"x18,omitempty" protobuf:"varint,38,opt,name=x18" thrift:"38"`
	X19  int64              `json:"x19,omitempty" protobuf:"varint,39,opt,name=x19" thrift:"39"`
	X20  int64              `json:"x20,omitempty" protobuf:"varint,40,opt,name=x20" thrift:"40"`
	X21  int64              `json:"x21,omitempty" protobuf:"varint,41,opt,name=x21" thrift:"41"`
	X22  int64              `json:"x22,omitempty" protobuf:"varint,42,opt,name=x22" thrift:"42"`
	X23  int64              `json:"x23,omitempty" protobuf:"varint,43,opt,name=x23" thrift:"43"`
}

type Peer114 struct {
	Back *Rec114   `json:"back,omitempty" protobuf:"bytes,1,opt,name=back" thrift:"1"`
	List []*Rec114 `json:"list,omitempty" protobuf:"bytes,2,rep,name=list" thrift:"2"`
	B    bool      `json:"b" protobuf:"varint,3,opt,name=b" thrift:"3"`
}

type Rec115 struct {
	M    map[string]Peer115 `json:"m,omitempty" protobuf:"bytes,6,rep,name=m" protobuf_key:"bytes,1,opt,name=key" protobuf_val:"bytes,2,opt,name=value" thrift:"6"`
	V    int64              `json:"v" protobuf:"varint,1,opt,name=v" thrift:"1"`
	Next *Rec115            `json:"next,omitempty" protobuf:"bytes,2,opt,name=next" thrift:"2"`
	Kids []Rec115           `json:"kids,omitempty" protobuf:"bytes,3,rep,name=kids" thrift:"3"`
	Peer *Peer115           `json:"peer,omitempty" protobuf:"bytes,4,opt,name=peer" thrift:"4"`
	S    string             `json:"s,omitempty" protobuf:"bytes,5,opt,name=s" thrift:"5"`
	X00  int64              `json:"x0,omitempty" protobuf:"varint,20,opt,name=x0" thrift:"20"`
	X01  int64              `json:"x1,omitempty" protobuf:"varint,21,opt,name=x1" thrift:"21"`
	X02  int64              `json:"x2,omitempty" protobuf:"varint,22,opt,name=x2" thrift:"22"`
	X03  int64              `json:"x3,omitempty" protobuf:"varint,23,opt,name=x3" thrift:"23"`
	X04  int64              `json:"x4,omitempty" protobuf:"varint,24,opt,name=x4" thrift:"24"`
	X05  int64              `json:"x5,omitempty" protobuf:"varint,25,opt,name=x5" thrift:"25"`
	X06  int64              `json:"x6,omitempty" protobuf:"varint,26,opt,name=x6" thrift:"26"`
	X07  int64              `json:"x7,omitempty" protobuf:"varint,27,opt,name=x7" thrift:"27"`
	X08  int64              `json:"x8,omitempty" protobuf:"varint,28,opt,name=x8" thrift:"28"`
	X09  int64              `json:"x9,omitempty" protobuf:"varint,29,opt,name=x9" thrift:"29"`
	X10  int64              `json:"x10,omitempty" protobuf:"varint,30,opt,name=x10" thrift:"30"`
	X11  int64              `json:"x11,omitempty" protobuf:"varint,31,opt,name=x11" thrift:"31"`
	X12  int64              `json:"x12,omitempty" protobuf:"varint,32,opt,name=x12" thrift:"32"`
	X13  int64              `json:"x13,omitempty" protobuf:"varint,33,opt,name=x13" thrift:"33"`
	X14  int64              `json:"x14,omitempty" protobuf:"varint,34,opt,name=x14" thrift:"34"`
	X15  int64              `json:"x15,omitempty" protobuf:"varint,35,opt,name=x15" thrift:"35"`
	X16  int64              `json:"x16,omitempty" protobuf:"varint,36,opt,name=x16" thrift:"36"`
	X17  int64              `json:"x17,omitempty" protobuf:"varint,37,opt,name=x17" thrift:"37"`
	X18  int64              `json:"x18,omitempty" protobuf:"varint,38,opt,name=x18" thrift:"38"`
	X19  int64              `json:"x19,omitempty" protobuf:"varint,39,opt,name=x19" thrift:"39"`
	X20  int64              `json:"x20,omitempty" protobuf:"varint,40,opt,name=x20" thrift:"40"`
	X21  int64              `json:"x21,omitempty" protobuf:"varint,41,opt,name=x21" thrift:"41"`
	X22  int64              `json:"x22,omitempty" protobuf:"varint,42,opt,name=x22" thrift:"42"`
	X23  int64              `json:"x23,omitempty" protobuf:"varint,43,opt,name=x23" thrift:"43"`
}

type Peer115 struct {
	Back *Rec115   `json:"back,omitempty" protobuf:"bytes,1,opt,name=back" thrift:"1"`
	List []*Rec115 `json:"list,omitempty" protobuf:"bytes,2,rep,name=list" thrift:"2"`
	B    bool      `json:"b" protobuf:"varint,3,opt,name=b" thrift:"3"`
}

type Rec116 struct {
	M    map[string]Peer116 `json:"m,omitempty" protobuf:"bytes,6,rep,name=m" protobuf_key:"bytes,1,opt,name=key" protobuf_val:"bytes,2,opt,name=value" thrift:"6"`
	V    int64              `json:"v" protobuf:"varint,1,opt,name=v" thrift:"1"`
	Next *Rec116            `json:"next,omitempty" protobuf:"bytes,2,opt,name=next" thrift:"2"`
	Kids []Rec116           `json:"kids,omitempty" protobuf:"bytes,3,rep,name=kids" thrift:"3"`
	Peer *Peer116           `json:"peer,omitempty" protobuf:"bytes,4,opt,name=peer" thrift:"4"`
	S    string             `json:"s,omitempty" protobuf:"bytes,5,opt,name=s" thrift:"5"`
	X00  int64              `json:"x0,omitempty" protobuf:"varint,20,opt,name=x0" thrift:"20"`
	X01  int64              `json:"x1,omitempty" protobuf:"varint,21,opt,name=x1" thrift:"21"`
	X02  int64              `json:"x2,omitempty" protobuf:"varint,22,opt,name=x2" thrift:"22"`
	X03  int64              `json:"x3,omitempty" protobuf:"varint,23,opt,name=x3" thrift:"23"`
	X04  int64              `json:"x4,omitempty" protobuf:"varint,24,opt,name=x4" thrift:"24"`
	X05  int64              `json:"x5,omitempty" protobuf:"varint,25,opt,name=x5" thrift:"25"`
	X06  int64              `json:"x6,omitempty" protobuf:"varint,26,opt,name=x6" thrift:"26"`
	X07  int64              `json:"x7,omitempty" protobuf:"varint,27,opt,name=x7" thrift:"27"`
	X08  int64              `json:"x8,omitempty" protobuf:"varint,28,opt,name=x8" thrift:"28"`
	X09  int64              `json:"x9,omitempty" protobuf:"varint,29,opt,name=x9" thrift:"29"`
	X10  int64              `json:"x10,omitempty" protobuf:"varint,30,opt,name=x10" thrift:"30"`
	X11  int64              `json:"x11,omitempty" protobuf:"varint,31,opt,name=x11" thrift:"31"`
	X12  int64              `json:"x12,omitempty" protobuf:"varint,32,opt,name=x12" thrift:"32"`
	X13  int64              `json:"x13,omitempty" protobuf:"varint,33,opt,name=x13" thrift:"33"`
	X14  int64              `json:"x14,omitempty" protobuf:"varint,34,opt,name=x14" thrift:"34"`
	X15  int64              `json:"x15,omitempty" protobuf:"varint,35,opt,name=x15" thrift:"35"`
	X16  int64              `json:"x16,omitempty" protobuf:"varint,36,opt,name=x16" thrift:"36"`
	X17  int64              `json:"x17,omitempty" protobuf:"varint,37,opt,name=x17" thrift:"37"`
	X18  int64              `json:"x18,omitempty" protobuf:"varint,38,opt,name=x18" thrift:"38"`
	X19  int64              `json:"x19,omitempty" protobuf:"varint,39,opt,name=x19" thrift:"39"`
	X20  int64              `json:"x20,omitempty" protobuf:"varint,40,opt,name=x20" thrift:"40"`
	X21  int64              `json:"x21,omitempty" protobuf:"varint,41,opt,name=x21" thrift:"41"`
	X22  int64              `json:"x22,omitempty" protobuf:"varint,42,opt,name=x22" thrift:"42"`
	X23  int64              `json:"x23,omitempty" protobuf:"varint,43,opt,name=x23" thrift:"43"`
}

type Peer116 struct {
	Back *Rec116   `json:"back,omitempty" protobuf:"bytes,1,opt,name=back" thrift:"1"`
	List []*Rec116 `json:"list,omitempty" protobuf:"bytes,2,rep,name=list" thrift:"2"`
	B    bool      `json:"b" protobuf:"varint,3,opt,name=b" thrift:"3"`
}

type Rec117 struct {
	M    map[string]Peer117 `json:"m,omitempty" protobuf:"bytes,6,rep,name=m" protobuf_key:"bytes,1,opt,name=key" protobuf_val:"bytes,2,opt,name=value" thrift:"6"`
	V    int64              `json:"v" protobuf:"varint,1,opt,name=v" thrift:"1"`
	Next *Rec117            `json:"next,omitempty" protobuf:"bytes,2,opt,name=next" thrift:"2"`
	Kids []Rec117           `json:"kids,omitempty" protobuf:"bytes,3,rep,name=kids" thrift:"3"`
	Peer *Peer117           `json:"peer,omitempty" protobuf:"bytes,4,opt,name=peer" thrift:"4"`
	S    string             `json:"s,omitempty" protobuf:"bytes,5,opt,name=s" thrift:"5"`
	X00  int64              `json:"x0,omitempty" protobuf:"varint,20,opt,name=x0" thrift:"20"`
	X01  int64              `json:"x1,omitempty" protobuf:"varint,21,opt,name=x1" thrift:"21"`
	X02  int64              `json:"x2,omitempty" protobuf:"varint,22,opt,name=x2" thrift:"22"`
	X03  int64              `json:"x3,omitempty" protobuf:"varint,23,opt,name=x3" thrift:"23"`
	X04  int64              `json:"x4,omitempty" protobuf:"varint,24,opt,name=x4" thrift:"24"`
	X05  int64              `json:"x5,omitempty" protobuf:"varint,25,opt,name=x5" thrift:"25"`
	X06  int64              `json:"x6,omitempty" protobuf:"varint,26,opt,name=x6" thrift:"26"`
	X07  int64              `json:"x7,omitempty" protobuf:"varint,27,opt,name=x7" thrift:"27"`
	X08  int64              `json:"x8,omitempty" protobuf:"varint,28,opt,name=x8" thrift:"28"`
	X09  int64              `json:"x9,omitempty" protobuf:"varint,29,opt,name=x9" thrift:"29"`
	X10  int64              `json:"x10,omitempty" protobuf:"varint,30,opt,name=x10" thrift:"30"`
	X11  int64              `json:"x11,omitempty" protobuf:"varint,31,opt,name=x11" thrift:"31"`
	X12  int64              `json:"x12,omitempty" protobuf:"varint,32,opt,name=x12" thrift:"32"`
	X13  int64              `json:"x13,omitempty" protobuf:"varint,33,opt,name=x13" thrift:"33"`
	X14  int64              `json:"x14,omitempty" protobuf:"varint,34,opt,name=x14" thrift:"34"`
	X15  int64              `json:"x15,omitempty" protobuf:"varint,35,opt,name=x15" thrift:"35"`
	X16  int64              `json:"x16,omitempty" protobuf:"varint,36,opt,name=x16" thrift:"36"`
	X17  int64              `json:"x17,omitempty" protobuf:"varint,37,opt,name=x17" thrift:"37"`
	X18  int64              `json:"x18,omitempty" protobuf:"varint,38,opt,name=x18" thrift:"38"`
	X19  int64              `json:"x19,omitempty" protobuf:"varint,39,opt,name=x19" thrift:"39"`
	X20  int64              `json:"x20,omitempty" protobuf:"varint,40,opt,name=x20" thrift:"40"`
	X21  int64              `json:"x21,omitempty" protobuf:"varint,41,opt,name=x21" thrift:"41"`
	X22  int64              `json:"x22,omitempty" protobuf:"varint,42,opt,name=x22" thrift:"42"`
	X23  int64              `json:"x23,omitempty" protobuf:"varint,43,opt,name=x23" thrift:"43"`
}

type Peer117 struct {
	Back *Rec117   `json:"back,omitempty" protobuf:"bytes,1,opt,name=back" thrift:"1"`
	List []*Rec117 `json:"list,omitempty" protobuf:"bytes,2,rep,name=list" thrift:"2"`
	B    bool      `json:"b" protobuf:"varint,3,opt,name=b" thrift:"3"`
}

type Rec118 struct {
	M    map[string]Peer118 `json:"m,omitempty" protobuf:"bytes,6,rep,name=m" protobuf_key:"bytes,1,opt,name=key" protobuf_val:"bytes,2,opt,name=value" thrift:"6"`
	V    int64              `json:"v" protobuf:"varint,1,opt,name=v" thrift:"1"`
	Next *Rec118            `json:"next,omitempty" protobuf:"bytes,2,opt,name=next" thrift:"2"`
	Kids []Rec118           `json:"kids,omitempty" protobuf:"bytes,3,rep,name=kids" thrift:"3"`
	Peer *Peer118           `json:"peer,omitempty" protobuf:"bytes,4,opt,name=peer" thrift:"4"`
	S    string             `json:"s,omitempty" protobuf:"bytes,5,opt,name=s" thrift:"5"`
	X00  int64              `json:"x0,omitempty" protobuf:"varint,20,opt,name=x0" thrift:"20"`
	X01  int64              `json:"x1,omitempty" protobuf:"varint,21,opt,name=x1" thrift:"21"`
	X02  int64              `json:"x2,omitempty" protobuf:"varint,22,opt,name=x2" thrift:"22"`
	X03  int64              `json:"x3,omitempty" protobuf:"varint,23,opt,name=x3" thrift:"23"`
	X04  int64              `json:"x4,omitempty" protobuf:"varint,24,opt,name=x4" thrift:"24"`
	X05  int64              `json:"x5,omitempty" protobuf:"varint,25,opt,name=x5" thrift:"25"`
	X06  int64              `json:"x6,omitempty" protobuf:"varint,26,opt,name=x6" thrift:"26"`
	X07  int64              `json:"x7,omitempty" protobuf:"varint,27,opt,name=x7" thrift:"27"`
	X08  int64              `json:"x8,omitempty" protobuf:"varint,28,opt,name=x8" thrift:"28"`
	X09  int64              `json:"x9,omitempty" protobuf:"varint,29,opt,name=x9" thrift:"29"`
	X10  int64              `json:"x10,omitempty" protobuf:"varint,30,opt,name=x10" thrift:"30"`
	X11  int64              `json:"x11,omitempty" protobuf:"varint,31,opt,name=x11" thrift:"31"`
	X12  int64              `json:"x12,omitempty" protobuf:"varint,32,opt,name=x12" thrift:"32"`
	X13  int64              `json:"x13,omitempty" protobuf:"varint,33,opt,name=x13" thrift:"33"`
	X14  int64              `json:"x14,omitempty" protobuf:"varint,34,opt,name=x14" thrift:"34"`
	X15  int64              `json:"x15,omitempty" protobuf:"varint,35,opt,name=x15" thrift:"35"`
	X16  int64              `json:"x16,omitempty" protobuf:"varint,36,opt,name=x16" thrift:"36"`
	X17  int64              `json:"x17,omitempty" protobuf:"varint,37,opt,name=x17" thrift:"37"`
	X18  int64              `json:"x18,omitempty" protobuf:"varint,38,opt,name=x18" thrift:"38"`
	X19  int64              `json:"x19,omitempty" protobuf:"varint,39,opt,name=x19" thrift:"39"`
	X20  int64              `json:"x20,omitempty" protobuf:"varint,40,opt,name=x20" thrift:"40"`
	X21  int64              `json:"x21,omitempty" protobuf:"varint,41,opt,name=x21" thrift:"41"`
	X22  int64              `json:"x22,omitempty" protobuf:"varint,42,opt,name=x22" thrift:"42"`
	X23  int64              `json:"x23,omitempty" protobuf:"varint,43,opt,name=x23" thrift:"43"`
}

type Peer118 struct {
	Back *Rec118   `json:"back,omitempty" protobuf:"bytes,1,opt,name=back" thrift:"1"`
	List []*Rec118 `json:"list,omitempty" protobuf:"bytes,2,rep,name=list" thrift:"2"`
	B    bool      `json:"b" protobuf:"varint,3,opt,name=b" thrift:"3"`
}

type Rec119 struct {
	M    map[string]Peer119 `json:"m,omitempty" protobuf:"bytes,6,rep,name=m" protobuf_key:"bytes,1,opt,name=key" protobuf_val:"bytes,2,opt,name=value" thrift:"6"`
	V    int64              `json:"v" protobuf:"varint,1,opt,name=v" thrift:"1"`
	Next *Rec119            `json:"next,omitempty" protobuf:"bytes,2,opt,name=next" thrift:"2"`
	Kids []Rec119           `json:"kids,omitempty" protobuf:"bytes,3,rep,name=kids" thrift:"3"`
	Peer *Peer119           `json:"peer,omitempty" protobuf:"bytes,4,opt,name=peer" thrift:"4"`
	S    string             `json:"s,omitempty" protobuf:"bytes,5,opt,name=s" thrift:"5"`
	X00  int64              `json:"x0,omitempty" protobuf:"varint,20,opt,name=x0" thrift:"20"`
	X01  int64              `json:"x1,omitempty" protobuf:"varint,21,opt,name=x1" thrift:"21"`
	X02  int64              `json:"x2,omitempty" protobuf:"varint,22,opt,name=x2" thrift:"22"`
	X03  int64              `json:"x3,omitempty" protobuf:"varint,23,opt,name=x3" thrift:"23"`
	X04  int64              `json:"x4,omitempty" protobuf:"varint,24,opt,name=x4" thrift:"24"`
	X05  int64              `json:"x5,omitempty" protobuf:"varint,25,opt,name=x5" thrift:"25"`
	X06  int64              `json:"x6,omitempty" protobuf:"varint,26,opt,name=x6" thrift:"26"`
	X07  int64              `json:"x7,omitempty" protobuf:"varint,27,opt,name=x7" thrift:"27"`
	X08  int64              `json:"x8,omitempty" protobuf:"varint,28,opt,name=x8" thrift:"28"`
	X09  int64              `json:"x9,omitempty" protobuf:"varint,29,opt,name=x9" thrift:"29"`
	X10  int64              `json:"x10,omitempty" protobuf:"varint,30,opt,name=x10" thrift:"30"`
	X11  int64              `json:"x11,omitempty" protobuf:"varint,31,opt,name=x11" thrift:"31"`
	X12  int64              `json:"x12,omitempty" protobuf:"varint,32,opt,name=x12" thrift:"32"`
	X13  int64              `json:"x13,omitempty" protobuf:"varint,33,opt,name=x13" thrift:"33"`
	X14  int64              `json:"x14,omitempty" protobuf:"varint,34,opt,name=x14" thrift:"34"`
	X15  int64              `json:"x15,omitempty" protobuf:"varint,35,opt,name=x15" thrift:"35"`
	X16  int64              `json:"x16,omitempty" protobuf:"varint,36,opt,name=x16" thrift:"36"`
	X17  int64              `json:"x17,omitempty" protobuf:"varint,37,opt,name=x17" thrift:"37"`
	X18  int64              `json:"x18,omitempty" protobuf:"varint,38,opt,name=x18" thrift:"38"`
	X19  int64              `json:"x19,omitempty" protobuf:"varint,39,opt,name=x19" thrift:"39"`
	X20  int64              `json:"x20,omitempty" protobuf:"varint,40,opt,name=x20" thrift:"40"`
	X21  int64              `json:"x21,omitempty" protobuf:"varint,41,opt,name=x21" thrift:"41"`
	X22  int64              `json:"x22,omitempty" protobuf:"varint,42,opt,name=x22" thrift:"42"`
	X23  int64              `json:"x23,omitempty" protobuf:"varint,43,opt,name=x23" thrift:"43"`
}

type Peer119 struct {
	Back *Rec119   `json:"back,omitempty" protobuf:"bytes,1,opt,name=back" thrift:"1"`
	List []*Rec119 `json:"list,omitempty" protobuf:"bytes,2,rep,name=list" thrift:"2"`
	B    bool      `json:"b" protobuf:"varint,3,opt,name=b" thrift:"3"`
}

type Rec120 struct {
	M    map[string]Peer120 `json:"m,omitempty" protobuf:"bytes,6,rep,name=m" protobuf_key:"bytes,1,opt,name=key" protobuf_val:"bytes,2,opt,name=value" thrift:"6"`
	V    int64              `json:"v" protobuf:"varint,1,opt,name=v" thrift:"1"`
	Next *Rec120            `json:"next,omitempty" protobuf:"bytes,2,opt,name=next" thrift:"2"`
	Kids []Rec120           `json:"kids,omitempty" protobuf:"bytes,3,rep,name=kids" thrift:"3"`
	Peer *Peer120           `json:"peer,omitempty" protobuf:"bytes,4,opt,name=peer" thrift:"4"`
	S    string             `json:"s,omitempty" protobuf:"bytes,5,opt,name=s" thrift:"5"`
	X00  int64              `json:"x0,omitempty" protobuf:"varint,20,opt,name=x0" thrift:"20"`
	X01  int64              `json:"x1,omitempty" protobuf:"varint,21,opt,name=x1" thrift:"21"`
	X02  int64              `json:"x2,omitempty" protobuf:"varint,22,opt,name=x2" thrift:"22"`
	X03  int64              `json:"x3,omitempty" protobuf:"varint,23,opt,name=x3" thrift:"23"`
	X04  int64              `json:"x4,omitempty" protobuf:"varint,24,opt,name=x4" thrift:"24"`
	X05  int64              `json:"x5,omitempty" protobuf:"varint,25,opt,name=x5" thrift:"25"`
	X06  int64              `json:"x6,omitempty" protobuf:"varint,26,opt,name=x6" thrift:"26"`
	X07  int64              `json:"x7,omitempty" protobuf:"varint,27,opt,name=x7" thrift:"27"`
	X08  int64              `json:"x8,omitempty" protobuf:"varint,28,opt,name=x8" thrift:"28"`
	X09  int64              `json:"x9,omitempty" protobuf:"varint,29,opt,name=x9" thrift:"29"`
	X10  int64              `json:"x10,omitempty" protobuf:"varint,30,opt,name=x10" thrift:"30"`
	X11  int64              `json:"x11,omitempty" protobuf:"varint,31,opt,name=x11" thrift:"31"`
	X12  int64              `json:"x12,omitempty" protobuf:"varint,32,opt,name=x12" thrift:"32"`
	X13  int64              `json:"x13,omitempty" protobuf:"varint,33,opt,name=x13" thrift:"33"`
	X14  int64              `json:"x14,omitempty" protobuf:"varint,34,opt,name=x14" thrift:"34"`
	X15  int64              `json:"x15,omitempty" protobuf:"varint,35,opt,name=x15" thrift:"35"`
	X16  int64              `json:"x16,omitempty" protobuf:"varint,36,opt,name=x16" thrift:"36"`
	X17  int64              `json:"x17,omitempty" protobuf:"varint,37,opt,name=x17" thrift:"37"`
	X18  int64              `json:"x18,omitempty" protobuf:"varint,38,opt,name=x18" thrift:"38"`
	X19  int64              `json:"x19,omitempty" protobuf:"varint,39,opt,name=x19" thrift:"39"`
	X20  int64              `json:"x20,omitempty" protobuf:"varint,40,opt,name=x20" thrift:"40"`
	X21  int64              `json:"x21,omitempty" protobuf:"varint,41,opt,name=x21" thrift:"41"`
	X22  int64              `json:"x22,omitempty" protobuf:"varint,42,opt,name=x22" thrift:"42"`
	X23  int64              `json:"x23,omitempty" protobuf:"varint,43,opt,name=x23" thrift:"43"`
}

type Peer120 struct {
	Back *Rec120   `json:"back,omitempty" protobuf:"bytes,1,opt,name=back" thrift:"1"`
	List []*Rec120 `json:"list,omitempty" protobuf:"bytes,2,rep,name=list" thrift:"2"`
	B    bool      `json:"b" protobuf:"varint,3,opt,name=b" thrift:"3"`
}

type Rec121 struct {
	M    map[string]Peer121 `json:"m,omitempty" protobuf:"bytes,6,rep,name=m" protobuf_key:"bytes,1,opt,name=key" protobuf_val:"bytes,2,opt,name=value" thrift:"6"`
	V    int64              `json:"v" protobuf:"varint,1,opt,name=v" thrift:"1"`
	Next *Rec121            `json:"next,omitempty" protobuf:"bytes,2,opt,name=next" thrift:"2"`
	Kids []Rec121           `json:"kids,omitempty" protobuf:"bytes,3,rep,name=kids" thrift:"3"`
	Peer *Peer121           `json:"peer,omitempty" protobuf:"bytes,4,opt,name=peer" thrift:"4"`
	S    string             `json:"s,omitempty" protobuf:"bytes,5,opt,name=s" thrift:"5"`
	X00  int64              `json:"x0,omitempty" protobuf:"varint,20,opt,name=x0" thrift:"20"`
	X01  int64              `json:"x1,omitempty" protobuf:"varint,21,opt,name=x1" thrift:"21"`
	X02  int64              `json:"x2,omitempty" protobuf:"varint,22,opt,name=x2" thrift:"22"`
	X03  int64              `json:"x3,omitempty" protobuf:"varint,23,opt,name=x3" thrift:"23"`
	X04  int64              `json:"x4,omitempty" protobuf:"varint,24,opt,name=x4" thrift:"24"`
	X05  int64              `json:"x5,omitempty" protobuf:"varint,25,opt,name=x5" thrift:"25"`
	X06  int64              `json:"x6,omitempty" protobuf:"varint,26,opt,name=x6" thrift:"26"`
	X07  int64              `json:"x7,omitempty" protobuf:"varint,27,opt,name=x7" thrift:"27"`
	X08  int64              `json:"x8,omitempty" protobuf:"varint,28,opt,name=x8" thrift:"28"`
	X09  int64              `json:"x9,omitempty" protobuf:"varint,29,opt,name=x9" thrift:"29"`
	X10  int64              `json:"x10,omitempty" protobuf:"varint,30,opt,name=x10" thrift:"30"`
	X11  int64              `json:"x11,omitempty" protobuf:"varint,31,opt,name=x11" thrift:"31"`
	X12  int64              `json:"x12,omitempty" protobuf:"varint,32,opt,name=x12" thrift:"32"`
	X13  int64              `json:"x13,omitempty" protobuf:"varint,33,opt,name=x13" thrift:"33"`
	X14  int64              `json:"x14,omitempty" protobuf:"varint,34,opt,name=x14" thrift:"34"`
	X15  int64              `json:"x15,omitempty" protobuf:"varint,35,opt,name=x15" thrift:"35"`
	X16  int64              `json:"x16,omitempty" protobuf:"varint,36,opt,name=x16" thrift:"36"`
	X17  int64              `json:"x17,omitempty" protobuf:"varint,37,opt,name=x17" thrift:"37"`
	X18  int64              `json:"x18,omitempty" protobuf:"varint,38,opt,name=x18" thrift:"38"`
	X19  int64              `json:"x19,omitempty" protobuf:"varint,39,opt,name=x19" thrift:"39"`
	X20  int64              `json:"x20,omitempty" protobuf:"varint,40,opt,name=x20" thrift:"40"`
	X21  int64              `json:"x21,omitempty" protobuf:"varint,41,opt,name=x21" thrift:"41"`
	X22  int64              `json:"x22,omitempty" protobuf:"varint,42,opt,name=x22" thrift:"42"`
	X23  int64              `json:"x23,omitempty" protobuf:"varint,43,opt,name=x23" thrift:"43"`
}

type Peer121 struct {
	Back *Rec121   `json:"back,omitempty" protobuf:"bytes,1,opt,name=back" thrift:"1"`
	List []*Rec121 `json:"list,omitempty" protobuf:"bytes,2,rep,name=list" thrift:"2"`
	B    bool      `json:"b" protobuf:"varint,3,opt,name=b" thrift:"3"`
}

type Rec122 struct {
	M    map[string]Peer122 `json:"m,omitempty" protobuf:"bytes,6,rep,name=m" protobuf_key:"bytes,1,opt,name=key" protobuf_val:"bytes,2,opt,name=value" thrift:"6"`
	V    int64              `json:"v" protobuf:"varint,1,opt,name=v" thrift:"1"`
	Next *Rec122            `json:"next,omitempty" protobuf:"bytes,2,opt,name=next" thrift:"2"`
	Kids []Rec122           `json:"kids,omitempty" protobuf:"bytes,3,rep,name=kids" thrift:"3"`
	Peer *Peer122           `json:"peer,omitempty" protobuf:"bytes,4,opt,name=peer" thrift:"4"`
	S    string             `json:"s,omitempty" protobuf:"bytes,5,opt,name=s" thrift:"5"`
	X00  int64              `json:"x0,omitempty" protobuf:"varint,20,opt,name=x0" thrift:"20"`
	X01  int64              `json:"x1,omitempty" protobuf:"varint,21,opt,name=x1" thrift:"21"`
	X02  int64              `json:"x2,omitempty" protobuf:"varint,22,opt,name=x2" thrift:"22"`
	X03  int64              `json:"x3,omitempty" protobuf:"varint,23,opt,name=x3" thrift:"23"`
	X04  int64              `json:"x4,omitempty" protobuf:"varint,24,opt,name=x4" thrift:"24"`
	X05  int64              `json:"x5,omitempty" protobuf:"varint,25,opt,name=x5" thrift:"25"`
	X06  int64              `json:"x6,omitempty" protobuf:"varint,26,opt,name=x6" thrift:"26"`
	X07  int64              `json:"x7,omitempty" protobuf:"varint,27,opt,name=x7" thrift:"27"`
	X08  int64              `json:"x8,omitempty" protobuf:"varint,28,opt,name=x8" thrift:"28"`
	X09  int64              `json:"x9,omitempty" protobuf:"varint,29,opt,name=x9" thrift:"29"`
	X10  int64              `json:"x10,omitempty" protobuf:"varint,30,opt,name=x10" thrift:"30"`
	X11  int64              `json:"x11,omitempty" protobuf:"varint,31,opt,name=x11" thrift:"31"`
	X12  int64              `json:"x12,omitempty" protobuf:"varint,32,opt,name=x12" thrift:"32"`
	X13  int64              `json:"x13,omitempty" protobuf:"varint,33,opt,name=x13" thrift:"33"`
	X14  int64              `json:"x14,omitempty" protobuf:"varint,34,opt,name=x14" thrift:"34"`
	X15  int64              `json:"x15,omitempty" protobuf:"varint,35,opt,name=x15" thrift:"35"`
	X16  int64              `json:"x16,omitempty" protobuf:"varint,36,opt,name=x16" thrift:"36"`
	X17  int64              `json:"x17,omitempty" protobuf:"varint,37,opt,name=x17" thrift:"37"`
	X18  int64              `json:"x18,omitempty" protobuf:"varint,38,opt,name=x18" thrift:"38"`
	X19  int64              `json:"x19,omitempty" protobuf:"varint,39,opt,name=x19" thrift:"39"`
	X20  int64              `json:"x20,omitempty" protobuf:"varint,40,opt,name=x20" thrift:"40"`
	X21  int64              `json:"x21,omitempty" protobuf:"varint,41,opt,name=x21" thrift:"41"`
	X22  int64              `json:"x22,omitempty" protobuf:"varint,42,opt,name=x22" thrift:"42"`
	X23  int64              `json:"x23,omitempty" protobuf:"varint,43,opt,name=x23" thrift:"43"`
}

type Peer122 struct {
	Back *Rec122   `json:"back,omitempty" protobuf:"bytes,1,opt,name=back" thrift:"1"`
	List []*Rec122 `json:"list,omitempty" protobuf:"bytes,2,rep,name=list" thrift:"2"`
	B    bool      `json:"b" protobuf:"varint,3,opt,name=b" thrift:"3"`
}

type Rec123 struct {
	M    map[string]Peer123 `json:"m,omitempty" protobuf:"bytes,6,rep,name=m" protobuf_key:"bytes,1,opt,name=key" protobuf_val:"bytes,2,opt,name=value" thrift:"6"`
	V    int64              `json:"v" protobuf:"varint,1,opt,name=v" thrift:"1"`
	Next *Rec123            `json:"next,omitempty" protobuf:"bytes,2,opt,name=next" thrift:"2"`
	Kids []Rec123           `json:"kids,omitempty" protobuf:"bytes,3,rep,name=kids" thrift:"3"`
	Peer *Peer123           `json:"peer,omitempty" protobuf:"bytes,4,opt,name=peer" thrift:"4"`
	S    string             `json:"s,omitempty" protobuf:"bytes,5,opt,name=s" thrift:"5"`
	X00  int64              `json:"x0,omitempty" protobuf:"varint,20,opt,name=x0" thrift:"20"`
	X01  int64              `json:"x1,omitempty" protobuf:"varint,21,opt,name=x1" thrift:"21"`
	X02  int64              `json:"x2,omitempty" protobuf:"varint,22,opt,name=x2" thrift:"22"`
	X03  int64              `json:"x3,omitempty" protobuf:"varint,23,opt,name=x3" thrift:"23"`
	X04  int64              `json:"x4,omitempty" protobuf:"varint,24,opt,name=x4" thrift:"24"`
	X05  int64              `json:"x5,omitempty" protobuf:"varint,25,opt,name=x5" thrift:"25"`
	X06  int64              `json:"x6,omitempty" protobuf:"varint,26,opt,name=x6" thrift:"26"`
	X07  int64              `json:"x7,omitempty" protobuf:"varint,27,opt,name=x7" thrift:"27"`
	X08  int64              `json:"x8,omitempty" protobuf:"varint,28,opt,name=x8" thrift:"28"`
	X09  int64              `json:"x9,omitempty" protobuf:"varint,29,opt,name=x9" thrift:"29"`
	X10  int64              `json:"x10,omitempty" protobuf:"varint,30,opt,name=x10" thrift:"30"`
	X11  int64              `json:"x11,omitempty" protobuf:"varint,31,opt,name=x11" thrift:"31"`
	X12  int64              `json:"x12,omitempty" protobuf:"varint,32,opt,name=x12" thrift:"32"`
	X13  int64              `json:"x13,omitempty" protobuf:"varint,33,opt,name=x13" thrift:"33"`
	X14  int64              `json:"x14,omitempty" protobuf:"varint,34,opt,name=x14" thrift:"34"`
	X15  int64              `json:"x15,omitempty" protobuf:"varint,35,opt,name=x15" thrift:"35"`
	X16  int64              `json:"x16,omitempty" protobuf:"varint,36,opt,name=x16" thrift:"36"`
	X17  int64              `json:"x17,omitempty" protobuf:"varint,37,opt,name=x17" thrift:"37"`
	X18  int64              `json:"x18,omitempty" protobuf:"varint,38,opt,name=x18" thrift:"38"`
	X19  int64              `json:"x19,omitempty" protobuf:"varint,39,opt,name=x19" thrift:"39"`
	X20  int64              `json:"x20,omitempty" protobuf:"varint,40,opt,name=x20" thrift:"40"`
	X21  int64              `json:"x21,omitempty" protobuf:"varint,41,opt,name=x21" thrift:"41"`
	X22  int64              `json:"x22,omitempty" protobuf:"varint,42,opt,name=x22" thrift:"42"`
	X23  int64              `json:"x23,omitempty" protobuf:"varint,43,opt,name=x23" thrift:"43"`
}

type Peer123 struct {
	Back *Rec123   `json:"back,omitempty" protobuf:"bytes,1,opt,name=back" thrift:"1"`
	List []*Rec123 `json:"list,omitempty" protobuf:"bytes,2,rep,name=list" thrift:"2"`
	B    bool      `json:"b" protobuf:"varint,3,opt,name=b" thrift:"3"`
}

type Rec124 struct {
	M    map[string]Peer124 `json:"m,omitempty" protobuf:"bytes,6,rep,name=m" protobuf_key:"bytes,1,opt,name=key" protobuf_val:"bytes,2,opt,name=value" thrift:"6"`
	V    int64              `json:"v" protobuf:"varint,1,opt,name=v" thrift:"1"`
	Next *Rec124            `json:"next,omitempty" protobuf:"bytes,2,opt,name=next" thrift:"2"`
	Kids []Rec124           `json:"kids,omitempty" protobuf:"bytes,3,rep,name=kids" thrift:"3"`
	Peer *Peer124           `json:"peer,omitempty" protobuf:"bytes,4,opt,name=peer" thrift:"4"`
	S    string             `json:"s,omitempty" protobuf:"bytes,5,opt,name=s" thrift:"5"`
	X00  int64              `json:"x0,omitempty" protobuf:"varint,20,opt,name=x0" thrift:"20"`
	X01  int64              `json:"x1,omitempty" protobuf:"varint,21,opt,name=x1" thrift:"21"`
	X02  int64              `json:"x2,omitempty" protobuf:"varint,22,opt,name=x2" thrift:"22"`
	X03  int64              `json:"x3,omitempty" protobuf:"varint,23,opt,name=x3" thrift:"23"`
	X04  int64              `json:"x4,omitempty" protobuf:"varint,24,opt,name=x4" thrift:"24"`
	X05  int64              `json:"x5,omitempty" protobuf:"varint,25,opt,name=x5" thrift:"25"`
	X06  int64              `json:"x6,omitempty" protobuf:"varint,26,opt,name=x6" thrift:"26"`
	X07  int64              `json:"x7,omitempty" protobuf:"varint,27,opt,name=x7" thrift:"27"`
	X08  int64              `json:"x8,omitempty" protobuf:"varint,28,opt,name=x8" thrift:"28"`
	X09  int64              `json:"x9,omitempty" protobuf:"varint,29,opt,name=x9" thrift:"29"`
	X10  int64              `json:"x10,omitempty" protobuf:"varint,30,opt,name=x10" thrift:"30"`
	X11  int64              `json:"x11,omitempty" protobuf:"varint,31,opt,name=x11" thrift:"31"`
	X12  int64              `json:"x12,omitempty" protobuf:"varint,32,opt,name=x12" thrift:"32"`
	X13  int64              `json:"x13,omitempty" protobuf:"varint,33,opt,name=x13" thrift:"33"`
	X14  int64              `json:"x14,omitempty" protobuf:"varint,34,opt,name=x14" thrift:"34"`
	X15  int64              `json:"x15,omitempty" protobuf:"varint,35,opt,name=x15" thrift:"35"`
	X16  int64              `json:"x16,omitempty" protobuf:"varint,36,opt,name=x16" thrift:"36"`
	X17  int64              `json:"x17,omitempty" protobuf:"varint,37,opt,name=x17" thrift:"37"`
	X18  int64              `json:"x18,omitempty" protobuf:"varint,38,opt,name=x18" thrift:"38"`
	X19  int64              `json:"x19,omitempty" protobuf:"varint,39,opt,name=x19" thrift:"39"`
	X20  int64              `json:"x20,omitempty" protobuf:"varint,40,opt,name=x20" thrift:"40"`
	X21  int64              `json:"x21,omitempty" protobuf:"varint,41,opt,name=x21" thrift:"41"`
	X22  int64              `json:"x22,omitempty" protobuf:"varint,42,opt,name=x22" thrift:"42"`
	X23  int64              `json:"x23,omitempty" protobuf:"varint,43,opt,name=x23" thrift:"43"`
}

type Peer124 struct {
	Back *Rec124   `json:"back,omitempty" protobuf:"bytes,1,opt,name=back" thrift:"1"`
	List []*Rec124 `json:"list,omitempty" protobuf:"bytes,2,rep,name=list" thrift:"2"`
	B    bool      `json:"b" protobuf:"varint,3,opt,name=b" thrift:"3"`
}

type Rec125 struct {
	M    map[string]Peer125 `json:"m,omitempty" protobuf:"bytes,6,rep,name=m" protobuf_key:"bytes,1,opt,name=key" protobuf_val:"bytes,2,opt,name=value" thrift:"6"`
	V    int64              `json:"v" protobuf:"varint,1,opt,name=v" thrift:"1"`
	Next *Rec125            `json:"next,omitempty" protobuf:"bytes,2,opt,name=next" thrift:"2"`
	Kids []Rec125           `json:"kids,omitempty" protobuf:"bytes,3,rep,name=kids" thrift:"3"`
	Peer *Peer125           `json:"peer,omitempty" protobuf:"bytes,4,opt,name=peer" thrift:"4"`
	S    string             `json:"s,omitempty" protobuf:"bytes,5,opt,name=s" thrift:"5"`
	X00  int64              `json:"x0,omitempty" protobuf:"varint,20,opt,name=x0" thrift:"20"`
	X01  int64              `json:"x1,omitempty" protobuf:"varint,21,opt,name=x1" thrift:"21"`
	X02  int64              `json:"x2,omitempty" protobuf:"varint,22,opt,name=x2" thrift:"22"`
	X03  int64              `json:"x3,omitempty" protobuf:"varint,23,opt,name=x3" thrift:"23"`
	X04  int64              `json:"x4,omitempty" protobuf:"varint,24,opt,name=x4" thrift:"24"`
	X05  int64              `json:"x5,omitempty" protobuf:"varint,25,opt,name=x5" thrift:"25"`
	X06  int64              `json:"x6,omitempty" protobuf:"varint,26,opt,name=x6" thrift:"26"`
	X07  int64              `json:"x7,omitempty" protobuf:"varint,27,opt,name=x7" thrift:"27"`
	X08  int64              `json:"x8,omitempty" protobuf:"varint,28,opt,name=x8" thrift:"28"`
	X09  int64              `json:"x9,omitempty" protobuf:"varint,29,opt,name=x9" thrift:"29"`
	X10  int64              `json:"x10,omitempty" protobuf:"varint,30,opt,name=x10" thrift:"30"`
	X11  int64              `json:"x11,omitempty" protobuf:"varint,31,opt,name=x11" thrift:"31"`
	X12  int64              `json:"x12,omitempty" protobuf:"varint,32,opt,name=x12" thrift:"32"`
	X13  int64              `json:"x13,omitempty" protobuf:"varint,33,opt,name=x13" thrift:"33"`
	X14  int64              `json:"x14,omitempty" protobuf:"varint,34,opt,name=x14" thrift:"34"`
	X15  int64              `json:"x15,omitempty" protobuf:"varint,35,opt,name=x15" thrift:"35"`
	X16  int64              `json:"x16,omitempty" protobuf:"varint,36,opt,name=x16" thrift:"36"`
	X17  int64              `json:"x17,omitempty" protobuf:"varint,37,opt,name=x17" thrift:"37"`
	X18  int64              `json:"x18,omitempty" protobuf:"varint,38,opt,name=x18" thrift:"38"`
	X19  int64              `json:"x19,omitempty" protobuf:"varint,39,opt,name=x19" thrift:"39"`
	X20  int64              `json:"x20,omitempty" protobuf:"varint,40,opt,name=x20" thrift:"40"`
	X21  int64              `json:"x21,omitempty" protobuf:"varint,41,opt,name=x21" thrift:"41"`
	X22  int64              `json:"x22,omitempty" protobuf:"varint,42,opt,name=x22" thrift:"42"`
	X23  int64              `json:"x23,omitempty" protobuf:"varint,43,opt,name=x23" thrift:"43"`
}

type Peer125 struct {
	Back *Rec125   `json:"back,omitempty" protobuf:"bytes,1,opt,name=back" thrift:"1"`
	List []*Rec125 `json:"list,omitempty" protobuf:"bytes,2,rep,name=list" thrift:"2"`
	B    bool      `json:"b" protobuf:"varint,3,opt,name=b" thrift:"3"`
}

type Rec126 struct {
	M    map[string]Peer126 `json:"m,omitempty" protobuf:"bytes,6,rep,name=m" protobuf_key:"bytes,1,opt,name=key" protobuf_val:"bytes,2,opt,name=value" thrift:"6"`
	V    int64              `json:"v" protobuf:"varint,1,opt,name=v" thrift:"1"`
	Next *Rec126            `json:"next,omitempty" protobuf:"bytes,2,opt,name=next" thrift:"2"`
	Kids []Rec126           `json:"kids,omitempty" protobuf:"bytes,3,rep,name=kids" thrift:"3"`
	Peer *Peer126           `json:"peer,omitempty" protobuf:"bytes,4,opt,name=peer" thrift:"4"`
	S    string             `json:"s,omitempty" protobuf:"bytes,5,opt,name=s" thrift:"5"`
	X00  int64              `json:"x0,omitempty" protobuf:"varint,20,opt,name=x0" thrift:"20"`
	X01  int64              `json:"x1,omitempty" protobuf:"varint,21,opt,name=x1" thrift:"21"`
	X02  int64              `json:"x2,omitempty" protobuf:"varint,22,opt,name=x2" thrift:"22"`
	X03  int64              `json:"x3,omitempty" protobuf:"varint,23,opt,name=x3" thrift:"23"`
	X04  int64              `json:"x4,omitempty" protobuf:"varint,24,opt,name=x4" thrift:"24"`
	X05  int64              `json:"x5,omitempty" protobuf:"varint,25,opt,name=x5" thrift:"25"`
	X06  int64              `json:"x6,omitempty" protobuf:"varint,26,opt,name=x6" thrift:"26"`
	X07  int64              `json:"x7,omitempty" protobuf:"varint,27,opt,name=x7" thrift:"27"`
	X08  int64              `json:"x8,omitempty" protobuf:"varint,28,opt,name=x8" thrift:"28"`
	X09  int64              `json:"x9,omitempty" protobuf:"varint,29,opt,name=x9" thrift:"29"`
	X10  int64              `json:"x10,omitempty" protobuf:"varint,30,opt,name=x10" thrift:"30"`
	X11  int64              `json:"x11,omitempty" protobuf:"varint,31,opt,name=x11" thrift:"31"`
	X12  int64              `json:"x12,omitempty" protobuf:"varint,32,opt,name=x12" thrift:"32"`
	X13  int64              `json:"x13,omitempty" protobuf:"varint,33,opt,name=x13" thrift:"33"`
	X14  int64              `json:"x14,omitempty" protobuf:"varint,34,opt,name=x14" thrift:"34"`
	X15  int64              `json:"x15,omitempty" protobuf:"varint,35,opt,name=x15" thrift:"35"`
	X16  int64              `json:"x16,omitempty" protobuf:"varint,36,opt,name=x16" thrift:"36"`
	X17  int64              `json:"x17,omitempty" protobuf:"varint,37,opt,name=x17" thrift:"37"`
	X18  int64              `json:"x18,omitempty" protobuf:"varint,38,opt,name=x18" thrift:"38"`
	X19  int64              `json:"x19,omitempty" protobuf:"varint,39,opt,name=x19" thrift:"39"`
	X20  int64              `json:"x20,omitempty" protobuf:"varint,40,opt,name=x20" thrift:"40"`
	X21  int64              `json:"x21,omitempty" protobuf:"varint,41,opt,name=x21" thrift:"41"`
	X22  int64              `json:"x22,omitempty" protobuf:"varint,42,opt,name=x22" thrift:"42"`
	X23  int64              `json:"x23,omitempty" protobuf:"varint,43,opt,name=x23" thrift:"43"`
}

type Peer126 struct {
	Back *Rec126   `json:"back,omitempty" protobuf:"bytes,1,opt,name=back" thrift:"1"`
	List []*Rec126 `json:"list,omitempty" protobuf:"bytes,2,rep,name=list" thrift:"2"`
	B    bool      `json:"b" protobuf:"varint,3,opt,name=b" thrift:"3"`
}

type Rec127 struct {
	M    map[string]Peer127 `json:"m,omitempty" protobuf:"bytes,6,rep,name=m" protobuf_key:"bytes,1,opt,name=key" protobuf_val:"bytes,2,opt,name=value" thrift:"6"`
	V    int64              `json:"v" protobuf:"varint,1,opt,name=v" thrift:"1"`
	Next *Rec127            `json:"next,omitempty" protobuf:"bytes,2,opt,name=next" thrift:"2"`
	Kids []Rec127           `json:"kids,omitempty" protobuf:"bytes,3,rep,name=kids" thrift:"3"`
	Peer *Peer127           `json:"peer,omitempty" protobuf:"bytes,4,opt,name=peer" thrift:"4"`
	S    string             `json:"s,omitempty" protobuf:"bytes,5,opt,name=s" thrift:"5"`
	X00  int64              `json:"x0,omitempty" protobuf:"varint,20,opt,name=x0" thrift:"20"`
	X01  int64              `json:"x1,omitempty" protobuf:"varint,21,opt,name=x1" thrift:"21"`
	X02  int64              `json:"x2,omitempty" protobuf:"varint,22,opt,name=x2" thrift:"22"`
	X03  int64              `json:"x3,omitempty" protobuf:"varint,23,opt,name=x3" thrift:"23"`
	X04  int64              `json:"x4,omitempty" protobuf:"varint,24,opt,name=x4" thrift:"24"`
	X05  int64              `json:"x5,omitempty" protobuf:"varint,25,opt,name=x5" thrift:"25"`
	X06  int64              `json:"x6,omitempty" protobuf:"varint,26,opt,name=x6" thrift:"26"`
	X07  int64              `json:"x7,omitempty" protobuf:"varint,27,opt,name=x7" thrift:"27"`
	X08  int64              `json:"x8,omitempty" protobuf:"varint,28,opt,name=x8" thrift:"28"`
	X09  int64              `json:"x9,omitempty" protobuf:"varint,29,opt,name=x9" thrift:"29"`
	X10  int64              `json:"x10,omitempty" protobuf:"varint,30,opt,name=x10" thrift:"30"`
	X11  int64              `json:"x11,omitempty" protobuf:"varint,31,opt,name=x11" thrift:"31"`
	X12  int64              `json:"x12,omitempty" protobuf:"varint,32,opt,name=x12" thrift:"32"`
	X13  int64              `json:"x13,omitempty" protobuf:"varint,33,opt,name=x13" thrift:"33"`
	X14  int64              `json:"x14,omitempty" protobuf:"varint,34,opt,name=x14" thrift:"34"`
	X15  int64              `json:"x15,omitempty" protobuf:"varint,35,opt,name=x15" thrift:"35"`
	X16  int64              `json:"x16,omitempty" protobuf:"varint,36,opt,name=x16" thrift:"36"`
	X17  int64              `json:"x17,omitempty" protobuf:"varint,37,opt,name=x17" thrift:"37"`
	X18  int64              `json:"x18,omitempty" protobuf:"varint,38,opt,name=x18" thrift:"38"`
	X19  int64              `json:"x19,omitempty" protobuf:"varint,39,opt,name=x19" thrift:"39"`
	X20  int64              `json:"x20,omitempty" protobuf:"varint,40,opt,name=x20" thrift:"40"`
	X21  int64              `json:"x21,omitempty" protobuf:"varint,41,opt,name=x21" thrift:"41"`
	X22  int64              `json:"x22,omitempty" protobuf:"varint,42,opt,name=x22" thrift:"42"`
	X23  int64              `json:"x23,omitempty" protobuf:"varint,43,opt,name=x23" thrift:"43"`
}

type Peer127 struct {
	Back *Rec127   `json:"back,omitempty" protobuf:"bytes,1,opt,name=back" thrift:"1"`
	List []*Rec127 `json:"list,omitempty" protobuf:"bytes,2,rep,name=list" thrift:"2"`
	B    bool      `json:"b" protobuf:"varint,3,opt,name=b" thrift:"3"`
}

type Rec128 struct {
	M    map[string]Peer128 `json:"m,omitempty" protobuf:"bytes,6,rep,name=m" protobuf_key:"bytes,1,opt,name=key" protobuf_val:"bytes,2,opt,name=value" thrift:"6"`
	V    int64              `json:"v" protobuf:"varint,1,opt,name=v" thrift:"1"`
	Next *Rec128            `json:"next,omitempty" protobuf:"bytes,2,opt,name=next" thrift:"2"`
	Kids []Rec128           `json:"kids,omitempty" protobuf:"bytes,3,rep,name=kids" thrift:"3"`
	Peer *Peer128           `json:"peer,omitempty" protobuf:"bytes,4,opt,name=peer" thrift:"4"`
	S    string             `json:"s,omitempty" protobuf:"bytes,5,opt,name=s" thrift:"5"`
	X00  int64              `json:"x0,omitempty" protobuf:"varint,20,opt,name=x0" thrift:"20"`
	X01  int64              `json:"x1,omitempty" protobuf:"varint,21,opt,name=x1" thrift:"21"`
	X02  int64              `json:"x2,omitempty" protobuf:"varint,22,opt,name=x2" thrift:"22"`
	X03  int64              `json:"x3,omitempty" protobuf:"varint,23,opt,name=x3" thrift:"23"`
	X04  int64              `json:"x4,omitempty" protobuf:"varint,24,opt,name=x4" thrift:"24"`
	X05  int64              `json:"x5,omitempty" protobuf:"varint,25,opt,name=x5" thrift:"25"`
	X06  int64              `json:"x6,omitempty" protobuf:"varint,26,opt,name=x6" thrift:"26"`
	X07  int64              `json:"x7,omitempty" protobuf:"varint,27,opt,name=x7" thrift:"27"`
	X08  int64              `json:"x8,omitempty" protobuf:"varint,28,opt,name=x8" thrift:"28"`
	X09  int64              `json:"x9,omitempty" protobuf:"varint,29,opt,name=x9" thrift:"29"`
	X10  int64              `json:"x10,omitempty" protobuf:"varint,30,opt,name=x10" thrift:"30"`
	X11  int64              `json:"x11,omitempty" protobuf:"varint,31,opt,name=x11" thrift:"31"`
	X12  int64              `json:"x12,omitempty" protobuf:"varint,32,opt,name=x12" thrift:"32"`
	X13  int64              `json:"x13,omitempty" protobuf:"varint,33,opt,name=x13" thrift:"33"`
	X14  int64              `json:"x14,omitempty" protobuf:"varint,34,opt,name=x14" thrift:"34"`
	X15  int64              `json:"x15,omitempty" protobuf:"varint,35,opt,name=x15" thrift:"35"`
	X16  int64              `json:"x16,omitempty" protobuf:"varint,36,opt,name=x16" thrift:"36"`
	X17  int64              `json:"x17,omitempty" protobuf:"varint,37,opt,name=x17" thrift:"37"`
	X18  int64              `json:"x18,omitempty" protobuf:"varint,38,opt,name=x18" thrift:"38"`
	X19  int64              `json:"x19,omitempty" protobuf:"varint,39,opt,name=x19" thrift:"39"`
	X20  int64              `json:"x20,omitempty" protobuf:"varint,40,opt,name=x20" thrift:"40"`
	X21  int64              `json:"x21,omitempty" protobuf:"varint,41,opt,name=x21" thrift:"41"`
	X22  int64              `json:"x22,omitempty" protobuf:"varint,42,opt,name=x22" thrift:"42"`
	X23  int64              `json:"x23,omitempty" protobuf:"varint,43,opt,name=x23" thrift:"43"`
}

type Peer128 struct {
	Back *Rec128   `json:"back,omitempty" protobuf:"bytes,1,opt,name=back" thrift:"1"`
	List []*Rec128 `json:"list,omitempty" protobuf:"bytes,2,rep,name=list" thrift:"2"`
	B    bool      `json:"b" protobuf:"varint,3,opt,name=b" thrift:"3"`
}

type Rec129 struct {
	M    map[string]Peer129 `json:"m,omitempty" protobuf:"bytes,6,rep,name=m" protobuf_key:"bytes,1,opt,name=key" protobuf_val:"bytes,2,opt,name=value" thrift:"6"`
	V    int64              `json:"v" protobuf:"varint,1,opt,name=v" thrift:"1"`
	Next *Rec129            `json:"next,omitempty" protobuf:"bytes,2,opt,name=next" thrift:"2"`
	Kids []Rec129           `json:"kids,omitempty" protobuf:"bytes,3,rep,name=kids" thrift:"3"`
	Peer *Peer129           `json:"peer,omitempty" protobuf:"bytes,4,opt,name=peer" thrift:"4"`
	S    string             `json:"s,omitempty" protobuf:"bytes,5,opt,name=s" thrift:"5"`
	X00  int64              `json:"x0,omitempty" protobuf:"varint,20,opt,name=x0" thrift:"20"`
	X01  int64              `json:"x1,omitempty" protobuf:"varint,21,opt,name=x1" thrift:"21"`
	X02  int64              `json:"x2,omitempty" protobuf:"varint,22,opt,name=x2" thrift:"22"`
	X03  int64              `json:"x3,omitempty" protobuf:"varint,23,opt,name=x3" thrift:"23"`
	X04  int64              `json:"x4,omitempty" protobuf:"varint,24,opt,name=x4" thrift:"24"`
	X05  int64              `json:"x5,omitempty" protobuf:"varint,25,opt,name=x5" thrift:"25"`
	X06  int64              `json:"x6,omitempty" protobuf:"varint,26,opt,name=x6" thrift:"26"`
	X07  int64              `json:"x7,omitempty" protobuf:"varint,27,opt,name=x7" thrift:"27"`
	X08  int64              `json:"x8,omitempty" protobuf:"varint,28,opt,name=x8" thrift:"28"`
	X09  int64              `json:"x9,omitempty" protobuf:"varint,29,opt,name=x9" thrift:"29"`
	X10  int64              `json:"x10,omitempty" protobuf:"varint,30,opt,name=x10" thrift:"30"`
	X11  int64              `json:"x11,omitempty" protobuf:"varint,31,opt,name=x11" thrift:"31"`
	X12  int64              `json:"x12,omitempty" protobuf:"varint,32,opt,name=x12" thrift:"32"`
	X13  int64              `json:"x13,omitempty" protobuf:"varint,33,opt,name=x13" thrift:"33"`
	X14  int64              `json:"x14,omitempty" protobuf:"varint,34,opt,name=x14" thrift:"34"`
	X15  int64              `json:"x15,omitempty" protobuf:"varint,35,opt,name=x15" thrift:"35"`
	X16  int64              `json:"x16,omitempty" protobuf:"varint,36,opt,name=x16" thrift:"36"`
	X17  int64              `json:"x17,omitempty" protobuf:"varint,37,opt,name=x17" thrift:"37"`
	X18  int64              `json:"x18,omitempty" protobuf:"varint,38,opt,name=x18" thrift:"38"`
	X19  int64              `json:"x19,omitempty" protobuf:"varint,39,opt,name=x19" thrift:"39"`
	X20  int64              `json:"x20,omitempty" protobuf:"varint,40,opt,name=x20" thrift:"40"`
	X21  int64              `json:"x21,omitempty" protobuf:"varint,41,opt,name=x21" thrift:"41"`
	X22  int64              `json:"x22,omitempty" protobuf:"varint,42,opt,name=x22" thrift:"42"`
	X23  int64              `json:"x23,omitempty" protobuf:"varint,43,opt,name=x23" thrift:"43"`
}

type Peer129 struct {
	Back *Rec129   `json:"back,omitempty" protobuf:"bytes,1,opt,name=back" thrift:"1"`
	List []*Rec129 `json:"list,omitempty" protobuf:"bytes,2,rep,name=list" thrift:"2"`
	B    bool      `json:"b" protobuf:"varint,3,opt,name=b" thrift:"3"`
}

type Rec130 struct {
	M    map[string]Peer130 `json:"m,omitempty" protobuf:"bytes,6,rep,name=m" protobuf_key:"bytes,1,opt,name=key" protobuf_val:"bytes,2,opt,name=value" thrift:"6"`
	V    int64              `json:"v" protobuf:"varint,1,opt,name=v" thrift:"1"`
	Next *Rec130            `json:"next,omitempty" protobuf:"bytes,2,opt,name=next" thrift:"2"`
	Kids []Rec130           `json:"kids,omitempty" protobuf:"bytes,3,rep,name=kids" thrift:"3"`
	Peer *Peer130           `json:"peer,omitempty" protobuf:"bytes,4,opt,name=peer" thrift:"4"`
	S    string             `json:"s,omitempty" protobuf:"bytes,5,opt,name=s" thrift:"5"`
	X00  int64              `json:"x0,omitempty" protobuf:"varint,20,opt,name=x0" thrift:"20"`
	X01  int64              `json:"x1,omitempty" protobuf:"varint,21,opt,name=x1" thrift:"21"`
	X02  int64              `json:"x2,omitempty" protobuf:"varint,22,opt,name=x2" thrift:"22"`
	X03  int64              `json:"x3,omitempty" protobuf:"varint,23,opt,name=x3" thrift:"23"`
	X04  int64              `json:"x4,omitempty" protobuf:"varint,24,opt,name=x4" thrift:"24"`
	X05  int64              `json:"x5,omitempty" protobuf:"varint,25,opt,name=x5" thrift:"25"`
	X06  int64              `json:"x6,omitempty" protobuf:"varint,26,opt,name=x6" thrift:"26"`
	X07  int64              `json:"x7,omitempty" protobuf:"varint,27,opt,name=x7" thrift:"27"`
	X08  int64              `json:"x8,omitempty" protobuf:"varint,28,opt,name=x8" thrift:"28"`
	X09  int64              `json:"x9,omitempty" protobuf:"varint,29,opt,name=x9" thrift:"29"`
	X10  int64              `json:"x10,omitempty" protobuf:"varint,30,opt,name=x10" thrift:"30"`
	X11  int64              `json:"x11,omitempty" protobuf:"varint,31,opt,name=x11" thrift:"31"`
	X12  int64              `json:"x12,omitempty" protobuf:"varint,32,opt,name=x12" thrift:"32"`
	X13  int64              `json:"x13,omitempty" protobuf:"varint,33,opt,name=x13" thrift:"33"`
	X14  int64              `json:"x14,omitempty" protobuf:"varint,34,opt,name=x14" thrift:"34"`
	X15  int64              `json:"x15,omitempty" protobuf:"varint,35,opt,name=x15" thrift:"35"`
	X16  int64              `json:"x16,omitempty" protobuf:"varint,36,opt,name=x16" thrift:"36"`
	X17  int64              `json:"x17,omitempty" protobuf:"varint,37,opt,name=x17" thrift:"37"`
	X18  int64              `json:"x18,omitempty" protobuf:"varint,38,opt,name=x18" thrift:"38"`
	X19  int64              `json:"x19,omitempty" protobuf:"varint,39,opt,name=x19" thrift:"39"`
	X20  int64              `json:"x20,omitempty" protobuf:"varint,40,opt,name=x20" thrift:"40"`
	X21  int64              `json:"x21,omitempty" protobuf:"varint,41,opt,name=x21" thrift:"41"`
	X22  int64              `json:"x22,omitempty" protobuf:"varint,42,opt,name=x22" thrift:"42"`
	X23  int64              `json:"x23,omitempty" protobuf:"varint,43,opt,name=x23" thrift:"43"`
}

type Peer130 struct {
	Back *Rec130   `json:"back,omitempty" protobuf:"bytes,1,opt,name=back" thrift:"1"`
	List []*Rec130 `json:"list,omitempty" protobuf:"bytes,2,rep,name=list" thrift:"2"`
	B    bool      `json:"b" protobuf:"varint,3,opt,name=b" thrift:"3"`
}

type Rec131 struct {
	M    map[string]Peer131 `json:"m,omitempty" protobuf:"bytes,6,rep,name=m" protobuf_key:"bytes,1,opt,name=key" protobuf_val:"bytes,2,opt,name=value" thrift:"6"`
	V    int64              `json:"v" protobuf:"varint,1,opt,name=v" thrift:"1"`
	Next *Rec131            `json:"next,omitempty" protobuf:"bytes,2,opt,name=next" thrift:"2"`
	Kids []Rec131           `json:"kids,omitempty" protobuf:"bytes,3,rep,name=kids" thrift:"3"`
	Peer *Peer131           `json:"peer,omitempty" protobuf:"bytes,4,opt,name=peer" thrift:"4"`
	S    string             `json:"s,omitempty" protobuf:"bytes,5,opt,name=s" thrift:"5"`
	X00  int64              `json:"x0,omitempty" protobuf:"varint,20,opt,name=x0" thrift:"20"`
	X01  int64              `json:"x1,omitempty" protobuf:"varint,21,opt,name=x1" thrift:"21"`
	X02  int64              `json:"x2,omitempty" protobuf:"varint,22,opt,name=x2" thrift:"22"`
	X03  int64              `json:"x3,omitempty" protobuf:"varint,23,opt,name=x3" thrift:"23"`
	X04  int64              `json:"x4,omitempty" protobuf:"varint,24,opt,name=x4" thrift:"24"`
	X05  int64              `json:"x5,omitempty" protobuf:"varint,25,opt,name=x5" thrift:"25"`
	X06  int64              `json:"x6,omitempty" protobuf:"varint,26,opt,name=x6" thrift:"26"`
	X07  int64              `json:"x7,omitempty" protobuf:"varint,27,opt,name=x7" thrift:"27"`
	X08  int64              `json:"x8,omitempty" protobuf:"varint,28,opt,name=x8" thrift:"28"`
	X09  int64              `json:"x9,omitempty" protobuf:"varint,29,opt,name=x9" thrift:"29"`
	X10  int64              `json:"x10,omitempty" protobuf:"varint,30,opt,name=x10" thrift:"30"`
	X11  int64              `json:"x11,omitempty" protobuf:"varint,31,opt,name=x11" thrift:"31"`
	X12  int64              `json:"x12,omitempty" protobuf:"varint,32,opt,name=x12" thrift:"32"`
	X13  int64              `json:"x13,omitempty" protobuf:"varint,33,opt,name=x13" thrift:"33"`
	X14  int64              `json:"x14,omitempty" protobuf:"varint,34,opt,name=x14" thrift:"34"`
	X15  int64              `json:"x15,omitempty" protobuf:"varint,35,opt,name=x15" thrift:"35"`
	X16  int64              `json:"x16,omitempty" protobuf:"varint,36,opt,name=x16" thrift:"36"`
	X17  int64              `json:"x17,omitempty" protobuf:"varint,37,opt,name=x17" thrift:"37"`
	X18  int64              `json:"x18,omitempty" protobuf:"varint,38,opt,name=x18" thrift:"38"`
	X19  int64              `json:"x19,omitempty" protobuf:"varint,39,opt,name=x19" thrift:"39"`
	X20  int64              `json:"x20,omitempty" protobuf:"varint,40,opt,name=x20" thrift:"40"`
	X21  int64              `json:"x21,omitempty" protobuf:"varint,41,opt,name=x21" thrift:"41"`
	X22  int64              `json:"x22,omitempty" protobuf:"varint,42,opt,name=x22" thrift:"42"`
	X23  int64              `json:"x23,omitempty" protobuf:"varint,43,opt,name=x23" thrift:"43"`
}

type Peer131 struct {
	Back *Rec131   `json:"back,omitempty" protobuf:"bytes,1,opt,name=back" thrift:"1"`
	List []*Rec131 `json:"list,omitempty" protobuf:"bytes,2,rep,name=list" thrift:"2"`
	B    bool      `json:"b" protobuf:"varint,3,opt,name=b" thrift:"3"`
}

type Rec132 struct {
	M    map[string]Peer132 `json:"m,omitempty" protobuf:"bytes,6,rep,name=m" protobuf_key:"bytes,1,opt,name=key" protobuf_val:"bytes,2,opt,name=value" thrift:"6"`
	V    int64              `json:"v" protobuf:"varint,1,opt,name=v" thrift:"1"`
	Next *Rec132            `json:"next,omitempty" protobuf:"bytes,2,opt,name=next" thrift:"2"`
	Kids []Rec132           `json:"kids,omitempty" protobuf:"bytes,3,rep,name=kids" thrift:"3"`
	Peer *Peer132           `json:"peer,omitempty" protobuf:"bytes,4,opt,name=peer" thrift:"4"`
	S    string             `json:"s,omitempty" protobuf:"bytes,5,opt,name=s" thrift:"5"`
	X00  int64              `json:"x0,omitempty" protobuf:"varint,20,opt,name=x0" thrift:"20"`
	X01  int64              `json:"x1,omitempty" protobuf:"varint,21,opt,name=x1" thrift:"21"`
	X02  int64              `json:"x2,omitempty" protobuf:"varint,22,opt,name=x2" thrift:"22"`
	X03  int64              `json:"x3,omitempty" protobuf:"varint,23,opt,name=x3" thrift:"23"`
	X04  int64              `json:"x4,omitempty" protobuf:"varint,24,opt,name=x4" thrift:"24"`
	X05  int64              `json:"x5,omitempty" protobuf:"varint,25,opt,name=x5" thrift:"25"`
	X06  int64              `json:"x6,omitempty" protobuf:"varint,26,opt,name=x6" thrift:"26"`
	X07  int64              `json:"x7,omitempty" protobuf:"varint,27,opt,name=x7" thrift:"27"`
	X08  int64              `json:"x8,omitempty" protobuf:"varint,28,opt,name=x8" thrift:"28"`
	X09  int64              `json:"x9,omitempty" protobuf:"varint,29,opt,name=x9" thrift:"29"`
	X10  int64              `json:"x10,omitempty" protobuf:"varint,30,opt,name=x10" thrift:"30"`
	X11  int64              `json:"x11,omitempty" protobuf:"varint,31,opt,name=x11" thrift:"31"`
	X12  int64              `json:"x12,omitempty" protobuf:"varint,32,opt,name=x12" thrift:"32"`
	X13  int64              `json:"x13,omitempty" protobuf:"varint,33,opt,name=x13" thrift:"33"`
	X14  int64              `json:"x14,omitempty" protobuf:"varint,34,opt,name=x14" thrift:"34"`
	X15  int64              `json:"x15,omitempty" protobuf:"varint,35,opt,name=x15" thrift:"35"`
	X16  int64              `json:"x16,omitempty" protobuf:"varint,36,opt,name=x16" thrift:"36"`
	X17  int64              `json:"x17,omitempty" protobuf:"varint,37,opt,name=x17" thrift:"37"`
	X18  int64              `json:"x18,omitempty" protobuf:"varint,38,opt,name=x18" thrift:"38"`
	X19  int64              `json:"x19,omitempty" protobuf:"varint,39,opt,name=x19" thrift:"39"`
	X20  int64              `json:"x20,omitempty" protobuf:"varint,40,opt,name=x20" thrift:"40"`
	X21  int64              `json:"x21,omitempty" protobuf:"varint,41,opt,name=x21" thrift:"41"`
	X22  int64              `json:"x22,omitempty" protobuf:"varint,42,opt,name=x22" thrift:"42"`
	X23  int64              `json:"x23,omitempty" protobuf:"varint,43,opt,name=x23" thrift:"43"`
}

type Peer132 struct {
	Back *Rec132   `json:"back,omitempty" protobuf:"bytes,1,opt,name=back" thrift:"1"`
	List []*Rec132 `json:"list,omitempty" protobuf:"bytes,2,rep,name=list" thrift:"2"`
	B    bool      `json:"b" protobuf:"varint,3,opt,name=b" thrift:"3"`
}

type Rec133 struct {
	M    map[string]Peer133 `json:"m,omitempty" protobuf:"bytes,6,rep,name=m" protobuf_key:"bytes,1,opt,name=key" protobuf_val:"bytes,2,opt,name=value" thrift:"6"`
	V    int64              `json:"v" protobuf:"varint,1,opt,name=v" thrift:"1"`
	Next *Rec133            `json:"next,omitempty" protobuf:"bytes,2,opt,name=next" thrift:"2"`
	Kids []Rec133           `json:"kids,omitempty" protobuf:"bytes,3,rep,name=kids" thrift:"3"`
	Peer *Peer133           `json:"peer,omitempty" protobuf:"bytes,4,opt,name=peer" thrift:"4"`
	S    string             `json:"s,omitempty" protobuf:"bytes,5,opt,name=s" thrift:"5"`
	X00  int64              `json:"x0,omitempty" protobuf:"varint,20,opt,name=x0" thrift:"20"`
	X01  int64              `json:"x1,omitempty" protobuf:"varint,21,opt,name=x1" thrift:"21"`
	X02  int64              `json:"x2,omitempty" protobuf:"varint,22,opt,name=x2" thrift:"22"`
	X03  int64              `json:"x3,omitempty" protobuf:"varint,23,opt,name=x3" thrift:"23"`
	X04  int64              `json:"x4,omitempty" protobuf:"varint,24,opt,name=x4" thrift:"24"`
	X05  int64              `json:"x5,omitempty" protobuf:"varint,25,opt,name=x5" thrift:"25"`
	X06  int64              `json:"x6,omitempty" protobuf:"varint,26,opt,name=x6" thrift:"26"`
	X07  int64              `json:"x7,omitempty" protobuf:"varint,27,opt,name=x7" thrift:"27"`
	X08  int64              `json:"x8,omitempty" protobuf:"varint,28,opt,name=x8" thrift:"28"`
	X09  int64              `json:"x9,omitempty" protobuf:"varint,29,opt,name=x9" thrift:"29"`
	X10  int64              `json:"x10,omitempty" protobuf:"varint,30,opt,name=x10" thrift:"30"`
	X11  int64              `json:"x11,omitempty" protobuf:"varint,31,opt,name=x11" thrift:"31"`
	X12  int64              `json:"x12,omitempty" protobuf:"varint,32,opt,name=x12" thrift:"32"`
	X13  int64              `json:"x13,omitempty" protobuf:"varint,33,opt,name=x13" thrift:"33"`
	X14  int64              `json:"x14,omitempty" protobuf:"varint,34,opt,name=x14" thrift:"34"`
	X15  int64              `json:"x15,omitempty" protobuf:"varint,35,opt,name=x15" thrift:"35"`
	X16  int64              `json:"x16,omitempty" protobuf:"varint,36,opt,name=x16" thrift:"36"`
	X17  int64              `json:"x17,omitempty" protobuf:"varint,37,opt,name=x17" thrift:"37"`
	X18  int64              `json:"x18,omitempty" protobuf:"varint,38,opt,name=x18" thrift:"38"`
	X19  int64              `json:"x19,omitempty" protobuf:"varint,39,opt,name=x19" thrift:"39"`
	X20  int64              `json:"x20,omitempty" protobuf:"varint,40,opt,name=x20" thrift:"40"`
	X21  int64              `json:"x21,omitempty" protobuf:"varint,41,opt,name=x21" thrift:"41"`
	X22  int64              `json:"x22,omitempty" protobuf:"varint,42,opt,name=x22" thrift:"42"`
	X23  int64              `json:"x23,omitempty" protobuf:"varint,43,opt,name=x23" thrift:"43"`
}

type Peer133 struct {
	Back *Rec133   `json:"back,omitempty" protobuf:"bytes,1,opt,name=back" thrift:"1"`
	List []*Rec133 `json:"list,omitempty" protobuf:"bytes,2,rep,name=list" thrift:"2"`
	B    bool      `json:"b" protobuf:"varint,3,opt,name=b" thrift:"3"`
}

type Rec134 struct {
	M    map[string]Peer134 `json:"m,omitempty" protobuf:"bytes,6,rep,name=m" protobuf_key:"bytes,1,opt,name=key" protobuf_val:"bytes,2,opt,name=value" thrift:"6"`
	V    int64              `json:"v" protobuf:"varint,1,opt,name=v" thrift:"1"`
	Next *Rec134            `json:"next,omitempty" protobuf:"bytes,2,opt,name=next" thrift:"2"`
	Kids []Rec134           `json:"kids,omitempty" protobuf:"bytes,3,rep,name=kids" thrift:"3"`
	Peer *Peer134           `json:"peer,omitempty" protobuf:"bytes,4,opt,name=peer" thrift:"4"`
	S    string             `json:"s,omitempty" protobuf:"bytes,5,opt,name=s" thrift:"5"`
	X00  int64              `json:"x0,omitempty" protobuf:"varint,20,opt,name=x0" thrift:"20"`
	X01  int64              `json:"x1,omitempty" protobuf:"varint,21,opt,name=x1" thrift:"21"`
	X02  int64              `json:"x2,omitempty" protobuf:"varint,22,opt,name=x2" thrift:"22"`
	X03  int64              `json:"x3,omitempty" protobuf:"varint,23,opt,name=x3" thrift:"23"`
	X04  int64              `json:"x4,omitempty" protobuf:"varint,24,opt,name=x4" thrift:"24"`
	X05  int64              `json:"x5,omitempty" protobuf:"varint,25,opt,name=x5" thrift:"25"`
	X06  int64              `json:"x6,omitempty" protobuf:"varint,26,opt,name=x6" thrift:"26"`
	X07  int64              `json:"x7,omitempty" protobuf:"varint,27,opt,name=x7" thrift:"27"`
	X08  int64              `json:"x8,omitempty" protobuf:"varint,28,opt,name=x8" thrift:"28"`
	X09  int64              `json:"x9,omitempty" protobuf:"varint,29,opt,name=x9" thrift:"29"`
	X10  int64              `json:"x10,omitempty" protobuf:"varint,30,opt,name=x10" thrift:"30"`
	X11  int64              `json:"x11,omitempty" protobuf:"varint,31,opt,name=x11" thrift:"31"`
	X12  int64              `json:"x12,omitempty" protobuf:"varint,32,opt,name=x12" thrift:"32"`
	X13  int64              `json:"x13,omitempty" protobuf:"varint,33,opt,name=x13" thrift:"33"`
	X14  int64              `json:"x14,omitempty" protobuf:"varint,34,opt,name=x14" thrift:"34"`
	X15  int64              `json:"x15,omitempty" protobuf:"varint,35,opt,name=x15" thrift:"35"`
	X16  int64              `json:"x16,omitempty" protobuf:"varint,36,opt,name=x16" thrift:"36"`
	X17  int64              `json:"x17,omitempty" protobuf:"varint,37,opt,name=x17" thrift:"37"`
	X18  int64              `json:"x18,omitempty" protobuf:"varint,38,opt,name=x18" thrift:"38"`
	X19  int64              `json:"x19,omitempty" protobuf:"varint,39,opt,name=x19" thrift:"39"`
	X20  int64              `json:"x20,omitempty" protobuf:"varint,40,opt,name=x20" thrift:"40"`
	X21  int64              `json:"x21,omitempty" protobuf:"varint,41,opt,name=x21" thrift:"41"`
	X22  int64              `json:"x22,omitempty" protobuf:"varint,42,opt,name=x22" thrift:"42"`
	X23  int64              `json:"x23,omitempty" protobuf:"varint,43,opt,name=x23" thrift:"43"`
}

type Peer134 struct {
	Back *Rec134   `json:"back,omitempty" protobuf:"bytes,1,opt,name=back" thrift:"1"`
	List []*Rec134 `json:"list,omitempty" protobuf:"bytes,2,rep,name=list" thrift:"2"`
	B    bool      `json:"b" protobuf:"varint,3,opt,name=b" thrift:"3"`
}

type Rec135 struct {
	M    map[string]Peer135 `json:"m,omitempty" protobuf:"bytes,6,rep,name=m" protobuf_key:"bytes,1,opt,name=key" protobuf_val:"bytes,2,opt,name=value" thrift:"6"`
	V    int64              `json:"v" protobuf:"varint,1,opt,name=v" thrift:"1"`
	Next *Rec135            `json:"next,omitempty" protobuf:"bytes,2,opt,name=next" thrift:"2"`
	Kids []Rec135           `json:"kids,omitempty" protobuf:"bytes,3,rep,name=kids" thrift:"3"`
	Peer *Peer135           `json:"peer,omitempty" protobuf:"bytes,4,opt,name=peer" thrift:"4"`
	S    string             `json:"s,omitempty" protobuf:"bytes,5,opt,name=s" thrift:"5"`
	X00  int64              `json:"x0,omitempty" protobuf:"varint,20,opt,name=x0" thrift:"20"`
	X01  int64              `json:"x1,omitempty" protobuf:"varint,21,opt,name=x1" thrift:"21"`
	X02  int64              `json:"x2,omitempty" protobuf:"varint,22,opt,name=x2" thrift:"22"`
	X03  int64              `json:"x3,omitempty" protobuf:"varint,23,opt,name=x3" thrift:"23"`
	X04  int64              `json:"x4,omitempty" protobuf:"varint,24,opt,name=x4" thrift:"24"`
	X05  int64              `json:"x5,omitempty" protobuf:"varint,25,opt,name=x5" thrift:"25"`
	X06  int64              `json:"x6,omitempty" protobuf:"varint,26,opt,name=x6" thrift:"26"`
	X07  int64              `json:"x7,omitempty" protobuf:"varint,27,opt,name=x7" thrift:"27"`
	X08  int64              `json:"x8,omitempty" protobuf:"varint,28,opt,name=x8" thrift:"28"`
	X09  int64              `json:"x9,omitempty" protobuf:"varint,29,opt,name=x9" thrift:"29"`
	X10  int64              `json:"x10,omitempty" protobuf:"varint,30,opt,name=x10" thrift:"30"`
	X11  int64              `json:"x11,omitempty" protobuf:"varint,31,opt,name=x11" thrift:"31"`
	X12  int64              `json:"x12,omitempty" protobuf:"varint,32,opt,name=x12" thrift:"32"`
	X13  int64              `json:"x13,omitempty" protobuf:"varint,33,opt,name=x13" thrift:"33"`
	X14  int64              `json:"x14,omitempty" protobuf:"varint,34,opt,name=x14" thrift:"34"`
	X15  int64              `json:"x15,omitempty" protobuf:"varint,35,opt,name=x15" thrift:"35"`
	X16  int64              `json:"x16,omitempty" protobuf:"varint,36,opt,name=x16" thrift:"36"`
	X17  int64              `json:"x17,omitempty" protobuf:"varint,37,opt,name=x17" thrift:"37"`
	X18  int64              `json:"x18,omitempty" protobuf:"varint,38,opt,name=x18" thrift:"38"`
	X19  int64              `json:"x19,omitempty" protobuf:"varint,39,opt,name=x19" thrift:"39"`
	X20  int64              `json:"x20,omitempty" protobuf:"varint,40,opt,name=x20" thrift:"40"`
	X21  int64              `json:"x21,omitempty" protobuf:"varint,41,opt,name=x21" thrift:"41"`
	X22  int64              `json:"x22,omitempty" protobuf:"varint,42,opt,name=x22" thrift:"42"`
	X23  int64              `json:"x23,omitempty" protobuf:"varint,43,opt,name=x23" thrift:"43"`
}

type Peer135 struct {
	Back *Rec135   `json:"back,omitempty" protobuf:"bytes,1,opt,name=back" thrift:"1"`
	List []*Rec135 `json:"list,omitempty" protobuf:"bytes,2,rep,name=list" thrift:"2"`
	B    bool      `json:"b" protobuf:"varint,3,opt,name=b" thrift:"3"`
}

type Rec136 struct {
	M    map[string]Peer136 `json:"m,omitempty" protobuf:"bytes,6,rep,name=m" protobuf_key:"bytes,1,opt,name=key" protobuf_val:"bytes,2,opt,name=value" thrift:"6"`
	V    int64              `json:"v" protobuf:"varint,1,opt,name=v" thrift:"1"`
	Next *Rec136            `json:"next,omitempty" protobuf:"bytes,2,opt,name=next" thrift:"2"`
	Kids []Rec136           `json:"kids,omitempty" protobuf:"bytes,3,rep,name=kids" thrift:"3"`
	Peer *Peer136           `json:"peer,omitempty" protobuf:"bytes,4,opt,name=peer" thrift:"4"`
	S    string             `json:"s,omitempty" protobuf:"bytes,5,opt,name=s" thrift:"5"`
	X00  int64              `json:"x0,omitempty" protobuf:"varint,20,opt,name=x0" thrift:"20"`
	X01  int64              `json:"x1,omitempty" protobuf:"varint,21,opt,name=x1" thrift:"21"`
	X02  int64              `json:"x2,omitempty" protobuf:"varint,22,opt,name=x2" thrift:"22"`
	X03  int64              `json:"x3,omitempty" protobuf:"varint,23,opt,name=x3" thrift:"23"`
	X04  int64              `json:"x4,omitempty" protobuf:"varint,24,opt,name=x4" thrift:"24"`
	X05  int64              `json:"x5,omitempty" protobuf:"varint,25,opt,name=x5" thrift:"25"`
	X06  int64              `json:"x6,omitempty" protobuf:"varint,26,opt,name=x6" thrift:"26"`
	X07  int64              `json:"x7,omitempty" protobuf:"varint,27,opt,name=x7" thrift:"27"`
	X08  int64              `json:"x8,omitempty" protobuf:"varint,28,opt,name=x8" thrift:"28"`
	X09  int64              `json:"x9,omitempty" protobuf:"varint,29,opt,name=x9" thrift:"29"`
	X10  int64              `json:"x10,omitempty" protobuf:"varint,30,opt,name=x10" thrift:"30"`
	X11  int64              `json:"x11,omitempty" protobuf:"varint,31,opt,name=x11" thrift:"31"`
	X12  int64              `json:"x12,omitempty" protobuf:"varint,32,opt,name=x12" thrift:"32"`
	X13  int64              `json:"x13,omitempty" protobuf:"varint,33,opt,name=x13" thrift:"33"`
	X14  int64              `json:"x14,omitempty" protobuf:"varint,34,opt,name=x14" thrift:"34"`
	X15  int64              `json:"x15,omitempty" protobuf:"varint,35,opt,name=x15" thrift:"35"`
	X16  int64              `json:"x16,omitempty" protobuf:"varint,36,opt,name=x16" thrift:"36"`
	X17  int64              `json:"x17,omitempty" protobuf:"varint,37,opt,name=x17" thrift:"37"`
	X18  int64              `json:"x18,omitempty" protobuf:"varint,38,opt,name=x18" thrift:"38"`
	X19  int64              `json:"x19,omitempty" protobuf:"varint,39,opt,name=x19" thrift:"39"`
	X20  int64              `json:"x20,omitempty" protobuf:"varint,40,opt,name=x20" thrift:"40"`
	X21  int64              `json:"x21,omitempty" protobuf:"varint,41,opt,name=x21" thrift:"41"`
	X22  int64              `json:"x22,omitempty" protobuf:"varint,42,opt,name=x22" thrift:"42"`
	X23  int64              `json:"x23,omitempty" protobuf:"varint,43,opt,name=x23" thrift:"43"`
}

type Peer136 struct {
	Back *Rec136   `json:"back,omitempty" protobuf:"bytes,1,opt,name=back" thrift:"1"`
	List []*Rec136 `json:"list,omitempty" protobuf:"bytes,2,rep,name=list" thrift:"2"`
	B    bool      `json:"b" protobuf:"varint,3,opt,name=b" thrift:"3"`
}

type Rec137 struct {
	M    map[string]Peer137 `json:"m,omitempty" protobuf:"bytes,6,rep,name=m" protobuf_key:"bytes,1,opt,name=key" protobuf_val:"bytes,2,opt,name=value" thrift:"6"`
	V    int64              `json:"v" protobuf:"varint,1,opt,name=v" thrift:"1"`
	Next *Rec137            `json:"next,omitempty" protobuf:"bytes,2,opt,name=next" thrift:"2"`
	Kids []Rec137           `json:"kids,omitempty" protobuf:"bytes,3,rep,name=kids" thrift:"3"`
	Peer *Peer137           `json:"peer,omitempty" protobuf:"bytes,4,opt,name=peer" thrift:"4"`
	S    string             `json:"s,omitempty" protobuf:"bytes,5,opt,name=s" thrift:"5"`
	X00  int64              `json:"x0,omitempty" protobuf:"varint,20,opt,name=x0" thrift:"20"`
	X01  int64              `json:"x1,omitempty" protobuf:"varint,21,opt,name=x1" thrift:"21"`
	X02  int64              `json:"x2,omitempty" protobuf:"varint,22,opt,name=x2" thrift:"22"`
	X03  int64              `json:"x3,omitempty" protobuf:"varint,23,opt,name=x3" thrift:"23"`
	X04  int64              `json:"x4,omitempty" protobuf:"varint,24,opt,name=x4" thrift:"24"`
	X05  int64              `json:"x5,omitempty" protobuf:"varint,25,opt,name=x5" thrift:"25"`
	X06  int64              `json:"x6,omitempty" protobuf:"varint,26,opt,name=x6" thrift:"26"`
	X07  int64              `json:"x7,omitempty" protobuf:"varint,27,opt,name=x7" thrift:"27"`
	X08  int64              `json:"x8,omitempty" protobuf:"varint,28,opt,name=x8" thrift:"28"`
	X09  int64              `json:"x9,omitempty" protobuf:"varint,29,opt,name=x9" thrift:"29"`
	X10  int64              `json:"x10,omitempty" protobuf:"varint,30,opt,name=x10" thrift:"30"`
	X11  int64              `json:"x11,omitempty" protobuf:"varint,31,opt,name=x11" thrift:"31"`
	X12  int64              `json:"x12,omitempty" protobuf:"varint,32,opt,name=x12" thrift:"32"`
	X13  int64              `json:"x13,omitempty" protobuf:"varint,33,opt,name=x13" thrift:"33"`
	X14  int64              `json:"x14,omitempty" protobuf:"varint,34,opt,name=x14" thrift:"34"`
	X15  int64              `json:"x15,omitempty" protobuf:"varint,35,opt,name=x15" thrift:"35"`
	X16  int64              `json:"x16,omitempty" protobuf:"varint,36,opt,name=x16" thrift:"36"`
	X17  int64              `json:"x17,omitempty" protobuf:"varint,37,opt,name=x17" thrift:"37"`
	X18  int64              `json:"x18,omitempty" protobuf:"varint,38,opt,name=x18" thrift:"38"`
	X19  int64              `json:"x19,omitempty" protobuf:"varint,39,opt,name=x19" thrift:"39"`
	X20  int64              `json:"x20,omitempty" protobuf:"varint,40,opt,name=x20" thrift:"40"`
	X21  int64              `json:"x21,omitempty" protobuf:"varint,41,opt,name=x21" thrift:"41"`
	X22  int64              `json:"x22,omitempty" protobuf:"varint,42,opt,name=x22" thrift:"42"`
	X23  int64              `json:"x23,omitempty" protobuf:"varint,43,opt,name=x23" thrift:"43"`
}

type Peer137 struct {
	Back *Rec137   `json:"back,omitempty" protobuf:"bytes,1,opt,name=back" thrift:"1"`
	List []*Rec137 `json:"list,omitempty" protobuf:"bytes,2,rep,name=list" thrift:"2"`
	B    bool      `json:"b" protobuf:"varint,3,opt,name=b" thrift:"3"`
}

type Rec138 struct {
	M    map[string]Peer138 `json:"m,omitempty" protobuf:"bytes,6,rep,name=m" protobuf_key:"bytes,1,opt,name=key" protobuf_val:"bytes,2,opt,name=value" thrift:"6"`
	V    int64              `json:"v" protobuf:"varint,1,opt,name=v" thrift:"1"`
	Next *Rec138            `json:"next,omitempty" protobuf:"bytes,2,opt,name=next" thrift:"2"`
	Kids []Rec138           `json:"kids,omitempty" protobuf:"bytes,3,rep,name=kids" thrift:"3"`
	Peer *Peer138           `json:"peer,omitempty" protobuf:"bytes,4,opt,name=peer" thrift:"4"`
	S    string             `json:"s,omitempty" protobuf:"bytes,5,opt,name=s" thrift:"5"`
	X00  int64              `json:"x0,omitempty" protobuf:"varint,20,opt,name=x0" thrift:"20"`
	X01  int64              `json:"x1,omitempty" protobuf:"varint,21,opt,name=x1" thrift:"21"`
	X02  int64              `json:"x2,omitempty" protobuf:"varint,22,opt,name=x2" thrift:"22"`
	X03  int64              `json:"x3,omitempty" protobuf:"varint,23,opt,name=x3" thrift:"23"`
	X04  int64              `json:"x4,omitempty" protobuf:"varint,24,opt,name=x4" thrift:"24"`
	X05  int64              `json:"x5,omitempty" protobuf:"varint,25,opt,name=x5" thrift:"25"`
	X06  int64              `json:"x6,omitempty" protobuf:"varint,26,opt,name=x6" thrift:"26"`
	X07  int64              `json:"x7,omitempty" protobuf:"varint,27,opt,name=x7" thrift:"27"`
	X08  int64              `json:"x8,omitempty" protobuf:"varint,28,opt,name=x8" thrift:"28"`
	X09  int64              `json:"x9,omitempty" protobuf:"varint,29,opt,name=x9" thrift:"29"`
	X10  int64              `json:"x10,omitempty" protobuf:"varint,30,opt,name=x10" thrift:"30"`
	X11  int64              `json:"x11,omitempty" protobuf:"varint,31,opt,name=x11" thrift:"31"`
	X12  int64              `json:"x12,omitempty" protobuf:"varint,32,opt,name=x12" thrift:"32"`
	X13  int64              `json:"x13,omitempty" protobuf:"varint,33,opt,name=x13" thrift:"33"`
	X14  int64              `json:"x14,omitempty" protobuf:"varint,34,opt,name=x14" thrift:"34"`
	X15  int64              `json:"x15,omitempty" protobuf:"varint,35,opt,name=x15" thrift:"35"`
	X16  int64              `json:"x16,omitempty" protobuf:"varint,36,opt,name=x16" thrift:"36"`
	X17  int64              `json:"x17,omitempty" protobuf:"varint,37,opt,name=x17" thrift:"37"`
	X18  int64              `json:"x18,omitempty" protobuf:"varint,38,opt,name=x18" thrift:"38"`
	X19  int64              `json:"x19,omitempty" protobuf:"varint,39,opt,name=x19" thrift:"39"`
	X20  int64              `json:"x20,omitempty" protobuf:"varint,40,opt,name=x20" thrift:"40"`
	X21  int64              `json:"x21,omitempty" protobuf:"varint,41,opt,name=x21" thrift:"41"`
	X22  int64              `json:"x22,omitempty" protobuf:"varint,42,opt,name=x22" thrift:"42"`
	X23  int64              `json:"x23,omitempty" protobuf:"varint,43,opt,name=x23" thrift:"43"`
}

type Peer138 struct {
	Back *Rec138   `json:"back,omitempty" protobuf:"bytes,1,opt,name=back" thrift:"1"`
	List []*Rec138 `json:"list,omitempty" protobuf:"bytes,2,rep,name=list" thrift:"2"`
	B    bool      `json:"b" protobuf:"varint,3,opt,name=b" thrift:"3"`
}

type Rec139 struct {
	M    map[string]Peer139 `json:"m,omitempty" protobuf:"bytes,6,rep,name=m" protobuf_key:"bytes,1,opt,name=key" protobuf_val:"bytes,2,opt,name=value" thrift:"6"`
	V    int64              `json:"v" protobuf:"varint,1,opt,name=v" thrift:"1"`
	Next *Rec139            `json:"next,omitempty" protobuf:"bytes,2,opt,name=next" thrift:"2"`
	Kids []Rec139           `json:"kids,omitempty" protobuf:"bytes,3,rep,name=kids" thrift:"3"`
	Peer *Peer139           `json:"peer,omitempty" protobuf:"bytes,4,opt,name=peer" thrift:"4"`
	S    string             `json:"s,omitempty" protobuf:"bytes,5,opt,name=s" thrift:"5"`
	X00  int64              `json:"x0,omitempty" protobuf:"varint,20,opt,name=x0" thrift:"20"`
	X01  int64              `json:"x1,omitempty" protobuf:"varint,21,opt,name=x1" thrift:"21"`
	X02  int64              `json:"x2,omitempty" protobuf:"varint,22,opt,name=x2" thrift:"22"`
	X03  int64              `json:"x3,omitempty" protobuf:"varint,23,opt,name=x3" thrift:"23"`
	X04  int64              `json:"x4,omitempty" protobuf:"varint,24,opt,name=x4" thrift:"24"`
	X05  int64              `json:"x5,omitempty" protobuf:"varint,25,opt,name=x5" thrift:"25"`
	X06  int64              `json:"x6,omitempty" protobuf:"varint,26,opt,name=x6" thrift:"26"`
	X07  int64              `json:"x7,omitempty" protobuf:"varint,27,opt,name=x7" thrift:"27"`
	X08  int64              `json:"x8,omitempty" protobuf:"varint,28,opt,name=x8" thrift:"28"`
	X09  int64              `json:"x9,omitempty" protobuf:"varint,29,opt,name=x9" thrift:"29"`
	X10  int64              `json:"x10,omitempty" protobuf:"varint,30,opt,name=x10" thrift:"30"`
	X11  int64              `json:"x11,omitempty" protobuf:"varint,31,opt,name=x11" thrift:"31"`
	X12  int64              `json:"x12,omitempty" protobuf:"varint,32,opt,name=x12" thrift:"32"`
	X13  int64              `json:"x13,omitempty" protobuf:"varint,33,opt,name=x13" thrift:"33"`
	X14  int64              `json:"x14,omitempty" protobuf:"varint,34,opt,name=x14" thrift:"34"`
	X15  int64              `json:"x15,omitempty" protobuf:"varint,35,opt,name=x15" thrift:"35"`
	X16  int64              `json:"x16,omitempty" protobuf:"varint,36,opt,name=x16" thrift:"36"`
	X17  int64              `json:"x17,omitempty" protobuf:"varint,37,opt,name=x17" thrift:"37"`
	X18  int64              `json:"x18,omitempty" protobuf:"varint,38,opt,name=x18" thrift:"38"`
	X19  int64              `json:"x19,omitempty" protobuf:"varint,39,opt,name=x19" thrift:"39"`
	X20  int64              `json:"x20,omitempty" protobuf:"varint,40,opt,name=x20" thrift:"40"`
	X21  int64              `json:"x21,omitempty" protobuf:"varint,41,opt,name=x21" thrift:"41"`
	X22  int64              `json:"x22,omitempty" protobuf:"varint,42,opt,name=x22" thrift:"42"`
	X23  int64              `json:"x23,omitempty" protobuf:"varint,43,opt,name=x23" thrift:"43"`
}

type Peer139 struct {
	Back *Rec139   `json:"back,omitempty" protobuf:"bytes,1,opt,name=back" thrift:"1"`
	List []*Rec139 `json:"list,omitempty" protobuf:"bytes,2,rep,name=list" thrift:"2"`
	B    bool      `json:"b" protobuf:"varint,3,opt,name=b" thrift:"3"`
}

type Rec140 struct {
	M    map[string]Peer140 `json:"m,omitempty" protobuf:"bytes,6,rep,name=m" protobuf_key:"bytes,1,opt,name=key" protobuf_val:"bytes,2,opt,name=value" thrift:"6"`
	V    int64              `json:"v" protobuf:"varint,1,opt,name=v" thrift:"1"`
	Next *Rec140            `json:"next,omitempty" protobuf:"bytes,2,opt,name=next" thrift:"2"`
	Kids []Rec140           `json:"kids,omitempty" protobuf:"bytes,3,rep,name=kids" thrift:"3"`
	Peer *Peer140           `json:"peer,omitempty" protobuf:"bytes,4,opt,name=peer" thrift:"4"`
	S    string             `json:"s,omitempty" protobuf:"bytes,5,opt,name=s" thrift:"5"`
	X00  int64              `json:"x0,omitempty" protobuf:"varint,20,opt,name=x0" thrift:"20"`
	X01  int64              `json:"x1,omitempty" protobuf:"varint,21,opt,name=x1" thrift:"21"`
	X02  int64              `json:"x2,omitempty" protobuf:"varint,22,opt,name=x2" thrift:"22"`
	X03  int64              `json:"x3,omitempty" protobuf:"varint,23,opt,name=x3" thrift:"23"`
	X04  int64              `json:"x4,omitempty" protobuf:"varint,24,opt,name=x4" thrift:"24"`
	X05  int64              `json:"x5,omitempty" protobuf:"varint,25,opt,name=x5" thrift:"25"`
	X06  int64              `json:"x6,omitempty" protobuf:"varint,26,opt,name=x6" thrift:"26"`
	X07  int64              `json:"x7,omitempty" protobuf:"varint,27,opt,name=x7" thrift:"27"`
	X08  int64              `json:"x8,omitempty" protobuf:"varint,28,opt,name=x8" thrift:"28"`
	X09  int64              `json:"x9,omitempty" protobuf:"varint,29,opt,name=x9" thrift:"29"`
	X10  int64              `json:"x10,omitempty" protobuf:"varint,30,opt,name=x10" thrift:"30"`
	X11  int64              `json:"x11,omitempty" protobuf:"varint,31,opt,name=x11" thrift:"31"`
	X12  int64              `json:"x12,omitempty" protobuf:"varint,32,opt,name=x12" thrift:"32"`
	X13  int64              `json:"x13,omitempty" protobuf:"varint,33,opt,name=x13" thrift:"33"`
	X14  int64              `json:"x14,omitempty" protobuf:"varint,34,opt,name=x14" thrift:"34"`
	X15  int64              `json:"x15,omitempty" protobuf:"varint,35,opt,name=x15" thrift:"35"`
	X16  int64              `json:"x16,omitempty" protobuf:"varint,36,opt,name=x16" thrift:"36"`
	X17  int64              `json:"x17,omitempty" protobuf:"varint,37,opt,name=x17" thrift:"37"`
	X18  int64              `json:"x18,omitempty" protobuf:"varint,38,opt,name=x18" thrift:"38"`
	X19  int64              `json:"x19,omitempty" protobuf:"varint,39,opt,name=x19" thrift:"39"`
	X20  int64              `json:"x20,omitempty" protobuf:"varint,40,opt,name=x20" thrift:"40"`
	X21  int64              `json:"x21,omitempty" protobuf:"varint,41,opt,name=x21" thrift:"41"`
	X22  int64              `json:"x22,omitempty" protobuf:"varint,42,opt,name=x22" thrift:"42"`
	X23  int64              `json:"x23,omitempty" protobuf:"varint,43,opt,name=x23" thrift:"43"`
}

type Peer140 struct {
	Back *Rec140   `json:"back,omitempty" protobuf:"bytes,1,opt,name=back" thrift:"1"`
	List []*Rec140 `json:"list,omitempty" protobuf:"bytes,2,rep,name=list" thrift:"2"`
	B    bool      `json:"b" protobuf:"varint,3,opt,name=b" thrift:"3"`
}

type Rec141 struct {
	M    map[string]Peer141 `json:"m,omitempty" protobuf:"bytes,6,rep,name=m" protobuf_key:"bytes,1,opt,name=key" protobuf_val:"bytes,2,opt,name=value" thrift:"6"`
	V    int64              `json:"v" protobuf:"varint,1,opt,name=v" thrift:"1"`
	Next *Rec141            `json:"next,omitempty" protobuf:"bytes,2,opt,name=next" thrift:"2"`
	Kids []Rec141           `json:"kids,omitempty" protobuf:"bytes,3,rep,name=kids" thrift:"3"`
	Peer *Peer141           `json:"peer,omitempty" protobuf:"bytes,4,opt,name=peer" thrift:"4"`
	S    string             `json:"s,omitempty" protobuf:"bytes,5,opt,name=s" thrift:"5"`
	X00  int64              `json:"x0,omitempty" protobuf:"varint,20,opt,name=x0" thrift:"20"`
	X01  int64              `json:"x1,omitempty" protobuf:"varint,21,opt,name=x1" thrift:"21"`
	X02  int64              `json:"x2,omitempty" protobuf:"varint,22,opt,name=x2" thrift:"22"`
	X03  int64              `json:"x3,omitempty" protobuf:"varint,23,opt,name=x3" thrift:"23"`
	X04  int64              `json:"x4,omitempty" protobuf:"varint,24,opt,name=x4" thrift:"24"`
	X05  int64              `json:"x5,omitempty" protobuf:"varint,25,opt,name=x5" thrift:"25"`
	X06  int64              `json:"x6,omitempty" protobuf:"varint,26,opt,name=x6" thrift:"26"`
	X07  int64              `json:"x7,omitempty" protobuf:"varint,27,opt,name=x7" thrift:"27"`
	X08  int64              `json:"x8,omitempty" protobuf:"varint,28,opt,name=x8" thrift:"28"`
	X09  int64              `json:"x9,omitempty" protobuf:"varint,29,opt,name=x9" thrift:"29"`
	X10  int64              `json:"x10,omitempty" protobuf:"varint,30,opt,name=x10" thrift:"30"`
	X11  int64              `json:"x11,omitempty" protobuf:"varint,31,opt,name=x11" thrift:"31"`
	X12  int64              `json:"x12,omitempty" protobuf:"varint,32,opt,name=x12" thrift:"32"`
	X13  int64              `json:"x13,omitempty" protobuf:"varint,33,opt,name=x13" thrift:"33"`
	X14  int64              `json:"x14,omitempty" protobuf:"varint,34,opt,name=x14" thrift:"34"`
	X15  int64              `json:"x15,omitempty" protobuf:"varint,35,opt,name=x15" thrift:"35"`
	X16  int64              `json:"x16,omitempty" protobuf:"varint,36,opt,name=x16" thrift:"36"`
	X17  int64              `json:"x17,omitempty" protobuf:"varint,37,opt,name=x17" thrift:"37"`
	X18  int64              `json:"x18,omitempty" protobuf:"varint,38,opt,name=x18" thrift:"38"`
	X19  int64              `json:"x19,omitempty" protobuf:"varint,39,opt,name=x19" thrift:"39"`
	X20  int64              `json:"x20,omitempty" protobuf:"varint,40,opt,name=x20" thrift:"40"`
	X21  int64              `json:"x21,omitempty" protobuf:"varint,41,opt,name=x21" thrift:"41"`
	X22  int64              `json:"x22,omitempty" protobuf:"varint,42,opt,name=x22" thrift:"42"`
	X23  int64              `json:"x23,omitempty" protobuf:"varint,43,opt,name=x23" thrift:"43"`
}

type Peer141 struct {
	Back *Rec141   `json:"back,omitempty" protobuf:"bytes,1,opt,name=back" thrift:"1"`
	List []*Rec141 `json:"list,omitempty" protobuf:"bytes,2,rep,name=list" thrift:"2"`
	B    bool      `json:"b" protobuf:"varint,3,opt,name=b" thrift:"3"`
}

type Rec142 struct {
	M    map[string]Peer142 `json:"m,omitempty" protobuf:"bytes,6,rep,name=m" protobuf_key:"bytes,1,opt,name=key" protobuf_val:"bytes,2,opt,name=value" thrift:"6"`
	V    int64              `json:"v" protobuf:"varint,1,opt,name=v" thrift:"1"`
	Next *Rec142            `json:"next,omitempty" protobuf:"bytes,2,opt,name=next" thrift:"2"`
	Kids []Rec142           `json:"kids,omitempty" protobuf:"bytes,3,rep,name=kids" thrift:"3"`
	Peer *Peer142           `json:"peer,omitempty" protobuf:"bytes,4,opt,name=peer" thrift:"4"`
	S    string             `json:"s,omitempty" protobuf:"bytes,5,opt,name=s" thrift:"5"`
	X00  int64              `json:"x0,omitempty" protobuf:"varint,20,opt,name=x0" thrift:"20"`
	X01  int64              `json:"x1,omitempty" protobuf:"varint,21,opt,name=x1" thrift:"21"`
	X02  int64              `json:"x2,omitempty" protobuf:"varint,22,opt,name=x2" thrift:"22"`
	X03  int64              `json:"x3,omitempty" protobuf:"varint,23,opt,name=x3" thrift:"23"`
	X04  int64              `json:"x4,omitempty" protobuf:"varint,24,opt,name=x4" thrift:"24"`
	X05  int64              `json:"x5,omitempty" protobuf:"varint,25,opt,name=x5" thrift:"25"`
	X06  int64              `json:"x6,omitempty" protobuf:"varint,26,opt,name=x6" thrift:"26"`
	X07  int64              `json:"x7,omitempty" protobuf:"varint,27,opt,name=x7" thrift:"27"`
	X08  int64              `json:"x8,omitempty" protobuf:"varint,28,opt,name=x8" thrift:"28"`
	X09  int64              `json:"x9,omitempty" protobuf:"varint,29,opt,name=x9" thrift:"29"`
	X10  int64              `json:"x10,omitempty" protobuf:"varint,30,opt,name=x10" thrift:"30"`
	X11  int64              `json:"x11,omitempty" protobuf:"varint,31,opt,name=x11" thrift:"31"`
	X12  int64              `json:"x12,omitempty" protobuf:"varint,32,opt,name=x12" thrift:"32"`
	X13  int64              `json:"x13,omitempty" protobuf:"varint,33,opt,name=x13" thrift:"33"`
	X14  int64              `json:"x14,omitempty" protobuf:"varint,34,opt,name=x14" thrift:"34"`
	X15  int64              `json:"x15,omitempty" protobuf:"varint,35,opt,name=x15" thrift:"35"`
	X16  int64              `json:"x16,omitempty" protobuf:"varint,36,opt,name=x16" thrift:"36"`
	X17  int64              `json:"x17,omitempty" protobuf:"varint,37,opt,name=x17" thrift:"37"`
	X18  int64              `json:"x18,omitempty" protobuf:"varint,38,opt,name=x18" thrift:"38"`
	X19  int64              `json:"x19,omitempty" protobuf:"varint,39,opt,name=x19" thrift:"39"`
	X20  int64              `json:"x20,omitempty" protobuf:"varint,40,opt,name=x20" thrift:"40"`
	X21  int64              `json:"x21,omitempty" protobuf:"varint,41,opt,name=x21" thrift:"41"`
	X22  int64              `json:"x22,omitempty" protobuf:"varint,42,opt,name=x22" thrift:"42"`
	X23  int64              `json:"x23,omitempty" protobuf:"varint,43,opt,name=x23" thrift:"43"`
}

type Peer142 struct {
	Back *Rec142   `json:"back,omitempty" protobuf:"bytes,1,opt,name=back" thrift:"1"`
	List []*Rec142 `json:"list,omitempty" protobuf:"bytes,2,rep,name=list" thrift:"2"`
	B    bool      `json:"b" protobuf:"varint,3,opt,name=b" thrift:"3"`
}

type Rec143 struct {
	M    map[string]Peer143 `json:"m,omitempty" protobuf:"bytes,6,rep,name=m" protobuf_key:"bytes,1,opt,name=key" protobuf_val:"bytes,2,opt,name=value" thrift:"6"`
	V    int64              `json:"v" protobuf:"varint,1,opt,name=v" thrift:"1"`
	Next *Rec143            `json:"next,omitempty" protobuf:"bytes,2,opt,name=next" thrift:"2"`
	Kids []Rec143           `json:"kids,omitempty" protobuf:"bytes,3,rep,name=kids" thrift:"3"`
	Peer *Peer143           `json:"peer,omitempty" protobuf:"bytes,4,opt,name=peer" thrift:"4"`
	S    string             `json:"s,omitempty" protobuf:"bytes,5,opt,name=s" thrift:"5"`
	X00  int64              `json:"x0,omitempty" protobuf:"varint,20,opt,name=x0" thrift:"20"`
	X01  int64              `json:"x1,omitempty" protobuf:"varint,21,opt,name=x1" thrift:"21"`
	X02  int64              `json:"x2,omitempty" protobuf:"varint,22,opt,name=x2" thrift:"22"`
	X03  int64              `json:"x3,omitempty" protobuf:"varint,23,opt,name=x3" thrift:"23"`
	X04  int64              `json:"x4,omitempty" protobuf:"varint,24,opt,name=x4" thrift:"24"`
	X05  int64              `json:"x5,omitempty" protobuf:"varint,25,opt,name=x5" thrift:"25"`
	X06  int64              `json:"x6,omitempty" protobuf:"varint,26,opt,name=x6" thrift:"26"`
	X07  int64              `json:"x7,omitempty" protobuf:"varint,27,opt,name=x7" thrift:"27"`
	X08  int64              `json:"x8,omitempty" protobuf:"varint,28,opt,name=x8" thrift:"28"`
	X09  int64              `json:"x9,omitempty" protobuf:"varint,29,opt,name=x9" thrift:"29"`
	X10  int64              `json:"x10,omitempty" protobuf:"varint,30,opt,name=x10" thrift:"30"`
	X11  int64              `json:"x11,omitempty" protobuf:"varint,31,opt,name=x11" thrift:"31"`
	X12  int64              `json:"x12,omitempty" protobuf:"varint,32,opt,name=x12" thrift:"32"`
	X13  int64              `json:"x13,omitempty" protobuf:"varint,33,opt,name=x13" thrift:"33"`
	X14  int64              `json:"x14,omitempty" protobuf:"varint,34,opt,name=x14" thrift:"34"`
	X15  int64              `json:"x15,omitempty" protobuf:"varint,35,opt,name=x15" thrift:"35"`
	X16  int64              `json:"x16,omitempty" protobuf:"varint,36,opt,name=x16" thrift:"36"`
	X17  int64              `json:"x17,omitempty" protobuf:"varint,37,opt,name=x17" thrift:"37"`
	X18  int64              `json:"x18,omitempty" protobuf:"varint,38,opt,name=x18" thrift:"38"`
	X19  int64              `json:"x19,omitempty" protobuf:"varint,39,opt,name=x19" thrift:"39"`
	X20  int64              `json:"x20,omitempty" protobuf:"varint,40,opt,name=x20" thrift:"40"`
	X21  int64              `json:"x21,omitempty" protobuf:"varint,41,opt,name=x21" thrift:"41"`
	X22  int64              `json:"x22,omitempty" protobuf:"varint,42,opt,name=x22" thrift:"42"`
	X23  int64              `json:"x23,omitempty" protobuf:"varint,43,opt,name=x23" thrift:"43"`
}

type Peer143 struct {
	Back *Rec143   `json:"back,omitempty" protobuf:"bytes,1,opt,name=back" thrift:"1"`
	List []*Rec143 `json:"list,omitempty" protobuf:"bytes,2,rep,name=list" thrift:"2"`
	B    bool      `json:"b" protobuf:"varint,3,opt,name=b" thrift:"3"`
}

type Rec144 struct {
	M    map[string]Peer144 `json:"m,omitempty" protobuf:"bytes,6,rep,name=m" protobuf_key:"bytes,1,opt,name=key" protobuf_val:"bytes,2,opt,name=value" thrift:"6"`
	V    int64              `json:"v" protobuf:"varint,1,opt,name=v" thrift:"1"`
	Next *Rec144            `json:"next,omitempty" protobuf:"bytes,2,opt,name=next" thrift:"2"`
	Kids []Rec144           `json:"kids,omitempty" protobuf:"bytes,3,rep,name=kids" thrift:"3"`
	Peer *Peer144           `json:"peer,omitempty" protobuf:"bytes,4,opt,name=peer" thrift:"4"`
	S    string             `json:"s,omitempty" protobuf:"bytes,5,opt,name=s" thrift:"5"`
	X00  int64              `json:"x0,omitempty" protobuf:"varint,20,opt,name=x0" thrift:"20"`
	X01  int64              `json:"x1,omitempty" protobuf:"varint,21,opt,name=x1" thrift:"21"`
	X02  int64              `json:"x2,omitempty" protobuf:"varint,22,opt,name=x2" thrift:"22"`
	X03  int64              `json:"x3,omitempty" protobuf:"varint,23,opt,name=x3" thrift:"23"`
	X04  int64              `json:"x4,omitempty" protobuf:"varint,24,opt,name=x4" thrift:"24"`
	X05  int64              `json:"x5,omitempty" protobuf:"varint,25,opt,name=x5" thrift:"25"`
	X06  int64              `json:"x6,omitempty" protobuf:"varint,26,opt,name=x6" thrift:"26"`
	X07  int64              `json:"x7,omitempty" protobuf:"varint,27,opt,name=x7" thrift:"27"`
	X08  int64              `json:"x8,omitempty" protobuf:"varint,28,opt,name=x8" thrift:"28"`
	X09  int64              `json:"x9,omitempty" protobuf:"varint,29,opt,name=x9" thrift:"29"`
	X10  int64              `json:"x10,omitempty" protobuf:"varint,30,opt,name=x10" thrift:"30"`
	X11  int64              `json:"x11,omitempty" protobuf:"varint,31,opt,name=x11" thrift:"31"`
	X12  int64              `json:"x12,omitempty" protobuf:"varint,32,opt,name=x12" thrift:"32"`
	X13  int64              `json:"x13,omitempty" protobuf:"varint,33,opt,name=x13" thrift:"33"`
	X14  int64              `json:"x14,omitempty" protobuf:"varint,34,opt,name=x14" thrift:"34"`
	X15  int64              `json:"x15,omitempty" protobuf:"varint,35,opt,name=x15" thrift:"35"`
	X16  int64              `json:"x16,omitempty" protobuf:"varint,36,opt,name=x16" thrift:"36"`
	X17  int64              `json:"x17,omitempty" protobuf:"varint,37,opt,name=x17" thrift:"37"`
	X18  int64              `json:"x18,omitempty" protobuf:"varint,38,opt,name=x18" thrift:"38"`
	X19  int64              `json:"x19,omitempty" protobuf:"varint,39,opt,name=x19" thrift:"39"`
	X20  int64              `json:"x20,omitempty" protobuf:"varint,40,opt,name=x20" thrift:"40"`
	X21  int64              `json:"x21,omitempty" protobuf:"varint,41,opt,name=x21" thrift:"41"`
	X22  int64              `json:"x22,omitempty" protobuf:"varint,42,opt,name=x22" thrift:"42"`
	X23  int64              `json:"x23,omitempty" protobuf:"varint,43,opt,name=x23" thrift:"43"`
}

type Peer144 struct {
	Back *Rec144   `json:"back,omitempty" protobuf:"bytes,1,opt,name=back" thrift:"1"`
	List []*Rec144 `json:"list,omitempty" protobuf:"bytes,2,rep,name=list" thrift:"2"`
	B    bool      `json:"b" protobuf:"varint,3,opt,name=b" thrift:"3"`
}

type Rec145 struct {
	M    map[string]Peer145 `json:"m,omitempty" protobuf:"bytes,6,rep,name=m" protobuf_key:"bytes,1,opt,name=key" protobuf_val:"bytes,2,opt,name=value" thrift:"6"`
	V    int64              `json:"v" protobuf:"varint,1,opt,name=v" thrift:"1"`
	Next *Rec145            `json:"next,omitempty" protobuf:"bytes,2,opt,name=next" thrift:"2"`
	Kids []Rec145           `json:"kids,omitempty" protobuf:"bytes,3,rep,name=kids" thrift:"3"`
	Peer *Peer145           `json:"peer,omitempty" protobuf:"bytes,4,opt,name=peer" thrift:"4"`
	S    string             `json:"s,omitempty" protobuf:"bytes,5,opt,name=s" thrift:"5"`
	X00  int64              `json:"x0,omitempty" protobuf:"varint,20,opt,name=x0" thrift:"20"`
	X01  int64              `json:"x1,omitempty" protobuf:"varint,21,opt,name=x1" thrift:"21"`
	X02  int64              `json:"x2,omitempty" protobuf:"varint,22,opt,name=x2" thrift:"22"`
	X03  int64              `json:"x3,omitempty" protobuf:"varint,23,opt,name=x3" thrift:"23"`
	X04  int64              `json:"x4,omitempty" protobuf:"varint,24,opt,name=x4" thrift:"24"`
	X05  int64              `json:"x5,omitempty" protobuf:"varint,25,opt,name=x5" thrift:"25"`
	X06  int64              `json:"x6,omitempty" protobuf:"varint,26,opt,name=x6" thrift:"26"`
	X07  int64              `json:"x7,omitempty" protobuf:"varint,27,opt,name=x7" thrift:"27"`
	X08  int64              `json:"x8,omitempty" protobuf:"varint,28,opt,name=x8" thrift:"28"`
	X09  int64              `json:"x9,omitempty" protobuf:"varint,29,opt,name=x9" thrift:"29"`
	X10  int64              `json:"x10,omitempty" protobuf:"varint,30,opt,name=x10" thrift:"30"`
	X11  int64              `json:"x11,omitempty" protobuf:"varint,31,opt,name=x11" thrift:"31"`
	X12  int64              `json:"x12,omitempty" protobuf:"varint,32,opt,name=x12" thrift:"32"`
	X13  int64              `json:"x13,omitempty" protobuf:"varint,33,opt,name=x13" thrift:"33"`
	X14  int64              `json:"x14,omitempty" protobuf:"varint,34,opt,name=x14" thrift:"34"`
	X15  int64              `json:"x15,omitempty" protobuf:"varint,35,opt,name=x15" thrift:"35"`
	X16  int64              `json:"x16,omitempty" protobuf:"varint,36,opt,name=x16" thrift:"36"`
	X17  int64              `json:"x17,omitempty" protobuf:"varint,37,opt,name=x17" thrift:"37"`
	X18  int64              `json:"x18,omitempty" protobuf:"varint,38,opt,name=x18" thrift:"38"`
	X19  int64              `json:"x19,omitempty" protobuf:"varint,39,opt,name=x19" thrift:"39"`
	X20  int64              `json:"x20,omitempty" protobuf:"varint,40,opt,name=x20" thrift:"40"`
	X21  int64              `json:"x21,omitempty" protobuf:"varint,41,opt,name=x21" thrift:"41"`
	X22  int64              `json:"x22,omitempty" protobuf:"varint,42,opt,name=x22" thrift:"42"`
	X23  int64              `json:"x23,omitempty" protobuf:"varint,43,opt,name=x23" thrift:"43"`
}

type Peer145 struct {
	Back *Rec145   `json:"back,omitempty" protobuf:"bytes,1,opt,name=back" thrift:"1"`
	List []*Rec145 `json:"list,omitempty" protobuf:"bytes,2,rep,name=list" thrift:"2"`
	B    bool      `json:"b" protobuf:"varint,3,opt,name=b" thrift:"3"`
}

type Rec146 struct {
	M    map[string]Peer146 `json:"m,omitempty" protobuf:"bytes,6,rep,name=m" protobuf_key:"bytes,1,opt,name=key" protobuf_val:"bytes,2,opt,name=value" thrift:"6"`
	V    int64              `json:"v" protobuf:"varint,1,opt,name=v" thrift:"1"`
	Next *Rec146            `json:"next,omitempty" protobuf:"bytes,2,opt,name=next" thrift:"2"`
	Kids []Rec146           `json:"kids,omitempty" protobuf:"bytes,3,rep,name=kids" thrift:"3"`
	Peer *Peer146           `json:"peer,omitempty" protobuf:"bytes,4,opt,name=peer" thrift:"4"`
	S    string             `json:"s,omitempty" protobuf:"bytes,5,opt,name=s" thrift:"5"`
	X00  int64              `json:"x0,omitempty" protobuf:"varint,20,opt,name=x0" thrift:"20"`
	X01  int64              `json:"x1,omitempty" protobuf:"varint,21,opt,name=x1" thrift:"21"`
	X02  int64              `json:"x2,omitempty" protobuf:"varint,22,opt,name=x2" thrift:"22"`
	X03  int64              `json:"x3,omitempty" protobuf:"varint,23,opt,name=x3" thrift:"23"`
	X04  int64              `json:"x4,omitempty" protobuf:"varint,24,opt,name=x4" thrift:"24"`
	X05  int64              `json:"x5,omitempty" protobuf:"varint,25,opt,name=x5" thrift:"25"`
	X06  int64              `json:"x6,omitempty" protobuf:"varint,26,opt,name=x6" thrift:"26"`
	X07  int64              `json:"x7,omitempty" protobuf:"varint,27,opt,name=x7" thrift:"27"`
	X08  int64              `json:"x8,omitempty" protobuf:"varint,28,opt,name=x8" thrift:"28"`
	X09  int64              `json:"x9,omitempty" protobuf:"varint,29,opt,name=x9" thrift:"29"`
	X10  int64              `json:"x10,omitempty" protobuf:"varint,30,opt,name=x10" thrift:"30"`
	X11  int64              `json:"x11,omitempty" protobuf:"varint,31,opt,name=x11" thrift:"31"`
	X12  int64              `json:"x12,omitempty" protobuf:"varint,32,opt,name=x12" thrift:"32"`
	X13  int64              `json:"x13,omitempty" protobuf:"varint,33,opt,name=x13" thrift:"33"`
	X14  int64              `json:"x14,omitempty" protobuf:"varint,34,opt,name=x14" thrift:"34"`
	X15  int64              `json:"x15,omitempty" protobuf:"varint,35,opt,name=x15" thrift:"35"`
	X16  int64              `json:"x16,omitempty" protobuf:"varint,36,opt,name=x16" thrift:"36"`
	X17  int64              `json:"x17,omitempty" protobuf:"varint,37,opt,name=x17" thrift:"37"`
	X18  int64              `json:"x18,omitempty" protobuf:"varint,38,opt,name=x18" thrift:"38"`
	X19  int64              `json:"x19,omitempty" protobuf:"varint,39,opt,name=x19" thrift:"39"`
	X20  int64              `json:"x20,omitempty" protobuf:"varint,40,opt,name=x20" thrift:"40"`
	X21  int64              `json:"x21,omitempty" protobuf:"varint,41,opt,name=x21" thrift:"41"`
	X22  int64              `json:"x22,omitempty" protobuf:"varint,42,opt,name=x22" thrift:"42"`
	X23  int64              `json:"x23,omitempty" protobuf:"varint,43,opt,name=x23" thrift:"43"`
}

type Peer146 struct {
	Back *Rec146   `json:"back,omitempty" protobuf:"bytes,1,opt,name=back" thrift:"1"`
	List []*Rec146 `json:"list,omitempty" protobuf:"bytes,2,rep,name=list" thrift:"2"`
	B    bool      `json:"b" protobuf:"varint,3,opt,name=b" thrift:"3"`
}

type Rec147 struct {
	M    map[string]Peer147 `json:"m,omitempty" protobuf:"bytes,6,rep,name=m" protobuf_key:"bytes,1,opt,name=key" protobuf_val:"bytes,2,opt,name=value" thrift:"6"`
	V    int64              `json:"v" protobuf:"varint,1,opt,name=v" thrift:"1"`
	Next *Rec147            `json:"next,omitempty" protobuf:"bytes,2,opt,name=next" thrift:"2"`
	Kids []Rec147           `json:"kids,omitempty" protobuf:"bytes,3,rep,name=kids" thrift:"3"`
	Peer *Peer147           `json:"peer,omitempty" protobuf:"bytes,4,opt,name=peer" thrift:"4"`
	S    string             `json:"s,omitempty" protobuf:"bytes,5,opt,name=s" thrift:"5"`
	X00  int64              `json:"x0,omitempty" protobuf:"varint,20,opt,name=x0" thrift:"20"`
	X01  int64              `json:"x1,omitempty" protobuf:"varint,21,opt,name=x1" thrift:"21"`
	X02  int64              `json:"x2,omitempty" protobuf:"varint,22,opt,name=x2" thrift:"22"`
	X03  int64              `json:"x3,omitempty" protobuf:"varint,23,opt,name=x3" thrift:"23"`
	X04  int64              `json:"x4,omitempty" protobuf:"varint,24,opt,name=x4" thrift:"24"`
	X05  int64              `json:"x5,omitempty" protobuf:"varint,25,opt,name=x5" thrift:"25"`
	X06  int64              `json:"x6,omitempty" protobuf:"varint,26,opt,name=x6" thrift:"26"`
	X07  int64              `json:"x7,omitempty" protobuf:"varint,27,opt,name=x7" thrift:"27"`
	X08  int64              `json:"x8,omitempty" protobuf:"varint,28,opt,name=x8" thrift:"28"`
	X09  int64              `json:"x9,omitempty" protobuf:"varint,29,opt,name=x9" thrift:"29"`
	X10  int64              `json:"x10,omitempty" protobuf:"varint,30,opt,name=x10" thrift:"30"`
	X11  int64              `json:"x11,omitempty" protobuf:"varint,31,opt,name=x11" thrift:"31"`
	X12  int64              `json:"x12,omitempty" protobuf:"varint,32,opt,name=x12" thrift:"32"`
	X13  int64              `json:"x13,omitempty" protobuf:"varint,33,opt,name=x13" thrift:"33"`
	X14  int64              `json:"x14,omitempty" protobuf:"varint,34,opt,name=x14" thrift:"34"`
	X15  int64              `json:"x15,omitempty" protobuf:"varint,35,opt,name=x15" thrift:"35"`
	X16  int64              `json:"x16,omitempty" protobuf:"varint,36,opt,name=x16" thrift:"36"`
	X17  int64              `json:"x17,omitempty" protobuf:"varint,37,opt,name=x17" thrift:"37"`
	X18  int64              `json:"x18,omitempty" protobuf:"varint,38,opt,name=x18" thrift:"38"`
	X19  int64              `json:"x19,omitempty" protobuf:"varint,39,opt,name=x19" thrift:"39"`
	X20  int64              `json:"x20,omitempty" protobuf:"varint,40,opt,name=x20" thrift:"40"`
	X21  int64              `json:"x21,omitempty" protobuf:"varint,41,opt,name=x21" thrift:"41"`
	X22  int64              `json:"x22,omitempty" protobuf:"varint,42,opt,name=x22" thrift:"42"`
	X23  int64              `json:"x23,omitempty" protobuf:"varint,43,opt,name=x23" thrift:"43"`
}

type Peer147 struct {
	Back *Rec147   `json:"back,omitempty" protobuf:"bytes,1,opt,name=back" thrift:"1"`
	List []*Rec147 `json:"list,omitempty" protobuf:"bytes,2,rep,name=list" thrift:"2"`
	B    bool      `json:"b" protobuf:"varint,3,opt,name=b" thrift:"3"`
}

type Rec148 struct {
	M    map[string]Peer148 `json:"m,omitempty" protobuf:"bytes,6,rep,name=m" protobuf_key:"bytes,1,opt,name=key" protobuf_val:"bytes,2,opt,name=value" thrift:"6"`
	V    int64              `json:"v" protobuf:"varint,1,opt,name=v" thrift:"1"`
	Next *Rec148            `json:"next,omitempty" protobuf:"bytes,2,opt,name=next" thrift:"2"`
	Kids []Rec148           `json:"kids,omitempty" protobuf:"bytes,3,rep,name=kids" thrift:"3"`
	Peer *Peer148           `json:"peer,omitempty" protobuf:"bytes,4,opt,name=peer" thrift:"4"`
	S    string             `json:"s,omitempty" protobuf:"bytes,5,opt,name=s" thrift:"5"`
	X00  int64              `json:"x0,omitempty" protobuf:"varint,20,opt,name=x0" thrift:"20"`
	X01  int64              `json:"x1,omitempty" protobuf:"varint,21,opt,name=x1" thrift:"21"`
	X02  int64              `json:"x2,omitempty" protobuf:"varint,22,opt,name=x2" thrift:"22"`
	X03  int64              `json:"x3,omitempty" protobuf:"varint,23,opt,name=x3" thrift:"23"`
	X04  int64              `json:"x4,omitempty" protobuf:"varint,24,opt,name=x4" thrift:"24"`
	X05  int64              `json:"x5,omitempty" protobuf:"varint,25,opt,name=x5" thrift:"25"`
	X06  int64              `json:"x6,omitempty" protobuf:"varint,26,opt,name=x6" thrift:"26"`
	X07  int64              `json:"x7,omitempty" protobuf:"varint,27,opt,name=x7" thrift:"27"`
	X08  int64              `json:"x8,omitempty" protobuf:"varint,28,opt,name=x8" thrift:"28"`
	X09  int64              `json:"x9,omitempty" protobuf:"varint,29,opt,name=x9" thrift:"29"`
	X10  int64              `json:"x10,omitempty" protobuf:"varint,30,opt,name=x10" thrift:"30"`
	X11  int64              `json:"x11,omitempty" protobuf:"varint,31,opt,name=x11" thrift:"31"`
	X12  int64              `json:"x12,omitempty" protobuf:"varint,32,opt,name=x12" thrift:"32"`
	X13  int64              `json:"x13,omitempty" protobuf:"varint,33,opt,name=x13" thrift:"33"`
	X14  int64              `json:"x14,omitempty" protobuf:"varint,34,opt,name=x14" thrift:"34"`
	X15  int64              `json:"x15,omitempty" protobuf:"varint,35,opt,name=x15" thrift:"35"`
	X16  int64              `json:"x16,omitempty" protobuf:"varint,36,opt,name=x16" thrift:"36"`
	X17  int64              `json:"x17,omitempty" protobuf:"varint,37,opt,name=x17" thrift:"37"`
	X18  int64              `json:"x18,omitempty" protobuf:"varint,38,opt,name=x18" thrift:"38"`
	X19  int64              `json:"x19,omitempty" protobuf:"varint,39,opt,name=x19" thrift:"39"`
	X20  int64              `json:"x20,omitempty" protobuf:"varint,40,opt,name=x20" thrift:"40"`
	X21  int64              `json:"x21,omitempty" protobuf:"varint,41,opt,name=x21" thrift:"41"`
	X22  int64              `json:"x22,omitempty" protobuf:"varint,42,opt,name=x22" thrift:"42"`
	X23  int64              `json:"x23,omitempty" protobuf:"varint,43,opt,name=x23" thrift:"43"`
}

type Peer148 struct {
	Back *Rec148   `json:"back,omitempty" protobuf:"bytes,1,opt,name=back" thrift:"1"`
	List []*Rec148 `json:"list,omitempty" protobuf:"bytes,2,rep,name=list" thrift:"2"`
	B    bool      `json:"b" protobuf:"varint,3,opt,name=b" thrift:"3"`
}

type Rec149 struct {
	M    map[string]Peer149 `json:"m,omitempty" protobuf:"bytes,6,rep,name=m" protobuf_key:"bytes,1,opt,name=key" protobuf_val:"bytes,2,opt,name=value" thrift:"6"`
	V    int64              `json:"v" protobuf:"varint,1,opt,name=v" thrift:"1"`
	Next *Rec149            `json:"next,omitempty" protobuf:"bytes,2,opt,name=next" thrift:"2"`
	Kids []Rec149           `json:"kids,omitempty" protobuf:"bytes,3,rep,name=kids" thrift:"3"`
	Peer *Peer149           `json:"peer,omitempty" protobuf:"bytes,4,opt,name=peer" thrift:"4"`
	S    string             `json:"s,omitempty" protobuf:"bytes,5,opt,name=s" thrift:"5"`
	X00  int64              `json:"x0,omitempty" protobuf:"varint,20,opt,name=x0" thrift:"20"`
	X01  int64              `json:"x1,omitempty" protobuf:"varint,21,opt,name=x1" thrift:"21"`
	X02  int64              `json:"x2,omitempty" protobuf:"varint,22,opt,name=x2" thrift:"22"`
	X03  int64              `json:"x3,omitempty" protobuf:"varint,23,opt,name=x3" thrift:"23"`
	X04  int64              `json:"x4,omitempty" protobuf:"varint,24,opt,name=x4" thrift:"24"`
	X05  int64              `json:"x5,omitempty" protobuf:"varint,25,opt,name=x5" thrift:"25"`
	X06  int64              `json:"x6,omitempty" protobuf:"varint,26,opt,name=x6" thrift:"26"`
	X07  int64              `json:"x7,omitempty" protobuf:"varint,27,opt,name=x7" thrift:"27"`
	X08  int64              `json:"x8,omitempty" protobuf:"varint,28,opt,name=x8" thrift:"28"`
	X09  int64              `json:"x9,omitempty" protobuf:"varint,29,opt,name=x9" thrift:"29"`
	X10  int64              `json:"x10,omitempty" protobuf:"varint,30,opt,name=x10" thrift:"30"`
	X11  int64              `json:"x11,omitempty" protobuf:"varint,31,opt,name=x11" thrift:"31"`
	X12  int64              `json:"x12,omitempty" protobuf:"varint,32,opt,name=x12" thrift:"32"`
	X13  int64              `json:"x13,omitempty" protobuf:"varint,33,opt,name=x13" thrift:"33"`
	X14  int64              `json:"x14,omitempty" protobuf:"varint,34,opt,name=x14" thrift:"34"`
	X15  int64              `json:"x15,omitempty" protobuf:"varint,35,opt,name=x15" thrift:"35"`
	X16  int64              `json:"x16,omitempty" protobuf:"varint,36,opt,name=x16" thrift:"36"`
	X17  int64              `json:"x17,omitempty" protobuf:"varint,37,opt,name=x17" thrift:"37"`
	X18  int64              `json:"x18,omitempty" protobuf:"varint,38,opt,name=x18" thrift:"38"`
	X19  int64              `json:"x19,omitempty" protobuf:"varint,39,opt,name=x19" thrift:"39"`
	X20  int64              `json:"x20,omitempty" protobuf:"varint,40,opt,name=x20" thrift:"40"`
	X21  int64              `json:"x21,omitempty" protobuf:"varint,41,opt,name=x21" thrift:"41"`
	X22  int64              `json:"x22,omitempty" protobuf:"varint,42,opt,name=x22" thrift:"42"`
	X23  int64              `json:"x23,omitempty" protobuf:"varint,43,opt,name=x23" thrift:"43"`
}

type Peer149 struct {
	Back *Rec149   `json:"back,omitempty" protobuf:"bytes,1,opt,name=back" thrift:"1"`
	List []*Rec149 `json:"list,omitempty" protobuf:"bytes,2,rep,name=list" thrift:"2"`
	B    bool      `json:"b" protobuf:"varint,3,opt,name=b" thrift:"3"`
}

type Rec150 struct {
	M    map[string]Peer150 `json:"m,omitempty" protobuf:"bytes,6,rep,name=m" protobuf_key:"bytes,1,opt,name=key" protobuf_val:"bytes,2,opt,name=value" thrift:"6"`
	V    int64              `json:"v" protobuf:"varint,1,opt,name=v" thrift:"1"`
	Next *Rec150            `json:"next,omitempty" protobuf:"bytes,2,opt,name=next" thrift:"2"`
	Kids []Rec150           `json:"kids,omitempty" protobuf:"bytes,3,rep,name=kids" thrift:"3"`
	Peer *Peer150           `json:"peer,omitempty" protobuf:"bytes,4,opt,name=peer" thrift:"4"`
	S    string             `json:"s,omitempty" protobuf:"bytes,5,opt,name=s" thrift:"5"`
	X00  int64              `json:"x0,omitempty" protobuf:"varint,20,opt,name=x0" thrift:"20"`
	X01  int64              `json:"x1,omitempty" protobuf:"varint,21,opt,name=x1" thrift:"21"`
	X02  int64              `json:"x2,omitempty" protobuf:"varint,22,opt,name=x2" thrift:"22"`
	X03  int64              `json:"x3,omitempty" protobuf:"varint,23,opt,name=x3" thrift:"23"`
	X04  int64              `json:"x4,omitempty" protobuf:"varint,24,opt,name=x4" thrift:"24"`
	X05  int64              `json:"x5,omitempty" protobuf:"varint,25,opt,name=x5" thrift:"25"`
	X06  int64              `json:"x6,omitempty" protobuf:"varint,26,opt,name=x6" thrift:"26"`
	X07  int64              `json:"x7,omitempty" protobuf:"varint,27,opt,name=x7" thrift:"27"`
	X08  int64              `json:"x8,omitempty" protobuf:"varint,28,opt,name=x8" thrift:"28"`
	X09  int64              `json:"x9,omitempty" protobuf:"varint,29,opt,name=x9" thrift:"29"`
	X10  int64              `json:"x10,omitempty" protobuf:"varint,30,opt,name=x10" thrift:"30"`
	X11  int64              `json:"x11,omitempty" protobuf:"varint,31,opt,name=x11" thrift:"31"`
	X12  int64              `json:"x12,omitempty" protobuf:"varint,32,opt,name=x12" thrift:"32"`
	X13  int64              `json:"x13,omitempty" protobuf:"varint,33,opt,name=x13" thrift:"33"`
	X14  int64              `json:"x14,omitempty" protobuf:"varint,34,opt,name=x14" thrift:"34"`
	X15  int64              `json:"x15,omitempty" protobuf:"varint,35,opt,name=x15" thrift:"35"`
	X16  int64              `json:"x16,omitempty" protobuf:"varint,36,opt,name=x16" thrift:"36"`
	X17  int64              `json:"x17,omitempty" protobuf:"varint,37,opt,name=x17" thrift:"37"`
	X18  int64              `json:"x18,omitempty" protobuf:"varint,38,opt,name=x18" thrift:"38"`
	X19  int64              `json:"x19,omitempty" protobuf:"varint,39,opt,name=x19" thrift:"39"`
	X20  int64              `json:"x20,omitempty" protobuf:"varint,40,opt,name=x20" thrift:"40"`
	X21  int64              `json:"x21,omitempty" protobuf:"varint,41,opt,name=x21" thrift:"41"`
	X22  int64              `json:"x22,omitempty" protobuf:"varint,42,opt,name=x22" thrift:"42"`
	X23  int64              `json:"x23,omitempty" protobuf:"varint,43,opt,name=x23" thrift:"43"`
}

type Peer150 struct {
	Back *Rec150   `json:"back,omitempty" protobuf:"bytes,1,opt,name=back" thrift:"1"`
	List []*Rec150 `json:"list,omitempty" protobuf:"bytes,2,rep,name=list" thrift:"2"`
	B    bool      `json:"b" protobuf:"varint,3,opt,name=b" thrift:"3"`
}

type Rec151 struct {
	M    map[string]Peer151 `json:"m,omitempty" protobuf:"bytes,6,rep,name=m" protobuf_key:"bytes,1,opt,name=key" protobuf_val:"bytes,2,opt,name=value" thrift:"6"`
	V    int64              `json:"v" protobuf:"varint,1,opt,name=v" thrift:"1"`
	Next *Rec151            `json:"next,omitempty" protobuf:"bytes,2,opt,name=next" thrift:"2"`
	Kids []Rec151           `json:"kids,omitempty" protobuf:"bytes,3,rep,name=kids" thrift:"3"`
	Peer *Peer151           `json:"peer,omitempty" protobuf:"bytes,4,opt,name=peer" thrift:"4"`
	S    string             `json:"s,omitempty" protobuf:"bytes,5,opt,name=s" thrift:"5"`
	X00  int64              `json:"x0,omitempty" protobuf:"varint,20,opt,name=x0" thrift:"20"`
	X01  int64              `json:"x1,omitempty" protobuf:"varint,21,opt,name=x1" thrift:"21"`
	X02  int64              `json:"x2,omitempty" protobuf:"varint,22,opt,name=x2" thrift:"22"`
	X03  int64              `json:"x3,omitempty" protobuf:"varint,23,opt,name=x3" thrift:"23"`
	X04  int64              `json:"x4,omitempty" protobuf:"varint,24,opt,name=x4" thrift:"24"`
	X05  int64              `json:"x5,omitempty" protobuf:"varint,25,opt,name=x5" thrift:"25"`
	X06  int64              `json:"x6,omitempty" protobuf:"varint,26,opt,name=x6" thrift:"26"`
	X07  int64              `json:"x7,omitempty" protobuf:"varint,27,opt,name=x7" thrift:"27"`
	X08  int64              `json:"x8,omitempty" protobuf:"varint,28,opt,name=x8" thrift:"28"`
	X09  int64              `json:"x9,omitempty" protobuf:"varint,29,opt,name=x9" thrift:"29"`
	X10  int64              `json:"x10,omitempty" protobuf:"varint,30,opt,name=x10" thrift:"30"`
	X11  int64              `json:"x11,omitempty" protobuf:"varint,31,opt,name=x11" thrift:"31"`
	X12  int64              `json:"x12,omitempty" protobuf:"varint,32,opt,name=x12" thrift:"32"`
	X13  int64              `json:"x13,omitempty" protobuf:"varint,33,opt,name=x13" thrift:"33"`
	X14  int64              `json:"x14,omitempty" protobuf:"varint,34,opt,name=x14" thrift:"34"`
	X15  int64              `json:"x15,omitempty" protobuf:"varint,35,opt,name=x15" thrift:"35"`
	X16  int64              `json:"x16,omitempty" protobuf:"varint,36,opt,name=x16" thrift:"36"`
	X17  int64              `json:"x17,omitempty" protobuf:"varint,37,opt,name=x17" thrift:"37"`
	X18  int64              `json:"x18,omitempty" protobuf:"varint,38,opt,name=x18" thrift:"38"`
	X19  int64              `json:"x19,omitempty" protobuf:"varint,39,opt,name=x19" thrift:"39"`
	X20  int64              `json:"x20,omitempty" protobuf:"varint,40,opt,name=x20" thrift:"40"`
	X21  int64              `json:"x21,omitempty" protobuf:"varint,41,opt,name=x21" thrift:"41"`
	X22  int64              `json:"x22,omitempty" protobuf:"varint,42,opt,name=x22" thrift:"42"`
	X23  int64              `json:"x23,omitempty" protobuf:"varint,43,opt,name=x23" thrift:"43"`
}

type Peer151 struct {
	Back *Rec151   `json:"back,omitempty" protobuf:"bytes,1,opt,name=back" thrift:"1"`
	List []*Rec151 `json:"list,omitempty" protobuf:"bytes,2,rep,name=list" thrift:"2"`
	B    bool      `json:"b" protobuf:"varint,3,opt,name=b" thrift:"3"`
}

type Rec152 struct {
	M    map[string]Peer152 `json:"m,omitempty" protobuf:"bytes,6,rep,name=m" protobuf_key:"bytes,1,opt,name=key" protobuf_val:"bytes,2,opt,name=value" thrift:"6"`
	V    int64              `json:"v" protobuf:"varint,1,opt,name=v" thrift:"1"`
	Next *Rec152            `json:"next,omitempty" protobuf:"bytes,2,opt,name=next" thrift:"2"`
	Kids []Rec152           `json:"kids,omitempty" protobuf:"bytes,3,rep,name=kids" thrift:"3"`
	Peer *Peer152           `json:"peer,omitempty" protobuf:"bytes,4,opt,name=peer" thrift:"4"`
	S    string             `json:"s,omitempty" protobuf:"bytes,5,opt,name=s" thrift:"5"`
	X00  int64              `json:"x0,omitempty" protobuf:"varint,20,opt,name=x0" thrift:"20"`
	X01  int64              `json:"x1,omitempty" protobuf:"varint,21,opt,name=x1" thrift:"21"`
	X02  int64              `json:"x2,omitempty" protobuf:"varint,22,opt,name=x2" thrift:"22"`
	X03  int64              `json:"x3,omitempty" protobuf:"varint,23,opt,name=x3" thrift:"23"`
	X04  int64              `json:"x4,omitempty" protobuf:"varint,24,opt,name=x4" thrift:"24"`
	X05  int64              `json:"x5,omitempty" protobuf:"varint,25,opt,name=x5" thrift:"25"`
	X06  int64              `json:"x6,omitempty" protobuf:"varint,26,opt,name=x6" thrift:"26"`
	X07  int64              `json:"x7,omitempty" protobuf:"varint,27,opt,name=x7" thrift:"27"`
	X08  int64              `json:"x8,omitempty" protobuf:"varint,28,opt,name=x8" thrift:"28"`
	X09  int64              `json:"x9,omitempty" protobuf:"varint,29,opt,name=x9" thrift:"29"`
	X10  int64              `json:"x10,omitempty" protobuf:"varint,30,opt,name=x10" thrift:"30"`
	X11  int64              `json:"x11,omitempty" protobuf:"varint,31,opt,name=x11" thrift:"31"`
	X12  int64              `json:"x12,omitempty" protobuf:"varint,32,opt,name=x12" thrift:"32"`
	X13  int64              `json:"x13,omitempty" protobuf:"varint,33,opt,name=x13" thrift:"33"`
	X14  int64              `json:"x14,omitempty" protobuf:"varint,34,opt,name=x14" thrift:"34"`
	X15  int64              `json:"x15,omitempty" protobuf:"varint,35,opt,name=x15" thrift:"35"`
	X16  int64              `json:"x16,omitempty" protobuf:"varint,36,opt,name=x16" thrift:"36"`
	X17  int64              `json:"x17,omitempty" protobuf:"varint,37,opt,name=x17" thrift:"37"`
	X18  int64              `json:"x18,omitempty" protobuf:"varint,38,opt,name=x18" thrift:"38"`
	X19  int64              `json:"x19,omitempty" protobuf:"varint,39,opt,name=x19" thrift:"39"`
	X20  int64              `json:"x20,omitempty" protobuf:"varint,40,opt,name=x20" thrift:"40"`
	X21  int64              `json:"x21,omitempty" protobuf:"varint,41,opt,name=x21" thrift:"41"`
	X22  int64              `json:"x22,omitempty" protobuf:"varint,42,opt,name=x22" thrift:"42"`
	X23  int64              `json:"x23,omitempty" protobuf:"varint,43,opt,name=x23" thrift:"43"`
}

type Peer152 struct {
	Back *Rec152   `json:"back,omitempty" protobuf:"bytes,1,opt,name=back" thrift:"1"`
	List []*Rec152 `json:"list,omitempty" protobuf:"bytes,2,rep,name=list" thrift:"2"`
	B    bool      `json:"b" protobuf:"varint,3,opt,name=b" thrift:"3"`
}

type Rec153 struct {
	M    map[string]Peer153 `json:"m,omitempty" protobuf:"bytes,6,rep,name=m" protobuf_key:"bytes,1,opt,name=key" protobuf_val:"bytes,2,opt,name=value" thrift:"6"`
	V    int64              `json:"v" protobuf:"varint,1,opt,name=v" thrift:"1"`
	Next *Rec153            `json:"next,omitempty" protobuf:"bytes,2,opt,name=next" thrift:"2"`
	Kids []Rec153           `json:"kids,omitempty" protobuf:"bytes,3,rep,name=kids" thrift:"3"`
	Peer *Peer153           `json:"peer,omitempty" protobuf:"bytes,4,opt,name=peer" thrift:"4"`
	S    string             `json:"s,omitempty" protobuf:"bytes,5,opt,name=s" thrift:"5"`
	X00  int64              `json:"x0,omitempty" protobuf:"varint,20,opt,name=x0" thrift:"20"`
	X01  int64              `json:"x1,omitempty" protobuf:"varint,21,opt,name=x1" thrift:"21"`
	X02  int64              `json:"x2,omitempty" protobuf:"varint,22,opt,name=x2" thrift:"22"`
	X03  int64              `json:"x3,omitempty" protobuf:"varint,23,opt,name=x3" thrift:"23"`
	X04  int64              `json:"x4,omitempty" protobuf:"varint,24,opt,name=x4" thrift:"24"`
	X05  int64              `json:"x5,omitempty" protobuf:"varint,25,opt,name=x5" thrift:"25"`
	X06  int64              `json:"x6,omitempty" protobuf:"varint,26,opt,name=x6" thrift:"26"`
	X07  int64              `json:"x7,omitempty" protobuf:"varint,27,opt,name=x7" thrift:"27"`
	X08  int64              `json:"x8,omitempty" protobuf:"varint,28,opt,name=x8" thrift:"28"`
	X09  int64              `json:"x9,omitempty" protobuf:"varint,29,opt,name=x9" thrift:"29"`
	X10  int64              `json:"x10,omitempty" protobuf:"varint,30,opt,name=x10" thrift:"30"`
	X11  int64              `json:"x11,omitempty" protobuf:"varint,31,opt,name=x11" thrift:"31"`
	X12  int64              `json:"x12,omitempty" protobuf:"varint,32,opt,name=x12" thrift:"32"`
	X13  int64              `json:"x13,omitempty" protobuf:"varint,33,opt,name=x13" thrift:"33"`
	X14  int64              `json:"x14,omitempty" protobuf:"varint,34,opt,name=x14" thrift:"34"`
	X15  int64              `json:"x15,omitempty" protobuf:"varint,35,opt,name=x15" thrift:"35"`
	X16  int64              `json:"x16,omitempty" protobuf:"varint,36,opt,name=x16" thrift:"36"`
	X17  int64              `json:"x17,omitempty" protobuf:"varint,37,opt,name=x17" thrift:"37"`
	X18  int64              `json:"x18,omitempty" protobuf:"varint,38,opt,name=x18" thrift:"38"`
	X19  int64              `json:"x19,omitempty" protobuf:"varint,39,opt,name=x19" thrift:"39"`
	X20  int64              `json:"x20,omitempty" protobuf:"varint,40,opt,name=x20" thrift:"40"`
	X21  int64              `json:"x21,omitempty" protobuf:"varint,41,opt,name=x21" thrift:"41"`
	X22  int64              `json:"x22,omitempty" protobuf:"varint,42,opt,name=x22" thrift:"42"`
	X23  int64              `json:"x23,omitempty" protobuf:"varint,43,opt,name=x23" thrift:"43"`
}

type Peer153 struct {
	Back *Rec153   `json:"back,omitempty" protobuf:"bytes,1,opt,name=back" thrift:"1"`
	List []*Rec153 `json:"list,omitempty" protobuf:"bytes,2,rep,name=list" thrift:"2"`
	B    bool      `json:"b" protobuf:"varint,3,opt,name=b" thrift:"3"`
}

type Rec154 struct {
	M    map[string]Peer154 `json:"m,omitempty" protobuf:"bytes,6,rep,name=m" protobuf_key:"bytes,1,opt,name=key" protobuf_val:"bytes,2,opt,name=value" thrift:"6"`
	V    int64              `json:"v" protobuf:"varint,1,opt,name=v" thrift:"1"`
	Next *Rec154            `json:"next,omitempty" protobuf:"bytes,2,opt,name=next" thrift:"2"`
	Kids []Rec154           `json:"kids,omitempty" protobuf:"bytes,3,rep,name=kids" thrift:"3"`
	Peer *Peer154           `json:"peer,omitempty" protobuf:"bytes,4,opt,name=peer" thrift:"4"`
	S    string             `json:"s,omitempty" protobuf:"bytes,5,opt,name=s" thrift:"5"`
	X00  int64              `json:"x0,omitempty" protobuf:"varint,20,opt,name=x0" thrift:"20"`
	X01  int64              `json:"x1,omitempty" protobuf:"varint,21,opt,name=x1" thrift:"21"`
	X02  int64              `json:"x2,omitempty" protobuf:"varint,22,opt,name=x2" thrift:"22"`
	X03  int64              `json:"x3,omitempty" protobuf:"varint,23,opt,name=x3" thrift:"23"`
	X04  int64              `json:"x4,omitempty" protobuf:"varint,24,opt,name=x4" thrift:"24"`
	X05  int64              `json:"x5,omitempty" protobuf:"varint,25,opt,name=x5" thrift:"25"`
	X06  int64              `json:"x6,omitempty" protobuf:"varint,26,opt,name=x6" thrift:"26"`
	X07  int64              `json:"x7,omitempty" protobuf:"varint,27,opt,name=x7" thrift:"27"`
	X08  int64              `json:"x8,omitempty" protobuf:"varint,28,opt,name=x8" thrift:"28"`
	X09  int64              `json:"x9,omitempty" protobuf:"varint,29,opt,name=x9" thrift:"29"`
	X10  int64              `json:"x10,omitempty" protobuf:"varint,30,opt,name=x10" thrift:"30"`
	X11  int64              `json:"x11,omitempty" protobuf:"varint,31,opt,name=x11" thrift:"31"`
	X12  int64              `json:"x12,omitempty" protobuf:"varint,32,opt,name=x12" thrift:"32"`
	X13  int64              `json:"x13,omitempty" protobuf:"varint,33,opt,name=x13" thrift:"33"`
	X14  int64              `json:"x14,omitempty" protobuf:"varint,34,opt,name=x14" thrift:"34"`
	X15  int64              `json:"x15,omitempty" protobuf:"varint,35,opt,name=x15" thrift:"35"`
	X16  int64              `json:"x16,omitempty" protobuf:"varint,36,opt,name=x16" thrift:"36"`
	X17  int64              `json:"x17,omitempty" protobuf:"varint,37,opt,name=x17" thrift:"37"`
	X18  int64              `json:"x18,omitempty" protobuf:"varint,38,opt,name=x18" thrift:"38"`
	X19  int64              `json:"x19,omitempty" protobuf:"varint,39,opt,name=x19" thrift:"39"`
	X20  int64              `json:"x20,omitempty" protobuf:"varint,40,opt,name=x20" thrift:"40"`
	X21  int64              `json:"x21,omitempty" protobuf:"varint,41,opt,name=x21" thrift:"41"`
	X22  int64              `json:"x22,omitempty" protobuf:"varint,42,opt,name=x22" thrift:"42"`
	X23  int64              `json:"x23,omitempty" protobuf:"varint,43,opt,name=x23" thrift:"43"`
}

type Peer154 struct {
	Back *Rec154   `json:"back,omitempty" protobuf:"bytes,1,opt,name=back" thrift:"1"`
	List []*Rec154 `json:"list,omitempty" protobuf:"bytes,2,rep,name=list" thrift:"2"`
	B    bool      `json:"b" protobuf:"varint,3,opt,name=b" thrift:"3"`
}

type Rec155 struct {
	M    map[string]Peer155 `json:"m,omitempty" protobuf:"bytes,6,rep,name=m" protobuf_key:"bytes,1,opt,name=key" protobuf_val:"bytes,2,opt,name=value" thrift:"6"`
	V    int64              `json:"v" protobuf:"varint,1,opt,name=v" thrift:"1"`
	Next *Rec155            `json:"next,omitempty" protobuf:"bytes,2,opt,name=next" thrift:"2"`
	Kids []Rec155           `json:"kids,omitempty" protobuf:"bytes,3,rep,name=kids" thrift:"3"`
	Peer *Peer155           `json:"peer,omitempty" protobuf:"bytes,4,opt,name=peer" thrift:"4"`
	S    string             `json:"s,omitempty" protobuf:"bytes,5,opt,name=s" thrift:"5"`
	X00  int64              `json:"x0,omitempty" protobuf:"varint,20,opt,name=x0" thrift:"20"`
	X01  int64              `json:"x1,omitempty" protobuf:"varint,21,opt,name=x1" thrift:"21"`
	X02  int64              `json:"x2,omitempty" protobuf:"varint,22,opt,name=x2" thrift:"22"`
	X03  int64              `json:"x3,omitempty" protobuf:"varint,23,opt,name=x3" thrift:"23"`
	X04  int64              `json:"x4,omitempty" protobuf:"varint,24,opt,name=x4" thrift:"24"`
	X05  int64              `json:"x5,omitempty" protobuf:"varint,25,opt,name=x5" thrift:"25"`
	X06  int64              `json:"x6,omitempty" protobuf:"varint,26,opt,name=x6" thrift:"26"`
	X07  int64              `json:"x7,omitempty" protobuf:"varint,27,opt,name=x7" thrift:"27"`
	X08  int64              `json:"x8,omitempty" protobuf:"varint,28,opt,name=x8" thrift:"28"`
	X09  int64              `json:"x9,omitempty" protobuf:"varint,29,opt,name=x9" thrift:"29"`
	X10  int64              `json:"x10,omitempty" protobuf:"varint,30,opt,name=x10" thrift:"30"`
	X11  int64              `json:"x11,omitempty" protobuf:"varint,31,opt,name=x11" thrift:"31"`
	X12  int64              `json:"x12,omitempty" protobuf:"varint,32,opt,name=x12" thrift:"32"`
	X13  int64              `json:"x13,omitempty" protobuf:"varint,33,opt,name=x13" thrift:"33"`
	X14  int64              `json:"x14,omitempty" protobuf:"varint,34,opt,name=x14" thrift:"34"`
	X15  int64              `json:"x15,omitempty" protobuf:"varint,35,opt,name=x15" thrift:"35"`
	X16  int64              `json:"x16,omitempty" protobuf:"varint,36,opt,name=x16" thrift:"36"`
	X17  int64              `json:"x17,omitempty" protobuf:"varint,37,opt,name=x17" thrift:"37"`
	X18  int64              `json:"x18,omitempty" protobuf:"varint,38,opt,name=x18" thrift:"38"`
	X19  int64              `json:"x19,omitempty" protobuf:"varint,39,opt,name=x19" thrift:"39"`
	X20  int64              `json:"x20,omitempty" protobuf:"varint,40,opt,name=x20" thrift:"40"`
	X21  int64              `json:"x21,omitempty" protobuf:"varint,41,opt,name=x21" thrift:"41"`
	X22  int64              `json:"x22,omitempty" protobuf:"varint,42,opt,name=x22" thrift:"42"`
	X23  int64              `json:"x23,omitempty" protobuf:"varint,43,opt,name=x23" thrift:"43"`
}

type Peer155 struct {
	Back *Rec155   `json:"back,omitempty" protobuf:"bytes,1,opt,name=back" thrift:"1"`
	List []*Rec155 `json:"list,omitempty" protobuf:"bytes,2,rep,name=list" thrift:"2"`
	B    bool      `json:"b" protobuf:"varint,3,opt,name=b" thrift:"3"`
}

type Rec156 struct {
	M    map[string]Peer156 `json:"m,omitempty" protobuf:"bytes,6,rep,name=m" protobuf_key:"bytes,1,opt,name=key" protobuf_val:"bytes,2,opt,name=value" thrift:"6"`
	V    int64              `json:"v" protobuf:"varint,1,opt,name=v" thrift:"1"`
	Next *Rec156            `json:"next,omitempty" protobuf:"bytes,2,opt,name=next" thrift:"2"`
	Kids []Rec156           `json:"kids,omitempty" protobuf:"bytes,3,rep,name=kids" thrift:"3"`
	Peer *Peer156           `json:"peer,omitempty" protobuf:"bytes,4,opt,name=peer" thrift:"4"`
	S    string             `json:"s,omitempty" protobuf:"bytes,5,opt,name=s" thrift:"5"`
	X00  int64              `json:"x0,omitempty" protobuf:"varint,20,opt,name=x0" thrift:"20"`
	X01  int64              `json:"x1,omitempty" protobuf:"varint,21,opt,name=x1" thrift:"21"`
	X02  int64              `json:"x2,omitempty" protobuf:"varint,22,opt,name=x2" thrift:"22"`
	X03  int64              `json:"x3,omitempty" protobuf:"varint,23,opt,name=x3" thrift:"23"`
	X04  int64              `json:"x4,omitempty" protobuf:"varint,24,opt,name=x4" thrift:"24"`
	X05  int64              `json:"x5,omitempty" protobuf:"varint,25,opt,name=x5" thrift:"25"`
	X06  int64              `json:"x6,omitempty" protobuf:"varint,26,opt,name=x6" thrift:"26"`
	X07  int64              `json:"x7,omitempty" protobuf:"varint,27,opt,name=x7" thrift:"27"`
	X08  int64              `json:"x8,omitempty" protobuf:"varint,28,opt,name=x8" thrift:"28"`
	X09  int64              `json:"x9,omitempty" protobuf:"varint,29,opt,name=x9" thrift:"29"`
	X10  int64              `json:"x10,omitempty" protobuf:"varint,30,opt,name=x10" thrift:"30"`
	X11  int64              `json:"x11,omitempty" protobuf:"varint,31,opt,name=x11" thrift:"31"`
	X12  int64              `json:"x12,omitempty" protobuf:"varint,32,opt,name=x12" thrift:"32"`
	X13  int64              `json:"x13,omitempty" protobuf:"varint,33,opt,name=x13" thrift:"33"`
	X14  int64              `json:"x14,omitempty" protobuf:"varint,34,opt,name=x14" thrift:"34"`
	X15  int64              `json:"x15,omitempty" protobuf:"varint,35,opt,name=x15" thrift:"35"`
	X16  int64              `json:"x16,omitempty" protobuf:"varint,36,opt,name=x16" thrift:"36"`
	X17  int64              `json:"x17,omitempty" protobuf:"varint,37,opt,name=x17" thrift:"37"`
	X18  int64              `json:"x18,omitempty" protobuf:"varint,38,opt,name=x18" thrift:"38"`
	X19  int64              `json:"x19,omitempty" protobuf:"varint,39,opt,name=x19" thrift:"39"`
	X20  int64              `json:"x20,omitempty" protobuf:"varint,40,opt,name=x20" thrift:"40"`
	X21  int64              `json:"x21,omitempty" protobuf:"varint,41,opt,name=x21" thrift:"41"`
	X22  int64              `json:"x22,omitempty" protobuf:"varint,42,opt,name=x22" thrift:"42"`
	X23  int64              `json:"x23,omitempty" protobuf:"varint,43,opt,name=x23" thrift:"43"`
}

type Peer156 struct {
	Back *Rec156   `json:"back,omitempty" protobuf:"bytes,1,opt,name=back" thrift:"1"`
	List []*Rec156 `json:"list,omitempty" protobuf:"bytes,2,rep,name=list" thrift:"2"`
	B    bool      `json:"b" protobuf:"varint,3,opt,name=b" thrift:"3"`
}

type Rec157 struct {
	M    map[string]Peer157 `json:"m,omitempty" protobuf:"bytes,6,rep,name=m" protobuf_key:"bytes,1,opt,name=key" protobuf_val:"bytes,2,opt,name=value" thrift:"6"`
	V    int64              `json:"v" protobuf:"varint,1,opt,name=v" thrift:"1"`
	Next *Rec157            `json:"next,omitempty" protobuf:"bytes,2,opt,name=next" thrift:"2"`
	Kids []Rec157           `json:"kids,omitempty" protobuf:"bytes,3,rep,name=kids" thrift:"3"`
	Peer *Peer157           `json:"peer,omitempty" protobuf:"bytes,4,opt,name=peer" thrift:"4"`
	S    string             `json:"s,omitempty" protobuf:"bytes,5,opt,name=s" thrift:"5"`
	X00  int64              `json:"x0,omitempty" protobuf:"varint,20,opt,name=x0" thrift:"20"`
	X01  int64              `json:"x1,omitempty" protobuf:"varint,21,opt,name=x1" thrift:"21"`
	X02  int64              `json:"x2,omitempty" protobuf:"varint,22,opt,name=x2" thrift:"22"`
	X03  int64              `json:"x3,omitempty" protobuf:"varint,23,opt,name=x3" thrift:"23"`
	X04  int64              `json:"x4,omitempty" protobuf:"varint,24,opt,name=x4" thrift:"24"`
	X05  int64              `json:"x5,omitempty" protobuf:"varint,25,opt,name=x5" thrift:"25"`
	X06  int64              `json:"x6,omitempty" protobuf:"varint,26,opt,name=x6" thrift:"26"`
	X07  int64              `json:"x7,omitempty" protobuf:"varint,27,opt,name=x7" thrift:"27"`
	X08  int64              `json:"x8,omitempty" protobuf:"varint,28,opt,name=x8" thrift:"28"`
	X09  int64              `json:"x9,omitempty" protobuf:"varint,29,opt,name=x9" thrift:"29"`
	X10  int64              `json:"x10,omitempty" protobuf:"varint,30,opt,name=x10" thrift:"30"`
	X11  int64              `json:"x11,omitempty" protobuf:"varint,31,opt,name=x11" thrift:"31"`
	X12  int64              `json:"x12,omitempty" protobuf:"varint,32,opt,name=x12" thrift:"32"`
	X13  int64              `json:"x13,omitempty" protobuf:"varint,33,opt,name=x13" thrift:"33"`
	X14  int64              `json:"x14,omitempty" protobuf:"varint,34,opt,name=x14" thrift:"34"`
	X15  int64              `json:"x15,omitempty" protobuf:"varint,35,opt,name=x15" thrift:"35"`
	X16  int64              `json:"x16,omitempty" protobuf:"varint,36,opt,name=x16" thrift:"36"`
	X17  int64              `json:"x17,omitempty" protobuf:"varint,37,opt,name=x17" thrift:"37"`
	X18  int64              `json:"x18,omitempty" protobuf:"varint,38,opt,name=x18" thrift:"38"`
	X19  int64              `json:"x19,omitempty" protobuf:"varint,39,opt,name=x19" thrift:"39"`
	X20  int64              `json:"x20,omitempty" protobuf:"varint,40,opt,name=x20" thrift:"40"`
	X21  int64              `json:"x21,omitempty" protobuf:"varint,41,opt,name=x21" thrift:"41"`
	X22  int64              `json:"x22,omitempty" protobuf:"varint,42,opt,name=x22" thrift:"42"`
	X23  int64              `json:"x23,omitempty" protobuf:"varint,43,opt,name=x23" thrift:"43"`
}

type Peer157 struct {
	Back *Rec157   `json:"back,omitempty" protobuf:"bytes,1,opt,name=back" thrift:"1"`
	List []*Rec157 `json:"list,omitempty" protobuf:"bytes,2,rep,name=list" thrift:"2"`
	B    bool      `json:"b" protobuf:"varint,3,opt,name=b" thrift:"3"`
}

type Rec158 struct {
	M    map[string]Peer158 `json:"m,omitempty" protobuf:"bytes,6,rep,name=m" protobuf_key:"bytes,1,opt,name=key" protobuf_val:"bytes,2,opt,name=value" thrift:"6"`
	V    int64              `json:"v" protobuf:"varint,1,opt,name=v" thrift:"1"`
	Next *Rec158            `json:"next,omitempty" protobuf:"bytes,2,opt,name=next" thrift:"2"`
	Kids []Rec158           `json:"kids,omitempty" protobuf:"bytes,3,rep,name=kids" thrift:"3"`
	Peer *Peer158           `json:"peer,omitempty" protobuf:"bytes,4,opt,name=peer" thrift:"4"`
	S    string             `json:"s,omitempty" protobuf:"bytes,5,opt,name=s" thrift:"5"`
	X00  int64              `json:"x0,omitempty" protobuf:"varint,20,opt,name=x0" thrift:"20"`
	X01  int64              `json:"x1,omitempty" protobuf:"varint,21,opt,name=x1" thrift:"21"`
	X02  int64              `json:"x2,omitempty" protobuf:"varint,22,opt,name=x2" thrift:"22"`
	X03  int64              `json:"x3,omitempty" protobuf:"varint,23,opt,name=x3" thrift:"23"`
	X04  int64              `json:"x4,omitempty" protobuf:"varint,24,opt,name=x4" thrift:"24"`
	X05  int64              `json:"x5,omitempty" protobuf:"varint,25,opt,name=x5" thrift:"25"`
	X06  int64              `json:"x6,omitempty" protobuf:"varint,26,opt,name=x6" thrift:"26"`
	X07  int64              `json:"x7,omitempty" protobuf:"varint,27,opt,name=x7" thrift:"27"`
	X08  int64              `json:"x8,omitempty" protobuf:"varint,28,opt,name=x8" thrift:"28"`
	X09  int64              `json:"x9,omitempty" protobuf:"varint,29,opt,name=x9" thrift:"29"`
	X10  int64              `json:"x10,omitempty" protobuf:"varint,30,opt,name=x10" thrift:"30"`
	X11  int64              `json:"x11,omitempty" protobuf:"varint,31,opt,name=x11" thrift:"31"`
	X12  int64              `json:"x12,omitempty" protobuf:"varint,32,opt,name=x12" thrift:"32"`
	X13  int64              `json:"x13,omitempty" protobuf:"varint,33,opt,name=x13" thrift:"33"`
	X14  int64              `json:"x14,omitempty" protobuf:"varint,34,opt,name=x14" thrift:"34"`
	X15  int64              `json:"x15,omitempty" protobuf:"varint,35,opt,name=x15" thrift:"35"`
	X16  int64              `json:"x16,omitempty" protobuf:"varint,36,opt,name=x16" thrift:"36"`
	X17  int64              `json:"x17,omitempty" protobuf:"varint,37,opt,name=x17" thrift:"37"`
	X18  int64              `json:"x18,omitempty" protobuf:"varint,38,opt,name=x18" thrift:"38"`
	X19  int64              `json:"x19,omitempty" protobuf:"varint,39,opt,name=x19" thrift:"39"`
	X20  int64              `json:"x20,omitempty" protobuf:"varint,40,opt,name=x20" thrift:"40"`
	X21  int64              `json:"x21,omitempty" protobuf:"varint,41,opt,name=x21" thrift:"41"`
	X22  int64              `json:"x22,omitempty" protobuf:"varint,42,opt,name=x22" thrift:"42"`
	X23  int64              `json:"x23,omitempty" protobuf:"varint,43,opt,name=x23" thrift:"43"`
}

type Peer158 struct {
	Back *Rec158   `json:"back,omitempty" protobuf:"bytes,1,opt,name=back" thrift:"1"`
	List []*Rec158 `json:"list,omitempty" protobuf:"bytes,2,rep,name=list" thrift:"2"`
	B    bool      `json:"b" protobuf:"varint,3,opt,name=b" thrift:"3"`
}

type Rec159 struct {
	M    map[string]Peer159 `json:"m,omitempty" protobuf:"bytes,6,rep,name=m" protobuf_key:"bytes,1,opt,name=key" protobuf_val:"bytes,2,opt,name=value" thrift:"6"`
	V    int64              `json:"v" protobuf:"varint,1,opt,name=v" thrift:"1"`
	Next *Rec159            `json:"next,omitempty" protobuf:"bytes,2,opt,name=next" thrift:"2"`
	Kids []Rec159           `json:"kids,omitempty" protobuf:"bytes,3,rep,name=kids" thrift:"3"`
	Peer *Peer159           `json:"peer,omitempty" protobuf:"bytes,4,opt,name=peer" thrift:"4"`
	S    string             `json:"s,omitempty" protobuf:"bytes,5,opt,name=s" thrift:"5"`
	X00  int64              `json:"x0,omitempty" protobuf:"varint,20,opt,name=x0" thrift:"20"`
	X01  int64              `json:"x1,omitempty" protobuf:"varint,21,opt,name=x1" thrift:"21"`
	X02  int64              `json:"x2,omitempty" protobuf:"varint,22,opt,name=x2" thrift:"22"`
	X03  int64              `json:"x3,omitempty" protobuf:"varint,23,opt,name=x3" thrift:"23"`
	X04  int64              `json:"x4,omitempty" protobuf:"varint,24,opt,name=x4" thrift:"24"`
	X05  int64              `json:"x5,omitempty" protobuf:"varint,25,opt,name=x5" thrift:"25"`
	X06  int64              `json:"x6,omitempty" protobuf:"varint,26,opt,name=x6" thrift:"26"`
	X07  int64              `json:"x7,omitempty" protobuf:"varint,27,opt,name=x7" thrift:"27"`
	X08  int64              `json:"x8,omitempty" protobuf:"varint,28,opt,name=x8" thrift:"28"`
	X09  int64              `json:"x9,omitempty" protobuf:"varint,29,opt,name=x9" thrift:"29"`
	X10  int64              `json:"x10,omitempty" protobuf:"varint,30,opt,name=x10" thrift:"30"`
	X11  int64              `json:"x11,omitempty" protobuf:"varint,31,opt,name=x11" thrift:"31"`
	X12  int64              `json:"x12,omitempty" protobuf:"varint,32,opt,name=x12" thrift:"32"`
	X13  int64              `json:"x13,omitempty" protobuf:"varint,33,opt,name=x13" thrift:"33"`
	X14  int64              `json:"x14,omitempty" protobuf:"varint,34,opt,name=x14" thrift:"34"`
	X15  int64              `json:"x15,omitempty" protobuf:"varint,35,opt,name=x15" thrift:"35"`
	X16  int64              `json:"x16,omitempty" protobuf:"varint,36,opt,name=x16" thrift:"36"`
	X17  int64              `json:"x17,omitempty" protobuf:"varint,37,opt,name=x17" thrift:"37"`
	X18  int64              `json:"x18,omitempty" protobuf:"varint,38,opt,name=x18" thrift:"38"`
	X19  int64              `json:"x19,omitempty" protobuf:"varint,39,opt,name=x19" thrift:"39"`
	X20  int64              `json:"x20,omitempty" protobuf:"varint,40,opt,name=x20" thrift:"40"`
	X21  int64              `json:"x21,omitempty" protobuf:"varint,41,opt,name=x21" thrift:"41"`
	X22  int64              `json:"x22,omitempty" protobuf:"varint,42,opt,name=x22" thrift:"42"`
	X23  int64              `json:"x23,omitempty" protobuf:"varint,43,opt,name=x23" thrift:"43"`
}

type Peer159 struct {
	Back *Rec159   `json:"back,omitempty" protobuf:"bytes,1,opt,name=back" thrift:"1"`
	List []*Rec159 `json:"list,omitempty" protobuf:"bytes,2,rep,name=list" thrift:"2"`
	B    bool      `json:"b" protobuf:"varint,3,opt,name=b" thrift:"3"`
}

type Rec160 struct {
	M    map[string]Peer160 `json:"m,omitempty" protobuf:"bytes,6,rep,name=m" protobuf_key:"bytes,1,opt,name=key" protobuf_val:"bytes,2,opt,name=value" thrift:"6"`
	V    int64              `json:"v" protobuf:"varint,1,opt,name=v" thrift:"1"`
	Next *Rec160            `json:"next,omitempty" protobuf:"bytes,2,opt,name=next" thrift:"2"`
	Kids []Rec160           `json:"kids,omitempty" protobuf:"bytes,3,rep,name=kids" thrift:"3"`
	Peer *Peer160           `json:"peer,omitempty" protobuf:"bytes,4,opt,name=peer" thrift:"4"`
	S    string             `json:"s,omitempty" protobuf:"bytes,5,opt,name=s" thrift:"5"`
	X00  int64              `json:"x0,omitempty" protobuf:"varint,20,opt,name=x0" thrift:"20"`
	X01  int64              `json:"x1,omitempty" protobuf:"varint,21,opt,name=x1" thrift:"21"`
	X02  int64              `json:"x2,omitempty" protobuf:"varint,22,opt,name=x2" thrift:"22"`
	X03  int64              `json:"x3,omitempty" protobuf:"varint,23,opt,name=x3" thrift:"23"`
	X04  int64              `json:"x4,omitempty" protobuf:"varint,24,opt,name=x4" thrift:"24"`
	X05  int64              `json:"x5,omitempty" protobuf:"varint,25,opt,name=x5" thrift:"25"`
	X06  int64              `json:"x6,omitempty" protobuf:"varint,26,opt,name=x6" thrift:"26"`
	X07  int64              `json:"x7,omitempty" protobuf:"varint,27,opt,name=x7" thrift:"27"`
	X08  int64              `json:"x8,omitempty" protobuf:"varint,28,opt,name=x8" thrift:"28"`
	X09  int64              `json:"x9,omitempty" protobuf:"varint,29,opt,name=x9" thrift:"29"`
	X10  int64              `json:"x10,omitempty" protobuf:"varint,30,opt,name=x10" thrift:"30"`
	X11  int64              `json:"x11,omitempty" protobuf:"varint,31,opt,name=x11" thrift:"31"`
	X12  int64              `json:"x12,omitempty" protobuf:"varint,32,opt,name=x12" thrift:"32"`
	X13  int64              `json:"x13,omitempty" protobuf:"varint,33,opt,name=x13" thrift:"33"`
	X14  int64              `json:"x14,omitempty" protobuf:"varint,34,opt,name=x14" thrift:"34"`
	X15  int64              `json:"x15,omitempty" protobuf:"varint,35,opt,name=x15" thrift:"35"`
	X16  int64              `json:"x16,omitempty" protobuf:"varint,36,opt,name=x16" thrift:"36"`
	X17  int64              `json:"x17,omitempty" protobuf:"varint,37,opt,name=x17" thrift:"37"`
	X18  int64              `json:"x18,omitempty" protobuf:"varint,38,opt,name=x18" thrift:"38"`
	X19  int64              `json:"x19,omitempty" protobuf:"varint,39,opt,name=x19" thrift:"39"`
	X20  int64              `json:"x20,omitempty" protobuf:"varint,40,opt,name=x20" thrift:"40"`
	X21  int64              `json:"x21,omitempty" protobuf:"varint,41,opt,name=x21" thrift:"41"`
	X22  int64              `json:"x22,omitempty" protobuf:"varint,42,opt,name=x22" thrift:"42"`
	X23  int64              `json:"x23,omitempty" protobuf:"varint,43,opt,name=x23" thrift:"43"`
}

type Peer160 struct {
	Back *Rec160   `json:"back,omitempty" protobuf:"bytes,1,opt,name=back" thrift:"1"`
	List []*Rec160 `json:"list,omitempty" protobuf:"bytes,2,rep,name=list" thrift:"2"`
	B    bool      `json:"b" protobuf:"varint,3,opt,name=b" thrift:"3"`
}

type Rec161 struct {
	M    map[string]Peer161 `json:"m,omitempty" protobuf:"bytes,6,rep,name=m" protobuf_key:"bytes,1,opt,name=key" protobuf_val:"bytes,2,opt,name=value" thrift:"6"`
	V    int64              `json:"v" protobuf:"varint,1,opt,name=v" thrift:"1"`
	Next *Rec161            `json:"next,omitempty" protobuf:"bytes,2,opt,name=next" thrift:"2"`
	Kids []Rec161           `json:"kids,omitempty" protobuf:"bytes,3,rep,name=kids" thrift:"3"`
	Peer *Peer161           `json:"peer,omitempty" protobuf:"bytes,4,opt,name=peer" thrift:"4"`
	S    string             `json:"s,omitempty" protobuf:"bytes,5,opt,name=s" thrift:"5"`
	X00  int64              `json:"x0,omitempty" protobuf:"varint,20,opt,name=x0" thrift:"20"`
	X01  int64              `json:"x1,omitempty" protobuf:"varint,21,opt,name=x1" thrift:"21"`
	X02  int64              `json:"x2,omitempty" protobuf:"varint,22,opt,name=x2" thrift:"22"`
	X03  int64              `json:"x3,omitempty" protobuf:"varint,23,opt,name=x3" thrift:"23"`
	X04  int64              `json:"x4,omitempty" protobuf:"varint,24,opt,name=x4" thrift:"24"`
	X05  int64              `json:"x5,omitempty" protobuf:"varint,25,opt,name=x5" thrift:"25"`
	X06  int64              `json:"x6,omitempty" protobuf:"varint,26,opt,name=x6" thrift:"26"`
	X07  int64              `json:"x7,omitempty" protobuf:"varint,27,opt,name=x7" thrift:"27"`
	X08  int64              `json:"x8,omitempty" protobuf:"varint,28,opt,name=x8" thrift:"28"`
	X09  int64              `json:"x9,omitempty" protobuf:"varint,29,opt,name=x9" thrift:"29"`
	X10  int64              `json:"x10,omitempty" protobuf:"varint,30,opt,name=x10" thrift:"30"`
	X11  int64              `json:"x11,omitempty" protobuf:"varint,31,opt,name=x11" thrift:"31"`
	X12  int64              `json:"x12,omitempty" protobuf:"varint,32,opt,name=x12" thrift:"32"`
	X13  int64              `json:"x13,omitempty" protobuf:"varint,33,opt,name=x13" thrift:"33"`
	X14  int64              `json:"x14,omitempty" protobuf:"varint,34,opt,name=x14" thrift:"34"`
	X15  int64              `json:"x15,omitempty" protobuf:"varint,35,opt,name=x15" thrift:"35"`
	X16  int64              `json:"x16,omitempty" protobuf:"varint,36,opt,name=x16" thrift:"36"`
	X17  int64              `json:"x17,omitempty" protobuf:"varint,37,opt,name=x17" thrift:"37"`
	X18  int64              `json:"x18,omitempty" protobuf:"varint,38,opt,name=x18" thrift:"38"`
	X19  int64              `json:"x19,omitempty" protobuf:"varint,39,opt,name=x19" thrift:"39"`
	X20  int64              `json:"x20,omitempty" protobuf:"varint,40,opt,name=x20" thrift:"40"`
	X21  int64              `json:"x21,omitempty" protobuf:"varint,41,opt,name=x21" thrift:"41"`
	X22  int64              `json:"x22,omitempty" protobuf:"varint,42,opt,name=x22" thrift:"42"`
	X23  int64              `json:"x23,omitempty" protobuf:"varint,43,opt,name=x23" thrift:"43"`
}

type Peer161 struct {
	Back *Rec161   `json:"back,omitempty" protobuf:"bytes,1,opt,name=back" thrift:"1"`
	List []*Rec161 `json:"list,omitempty" protobuf:"bytes,2,rep,name=list" thrift:"2"`
	B    bool      `json:"b" protobuf:"varint,3,opt,name=b" thrift:"3"`
}

type Rec162 struct {
	M    map[string]Peer162 `json:"m,omitempty" protobuf:"bytes,6,rep,name=m" protobuf_key:"bytes,1,opt,name=key" protobuf_val:"bytes,2,opt,name=value" thrift:"6"`
	V    int64              `json:"v" protobuf:"varint,1,opt,name=v" thrift:"1"`
	Next *Rec162            `json:"next,omitempty" protobuf:"bytes,2,opt,name=next" thrift:"2"`
	Kids []Rec162           `json:"kids,omitempty" protobuf:"bytes,3,rep,name=kids" thrift:"3"`
	Peer *Peer162           `json:"peer,omitempty" protobuf:"bytes,4,opt,name=peer" thrift:"4"`
	S    string             `json:"s,omitempty" protobuf:"bytes,5,opt,name=s" thrift:"5"`
	X00  int64              `json:"x0,omitempty" protobuf:"varint,20,opt,name=x0" thrift:"20"`
	X01  int64              `json:"x1,omitempty" protobuf:"varint,21,opt,name=x1" thrift:"21"`
	X02  int64              `json:"x2,omitempty" protobuf:"varint,22,opt,name=x2" thrift:"22"`
	X03  int64              `json:"x3,omitempty" protobuf:"varint,23,opt,name=x3" thrift:"23"`
	X04  int64              `json:"x4,omitempty" protobuf:"varint,24,opt,name=x4" thrift:"24"`
	X05  int64              `json:"x5,omitempty" protobuf:"varint,25,opt,name=x5" thrift:"25"`
	X06  int64              `json:"x6,omitempty" protobuf:"varint,26,opt,name=x6" thrift:"26"`
	X07  int64              `json:"x7,omitempty" protobuf:"varint,27,opt,name=x7" thrift:"27"`
	X08  int64              `json:"x8,omitempty" protobuf:"varint,28,opt,name=x8" thrift:"28"`
	X09  int64              `json:"x9,omitempty" protobuf:"varint,29,opt,name=x9" thrift:"29"`
	X10  int64              `json:"x10,omitempty" protobuf:"varint,30,opt,name=x10" thrift:"30"`
	X11  int64              `json:"x11,omitempty" protobuf:"varint,31,opt,name=x11" thrift:"31"`
	X12  int64              `json:"x12,omitempty" protobuf:"varint,32,opt,name=x12" thrift:"32"`
	X13  int64              `json:"x13,omitempty" protobuf:"varint,33,opt,name=x13" thrift:"33"`
	X14  int64              `json:"x14,omitempty" protobuf:"varint,34,opt,name=x14" thrift:"34"`
	X15  int64              `json:"x15,omitempty" protobuf:"varint,35,opt,name=x15" thrift:"35"`
	X16  int64              `json:"x16,omitempty" protobuf:"varint,36,opt,name=x16" thrift:"36"`
	X17  int64              `json:"x17,omitempty" protobuf:"varint,37,opt,name=x17" thrift:"37"`
	X18  int64              `json:"x18,omitempty" protobuf:"varint,38,opt,name=x18" thrift:"38"`
	X19  int64              `json:"x19,omitempty" protobuf:"varint,39,opt,name=x19" thrift:"39"`
	X20  int64              `json:"x20,omitempty" protobuf:"varint,40,opt,name=x20" thrift:"40"`
	X21  int64              `json:"x21,omitempty" protobuf:"varint,41,opt,name=x21" thrift:"41"`
	X22  int64              `json:"x22,omitempty" protobuf:"varint,42,opt,name=x22" thrift:"42"`
	X23  int64              `json:"x23,omitempty" protobuf:"varint,43,opt,name=x23" thrift:"43"`
}

type Peer162 struct {
	Back *Rec162   `json:"back,omitempty" protobuf:"bytes,1,opt,name=back" thrift:"1"`
	List []*Rec162 `json:"list,omitempty" protobuf:"bytes,2,rep,name=list" thrift:"2"`
	B    bool      `json:"b" protobuf:"varint,3,opt,name=b" thrift:"3"`
}

type Rec163 struct {
	M    map[string]Peer163 `json:"m,omitempty" protobuf:"bytes,6,rep,name=m" protobuf_key:"bytes,1,opt,name=key" protobuf_val:"bytes,2,opt,name=value" thrift:"6"`
	V    int64              `json:"v" protobuf:"varint,1,opt,name=v" thrift:"1"`
	Next *Rec163            `json:"next,omitempty" protobuf:"bytes,2,opt,name=next" thrift:"2"`
	Kids []Rec163           `json:"kids,omitempty" protobuf:"bytes,3,rep,name=kids" thrift:"3"`
	Peer *Peer163           `json:"peer,omitempty" protobuf:"bytes,4,opt,name=peer" thrift:"4"`
	S    string             `json:"s,omitempty" protobuf:"bytes,5,opt,name=s" thrift:"5"`
	X00  int64              `json:"x0,omitempty" protobuf:"varint,20,opt,name=x0" thrift:"20"`
	X01  int64              `json:"x1,omitempty" protobuf:"varint,21,opt,name=x1" thrift:"21"`
	X02  int64              `json:"x2,omitempty" protobuf:"varint,22,opt,name=x2" thrift:"22"`
	X03  int64              `json:"x3,omitempty" protobuf:"varint,23,opt,name=x3" thrift:"23"`
	X04  int64              `json:"x4,omitempty" protobuf:"varint,24,opt,name=x4" thrift:"24"`
	X05  int64              `json:"x5,omitempty" protobuf:"varint,25,opt,name=x5" thrift:"25"`
	X06  int64              `json:"x6,omitempty" protobuf:"varint,26,opt,name=x6" thrift:"26"`
	X07  int64              `json:"x7,omitempty" protobuf:"varint,27,opt,name=x7" thrift:"27"`
	X08  int64              `json:"x8,omitempty" protobuf:"varint,28,opt,name=x8" thrift:"28"`
	X09  int64              `json:"x9,omitempty" protobuf:"varint,29,opt,name=x9" thrift:"29"`
	X10  int64              `json:"x10,omitempty" protobuf:"varint,30,opt,name=x10" thrift:"30"`
	X11  int64              `json:"x11,omitempty" protobuf:"varint,31,opt,name=x11" thrift:"31"`
	X12  int64              `json:"x12,omitempty" protobuf:"varint,32,opt,name=x12" thrift:"32"`
	X13  int64              `json:"x13,omitempty" protobuf:"varint,33,opt,name=x13" thrift:"33"`
	X14  int64              `json:"x14,omitempty" protobuf:"varint,34,opt,name=x14" thrift:"34"`
	X15  int64              `json:"x15,omitempty" protobuf:"varint,35,opt,name=x15" thrift:"35"`
	X16  int64              `json:"x16,omitempty" protobuf:"varint,36,opt,name=x16" thrift:"36"`
	X17  int64              `json:"x17,omitempty" protobuf:"varint,37,opt,name=x17" thrift:"37"`
	X18  int64              `json:"x18,omitempty" protobuf:"varint,38,opt,name=x18" thrift:"38"`
	X19  int64              `json:"x19,omitempty" protobuf:"varint,39,opt,name=x19" thrift:"39"`
	X20  int64              `json:"x20,omitempty" protobuf:"varint,40,opt,name=x20" thrift:"40"`
	X21  int64              `json:"x21,omitempty" protobuf:"varint,41,opt,name=x21" thrift:"41"`
	X22  int64              `json:"x22,omitempty" protobuf:"varint,42,opt,name=x22" thrift:"42"`
	X23  int64              `json:"x23,omitempty" protobuf:"varint,43,opt,name=x23" thrift:"43"`
}

type Peer163 struct {
	Back *Rec163   `json:"back,omitempty" protobuf:"bytes,1,opt,name=back" thrift:"1"`
	List []*Rec163 `json:"list,omitempty" protobuf:"bytes,2,rep,name=list" thrift:"2"`
	B    bool      `json:"b" protobuf:"varint,3,opt,name=b" thrift:"3"`
}

type Rec164 struct {
	M    map[string]Peer164 `json:"m,omitempty" protobuf:"bytes,6,rep,name=m" protobuf_key:"bytes,1,opt,name=key" protobuf_val:"bytes,2,opt,name=value" thrift:"6"`
	V    int64              `json:"v" protobuf:"varint,1,opt,name=v" thrift:"1"`
	Next *Rec164            `json:"next,omitempty" protobuf:"bytes,2,opt,name=next" thrift:"2"`
	Kids []Rec164           `json:"kids,omitempty" protobuf:"bytes,3,rep,name=kids" thrift:"3"`
	Peer *Peer164           `json:"peer,omitempty" protobuf:"bytes,4,opt,name=peer" thrift:"4"`
	S    string             `json:"s,omitempty" protobuf:"bytes,5,opt,name=s" thrift:"5"`
	X00  int64              `json:"x0,omitempty" protobuf:"varint,20,opt,name=x0" thrift:"20"`
	X01  int64              `json:"x1,omitempty" protobuf:"varint,21,opt,name=x1" thrift:"21"`
	X02  int64              `json:"x2,omitempty" protobuf:"varint,22,opt,name=x2" thrift:"22"`
	X03  int64              `json:"x3,omitempty" protobuf:"varint,23,opt,name=x3" thrift:"23"`
	X04  int64              `json:"x4,omitempty" protobuf:"varint,24,opt,name=x4" thrift:"24"`
	X05  int64              `json:"x5,omitempty" protobuf:"varint,25,opt,name=x5" thrift:"25"`
	X06  int64              `json:"x6,omitempty" protobuf:"varint,26,opt,name=x6" thrift:"26"`
	X07  int64              `json:"x7,omitempty" protobuf:"varint,27,opt,name=x7" thrift:"27"`
	X08  int64              `json:"x8,omitempty" protobuf:"varint,28,opt,name=x8" thrift:"28"`
	X09  int64              `json:"x9,omitempty" protobuf:"varint,29,opt,name=x9" thrift:"29"`
	X10  int64              `json:"x10,omitempty" protobuf:"varint,30,opt,name=x10" thrift:"30"`
	X11  int64              `json:"x11,omitempty" protobuf:"varint,31,opt,name=x11" thrift:"31"`
	X12  int64              `json:"x12,omitempty" protobuf:"varint,32,opt,name=x12" thrift:"32"`
	X13  int64              `json:"x13,omitempty" protobuf:"varint,33,opt,name=x13" thrift:"33"`
	X14  int64              `json:"x14,omitempty" protobuf:"varint,34,opt,name=x14" thrift:"34"`
	X15  int64              `json:"x15,omitempty" protobuf:"varint,35,opt,name=x15" thrift:"35"`
	X16  int64              `json:"x16,omitempty" protobuf:"varint,36,opt,name=x16" thrift:"36"`
	X17  int64              `json:"x17,omitempty" protobuf:"varint,37,opt,name=x17" thrift:"37"`
	X18  int64              `json:"x18,omitempty" protobuf:"varint,38,opt,name=x18" thrift:"38"`
	X19  int64              `json:"x19,omitempty" protobuf:"varint,39,opt,name=x19" thrift:"39"`
	X20  int64              `json:"x20,omitempty" protobuf:"varint,40,opt,name=x20" thrift:"40"`
	X21  int64              `json:"x21,omitempty" protobuf:"varint,41,opt,name=x21" thrift:"41"`
	X22  int64              `json:"x22,omitempty" protobuf:"varint,42,opt,name=x22" thrift:"42"`
	X23  int64              `json:"x23,omitempty" protobuf:"varint,43,opt,name=x23" thrift:"43"`
}

type Peer164 struct {
	Back *Rec164   `json:"back,omitempty" protobuf:"bytes,1,opt,name=back" thrift:"1"`
	List []*Rec164 `json:"list,omitempty" protobuf:"bytes,2,rep,name=list" thrift:"2"`
	B    bool      `json:"b" protobuf:"varint,3,opt,name=b" thrift:"3"`
}

type Rec165 struct {
	M    map[string]Peer165 `json:"m,omitempty" protobuf:"bytes,6,rep,name=m" protobuf_key:"bytes,1,opt,name=key" protobuf_val:"bytes,2,opt,name=value" thrift:"6"`
	V    int64              `json:"v" protobuf:"varint,1,opt,name=v" thrift:"1"`
	Next *Rec165            `json:"next,omitempty" protobuf:"bytes,2,opt,name=next" thrift:"2"`
	Kids []Rec165           `json:"kids,omitempty" protobuf:"bytes,3,rep,name=kids" thrift:"3"`
	Peer *Peer165           `json:"peer,omitempty" protobuf:"bytes,4,opt,name=peer" thrift:"4"`
	S    string             `json:"s,omitempty" protobuf:"bytes,5,opt,name=s" thrift:"5"`
	X00  int64              `json:"x0,omitempty" protobuf:"varint,20,opt,name=x0" thrift:"20"`
	X01  int64              `json:"x1,omitempty" protobuf:"varint,21,opt,name=x1" thrift:"21"`
	X02  int64              `json:"x2,omitempty" protobuf:"varint,22,opt,name=x2" thrift:"22"`
	X03  int64              `json:"x3,omitempty" protobuf:"varint,23,opt,name=x3" thrift:"23"`
	X04  int64              `json:"x4,omitempty" protobuf:"varint,24,opt,name=x4" thrift:"24"`
	X05  int64              `json:"x5,omitempty" protobuf:"varint,25,opt,name=x5" thrift:"25"`
	X06  int64              `json:"x6,omitempty" protobuf:"varint,26,opt,name=x6" thrift:"26"`
	X07  int64              `json:"x7,omitempty" protobuf:"varint,27,opt,name=x7" thrift:"27"`
	X08  int64              `json:"x8,omitempty" protobuf:"varint,28,opt,name=x8" thrift:"28"`
	X09  int64              `json:"x9,omitempty" protobuf:"varint,29,opt,name=x9" thrift:"29"`
	X10  int64              `json:"x10,omitempty" protobuf:"varint,30,opt,name=x10" thrift:"30"`
	X11  int64              `json:"x11,omitempty" protobuf:"varint,31,opt,name=x11" thrift:"31"`
	X12  int64              `json:"x12,omitempty" protobuf:"varint,32,opt,name=x12" thrift:"32"`
	X13  int64              `json:"x13,omitempty" protobuf:"varint,33,opt,name=x13" thrift:"33"`
	X14  int64              `json:"x14,omitempty" protobuf:"varint,34,opt,name=x14" thrift:"34"`
	X15  int64              `json:"x15,omitempty" protobuf:"varint,35,opt,name=x15" thrift:"35"`
	X16  int64              `json:"x16,omitempty" protobuf:"varint,36,opt,name=x16" thrift:"36"`
	X17  int64              `json:"x17,omitempty" protobuf:"varint,37,opt,name=x17" thrift:"37"`
	X18  int64              `json:"x18,omitempty" protobuf:"varint,38,opt,name=x18" thrift:"38"`
	X19  int64              `json:"x19,omitempty" protobuf:"varint,39,opt,name=x19" thrift:"39"`
	X20  int64              `json:"x20,omitempty" protobuf:"varint,40,opt,name=x20" thrift:"40"`
	X21  int64              `json:"x21,omitempty" protobuf:"varint,41,opt,name=x21" thrift:"41"`
	X22  int64              `json:"x22,omitempty" protobuf:"varint,42,opt,name=x22" thrift:"42"`
	X23  int64              `json:"x23,omitempty" protobuf:"varint,43,opt,name=x23" thrift:"43"`
}

type Peer165 struct {
	Back *Rec165   `json:"back,omitempty" protobuf:"bytes,1,opt,name=back" thrift:"1"`
	List []*Rec165 `json:"list,omitempty" protobuf:"bytes,2,rep,name=list" thrift:"2"`
	B    bool      `json:"b" protobuf:"varint,3,opt,name=b" thrift:"3"`
}

type Rec166 struct {
	M    map[string]Peer166 `json:"m,omitempty" protobuf:"bytes,6,rep,name=m" protobuf_key:"bytes,1,opt,name=key" protobuf_val:"bytes,2,opt,name=value" thrift:"6"`
	V    int64              `json:"v" protobuf:"varint,1,opt,name=v" thrift:"1"`
	Next *Rec166            `json:"next,omitempty" protobuf:"bytes,2,opt,name=next" thrift:"2"`
	Kids []Rec166           `json:"kids,omitempty" protobuf:"bytes,3,rep,name=kids" thrift:"3"`
	Peer *Peer166           `json:"peer,omitempty" protobuf:"bytes,4,opt,name=peer" thrift:"4"`
	S    string             `json:"s,omitempty" protobuf:"bytes,5,opt,name=s" thrift:"5"`
	X00  int64              `json:"x0,omitempty" protobuf:"varint,20,opt,name=x0" thrift:"20"`
	X01  int64              `json:"x1,omitempty" protobuf:"varint,21,opt,name=x1" thrift:"21"`
	X02  int64              `json:"x2,omitempty" protobuf:"varint,22,opt,name=x2" thrift:"22"`
	X03  int64              `json:"x3,omitempty" protobuf:"varint,23,opt,name=x3" thrift:"23"`
	X04  int64              `json:"x4,omitempty" protobuf:"varint,24,opt,name=x4" thrift:"24"`
	X05  int64              `json:"x5,omitempty" protobuf:"varint,25,opt,name=x5" thrift:"25"`
	X06  int64              `json:"x6,omitempty" protobuf:"varint,26,opt,name=x6" thrift:"26"`
	X07  int64              `json:"x7,omitempty" protobuf:"varint,27,opt,name=x7" thrift:"27"`
	X08  int64              `json:"x8,omitempty" protobuf:"varint,28,opt,name=x8" thrift:"28"`
	X09  int64              `json:"x9,omitempty" protobuf:"varint,29,opt,name=x9" thrift:"29"`
	X10  int64              `json:"x10,omitempty" protobuf:"varint,30,opt,name=x10" thrift:"30"`
	X11  int64              `json:"x11,omitempty" protobuf:"varint,31,opt,name=x11" thrift:"31"`
	X12  int64              `json:"x12,omitempty" protobuf:"varint,32,opt,name=x12" thrift:"32"`
	X13  int64              `json:"x13,omitempty" protobuf:"varint,33,opt,name=x13" thrift:"33"`
	X14  int64              `json:"x14,omitempty" protobuf:"varint,34,opt,name=x14" thrift:"34"`
	X15  int64              `json:"x15,omitempty" protobuf:"varint,35,opt,name=x15" thrift:"35"`
	X16  int64              `json:"x16,omitempty" protobuf:"varint,36,opt,name=x16" thrift:"36"`
	X17  int64              `json:"x17,omitempty" protobuf:"varint,37,opt,name=x17" thrift:"37"`
	X18  int64              `json:"x18,omitempty" protobuf:"varint,38,opt,name=x18" thrift:"38"`
	X19  int64              `json:"x19,omitempty" protobuf:"varint,39,opt,name=x19" thrift:"39"`
	X20  int64              `json:"x20,omitempty" protobuf:"varint,40,opt,name=x20" thrift:"40"`
	X21  int64              `json:"x21,omitempty" protobuf:"varint,41,opt,name=x21" thrift:"41"`
	X22  int64              `json:"x22,omitempty" protobuf:"varint,42,opt,name=x22" thrift:"42"`
	X23  int64              `json:"x23,omitempty" protobuf:"varint,43,opt,name=x23" thrift:"43"`
}

type Peer166 struct {
	Back *Rec166   `json:"back,omitempty" protobuf:"bytes,1,opt,name=back" thrift:"1"`
	List []*Rec166 `json:"list,omitempty" protobuf:"bytes,2,rep,name=list" thrift:"2"`
	B    bool      `json:"b" protobuf:"varint,3,opt,name=b" thrift:"3"`
}

type Rec167 struct {
	M    map[string]Peer167 `json:"m,omitempty" protobuf:"bytes,6,rep,name=m" protobuf_key:"bytes,1,opt,name=key" protobuf_val:"bytes,2,opt,name=value" thrift:"6"`
	V    int64              `json:"v" protobuf:"varint,1,opt,name=v" thrift:"1"`
	Next *Rec167            `json:"next,omitempty" protobuf:"bytes,2,opt,name=next" thrift:"2"`
	Kids []Rec167           `json:"kids,omitempty" protobuf:"bytes,3,rep,name=kids" thrift:"3"`
	Peer *Peer167           `json:"peer,omitempty" protobuf:"bytes,4,opt,name=peer" thrift:"4"`
	S    string             `json:"s,omitempty" protobuf:"bytes,5,opt,name=s" thrift:"5"`
	X00  int64              `json:"x0,omitempty" protobuf:"varint,20,opt,name=x0" thrift:"20"`
	X01  int64              `json:"x1,omitempty" protobuf:"varint,21,opt,name=x1" thrift:"21"`
	X02  int64              `json:"x2,omitempty" protobuf:"varint,22,opt,name=x2" thrift:"22"`
	X03  int64              `json:"x3,omitempty" protobuf:"varint,23,opt,name=x3" thrift:"23"`
	X04  int64              `json:"x4,omitempty" protobuf:"varint,24,opt,name=x4" thrift:"24"`
	X05  int64              `json:"x5,omitempty" protobuf:"varint,25,opt,name=x5" thrift:"25"`
	X06  int64              `json:"x6,omitempty" protobuf:"varint,26,opt,name=x6" thrift:"26"`
	X07  int64              `json:"x7,omitempty" protobuf:"varint,27,opt,name=x7" thrift:"27"`
	X08  int64              `json:"x8,omitempty" protobuf:"varint,28,opt,name=x8" thrift:"28"`
	X09  int64              `json:"x9,omitempty" protobuf:"varint,29,opt,name=x9" thrift:"29"`
	X10  int64              `json:"x10,omitempty" protobuf:"varint,30,opt,name=x10" thrift:"30"`
	X11  int64              `json:"x11,omitempty" protobuf:"varint,31,opt,name=x11" thrift:"31"`
	X12  int64              `json:"x12,omitempty" protobuf:"varint,32,opt,name=x12" thrift:"32"`
	X13  int64              `json:"x13,omitempty" protobuf:"varint,33,opt,name=x13" thrift:"33"`
	X14  int64              `json:"x14,omitempty" protobuf:"varint,34,opt,name=x14" thrift:"34"`
	X15  int64              `json:"x15,omitempty" protobuf:"varint,35,opt,name=x15" thrift:"35"`
	X16  int64              `json:"x16,omitempty" protobuf:"varint,36,opt,name=x16" thrift:"36"`
	X17  int64              `json:"x17,omitempty" protobuf:"varint,37,opt,name=x17" thrift:"37"`
	X18  int64              `json:"x18,omitempty" protobuf:"varint,38,opt,name=x18" thrift:"38"`
	X19  int64              `json:"x19,omitempty" protobuf:"varint,39,opt,name=x19" thrift:"39"`
	X20  int64              `json:"x20,omitempty" protobuf:"varint,40,opt,name=x20" thrift:"40"`
	X21  int64              `json:"x21,omitempty" protobuf:"varint,41,opt,name=x21" thrift:"41"`
	X22  int64              `json:"x22,omitempty" protobuf:"varint,42,opt,name=x22" thrift:"42"`
	X23  int64              `json:"x23,omitempty" protobuf:"varint,43,opt,name=x23" thrift:"43"`
}

type Peer167 struct {
	Back *Rec167   `json:"back,omitempty" protobuf:"bytes,1,opt,name=back" thrift:"1"`
	List []*Rec167 `json:"list,omitempty" protobuf:"bytes,2,rep,name=list" thrift:"2"`
	B    bool      `json:"b" protobuf:"varint,3,opt,name=b" thrift:"3"`
}

type Rec168 struct {
	M    map[string]Peer168 `json:"m,omitempty" protobuf:"bytes,6,rep,name=m" protobuf_key:"bytes,1,opt,name=key" protobuf_val:"bytes,2,opt,name=value" thrift:"6"`
	V    int64              `json:"v" protobuf:"varint,1,opt,name=v" thrift:"1"`
	Next *Rec168            `json:"next,omitempty" protobuf:"bytes,2,opt,name=next" thrift:"2"`
	Kids []Rec168           `json:"kids,omitempty" protobuf:"bytes,3,rep,name=kids" thrift:"3"`
	Peer *Peer168           `json:"peer,omitempty" protobuf:"bytes,4,opt,name=peer" thrift:"4"`
	S    string             `json:"s,omitempty" protobuf:"bytes,5,opt,name=s" thrift:"5"`
	X00  int64              `json:"x0,omitempty" protobuf:"varint,20,opt,name=x0" thrift:"20"`
	X01  int64              `json:"x1,omitempty" protobuf:"varint,21,opt,name=x1" thrift:"21"`
	X02  int64              `json:"x2,omitempty" protobuf:"varint,22,opt,name=x2" thrift:"22"`
	X03  int64              `json:"x3,omitempty" protobuf:"varint,23,opt,name=x3" thrift:"23"`
	X04  int64              `json:"x4,omitempty" protobuf:"varint,24,opt,name=x4" thrift:"24"`
	X05  int64              `json:"x5,omitempty" protobuf:"varint,25,opt,name=x5" thrift:"25"`
	X06  int64              `json:"x6,omitempty" protobuf:"varint,26,opt,name=x6" thrift:"26"`
	X07  int64              `json:"x7,omitempty" protobuf:"varint,27,opt,name=x7" thrift:"27"`
	X08  int64              `json:"x8,omitempty" protobuf:"varint,28,opt,name=x8" thrift:"28"`
	X09  int64              `json:"x9,omitempty" protobuf:"varint,29,opt,name=x9" thrift:"29"`
	X10  int64              `json:"x10,omitempty" protobuf:"varint,30,opt,name=x10" thrift:"30"`
	X11  int64              `json:"x11,omitempty" protobuf:"varint,31,opt,name=x11" thrift:"31"`
	X12  int64              `json:"x12,omitempty" protobuf:"varint,32,opt,name=x12" thrift:"32"`
	X13  int64              `json:"x13,omitempty" protobuf:"varint,33,opt,name=x13" thrift:"33"`
	X14  int64              `json:"x14,omitempty" protobuf:"varint,34,opt,name=x14" thrift:"34"`
	X15  int64              `json:"x15,omitempty" protobuf:"varint,35,opt,name=x15" thrift:"35"`
	X16  int64              `json:"x16,omitempty" protobuf:"varint,36,opt,name=x16" thrift:"36"`
	X17  int64              `json:"x17,omitempty" protobuf:"varint,37,opt,name=x17" thrift:"37"`
	X18  int64              `json:"x18,omitempty" protobuf:"varint,38,opt,name=x18" thrift:"38"`
	X19  int64              `json:"x19,omitempty" protobuf:"varint,39,opt,name=x19" thrift:"39"`
	X20  int64              `json:"x20,omitempty" protobuf:"varint,40,opt,name=x20" thrift:"40"`
	X21  int64              `json:"x21,omitempty" protobuf:"varint,41,opt,name=x21" thrift:"41"`
	X22  int64              `json:"x22,omitempty" protobuf:"varint,42,opt,name=x22" thrift:"42"`
	X23  int64              `json:"x23,omitempty" protobuf:"varint,43,opt,name=x23" thrift:"43"`
}

type Peer168 struct {
	Back *Rec168   `json:"back,omitempty" protobuf:"bytes,1,opt,name=back" thrift:"1"`
	List []*Rec168 `json:"list,omitempty" protobuf:"bytes,2,rep,name=list" thrift:"2"`
	B    bool      `json:"b" protobuf:"varint,3,opt,name=b" thrift:"3"`
}

type Rec169 struct {
	M    map[string]Peer169 `json:"m,omitempty" protobuf:"bytes,6,rep,name=m" protobuf_key:"bytes,1,opt,name=key" protobuf_val:"bytes,2,opt,name=value" thrift:"6"`
	V    int64              `json:"v" protobuf:"varint,1,opt,name=v" thrift:"1"`
	Next *Rec169            `json:"next,omitempty" protobuf:"bytes,2,opt,name=next" thrift:"2"`
	Kids []Rec169           `json:"kids,omitempty" protobuf:"bytes,3,rep,name=kids" thrift:"3"`
	Peer *Peer169           `json:"peer,omitempty" protobuf:"bytes,4,opt,name=peer" thrift:"4"`
	S    string             `json:"s,omitempty" protobuf:"bytes,5,opt,name=s" thrift:"5"`
	X00  int64              `json:"x0,omitempty" protobuf:"varint,20,opt,name=x0" thrift:"20"`
	X01  int64              `json:"x1,omitempty" protobuf:"varint,21,opt,name=x1" thrift:"21"`
	X02  int64              `json:"x2,omitempty" protobuf:"varint,22,opt,name=x2" thrift:"22"`
	X03  int64              `json:"x3,omitempty" protobuf:"varint,23,opt,name=x3" thrift:"23"`
	X04  int64              `json:"x4,omitempty" protobuf:"varint,24,opt,name=x4" thrift:"24"`
	X05  int64              `json:"x5,omitempty" protobuf:"varint,25,opt,name=x5" thrift:"25"`
	X06  int64              `json:"x6,omitempty" protobuf:"varint,26,opt,name=x6" thrift:"26"`
	X07  int64              `json:"x7,omitempty" protobuf:"varint,27,opt,name=x7" thrift:"27"`
	X08  int64              `json:"x8,omitempty" protobuf:"varint,28,opt,name=x8" thrift:"28"`
	X09  int64              `json:"x9,omitempty" protobuf:"varint,29,opt,name=x9" thrift:"29"`
	X10  int64              `json:"x10,omitempty" protobuf:"varint,30,opt,name=x10" thrift:"30"`
	X11  int64              `json:"x11,omitempty" protobuf:"varint,31,opt,name=x11" thrift:"31"`
	X12  int64              `json:"x12,omitempty" protobuf:"varint,32,opt,name=x12" thrift:"32"`
	X13  int64              `json:"x13,omitempty" protobuf:"varint,33,opt,name=x13" thrift:"33"`
	X14  int64              `json:"x14,omitempty" protobuf:"varint,34,opt,name=x14" thrift:"34"`
	X15  int64              `json:"x15,omitempty" protobuf:"varint,35,opt,name=x15" thrift:"35"`
	X16  int64              `json:"x16,omitempty" protobuf:"varint,36,opt,name=x16" thrift:"36"`
	X17  int64              `json:"x17,omitempty" protobuf:"varint,37,opt,name=x17" thrift:"37"`
	X18  int64              `json:"x18,omitempty" protobuf:"varint,38,opt,name=x18" thrift:"38"`
	X19  int64              `json:"x19,omitempty" protobuf:"varint,39,opt,name=x19" thrift:"39"`
	X20  int64              `json:"x20,omitempty" protobuf:"varint,40,opt,name=x20" thrift:"40"`
	X21  int64              `json:"x21,omitempty" protobuf:"varint,41,opt,name=x21" thrift:"41"`
	X22  int64              `json:"x22,omitempty" protobuf:"varint,42,opt,name=x22" thrift:"42"`
	X23  int64              `json:"x23,omitempty" protobuf:"varint,43,opt,name=x23" thrift:"43"`
}

type Peer169 struct {
	Back *Rec169   `json:"back,omitempty" protobuf:"bytes,1,opt,name=back" thrift:"1"`
	List []*Rec169 `json:"list,omitempty" protobuf:"bytes,2,rep,name=list" thrift:"2"`
	B    bool      `json:"b" protobuf:"varint,3,opt,name=b" thrift:"3"`
}

type Rec170 struct {
	M    map[string]Peer170 `json:"m,omitempty" protobuf:"bytes,6,rep,name=m" protobuf_key:"bytes,1,opt,name=key" protobuf_val:"bytes,2,opt,name=value" thrift:"6"`
	V    int64              `json:"v" protobuf:"varint,1,opt,name=v" thrift:"1"`
	Next *Rec170            `json:"next,omitempty" protobuf:"bytes,2,opt,name=next" thrift:"2"`
	Kids []Rec170           `json:"kids,omitempty" protobuf:"bytes,3,rep,name=kids" thrift:"3"`
	Peer *Peer170           `json:"peer,omitempty" protobuf:"bytes,4,opt,name=peer" thrift:"4"`
	S    string             `json:"s,omitempty" protobuf:"bytes,5,opt,name=s" thrift:"5"`
	X00  int64              `json:"x0,omitempty" protobuf:"varint,20,opt,name=x0" thrift:"20"`
	X01  int64              `json:"x1,omitempty" protobuf:"varint,21,opt,name=x1" thrift:"21"`
	X02  int64              `json:"x2,omitempty" protobuf:"varint,22,opt,name=x2" thrift:"22"`
	X03  int64              `json:"x3,omitempty" protobuf:"varint,23,opt,name=x3" thrift:"23"`
	X04  int64              `json:"x4,omitempty" protobuf:"varint,24,opt,name=x4" thrift:"24"`
	X05  int64              `json:"x5,omitempty" protobuf:"varint,25,opt,name=x5" thrift:"25"`
	X06  int64              `json:"x6,omitempty" protobuf:"varint,26,opt,name=x6" thrift:"26"`
	X07  int64              `json:"x7,omitempty" protobuf:"varint,27,opt,name=x7" thrift:"27"`
	X08  int64              `json:"x8,omitempty" protobuf:"varint,28,opt,name=x8" thrift:"28"`
	X09  int64              `json:"x9,omitempty" protobuf:"varint,29,opt,name=x9" thrift:"29"`
	X10  int64              `json:"x10,omitempty" protobuf:"varint,30,opt,name=x10" thrift:"30"`
	X11  int64              `json:"x11,omitempty" protobuf:"varint,31,opt,name=x11" thrift:"31"`
	X12  int64              `json:"x12,omitempty" protobuf:"varint,32,opt,name=x12" thrift:"32"`
	X13  int64              `json:"x13,omitempty" protobuf:"varint,33,opt,name=x13" thrift:"33"`
	X14  int64              `json:"x14,omitempty" protobuf:"varint,34,opt,name=x14" thrift:"34"`
	X15  int64              `json:"x15,omitempty" protobuf:"varint,35,opt,name=x15" thrift:"35"`
	X16  int64              `json:"x16,omitempty" protobuf:"varint,36,opt,name=x16" thrift:"36"`
	X17  int64              `json:"x17,omitempty" protobuf:"varint,37,opt,name=x17" thrift:"37"`
	X18  int64              `json:"x18,omitempty" protobuf:"varint,38,opt,name=x18" thrift:"38"`
	X19  int64              `json:"x19,omitempty" protobuf:"varint,39,opt,name=x19" thrift:"39"`
	X20  int64              `json:"x20,omitempty" protobuf:"varint,40,opt,name=x20" thrift:"40"`
	X21  int64              `json:"x21,omitempty" protobuf:"varint,41,opt,name=x21" thrift:"41"`
	X22  int64              `json:"x22,omitempty" protobuf:"varint,42,opt,name=x22" thrift:"42"`
	X23  int64              `json:"x23,omitempty" protobuf:"varint,43,opt,name=x23" thrift:"43"`
}

type Peer170 struct {
	Back *Rec170   `json:"back,omitempty" protobuf:"bytes,1,opt,name=back" thrift:"1"`
	List []*Rec170 `json:"list,omitempty" protobuf:"bytes,2,rep,name=list" thrift:"2"`
	B    bool      `json:"b" protobuf:"varint,3,opt,name=b" thrift:"3"`
}

type Rec171 struct {
	M    map[string]Peer171 `json:"m,omitempty" protobuf:"bytes,6,rep,name=m" protobuf_key:"bytes,1,opt,name=key" protobuf_val:"bytes,2,opt,name=value" thrift:"6"`
	V    int64              `json:"v" protobuf:"varint,1,opt,name=v" thrift:"1"`
	Next *Rec171            `json:"next,omitempty" protobuf:"bytes,2,opt,name=next" thrift:"2"`
	Kids []Rec171           `json:"kids,omitempty" protobuf:"bytes,3,rep,name=kids" thrift:"3"`
	Peer *Peer171           `json:"peer,omitempty" protobuf:"bytes,4,opt,name=peer" thrift:"4"`
	S    string             `json:"s,omitempty" protobuf:"bytes,5,opt,name=s" thrift:"5"`
	X00  int64              `json:"x0,omitempty" protobuf:"varint,20,opt,name=x0" thrift:"20"`
	X01  int64              `json:"x1,omitempty" protobuf:"varint,21,opt,name=x1" thrift:"21"`
	X02  int64              `json:"x2,omitempty" protobuf:"varint,22,opt,name=x2" thrift:"22"`
	X03  int64              `json:"x3,omitempty" protobuf:"varint,23,opt,name=x3" thrift:"23"`
	X04  int64              `json:"x4,omitempty" protobuf:"varint,24,opt,name=x4" thrift:"24"`
	X05  int64              `json:"x5,omitempty" protobuf:"varint,25,opt,name=x5" thrift:"25"`
	X06  int64              `json:"x6,omitempty" protobuf:"varint,26,opt,name=x6" thrift:"26"`
	X07  int64              `json:"x7,omitempty" protobuf:"varint,27,opt,name=x7" thrift:"27"`
	X08  int64              `json:"x8,omitempty" protobuf:"varint,28,opt,name=x8" thrift:"28"`
	X09  int64              `json:"x9,omitempty" protobuf:"varint,29,opt,name=x9" thrift:"29"`
	X10  int64              `json:"x10,omitempty" protobuf:"varint,30,opt,name=x10" thrift:"30"`
	X11  int64              `json:"x11,omitempty" protobuf:"varint,31,opt,name=x11" thrift:"31"`
	X12  int64              `json:"x12,omitempty" protobuf:"varint,32,opt,name=x12" thrift:"32"`
	X13  int64              `json:"x13,omitempty" protobuf:"varint,33,opt,name=x13" thrift:"33"`
	X14  int64              `json:"x14,omitempty" protobuf:"varint,34,opt,name=x14" thrift:"34"`
	X15  int64              `json:"x15,omitempty" protobuf:"varint,35,opt,name=x15" thrift:"35"`
	X16  int64              `json:"x16,omitempty" protobuf:"varint,36,opt,name=x16" thrift:"36"`
	X17  int64              `json:"x17,omitempty" protobuf:"varint,37,opt,name=x17" thrift:"37"`
	X18  int64              `json:"x18,omitempty" protobuf:"varint,38,opt,name=x18" thrift:"38"`
	X19  int64              `json:"x19,omitempty" protobuf:"varint,39,opt,name=x19" thrift:"39"`
	X20  int64              `json:"x20,omitempty" protobuf:"varint,40,opt,name=x20" thrift:"40"`
	X21  int64              `json:"x21,omitempty" protobuf:"varint,41,opt,name=x21" thrift:"41"`
	X22  int64              `json:"x22,omitempty" protobuf:"varint,42,opt,name=x22" thrift:"42"`
	X23  int64              `json:"x23,omitempty" protobuf:"varint,43,opt,name=x23" thrift:"43"`
}

type Peer171 struct {
	Back *Rec171   `json:"back,omitempty" protobuf:"bytes,1,opt,name=back" thrift:"1"`
	List []*Rec171 `json:"list,omitempty" protobuf:"bytes,2,rep,name=list" thrift:"2"`
	B    bool      `json:"b" protobuf:"varint,3,opt,name=b" thrift:"3"`
}

type Rec172 struct {
	M    map[string]Peer172 `json:"m,omitempty" protobuf:"bytes,6,rep,name=m" protobuf_key:"bytes,1,opt,name=key" protobuf_val:"bytes,2,opt,name=value" thrift:"6"`
	V    int64              `json:"v" protobuf:"varint,1,opt,name=v" thrift:"1"`
	Next *Rec172            `json:"next,omitempty" protobuf:"bytes,2,opt,name=next" thrift:"2"`
	Kids []Rec172           `json:"kids,omitempty" protobuf:"bytes,3,rep,name=kids" thrift:"3"`
	Peer *Peer172           `json:"peer,omitempty" protobuf:"bytes,4,opt,name=peer" thrift:"4"`
	S    string             `json:"s,omitempty" protobuf:"bytes,5,opt,name=s" thrift:"5"`
	X00  int64              `json:"x0,omitempty" protobuf:"varint,20,opt,name=x0" thrift:"20"`
	X01  int64              `json:"x1,omitempty" protobuf:"varint,21,opt,name=x1" thrift:"21"`
	X02  int64              `json:"x2,omitempty" protobuf:"varint,22,opt,name=x2" thrift:"22"`
	X03  int64              `json:"x3,omitempty" protobuf:"varint,23,opt,name=x3" thrift:"23"`
	X04  int64              `json:"x4,omitempty" protobuf:"varint,24,opt,name=x4" thrift:"24"`
	X05  int64              `json:"x5,omitempty" protobuf:"varint,25,opt,name=x5" thrift:"25"`
	X06  int64              `json:"x6,omitempty" protobuf:"varint,26,opt,name=x6" thrift:"26"`
	X07  int64              `json:"x7,omitempty" protobuf:"varint,27,opt,name=x7" thrift:"27"`
	X08  int64              `json:"x8,omitempty" protobuf:"varint,28,opt,name=x8" thrift:"28"`
	X09  int64              `json:"x9,omitempty" protobuf:"varint,29,opt,name=x9" thrift:"29"`
	X10  int64              `json:"x10,omitempty" protobuf:"varint,30,opt,name=x10" thrift:"30"`
	X11  int64              `json:"x11,omitempty" protobuf:"varint,31,opt,name=x11" thrift:"31"`
	X12  int64              `json:"x12,omitempty" protobuf:"varint,32,opt,name=x12" thrift:"32"`
	X13  int64              `json:"x13,omitempty" protobuf:"varint,33,opt,name=x13" thrift:"33"`
	X14  int64              `json:"x14,omitempty" protobuf:"varint,34,opt,name=x14" thrift:"34"`
	X15  int64              `json:"x15,omitempty" protobuf:"varint,35,opt,name=x15" thrift:"35"`
	X16  int64              `json:"x16,omitempty" protobuf:"varint,36,opt,name=x16" thrift:"36"`
	X17  int64              `json:"x17,omitempty" protobuf:"varint,37,opt,name=x17" thrift:"37"`
	X18  int64              `json:"x18,omitempty" protobuf:"varint,38,opt,name=x18" thrift:"38"`
	X19  int64              `json:"x19,omitempty" protobuf:"varint,39,opt,name=x19" thrift:"39"`
	X20  int64              `json:"x20,omitempty" protobuf:"varint,40,opt,name=x20" thrift:"40"`
	X21  int64              `json:"x21,omitempty" protobuf:"varint,41,opt,name=x21" thrift:"41"`
	X22  int64              `json:"x22,omitempty" protobuf:"varint,42,opt,name=x22" thrift:"42"`
	X23  int64              `json:"x23,omitempty" protobuf:"varint,43,opt,name=x23" thrift:"43"`
}

type Peer172 struct {
	Back *Rec172   `json:"back,omitempty" protobuf:"bytes,1,opt,name=back" thrift:"1"`
	List []*Rec172 `json:"list,omitempty" protobuf:"bytes,2,rep,name=list" thrift:"2"`
	B    bool      `json:"b" protobuf:"varint,3,opt,name=b" thrift:"3"`
}

type Rec173 struct {
	M    map[string]Peer173 `json:"m,omitempty" protobuf:"bytes,6,rep,name=m" protobuf_key:"bytes,1,opt,name=key" protobuf_val:"bytes,2,opt,name=value" thrift:"6"`
	V    int64              `json:"v" protobuf:"varint,1,opt,name=v" thrift:"1"`
	Next *Rec173            `json:"next,omitempty" protobuf:"bytes,2,opt,name=next" thrift:"2"`
	Kids []Rec173           `json:"kids,omitempty" protobuf:"bytes,3,rep,name=kids" thrift:"3"`
	Peer *Peer173           `json:"peer,omitempty" protobuf:"bytes,4,opt,name=peer" thrift:"4"`
	S    string             `json:"s,omitempty" protobuf:"bytes,5,opt,name=s" thrift:"5"`
	X00  int64              `json:"x0,omitempty" protobuf:"varint,20,opt,name=x0" thrift:"20"`
	X01  int64              `json:"x1,omitempty" protobuf:"varint,21,opt,name=x1" thrift:"21"`
	X02  int64              `json:"x2,omitempty" protobuf:"varint,22,opt,name=x2" thrift:"22"`
	X03  int64              `json:"x3,omitempty" protobuf:"varint,23,opt,name=x3" thrift:"23"`
	X04  int64              `json:"x4,omitempty" protobuf:"varint,24,opt,name=x4" thrift:"24"`
	X05  int64              `json:"x5,omitempty" protobuf:"varint,25,opt,name=x5" thrift:"25"`
	X06  int64              `json:"x6,omitempty" protobuf:"varint,26,opt,name=x6" thrift:"26"`
	X07  int64              `json:"x7,omitempty" protobuf:"varint,27,opt,name=x7" thrift:"27"`
	X08  int64              `json:"x8,omitempty" protobuf:"varint,28,opt,name=x8" thrift:"28"`
	X09  int64              `json:"x9,omitempty" protobuf:"varint,29,opt,name=x9" thrift:"29"`
	X10  int64              `json:"x10,omitempty" protobuf:"varint,30,opt,name=x10" thrift:"30"`
	X11  int64              `json:"x11,omitempty" protobuf:"varint,31,opt,name=x11" thrift:"31"`
	X12  int64              `json:"x12,omitempty" protobuf:"varint,32,opt,name=x12" thrift:"32"`
	X13  int64              `json:"x13,omitempty" protobuf:"varint,33,opt,name=x13" thrift:"33"`
	X14  int64              `json:"x14,omitempty" protobuf:"varint,34,opt,name=x14" thrift:"34"`
	X15  int64              `json:"x15,omitempty" protobuf:"varint,35,opt,name=x15" thrift:"35"`
	X16  int64              `json:"x16,omitempty" protobuf:"varint,36,opt,name=x16" thrift:"36"`
	X17  int64              `json:"x17,omitempty" protobuf:"varint,37,opt,name=x17" thrift:"37"`
	X18  int64              `json:"x18,omitempty" protobuf:"varint,38,opt,name=x18" thrift:"38"`
	X19  int64              `json:"x19,omitempty" protobuf:"varint,39,opt,name=x19" thrift:"39"`
	X20  int64              `json:"x20,omitempty" protobuf:"varint,40,opt,name=x20" thrift:"40"`
	X21  int64              `json:"x21,omitempty" protobuf:"varint,41,opt,name=x21" thrift:"41"`
	X22  int64              `json:"x22,omitempty" protobuf:"varint,42,opt,name=x22" thrift:"42"`
	X23  int64              `json:"x23,omitempty" protobuf:"varint,43,opt,name=x23" thrift:"43"`
}

type Peer173 struct {
	Back *Rec173   `json:"back,omitempty" protobuf:"bytes,1,opt,name=back" thrift:"1"`
	List []*Rec173 `json:"list,omitempty" protobuf:"bytes,2,rep,name=list" thrift:"2"`
	B    bool      `json:"b" protobuf:"varint,3,opt,name=b" thrift:"3"`
}

type Rec174 struct {
	M    map[string]Peer174 `json:"m,omitempty" protobuf:"bytes,6,rep,name=m" protobuf_key:"bytes,1,opt,name=key" protobuf_val:"bytes,2,opt,name=value" thrift:"6"`
	V    int64              `json:"v" protobuf:"varint,1,opt,name=v" thrift:"1"`
	Next *Rec174            `json:"next,omitempty" protobuf:"bytes,2,opt,name=next" thrift:"2"`
	Kids []Rec174           `json:"kids,omitempty" protobuf:"bytes,3,rep,name=kids" thrift:"3"`
	Peer *Peer174           `json:"peer,omitempty" protobuf:"bytes,4,opt,name=peer" thrift:"4"`
	S    string             `json:"s,omitempty" protobuf:"bytes,5,opt,name=s" thrift:"5"`
	X00  int64              `json:"x0,omitempty" protobuf:"varint,20,opt,name=x0" thrift:"20"`
	X01  int64              `json:"x1,omitempty" protobuf:"varint,21,opt,name=x1" thrift:"21"`
	X02  int64              `json:"x2,omitempty" protobuf:"varint,22,opt,name=x2" thrift:"22"`
	X03  int64              `json:"x3,omitempty" protobuf:"varint,23,opt,name=x3" thrift:"23"`
	X04  int64              `json:"x4,omitempty" protobuf:"varint,24,opt,name=x4" thrift:"24"`
	X05  int64              `json:"x5,omitempty" protobuf:"varint,25,opt,name=x5" thrift:"25"`
	X06  int64              `json:"x6,omitempty" protobuf:"varint,26,opt,name=x6" thrift:"26"`
	X07  int64              `json:"x7,omitempty" protobuf:"varint,27,opt,name=x7" thrift:"27"`
	X08  int64              `json:"x8,omitempty" protobuf:"varint,28,opt,name=x8" thrift:"28"`
	X09  int64              `json:"x9,omitempty" protobuf:"varint,29,opt,name=x9" thrift:"29"`
	X10  int64              `json:"x10,omitempty" protobuf:"varint,30,opt,name=x10" thrift:"30"`
	X11  int64              `json:"x11,omitempty" protobuf:"varint,31,opt,name=x11" thrift:"31"`
	X12  int64              `json:"x12,omitempty" protobuf:"varint,32,opt,name=x12" thrift:"32"`
	X13  int64              `json:"x13,omitempty" protobuf:"varint,33,opt,name=x13" thrift:"33"`
	X14  int64              `json:"x14,omitempty" protobuf:"varint,34,opt,name=x14" thrift:"34"`
	X15  int64              `json:"x15,omitempty" protobuf:"varint,35,opt,name=x15" thrift:"35"`
	X16  int64              `json:"x16,omitempty" protobuf:"varint,36,opt,name=x16" thrift:"36"`
	X17  int64              `json:"x17,omitempty" protobuf:"varint,37,opt,name=x17" thrift:"37"`
	X18  int64              `json:"x18,omitempty" protobuf:"varint,38,opt,name=x18" thrift:"38"`
	X19  int64              `json:"x19,omitempty" protobuf:"varint,39,opt,name=x19" thrift:"39"`
	X20  int64              `json:"x20,omitempty" protobuf:"varint,40,opt,name=x20" thrift:"40"`
	X21  int64              `json:"x21,omitempty" protobuf:"varint,41,opt,name=x21" thrift:"41"`
	X22  int64              `json:"x22,omitempty" protobuf:"varint,42,opt,name=x22" thrift:"42"`
	X23  int64              `json:"x23,omitempty" protobuf:"varint,43,opt,name=x23" thrift:"43"`
}

type Peer174 struct {
	Back *Rec174   `json:"back,omitempty" protobuf:"bytes,1,opt,name=back" thrift:"1"`
	List []*Rec174 `json:"list,omitempty" protobuf:"bytes,2,rep,name=list" thrift:"2"`
	B    bool      `json:"b" protobuf:"varint,3,opt,name=b" thrift:"3"`
}

type Rec175 struct {
	M    map[string]Peer175 `json:"m,omitempty" protobuf:"bytes,6,rep,name=m" protobuf_key:"bytes,1,opt,name=key" protobuf_val:"bytes,2,opt,name=value" thrift:"6"`
	V    int64              `json:"v" protobuf:"varint,1,opt,name=v" thrift:"1"`
	Next *Rec175            `json:"next,omitempty" protobuf:"bytes,2,opt,name=next" thrift:"2"`
	Kids []Rec175           `json:"kids,omitempty" protobuf:"bytes,3,rep,name=kids" thrift:"3"`
	Peer *Peer175           `json:"peer,omitempty" protobuf:"bytes,4,opt,name=peer" thrift:"4"`
	S    string             `json:"s,omitempty" protobuf:"bytes,5,opt,name=s" thrift:"5"`
	X00  int64              `json:"x0,omitempty" protobuf:"varint,20,opt,name=x0" thrift:"20"`
	X01  int64              `json:"x1,omitempty" protobuf:"varint,21,opt,name=x1" thrift:"21"`
	X02  int64              `json:"x2,omitempty" protobuf:"varint,22,opt,name=x2" thrift:"22"`
	X03  int64              `json:"x3,omitempty" protobuf:"varint,23,opt,name=x3" thrift:"23"`
	X04  int64              `json:"x4,omitempty" protobuf:"varint,24,opt,name=x4" thrift:"24"`
	X05  int64              `json:"x5,omitempty" protobuf:"varint,25,opt,name=x5" thrift:"25"`
	X06  int64              `json:"x6,omitempty" protobuf:"varint,26,opt,name=x6" thrift:"26"`
	X07  int64              `json:"x7,omitempty" protobuf:"varint,27,opt,name=x7" thrift:"27"`
	X08  int64              `json:"x8,omitempty" protobuf:"varint,28,opt,name=x8" thrift:"28"`
	X09  int64              `json:"x9,omitempty" protobuf:"varint,29,opt,name=x9" thrift:"29"`
	X10  int64              `json:"x10,omitempty" protobuf:"varint,30,opt,name=x10" thrift:"30"`
	X11  int64              `json:"x11,omitempty" protobuf:"varint,31,opt,name=x11" thrift:"31"`
	X12  int64              `json:"x12,omitempty" protobuf:"varint,32,opt,name=x12" thrift:"32"`
	X13  int64              `json:"x13,omitempty" protobuf:"varint,33,opt,name=x13" thrift:"33"`
	X14  int64              `json:"x14,omitempty" protobuf:"varint,34,opt,name=x14" thrift:"34"`
	X15  int64              `json:"x15,omitempty" protobuf:"varint,35,opt,name=x15" thrift:"35"`
	X16  int64              `json:"x16,omitempty" protobuf:"varint,36,opt,name=x16" thrift:"36"`
	X17  int64              `json:"x17,omitempty" protobuf:"varint,37,opt,name=x17" thrift:"37"`
	X18  int64              `json:"x18,omitempty" protobuf:"varint,38,opt,name=x18" thrift:"38"`
	X19  int64              `json:"x19,omitempty" protobuf:"varint,39,opt,name=x19" thrift:"39"`
	X20  int64              `json:"x20,omitempty" protobuf:"varint,40,opt,name=x20" thrift:"40"`
	X21  int64              `json:"x21,omitempty" protobuf:"varint,41,opt,name=x21" thrift:"41"`
	X22  int64              `json:"x22,omitempty" protobuf:"varint,42,opt,name=x22" thrift:"42"`
	X23  int64              `json:"x23,omitempty" protobuf:"varint,43,opt,name=x23" thrift:"43"`
}

type Peer175 struct {
	Back *Rec175   `json:"back,omitempty" protobuf:"bytes,1,opt,name=back" thrift:"1"`
	List []*Rec175 `json:"list,omitempty" protobuf:"bytes,2,rep,name=list" thrift:"2"`
	B    bool      `json:"b" protobuf:"varint,3,opt,name=b" thrift:"3"`
}

type Rec176 struct {
	M    map[string]Peer176 `json:"m,omitempty" protobuf:"bytes,6,rep,name=m" protobuf_key:"bytes,1,opt,name=key" protobuf_val:"bytes,2,opt,name=value" thrift:"6"`
	V    int64              `json:"v" protobuf:"varint,1,opt,name=v" thrift:"1"`
	Next *Rec176            `json:"next,omitempty" protobuf:"bytes,2,opt,name=next" thrift:"2"`
	Kids []Rec176           `json:"kids,omitempty" protobuf:"bytes,3,rep,name=kids" thrift:"3"`
	Peer *Peer176           `json:"peer,omitempty" protobuf:"bytes,4,opt,name=peer" thrift:"4"`
	S    string             `json:"s,omitempty" protobuf:"bytes,5,opt,name=s" thrift:"5"`
	X00  int64              `json:"x0,omitempty" protobuf:"varint,20,opt,name=x0" thrift:"20"`
	X01  int64              `json:"x1,omitempty" protobuf:"varint,21,opt,name=x1" thrift:"21"`
	X02  int64              `json:"x2,omitempty" protobuf:"varint,22,opt,name=x2" thrift:"22"`
	X03  int64              `json:"x3,omitempty" protobuf:"varint,23,opt,name=x3" thrift:"23"`
	X04  int64              `json:"x4,omitempty" protobuf:"varint,24,opt,name=x4" thrift:"24"`
	X05  int64              `json:"x5,omitempty" protobuf:"varint,25,opt,name=x5" thrift:"25"`
	X06  int64              `json:"x6,omitempty" protobuf:"varint,26,opt,name=x6" thrift:"26"`
	X07  int64              `json:"x7,omitempty" protobuf:"varint,27,opt,name=x7" thrift:"27"`
	X08  int64              `json:"x8,omitempty" protobuf:"varint,28,opt,name=x8" thrift:"28"`
	X09  int64              `json:"x9,omitempty" protobuf:"varint,29,opt,name=x9" thrift:"29"`
	X10  int64              `json:"x10,omitempty" protobuf:"varint,30,opt,name=x10" thrift:"30"`
	X11  int64              `json:"x11,omitempty" protobuf:"varint,31,opt,name=x11" thrift:"31"`
	X12  int64              `json:"x12,omitempty" protobuf:"varint,32,opt,name=x12" thrift:"32"`
	X13  int64              `json:"x13,omitempty" protobuf:"varint,33,opt,name=x13" thrift:"33"`
	X14  int64              `json:"x14,omitempty" protobuf:"varint,34,opt,name=x14" thrift:"34"`
	X15  int64              `json:"x15,omitempty" protobuf:"varint,35,opt,name=x15" thrift:"35"`
	X16  int64              `json:"x16,omitempty" protobuf:"varint,36,opt,name=x16" thrift:"36"`
	X17  int64              `json:"x17,omitempty" protobuf:"varint,37,opt,name=x17" thrift:"37"`
	X18  int64              `json:"x18,omitempty" protobuf:"varint,38,opt,name=x18" thrift:"38"`
	X19  int64              `json:"x19,omitempty" protobuf:"varint,39,opt,name=x19" thrift:"39"`
	X20  int64              `json:"x20,omitempty" protobuf:"varint,40,opt,name=x20" thrift:"40"`
	X21  int64              `json:"x21,omitempty" protobuf:"varint,41,opt,name=x21" thrift:"41"`
	X22  int64              `json:"x22,omitempty" protobuf:"varint,42,opt,name=x22" thrift:"42"`
	X23  int64              `json:"x23,omitempty" protobuf:"varint,43,opt,name=x23" thrift:"43"`
}

type Peer176 struct {
	Back *Rec176   `json:"back,omitempty" protobuf:"bytes,1,opt,name=back" thrift:"1"`
	List []*Rec176 `json:"list,omitempty" protobuf:"bytes,2,rep,name=list" thrift:"2"`
	B    bool      `json:"b" protobuf:"varint,3,opt,name=b" thrift:"3"`
}

type Rec177 struct {
	M    map[string]Peer177 `json:"m,omitempty" protobuf:"bytes,6,rep,name=m" protobuf_key:"bytes,1,opt,name=key" protobuf_val:"bytes,2,opt,name=value" thrift:"6"`
	V    int64              `json:"v" protobuf:"varint,1,opt,name=v" thrift:"1"`
	Next *Rec177            `json:"next,omitempty" protobuf:"bytes,2,opt,name=next" thrift:"2"`
	Kids []Rec177           `json:"kids,omitempty" protobuf:"bytes,3,rep,name=kids" thrift:"3"`
	Peer *Peer177           `json:"peer,omitempty" protobuf:"bytes,4,opt,name=peer" thrift:"4"`
	S    string             `json:"s,omitempty" protobuf:"bytes,5,opt,name=s" thrift:"5"`
	X00  int64              `json:"x0,omitempty" protobuf:"varint,20,opt,name=x0" thrift:"20"`
	X01  int64              `json:"x1,omitempty" protobuf:"varint,21,opt,name=x1" thrift:"21"`
	X02  int64              `json:"x2,omitempty" protobuf:"varint,22,opt,name=x2" thrift:"22"`
	X03  int64              `json:"x3,omitempty" protobuf:"varint,23,opt,name=x3" thrift:"23"`
	X04  int64              `json:"x4,omitempty" protobuf:"varint,24,opt,name=x4" thrift:"24"`
	X05  int64              `json:"x5,omitempty" protobuf:"varint,25,opt,name=x5" thrift:"25"`
	X06  int64              `json:"x6,omitempty" protobuf:"varint,26,opt,name=x6" thrift:"26"`
	X07  int64              `json:"x7,omitempty" protobuf:"varint,27,opt,name=x7" thrift:"27"`
	X08  int64              `json:"x8,omitempty" protobuf:"varint,28,opt,name=x8" thrift:"28"`
	X09  int64              `json:"x9,omitempty" protobuf:"varint,29,opt,name=x9" thrift:"29"`
	X10  int64              `json:"x10,omitempty" protobuf:"varint,30,opt,name=x10" thrift:"30"`
	X11  int64              `json:"x11,omitempty" protobuf:"varint,31,opt,name=x11" thrift:"31"`
	X12  int64              `json:"x12,omitempty" protobuf:"varint,32,opt,name=x12" thrift:"32"`
	X13  int64              `json:"x13,omitempty" protobuf:"varint,33,opt,name=x13" thrift:"33"`
	X14  int64              `json:"x14,omitempty" protobuf:"varint,34,opt,name=x14" thrift:"34"`
	X15  int64              `json:"x15,omitempty" protobuf:"varint,35,opt,name=x15" thrift:"35"`
	X16  int64              `json:"x16,omitempty" protobuf:"varint,36,opt,name=x16" thrift:"36"`
	X17  int64              `json:"x17,omitempty" protobuf:"varint,37,opt,name=x17" thrift:"37"`
	X18  int64              `json:"x18,omitempty" protobuf:"varint,38,opt,name=x18" thrift:"38"`
	X19  int64              `json:"x19,omitempty" protobuf:"varint,39,opt,name=x19" thrift:"39"`
	X20  int64              `json:"x20,omitempty" protobuf:"varint,40,opt,name=x20" thrift:"40"`
	X21  int64              `json:"x21,omitempty" protobuf:"varint,41,opt,name=x21" thrift:"41"`
	X22  int64              `json:"x22,omitempty" protobuf:"varint,42,opt,name=x22" thrift:"42"`
	X23  int64              `json:"x23,omitempty" protobuf:"varint,43,opt,name=x23" thrift:"43"`
}

type Peer177 struct {
	Back *Rec177   `json:"back,omitempty" protobuf:"bytes,1,opt,name=back" thrift:"1"`
	List []*Rec177 `json:"list,omitempty" protobuf:"bytes,2,rep,name=list" thrift:"2"`
	B    bool      `json:"b" protobuf:"varint,3,opt,name=b" thrift:"3"`
}

type Rec178 struct {
	M    map[string]Peer178 `json:"m,omitempty" protobuf:"bytes,6,rep,name=m" protobuf_key:"bytes,1,opt,name=key" protobuf_val:"bytes,2,opt,name=value" thrift:"6"`
	V    int64              `json:"v" protobuf:"varint,1,opt,name=v" thrift:"1"`
	Next *Rec178            `json:"next,omitempty" protobuf:"bytes,2,opt,name=next" thrift:"2"`
	Kids []Rec178           `json:"kids,omitempty" protobuf:"bytes,3,rep,name=kids" thrift:"3"`
	Peer *Peer178           `json:"peer,omitempty" protobuf:"bytes,4,opt,name=peer" thrift:"4"`
	S    string             `json:"s,omitempty" protobuf:"bytes,5,opt,name=s" thrift:"5"`
	X00  int64              `json:"x0,omitempty" protobuf:"varint,20,opt,name=x0" thrift:"20"`
	X01  int64              `json:"x1,omitempty" protobuf:"varint,21,opt,name=x1" thrift:"21"`
	X02  int64              `json:"x2,omitempty" protobuf:"varint,22,opt,name=x2" thrift:"22"`
	X03  int64              `json:"x3,omitempty" protobuf:"varint,23,opt,name=x3" thrift:"23"`
	X04  int64              `json:"x4,omitempty" protobuf:"varint,24,opt,name=x4" thrift:"24"`
	X05  int64              `json:"x5,omitempty" protobuf:"varint,25,opt,name=x5" thrift:"25"`
	X06  int64              `json:"x6,omitempty" protobuf:"varint,26,opt,name=x6" thrift:"26"`
	X07  int64              `json:"x7,omitempty" protobuf:"varint,27,opt,name=x7" thrift:"27"`
	X08  int64              `json:"x8,omitempty" protobuf:"varint,28,opt,name=x8" thrift:"28"`
	X09  int64              `json:"x9,omitempty" protobuf:"varint,29,opt,name=x9" thrift:"29"`
	X10  int64              `json:"x10,omitempty" protobuf:"varint,30,opt,name=x10" thrift:"30"`
	X11  int64              `json:"x11,omitempty" protobuf:"varint,31,opt,name=x11" thrift:"31"`
	X12  int64              `json:"x12,omitempty" protobuf:"varint,32,opt,name=x12" thrift:"32"`
	X13  int64              `json:"x13,omitempty" protobuf:"varint,33,opt,name=x13" thrift:"33"`
	X14  int64              `json:"x14,omitempty" protobuf:"varint,34,opt,name=x14" thrift:"34"`
	X15  int64              `json:"x15,omitempty" protobuf:"varint,35,opt,name=x15" thrift:"35"`
	X16  int64              `json:"x16,omitempty" protobuf:"varint,36,opt,name=x16" thrift:"36"`
	X17  int64              `json:"x17,omitempty" protobuf:"varint,37,opt,name=x17" thrift:"37"`
	X18  int64              `json:"x18,omitempty" protobuf:"varint,38,opt,name=x18" thrift:"38"`
	X19  int64              `json:"x19,omitempty" protobuf:"varint,39,opt,name=x19" thrift:"39"`
	X20  int64              `json:"x20,omitempty" protobuf:"varint,40,opt,name=x20" thrift:"40"`
	X21  int64              `json:"x21,omitempty" protobuf:"varint,41,opt,name=x21" thrift:"41"`
	X22  int64              `json:"x22,omitempty" protobuf:"varint,42,opt,name=x22" thrift:"42"`
	X23  int64              `json:"x23,omitempty" protobuf:"varint,43,opt,name=x23" thrift:"43"`
}

type Peer178 struct {
	Back *Rec178   `json:"back,omitempty" protobuf:"bytes,1,opt,name=back" thrift:"1"`
	List []*Rec178 `json:"list,omitempty" protobuf:"bytes,2,rep,name=list" thrift:"2"`
	B    bool      `json:"b" protobuf:"varint,3,opt,name=b" thrift:"3"`
}

type Rec179 struct {
	M    map[string]Peer179 `json:"m,omitempty" protobuf:"bytes,6,rep,name=m" protobuf_key:"bytes,1,opt,name=key" protobuf_val:"bytes,2,opt,name=value" thrift:"6"`
	V    int64              `json:"v" protobuf:"varint,1,opt,name=v" thrift:"1"`
	Next *Rec179            `json:"next,omitempty" protobuf:"bytes,2,opt,name=next" thrift:"2"`
	Kids []Rec179           `json:"kids,omitempty" protobuf:"bytes,3,rep,name=kids" thrift:"3"`
	Peer *Peer179           `json:"peer,omitempty" protobuf:"bytes,4,opt,name=peer" thrift:"4"`
	S    string             `json:"s,omitempty" protobuf:"bytes,5,opt,name=s" thrift:"5"`
	X00  int64              `json:"x0,omitempty" protobuf:"varint,20,opt,name=x0" thrift:"20"`
	X01  int64              `json:"x1,omitempty" protobuf:"varint,21,opt,name=x1" thrift:"21"`
	X02  int64              `json:"x2,omitempty" protobuf:"varint,22,opt,name=x2" thrift:"22"`
	X03  int64              `json:"x3,omitempty" protobuf:"varint,23,opt,name=x3" thrift:"23"`
	X04  int64              `json:"x4,omitempty" protobuf:"varint,24,opt,name=x4" thrift:"24"`
	X05  int64              `json:"x5,omitempty" protobuf:"varint,25,opt,name=x5" thrift:"25"`
	X06  int64              `json:"x6,omitempty" protobuf:"varint,26,opt,name=x6" thrift:"26"`
	X07  int64              `json:"x7,omitempty" protobuf:"varint,27,opt,name=x7" thrift:"27"`
	X08  int64              `json:"x8,omitempty" protobuf:"varint,28,opt,name=x8" thrift:"28"`
	X09  int64              `json:"x9,omitempty" protobuf:"varint,29,opt,name=x9" thrift:"29"`
	X10  int64              `json:"x10,omitempty" protobuf:"varint,30,opt,name=x10" thrift:"30"`
	X11  int64              `json:"x11,omitempty" protobuf:"varint,31,opt,name=x11" thrift:"31"`
	X12  int64              `json:"x12,omitempty" protobuf:"varint,32,opt,name=x12" thrift:"32"`
	X13  int64              `json:"x13,omitempty" protobuf:"varint,33,opt,name=x13" thrift:"33"`
	X14  int64              `json:"x14,omitempty" protobuf:"varint,34,opt,name=x14" thrift:"34"`
	X15  int64              `json:"x15,omitempty" protobuf:"varint,35,opt,name=x15" thrift:"35"`
	X16  int64              `json:"x16,omitempty" protobuf:"varint,36,opt,name=x16" thrift:"36"`
	X17  int64              `json:"x17,omitempty" protobuf:"varint,37,opt,name=x17" thrift:"37"`
	X18  int64              `json:"x18,omitempty" protobuf:"varint,38,opt,name=x18" thrift:"38"`
	X19  int64              `json:"x19,omitempty" protobuf:"varint,39,opt,name=x19" thrift:"39"`
	X20  int64              `json:"x20,omitempty" protobuf:"varint,40,opt,name=x20" thrift:"40"`
	X21  int64              `json:"x21,omitempty" protobuf:"varint,41,opt,name=x21" thrift:"41"`
	X22  int64              `json:"x22,omitempty" protobuf:"varint,42,opt,name=x22" thrift:"42"`
	X23  int64              `json:"x23,omitempty" protobuf:"varint,43,opt,name=x23" thrift:"43"`
}

type Peer179 struct {
	Back *Rec179   `json:"back,omitempty" protobuf:"bytes,1,opt,name=back" thrift:"1"`
	List []*Rec179 `json:"list,omitempty" protobuf:"bytes,2,rep,name=list" thrift:"2"`
	B    bool      `json:"b" protobuf:"varint,3,opt,name=b" thrift:"3"`
}

type Rec180 struct {
	M    map[string]Peer180 `json:"m,omitempty" protobuf:"bytes,6,rep,name=m" protobuf_key:"bytes,1,opt,name=key" protobuf_val:"bytes,2,opt,name=value" thrift:"6"`
	V    int64              `json:"v" protobuf:"varint,1,opt,name=v" thrift:"1"`
	Next *Rec180            `json:"next,omitempty" protobuf:"bytes,2,opt,name=next" thrift:"2"`
	Kids []Rec180           `json:"kids,omitempty" protobuf:"bytes,3,rep,name=kids" thrift:"3"`
	Peer *Peer180           `json:"peer,omitempty" protobuf:"bytes,4,opt,name=peer" thrift:"4"`
	S    string             `json:"s,omitempty" protobuf:"bytes,5,opt,name=s" thrift:"5"`
	X00  int64              `json:"x0,omitempty" protobuf:"varint,20,opt,name=x0" thrift:"20"`
	X01  int64              `json:"x1,omitempty" protobuf:"varint,21,opt,name=x1" thrift:"21"`
	X02  int64              `json:"x2,omitempty" protobuf:"varint,22,opt,name=x2" thrift:"22"`
	X03  int64              `json:"x3,omitempty" protobuf:"varint,23,opt,name=x3" thrift:"23"`
	X04  int64              `json:"x4,omitempty" protobuf:"varint,24,opt,name=x4" thrift:"24"`
	X05  int64              `json:"x5,omitempty" protobuf:"varint,25,opt,name=x5" thrift:"25"`
	X06  int64              `json:"x6,omitempty" protobuf:"varint,26,opt,name=x6" thrift:"26"`
	X07  int64              `json:"x7,omitempty" protobuf:"varint,27,opt,name=x7" thrift:"27"`
	X08  int64              `json:"x8,omitempty" protobuf:"varint,28,opt,name=x8" thrift:"28"`
	X09  int64              `json:"x9,omitempty" protobuf:"varint,29,opt,name=x9" thrift:"29"`
	X10  int64              `json:"x10,omitempty" protobuf:"varint,30,opt,name=x10" thrift:"30"`
	X11  int64              `json:"x11,omitempty" protobuf:"varint,31,opt,name=x11" thrift:"31"`
	X12  int64              `json:"x12,omitempty" protobuf:"varint,32,opt,name=x12" thrift:"32"`
	X13  int64              `json:"x13,omitempty" protobuf:"varint,33,opt,name=x13" thrift:"33"`
	X14  int64              `json:"x14,omitempty" protobuf:"varint,34,opt,name=x14" thrift:"34"`
	X15  int64              `json:"x15,omitempty" protobuf:"varint,35,opt,name=x15" thrift:"35"`
	X16  int64              `json:"x16,omitempty" protobuf:"varint,36,opt,name=x16" thrift:"36"`
	X17  int64              `json:"x17,omitempty" protobuf:"varint,37,opt,name=x17" thrift:"37"`
	X18  int64              `json:"x18,omitempty" protobuf:"varint,38,opt,name=x18" thrift:"38"`
	X19  int64              `json:"x19,omitempty" protobuf:"varint,39,opt,name=x19" thrift:"39"`
	X20  int64              `json:"x20,omitempty" protobuf:"varint,40,opt,name=x20" thrift:"40"`
	X21  int64              `json:"x21,omitempty" protobuf:"varint,41,opt,name=x21" thrift:"41"`
	X22  int64              `json:"x22,omitempty" protobuf:"varint,42,opt,name=x22" thrift:"42"`
	X23  int64              `json:"x23,omitempty" protobuf:"varint,43,opt,name=x23" thrift:"43"`
}

type Peer180 struct {
	Back *Rec180   `json:"back,omitempty" protobuf:"bytes,1,opt,name=back" thrift:"1"`
	List []*Rec180 `json:"list,omitempty" protobuf:"bytes,2,rep,name=list" thrift:"2"`
	B    bool      `json:"b" protobuf:"varint,3,opt,name=b" thrift:"3"`
}

type Rec181 struct {
	M    map[string]Peer181 `json:"m,omitempty" protobuf:"bytes,6,rep,name=m" protobuf_key:"bytes,1,opt,name=key" protobuf_val:"bytes,2,opt,name=value" thrift:"6"`
	V    int64              `json:"v" protobuf:"varint,1,opt,name=v" thrift:"1"`
	Next *Rec181            `json:"next,omitempty" protobuf:"bytes,2,opt,name=next" thrift:"2"`
	Kids []Rec181           `json:"kids,omitempty" protobuf:"bytes,3,rep,name=kids" thrift:"3"`
	Peer *Peer181           `json:"peer,omitempty" protobuf:"bytes,4,opt,name=peer" thrift:"4"`
	S    string             `json:"s,omitempty" protobuf:"bytes,5,opt,name=s" thrift:"5"`
	X00  int64              `json:"x0,omitempty" protobuf:"varint,20,opt,name=x0" thrift:"20"`
	X01  int64              `json:"x1,omitempty" protobuf:"varint,21,opt,name=x1" thrift:"21"`
	X02  int64              `json:"x2,omitempty" protobuf:"varint,22,opt,name=x2" thrift:"22"`
	X03  int64              `json:"x3,omitempty" protobuf:"varint,23,opt,name=x3" thrift:"23"`
	X04  int64              `json:"x4,omitempty" protobuf:"varint,24,opt,name=x4" thrift:"24"`
	X05  int64              `json:"x5,omitempty" protobuf:"varint,25,opt,name=x5" thrift:"25"`
	X06  int64              `json:"x6,omitempty" protobuf:"varint,26,opt,name=x6" thrift:"26"`
	X07  int64              `json:"x7,omitempty" protobuf:"varint,27,opt,name=x7" thrift:"27"`
	X08  int64              `json:"x8,omitempty" protobuf:"varint,28,opt,name=x8" thrift:"28"`
	X09  int64              `json:"x9,omitempty" protobuf:"varint,29,opt,name=x9" thrift:"29"`
	X10  int64              `json:"x10,omitempty" protobuf:"varint,30,opt,name=x10" thrift:"30"`
	X11  int64              `json:"x11,omitempty" protobuf:"varint,31,opt,name=x11" thrift:"31"`
	X12  int64              `json:"x12,omitempty" protobuf:"varint,32,opt,name=x12" thrift:"32"`
	X13  int64              `json:"x13,omitempty" protobuf:"varint,33,opt,name=x13" thrift:"33"`
	X14  int64              `json:"x14,omitempty" protobuf:"varint,34,opt,name=x14" thrift:"34"`
	X15  int64              `json:"x15,omitempty" protobuf:"varint,35,opt,name=x15" thrift:"35"`
	X16  int64              `json:"x16,omitempty" protobuf:"varint,36,opt,name=x16" thrift:"36"`
	X17  int64              `json:"x17,omitempty" protobuf:"varint,37,opt,name=x17" thrift:"37"`
	X18  int64              `json:"x18,omitempty" protobuf:"varint,38,opt,name=x18" thrift:"38"`
	X19  int64              `json:"x19,omitempty" protobuf:"varint,39,opt,name=x19" thrift:"39"`
	X20  int64              `json:"x20,omitempty" protobuf:"varint,40,opt,name=x20" thrift:"40"`
	X21  int64              `json:"x21,omitempty" protobuf:"varint,41,opt,name=x21" thrift:"41"`
	X22  int64              `json:"x22,omitempty" protobuf:"varint,42,opt,name=x22" thrift:"42"`
	X23  int64              `json:"x23,omitempty" protobuf:"varint,43,opt,name=x23" thrift:"43"`
}

type Peer181 struct {
	Back *Rec181   `json:"back,omitempty" protobuf:"bytes,1,opt,name=back" thrift:"1"`
	List []*Rec181 `json:"list,omitempty" protobuf:"bytes,2,rep,name=list" thrift:"2"`
	B    bool      `json:"b" protobuf:"varint,3,opt,name=b" thrift:"3"`
}

type Rec182 struct {
	M    map[string]Peer182 `json:"m,omitempty" protobuf:"bytes,6,rep,name=m" protobuf_key:"bytes,1,opt,name=key" protobuf_val:"bytes,2,opt,name=value" thrift:"6"`
	V    int64              `json:"v" protobuf:"varint,1,opt,name=v" thrift:"1"`
	Next *Rec182            `json:"next,omitempty" protobuf:"bytes,2,opt,name=next" thrift:"2"`
	Kids []Rec182           `json:"kids,omitempty" protobuf:"bytes,3,rep,name=kids" thrift:"3"`
	Peer *Peer182           `json:"peer,omitempty" protobuf:"bytes,4,opt,name=peer" thrift:"4"`
	S    string             `json:"s,omitempty" protobuf:"bytes,5,opt,name=s" thrift:"5"`
	X00  int64              `json:"x0,omitempty" protobuf:"varint,20,opt,name=x0" thrift:"20"`
	X01  int64              `json:"x1,omitempty" protobuf:"varint,21,opt,name=x1" thrift:"21"`
	X02  int64              `json:"x2,omitempty" protobuf:"varint,22,opt,name=x2" thrift:"22"`
	X03  int64              `json:"x3,omitempty" protobuf:"varint,23,opt,name=x3" thrift:"23"`
	X04  int64              `json:"x4,omitempty" protobuf:"varint,24,opt,name=x4" thrift:"24"`
	X05  int64              `json:"x5,omitempty" protobuf:"varint,25,opt,name=x5" thrift:"25"`
	X06  int64              `json:"x6,omitempty" protobuf:"varint,26,opt,name=x6" thrift:"26"`
	X07  int64              `json:"x7,omitempty" protobuf:"varint,27,opt,name=x7" thrift:"27"`
	X08  int64              `json:"x8,omitempty" protobuf:"varint,28,opt,name=x8" thrift:"28"`
	X09  int64              `json:"x9,omitempty" protobuf:"varint,29,opt,name=x9" thrift:"29"`
	X10  int64              `json:"x10,omitempty" protobuf:"varint,30,opt,name=x10" thrift:"30"`
	X11  int64              `json:"x11,omitempty" protobuf:"varint,31,opt,name=x11" thrift:"31"`
	X12  int64              `json:"x12,omitempty" protobuf:"varint,32,opt,name=x12" thrift:"32"`
	X13  int64              `json:"x13,omitempty" protobuf:"varint,33,opt,name=x13" thrift:"33"`
	X14  int64              `json:"x14,omitempty" protobuf:"varint,34,opt,name=x14" thrift:"34"`
	X15  int64              `json:"x15,omitempty" protobuf:"varint,35,opt,name=x15" thrift:"35"`
	X16  int64              `json:"x16,omitempty" protobuf:"varint,36,opt,name=x16" thrift:"36"`
	X17  int64              `json:"x17,omitempty" protobuf:"varint,37,opt,name=x17" thrift:"37"`
	X18  int64              `json:"x18,omitempty" protobuf:"varint,38,opt,name=x18" thrift:"38"`
	X19  int64              `json:"x19,omitempty" protobuf:"varint,39,opt,name=x19" thrift:"39"`
	X20  int64              `json:"x20,omitempty" protobuf:"varint,40,opt,name=x20" thrift:"40"`
	X21  int64              `json:"x21,omitempty" protobuf:"varint,41,opt,name=x21" thrift:"41"`
	X22  int64              `json:"x22,omitempty" protobuf:"varint,42,opt,name=x22" thrift:"42"`
	X23  int64              `json:"x23,omitempty" protobuf:"varint,43,opt,name=x23" thrift:"43"`
}

type Peer182 struct {
	Back *Rec182   `json:"back,omitempty" protobuf:"bytes,1,opt,name=back" thrift:"1"`
	List []*Rec182 `json:"list,omitempty" protobuf:"bytes,2,rep,name=list" thrift:"2"`
	B    bool      `json:"b" protobuf:"varint,3,opt,name=b" thrift:"3"`
}

type Rec183 struct {
	M    map[string]Peer183 `json:"m,omitempty" protobuf:"bytes,6,rep,name=m" protobuf_key:"bytes,1,opt,name=key" protobuf_val:"bytes,2,opt,name=value" thrift:"6"`
	V    int64              `json:"v" protobuf:"varint,1,opt,name=v" thrift:"1"`
	Next *Rec183            `json:"next,omitempty" protobuf:"bytes,2,opt,name=next" thrift:"2"`
	Kids []Rec183           `json:"kids,omitempty" protobuf:"bytes,3,rep,name=kids" thrift:"3"`
	Peer *Peer183           `json:"peer,omitempty" protobuf:"bytes,4,opt,name=peer" thrift:"4"`
	S    string             `json:"s,omitempty" protobuf:"bytes,5,opt,name=s" thrift:"5"`
	X00  int64              `json:"x0,omitempty" protobuf:"varint,20,opt,name=x0" thrift:"20"`
	X01  int64              `json:"x1,omitempty" protobuf:"varint,21,opt,name=x1" thrift:"21"`
	X02  int64              `json:"x2,omitempty" protobuf:"varint,22,opt,name=x2" thrift:"22"`
	X03  int64              `json:"x3,omitempty" protobuf:"varint,23,opt,name=x3" thrift:"23"`
	X04  int64              `json:"x4,omitempty" protobuf:"varint,24,opt,name=x4" thrift:"24"`
	X05  int64              `json:"x5,omitempty" protobuf:"varint,25,opt,name=x5" thrift:"25"`
	X06  int64              `json:"x6,omitempty" protobuf:"varint,26,opt,name=x6" thrift:"26"`
	X07  int64              `json:"x7,omitempty" protobuf:"varint,27,opt,name=x7" thrift:"27"`
	X08  int64              `json:"x8,omitempty" protobuf:"varint,28,opt,name=x8" thrift:"28"`
	X09  int64              `json:"x9,omitempty" protobuf:"varint,29,opt,name=x9" thrift:"29"`
	X10  int64              `json:"x10,omitempty" protobuf:"varint,30,opt,name=x10" thrift:"30"`
	X11  int64              `json:"x11,omitempty" protobuf:"varint,31,opt,name=x11" thrift:"31"`
	X12  int64              `json:"x12,omitempty" protobuf:"varint,32,opt,name=x12" thrift:"32"`
	X13  int64              `json:"x13,omitempty" protobuf:"varint,33,opt,name=x13" thrift:"33"`
	X14  int64              `json:"x14,omitempty" protobuf:"varint,34,opt,name=x14" thrift:"34"`
	X15  int64              `json:"x15,omitempty" protobuf:"varint,35,opt,name=x15" thrift:"35"`
	X16  int64              `json:"x16,omitempty" protobuf:"varint,36,opt,name=x16" thrift:"36"`
	X17  int64              `json:"x17,omitempty" protobuf:"varint,37,opt,name=x17" thrift:"37"`
	X18  int64              `json:"x18,omitempty" protobuf:"varint,38,opt,name=x18" thrift:"38"`
	X19  int64              `json:"x19,omitempty" protobuf:"varint,39,opt,name=x19" thrift:"39"`
	X20  int64              `json:"x20,omitempty" protobuf:"varint,40,opt,name=x20" thrift:"40"`
	X21  int64              `json:"x21,omitempty" protobuf:"varint,41,opt,name=x21" thrift:"41"`
	X22  int64              `json:"x22,omitempty" protobuf:"varint,42,opt,name=x22" thrift:"42"`
	X23  int64              `json:"x23,omitempty" protobuf:"varint,43,opt,name=x23" thrift:"43"`
}

type Peer183 struct {
	Back *Rec183   `json:"back,omitempty" protobuf:"bytes,1,opt,name=back" thrift:"1"`
	List []*Rec183 `json:"list,omitempty" protobuf:"bytes,2,rep,name=list" thrift:"2"`
	B    bool      `json:"b" protobuf:"varint,3,opt,name=b" thrift:"3"`
}

type Rec184 struct {
	M    map[string]Peer184 `json:"m,omitempty" protobuf:"bytes,6,rep,name=m" protobuf_key:"bytes,1,opt,name=key" protobuf_val:"bytes,2,opt,name=value" thrift:"6"`
	V    int64              `json:"v" protobuf:"varint,1,opt,name=v" thrift:"1"`
	Next *Rec184            `json:"next,omitempty" protobuf:"bytes,2,opt,name=next" thrift:"2"`
	Kids []Rec184           `json:"kids,omitempty" protobuf:"bytes,3,rep,name=kids" thrift:"3"`
	Peer *Peer184           `json:"peer,omitempty" protobuf:"bytes,4,opt,name=peer" thrift:"4"`
	S    string             `json:"s,omitempty" protobuf:"bytes,5,opt,name=s" thrift:"5"`
	X00  int64              `json:"x0,omitempty" protobuf:"varint,20,opt,name=x0" thrift:"20"`
	X01  int64              `json:"x1,omitempty" protobuf:"varint,21,opt,name=x1" thrift:"21"`
	X02  int64              `json:"x2,omitempty" protobuf:"varint,22,opt,name=x2" thrift:"22"`
	X03  int64              `json:"x3,omitempty" protobuf:"varint,23,opt,name=x3" thrift:"23"`
	X04  int64              `json:"x4,omitempty" protobuf:"varint,24,opt,name=x4" thrift:"24"`
	X05  int64              `json:"x5,omitempty" protobuf:"varint,25,opt,name=x5" thrift:"25"`
	X06  int64              `json:"x6,omitempty" protobuf:"varint,26,opt,name=x6" thrift:"26"`
	X07  int64              `json:"x7,omitempty" protobuf:"varint,27,opt,name=x7" thrift:"27"`
	X08  int64              `json:"x8,omitempty" protobuf:"varint,28,opt,name=x8" thrift:"28"`
	X09  int64              `json:"x9,omitempty" protobuf:"varint,29,opt,name=x9" thrift:"29"`
	X10  int64              `json:"x10,omitempty" protobuf:"varint,30,opt,name=x10" thrift:"30"`
	X11  int64              `json:"x11,omitempty" protobuf:"varint,31,opt,name=x11" thrift:"31"`
	X12  int64              `json:"x12,omitempty" protobuf:"varint,32,opt,name=x12" thrift:"32"`
	X13  int64              `json:"x13,omitempty" protobuf:"varint,33,opt,name=x13" thrift:"33"`
	X14  int64              `json:"x14,omitempty" protobuf:"varint,34,opt,name=x14" thrift:"34"`
	X15  int64              `json:"x15,omitempty" protobuf:"varint,35,opt,name=x15" thrift:"35"`
	X16  int64              `json:"x16,omitempty" protobuf:"varint,36,opt,name=x16" thrift:"36"`
	X17  int64              `json:"x17,omitempty" protobuf:"varint,37,opt,name=x17" thrift:"37"`
	X18  int64              `json:"x18,omitempty" protobuf:"varint,38,opt,name=x18" thrift:"38"`
	X19  int64              `json:"x19,omitempty" protobuf:"varint,39,opt,name=x19" thrift:"39"`
	X20  int64              `json:"x20,omitempty" protobuf:"varint,40,opt,name=x20" thrift:"40"`
	X21  int64              `json:"x21,omitempty" protobuf:"varint,41,opt,name=x21" thrift:"41"`
	X22  int64              `json:"x22,omitempty" protobuf:"varint,42,opt,name=x22" thrift:"42"`
	X23  int64              `json:"x23,omitempty" protobuf:"varint,43,opt,name=x23" thrift:"43"`
}

type Peer184 struct {
	Back *Rec184   `json:"back,omitempty" protobuf:"bytes,1,opt,name=back" thrift:"1"`
	List []*Rec184 `json:"list,omitempty" protobuf:"bytes,2,rep,name=list" thrift:"2"`
	B    bool      `json:"b" protobuf:"varint,3,opt,name=b" thrift:"3"`
}

type Rec185 struct {
	M    map[string]Peer185 `json:"m,omitempty" protobuf:"bytes,6,rep,name=m" protobuf_key:"bytes,1,opt,name=key" protobuf_val:"bytes,2,opt,name=value" thrift:"6"`
	V    int64              `json:"v" protobuf:"varint,1,opt,name=v" thrift:"1"`
	Next *Rec185            `json:"next,omitempty" protobuf:"bytes,2,opt,name=next" thrift:"2"`
	Kids []Rec185           `json:"kids,omitempty" protobuf:"bytes,3,rep,name=kids" thrift:"3"`
	Peer *Peer185           `json:"peer,omitempty" protobuf:"bytes,4,opt,name=peer" thrift:"4"`
	S    string             `json:"s,omitempty" protobuf:"bytes,5,opt,name=s" thrift:"5"`
	X00  int64              `json:"x0,omitempty" protobuf:"varint,20,opt,name=x0" thrift:"20"`
	X01  int64              `json:"x1,omitempty" protobuf:"varint,21,opt,name=x1" thrift:"21"`
	X02  int64              `json:"x2,omitempty" protobuf:"varint,22,opt,name=x2" thrift:"22"`
	X03  int64              `json:"x3,omitempty" protobuf:"varint,23,opt,name=x3" thrift:"23"`
	X04  int64              `json:"x4,omitempty" protobuf:"varint,24,opt,name=x4" thrift:"24"`
	X05  int64              `json:"x5,omitempty" protobuf:"varint,25,opt,name=x5" thrift:"25"`
	X06  int64              `json:"x6,omitempty" protobuf:"varint,26,opt,name=x6" thrift:"26"`
	X07  int64              `json:"x7,omitempty" protobuf:"varint,27,opt,name=x7" thrift:"27"`
	X08  int64              `json:"x8,omitempty" protobuf:"varint,28,opt,name=x8" thrift:"28"`
	X09  int64              `json:"x9,omitempty" protobuf:"varint,29,opt,name=x9" thrift:"29"`
	X10  int64              `json:"x10,omitempty" protobuf:"varint,30,opt,name=x10" thrift:"30"`
	X11  int64              `json:"x11,omitempty" protobuf:"varint,31,opt,name=x11" thrift:"31"`
	X12  int64              `json:"x12,omitempty" protobuf:"varint,32,opt,name=x12" thrift:"32"`
	X13  int64              `json:"x13,omitempty" protobuf:"varint,33,opt,name=x13" thrift:"33"`
	X14  int64              `json:"x14,omitempty" protobuf:"varint,34,opt,name=x14" thrift:"34"`
	X15  int64              `json:"x15,omitempty" protobuf:"varint,35,opt,name=x15" thrift:"35"`
	X16  int64              `json:"x16,omitempty" protobuf:"varint,36,opt,name=x16" thrift:"36"`
	X17  int64              `json:"x17,omitempty" protobuf:"varint,37,opt,name=x17" thrift:"37"`
	X18  int64              `json:"x18,omitempty" protobuf:"varint,38,opt,name=x18" thrift:"38"`
	X19  int64              `json:"x19,omitempty" protobuf:"varint,39,opt,name=x19" thrift:"39"`
	X20  int64              `json:"x20,omitempty" protobuf:"varint,40,opt,name=x20" thrift:"40"`
	X21  int64              `json:"x21,omitempty" protobuf:"varint,41,opt,name=x21" thrift:"41"`
	X22  int64              `json:"x22,omitempty" protobuf:"varint,42,opt,name=x22" thrift:"42"`
	X23  int64              `json:"x23,omitempty" protobuf:"varint,43,opt,name=x23" thrift:"43"`
}

type Peer185 struct {
	Back *Rec185   `json:"back,omitempty" protobuf:"bytes,1,opt,name=back" thrift:"1"`
	List []*Rec185 `json:"list,omitempty" protobuf:"bytes,2,rep,name=list" thrift:"2"`
	B    bool      `json:"b" protobuf:"varint,3,opt,name=b" thrift:"3"`
}

type Rec186 struct {
	M    map[string]Peer186 `json:"m,omitempty" protobuf:"bytes,6,rep,name=m" protobuf_key:"bytes,1,opt,name=key" protobuf_val:"bytes,2,opt,name=value" thrift:"6"`
	V    int64              `json:"v" protobuf:"varint,1,opt,name=v" thrift:"1"`
	Next *Rec186            `json:"next,omitempty" protobuf:"bytes,2,opt,name=next" thrift:"2"`
	Kids []Rec186           `json:"kids,omitempty" protobuf:"bytes,3,rep,name=kids" thrift:"3"`
	Peer *Peer186           `json:"peer,omitempty" protobuf:"bytes,4,opt,name=peer" thrift:"4"`
	S    string             `json:"s,omitempty" protobuf:"bytes,5,opt,name=s" thrift:"5"`
	X00  int64              `json:"x0,omitempty" protobuf:"varint,20,opt,name=x0" thrift:"20"`
	X01  int64              `json:"x1,omitempty" protobuf:"varint,21,opt,name=x1" thrift:"21"`
	X02  int64              `json:"x2,omitempty" protobuf:"varint,22,opt,name=x2" thrift:"22"`
	X03  int64              `json:"x3,omitempty" protobuf:"varint,23,opt,name=x3" thrift:"23"`
	X04  int64              `json:"x4,omitempty" protobuf:"varint,24,opt,name=x4" thrift:"24"`
	X05  int64              `json:"x5,omitempty" protobuf:"varint,25,opt,name=x5" thrift:"25"`
	X06  int64              `json:"x6,omitempty" protobuf:"varint,26,opt,name=x6" thrift:"26"`
	X07  int64              `json:"x7,omitempty" protobuf:"varint,27,opt,name=x7" thrift:"27"`
	X08  int64              `json:"x8,omitempty" protobuf:"varint,28,opt,name=x8" thrift:"28"`
	X09  int64              `json:"x9,omitempty" protobuf:"varint,29,opt,name=x9" thrift:"29"`
	X10  int64              `json:"x10,omitempty" protobuf:"varint,30,opt,name=x10" thrift:"30"`
	X11  int64              `json:"x11,omitempty" protobuf:"varint,31,opt,name=x11" thrift:"31"`
	X12  int64              `json:"x12,omitempty" protobuf:"varint,32,opt,name=x12" thrift:"32"`
	X13  int64              `json:"x13,omitempty" protobuf:"varint,33,opt,name=x13" thrift:"33"`
	X14  int64              `json:"x14,omitempty" protobuf:"varint,34,opt,name=x14" thrift:"34"`
	X15  int64              `json:"x15,omitempty" protobuf:"varint,35,opt,name=x15" thrift:"35"`
	X16  int64              `json:"x16,omitempty" protobuf:"varint,36,opt,name=x16" thrift:"36"`
	X17  int64              `json:"x17,omitempty" protobuf:"varint,37,opt,name=x17" thrift:"37"`
	X18  int64              `json:"x18,omitempty" protobuf:"varint,38,opt,name=x18" thrift:"38"`
	X19  int64              `json:"x19,omitempty" protobuf:"varint,39,opt,name=x19" thrift:"39"`
	X20  int64              `json:"x20,omitempty" protobuf:"varint,40,opt,name=x20" thrift:"40"`
	X21  int64              `json:"x21,omitempty" protobuf:"varint,41,opt,name=x21" thrift:"41"`
	X22  int64              `json:"x22,omitempty" protobuf:"varint,42,opt,name=x22" thrift:"42"`
	X23  int64              `json:"x23,omitempty" protobuf:"varint,43,opt,name=x23" thrift:"43"`
}

type Peer186 struct {
	Back *Rec186   `json:"back,omitempty" protobuf:"bytes,1,opt,name=back" thrift:"1"`
	List []*Rec186 `json:"list,omitempty" protobuf:"bytes,2,rep,name=list" thrift:"2"`
	B    bool      `json:"b" protobuf:"varint,3,opt,name=b" thrift:"3"`
}

type Rec187 struct {
	M    map[string]Peer187 `json:"m,omitempty" protobuf:"bytes,6,rep,name=m" protobuf_key:"bytes,1,opt,name=key" protobuf_val:"bytes,2,opt,name=value" thrift:"6"`
	V    int64              `json:"v" protobuf:"varint,1,opt,name=v" thrift:"1"`
	Next *Rec187            `json:"next,omitempty" protobuf:"bytes,2,opt,name=next" thrift:"2"`
	Kids []Rec187           `json:"kids,omitempty" protobuf:"bytes,3,rep,name=kids" thrift:"3"`
	Peer *Peer187           `json:"peer,omitempty" protobuf:"bytes,4,opt,name=peer" thrift:"4"`
	S    string             `json:"s,omitempty" protobuf:"bytes,5,opt,name=s" thrift:"5"`
	X00  int64              `json:"x0,omitempty" protobuf:"varint,20,opt,name=x0" thrift:"20"`
	X01  int64              `json:"x1,omitempty" protobuf:"varint,21,opt,name=x1" thrift:"21"`
	X02  int64              `json:"x2,omitempty" protobuf:"varint,22,opt,name=x2" thrift:"22"`
	X03  int64              `json:"x3,omitempty" protobuf:"varint,23,opt,name=x3" thrift:"23"`
	X04  int64              `json:"x4,omitempty" protobuf:"varint,24,opt,name=x4" thrift:"24"`
	X05  int64              `json:"x5,omitempty" protobuf:"varint,25,opt,name=x5" thrift:"25"`
	X06  int64              `json:"x6,omitempty" protobuf:"varint,26,opt,name=x6" thrift:"26"`
	X07  int64              `json:"x7,omitempty" protobuf:"varint,27,opt,name=x7" thrift:"27"`
	X08  int64              `json:"x8,omitempty" protobuf:"varint,28,opt,name=x8" thrift:"28"`
	X09  int64              `json:"x9,omitempty" protobuf:"varint,29,opt,name=x9" thrift:"29"`
	X10  int64              `json:"x10,omitempty" protobuf:"varint,30,opt,name=x10" thrift:"30"`
	X11  int64              `json:"x11,omitempty" protobuf:"varint,31,opt,name=x11" thrift:"31"`
	X12  int64              `json:"x12,omitempty" protobuf:"varint,32,opt,name=x12" thrift:"32"`
	X13  int64              `json:"x13,omitempty" protobuf:"varint,33,opt,name=x13" thrift:"33"`
	X14  int64              `json:"x14,omitempty" protobuf:"varint,34,opt,name=x14" thrift:"34"`
	X15  int64              `json:"x15,omitempty" protobuf:"varint,35,opt,name=x15" thrift:"35"`
	X16  int64              `json:"x16,omitempty" protobuf:"varint,36,opt,name=x16" thrift:"36"`
	X17  int64              `json:"x17,omitempty" protobuf:"varint,37,opt,name=x17" thrift:"37"`
	X18  int64              `json:"x18,omitempty" protobuf:"varint,38,opt,name=x18" thrift:"38"`
	X19  int64              `json:"x19,omitempty" protobuf:"varint,39,opt,name=x19" thrift:"39"`
	X20  int64              `json:"x20,omitempty" protobuf:"varint,40,opt,name=x20" thrift:"40"`
	X21  int64              `json:"x21,omitempty" protobuf:"varint,41,opt,name=x21" thrift:"41"`
	X22  int64              `json:"x22,omitempty" protobuf:"varint,42,opt,name=x22" thrift:"42"`
	X23  int64              `json:"x23,omitempty" protobuf:"varint,43,opt,name=x23" thrift:"43"`
}

type Peer187 struct {
	Back *Rec187   `json:"back,omitempty" protobuf:"bytes,1,opt,name=back" thrift:"1"`
	List []*Rec187 `json:"list,omitempty" protobuf:"bytes,2,rep,name=list" thrift:"2"`
	B    bool      `json:"b" protobuf:"varint,3,opt,name=b" thrift:"3"`
}

type Rec188 struct {
	M    map[string]Peer188 `json:"m,omitempty" protobuf:"bytes,6,rep,name=m" protobuf_key:"bytes,1,opt,name=key" protobuf_val:"bytes,2,opt,name=value" thrift:"6"`
	V    int64              `json:"v" protobuf:"varint,1,opt,name=v" thrift:"1"`
	Next *Rec188            `json:"next,omitempty" protobuf:"bytes,2,opt,name=next" thrift:"2"`
	Kids []Rec188           `json:"kids,omitempty" protobuf:"bytes,3,rep,name=kids" thrift:"3"`
	Peer *Peer188           `json:"peer,omitempty" protobuf:"bytes,4,opt,name=peer" thrift:"4"`
	S    string             `json:"s,omitempty" protobuf:"bytes,5,opt,name=s" thrift:"5"`
	X00  int64              `json:"x0,omitempty" protobuf:"varint,20,opt,name=x0" thrift:"20"`
	X01  int64              `json:"x1,omitempty" protobuf:"varint,21,opt,name=x1" thrift:"21"`
	X02  int64              `json:"x2,omitempty" protobuf:"varint,22,opt,name=x2" thrift:"22"`
	X03  int64              `json:"x3,omitempty" protobuf:"varint,23,opt,name=x3" thrift:"23"`
	X04  int64              `json:"x4,omitempty" protobuf:"varint,24,opt,name=x4" thrift:"24"`
	X05  int64              `json:"x5,omitempty" protobuf:"varint,25,opt,name=x5" thrift:"25"`
	X06  int64              `json:"x6,omitempty" protobuf:"varint,26,opt,name=x6" thrift:"26"`
	X07  int64              `json:"x7,omitempty" protobuf:"varint,27,opt,name=x7" thrift:"27"`
	X08  int64              `json:"x8,omitempty" protobuf:"varint,28,opt,name=x8" thrift:"28"`
	X09  int64              `json:"x9,omitempty" protobuf:"varint,29,opt,name=x9" thrift:"29"`
	X10  int64              `json:"x10,omitempty" protobuf:"varint,30,opt,name=x10" thrift:"30"`
	X11  int64              `json:"x11,omitempty" protobuf:"varint,31,opt,name=x11" thrift:"31"`
	X12  int64              `json:"x12,omitempty" protobuf:"varint,32,opt,name=x12" thrift:"32"`
	X13  int64              `json:"x13,omitempty" protobuf:"varint,33,opt,name=x13" thrift:"33"`
	X14  int64              `json:"x14,omitempty" protobuf:"varint,34,opt,name=x14" thrift:"34"`
	X15  int64              `json:"x15,omitempty" protobuf:"varint,35,opt,name=x15" thrift:"35"`
	X16  int64              `json:"x16,omitempty" protobuf:"varint,36,opt,name=x16" thrift:"36"`
	X17  int64              `json:"x17,omitempty" protobuf:"varint,37,opt,name=x17" thrift:"37"`
	X18  int64              `json:"x18,omitempty" protobuf:"varint,38,opt,name=x18" thrift:"38"`
	X19  int64              `json:"x19,omitempty" protobuf:"varint,39,opt,name=x19" thrift:"39"`
	X20  int64              `json:"x20,omitempty" protobuf:"varint,40,opt,name=x20" thrift:"40"`
	X21  int64              `json:"x21,omitempty" protobuf:"varint,41,opt,name=x21" thrift:"41"`
	X22  int64              `json:"x22,omitempty" protobuf:"varint,42,opt,name=x22" thrift:"42"`
	X23  int64              `json:"x23,omitempty" protobuf:"varint,43,opt,name=x23" thrift:"43"`
}

type Peer188 struct {
	Back *Rec188   `json:"back,omitempty" protobuf:"bytes,1,opt,name=back" thrift:"1"`
	List []*Rec188 `json:"list,omitempty" protobuf:"bytes,2,rep,name=list" thrift:"2"`
	B    bool      `json:"b" protobuf:"varint,3,opt,name=b" thrift:"3"`
}

type Rec189 struct {
	M    map[string]Peer189 `json:"m,omitempty" protobuf:"bytes,6,rep,name=m" protobuf_key:"bytes,1,opt,name=key" protobuf_val:"bytes,2,opt,name=value" thrift:"6"`
	V    int64              `json:"v" protobuf:"varint,1,opt,name=v" thrift:"1"`
	Next *Rec189            `json:"next,omitempty" protobuf:"bytes,2,opt,name=next" thrift:"2"`
	Kids []Rec189           `json:"kids,omitempty" protobuf:"bytes,3,rep,name=kids" thrift:"3"`
	Peer *Peer189           `json:"peer,omitempty" protobuf:"bytes,4,opt,name=peer" thrift:"4"`
	S    string             `json:"s,omitempty" protobuf:"bytes,5,opt,name=s" thrift:"5"`
	X00  int64              `json:"x0,omitempty" protobuf:"varint,20,opt,name=x0" thrift:"20"`
	X01  int64              `json:"x1,omitempty" protobuf:"varint,21,opt,name=x1" thrift:"21"`
	X02  int64              `json:"x2,omitempty" protobuf:"varint,22,opt,name=x2" thrift:"22"`
	X03  int64              `json:"x3,omitempty" protobuf:"varint,23,opt,name=x3" thrift:"23"`
	X04  int64              `json:"x4,omitempty" protobuf:"varint,24,opt,name=x4" thrift:"24"`
	X05  int64              `json:"x5,omitempty" protobuf:"varint,25,opt,name=x5" thrift:"25"`
	X06  int64              `json:"x6,omitempty" protobuf:"varint,26,opt,name=x6" thrift:"26"`
	X07  int64              `json:"x7,omitempty" protobuf:"varint,27,opt,name=x7" thrift:"27"`
	X08  int64              `json:"x8,omitempty" protobuf:"varint,28,opt,name=x8" thrift:"28"`
	X09  int64              `json:"x9,omitempty" protobuf:"varint,29,opt,name=x9" thrift:"29"`
	X10  int64              `json:"x10,omitempty" protobuf:"varint,30,opt,name=x10" thrift:"30"`
	X11  int64              `json:"x11,omitempty" protobuf:"varint,31,opt,name=x11" thrift:"31"`
	X12  int64              `json:"x12,omitempty" protobuf:"varint,32,opt,name=x12" thrift:"32"`
	X13  int64              `json:"x13,omitempty" protobuf:"varint,33,opt,name=x13" thrift:"33"`
	X14  int64              `json:"x14,omitempty" protobuf:"varint,34,opt,name=x14" thrift:"34"`
	X15  int64              `json:"x15,omitempty" protobuf:"varint,35,opt,name=x15" thrift:"35"`
	X16  int64              `json:"x16,omitempty" protobuf:"varint,36,opt,name=x16" thrift:"36"`
	X17  int64              `json:"x17,omitempty" protobuf:"varint,37,opt,name=x17" thrift:"37"`
	X18  int64              `json:"x18,omitempty" protobuf:"varint,38,opt,name=x18" thrift:"38"`
	X19  int64              `json:"x19,omitempty" protobuf:"varint,39,opt,name=x19" thrift:"39"`
	X20  int64              `json:"x20,omitempty" protobuf:"varint,40,opt,name=x20" thrift:"40"`
	X21  int64              `json:"x21,omitempty" protobuf:"varint,41,opt,name=x21" thrift:"41"`
	X22  int64              `json:"x22,omitempty" protobuf:"varint,42,opt,name=x22" thrift:"42"`
	X23  int64              `json:"x23,omitempty" protobuf:"varint,43,opt,name=x23" thrift:"43"`
}

type Peer189 struct {
	Back *Rec189   `json:"back,omitempty" protobuf:"bytes,1,opt,name=back" thrift:"1"`
	List []*Rec189 `json:"list,omitempty" protobuf:"bytes,2,rep,name=list" thrift:"2"`
	B    bool      `json:"b" protobuf:"varint,3,opt,name=b" thrift:"3"`
}

type Rec190 struct {
	M    map[string]Peer190 `json:"m,omitempty" protobuf:"bytes,6,rep,name=m" protobuf_key:"bytes,1,opt,name=key" protobuf_val:"bytes,2,opt,name=value" thrift:"6"`
	V    int64              `json:"v" protobuf:"varint,1,opt,name=v" thrift:"1"`
	Next *Rec190            `json:"next,omitempty" protobuf:"bytes,2,opt,name=next" thrift:"2"`
	Kids []Rec190           `json:"kids,omitempty" protobuf:"bytes,3,rep,name=kids" thrift:"3"`
	Peer *Peer190           `json:"peer,omitempty" protobuf:"bytes,4,opt,name=peer" thrift:"4"`
	S    string             `json:"s,omitempty" protobuf:"bytes,5,opt,name=s" thrift:"5"`
	X00  int64              `json:"x0,omitempty" protobuf:"varint,20,opt,name=x0" thrift:"20"`
	X01  int64              `json:"x1,omitempty" protobuf:"varint,21,opt,name=x1" thrift:"21"`
	X02  int64              `json:"x2,omitempty" protobuf:"varint,22,opt,name=x2" thrift:"22"`
	X03  int64              `json:"x3,omitempty" protobuf:"varint,23,opt,name=x3" thrift:"23"`
	X04  int64              `json:"x4,omitempty" protobuf:"varint,24,opt,name=x4" thrift:"24"`
	X05  int64              `json:"x5,omitempty" protobuf:"varint,25,opt,name=x5" thrift:"25"`
	X06  int64              `json:"x6,omitempty" protobuf:"varint,26,opt,name=x6" thrift:"26"`
	X07  int64              `json:"x7,omitempty" protobuf:"varint,27,opt,name=x7" thrift:"27"`
	X08  int64              `json:"x8,omitempty" protobuf:"varint,28,opt,name=x8" thrift:"28"`
	X09  int64              `json:"x9,omitempty" protobuf:"varint,29,opt,name=x9" thrift:"29"`
	X10  int64              `json:"x10,omitempty" protobuf:"varint,30,opt,name=x10" thrift:"30"`
	X11  int64              `json:"x11,omitempty" protobuf:"varint,31,opt,name=x11" thrift:"31"`
	X12  int64              `json:"x12,omitempty" protobuf:"varint,32,opt,name=x12" thrift:"32"`
	X13  int64              `json:"x13,omitempty" protobuf:"varint,33,opt,name=x13" thrift:"33"`
	X14  int64              `json:"x14,omitempty" protobuf:"varint,34,opt,name=x14" thrift:"34"`
	X15  int64              `json:"x15,omitempty" protobuf:"varint,35,opt,name=x15" thrift:"35"`
	X16  int64              `json:"x16,omitempty" protobuf:"varint,36,opt,name=x16" thrift:"36"`
	X17  int64              `json:"x17,omitempty" protobuf:"varint,37,opt,name=x17" thrift:"37"`
	X18  int64              `json:"x18,omitempty" protobuf:"varint,38,opt,name=x18" thrift:"38"`
	X19  int64              `json:"x19,omitempty" protobuf:"varint,39,opt,name=x19" thrift:"39"`
	X20  int64              `json:"x20,omitempty" protobuf:"varint,40,opt,name=x20" thrift:"40"`
	X21  int64              `json:"x21,omitempty" protobuf:"varint,41,opt,name=x21" thrift:"41"`
	X22  int64              `json:"x22,omitempty" protobuf:"varint,42,opt,name=x22" thrift:"42"`
	X23  int64              `json:"x23,omitempty" protobuf:"varint,43,opt,name=x23" thrift:"43"`
}

type Peer190 struct {
	Back *Rec190   `json:"back,omitempty" protobuf:"bytes,1,opt,name=back" thrift:"1"`
	List []*Rec190 `json:"list,omitempty" protobuf:"bytes,2,rep,name=list" thrift:"2"`
	B    bool      `json:"b" protobuf:"varint,3,opt,name=b" thrift:"3"`
}

type Rec191 struct {
	M    map[string]Peer191 `json:"m,omitempty" protobuf:"bytes,6,rep,name=m" protobuf_key:"bytes,1,opt,name=key" protobuf_val:"bytes,2,opt,name=value" thrift:"6"`
	V    int64              `json:"v" protobuf:"varint,1,opt,name=v" thrift:"1"`
	Next *Rec191            `json:"next,omitempty" protobuf:"bytes,2,opt,name=next" thrift:"2"`
	Kids []Rec191           `json:"kids,omitempty" protobuf:"bytes,3,rep,name=kids" thrift:"3"`
	Peer *Peer191           `json:"peer,omitempty" protobuf:"bytes,4,opt,name=peer" thrift:"4"`
	S    string             `json:"s,omitempty" protobuf:"bytes,5,opt,name=s" thrift:"5"`
	X00  int64              `json:"x0,omitempty" protobuf:"varint,20,opt,name=x0" thrift:"20"`
	X01  int64              `json:"x1,omitempty" protobuf:"varint,21,opt,name=x1" thrift:"21"`
	X02  int64              `json:"x2,omitempty" protobuf:"varint,22,opt,name=x2" thrift:"22"`
	X03  int64              `json:"x3,omitempty" protobuf:"varint,23,opt,name=x3" thrift:"23"`
	X04  int64              `json:"x4,omitempty" protobuf:"varint,24,opt,name=x4" thrift:"24"`
	X05  int64              `json:"x5,omitempty" protobuf:"varint,25,opt,name=x5" thrift:"25"`
	X06  int64              `json:"x6,omitempty" protobuf:"varint,26,opt,name=x6" thrift:"26"`
	X07  int64              `json:"x7,omitempty" protobuf:"varint,27,opt,name=x7" thrift:"27"`
	X08  int64              `json:"x8,omitempty" protobuf:"varint,28,opt,name=x8" thrift:"28"`
	X09  int64              `json:"x9,omitempty" protobuf:"varint,29,opt,name=x9" thrift:"29"`
	X10  int64              `json:"x10,omitempty" protobuf:"varint,30,opt,name=x10" thrift:"30"`
	X11  int64              `json:"x11,omitempty" protobuf:"varint,31,opt,name=x11" thrift:"31"`
	X12  int64              `json:"x12,omitempty" protobuf:"varint,32,opt,name=x12" thrift:"32"`
	X13  int64              `json:"x13,omitempty" protobuf:"varint,33,opt,name=x13" thrift:"33"`
	X14  int64              `json:"x14,omitempty" protobuf:"varint,34,opt,name=x14" thrift:"34"`
	X15  int64              `json:"x15,omitempty" protobuf:"varint,35,opt,name=x15" thrift:"35"`
	X16  int64              `json:"x16,omitempty" protobuf:"varint,36,opt,name=x16" thrift:"36"`
	X17  int64              `json:"x17,omitempty" protobuf:"varint,37,opt,name=x17" thrift:"37"`
	X18  int64              `json:"x18,omitempty" protobuf:"varint,38,opt,name=x18" thrift:"38"`
	X19  int64              `json:"x19,omitempty" protobuf:"varint,39,opt,name=x19" thrift:"39"`
	X20  int64              `json:"x20,omitempty" protobuf:"varint,40,opt,name=x20" thrift:"40"`
	X21  int64              `json:"x21,omitempty" protobuf:"varint,41,opt,name=x21" thrift:"41"`
	X22  int64              `json:"x22,omitempty" protobuf:"varint,42,opt,name=x22" thrift:"42"`
	X23  int64              `json:"x23,omitempty" protobuf:"varint,43,opt,name=x23" thrift:"43"`
}

type Peer191 struct {
	Back *Rec191   `json:"back,omitempty" protobuf:"bytes,1,opt,name=back" thrift:"1"`
	List []*Rec191 `json:"list,omitempty" protobuf:"bytes,2,rep,name=list" thrift:"2"`
	B    bool      `json:"b" protobuf:"varint,3,opt,name=b" thrift:"3"`
}

type Rec192 struct {
	M    map[string]Peer192 `json:"m,omitempty" protobuf:"bytes,6,rep,name=m" protobuf_key:"bytes,1,opt,name=key" protobuf_val:"bytes,2,opt,name=value" thrift:"6"`
	V    int64              `json:"v" protobuf:"varint,1,opt,name=v" thrift:"1"`
	Next *Rec192            `json:"next,omitempty" protobuf:"bytes,2,opt,name=next" thrift:"2"`
	Kids []Rec192           `json:"kids,omitempty" protobuf:"bytes,3,rep,name=kids" thrift:"3"`
	Peer *Peer192           `json:"peer,omitempty" protobuf:"bytes,4,opt,name=peer" thrift:"4"`
	S    string             `json:"s,omitempty" protobuf:"bytes,5,opt,name=s" thrift:"5"`
	X00  int64              `json:"x0,omitempty" protobuf:"varint,20,opt,name=x0" thrift:"20"`
	X01  int64              `json:"x1,omitempty" protobuf:"varint,21,opt,name=x1" thrift:"21"`
	X02  int64              `json:"x2,omitempty" protobuf:"varint,22,opt,name=x2" thrift:"22"`
	X03  int64              `json:"x3,omitempty" protobuf:"varint,23,opt,name=x3" thrift:"23"`
	X04  int64              `json:"x4,omitempty" protobuf:"varint,24,opt,name=x4" thrift:"24"`
	X05  int64              `json:"x5,omitempty" protobuf:"varint,25,opt,name=x5" thrift:"25"`
	X06  int64              `json:"x6,omitempty" protobuf:"varint,26,opt,name=x6" thrift:"26"`
	X07  int64              `json:"x7,omitempty" protobuf:"varint,27,opt,name=x7" thrift:"27"`
	X08  int64              `json:"x8,omitempty" protobuf:"varint,28,opt,name=x8" thrift:"28"`
	X09  int64              `json:"x9,omitempty" protobuf:"varint,29,opt,name=x9" thrift:"29"`
	X10  int64              `json:"x10,omitempty" protobuf:"varint,30,opt,name=x10" thrift:"30"`
	X11  int64              `json:"x11,omitempty" protobuf:"varint,31,opt,name=x11" thrift:"31"`
	X12  int64              `json:"x12,omitempty" protobuf:"varint,32,opt,name=x12" thrift:"32"`
	X13  int64              `json:"x13,omitempty" protobuf:"varint,33,opt,name=x13" thrift:"33"`
	X14  int64              `json:"x14,omitempty" protobuf:"varint,34,opt,name=x14" thrift:"34"`
	X15  int64              `json:"x15,omitempty" protobuf:"varint,35,opt,name=x15" thrift:"35"`
	X16  int64              `json:"x16,omitempty" protobuf:"varint,36,opt,name=x16" thrift:"36"`
	X17  int64              `json:"x17,omitempty" protobuf:"varint,37,opt,name=x17" thrift:"37"`
	X18  int64              `json:"x18,omitempty" protobuf:"varint,38,opt,name=x18" thrift:"38"`
	X19  int64              `json:"x19,omitempty" protobuf:"varint,39,opt,name=x19" thrift:"39"`
	X20  int64              `json:"x20,omitempty" protobuf:"varint,40,opt,name=x20" thrift:"40"`
	X21  int64              `json:"x21,omitempty" protobuf:"varint,41,opt,name=x21" thrift:"41"`
	X22  int64              `json:"x22,omitempty" protobuf:"varint,42,opt,name=x22" thrift:"42"`
	X23  int64              `json:"x23,omitempty" protobuf:"varint,43,opt,name=x23" thrift:"43"`
}

type Peer192 struct {
	Back *Rec192   `json:"back,omitempty" protobuf:"bytes,1,opt,name=back" thrift:"1"`
	List []*Rec192 `json:"list,omitempty" protobuf:"bytes,2,rep,name=list" thrift:"2"`
	B    bool      `json:"b" protobuf:"varint,3,opt,name=b" thrift:"3"`
}

type Rec193 struct {
	M    map[string]Peer193 `json:"m,omitempty" protobuf:"bytes,6,rep,name=m" protobuf_key:"bytes,1,opt,name=key" protobuf_val:"bytes,2,opt,name=value" thrift:"6"`
	V    int64              `json:"v" protobuf:"varint,1,opt,name=v" thrift:"1"`
	Next *Rec193            `json:"next,omitempty" protobuf:"bytes,2,opt,name=next" thrift:"2"`
	Kids []Rec193           `json:"kids,omitempty" protobuf:"bytes,3,rep,name=kids" thrift:"3"`
	Peer *Peer193           `json:"peer,omitempty" protobuf:"bytes,4,opt,name=peer" thrift:"4"`
	S    string             `json:"s,omitempty" protobuf:"bytes,5,opt,name=s" thrift:"5"`
	X00  int64              `json:"x0,omitempty" protobuf:"varint,20,opt,name=x0" thrift:"20"`
	X01  int64              `json:"x1,omitempty" protobuf:"varint,21,opt,name=x1" thrift:"21"`
	X02  int64              `json:"x2,omitempty" protobuf:"varint,22,opt,name=x2" thrift:"22"`
	X03  int64              `json:"x3,omitempty" protobuf:"varint,23,opt,name=x3" thrift:"23"`
	X04  int64              `json:"x4,omitempty" protobuf:"varint,24,opt,name=x4" thrift:"24"`
	X05  int64              `json:"x5,omitempty" protobuf:"varint,25,opt,name=x5" thrift:"25"`
	X06  int64              `json:"x6,omitempty" protobuf:"varint,26,opt,name=x6" thrift:"26"`
	X07  int64              `json:"x7,omitempty" protobuf:"varint,27,opt,name=x7" thrift:"27"`
	X08  int64              `json:"x8,omitempty" protobuf:"varint,28,opt,name=x8" thrift:"28"`
	X09  int64              `json:"x9,omitempty" protobuf:"varint,29,opt,name=x9" thrift:"29"`
	X10  int64              `json:"x10,omitempty" protobuf:"varint,30,opt,name=x10" thrift:"30"`
	X11  int64              `json:"x11,omitempty" protobuf:"varint,31,opt,name=x11" thrift:"31"`
	X12  int64              `json:"x12,omitempty" protobuf:"varint,32,opt,name=x12" thrift:"32"`
	X13  int64              `json:"x13,omitempty" protobuf:"varint,33,opt,name=x13" thrift:"33"`
	X14  int64              `json:"x14,omitempty" protobuf:"varint,34,opt,name=x14" thrift:"34"`
	X15  int64              `json:"x15,omitempty" protobuf:"varint,35,opt,name=x15" thrift:"35"`
	X16  int64              `json:"x16,omitempty" protobuf:"varint,36,opt,name=x16" thrift:"36"`
	X17  int64              `json:"x17,omitempty" protobuf:"varint,37,opt,name=x17" thrift:"37"`
	X18  int64              `json:"x18,omitempty" protobuf:"varint,38,opt,name=x18" thrift:"38"`
	X19  int64              `json:"x19,omitempty" protobuf:"varint,39,opt,name=x19" thrift:"39"`
	X20  int64              `json:"x20,omitempty" protobuf:"varint,40,opt,name=x20" thrift:"40"`
	X21  int64              `json:"x21,omitempty" protobuf:"varint,41,opt,name=x21" thrift:"41"`
	X22  int64              `json:"x22,omitempty" protobuf:"varint,42,opt,name=x22" thrift:"42"`
	X23  int64              `json:"x23,omitempty" protobuf:"varint,43,opt,name=x23" thrift:"43"`
}

type Peer193 struct {
	Back *Rec193   `json:"back,omitempty" protobuf:"bytes,1,opt,name=back" thrift:"1"`
	List []*Rec193 `json:"list,omitempty" protobuf:"bytes,2,rep,name=list" thrift:"2"`
	B    bool      `json:"b" protobuf:"varint,3,opt,name=b" thrift:"3"`
}

type Rec194 struct {
	M    map[string]Peer194 `json:"m,omitempty" protobuf:"bytes,6,rep,name=m" protobuf_key:"bytes,1,opt,name=key" protobuf_val:"bytes,2,opt,name=value" thrift:"6"`
	V    int64              `json:"v" protobuf:"varint,1,opt,name=v" thrift:"1"`
	Next *Rec194            `json:"next,omitempty" protobuf:"bytes,2,opt,name=next" thrift:"2"`
	Kids []Rec194           `json:"kids,omitempty" protobuf:"bytes,3,rep,name=kids" thrift:"3"`
	Peer *Peer194           `json:"peer,omitempty" protobuf:"bytes,4,opt,name=peer" thrift:"4"`
	S    string             `json:"s,omitempty" protobuf:"bytes,5,opt,name=s" thrift:"5"`
	X00  int64              `json:"x0,omitempty" protobuf:"varint,20,opt,name=x0" thrift:"20"`
	X01  int64              `json:"x1,omitempty" protobuf:"varint,21,opt,name=x1" thrift:"21"`
	X02  int64              `json:"x2,omitempty" protobuf:"varint,22,opt,name=x2" thrift:"22"`
	X03  int64              `json:"x3,omitempty" protobuf:"varint,23,opt,name=x3" thrift:"23"`
	X04  int64              `json:"x4,omitempty" protobuf:"varint,24,opt,name=x4" thrift:"24"`
	X05  int64              `json:"x5,omitempty" protobuf:"varint,25,opt,name=x5" thrift:"25"`
	X06  int64              `json:"x6,omitempty" protobuf:"varint,26,opt,name=x6" thrift:"26"`
	X07  int64              `json:"x7,omitempty" protobuf:"varint,27,opt,name=x7" thrift:"27"`
	X08  int64              `json:"x8,omitempty" protobuf:"varint,28,opt,name=x8" thrift:"28"`
	X09  int64              `json:"x9,omitempty" protobuf:"varint,29,opt,name=x9" thrift:"29"`
	X10  int64              `json:"x10,omitempty" protobuf:"varint,30,opt,name=x10" thrift:"30"`
	X11  int64              `json:"x11,omitempty" protobuf:"varint,31,opt,name=x11" thrift:"31"`
	X12  int64              `json:"x12,omitempty" protobuf:"varint,32,opt,name=x12" thrift:"32"`
	X13  int64              `json:"x13,omitempty" protobuf:"varint,33,opt,name=x13" thrift:"33"`
	X14  int64              `json:"x14,omitempty" protobuf:"varint,34,opt,name=x14" thrift:"34"`
	X15  int64              `json:"x15,omitempty" protobuf:"varint,35,opt,name=x15" thrift:"35"`
	X16  int64              `json:"x16,omitempty" protobuf:"varint,36,opt,name=x16" thrift:"36"`
	X17  int64              `json:"x17,omitempty" protobuf:"varint,37,opt,name=x17" thrift:"37"`
	X18  int64              `json:"x18,omitempty" protobuf:"varint,38,opt,name=x18" thrift:"38"`
	X19  int64              `json:"x19,omitempty" protobuf:"varint,39,opt,name=x19" thrift:"39"`
	X20  int64              `json:"x20,omitempty" protobuf:"varint,40,opt,name=x20" thrift:"40"`
	X21  int64              `json:"x21,omitempty" protobuf:"varint,41,opt,name=x21" thrift:"41"`
	X22  int64              `json:"x22,omitempty" protobuf:"varint,42,opt,name=x22" thrift:"42"`
	X23  int64              `json:"x23,omitempty" protobuf:"varint,43,opt,name=x23" thrift:"43"`
}

type Peer194 struct {
	Back *Rec194   `json:"back,omitempty" protobuf:"bytes,1,opt,name=back" thrift:"1"`
	List []*Rec194 `json:"list,omitempty" protobuf:"bytes,2,rep,name=list" thrift:"2"`
	B    bool      `json:"b" protobuf:"varint,3,opt,name=b" thrift:"3"`
}

type Rec195 struct {
	M    map[string]Peer195 `json:"m,omitempty" protobuf:"bytes,6,rep,name=m" protobuf_key:"bytes,1,opt,name=key" protobuf_val:"bytes,2,opt,name=value" thrift:"6"`
	V    int64              `json:"v" protobuf:"varint,1,opt,name=v" thrift:"1"`
	Next *Rec195            `json:"next,omitempty" protobuf:"bytes,2,opt,name=next" thrift:"2"`
	Kids []Rec195           `json:"kids,omitempty" protobuf:"bytes,3,rep,name=kids" thrift:"3"`
	Peer *Peer195           `json:"peer,omitempty" protobuf:"bytes,4,opt,name=peer" thrift:"4"`
	S    string             `json:"s,omitempty" protobuf:"bytes,5,opt,name=s" thrift:"5"`
	X00  int64              `json:"x0,omitempty" protobuf:"varint,20,opt,name=x0" thrift:"20"`
	X01  int64              `json:"x1,omitempty" protobuf:"varint,21,opt,name=x1" thrift:"21"`
	X02  int64              `json:"x2,omitempty" protobuf:"varint,22,opt,name=x2" thrift:"22"`
	X03  int64              `json:"x3,omitempty" protobuf:"varint,23,opt,name=x3" thrift:"23"`
	X04  int64              `json:"x4,omitempty" protobuf:"varint,24,opt,name=x4" thrift:"24"`
	X05  int64              `json:"x5,omitempty" protobuf:"varint,25,opt,name=x5" thrift:"25"`
	X06  int64              `json:"x6,omitempty" protobuf:"varint,26,opt,name=x6" thrift:"26"`
	X07  int64              `json:"x7,omitempty" protobuf:"varint,27,opt,name=x7" thrift:"27"`
	X08  int64              `json:"x8,omitempty" protobuf:"varint,28,opt,name=x8" thrift:"28"`
	X09  int64              `json:"x9,omitempty" protobuf:"varint,29,opt,name=x9" thrift:"29"`
	X10  int64              `json:"x10,omitempty" protobuf:"varint,30,opt,name=x10" thrift:"30"`
	X11  int64              `json:"x11,omitempty" protobuf:"varint,31,opt,name=x11" thrift:"31"`
	X12  int64              `json:"x12,omitempty" protobuf:"varint,32,opt,name=x12" thrift:"32"`
	X13  int64              `json:"x13,omitempty" protobuf:"varint,33,opt,name=x13" thrift:"33"`
	X14  int64              `json:"x14,omitempty" protobuf:"varint,34,opt,name=x14" thrift:"34"`
	X15  int64              `json:"x15,omitempty" protobuf:"varint,35,opt,name=x15" thrift:"35"`
	X16  int64              `json:"x16,omitempty" protobuf:"varint,36,opt,name=x16" thrift:"36"`
	X17  int64              `json:"x17,omitempty" protobuf:"varint,37,opt,name=x17" thrift:"37"`
	X18  int64              `json:"x18,omitempty" protobuf:"varint,38,opt,name=x18" thrift:"38"`
	X19  int64              `json:"x19,omitempty" protobuf:"varint,39,opt,name=x19" thrift:"39"`
	X20  int64              `json:"x20,omitempty" protobuf:"varint,40,opt,name=x20" thrift:"40"`
	X21  int64              `json:"x21,omitempty" protobuf:"varint,41,opt,name=x21" thrift:"41"`
	X22  int64              `json:"x22,omitempty" protobuf:"varint,42,opt,name=x22" thrift:"42"`
	X23  int64              `json:"x23,omitempty" protobuf:"varint,43,opt,name=x23" thrift:"43"`
}

type Peer195 struct {
	Back *Rec195   `json:"back,omitempty" protobuf:"bytes,1,opt,name=back" thrift:"1"`
	List []*Rec195 `json:"list,omitempty" protobuf:"bytes,2,rep,name=list" thrift:"2"`
	B    bool      `json:"b" protobuf:"varint,3,opt,name=b" thrift:"3"`
}

type Rec196 struct {
	M    map[string]Peer196 `json:"m,omitempty" protobuf:"bytes,6,rep,name=m" protobuf_key:"bytes,1,opt,name=key" protobuf_val:"bytes,2,opt,name=value" thrift:"6"`
	V    int64              `json:"v" protobuf:"varint,1,opt,name=v" thrift:"1"`
	Next *Rec196            `json:"next,omitempty" protobuf:"bytes,2,opt,name=next" thrift:"2"`
	Kids []Rec196           `json:"kids,omitempty" protobuf:"bytes,3,rep,name=kids" thrift:"3"`
	Peer *Peer196           `json:"peer,omitempty" protobuf:"bytes,4,opt,name=peer" thrift:"4"`
	S    string             `json:"s,omitempty" protobuf:"bytes,5,opt,name=s" thrift:"5"`
	X00  int64              `json:"x0,omitempty" protobuf:"varint,20,opt,name=x0" thrift:"20"`
	X01  int64              `json:"x1,omitempty" protobuf:"varint,21,opt,name=x1" thrift:"21"`
	X02  int64              `json:"x2,omitempty" protobuf:"varint,22,opt,name=x2" thrift:"22"`
	X03  int64              `json:"x3,omitempty" protobuf:"varint,23,opt,name=x3" thrift:"23"`
	X04  int64              `json:"x4,omitempty" protobuf:"varint,24,opt,name=x4" thrift:"24"`
	X05  int64              `json:"x5,omitempty" protobuf:"varint,25,opt,name=x5" thrift:"25"`
	X06  int64              `json:"x6,omitempty" protobuf:"varint,26,opt,name=x6" thrift:"26"`
	X07  int64              `json:"x7,omitempty" protobuf:"varint,27,opt,name=x7" thrift:"27"`
	X08  int64              `json:"x8,omitempty" protobuf:"varint,28,opt,name=x8" thrift:"28"`
	X09  int64              `json:"x9,omitempty" protobuf:"varint,29,opt,name=x9" thrift:"29"`
	X10  int64              `json:"x10,omitempty" protobuf:"varint,30,opt,name=x10" thrift:"30"`
	X11  int64              `json:"x11,omitempty" protobuf:"varint,31,opt,name=x11" thrift:"31"`
	X12  int64              `json:"x12,omitempty" protobuf:"varint,32,opt,name=x12" thrift:"32"`
	X13  int64              `json:"x13,omitempty" protobuf:"varint,33,opt,name=x13" thrift:"33"`
	X14  int64              `json:"x14,omitempty" protobuf:"varint,34,opt,name=x14" thrift:"34"`
	X15  int64              `json:"x15,omitempty" protobuf:"varint,35,opt,name=x15" thrift:"35"`
	X16  int64              `json:"x16,omitempty" protobuf:"varint,36,opt,name=x16" thrift:"36"`
	X17  int64              `json:"x17,omitempty" protobuf:"varint,37,opt,name=x17" thrift:"37"`
	X18  int64              `json:"x18,omitempty" protobuf:"varint,38,opt,name=x18" thrift:"38"`
	X19  int64              `json:"x19,omitempty" protobuf:"varint,39,opt,name=x19" thrift:"39"`
	X20  int64              `json:"x20,omitempty" protobuf:"varint,40,opt,name=x20" thrift:"40"`
	X21  int64              `json:"x21,omitempty" protobuf:"varint,41,opt,name=x21" thrift:"41"`
	X22  int64              `json:"x22,omitempty" protobuf:"varint,42,opt,name=x22" thrift:"42"`
	X23  int64              `json:"x23,omitempty" protobuf:"varint,43,opt,name=x23" thrift:"43"`
}

type Peer196 struct {
	Back *Rec196   `json:"back,omitempty" protobuf:"bytes,1,opt,name=back" thrift:"1"`
	List []*Rec196 `json:"list,omitempty" protobuf:"bytes,2,rep,name=list" thrift:"2"`
	B    bool      `json:"b" protobuf:"varint,3,opt,name=b" thrift:"3"`
}

type Rec197 struct {
	M    map[string]Peer197 `json:"m,omitempty" protobuf:"bytes,6,rep,name=m" protobuf_key:"bytes,1,opt,name=key" protobuf_val:"bytes,2,opt,name=value" thrift:"6"`
	V    int64              `json:"v" protobuf:"varint,1,opt,name=v" thrift:"1"`
	Next *Rec197            `json:"next,omitempty" protobuf:"bytes,2,opt,name=next" thrift:"2"`
	Kids []Rec197           `json:"kids,omitempty" protobuf:"bytes,3,rep,name=kids" thrift:"3"`
	Peer *Peer197           `json:"peer,omitempty" protobuf:"bytes,4,opt,name=peer" thrift:"4"`
	S    string             `json:"s,omitempty" protobuf:"bytes,5,opt,name=s" thrift:"5"`
	X00  int64              `json:"x0,omitempty" protobuf:"varint,20,opt,name=x0" thrift:"20"`
	X01  int64              `json:"x1,omitempty" protobuf:"varint,21,opt,name=x1" thrift:"21"`
	X02  int64              `json:"x2,omitempty" protobuf:"varint,22,opt,name=x2" thrift:"22"`
	X03  int64              `json:"x3,omitempty" protobuf:"varint,23,opt,name=x3" thrift:"23"`
	X04  int64              `json:"x4,omitempty" protobuf:"varint,24,opt,name=x4" thrift:"24"`
	X05  int64              `json:"x5,omitempty" protobuf:"varint,25,opt,name=x5" thrift:"25"`
	X06  int64              `json:"x6,omitempty" protobuf:"varint,26,opt,name=x6" thrift:"26"`
	X07  int64              `json:"x7,omitempty" protobuf:"varint,27,opt,name=x7" thrift:"27"`
	X08  int64              `json:"x8,omitempty" protobuf:"varint,28,opt,name=x8" thrift:"28"`
	X09  int64              `json:"x9,omitempty" protobuf:"varint,29,opt,name=x9" thrift:"29"`
	X10  int64              `json:"x10,omitempty" protobuf:"varint,30,opt,name=x10" thrift:"30"`
	X11  int64              `json:"x11,omitempty" protobuf:"varint,31,opt,name=x11" thrift:"31"`
	X12  int64              `json:"x12,omitempty" protobuf:"varint,32,opt,name=x12" thrift:"32"`
	X13  int64              `json:"x13,omitempty" protobuf:"varint,33,opt,name=x13" thrift:"33"`
	X14  int64              `json:"x14,omitempty" protobuf:"varint,34,opt,name=x14" thrift:"34"`
	X15  int64              `json:"x15,omitempty" protobuf:"varint,35,opt,name=x15" thrift:"35"`
	X16  int64              `json:"x16,omitempty" protobuf:"varint,36,opt,name=x16" thrift:"36"`
	X17  int64              `json:"x17,omitempty" protobuf:"varint,37,opt,name=x17" thrift:"37"`
	X18  int64              `json:"x18,omitempty" protobuf:"varint,38,opt,name=x18" thrift:"38"`
	X19  int64              `json:"x19,omitempty" protobuf:"varint,39,opt,name=x19" thrift:"39"`
	X20  int64              `json:"x20,omitempty" protobuf:"varint,40,opt,name=x20" thrift:"40"`
	X21  int64              `json:"x21,omitempty" protobuf:"varint,41,opt,name=x21" thrift:"41"`
	X22  int64              `json:"x22,omitempty" protobuf:"varint,42,opt,name=x22" thrift:"42"`
	X23  int64              `json:"x23,omitempty" protobuf:"varint,43,opt,name=x23" thrift:"43"`
}

type Peer197 struct {
	Back *Rec197   `json:"back,omitempty" protobuf:"bytes,1,opt,name=back" thrift:"1"`
	List []*Rec197 `json:"list,omitempty" protobuf:"bytes,2,rep,name=list" thrift:"2"`
	B    bool      `json:"b" protobuf:"varint,3,opt,name=b" thrift:"3"`
}

type Rec198 struct {
	M    map[string]Peer198 `json:"m,omitempty" protobuf:"bytes,6,rep,name=m" protobuf_key:"bytes,1,opt,name=key" protobuf_val:"bytes,2,opt,name=value" thrift:"6"`
	V    int64              `json:"v" protobuf:"varint,1,opt,name=v" thrift:"1"`
	Next *Rec198            `json:"next,omitempty" protobuf:"bytes,2,opt,name=next" thrift:"2"`
	Kids []Rec198           `json:"kids,omitempty" protobuf:"bytes,3,rep,name=kids" thrift:"3"`
	Peer *Peer198           `json:"peer,omitempty" protobuf:"bytes,4,opt,name=peer" thrift:"4"`
	S    string             `json:"s,omitempty" protobuf:"bytes,5,opt,name=s" thrift:"5"`
	X00  int64              `json:"x0,omitempty" protobuf:"varint,20,opt,name=x0" thrift:"20"`
	X01  int64              `json:"x1,omitempty" protobuf:"varint,21,opt,name=x1" thrift:"21"`
	X02  int64              `json:"x2,omitempty" protobuf:"varint,22,opt,name=x2" thrift:"22"`
	X03  int64              `json:"x3,omitempty" protobuf:"varint,23,opt,name=x3" thrift:"23"`
	X04  int64              `json:"x4,omitempty" protobuf:"varint,24,opt,name=x4" thrift:"24"`
	X05  int64              `json:"x5,omitempty" protobuf:"varint,25,opt,name=x5" thrift:"25"`
	X06  int64              `json:"x6,omitempty" protobuf:"varint,26,opt,name=x6" thrift:"26"`
	X07  int64              `json:"x7,omitempty" protobuf:"varint,27,opt,name=x7" thrift:"27"`
	X08  int64              `json:"x8,omitempty" protobuf:"varint,28,opt,name=x8" thrift:"28"`
	X09  int64              `json:"x9,omitempty" protobuf:"varint,29,opt,name=x9" thrift:"29"`
	X10  int64              `json:"x10,omitempty" protobuf:"varint,30,opt,name=x10" thrift:"30"`
	X11  int64              `json:"x11,omitempty" protobuf:"varint,31,opt,name=x11" thrift:"31"`
	X12  int64              `json:"x12,omitempty" protobuf:"varint,32,opt,name=x12" thrift:"32"`
	X13  int64              `json:"x13,omitempty" protobuf:"varint,33,opt,name=x13" thrift:"33"`
	X14  int64              `json:"x14,omitempty" protobuf:"varint,34,opt,name=x14" thrift:"34"`
	X15  int64              `json:"x15,omitempty" protobuf:"varint,35,opt,name=x15" thrift:"35"`
	X16  int64              `json:"x16,omitempty" protobuf:"varint,36,opt,name=x16" thrift:"36"`
	X17  int64              `json:"x17,omitempty" protobuf:"varint,37,opt,name=x17" thrift:"37"`
	X18  int64              `json:"x18,omitempty" protobuf:"varint,38,opt,name=x18" thrift:"38"`
	X19  int64              `json:"x19,omitempty" protobuf:"varint,39,opt,name=x19" thrift:"39"`
	X20  int64              `json:"x20,omitempty" protobuf:"varint,40,opt,name=x20" thrift:"40"`
	X21  int64              `json:"x21,omitempty" protobuf:"varint,41,opt,name=x21" thrift:"41"`
	X22  int64              `json:"x22,omitempty" protobuf:"varint,42,opt,name=x22" thrift:"42"`
	X23  int64              `json:"x23,omitempty" protobuf:"varint,43,opt,name=x23" thrift:"43"`
}

type Peer198 struct {
	Back *Rec198   `json:"back,omitempty" protobuf:"bytes,1,opt,name=back" thrift:"1"`
	List []*Rec198 `json:"list,omitempty" protobuf:"bytes,2,rep,name=list" thrift:"2"`
	B    bool      `json:"b" protobuf:"varint,3,opt,name=b" thrift:"3"`
}

type Rec199 struct {
	M    map[string]Peer199 `json:"m,omitempty" protobuf:"bytes,6,rep,name=m" protobuf_key:"bytes,1,opt,name=key" protobuf_val:"bytes,2,opt,name=value" thrift:"6"`
	V    int64              `json:"v" protobuf:"varint,1,opt,name=v" thrift:"1"`
	Next *Rec199            `json:"next,omitempty" protobuf:"bytes,2,opt,name=next" thrift:"2"`
	Kids []Rec199           `json:"kids,omitempty" protobuf:"bytes,3,rep,name=kids" thrift:"3"`
	Peer *Peer199           `json:"peer,omitempty" protobuf:"bytes,4,opt,name=peer" thrift:"4"`
	S    string             `json:"s,omitempty" protobuf:"bytes,5,opt,name=s" thrift:"5"`
	X00  int64              `json:"x0,omitempty" protobuf:"varint,20,opt,name=x0" thrift:"20"`
	X01  int64              `json:"x1,omitempty" protobuf:"varint,21,opt,name=x1" thrift:"21"`
	X02  int64              `json:"x2,omitempty" protobuf:"varint,22,opt,name=x2" thrift:"22"`
	X03  int64              `json:"x3,omitempty" protobuf:"varint,23,opt,name=x3" thrift:"23"`
	X04  int64              `json:"x4,omitempty" protobuf:"varint,24,opt,name=x4" thrift:"24"`
	X05  int64              `json:"x5,omitempty" protobuf:"varint,25,opt,name=x5" thrift:"25"`
	X06  int64              `json:"x6,omitempty" protobuf:"varint,26,opt,name=x6" thrift:"26"`
	X07  int64              `json:"x7,omitempty" protobuf:"varint,27,opt,name=x7" thrift:"27"`
	X08  int64              `json:"x8,omitempty" protobuf:"varint,28,opt,name=x8" thrift:"28"`
	X09  int64              `json:"x9,omitempty" protobuf:"varint,29,opt,name=x9" thrift:"29"`
	X10  int64              `json:"x10,omitempty" protobuf:"varint,30,opt,name=x10" thrift:"30"`
	X11  int64              `json:"x11,omitempty" protobuf:"varint,31,opt,name=x11" thrift:"31"`
	X12  int64              `json:"x12,omitempty" protobuf:"varint,32,opt,name=x12" thrift:"32"`
	X13  int64              `json:"x13,omitempty" protobuf:"varint,33,opt,name=x13" thrift:"33"`
	X14  int64              `json:"x14,omitempty" protobuf:"varint,34,opt,name=x14" thrift:"34"`
	X15  int64              `json:"x15,omitempty" protobuf:"varint,35,opt,name=x15" thrift:"35"`
	X16  int64              `json:"x16,omitempty" protobuf:"varint,36,opt,name=x16" thrift:"36"`
	X17  int64              `json:"x17,omitempty" protobuf:"varint,37,opt,name=x17" thrift:"37"`
	X18  int64              `json:"x18,omitempty" protobuf:"varint,38,opt,name=x18" thrift:"38"`
	X19  int64              `json:"x19,omitempty" protobuf:"varint,39,opt,name=x19" thrift:"39"`
	X20  int64              `json:"x20,omitempty" protobuf:"varint,40,opt,name=x20" thrift:"40"`
	X21  int64              `json:"x21,omitempty" protobuf:"varint,41,opt,name=x21" thrift:"41"`
	X22  int64              `json:"x22,omitempty" protobuf:"varint,42,opt,name=x22" thrift:"42"`
	X23  int64              `json:"x23,omitempty" protobuf:"varint,43,opt,name=x23" thrift:"43"`
}

type Peer199 struct {
	Back *Rec199   `json:"back,omitempty" protobuf:"bytes,1,opt,name=back" thrift:"1"`
	List []*Rec199 `json:"list,omitempty" protobuf:"bytes,2,rep,name=list" thrift:"2"`
	B    bool      `json:"b" protobuf:"varint,3,opt,name=b" thrift:"3"`
}

type Rec200 struct {
	M    map[string]Peer200 `json:"m,omitempty" protobuf:"bytes,6,rep,name=m" protobuf_key:"bytes,1,opt,name=key" protobuf_val:"bytes,2,opt,name=value" thrift:"6"`
	V    int64              `json:"v" protobuf:"varint,1,opt,name=v" thrift:"1"`
	Next *Rec200            `json:"next,omitempty" protobuf:"bytes,2,opt,name=next" thrift:"2"`
	Kids []Rec200           `json:"kids,omitempty" protobuf:"bytes,3,rep,name=kids" thrift:"3"`
	Peer *Peer200           `json:"peer,omitempty" protobuf:"bytes,4,opt,name=peer" thrift:"4"`
	S    string             `json:"s,omitempty" protobuf:"bytes,5,opt,name=s" thrift:"5"`
	X00  int64              `json:"x0,omitempty" protobuf:"varint,20,opt,name=x0" thrift:"20"`
	X01  int64              `json:"x1,omitempty" protobuf:"varint,21,opt,name=x1" thrift:"21"`
	X02  int64              `json:"x2,omitempty" protobuf:"varint,22,opt,name=x2" thrift:"22"`
	X03  int64              `json:"x3,omitempty" protobuf:"varint,23,opt,name=x3" thrift:"23"`
	X04  int64              `json:"x4,omitempty" protobuf:"varint,24,opt,name=x4" thrift:"24"`
	X05  int64              `json:"x5,omitempty" protobuf:"varint,25,opt,name=x5" thrift:"25"`
	X06  int64              `json:"x6,omitempty" protobuf:"varint,26,opt,name=x6" thrift:"26"`
	X07  int64              `json:"x7,omitempty" protobuf:"varint,27,opt,name=x7" thrift:"27"`
	X08  int64              `json:"x8,omitempty" protobuf:"varint,28,opt,name=x8" thrift:"28"`
	X09  int64              `json:"x9,omitempty" protobuf:"varint,29,opt,name=x9" thrift:"29"`
	X10  int64              `json:"x10,omitempty" protobuf:"varint,30,opt,name=x10" thrift:"30"`
	X11  int64              `json:"x11,omitempty" protobuf:"varint,31,opt,name=x11" thrift:"31"`
	X12  int64              `json:"x12,omitempty" protobuf:"varint,32,opt,name=x12" thrift:"32"`
	X13  int64              `json:"x13,omitempty" protobuf:"varint,33,opt,name=x13" thrift:"33"`
	X14  int64              `json:"x14,omitempty" protobuf:"varint,34,opt,name=x14" thrift:"34"`
	X15  int64              `json:"x15,omitempty" protobuf:"varint,35,opt,name=x15" thrift:"35"`
	X16  int64              `json:"x16,omitempty" protobuf:"varint,36,opt,name=x16" thrift:"36"`
	X17  int64              `json:"x17,omitempty" protobuf:"varint,37,opt,name=x17" thrift:"37"`
	X18  int64              `json:"x18,omitempty" protobuf:"varint,38,opt,name=x18" thrift:"38"`
	X19  int64              `json:"x19,omitempty" protobuf:"varint,39,opt,name=x19" thrift:"39"`
	X20  int64              `json:"x20,omitempty" protobuf:"varint,40,opt,name=x20" thrift:"40"`
	X21  int64              `json:"x21,omitempty" protobuf:"varint,41,opt,name=x21" thrift:"41"`
	X22  int64              `json:"x22,omitempty" protobuf:"varint,42,opt,name=x22" thrift:"42"`
	X23  int64              `json:"x23,omitempty" protobuf:"varint,43,opt,name=x23" thrift:"43"`
}

type Peer200 struct {
	Back *Rec200   `json:"back,omitempty" protobuf:"bytes,1,opt,name=back" thrift:"1"`
	List []*Rec200 `json:"list,omitempty" protobuf:"bytes,2,rep,name=list" thrift:"2"`
	B    bool      `json:"b" protobuf:"varint,3,opt,name=b" thrift:"3"`
}

type Rec201 struct {
	M    map[string]Peer201 `json:"m,omitempty" protobuf:"bytes,6,rep,name=m" protobuf_key:"bytes,1,opt,name=key" protobuf_val:"bytes,2,opt,name=value" thrift:"6"`
	V    int64              `json:"v" protobuf:"varint,1,opt,name=v" thrift:"1"`
	Next *Rec201            `json:"next,omitempty" protobuf:"bytes,2,opt,name=next" thrift:"2"`
	Kids []Rec201           `json:"kids,omitempty" protobuf:"bytes,3,rep,name=kids" thrift:"3"`
	Peer *Peer201           `json:"peer,omitempty" protobuf:"bytes,4,opt,name=peer" thrift:"4"`
	S    string             `json:"s,omitempty" protobuf:"bytes,5,opt,name=s" thrift:"5"`
	X00  int64              `json:"x0,omitempty" protobuf:"varint,20,opt,name=x0" thrift:"20"`
	X01  int64              `json:"x1,omitempty" protobuf:"varint,21,opt,name=x1" thrift:"21"`
	X02  int64              `json:"x2,omitempty" protobuf:"varint,22,opt,name=x2" thrift:"22"`
	X03  int64              `json:"x3,omitempty" protobuf:"varint,23,opt,name=x3" thrift:"23"`
	X04  int64              `json:"x4,omitempty" protobuf:"varint,24,opt,name=x4" thrift:"24"`
	X05  int64              `json:"x5,omitempty" protobuf:"varint,25,opt,name=x5" thrift:"25"`
	X06  int64              `json:"x6,omitempty" protobuf:"varint,26,opt,name=x6" thrift:"26"`
	X07  int64              `json:"x7,omitempty" protobuf:"varint,27,opt,name=x7" thrift:"27"`
	X08  int64              `json:"x8,omitempty" protobuf:"varint,28,opt,name=x8" thrift:"28"`
	X09  int64              `json:"x9,omitempty" protobuf:"varint,29,opt,name=x9" thrift:"29"`
	X10  int64              `json:"x10,omitempty" protobuf:"varint,30,opt,name=x10" thrift:"30"`
	X11  int64              `json:"x11,omitempty" protobuf:"varint,31,opt,name=x11" thrift:"31"`
	X12  int64              `json:"x12,omitempty" protobuf:"varint,32,opt,name=x12" thrift:"32"`
	X13  int64              `json:"x13,omitempty" protobuf:"varint,33,opt,name=x13" thrift:"33"`
	X14  int64              `json:"x14,omitempty" protobuf:"varint,34,opt,name=x14" thrift:"34"`
	X15  int64              `json:"x15,omitempty" protobuf:"varint,35,opt,name=x15" thrift:"35"`
	X16  int64              `json:"x16,omitempty" protobuf:"varint,36,opt,name=x16" thrift:"36"`
	X17  int64              `json:"x17,omitempty" protobuf:"varint,37,opt,name=x17" thrift:"37"`
	X18  int64              `json:"x18,omitempty" protobuf:"varint,38,opt,name=x18" thrift:"38"`
	X19  int64              `json:"x19,omitempty" protobuf:"varint,39,opt,name=x19" thrift:"39"`
	X20  int64              `json:"x20,omitempty" protobuf:"varint,40,opt,name=x20" thrift:"40"`
	X21  int64              `json:"x21,omitempty" protobuf:"varint,41,opt,name=x21" thrift:"41"`
	X22  int64              `json:"x22,omitempty" protobuf:"varint,42,opt,name=x22" thrift:"42"`
	X23  int64              `json:"x23,omitempty" protobuf:"varint,43,opt,name=x23" thrift:"43"`
}

type Peer201 struct {
	Back *Rec201   `json:"back,omitempty" protobuf:"bytes,1,opt,name=back" thrift:"1"`
	List []*Rec201 `json:"list,omitempty" protobuf:"bytes,2,rep,name=list" thrift:"2"`
	B    bool      `json:"b" protobuf:"varint,3,opt,name=b" thrift:"3"`
}

type Rec202 struct {
	M    map[string]Peer202 `json:"m,omitempty" protobuf:"bytes,6,rep,name=m" protobuf_key:"bytes,1,opt,name=key" protobuf_val:"bytes,2,opt,name=value" thrift:"6"`
	V    int64              `json:"v" protobuf:"varint,1,opt,name=v" thrift:"1"`
	Next *Rec202            `json:"next,omitempty" protobuf:"bytes,2,opt,name=next" thrift:"2"`
	Kids []Rec202           `json:"kids,omitempty" protobuf:"bytes,3,rep,name=kids" thrift:"3"`
	Peer *Peer202           `json:"peer,omitempty" protobuf:"bytes,4,opt,name=peer" thrift:"4"`
	S    string             `json:"s,omitempty" protobuf:"bytes,5,opt,name=s" thrift:"5"`
	X00  int64              `json:"x0,omitempty" protobuf:"varint,20,opt,name=x0" thrift:"20"`
	X01  int64              `json:"x1,omitempty" protobuf:"varint,21,opt,name=x1" thrift:"21"`
	X02  int64              `json:"x2,omitempty" protobuf:"varint,22,opt,name=x2" thrift:"22"`
	X03  int64              `json:"x3,omitempty" protobuf:"varint,23,opt,name=x3" thrift:"23"`
	X04  int64              `json:"x4,omitempty" protobuf:"varint,24,opt,name=x4" thrift:"24"`
	X05  int64              `json:"x5,omitempty" protobuf:"varint,25,opt,name=x5" thrift:"25"`
	X06  int64              `json:"x6,omitempty" protobuf:"varint,26,opt,name=x6" thrift:"26"`
	X07  int64              `json:"x7,omitempty" protobuf:"varint,27,opt,name=x7" thrift:"27"`
	X08  int64              `json:"x8,omitempty" protobuf:"varint,28,opt,name=x8" thrift:"28"`
	X09  int64              `json:"x9,omitempty" protobuf:"varint,29,opt,name=x9" thrift:"29"`
	X10  int64              `json:"x10,omitempty" protobuf:"varint,30,opt,name=x10" thrift:"30"`
	X11  int64              `json:"x11,omitempty" protobuf:"varint,31,opt,name=x11" thrift:"31"`
	X12  int64              `json:"x12,omitempty" protobuf:"varint,32,opt,name=x12" thrift:"32"`
	X13  int64              `json:"x13,omitempty" protobuf:"varint,33,opt,name=x13" thrift:"33"`
	X14  int64              `json:"x14,omitempty" protobuf:"varint,34,opt,name=x14" thrift:"34"`
	X15  int64              `json:"x15,omitempty" protobuf:"varint,35,opt,name=x15" thrift:"35"`
	X16  int64              `json:"x16,omitempty" protobuf:"varint,36,opt,name=x16" thrift:"36"`
	X17  int64              `json:"x17,omitempty" protobuf:"varint,37,opt,name=x17" thrift:"37"`
	X18  int64              `json:"x18,omitempty" protobuf:"varint,38,opt,name=x18" thrift:"38"`
	X19  int64              `json:"x19,omitempty" protobuf:"varint,39,opt,name=x19" thrift:"39"`
	X20  int64              `json:"x20,omitempty" protobuf:"varint,40,opt,name=x20" thrift:"40"`
	X21  int64              `json:"x21,omitempty" protobuf:"varint,41,opt,name=x21" thrift:"41"`
	X22  int64              `json:"x22,omitempty" protobuf:"varint,42,opt,name=x22" thrift:"42"`
	X23  int64              `json:"x23,omitempty" protobuf:"varint,43,opt,name=x23" thrift:"43"`
}

type Peer202 struct {
	Back *Rec202   `json:"back,omitempty" protobuf:"bytes,1,opt,name=back" thrift:"1"`
	List []*Rec202 `json:"list,omitempty" protobuf:"bytes,2,rep,name=list" thrift:"2"`
	B    bool      `json:"b" protobuf:"varint,3,opt,name=b" thrift:"3"`
}

type Rec203 struct {
	M    map[string]Peer203 `json:"m,omitempty" protobuf:"bytes,6,rep,name=m" protobuf_key:"bytes,1,opt,name=key" protobuf_val:"bytes,2,opt,name=value" thrift:"6"`
	V    int64              `json:"v" protobuf:"varint,1,opt,name=v" thrift:"1"`
	Next *Rec203            `json:"next,omitempty" protobuf:"bytes,2,opt,name=next" thrift:"2"`
	Kids []Rec203           `json:"kids,omitempty" protobuf:"bytes,3,rep,name=kids" thrift:"3"`
	Peer *Peer203           `json:"peer,omitempty" protobuf:"bytes,4,opt,name=peer" thrift:"4"`
	S    string             `json:"s,omitempty" protobuf:"bytes,5,opt,name=s" thrift:"5"`
	X00  int64              `json:"x0,omitempty" protobuf:"varint,20,opt,name=x0" thrift:"20"`
	X01  int64              `json:"x1,omitempty" protobuf:"varint,21,opt,name=x1" thrift:"21"`
	X02  int64              `json:"x2,omitempty" protobuf:"varint,22,opt,name=x2" thrift:"22"`
	X03  int64              `json:"x3,omitempty" protobuf:"varint,23,opt,name=x3" thrift:"23"`
	X04  int64              `json:"x4,omitempty" protobuf:"varint,24,opt,name=x4" thrift:"24"`
	X05  int64              `json:"x5,omitempty" protobuf:"varint,25,opt,name=x5" thrift:"25"`
	X06  int64              `json:"x6,omitempty" protobuf:"varint,26,opt,name=x6" thrift:"26"`
	X07  int64              `json:"x7,omitempty" protobuf:"varint,27,opt,name=x7" thrift:"27"`
	X08  int64              `json:"x8,omitempty" protobuf:"varint,28,opt,name=x8" thrift:"28"`
	X09  int64              `json:"x9,omitempty" protobuf:"varint,29,opt,name=x9" thrift:"29"`
	X10  int64              `json:"x10,omitempty" protobuf:"varint,30,opt,name=x10" thrift:"30"`
	X11  int64              `json:"x11,omitempty" protobuf:"varint,31,opt,name=x11" thrift:"31"`
	X12  int64              `json:"x12,omitempty" protobuf:"varint,32,opt,name=x12" thrift:"32"`
	X13  int64              `json:"x13,omitempty" protobuf:"varint,33,opt,name=x13" thrift:"33"`
	X14  int64              `json:"x14,omitempty" protobuf:"varint,34,opt,name=x14" thrift:"34"`
	X15  int64              `json:"x15,omitempty" protobuf:"varint,35,opt,name=x15" thrift:"35"`
	X16  int64              `json:"x16,omitempty" protobuf:"varint,36,opt,name=x16" thrift:"36"`
	X17  int64              `json:"x17,omitempty" protobuf:"varint,37,opt,name=x17" thrift:"37"`
	X18  int64              `json:"x18,omitempty" protobuf:"varint,38,opt,name=x18" thrift:"38"`
	X19  int64              `json:"x19,omitempty" protobuf:"varint,39,opt,name=x19" thrift:"39"`
	X20  int64              `json:"x20,omitempty" protobuf:"varint,40,opt,name=x20" thrift:"40"`
	X21  int64              `json:"x21,omitempty" protobuf:"varint,41,opt,name=x21" thrift:"41"`
	X22  int64              `json:"x22,omitempty" protobuf:"varint,42,opt,name=x22" thrift:"42"`
	X23  int64              `json:"x23,omitempty" protobuf:"varint,43,opt,name=x23" thrift:"43"`
}

type Peer203 struct {
	Back *Rec203   `json:"back,omitempty" protobuf:"bytes,1,opt,name=back" thrift:"1"`
	List []*Rec203 `json:"list,omitempty" protobuf:"bytes,2,rep,name=list" thrift:"2"`
	B    bool      `json:"b" protobuf:"varint,3,opt,name=b" thrift:"3"`
}

type Rec204 struct {
	M    map[string]Peer204 `json:"m,omitempty" protobuf:"bytes,6,rep,name=m" protobuf_key:"bytes,1,opt,name=key" protobuf_val:"bytes,2,opt,name=value" thrift:"6"`
	V    int64              `json:"v" protobuf:"varint,1,opt,name=v" thrift:"1"`
	Next *Rec204            `json:"next,omitempty" protobuf:"bytes,2,opt,name=next" thrift:"2"`
	Kids []Rec204           `json:"kids,omitempty" protobuf:"bytes,3,rep,name=kids" thrift:"3"`
	Peer *Peer204           `json:"peer,omitempty" protobuf:"bytes,4,opt,name=peer" thrift:"4"`
	S    string             `json:"s,omitempty" protobuf:"bytes,5,opt,name=s" thrift:"5"`
	X00  int64              `json:"x0,omitempty" protobuf:"varint,20,opt,name=x0" thrift:"20"`
	X01  int64              `json:"x1,omitempty" protobuf:"varint,21,opt,name=x1" thrift:"21"`
	X02  int64              `json:"x2,omitempty" protobuf:"varint,22,opt,name=x2" thrift:"22"`
	X03  int64              `json:"x3,omitempty" protobuf:"varint,23,opt,name=x3" thrift:"23"`
	X04  int64              `json:"x4,omitempty" protobuf:"varint,24,opt,name=x4" thrift:"24"`
	X05  int64              `json:"x5,omitempty" protobuf:"varint,25,opt,name=x5" thrift:"25"`
	X06  int64              `json:"x6,omitempty" protobuf:"varint,26,opt,name=x6" thrift:"26"`
	X07  int64              `json:"x7,omitempty" protobuf:"varint,27,opt,name=x7" thrift:"27"`
	X08  int64              `json:"x8,omitempty" protobuf:"varint,28,opt,name=x8" thrift:"28"`
	X09  int64              `json:"x9,omitempty" protobuf:"varint,29,opt,name=x9" thrift:"29"`
	X10  int64              `json:"x10,omitempty" protobuf:"varint,30,opt,name=x10" thrift:"30"`
	X11  int64              `json:"x11,omitempty" protobuf:"varint,31,opt,name=x11" thrift:"31"`
	X12  int64              `json:"x12,omitempty" protobuf:"varint,32,opt,name=x12" thrift:"32"`
	X13  int64              `json:"x13,omitempty" protobuf:"varint,33,opt,name=x13" thrift:"33"`
	X14  int64              `json:"x14,omitempty" protobuf:"varint,34,opt,name=x14" thrift:"34"`
	X15  int64              `json:"x15,omitempty" protobuf:"varint,35,opt,name=x15" thrift:"35"`
	X16  int64              `json:"x16,omitempty" protobuf:"varint,36,opt,name=x16" thrift:"36"`
	X17  int64              `json:"x17,omitempty" protobuf:"varint,37,opt,name=x17" thrift:"37"`
	X18  int64              `json:"x18,omitempty" protobuf:"varint,38,opt,name=x18" thrift:"38"`
	X19  int64              `json:"x19,omitempty" protobuf:"varint,39,opt,name=x19" thrift:"39"`
	X20  int64              `json:"x20,omitempty" protobuf:"varint,40,opt,name=x20" thrift:"40"`
	X21  int64              `json:"x21,omitempty" protobuf:"varint,41,opt,name=x21" thrift:"41"`
	X22  int64              `json:"x22,omitempty" protobuf:"varint,42,opt,name=x22" thrift:"42"`
	X23  int64              `json:"x23,omitempty" protobuf:"varint,43,opt,name=x23" thrift:"43"`
}

type Peer204 struct {
	Back *Rec204   `json:"back,omitempty" protobuf:"bytes,1,opt,name=back" thrift:"1"`
	List []*Rec204 `json:"list,omitempty" protobuf:"bytes,2,rep,name=list" thrift:"2"`
	B    bool      `json:"b" protobuf:"varint,3,opt,name=b" thrift:"3"`
}

type Rec205 struct {
	M    map[string]Peer205 `json:"m,omitempty" protobuf:"bytes,6,rep,name=m" protobuf_key:"bytes,1,opt,name=key" protobuf_val:"bytes,2,opt,name=value" thrift:"6"`
	V    int64              `json:"v" protobuf:"varint,1,opt,name=v" thrift:"1"`
	Next *Rec205            `json:"next,omitempty" protobuf:"bytes,2,opt,name=next" thrift:"2"`
	Kids []Rec205           `json:"kids,omitempty" protobuf:"bytes,3,rep,name=kids" thrift:"3"`
	Peer *Peer205           `json:"peer,omitempty" protobuf:"bytes,4,opt,name=peer" thrift:"4"`
	S    string             `json:"s,omitempty" protobuf:"bytes,5,opt,name=s" thrift:"5"`
	X00  int64              `json:"x0,omitempty" protobuf:"varint,20,opt,name=x0" thrift:"20"`
	X01  int64              `json:"x1,omitempty" protobuf:"varint,21,opt,name=x1" thrift:"21"`
	X02  int64              `json:"x2,omitempty" protobuf:"varint,22,opt,name=x2" thrift:"22"`
	X03  int64              `json:"x3,omitempty" protobuf:"varint,23,opt,name=x3" thrift:"23"`
	X04  int64              `json:"x4,omitempty" protobuf:"varint,24,opt,name=x4" thrift:"24"`
	X05  int64              `json:"x5,omitempty" protobuf:"varint,25,opt,name=x5" thrift:"25"`
	X06  int64              `json:"x6,omitempty" protobuf:"varint,26,opt,name=x6" thrift:"26"`
	X07  int64              `json:"x7,omitempty" protobuf:"varint,27,opt,name=x7" thrift:"27"`
	X08  int64              `json:"x8,omitempty" protobuf:"varint,28,opt,name=x8" thrift:"28"`
	X09  int64              `json:"x9,omitempty" protobuf:"varint,29,opt,name=x9" thrift:"29"`
	X10  int64              `json:"x10,omitempty" protobuf:"varint,30,opt,name=x10" thrift:"30"`
	X11  int64              `json:"x11,omitempty" protobuf:"varint,31,opt,name=x11" thrift:"31"`
	X12  int64              `json:"x12,omitempty" protobuf:"varint,32,opt,name=x12" thrift:"32"`
	X13  int64              `json:"x13,omitempty" protobuf:"varint,33,opt,name=x13" thrift:"33"`
	X14  int64              `json:"x14,omitempty" protobuf:"varint,34,opt,name=x14" thrift:"34"`
	X15  int64              `json:"x15,omitempty" protobuf:"varint,35,opt,name=x15" thrift:"35"`
	X16  int64              `json:"x16,omitempty" protobuf:"varint,36,opt,name=x16" thrift:"36"`
	X17  int64              `json:"x17,omitempty" protobuf:"varint,37,opt,name=x17" thrift:"37"`
	X18  int64              `json:"x18,omitempty" protobuf:"varint,38,opt,name=x18" thrift:"38"`
	X19  int64              `json:"x19,omitempty" protobuf:"varint,39,opt,name=x19" thrift:"39"`
	X20  int64              `json:"x20,omitempty" protobuf:"varint,40,opt,name=x20" thrift:"40"`
	X21  int64              `json:"x21,omitempty" protobuf:"varint,41,opt,name=x21" thrift:"41"`
	X22  int64              `json:"x22,omitempty" protobuf:"varint,42,opt,name=x22" thrift:"42"`
	X23  int64              `json:"x23,omitempty" protobuf:"varint,43,opt,name=x23" thrift:"43"`
}

type Peer205 struct {
	Back *Rec205   `json:"back,omitempty" protobuf:"bytes,1,opt,name=back" thrift:"1"`
	List []*Rec205 `json:"list,omitempty" protobuf:"bytes,2,rep,name=list" thrift:"2"`
	B    bool      `json:"b" protobuf:"varint,3,opt,name=b" thrift:"3"`
}

type Rec206 struct {
	M    map[string]Peer206 `json:"m,omitempty" protobuf:"bytes,6,rep,name=m" protobuf_key:"bytes,1,opt,name=key" protobuf_val:"bytes,2,opt,name=value" thrift:"6"`
	V    int64              `json:"v" protobuf:"varint,1,opt,name=v" thrift:"1"`
	Next *Rec206            `json:"next,omitempty" protobuf:"bytes,2,opt,name=next" thrift:"2"`
	Kids []Rec206           `json:"kids,omitempty" protobuf:"bytes,3,rep,name=kids" thrift:"3"`
	Peer *Peer206           `json:"peer,omitempty" protobuf:"bytes,4,opt,name=peer" thrift:"4"`
	S    string             `json:"s,omitempty" protobuf:"bytes,5,opt,name=s" thrift:"5"`
	X00  int64              `json:"x0,omitempty" protobuf:"varint,20,opt,name=x0" thrift:"20"`
	X01  int64              `json:"x1,omitempty" protobuf:"varint,21,opt,name=x1" thrift:"21"`
	X02  int64              `json:"x2,omitempty" protobuf:"varint,22,opt,name=x2" thrift:"22"`
	X03  int64              `json:"x3,omitempty" protobuf:"varint,23,opt,name=x3" thrift:"23"`
	X04  int64              `json:"x4,omitempty" protobuf:"varint,24,opt,name=x4" thrift:"24"`
	X05  int64              `json:"x5,omitempty" protobuf:"varint,25,opt,name=x5" thrift:"25"`
	X06  int64              `json:"x6,omitempty" protobuf:"varint,26,opt,name=x6" thrift:"26"`
	X07  int64              `json:"x7,omitempty" protobuf:"varint,27,opt,name=x7" thrift:"27"`
	X08  int64              `json:"x8,omitempty" protobuf:"varint,28,opt,name=x8" thrift:"28"`
	X09  int64              `json:"x9,omitempty" protobuf:"varint,29,opt,name=x9" thrift:"29"`
	X10  int64              `json:"x10,omitempty" protobuf:"varint,30,opt,name=x10" thrift:"30"`
	X11  int64              `json:"x11,omitempty" protobuf:"varint,31,opt,name=x11" thrift:"31"`
	X12  int64              `json:"x12,omitempty" protobuf:"varint,32,opt,name=x12" thrift:"32"`
	X13  int64              `json:"x13,omitempty" protobuf:"varint,33,opt,name=x13" thrift:"33"`
	X14  int64              `json:"x14,omitempty" protobuf:"varint,34,opt,name=x14" thrift:"34"`
	X15  int64              `json:"x15,omitempty" protobuf:"varint,35,opt,name=x15" thrift:"35"`
	X16  int64              `json:"x16,omitempty" protobuf:"varint,36,opt,name=x16" thrift:"36"`
	X17  int64              `json:"x17,omitempty" protobuf:"varint,37,opt,name=x17" thrift:"37"`
	X18  int64              `json:"x18,omitempty" protobuf:"varint,38,opt,name=x18" thrift:"38"`
	X19  int64              `json:"x19,omitempty" protobuf:"varint,39,opt,name=x19" thrift:"39"`
	X20  int64              `json:"x20,omitempty" protobuf:"varint,40,opt,name=x20" thrift:"40"`
	X21  int64              `json:"x21,omitempty" protobuf:"varint,41,opt,name=x21" thrift:"41"`
	X22  int64              `json:"x22,omitempty" protobuf:"varint,42,opt,name=x22" thrift:"42"`
	X23  int64              `json:"x23,omitempty" protobuf:"varint,43,opt,name=x23" thrift:"43"`
}

type Peer206 struct {
	Back *Rec206   `json:"back,omitempty" protobuf:"bytes,1,opt,name=back" thrift:"1"`
	List []*Rec206 `json:"list,omitempty" protobuf:"bytes,2,rep,name=list" thrift:"2"`
	B    bool      `json:"b" protobuf:"varint,3,opt,name=b" thrift:"3"`
}

type Rec207 struct {
	M    map[string]Peer207 `json:"m,omitempty" protobuf:"bytes,6,rep,name=m" protobuf_key:"bytes,1,opt,name=key" protobuf_val:"bytes,2,opt,name=value" thrift:"6"`
	V    int64              `json:"v" protobuf:"varint,1,opt,name=v" thrift:"1"`
	Next *Rec207            `json:"next,omitempty" protobuf:"bytes,2,opt,name=next" thrift:"2"`
	Kids []Rec207           `json:"kids,omitempty" protobuf:"bytes,3,rep,name=kids" thrift:"3"`
	Peer *Peer207           `json:"peer,omitempty" protobuf:"bytes,4,opt,name=peer" thrift:"4"`
	S    string             `json:"s,omitempty" protobuf:"bytes,5,opt,name=s" thrift:"5"`
	X00  int64              `json:"x0,omitempty" protobuf:"varint,20,opt,name=x0" thrift:"20"`
	X01  int64              `json:"x1,omitempty" protobuf:"varint,21,opt,name=x1" thrift:"21"`
	X02  int64              `json:"x2,omitempty" protobuf:"varint,22,opt,name=x2" thrift:"22"`
	X03  int64              `json:"x3,omitempty" protobuf:"varint,23,opt,name=x3" thrift:"23"`
	X04  int64              `json:"x4,omitempty" protobuf:"varint,24,opt,name=x4" thrift:"24"`
	X05  int64              `json:"x5,omitempty" protobuf:"varint,25,opt,name=x5" thrift:"25"`
	X06  int64              `json:"x6,omitempty" protobuf:"varint,26,opt,name=x6" thrift:"26"`
	X07  int64              `json:"x7,omitempty" protobuf:"varint,27,opt,name=x7" thrift:"27"`
	X08  int64              `json:"x8,omitempty" protobuf:"varint,28,opt,name=x8" thrift:"28"`
	X09  int64              `json:"x9,omitempty" protobuf:"varint,29,opt,name=x9" thrift:"29"`
	X10  int64              `json:"x10,omitempty" protobuf:"varint,30,opt,name=x10" thrift:"30"`
	X11  int64              `json:"x11,omitempty" protobuf:"varint,31,opt,name=x11" thrift:"31"`
	X12  int64              `json:"x12,omitempty" protobuf:"varint,32,opt,name=x12" thrift:"32"`
	X13  int64              `json:"x13,omitempty" protobuf:"varint,33,opt,name=x13" thrift:"33"`
	X14  int64              `json:"x14,omitempty" protobuf:"varint,34,opt,name=x14" thrift:"34"`
	X15  int64              `json:"x15,omitempty" protobuf:"varint,35,opt,name=x15" thrift:"35"`
	X16  int64              `json:"x16,omitempty" protobuf:"varint,36,opt,name=x16" thrift:"36"`
	X17  int64              `json:"x17,omitempty" protobuf:"varint,37,opt,name=x17" thrift:"37"`
	X18  int64              `json:"x18,omitempty" protobuf:"varint,38,opt,name=x18" thrift:"38"`
	X19  int64              `json:"x19,omitempty" protobuf:"varint,39,opt,name=x19" thrift:"39"`
	X20  int64              `json:"x20,omitempty" protobuf:"varint,40,opt,name=x20" thrift:"40"`
	X21  int64              `json:"x21,omitempty" protobuf:"varint,41,opt,name=x21" thrift:"41"`
	X22  int64              `json:"x22,omitempty" protobuf:"varint,42,opt,name=x22" thrift:"42"`
	X23  int64              `json:"x23,omitempty" protobuf:"varint,43,opt,name=x23" thrift:"43"`
}

type Peer207 struct {
	Back *Rec207   `json:"back,omitempty" protobuf:"bytes,1,opt,name=back" thrift:"1"`
	List []*Rec207 `json:"list,omitempty" protobuf:"bytes,2,rep,name=list" thrift:"2"`
	B    bool      `json:"b" protobuf:"varint,3,opt,name=b" thrift:"3"`
}

type Rec208 struct {
	M    map[string]Peer208 `json:"m,omitempty" protobuf:"bytes,6,rep,name=m" protobuf_key:"bytes,1,opt,name=key" protobuf_val:"bytes,2,opt,name=value" thrift:"6"`
	V    int64              `json:"v" protobuf:"varint,1,opt,name=v" thrift:"1"`
	Next *Rec208            `json:"next,omitempty" protobuf:"bytes,2,opt,name=next" thrift:"2"`
	Kids []Rec208           `json:"kids,omitempty" protobuf:"bytes,3,rep,name=kids" thrift:"3"`
	Peer *Peer208           `json:"peer,omitempty" protobuf:"bytes,4,opt,name=peer" thrift:"4"`
	S    string             `json:"s,omitempty" protobuf:"bytes,5,opt,name=s" thrift:"5"`
	X00  int64              `json:"x0,omitempty" protobuf:"varint,20,opt,name=x0" thrift:"20"`
	X01  int64              `json:"x1,omitempty" protobuf:"varint,21,opt,name=x1" thrift:"21"`
	X02  int64              `json:"x2,omitempty" protobuf:"varint,22,opt,name=x2" thrift:"22"`
	X03  int64              `json:"x3,omitempty" protobuf:"varint,23,opt,name=x3" thrift:"23"`
	X04  int64              `json:"x4,omitempty" protobuf:"varint,24,opt,name=x4" thrift:"24"`
	X05  int64              `json:"x5,omitempty" protobuf:"varint,25,opt,name=x5" thrift:"25"`
	X06  int64              `json:"x6,omitempty" protobuf:"varint,26,opt,name=x6" thrift:"26"`
	X07  int64              `json:"x7,omitempty" protobuf:"varint,27,opt,name=x7" thrift:"27"`
	X08  int64              `json:"x8,omitempty" protobuf:"varint,28,opt,name=x8" thrift:"28"`
	X09  int64              `json:"x9,omitempty" protobuf:"varint,29,opt,name=x9" thrift:"29"`
	X10  int64              `json:"x10,omitempty" protobuf:"varint,30,opt,name=x10" thrift:"30"`
	X11  int64              `json:"x11,omitempty" protobuf:"varint,31,opt,name=x11" thrift:"31"`
	X12  int64              `json:"x12,omitempty" protobuf:"varint,32,opt,name=x12" thrift:"32"`
	X13  int64              `json:"x13,omitempty" protobuf:"varint,33,opt,name=x13" thrift:"33"`
	X14  int64              `json:"x14,omitempty" protobuf:"varint,34,opt,name=x14" thrift:"34"`
	X15  int64              `json:"x15,omitempty" protobuf:"varint,35,opt,name=x15" thrift:"35"`
	X16  int64              `json:"x16,omitempty" protobuf:"varint,36,opt,name=x16" thrift:"36"`
	X17  int64              `json:"x17,omitempty" protobuf:"varint,37,opt,name=x17" thrift:"37"`
	X18  int64              `json:"x18,omitempty" protobuf:"varint,38,opt,name=x18" thrift:"38"`
	X19  int64              `json:"x19,omitempty" protobuf:"varint,39,opt,name=x19" thrift:"39"`
	X20  int64              `json:"x20,omitempty" protobuf:"varint,40,opt,name=x20" thrift:"40"`
	X21  int64              `json:"x21,omitempty" protobuf:"varint,41,opt,name=x21" thrift:"41"`
	X22  int64              `json:"x22,omitempty" protobuf:"varint,42,opt,name=x22" thrift:"42"`
	X23  int64              `json:"x23,omitempty" protobuf:"varint,43,opt,name=x23" thrift:"43"`
}

type Peer208 struct {
	Back *Rec208   `json:"back,omitempty" protobuf:"bytes,1,opt,name=back" thrift:"1"`
	List []*Rec208 `json:"list,omitempty" protobuf:"bytes,2,rep,name=list" thrift:"2"`
	B    bool      `json:"b" protobuf:"varint,3,opt,name=b" thrift:"3"`
}

type Rec209 struct {
	M    map[string]Peer209 `json:"m,omitempty" protobuf:"bytes,6,rep,name=m" protobuf_key:"bytes,1,opt,name=key" protobuf_val:"bytes,2,opt,name=value" thrift:"6"`
	V    int64              `json:"v" protobuf:"varint,1,opt,name=v" thrift:"1"`
	Next *Rec209            `json:"next,omitempty" protobuf:"bytes,2,opt,name=next" thrift:"2"`
	Kids []Rec209           `json:"kids,omitempty" protobuf:"bytes,3,rep,name=kids" thrift:"3"`
	Peer *Peer209           `json:"peer,omitempty" protobuf:"bytes,4,opt,name=peer" thrift:"4"`
	S    string             `json:"s,omitempty" protobuf:"bytes,5,opt,name=s" thrift:"5"`
	X00  int64              `json:"x0,omitempty" protobuf:"varint,20,opt,name=x0" thrift:"20"`
	X01  int64              `json:"x1,omitempty" protobuf:"varint,21,opt,name=x1" thrift:"21"`
	X02  int64              `json:"x2,omitempty" protobuf:"varint,22,opt,name=x2" thrift:"22"`
	X03  int64              `json:"x3,omitempty" protobuf:"varint,23,opt,name=x3" thrift:"23"`
	X04  int64              `json:"x4,omitempty" protobuf:"varint,24,opt,name=x4" thrift:"24"`
	X05  int64              `json:"x5,omitempty" protobuf:"varint,25,opt,name=x5" thrift:"25"`
	X06  int64              `json:"x6,omitempty" protobuf:"varint,26,opt,name=x6" thrift:"26"`
	X07  int64              `json:"x7,omitempty" protobuf:"varint,27,opt,name=x7" thrift:"27"`
	X08  int64              `json:"x8,omitempty" protobuf:"varint,28,opt,name=x8" thrift:"28"`
	X09  int64              `json:"x9,omitempty" protobuf:"varint,29,opt,name=x9" thrift:"29"`
	X10  int64              `json:"x10,omitempty" protobuf:"varint,30,opt,name=x10" thrift:"30"`
	X11  int64              `json:"x11,omitempty" protobuf:"varint,31,opt,name=x11" thrift:"31"`
	X12  int64              `json:"x12,omitempty" protobuf:"varint,32,opt,name=x12" thrift:"32"`
	X13  int64              `json:"x13,omitempty" protobuf:"varint,33,opt,name=x13" thrift:"33"`
	X14  int64              `json:"x14,omitempty" protobuf:"varint,34,opt,name=x14" thrift:"34"`
	X15  int64              `json:"x15,omitempty" protobuf:"varint,35,opt,name=x15" thrift:"35"`
	X16  int64              `json:"x16,omitempty" protobuf:"varint,36,opt,name=x16" thrift:"36"`
	X17  int64              `json:"x17,omitempty" protobuf:"varint,37,opt,name=x17" thrift:"37"`
	X18  int64              `json:"x18,omitempty" protobuf:"varint,38,opt,name=x18" thrift:"38"`
	X19  int64              `json:"x19,omitempty" protobuf:"varint,39,opt,name=x19" thrift:"39"`
	X20  int64              `json:"x20,omitempty" protobuf:"varint,40,opt,name=x20" thrift:"40"`
	X21  int64              `json:"x21,omitempty" protobuf:"varint,41,opt,name=x21" thrift:"41"`
	X22  int64              `json:"x22,omitempty" protobuf:"varint,42,opt,name=x22" thrift:"42"`
	X23  int64              `json:"x23,omitempty" protobuf:"varint,43,opt,name=x23" thrift:"43"`
}

type Peer209 struct {
	Back *Rec209   `json:"back,omitempty" protobuf:"bytes,1,opt,name=back" thrift:"1"`
	List []*Rec209 `json:"list,omitempty" protobuf:"bytes,2,rep,name=list" thrift:"2"`
	B    bool      `json:"b" protobuf:"varint,3,opt,name=b" thrift:"3"`
}

type Rec210 struct {
	M    map[string]Peer210 `json:"m,omitempty" protobuf:"bytes,6,rep,name=m" protobuf_key:"bytes,1,opt,name=key" protobuf_val:"bytes,2,opt,name=value" thrift:"6"`
	V    int64              `json:"v" protobuf:"varint,1,opt,name=v" thrift:"1"`
	Next *Rec210            `json:"next,omitempty" protobuf:"bytes,2,opt,name=next" thrift:"2"`
	Kids []Rec210           `json:"kids,omitempty" protobuf:"bytes,3,rep,name=kids" thrift:"3"`
	Peer *Peer210           `json:"peer,omitempty" protobuf:"bytes,4,opt,name=peer" thrift:"4"`
	S    string             `json:"s,omitempty" protobuf:"bytes,5,opt,name=s" thrift:"5"`
	X00  int64              `json:"x0,omitempty" protobuf:"varint,20,opt,name=x0" thrift:"20"`
	X01  int64              `json:"x1,omitempty" protobuf:"varint,21,opt,name=x1" thrift:"21"`
	X02  int64              `json:"x2,omitempty" protobuf:"varint,22,opt,name=x2" thrift:"22"`
	X03  int64              `json:"x3,omitempty" protobuf:"varint,23,opt,name=x3" thrift:"23"`
	X04  int64              `json:"x4,omitempty" protobuf:"varint,24,opt,name=x4" thrift:"24"`
	X05  int64              `json:"x5,omitempty" protobuf:"varint,25,opt,name=x5" thrift:"25"`
	X06  int64              `json:"x6,omitempty" protobuf:"varint,26,opt,name=x6" thrift:"26"`
	X07  int64              `json:"x7,omitempty" protobuf:"varint,27,opt,name=x7" thrift:"27"`
	X08  int64              `json:"x8,omitempty" protobuf:"varint,28,opt,name=x8" thrift:"28"`
	X09  int64              `json:"x9,omitempty" protobuf:"varint,29,opt,name=x9" thrift:"29"`
	X10  int64              `json:"x10,omitempty" protobuf:"varint,30,opt,name=x10" thrift:"30"`
	X11  int64              `json:"x11,omitempty" protobuf:"varint,31,opt,name=x11" thrift:"31"`
	X12  int64              `json:"x12,omitempty" protobuf:"varint,32,opt,name=x12" thrift:"32"`
	X13  int64              `json:"x13,omitempty" protobuf:"varint,33,opt,name=x13" thrift:"33"`
	X14  int64              `json:"x14,omitempty" protobuf:"varint,34,opt,name=x14" thrift:"34"`
	X15  int64              `json:"x15,omitempty" protobuf:"varint,35,opt,name=x15" thrift:"35"`
	X16  int64              `json:"x16,omitempty" protobuf:"varint,36,opt,name=x16" thrift:"36"`
	X17  int64              `json:"x17,omitempty" protobuf:"varint,37,opt,name=x17" thrift:"37"`
	X18  int64              `json:"x18,omitempty" protobuf:"varint,38,opt,name=x18" thrift:"38"`
	X19  int64              `json:"x19,omitempty" protobuf:"varint,39,opt,name=x19" thrift:"39"`
	X20  int64              `json:"x20,omitempty" protobuf:"varint,40,opt,name=x20" thrift:"40"`
	X21  int64              `json:"x21,omitempty" protobuf:"varint,41,opt,name=x21" thrift:"41"`
	X22  int64              `json:"x22,omitempty" protobuf:"varint,42,opt,name=x22" thrift:"42"`
	X23  int64              `json:"x23,omitempty" protobuf:"varint,43,opt,name=x23" thrift:"43"`
}

type Peer210 struct {
	Back *Rec210   `json:"back,omitempty" protobuf:"bytes,1,opt,name=back" thrift:"1"`
	List []*Rec210 `json:"list,omitempty" protobuf:"bytes,2,rep,name=list" thrift:"2"`
	B    bool      `json:"b" protobuf:"varint,3,opt,name=b" thrift:"3"`
}

type Rec211 struct {
	M    map[string]Peer211 `json:"m,omitempty" protobuf:"bytes,6,rep,name=m" protobuf_key:"bytes,1,opt,name=key" protobuf_val:"bytes,2,opt,name=value" thrift:"6"`
	V    int64              `json:"v" protobuf:"varint,1,opt,name=v" thrift:"1"`
	Next *Rec211            `json:"next,omitempty" protobuf:"bytes,2,opt,name=next" thrift:"2"`
	Kids []Rec211           `json:"kids,omitempty" protobuf:"bytes,3,rep,name=kids" thrift:"3"`
	Peer *Peer211           `json:"peer,omitempty" protobuf:"bytes,4,opt,name=peer" thrift:"4"`
	S    string             `json:"s,omitempty" protobuf:"bytes,5,opt,name=s" thrift:"5"`
	X00  int64              `json:"x0,omitempty" protobuf:"varint,20,opt,name=x0" thrift:"20"`
	X01  int64              `json:"x1,omitempty" protobuf:"varint,21,opt,name=x1" thrift:"21"`
	X02  int64              `json:"x2,omitempty" protobuf:"varint,22,opt,name=x2" thrift:"22"`
	X03  int64              `json:"x3,omitempty" protobuf:"varint,23,opt,name=x3" thrift:"23"`
	X04  int64              `json:"x4,omitempty" protobuf:"varint,24,opt,name=x4" thrift:"24"`
	X05  int64              `json:"x5,omitempty" protobuf:"varint,25,opt,name=x5" thrift:"25"`
	X06  int64              `json:"x6,omitempty" protobuf:"varint,26,opt,name=x6" thrift:"26"`
	X07  int64              `json:"x7,omitempty" protobuf:"varint,27,opt,name=x7" thrift:"27"`
	X08  int64              `json:"x8,omitempty" protobuf:"varint,28,opt,name=x8" thrift:"28"`
	X09  int64              `json:"x9,omitempty" protobuf:"varint,29,opt,name=x9" thrift:"29"`
	X10  int64              `json:"x10,omitempty" protobuf:"varint,30,opt,name=x10" thrift:"30"`
	X11  int64              `json:"x11,omitempty" protobuf:"varint,31,opt,name=x11" thrift:"31"`
	X12  int64              `json:"x12,omitempty" protobuf:"varint,32,opt,name=x12" thrift:"32"`
	X13  int64              `json:"x13,omitempty" protobuf:"varint,33,opt,name=x13" thrift:"33"`
	X14  int64              `json:"x14,omitempty" protobuf:"varint,34,opt,name=x14" thrift:"34"`
	X15  int64              `json:"x15,omitempty" protobuf:"varint,35,opt,name=x15" thrift:"35"`
	X16  int64              `json:"x16,omitempty" protobuf:"varint,36,opt,name=x16" thrift:"36"`
	X17  int64              `json:"x17,omitempty" protobuf:"varint,37,opt,name=x17" thrift:"37"`
	X18  int64              `json:"x18,omitempty" protobuf:"varint,38,opt,name=x18" thrift:"38"`
	X19  int64              `json:"x19,omitempty" protobuf:"varint,39,opt,name=x19" thrift:"39"`
	X20  int64              `json:"x20,omitempty" protobuf:"varint,40,opt,name=x20" thrift:"40"`
	X21  int64              `json:"x21,omitempty" protobuf:"varint,41,opt,name=x21" thrift:"41"`
	X22  int64              `json:"x22,omitempty" protobuf:"varint,42,opt,name=x22" thrift:"42"`
	X23  int64              `json:"x23,omitempty" protobuf:"varint,43,opt,name=x23" thrift:"43"`
}

type Peer211 struct {
	Back *Rec211   `json:"back,omitempty" protobuf:"bytes,1,opt,name=back" thrift:"1"`
	List []*Rec211 `json:"list,omitempty" protobuf:"bytes,2,rep,name=list" thrift:"2"`
	B    bool      `json:"b" protobuf:"varint,3,opt,name=b" thrift:"3"`
}

type Rec212 struct {
	M    map[string]Peer212 `json:"m,omitempty" protobuf:"bytes,6,rep,name=m" protobuf_key:"bytes,1,opt,name=key" protobuf_val:"bytes,2,opt,name=value" thrift:"6"`
	V    int64              `json:"v" protobuf:"varint,1,opt,name=v" thrift:"1"`
	Next *Rec212            `json:"next,omitempty" protobuf:"bytes,2,opt,name=next" thrift:"2"`
	Kids []Rec212           `json:"kids,omitempty" protobuf:"bytes,3,rep,name=kids" thrift:"3"`
	Peer *Peer212           `json:"peer,omitempty" protobuf:"bytes,4,opt,name=peer" thrift:"4"`
	S    string             `json:"s,omitempty" protobuf:"bytes,5,opt,name=s" thrift:"5"`
	X00  int64              `json:"x0,omitempty" protobuf:"varint,20,opt,name=x0" thrift:"20"`
	X01  int64              `json:"x1,omitempty" protobuf:"varint,21,opt,name=x1" thrift:"21"`
	X02  int64              `json:"x2,omitempty" protobuf:"varint,22,opt,name=x2" thrift:"22"`
	X03  int64              `json:"x3,omitempty" protobuf:"varint,23,opt,name=x3" thrift:"23"`
	X04  int64              `json:"x4,omitempty" protobuf:"varint,24,opt,name=x4" thrift:"24"`
	X05  int64              `json:"x5,omitempty" protobuf:"varint,25,opt,name=x5" thrift:"25"`
	X06  int64              `json:"x6,omitempty" protobuf:"varint,26,opt,name=x6" thrift:"26"`
	X07  int64              `json:"x7,omitempty" protobuf:"varint,27,opt,name=x7" thrift:"27"`
	X08  int64              `json:"x8,omitempty" protobuf:"varint,28,opt,name=x8" thrift:"28"`
	X09  int64              `json:"x9,omitempty" protobuf:"varint,29,opt,name=x9" thrift:"29"`
	X10  int64              `json:"x10,omitempty" protobuf:"varint,30,opt,name=x10" thrift:"30"`
	X11  int64              `json:"x11,omitempty" protobuf:"varint,31,opt,name=x11" thrift:"31"`
	X12  int64              `json:"x12,omitempty" protobuf:"varint,32,opt,name=x12" thrift:"32"`
	X13  int64              `json:"x13,omitempty" protobuf:"varint,33,opt,name=x13" thrift:"33"`
	X14  int64              `json:"x14,omitempty" protobuf:"varint,34,opt,name=x14" thrift:"34"`
	X15  int64              `json:"x15,omitempty" protobuf:"varint,35,opt,name=x15" thrift:"35"`
	X16  int64              `json:"x16,omitempty" protobuf:"varint,36,opt,name=x16" thrift:"36"`
	X17  int64              `json:"x17,omitempty" protobuf:"varint,37,opt,name=x17" thrift:"37"`
	X18  int64              `json:"x18,omitempty" protobuf:"varint,38,opt,name=x18" thrift:"38"`
	X19  int64              `json:"x19,omitempty" protobuf:"varint,39,opt,name=x19" thrift:"39"`
	X20  int64              `json:"x20,omitempty" protobuf:"varint,40,opt,name=x20" thrift:"40"`
	X21  int64              `json:"x21,omitempty" protobuf:"varint,41,opt,name=x21" thrift:"41"`
	X22  int64              `json:"x22,omitempty" protobuf:"varint,42,opt,name=x22" thrift:"42"`
	X23  int64              `json:"x23,omitempty" protobuf:"varint,43,opt,name=x23" thrift:"43"`
}

type Peer212 struct {
	Back *Rec212   `json:"back,omitempty" protobuf:"bytes,1,opt,name=back" thrift:"1"`
	List []*Rec212 `json:"list,omitempty" protobuf:"bytes,2,rep,name=list" thrift:"2"`
	B    bool      `json:"b" protobuf:"varint,3,opt,name=b" thrift:"3"`
}

type Rec213 struct {
	M    map[string]Peer213 `json:"m,omitempty" protobuf:"bytes,6,rep,name=m" protobuf_key:"bytes,1,opt,name=key" protobuf_val:"bytes,2,opt,name=value" thrift:"6"`
	V    int64              `json:"v" protobuf:"varint,1,opt,name=v" thrift:"1"`
	Next *Rec213            `json:"next,omitempty" protobuf:"bytes,2,opt,name=next" thrift:"2"`
	Kids []Rec213           `json:"kids,omitempty" protobuf:"bytes,3,rep,name=kids" thrift:"3"`
	Peer *Peer213           `json:"peer,omitempty" protobuf:"bytes,4,opt,name=peer" thrift:"4"`
	S    string             `json:"s,omitempty" protobuf:"bytes,5,opt,name=s" thrift:"5"`
	X00  int64              `json:"x0,omitempty" protobuf:"varint,20,opt,name=x0" thrift:"20"`
	X01  int64              `json:"x1,omitempty" protobuf:"varint,21,opt,name=x1" thrift:"21"`
	X02  int64              `json:"x2,omitempty" protobuf:"varint,22,opt,name=x2" thrift:"22"`
	X03  int64              `json:"x3,omitempty" protobuf:"varint,23,opt,name=x3" thrift:"23"`
	X04  int64              `json:"x4,omitempty" protobuf:"varint,24,opt,name=x4" thrift:"24"`
	X05  int64              `json:"x5,omitempty" protobuf:"varint,25,opt,name=x5" thrift:"25"`
	X06  int64              `json:"x6,omitempty" protobuf:"varint,26,opt,name=x6" thrift:"26"`
	X07  int64              `json:"x7,omitempty" protobuf:"varint,27,opt,name=x7" thrift:"27"`
	X08  int64              `json:"x8,omitempty" protobuf:"varint,28,opt,name=x8" thrift:"28"`
	X09  int64              `json:"x9,omitempty" protobuf:"varint,29,opt,name=x9" thrift:"29"`
	X10  int64              `json:"x10,omitempty" protobuf:"varint,30,opt,name=x10" thrift:"30"`
	X11  int64              `json:"x11,omitempty" protobuf:"varint,31,opt,name=x11" thrift:"31"`
	X12  int64              `json:"x12,omitempty" protobuf:"varint,32,opt,name=x12" thrift:"32"`
	X13  int64              `json:"x13,omitempty" protobuf:"varint,33,opt,name=x13" thrift:"33"`
	X14  int64              `json:"x14,omitempty" protobuf:"varint,34,opt,name=x14" thrift:"34"`
	X15  int64              `json:"x15,omitempty" protobuf:"varint,35,opt,name=x15" thrift:"35"`
	X16  int64              `json:"x16,omitempty" protobuf:"varint,36,opt,name=x16" thrift:"36"`
	X17  int64              `json:"x17,omitempty" protobuf:"varint,37,opt,name=x17" thrift:"37"`
	X18  int64              `json:"x18,omitempty" protobuf:"varint,38,opt,name=x18" thrift:"38"`
	X19  int64              `json:"x19,omitempty" protobuf:"varint,39,opt,name=x19" thrift:"39"`
	X20  int64              `json:"x20,omitempty" protobuf:"varint,40,opt,name=x20" thrift:"40"`
	X21  int64              `json:"x21,omitempty" protobuf:"varint,41,opt,name=x21" thrift:"41"`
	X22  int64              `json:"x22,omitempty" protobuf:"varint,42,opt,name=x22" thrift:"42"`
	X23  int64              `json:"x23,omitempty" protobuf:"varint,43,opt,name=x23" thrift:"43"`
}

type Peer213 struct {
	Back *Rec213   `json:"back,omitempty" protobuf:"bytes,1,opt,name=back" thrift:"1"`
	List []*Rec213 `json:"list,omitempty" protobuf:"bytes,2,rep,name=list" thrift:"2"`
	B    bool      `json:"b" protobuf:"varint,3,opt,name=b" thrift:"3"`
}

type Rec214 struct {
	M    map[string]Peer214 `json:"m,omitempty" protobuf:"bytes,6,rep,name=m" protobuf_key:"bytes,1,opt,name=key" protobuf_val:"bytes,2,opt,name=value" thrift:"6"`
	V    int64              `json:"v" protobuf:"varint,1,opt,name=v" thrift:"1"`
	Next *Rec214            `json:"next,omitempty" protobuf:"bytes,2,opt,name=next" thrift:"2"`
	Kids []Rec214           `json:"kids,omitempty" protobuf:"bytes,3,rep,name=kids" thrift:"3"`
	Peer *Peer214           `json:"peer,omitempty" protobuf:"bytes,4,opt,name=peer" thrift:"4"`
	S    string             `json:"s,omitempty" protobuf:"bytes,5,opt,name=s" thrift:"5"`
	X00  int64              `json:"x0,omitempty" protobuf:"varint,20,opt,name=x0" thrift:"20"`
	X01  int64              `json:"x1,omitempty" protobuf:"varint,21,opt,name=x1" thrift:"21"`
	X02  int64              `json:"x2,omitempty" protobuf:"varint,22,opt,name=x2" thrift:"22"`
	X03  int64              `json:"x3,omitempty" protobuf:"varint,23,opt,name=x3" thrift:"23"`
	X04  int64              `json:"x4,omitempty" protobuf:"varint,24,opt,name=x4" thrift:"24"`
	X05  int64              `json:"x5,omitempty" protobuf:"varint,25,opt,name=x5" thrift:"25"`
	X06  int64              `json:"x6,omitempty" protobuf:"varint,26,opt,name=x6" thrift:"26"`
	X07  int64              `json:"x7,omitempty" protobuf:"varint,27,opt,name=x7" thrift:"27"`
	X08  int64              `json:"x8,omitempty" protobuf:"varint,28,opt,name=x8" thrift:"28"`
	X09  int64              `json:"x9,omitempty" protobuf:"varint,29,opt,name=x9" thrift:"29"`
	X10  int64              `json:"x10,omitempty" protobuf:"varint,30,opt,name=x10" thrift:"30"`
	X11  int64              `json:"x11,omitempty" protobuf:"varint,31,opt,name=x11" thrift:"31"`
	X12  int64              `json:"x12,omitempty" protobuf:"varint,32,opt,name=x12" thrift:"32"`
	X13  int64              `json:"x13,omitempty" protobuf:"varint,33,opt,name=x13" thrift:"33"`
	X14  int64              `json:"x14,omitempty" protobuf:"varint,34,opt,name=x14" thrift:"34"`
	X15  int64              `json:"x15,omitempty" protobuf:"varint,35,opt,name=x15" thrift:"35"`
	X16  int64              `json:"x16,omitempty" protobuf:"varint,36,opt,name=x16" thrift:"36"`
	X17  int64              `json:"x17,omitempty" protobuf:"varint,37,opt,name=x17" thrift:"37"`
	X18  int64              `json:"x18,omitempty" protobuf:"varint,38,opt,name=x18" thrift:"38"`
	X19  int64              `json:"x19,omitempty" protobuf:"varint,39,opt,name=x19" thrift:"39"`
	X20  int64              `json:"x20,omitempty" protobuf:"varint,40,opt,name=x20" thrift:"40"`
	X21  int64              `json:"x21,omitempty" protobuf:"varint,41,opt,name=x21" thrift:"41"`
	X22  int64              `json:"x22,omitempty" protobuf:"varint,42,opt,name=x22" thrift:"42"`
	X23  int64              `json:"x23,omitempty" protobuf:"varint,43,opt,name=x23" thrift:"43"`
}

type Peer214 struct {
	Back *Rec214   `json:"back,omitempty" protobuf:"bytes,1,opt,name=back" thrift:"1"`
	List []*Rec214 `json:"list,omitempty" protobuf:"bytes,2,rep,name=list" thrift:"2"`
	B    bool      `json:"b" protobuf:"varint,3,opt,name=b" thrift:"3"`
}

type Rec215 struct {
	M    map[string]Peer215 `json:"m,omitempty" protobuf:"bytes,6,rep,name=m" protobuf_key:"bytes,1,opt,name=key" protobuf_val:"bytes,2,opt,name=value" thrift:"6"`
	V    int64              `json:"v" protobuf:"varint,1,opt,name=v" thrift:"1"`
	Next *Rec215            `json:"next,omitempty" protobuf:"bytes,2,opt,name=next" thrift:"2"`
	Kids []Rec215           `json:"kids,omitempty" protobuf:"bytes,3,rep,name=kids" thrift:"3"`
	Peer *Peer215           `json:"peer,omitempty" protobuf:"bytes,4,opt,name=peer" thrift:"4"`
	S    string             `json:"s,omitempty" protobuf:"bytes,5,opt,name=s" thrift:"5"`
	X00  int64              `json:"x0,omitempty" protobuf:"varint,20,opt,name=x0" thrift:"20"`
	X01  int64              `json:"x1,omitempty" protobuf:"varint,21,opt,name=x1" thrift:"21"`
	X02  int64              `json:"x2,omitempty" protobuf:"varint,22,opt,name=x2" thrift:"22"`
	X03  int64              `json:"x3,omitempty" protobuf:"varint,23,opt,name=x3" thrift:"23"`
	X04  int64              `json:"x4,omitempty" protobuf:"varint,24,opt,name=x4" thrift:"24"`
	X05  int64              `json:"x5,omitempty" protobuf:"varint,25,opt,name=x5" thrift:"25"`
	X06  int64              `json:"x6,omitempty" protobuf:"varint,26,opt,name=x6" thrift:"26"`
	X07  int64              `json:"x7,omitempty" protobuf:"varint,27,opt,name=x7" thrift:"27"`
	X08  int64              `json:"x8,omitempty" protobuf:"varint,28,opt,name=x8" thrift:"28"`
	X09  int64              `json:"x9,omitempty" protobuf:"varint,29,opt,name=x9" thrift:"29"`
	X10  int64              `json:"x10,omitempty" protobuf:"varint,30,opt,name=x10" thrift:"30"`
	X11  int64              `json:"x11,omitempty" protobuf:"varint,31,opt,name=x11" thrift:"31"`
	X12  int64              `json:"x12,omitempty" protobuf:"varint,32,opt,name=x12" thrift:"32"`
	X13  int64              `json:"x13,omitempty" protobuf:"varint,33,opt,name=x13" thrift:"33"`
	X14  int64              `json:"x14,omitempty" protobuf:"varint,34,opt,name=x14" thrift:"34"`
	X15  int64              `json:"x15,omitempty" protobuf:"varint,35,opt,name=x15" thrift:"35"`
	X16  int64              `json:"x16,omitempty" protobuf:"varint,36,opt,name=x16" thrift:"36"`
	X17  int64              `json:"x17,omitempty" protobuf:"varint,37,opt,name=x17" thrift:"37"`
	X18  int64              `json:"x18,omitempty" protobuf:"varint,38,opt,name=x18" thrift:"38"`
	X19  int64              `json:"x19,omitempty" protobuf:"varint,39,opt,name=x19" thrift:"39"`
	X20  int64              `json:"x20,omitempty" protobuf:"varint,40,opt,name=x20" thrift:"40"`
	X21  int64              `json:"x21,omitempty" protobuf:"varint,41,opt,name=x21" thrift:"41"`
	X22  int64              `json:"x22,omitempty" protobuf:"varint,42,opt,name=x22" thrift:"42"`
	X23  int64              `json:"x23,omitempty" protobuf:"varint,43,opt,name=x23" thrift:"43"`
}

type Peer215 struct {
	Back *Rec215   `json:"back,omitempty" protobuf:"bytes,1,opt,name=back" thrift:"1"`
	List []*Rec215 `json:"list,omitempty" protobuf:"bytes,2,rep,name=list" thrift:"2"`
	B    bool      `json:"b" protobuf:"varint,3,opt,name=b" thrift:"3"`
}

type Rec216 struct {
	M    map[string]Peer216 `json:"m,omitempty" protobuf:"bytes,6,rep,name=m" protobuf_key:"bytes,1,opt,name=key" protobuf_val:"bytes,2,opt,name=value" thrift:"6"`
	V    int64              `json:"v" protobuf:"varint,1,opt,name=v" thrift:"1"`
	Next *Rec216            `json:"next,omitempty" protobuf:"bytes,2,opt,name=next" thrift:"2"`
	Kids []Rec216           `json:"kids,omitempty" protobuf:"bytes,3,rep,name=kids" thrift:"3"`
	Peer *Peer216           `json:"peer,omitempty" protobuf:"bytes,4,opt,name=peer" thrift:"4"`
	S    string             `json:"s,omitempty" protobuf:"bytes,5,opt,name=s" thrift:"5"`
	X00  int64              `json:"x0,omitempty" protobuf:"varint,20,opt,name=x0" thrift:"20"`
	X01  int64              `json:"x1,omitempty" protobuf:"varint,21,opt,name=x1" thrift:"21"`
	X02  int64              `json:"x2,omitempty" protobuf:"varint,22,opt,name=x2" thrift:"22"`
	X03  int64              `json:"x3,omitempty" protobuf:"varint,23,opt,name=x3" thrift:"23"`
	X04  int64              `json:"x4,omitempty" protobuf:"varint,24,opt,name=x4" thrift:"24"`
	X05  int64              `json:"x5,omitempty" protobuf:"varint,25,opt,name=x5" thrift:"25"`
	X06  int64              `json:"x6,omitempty" protobuf:"varint,26,opt,name=x6" thrift:"26"`
	X07  int64              `json:"x7,omitempty" protobuf:"varint,27,opt,name=x7" thrift:"27"`
	X08  int64              `json:"x8,omitempty" protobuf:"varint,28,opt,name=x8" thrift:"28"`
	X09  int64              `json:"x9,omitempty" protobuf:"varint,29,opt,name=x9" thrift:"29"`
	X10  int64              `json:"x10,omitempty" protobuf:"varint,30,opt,name=x10" thrift:"30"`
	X11  int64              `json:"x11,omitempty" protobuf:"varint,31,opt,name=x11" thrift:"31"`
	X12  int64              `json:"x12,omitempty" protobuf:"varint,32,opt,name=x12" thrift:"32"`
	X13  int64              `json:"x13,omitempty" protobuf:"varint,33,opt,name=x13" thrift:"33"`
	X14  int64              `json:"x14,omitempty" protobuf:"varint,34,opt,name=x14" thrift:"34"`
	X15  int64              `json:"x15,omitempty" protobuf:"varint,35,opt,name=x15" thrift:"35"`
	X16  int64              `json:"x16,omitempty" protobuf:"varint,36,opt,name=x16" thrift:"36"`
	X17  int64              `json:"x17,omitempty" protobuf:"varint,37,opt,name=x17" thrift:"37"`
	X18  int64              `json:"x18,omitempty" protobuf:"varint,38,opt,name=x18" thrift:"38"`
	X19  int64              `json:"x19,omitempty" protobuf:"varint,39,opt,name=x19" thrift:"39"`
	X20  int64              `json:"x20,omitempty" protobuf:"varint,40,opt,name=x20" thrift:"40"`
	X21  int64              `json:"x21,omitempty" protobuf:"varint,41,opt,name=x21" thrift:"41"`
	X22  int64              `json:"x22,omitempty" protobuf:"varint,42,opt,name=x22" thrift:"42"`
	X23  int64              `json:"x23,omitempty" protobuf:"varint,43,opt,name=x23" thrift:"43"`
}

type Peer216 struct {
	Back *Rec216   `json:"back,omitempty" protobuf:"bytes,1,opt,name=back" thrift:"1"`
	List []*Rec216 `json:"list,omitempty" protobuf:"bytes,2,rep,name=list" thrift:"2"`
	B    bool      `json:"b" protobuf:"varint,3,opt,name=b" thrift:"3"`
}

type Rec217 struct {
	M    map[string]Peer217 `json:"m,omitempty" protobuf:"bytes,6,rep,name=m" protobuf_key:"bytes,1,opt,name=key" protobuf_val:"bytes,2,opt,name=value" thrift:"6"`
	V    int64              `json:"v" protobuf:"varint,1,opt,name=v" thrift:"1"`
	Next *Rec217            `json:"next,omitempty" protobuf:"bytes,2,opt,name=next" thrift:"2"`
	Kids []Rec217           `json:"kids,omitempty" protobuf:"bytes,3,rep,name=kids" thrift:"3"`
	Peer *Peer217           `json:"peer,omitempty" protobuf:"bytes,4,opt,name=peer" thrift:"4"`
	S    string             `json:"s,omitempty" protobuf:"bytes,5,opt,name=s" thrift:"5"`
	X00  int64              `json:"x0,omitempty" protobuf:"varint,20,opt,name=x0" thrift:"20"`
	X01  int64              `json:"x1,omitempty" protobuf:"varint,21,opt,name=x1" thrift:"21"`
	X02  int64              `json:"x2,omitempty" protobuf:"varint,22,opt,name=x2" thrift:"22"`
	X03  int64              `json:"x3,omitempty" protobuf:"varint,23,opt,name=x3" thrift:"23"`
	X04  int64              `json:"x4,omitempty" protobuf:"varint,24,opt,name=x4" thrift:"24"`
	X05  int64              `json:"x5,omitempty" protobuf:"varint,25,opt,name=x5" thrift:"25"`
	X06  int64              `json:"x6,omitempty" protobuf:"varint,26,opt,name=x6" thrift:"26"`
	X07  int64              `json:"x7,omitempty" protobuf:"varint,27,opt,name=x7" thrift:"27"`
	X08  int64              `json:"x8,omitempty" protobuf:"varint,28,opt,name=x8" thrift:"28"`
	X09  int64              `json:"x9,omitempty" protobuf:"varint,29,opt,name=x9" thrift:"29"`
	X10  int64              `json:"x10,omitempty" protobuf:"varint,30,opt,name=x10" thrift:"30"`
	X11  int64              `json:"x11,omitempty" protobuf:"varint,31,opt,name=x11" thrift:"31"`
	X12  int64              `json:"x12,omitempty" protobuf:"varint,32,opt,name=x12" thrift:"32"`
	X13  int64              `json:"x13,omitempty" protobuf:"varint,33,opt,name=x13" thrift:"33"`
	X14  int64              `json:"x14,omitempty" protobuf:"varint,34,opt,name=x14" thrift:"34"`
	X15  int64              `json:"x15,omitempty" protobuf:"varint,35,opt,name=x15" thrift:"35"`
	X16  int64              `json:"x16,omitempty" protobuf:"varint,36,opt,name=x16" thrift:"36"`
	X17  int64              `json:"x17,omitempty" protobuf:"varint,37,opt,name=x17" thrift:"37"`
	X18  int64              `json:"x18,omitempty" protobuf:"varint,38,opt,name=x18" thrift:"38"`
	X19  int64              `json:"x19,omitempty" protobuf:"varint,39,opt,name=x19" thrift:"39"`
	X20  int64              `json:"x20,omitempty" protobuf:"varint,40,opt,name=x20" thrift:"40"`
	X21  int64              `json:"x21,omitempty" protobuf:"varint,41,opt,name=x21" thrift:"41"`
	X22  int64              `json:"x22,omitempty" protobuf:"varint,42,opt,name=x22" thrift:"42"`
	X23  int64              `json:"x23,omitempty" protobuf:"varint,43,opt,name=x23" thrift:"43"`
}

type Peer217 struct {
	Back *Rec217   `json:"back,omitempty" protobuf:"bytes,1,opt,name=back" thrift:"1"`
	List []*Rec217 `json:"list,omitempty" protobuf:"bytes,2,rep,name=list" thrift:"2"`
	B    bool      `json:"b" protobuf:"varint,3,opt,name=b" thrift:"3"`
}

type Rec218 struct {
	M    map[string]Peer218 `json:"m,omitempty" protobuf:"bytes,6,rep,name=m" protobuf_key:"bytes,1,opt,name=key" protobuf_val:"bytes,2,opt,name=value" thrift:"6"`
	V    int64              `json:"v" protobuf:"varint,1,opt,name=v" thrift:"1"`
	Next *Rec218            `json:"next,omitempty" protobuf:"bytes,2,opt,name=next" thrift:"2"`
	Kids []Rec218           `json:"kids,omitempty" protobuf:"bytes,3,rep,name=kids" thrift:"3"`
	Peer *Peer218           `json:"peer,omitempty" protobuf:"bytes,4,opt,name=peer" thrift:"4"`
	S    string             `json:"s,omitempty" protobuf:"bytes,5,opt,name=s" thrift:"5"`
	X00  int64              `json:"x0,omitempty" protobuf:"varint,20,opt,name=x0" thrift:"20"`
	X01  int64              `json:"x1,omitempty" protobuf:"varint,21,opt,name=x1" thrift:"21"`
	X02  int64              `json:"x2,omitempty" protobuf:"varint,22,opt,name=x2" thrift:"22"`
	X03  int64              `json:"x3,omitempty" protobuf:"varint,23,opt,name=x3" thrift:"23"`
	X04  int64              `json:"x4,omitempty" protobuf:"varint,24,opt,name=x4" thrift:"24"`
	X05  int64              `json:"x5,omitempty" protobuf:"varint,25,opt,name=x5" thrift:"25"`
	X06  int64              `json:"x6,omitempty" protobuf:"varint,26,opt,name=x6" thrift:"26"`
	X07  int64              `json:"x7,omitempty" protobuf:"varint,27,opt,name=x7" thrift:"27"`
	X08  int64              `json:"x8,omitempty" protobuf:"varint,28,opt,name=x8" thrift:"28"`
	X09  int64              `json:"x9,omitempty" protobuf:"varint,29,opt,name=x9" thrift:"29"`
	X10  int64              `json:"x10,omitempty" protobuf:"varint,30,opt,name=x10" thrift:"30"`
	X11  int64              `json:"x11,omitempty" protobuf:"varint,31,opt,name=x11" thrift:"31"`
	X12  int64              `json:"x12,omitempty" protobuf:"varint,32,opt,name=x12" thrift:"32"`
	X13  int64              `json:"x13,omitempty" protobuf:"varint,33,opt,name=x13" thrift:"33"`
	X14  int64              `json:"x14,omitempty" protobuf:"varint,34,opt,name=x14" thrift:"34"`
	X15  int64              `json:"x15,omitempty" protobuf:"varint,35,opt,name=x15" thrift:"35"`
	X16  int64              `json:"x16,omitempty" protobuf:"varint,36,opt,name=x16" thrift:"36"`
	X17  int64              `json:"x17,omitempty" protobuf:"varint,37,opt,name=x17" thrift:"37"`
	X18  int64              `json:"x18,omitempty" protobuf:"varint,38,opt,name=x18" thrift:"38"`
	X19  int64              `json:"x19,omitempty" protobuf:"varint,39,opt,name=x19" thrift:"39"`
	X20  int64              `json:"x20,omitempty" protobuf:"varint,40,opt,name=x20" thrift:"40"`
	X21  int64              `json:"x21,omitempty" protobuf:"varint,41,opt,name=x21" thrift:"41"`
	X22  int64              `json:"x22,omitempty" protobuf:"varint,42,opt,name=x22" thrift:"42"`
	X23  int64              `json:"x23,omitempty" protobuf:"varint,43,opt,name=x23" thrift:"43"`
}

type Peer218 struct {
	Back *Rec218   `json:"back,omitempty" protobuf:"bytes,1,opt,name=back" thrift:"1"`
	List []*Rec218 `json:"list,omitempty" protobuf:"bytes,2,rep,name=list" thrift:"2"`
	B    bool      `json:"b" protobuf:"varint,3,opt,name=b" thrift:"3"`
}

type Rec219 struct {
	M    map[string]Peer219 `json:"m,omitempty" protobuf:"bytes,6,rep,name=m" protobuf_key:"bytes,1,opt,name=key" protobuf_val:"bytes,2,opt,name=value" thrift:"6"`
	V    int64              `json:"v" protobuf:"varint,1,opt,name=v" thrift:"1"`
	Next *Rec219            `json:"next,omitempty" protobuf:"bytes,2,opt,name=next" thrift:"2"`
	Kids []Rec219           `json:"kids,omitempty" protobuf:"bytes,3,rep,name=kids" thrift:"3"`
	Peer *Peer219           `json:"peer,omitempty" protobuf:"bytes,4,opt,name=peer" thrift:"4"`
	S    string             `json:"s,omitempty" protobuf:"bytes,5,opt,name=s" thrift:"5"`
	X00  int64              `json:"x0,omitempty" protobuf:"varint,20,opt,name=x0" thrift:"20"`
	X01  int64              `json:"x1,omitempty" protobuf:"varint,21,opt,name=x1" thrift:"21"`
	X02  int64              `json:"x2,omitempty" protobuf:"varint,22,opt,name=x2" thrift:"22"`
	X03  int64              `json:"x3,omitempty" protobuf:"varint,23,opt,name=x3" thrift:"23"`
	X04  int64              `json:"x4,omitempty" protobuf:"varint,24,opt,name=x4" thrift:"24"`
	X05  int64              `json:"x5,omitempty" protobuf:"varint,25,opt,name=x5" thrift:"25"`
	X06  int64              `json:"x6,omitempty" protobuf:"varint,26,opt,name=x6" thrift:"26"`
	X07  int64              `json:"x7,omitempty" protobuf:"varint,27,opt,name=x7" thrift:"27"`
	X08  int64              `json:"x8,omitempty" protobuf:"varint,28,opt,name=x8" thrift:"28"`
	X09  int64              `json:"x9,omitempty" protobuf:"varint,29,opt,name=x9" thrift:"29"`
	X10  int64              `json:"x10,omitempty" protobuf:"varint,30,opt,name=x10" thrift:"30"`
	X11  int64              `json:"x11,omitempty" protobuf:"varint,31,opt,name=x11" thrift:"31"`
	X12  int64              `json:"x12,omitempty" protobuf:"varint,32,opt,name=x12" thrift:"32"`
	X13  int64              `json:"x13,omitempty" protobuf:"varint,33,opt,name=x13" thrift:"33"`
	X14  int64              `json:"x14,omitempty" protobuf:"varint,34,opt,name=x14" thrift:"34"`
	X15  int64              `json:"x15,omitempty" protobuf:"varint,35,opt,name=x15" thrift:"35"`
	X16  int64              `json:"x16,omitempty" protobuf:"varint,36,opt,name=x16" thrift:"36"`
	X17  int64              `json:"x17,omitempty" protobuf:"varint,37,opt,name=x17" thrift:"37"`
	X18  int64              `json:"x18,omitempty" protobuf:"varint,38,opt,name=x18" thrift:"38"`
	X19  int64              `json:"x19,omitempty" protobuf:"varint,39,opt,name=x19" thrift:"39"`
	X20  int64              `json:"x20,omitempty" protobuf:"varint,40,opt,name=x20" thrift:"40"`
	X21  int64              `json:"x21,omitempty" protobuf:"varint,41,opt,name=x21" thrift:"41"`
	X22  int64              `json:"x22,omitempty" protobuf:"varint,42,opt,name=x22" thrift:"42"`
	X23  int64              `json:"x23,omitempty" protobuf:"varint,43,opt,name=x23" thrift:"43"`
}

type Peer219 struct {
	Back *Rec219   `json:"back,omitempty" protobuf:"bytes,1,opt,name=back" thrift:"1"`
	List []*Rec219 `json:"list,omitempty" protobuf:"bytes,2,rep,name=list" thrift:"2"`
	B    bool      `json:"b" protobuf:"varint,3,opt,name=b" thrift:"3"`
}

type Rec220 struct {
	M    map[string]Peer220 `json:"m,omitempty" protobuf:"bytes,6,rep,name=m" protobuf_key:"bytes,1,opt,name=key" protobuf_val:"bytes,2,opt,name=value" thrift:"6"`
	V    int64              `json:"v" protobuf:"varint,1,opt,name=v" thrift:"1"`
	Next *Rec220            `json:"next,omitempty" protobuf:"bytes,2,opt,name=next" thrift:"2"`
	Kids []Rec220           `json:"kids,omitempty" protobuf:"bytes,3,rep,name=kids" thrift:"3"`
	Peer *Peer220           `json:"peer,omitempty" protobuf:"bytes,4,opt,name=peer" thrift:"4"`
	S    string             `json:"s,omitempty" protobuf:"bytes,5,opt,name=s" thrift:"5"`
	X00  int64              `json:"x0,omitempty" protobuf:"varint,20,opt,name=x0" thrift:"20"`
	X01  int64              `json:"x1,omitempty" protobuf:"varint,21,opt,name=x1" thrift:"21"`
	X02  int64              `json:"x2,omitempty" protobuf:"varint,22,opt,name=x2" thrift:"22"`
	X03  int64              `json:"x3,omitempty" protobuf:"varint,23,opt,name=x3" thrift:"23"`
	X04  int64              `json:"x4,omitempty" protobuf:"varint,24,opt,name=x4" thrift:"24"`
	X05  int64              `json:"x5,omitempty" protobuf:"varint,25,opt,name=x5" thrift:"25"`
	X06  int64              `json:"x6,omitempty" protobuf:"varint,26,opt,name=x6" thrift:"26"`
	X07  int64              `json:"x7,omitempty" protobuf:"varint,27,opt,name=x7" thrift:"27"`
	X08  int64              `json:"x8,omitempty" protobuf:"varint,28,opt,name=x8" thrift:"28"`
	X09  int64              `json:"x9,omitempty" protobuf:"varint,29,opt,name=x9" thrift:"29"`
	X10  int64              `json:"x10,omitempty" protobuf:"varint,30,opt,name=x10" thrift:"30"`
	X11  int64              `json:"x11,omitempty" protobuf:"varint,31,opt,name=x11" thrift:"31"`
	X12  int64              `json:"x12,omitempty" protobuf:"varint,32,opt,name=x12" thrift:"32"`
	X13  int64              `json:"x13,omitempty" protobuf:"varint,33,opt,name=x13" thrift:"33"`
	X14  int64              `json:"x14,omitempty" protobuf:"varint,34,opt,name=x14" thrift:"34"`
	X15  int64              `json:"x15,omitempty" protobuf:"varint,35,opt,name=x15" thrift:"35"`
	X16  int64              `json:"x16,omitempty" protobuf:"varint,36,opt,name=x16" thrift:"36"`
	X17  int64              `json:"x17,omitempty" protobuf:"varint,37,opt,name=x17" thrift:"37"`
	X18  int64              `json:"x18,omitempty" protobuf:"varint,38,opt,name=x18" thrift:"38"`
	X19  int64              `json:"x19,omitempty" protobuf:"varint,39,opt,name=x19" thrift:"39"`
	X20  int64              `json:"x20,omitempty" protobuf:"varint,40,opt,name=x20" thrift:"40"`
	X21  int64              `json:"x21,omitempty" protobuf:"varint,41,opt,name=x21" thrift:"41"`
	X22  int64              `json:"x22,omitempty" protobuf:"varint,42,opt,name=x22" thrift:"42"`
	X23  int64              `json:"x23,omitempty" protobuf:"varint,43,opt,name=x23" thrift:"43"`
}

type Peer220 struct {
	Back *Rec220   `json:"back,omitempty" protobuf:"bytes,1,opt,name=back" thrift:"1"`
	List []*Rec220 `json:"list,omitempty" protobuf:"bytes,2,rep,name=list" thrift:"2"`
	B    bool      `json:"b" protobuf:"varint,3,opt,name=b" thrift:"3"`
}

type Rec221 struct {
	M    map[string]Peer221 `json:"m,omitempty" protobuf:"bytes,6,rep,name=m" protobuf_key:"bytes,1,opt,name=key" protobuf_val:"bytes,2,opt,name=value" thrift:"6"`
	V    int64              `json:"v" protobuf:"varint,1,opt,name=v" thrift:"1"`
	Next *Rec221            `json:"next,omitempty" protobuf:"bytes,2,opt,name=next" thrift:"2"`
	Kids []Rec221           `json:"kids,omitempty" protobuf:"bytes,3,rep,name=kids" thrift:"3"`
	Peer *Peer221           `json:"peer,omitempty" protobuf:"bytes,4,opt,name=peer" thrift:"4"`
	S    string             `json:"s,omitempty" protobuf:"bytes,5,opt,name=s" thrift:"5"`
	X00  int64              `json:"x0,omitempty" protobuf:"varint,20,opt,name=x0" thrift:"20"`
	X01  int64              `json:"x1,omitempty" protobuf:"varint,21,opt,name=x1" thrift:"21"`
	X02  int64              `json:"x2,omitempty" protobuf:"varint,22,opt,name=x2" thrift:"22"`
	X03  int64              `json:"x3,omitempty" protobuf:"varint,23,opt,name=x3" thrift:"23"`
	X04  int64              `json:"x4,omitempty" protobuf:"varint,24,opt,name=x4" thrift:"24"`
	X05  int64              `json:"x5,omitempty" protobuf:"varint,25,opt,name=x5" thrift:"25"`
	X06  int64              `json:"x6,omitempty" protobuf:"varint,26,opt,name=x6" thrift:"26"`
	X07  int64              `json:"x7,omitempty" protobuf:"varint,27,opt,name=x7" thrift:"27"`
	X08  int64              `json:"x8,omitempty" protobuf:"varint,28,opt,name=x8" thrift:"28"`
	X09  int64              `json:"x9,omitempty" protobuf:"varint,29,opt,name=x9" thrift:"29"`
	X10  int64              `json:"x10,omitempty" protobuf:"varint,30,opt,name=x10" thrift:"30"`
	X11  int64              `json:"x11,omitempty" protobuf:"varint,31,opt,name=x11" thrift:"31"`
	X12  int64              `json:"x12,omitempty" protobuf:"varint,32,opt,name=x12" thrift:"32"`
	X13  int64              `json:"x13,omitempty" protobuf:"varint,33,opt,name=x13" thrift:"33"`
	X14  int64              `json:"x14,omitempty" protobuf:"varint,34,opt,name=x14" thrift:"34"`
	X15  int64              `json:"x15,omitempty" protobuf:"varint,35,opt,name=x15" thrift:"35"`
	X16  int64              `json:"x16,omitempty" protobuf:"varint,36,opt,name=x16" thrift:"36"`
	X17  int64              `json:"x17,omitempty" protobuf:"varint,37,opt,name=x17" thrift:"37"`
	X18  int64              `json:"x18,omitempty" protobuf:"varint,38,opt,name=x18" thrift:"38"`
	X19  int64              `json:"x19,omitempty" protobuf:"varint,39,opt,name=x19" thrift:"39"`
	X20  int64              `json:"x20,omitempty" protobuf:"varint,40,opt,name=x20" thrift:"40"`
	X21  int64              `json:"x21,omitempty" protobuf:"varint,41,opt,name=x21" thrift:"41"`
	X22  int64              `json:"x22,omitempty" protobuf:"varint,42,opt,name=x22" thrift:"42"`
	X23  int64              `json:"x23,omitempty" protobuf:"varint,43,opt,name=x23" thrift:"43"`
}

type Peer221 struct {
	Back *Rec221   `json:"back,omitempty" protobuf:"bytes,1,opt,name=back" thrift:"1"`
	List []*Rec221 `json:"list,omitempty" protobuf:"bytes,2,rep,name=list" thrift:"2"`
	B    bool      `json:"b" protobuf:"varint,3,opt,name=b" thrift:"3"`
}

type Rec222 struct {
	M    map[string]Peer222 `json:"m,omitempty" protobuf:"bytes,6,rep,name=m" protobuf_key:"bytes,1,opt,name=key" protobuf_val:"bytes,2,opt,name=value" thrift:"6"`
	V    int64              `json:"v" protobuf:"varint,1,opt,name=v" thrift:"1"`
	Next *Rec222            `json:"next,omitempty" protobuf:"bytes,2,opt,name=next" thrift:"2"`
	Kids []Rec222           `json:"kids,omitempty" protobuf:"bytes,3,rep,name=kids" thrift:"3"`
	Peer *Peer222           `json:"peer,omitempty" protobuf:"bytes,4,opt,name=peer" thrift:"4"`
	S    string             `json:"s,omitempty" protobuf:"bytes,5,opt,name=s" thrift:"5"`
	X00  int64              `json:"x0,omitempty" protobuf:"varint,20,opt,name=x0" thrift:"20"`
	X01  int64              `json:"x1,omitempty" protobuf:"varint,21,opt,name=x1" thrift:"21"`
	X02  int64              `json:"x2,omitempty" protobuf:"varint,22,opt,name=x2" thrift:"22"`
	X03  int64              `json:"x3,omitempty" protobuf:"varint,23,opt,name=x3" thrift:"23"`
	X04  int64              `json:"x4,omitempty" protobuf:"varint,24,opt,name=x4" thrift:"24"`
	X05  int64              `json:"x5,omitempty" protobuf:"varint,25,opt,name=x5" thrift:"25"`
	X06  int64              `json:"x6,omitempty" protobuf:"varint,26,opt,name=x6" thrift:"26"`
	X07  int64              `json:"x7,omitempty" protobuf:"varint,27,opt,name=x7" thrift:"27"`
	X08  int64              `json:"x8,omitempty" protobuf:"varint,28,opt,name=x8" thrift:"28"`
	X09  int64              `json:"x9,omitempty" protobuf:"varint,29,opt,name=x9" thrift:"29"`
	X10  int64              `json:"x10,omitempty" protobuf:"varint,30,opt,name=x10" thrift:"30"`
	X11  int64              `json:"x11,omitempty" protobuf:"varint,31,opt,name=x11" thrift:"31"`
	X12  int64              `json:"x12,omitempty" protobuf:"varint,32,opt,name=x12" thrift:"32"`
	X13  int64              `json:"x13,omitempty" protobuf:"varint,33,opt,name=x13" thrift:"33"`
	X14  int64              `json:"x14,omitempty" protobuf:"varint,34,opt,name=x14" thrift:"34"`
	X15  int64              `json:"x15,omitempty" protobuf:"varint,35,opt,name=x15" thrift:"35"`
	X16  int64              `json:"x16,omitempty" protobuf:"varint,36,opt,name=x16" thrift:"36"`
	X17  int64              `json:"x17,omitempty" protobuf:"varint,37,opt,name=x17" thrift:"37"`
	X18  int64              `json:"x18,omitempty" protobuf:"varint,38,opt,name=x18" thrift:"38"`
	X19  int64              `json:"x19,omitempty" protobuf:"varint,39,opt,name=x19" thrift:"39"`
	X20  int64              `json:"x20,omitempty" protobuf:"varint,40,opt,name=x20" thrift:"40"`
	X21  int64              `json:"x21,omitempty" protobuf:"varint,41,opt,name=x21" thrift:"41"`
	X22  int64              `json:"x22,omitempty" protobuf:"varint,42,opt,name=x22" thrift:"42"`
	X23  int64              `json:"x23,omitempty" protobuf:"varint,43,opt,name=x23" thrift:"43"`
}

type Peer222 struct {
	Back *Rec222   `json:"back,omitempty" protobuf:"bytes,1,opt,name=back" thrift:"1"`
	List []*Rec222 `json:"list,omitempty" protobuf:"bytes,2,rep,name=list" thrift:"2"`
	B    bool      `json:"b" protobuf:"varint,3,opt,name=b" thrift:"3"`
}

type Rec223 struct {
	M    map[string]Peer223 `json:"m,omitempty" protobuf:"bytes,6,rep,name=m" protobuf_key:"bytes,1,opt,name=key" protobuf_val:"bytes,2,opt,name=value" thrift:"6"`
	V    int64              `json:"v" protobuf:"varint,1,opt,name=v" thrift:"1"`
	Next *Rec223            `json:"next,omitempty" protobuf:"bytes,2,opt,name=next" thrift:"2"`
	Kids []Rec223           `json:"kids,omitempty" protobuf:"bytes,3,rep,name=kids" thrift:"3"`
	Peer *Peer223           `json:"peer,omitempty" protobuf:"bytes,4,opt,name=peer" thrift:"4"`
	S    string             `json:"s,omitempty" protobuf:"bytes,5,opt,name=s" thrift:"5"`
	X00  int64              `json:"x0,omitempty" protobuf:"varint,20,opt,name=x0" thrift:"20"`
	X01  int64              `json:"x1,omitempty" protobuf:"varint,21,opt,name=x1" thrift:"21"`
	X02  int64              `json:"x2,omitempty" protobuf:"varint,22,opt,name=x2" thrift:"22"`
	X03  int64              `json:"x3,omitempty" protobuf:"varint,23,opt,name=x3" thrift:"23"`
	X04  int64              `json:"x4,omitempty" protobuf:"varint,24,opt,name=x4" thrift:"24"`
	X05  int64              `json:"x5,omitempty" protobuf:"varint,25,opt,name=x5" thrift:"25"`
	X06  int64              `json:"x6,omitempty" protobuf:"varint,26,opt,name=x6" thrift:"26"`
	X07  int64              `json:"x7,omitempty" protobuf:"varint,27,opt,name=x7" thrift:"27"`
	X08  int64              `json:"x8,omitempty" protobuf:"varint,28,opt,name=x8" thrift:"28"`
	X09  int64              `json:"x9,omitempty" protobuf:"varint,29,opt,name=x9" thrift:"29"`
	X10  int64              `json:"x10,omitempty" protobuf:"varint,30,opt,name=x10" thrift:"30"`
	X11  int64              `json:"x11,omitempty" protobuf:"varint,31,opt,name=x11" thrift:"31"`
	X12  int64              `json:"x12,omitempty" protobuf:"varint,32,opt,name=x12" thrift:"32"`
	X13  int64              `json:"x13,omitempty" protobuf:"varint,33,opt,name=x13" thrift:"33"`
	X14  int64              `json:"x14,omitempty" protobuf:"varint,34,opt,name=x14" thrift:"34"`
	X15  int64              `json:"x15,omitempty" protobuf:"varint,35,opt,name=x15" thrift:"35"`
	X16  int64              `json:"x16,omitempty" protobuf:"varint,36,opt,name=x16" thrift:"36"`
	X17  int64              `json:"x17,omitempty" protobuf:"varint,37,opt,name=x17" thrift:"37"`
	X18  int64              `json:"x18,omitempty" protobuf:"varint,38,opt,name=x18" thrift:"38"`
	X19  int64              `json:"x19,omitempty" protobuf:"varint,39,opt,name=x19" thrift:"39"`
	X20  int64              `json:"x20,omitempty" protobuf:"varint,40,opt,name=x20" thrift:"40"`
	X21  int64              `json:"x21,omitempty" protobuf:"varint,41,opt,name=x21" thrift:"41"`
	X22  int64              `json:"x22,omitempty" protobuf:"varint,42,opt,name=x22" thrift:"42"`
	X23  int64              `json:"x23,omitempty" protobuf:"varint,43,opt,name=x23" thrift:"43"`
}

type Peer223 struct {
	Back *Rec223   `json:"back,omitempty" protobuf:"bytes,1,opt,name=back" thrift:"1"`
	List []*Rec223 `json:"list,omitempty" protobuf:"bytes,2,rep,name=list" thrift:"2"`
	B    bool      `json:"b" protobuf:"varint,3,opt,name=b" thrift:"3"`
}

type Rec224 struct {
	M    map[string]Peer224 `json:"m,omitempty" protobuf:"bytes,6,rep,name=m" protobuf_key:"bytes,1,opt,name=key" protobuf_val:"bytes,2,opt,name=value" thrift:"6"`
	V    int64              `json:"v" protobuf:"varint,1,opt,name=v" thrift:"1"`
	Next *Rec224            `json:"next,omitempty" protobuf:"bytes,2,opt,name=next" thrift:"2"`
	Kids []Rec224           `json:"kids,omitempty" protobuf:"bytes,3,rep,name=kids" thrift:"3"`
	Peer *Peer224           `json:"peer,omitempty" protobuf:"bytes,4,opt,name=peer" thrift:"4"`
	S    string             `json:"s,omitempty" protobuf:"bytes,5,opt,name=s" thrift:"5"`
	X00  int64              `json:"x0,omitempty" protobuf:"varint,20,opt,name=x0" thrift:"20"`
	X01  int64              `json:"x1,omitempty" protobuf:"varint,21,opt,name=x1" thrift:"21"`
	X02  int64              `json:"x2,omitempty" protobuf:"varint,22,opt,name=x2" thrift:"22"`
	X03  int64              `json:"x3,omitempty" protobuf:"varint,23,opt,name=x3" thrift:"23"`
	X04  int64              `json:"x4,omitempty" protobuf:"varint,24,opt,name=x4" thrift:"24"`
	X05  int64              `json:"x5,omitempty" protobuf:"varint,25,opt,name=x5" thrift:"25"`
	X06  int64              `json:"x6,omitempty" protobuf:"varint,26,opt,name=x6" thrift:"26"`
	X07  int64              `json:"x7,omitempty" protobuf:"varint,27,opt,name=x7" thrift:"27"`
	X08  int64              `json:"x8,omitempty" protobuf:"varint,28,opt,name=x8" thrift:"28"`
	X09  int64              `json:"x9,omitempty" protobuf:"varint,29,opt,name=x9" thrift:"29"`
	X10  int64              `json:"x10,omitempty" protobuf:"varint,30,opt,name=x10" thrift:"30"`
	X11  int64              `json:"x11,omitempty" protobuf:"varint,31,opt,name=x11" thrift:"31"`
	X12  int64              `json:"x12,omitempty" protobuf:"varint,32,opt,name=x12" thrift:"32"`
	X13  int64              `json:"x13,omitempty" protobuf:"varint,33,opt,name=x13" thrift:"33"`
	X14  int64              `json:"x14,omitempty" protobuf:"varint,34,opt,name=x14" thrift:"34"`
	X15  int64              `json:"x15,omitempty" protobuf:"varint,35,opt,name=x15" thrift:"35"`
	X16  int64              `json:"x16,omitempty" protobuf:"varint,36,opt,name=x16" thrift:"36"`
	X17  int64              `json:"x17,omitempty" protobuf:"varint,37,opt,name=x17" thrift:"37"`
	X18  int64              `json:"x18,omitempty" protobuf:"varint,38,opt,name=x18" thrift:"38"`
	X19  int64              `json:"x19,omitempty" protobuf:"varint,39,opt,name=x19" thrift:"39"`
	X20  int64              `json:"x20,omitempty" protobuf:"varint,40,opt,name=x20" thrift:"40"`
	X21  int64              `json:"x21,omitempty" protobuf:"varint,41,opt,name=x21" thrift:"41"`
	X22  int64              `json:"x22,omitempty" protobuf:"varint,42,opt,name=x22" thrift:"42"`
	X23  int64              `json:"x23,omitempty" protobuf:"varint,43,opt,name=x23" thrift:"43"`
}

type Peer224 struct {
	Back *Rec224   `json:"back,omitempty" protobuf:"bytes,1,opt,name=back" thrift:"1"`
	List []*Rec224 `json:"list,omitempty" protobuf:"bytes,2,rep,name=list" thrift:"2"`
	B    bool      `json:"b" protobuf:"varint,3,opt,name=b" thrift:"3"`
}

type Rec225 struct {
	M    map[string]Peer225 `json:"m,omitempty" protobuf:"bytes,6,rep,name=m" protobuf_key:"bytes,1,opt,name=key" protobuf_val:"bytes,2,opt,name=value" thrift:"6"`
	V    int64              `json:"v" protobuf:"varint,1,opt,name=v" thrift:"1"`
	Next *Rec225            `json:"next,omitempty" protobuf:"bytes,2,opt,name=next" thrift:"2"`
	Kids []Rec225           `json:"kids,omitempty" protobuf:"bytes,3,rep,name=kids" thrift:"3"`
	Peer *Peer225           `json:"peer,omitempty" protobuf:"bytes,4,opt,name=peer" thrift:"4"`
	S    string             `json:"s,omitempty" protobuf:"bytes,5,opt,name=s" thrift:"5"`
	X00  int64              `json:"x0,omitempty" protobuf:"varint,20,opt,name=x0" thrift:"20"`
	X01  int64              `json:"x1,omitempty" protobuf:"varint,21,opt,name=x1" thrift:"21"`
	X02  int64              `json:"x2,omitempty" protobuf:"varint,22,opt,name=x2" thrift:"22"`
	X03  int64              `json:"x3,omitempty" protobuf:"varint,23,opt,name=x3" thrift:"23"`
	X04  int64              `json:"x4,omitempty" protobuf:"varint,24,opt,name=x4" thrift:"24"`
	X05  int64              `json:"x5,omitempty" protobuf:"varint,25,opt,name=x5" thrift:"25"`
	X06  int64              `json:"x6,omitempty" protobuf:"varint,26,opt,name=x6" thrift:"26"`
	X07  int64              `json:"x7,omitempty" protobuf:"varint,27,opt,name=x7" thrift:"27"`
	X08  int64              `json:"x8,omitempty" protobuf:"varint,28,opt,name=x8" thrift:"28"`
	X09  int64              `json:"x9,omitempty" protobuf:"varint,29,opt,name=x9" thrift:"29"`
	X10  int64              `json:"x10,omitempty" protobuf:"varint,30,opt,name=x10" thrift:"30"`
	X11  int64              `json:"x11,omitempty" protobuf:"varint,31,opt,name=x11" thrift:"31"`
	X12  int64              `json:"x12,omitempty" protobuf:"varint,32,opt,name=x12" thrift:"32"`
	X13  int64              `json:"x13,omitempty" protobuf:"varint,33,opt,name=x13" thrift:"33"`
	X14  int64              `json:"x14,omitempty" protobuf:"varint,34,opt,name=x14" thrift:"34"`
	X15  int64              `json:"x15,omitempty" protobuf:"varint,35,opt,name=x15" thrift:"35"`
	X16  int64              `json:"x16,omitempty" protobuf:"varint,36,opt,name=x16" thrift:"36"`
	X17  int64              `json:"x17,omitempty" protobuf:"varint,37,opt,name=x17" thrift:"37"`
	X18  int64              `json:"x18,omitempty" protobuf:"varint,38,opt,name=x18" thrift:"38"`
	X19  int64              `json:"x19,omitempty" protobuf:"varint,39,opt,name=x19" thrift:"39"`
	X20  int64              `json:"x20,omitempty" protobuf:"varint,40,opt,name=x20" thrift:"40"`
	X21  int64              `json:"x21,omitempty" protobuf:"varint,41,opt,name=x21" thrift:"41"`
	X22  int64              `json:"x22,omitempty" protobuf:"varint,42,opt,name=x22" thrift:"42"`
	X23  int64              `json:"x23,omitempty" protobuf:"varint,43,opt,name=x23" thrift:"43"`
}

type Peer225 struct {
	Back *Rec225   `json:"back,omitempty" protobuf:"bytes,1,opt,name=back" thrift:"1"`
	List []*Rec225 `json:"list,omitempty" protobuf:"bytes,2,rep,name=list" thrift:"2"`
	B    bool      `json:"b" protobuf:"varint,3,opt,name=b" thrift:"3"`
}

type Rec226 struct {
	M    map[string]Peer226 `json:"m,omitempty" protobuf:"bytes,6,rep,name=m" protobuf_key:"bytes,1,opt,name=key" protobuf_val:"bytes,2,opt,name=value" thrift:"6"`
	V    int64              `json:"v" protobuf:"varint,1,opt,name=v" thrift:"1"`
	Next *Rec226            `json:"next,omitempty" protobuf:"bytes,2,opt,name=next" thrift:"2"`
	Kids []Rec226           `json:"kids,omitempty" protobuf:"bytes,3,rep,name=kids" thrift:"3"`
	Peer *Peer226           `json:"peer,omitempty" protobuf:"bytes,4,opt,name=peer" thrift:"4"`
	S    string             `json:"s,omitempty" protobuf:"bytes,5,opt,name=s" thrift:"5"`
	X00  int64              `json:"x0,omitempty" protobuf:"varint,20,opt,name=x0" thrift:"20"`
	X01  int64              `json:"x1,omitempty" protobuf:"varint,21,opt,name=x1" thrift:"21"`
	X02  int64              `json:"x2,omitempty" protobuf:"varint,22,opt,name=x2" thrift:"22"`
	X03  int64              `json:"x3,omitempty" protobuf:"varint,23,opt,name=x3" thrift:"23"`
	X04  int64              `json:"x4,omitempty" protobuf:"varint,24,opt,name=x4" thrift:"24"`
	X05  int64              `json:"x5,omitempty" protobuf:"varint,25,opt,name=x5" thrift:"25"`
	X06  int64              `json:"x6,omitempty" protobuf:"varint,26,opt,name=x6" thrift:"26"`
	X07  int64              `json:"x7,omitempty" protobuf:"varint,27,opt,name=x7" thrift:"27"`
	X08  int64              `json:"x8,omitempty" protobuf:"varint,28,opt,name=x8" thrift:"28"`
	X09  int64              `json:"x9,omitempty" protobuf:"varint,29,opt,name=x9" thrift:"29"`
	X10  int64              `json:"x10,omitempty" protobuf:"varint,30,opt,name=x10" thrift:"30"`
	X11  int64              `json:"x11,omitempty" protobuf:"varint,31,opt,name=x11" thrift:"31"`
	X12  int64              `json:"x12,omitempty" protobuf:"varint,32,opt,name=x12" thrift:"32"`
	X13  int64              `json:"x13,omitempty" protobuf:"varint,33,opt,name=x13" thrift:"33"`
	X14  int64              `json:"x14,omitempty" protobuf:"varint,34,opt,name=x14" thrift:"34"`
	X15  int64              `json:"x15,omitempty" protobuf:"varint,35,opt,name=x15" thrift:"35"`
	X16  int64              `json:"x16,omitempty" protobuf:"varint,36,opt,name=x16" thrift:"36"`
	X17  int64              `json:"x17,omitempty" protobuf:"varint,37,opt,name=x17" thrift:"37"`
	X18  int64              `json:"x18,omitempty" protobuf:"varint,38,opt,name=x18" thrift:"38"`
	X19  int64              `json:"x19,omitempty" protobuf:"varint,39,opt,name=x19" thrift:"39"`
	X20  int64              `json:"x20,omitempty" protobuf:"varint,40,opt,name=x20" thrift:"40"`
	X21  int64              `json:"x21,omitempty" protobuf:"varint,41,opt,name=x21" thrift:"41"`
	X22  int64              `json:"x22,omitempty" protobuf:"varint,42,opt,name=x22" thrift:"42"`
	X23  int64              `json:"x23,omitempty" protobuf:"varint,43,opt,name=x23" thrift:"43"`
}

type Peer226 struct {
	Back *Rec226   `json:"back,omitempty" protobuf:"bytes,1,opt,name=back" thrift:"1"`
	List []*Rec226 `json:"list,omitempty" protobuf:"bytes,2,rep,name=list" thrift:"2"`
	B    bool      `json:"b" protobuf:"varint,3,opt,name=b" thrift:"3"`
}

type Rec227 struct {
	M    map[string]Peer227 `json:"m,omitempty" protobuf:"bytes,6,rep,name=m" protobuf_key:"bytes,1,opt,name=key" protobuf_val:"bytes,2,opt,name=value" thrift:"6"`
	V    int64              `json:"v" protobuf:"varint,1,opt,name=v" thrift:"1"`
	Next *Rec227            `json:"next,omitempty" protobuf:"bytes,2,opt,name=next" thrift:"2"`
	Kids []Rec227           `json:"kids,omitempty" protobuf:"bytes,3,rep,name=kids" thrift:"3"`
	Peer *Peer227           `json:"peer,omitempty" protobuf:"bytes,4,opt,name=peer" thrift:"4"`
	S    string             `json:"s,omitempty" protobuf:"bytes,5,opt,name=s" thrift:"5"`
	X00  int64              `json:"x0,omitempty" protobuf:"varint,20,opt,name=x0" thrift:"20"`
	X01  int64              `json:"x1,omitempty" protobuf:"varint,21,opt,name=x1" thrift:"21"`
	X02  int64              `json:"x2,omitempty" protobuf:"varint,22,opt,name=x2" thrift:"22"`
	X03  int64              `json:"x3,omitempty" protobuf:"varint,23,opt,name=x3" thrift:"23"`
	X04  int64              `json:"x4,omitempty" protobuf:"varint,24,opt,name=x4" thrift:"24"`
	X05  int64              `json:"x5,omitempty" protobuf:"varint,25,opt,name=x5" thrift:"25"`
	X06  int64              `json:"x6,omitempty" protobuf:"varint,26,opt,name=x6" thrift:"26"`
	X07  int64              `json:"x7,omitempty" protobuf:"varint,27,opt,name=x7" thrift:"27"`
	X08  int64              `json:"x8,omitempty" protobuf:"varint,28,opt,name=x8" thrift:"28"`
	X09  int64              `json:"x9,omitempty" protobuf:"varint,29,opt,name=x9" thrift:"29"`
	X10  int64              `json:"x10,omitempty" protobuf:"varint,30,opt,name=x10" thrift:"30"`
	X11  int64              `json:"x11,omitempty" protobuf:"varint,31,opt,name=x11" thrift:"31"`
	X12  int64              `json:"x12,omitempty" protobuf:"varint,32,opt,name=x12" thrift:"32"`
	X13  int64              `json:"x13,omitempty" protobuf:"varint,33,opt,name=x13" thrift:"33"`
	X14  int64              `json:"x14,omitempty" protobuf:"varint,34,opt,name=x14" thrift:"34"`
	X15  int64              `json:"x15,omitempty" protobuf:"varint,35,opt,name=x15" thrift:"35"`
	X16  int64              `json:"x16,omitempty" protobuf:"varint,36,opt,name=x16" thrift:"36"`
	X17  int64              `json:"x17,omitempty" protobuf:"varint,37,opt,name=x17" thrift:"37"`
	X18  int64              `json:"x18,omitempty" protobuf:"varint,38,opt,name=x18" thrift:"38"`
	X19  int64              `json:"x19,omitempty" protobuf:"varint,39,opt,name=x19" thrift:"39"`
	X20  int64              `json:"x20,omitempty" protobuf:"varint,40,opt,name=x20" thrift:"40"`
	X21  int64              `json:"x21,omitempty" protobuf:"varint,41,opt,name=x21" thrift:"41"`
	X22  int64              `json:"x22,omitempty" protobuf:"varint,42,opt,name=x22" thrift:"42"`
	X23  int64              `json:"x23,omitempty" protobuf:"varint,43,opt,name=x23" thrift:"43"`
}

type Peer227 struct {
	Back *Rec227   `json:"back,omitempty" protobuf:"bytes,1,opt,name=back" thrift:"1"`
	List []*Rec227 `json:"list,omitempty" protobuf:"bytes,2,rep,name=list" thrift:"2"`
	B    bool      `json:"b" protobuf:"varint,3,opt,name=b" thrift:"3"`
}

type Rec228 struct {
	M    map[string]Peer228 `json:"m,omitempty" protobuf:"bytes,6,rep,name=m" protobuf_key:"bytes,1,opt,name=key" protobuf_val:"bytes,2,opt,name=value" thrift:"6"`
	V    int64              `json:"v" protobuf:"varint,1,opt,name=v" thrift:"1"`
	Next *Rec228            `json:"next,omitempty" protobuf:"bytes,2,opt,name=next" thrift:"2"`
	Kids []Rec228           `json:"kids,omitempty" protobuf:"bytes,3,rep,name=kids" thrift:"3"`
	Peer *Peer228           `json:"peer,omitempty" protobuf:"bytes,4,opt,name=peer" thrift:"4"`
	S    string             `json:"s,omitempty" protobuf:"bytes,5,opt,name=s" thrift:"5"`
	X00  int64              `json:"x0,omitempty" protobuf:"varint,20,opt,name=x0" thrift:"20"`
	X01  int64              `json:"x1,omitempty" protobuf:"varint,21,opt,name=x1" thrift:"21"`
	X02  int64              `json:"x2,omitempty" protobuf:"varint,22,opt,name=x2" thrift:"22"`
	X03  int64              `json:"x3,omitempty" protobuf:"varint,23,opt,name=x3" thrift:"23"`
	X04  int64              `json:"x4,omitempty" protobuf:"varint,24,opt,name=x4" thrift:"24"`
	X05  int64              `json:"x5,omitempty" protobuf:"varint,25,opt,name=x5" thrift:"25"`
	X06  int64              `json:"x6,omitempty" protobuf:"varint,26,opt,name=x6" thrift:"26"`
	X07  int64              `json:"x7,omitempty" protobuf:"varint,27,opt,name=x7" thrift:"27"`
	X08  int64              `json:"x8,omitempty" protobuf:"varint,28,opt,name=x8" thrift:"28"`
	X09  int64              `json:"x9,omitempty" protobuf:"varint,29,opt,name=x9" thrift:"29"`
	X10  int64              `json:"x10,omitempty" protobuf:"varint,30,opt,name=x10" thrift:"30"`
	X11  int64              `json:"x11,omitempty" protobuf:"varint,31,opt,name=x11" thrift:"31"`
	X12  int64              `json:"x12,omitempty" protobuf:"varint,32,opt,name=x12" thrift:"32"`
	X13  int64              `json:"x13,omitempty" protobuf:"varint,33,opt,name=x13" thrift:"33"`
	X14  int64              `json:"x14,omitempty" protobuf:"varint,34,opt,name=x14" thrift:"34"`
	X15  int64              `json:"x15,omitempty" protobuf:"varint,35,opt,name=x15" thrift:"35"`
	X16  int64              `json:"x16,omitempty" protobuf:"varint,36,opt,name=x16" thrift:"36"`
	X17  int64              `json:"x17,omitempty" protobuf:"varint,37,opt,name=x17" thrift:"37"`
	X18  int64              `json:"x18,omitempty" protobuf:"varint,38,opt,name=x18" thrift:"38"`
	X19  int64              `json:"x19,omitempty" protobuf:"varint,39,opt,name=x19" thrift:"39"`
	X20  int64              `json:"x20,omitempty" protobuf:"varint,40,opt,name=x20" thrift:"40"`
	X21  int64              `json:"x21,omitempty" protobuf:"varint,41,opt,name=x21" thrift:"41"`
	X22  int64              `json:"x22,omitempty" protobuf:"varint,42,opt,name=x22" thrift:"42"`
	X23  int64              `json:"x23,omitempty" protobuf:"varint,43,opt,name=x23" thrift:"43"`
}

type Peer228 struct {
	Back *Rec228   `json:"back,omitempty" protobuf:"bytes,1,opt,name=back" thrift:"1"`
	List []*Rec228 `json:"list,omitempty" protobuf:"bytes,2,rep,name=list" thrift:"2"`
	B    bool      `json:"b" protobuf:"varint,3,opt,name=b" thrift:"3"`
}

type Rec229 struct {
	M    map[string]Peer229 `json:"m,omitempty" protobuf:"bytes,6,rep,name=m" protobuf_key:"bytes,1,opt,name=key" protobuf_val:"bytes,2,opt,name=value" thrift:"6"`
	V    int64              `json:"v" protobuf:"varint,1,opt,name=v" thrift:"1"`
	Next *Rec229            `json:"next,omitempty" protobuf:"bytes,2,opt,name=next" thrift:"2"`
	Kids []Rec229           `json:"kids,omitempty" protobuf:"bytes,3,rep,name=kids" thrift:"3"`
	Peer *Peer229           `json:"peer,omitempty" protobuf:"bytes,4,opt,name=peer" thrift:"4"`
	S    string             `json:"s,omitempty" protobuf:"bytes,5,opt,name=s" thrift:"5"`
	X00  int64              `json:"x0,omitempty" protobuf:"varint,20,opt,name=x0" thrift:"20"`
	X01  int64              `json:"x1,omitempty" protobuf:"varint,21,opt,name=x1" thrift:"21"`
	X02  int64              `json:"x2,omitempty" protobuf:"varint,22,opt,name=x2" thrift:"22"`
	X03  int64              `json:"x3,omitempty" protobuf:"varint,23,opt,name=x3" thrift:"23"`
	X04  int64              `json:"x4,omitempty" protobuf:"varint,24,opt,name=x4" thrift:"24"`
	X05  int64              `json:"x5,omitempty" protobuf:"varint,25,opt,name=x5" thrift:"25"`
	X06  int64              `json:"x6,omitempty" protobuf:"varint,26,opt,name=x6" thrift:"26"`
	X07  int64              `json:"x7,omitempty" protobuf:"varint,27,opt,name=x7" thrift:"27"`
	X08  int64              `json:"x8,omitempty" protobuf:"varint,28,opt,name=x8" thrift:"28"`
	X09  int64              `json:"x9,omitempty" protobuf:"varint,29,opt,name=x9" thrift:"29"`
	X10  int64              `json:"x10,omitempty" protobuf:"varint,30,opt,name=x10" thrift:"30"`
	X11  int64              `json:"x11,omitempty" protobuf:"varint,31,opt,name=x11" thrift:"31"`
	X12  int64              `json:"x12,omitempty" protobuf:"varint,32,opt,name=x12" thrift:"32"`
	X13  int64              `json:"x13,omitempty" protobuf:"varint,33,opt,name=x13" thrift:"33"`
	X14  int64              `json:"x14,omitempty" protobuf:"varint,34,opt,name=x14" thrift:"34"`
	X15  int64              `json:"x15,omitempty" protobuf:"varint,35,opt,name=x15" thrift:"35"`
	X16  int64              `json:"x16,omitempty" protobuf:"varint,36,opt,name=x16" thrift:"36"`
	X17  int64              `json:"x17,omitempty" protobuf:"varint,37,opt,name=x17" thrift:"37"`
	X18  int64              `json:"x18,omitempty" protobuf:"varint,38,opt,name=x18" thrift:"38"`
	X19  int64              `json:"x19,omitempty" protobuf:"varint,39,opt,name=x19" thrift:"39"`
	X20  int64              `json:"x20,omitempty" protobuf:"varint,40,opt,name=x20" thrift:"40"`
	X21  int64              `json:"x21,omitempty" protobuf:"varint,41,opt,name=x21" thrift:"41"`
	X22  int64              `json:"x22,omitempty" protobuf:"varint,42,opt,name=x22" thrift:"42"`
	X23  int64              `json:"x23,omitempty" protobuf:"varint,43,opt,name=x23" thrift:"43"`
}

type Peer229 struct {
	Back *Rec229   `json:"back,omitempty" protobuf:"bytes,1,opt,name=back" thrift:"1"`
	List []*Rec229 `json:"list,omitempty" protobuf:"bytes,2,rep,name=list" thrift:"2"`
	B    bool      `json:"b" protobuf:"varint,3,opt,name=b" thrift:"3"`
}

type Rec230 struct {
	M    map[string]Peer230 `json:"m,omitempty" protobuf:"bytes,6,rep,name=m" protobuf_key:"bytes,1,opt,name=key" protobuf_val:"bytes,2,opt,name=value" thrift:"6"`
	V    int64              `json:"v" protobuf:"varint,1,opt,name=v" thrift:"1"`
	Next *Rec230            `json:"next,omitempty" protobuf:"bytes,2,opt,name=next" thrift:"2"`
	Kids []Rec230           `json:"kids,omitempty" protobuf:"bytes,3,rep,name=kids" thrift:"3"`
	Peer *Peer230           `json:"peer,omitempty" protobuf:"bytes,4,opt,name=peer" thrift:"4"`
	S    string             `json:"s,omitempty" protobuf:"bytes,5,opt,name=s" thrift:"5"`
	X00  int64              `json:"x0,omitempty" protobuf:"varint,20,opt,name=x0" thrift:"20"`
	X01  int64              `json:"x1,omitempty" protobuf:"varint,21,opt,name=x1" thrift:"21"`
	X02  int64              `json:"x2,omitempty" protobuf:"varint,22,opt,name=x2" thrift:"22"`
	X03  int64              `json:"x3,omitempty" protobuf:"varint,23,opt,name=x3" thrift:"23"`
	X04  int64              `json:"x4,omitempty" protobuf:"varint,24,opt,name=x4" thrift:"24"`
	X05  int64              `json:"x5,omitempty" protobuf:"varint,25,opt,name=x5" thrift:"25"`
	X06  int64              `json:"x6,omitempty" protobuf:"varint,26,opt,name=x6" thrift:"26"`
	X07  int64              `json:"x7,omitempty" protobuf:"varint,27,opt,name=x7" thrift:"27"`
	X08  int64              `json:"x8,omitempty" protobuf:"varint,28,opt,name=x8" thrift:"28"`
	X09  int64              `json:"x9,omitempty" protobuf:"varint,29,opt,name=x9" thrift:"29"`
	X10  int64              `json:"x10,omitempty" protobuf:"varint,30,opt,name=x10" thrift:"30"`
	X11  int64              `json:"x11,omitempty" protobuf:"varint,31,opt,name=x11" thrift:"31"`
	X12  int64              `json:"x12,omitempty" protobuf:"varint,32,opt,name=x12" thrift:"32"`
	X13  int64              `json:"x13,omitempty" protobuf:"varint,33,opt,name=x13" thrift:"33"`
	X14  int64              `json:"x14,omitempty" protobuf:"varint,34,opt,name=x14" thrift:"34"`
	X15  int64              `json:"x15,omitempty" protobuf:"varint,35,opt,name=x15" thrift:"35"`
	X16  int64              `json:"x16,omitempty" protobuf:"varint,36,opt,name=x16" thrift:"36"`
	X17  int64              `json:"x17,omitempty" protobuf:"varint,37,opt,name=x17" thrift:"37"`
	X18  int64              `json:"x18,omitempty" protobuf:"varint,38,opt,name=x18" thrift:"38"`
	X19  int64              `json:"x19,omitempty" protobuf:"varint,39,opt,name=x19" thrift:"39"`
	X20  int64              `json:"x20,omitempty" protobuf:"varint,40,opt,name=x20" thrift:"40"`
	X21  int64              `json:"x21,omitempty" protobuf:"varint,41,opt,name=x21" thrift:"41"`
	X22  int64              `json:"x22,omitempty" protobuf:"varint,42,opt,name=x22" thrift:"42"`
	X23  int64              `json:"x23,omitempty" protobuf:"varint,43,opt,name=x23" thrift:"43"`
}

type Peer230 struct {
	Back *Rec230   `json:"back,omitempty" protobuf:"bytes,1,opt,name=back" thrift:"1"`
	List []*Rec230 `json:"list,omitempty" protobuf:"bytes,2,rep,name=list" thrift:"2"`
	B    bool      `json:"b" protobuf:"varint,3,opt,name=b" thrift:"3"`
}

type Rec231 struct {
	M    map[string]Peer231 `json:"m,omitempty" protobuf:"bytes,6,rep,name=m" protobuf_key:"bytes,1,opt,name=key" protobuf_val:"bytes,2,opt,name=value" thrift:"6"`
	V    int64              `json:"v" protobuf:"varint,1,opt,name=v" thrift:"1"`
	Next *Rec231            `json:"next,omitempty" protobuf:"bytes,2,opt,name=next" thrift:"2"`
	Kids []Rec231           `json:"kids,omitempty" protobuf:"bytes,3,rep,name=kids" thrift:"3"`
	Peer *Peer231           `json:"peer,omitempty" protobuf:"bytes,4,opt,name=peer" thrift:"4"`
	S    string             `json:"s,omitempty" protobuf:"bytes,5,opt,name=s" thrift:"5"`
	X00  int64              `json:"x0,omitempty" protobuf:"varint,20,opt,name=x0" thrift:"20"`
	X01  int64              `json:"x1,omitempty" protobuf:"varint,21,opt,name=x1" thrift:"21"`
	X02  int64              `json:"x2,omitempty" protobuf:"varint,22,opt,name=x2" thrift:"22"`
	X03  int64              `json:"x3,omitempty" protobuf:"varint,23,opt,name=x3" thrift:"23"`
	X04  int64              `json:"x4,omitempty" protobuf:"varint,24,opt,name=x4" thrift:"24"`
	X05  int64              `json:"x5,omitempty" protobuf:"varint,25,opt,name=x5" thrift:"25"`
	X06  int64              `json:"x6,omitempty" protobuf:"varint,26,opt,name=x6" thrift:"26"`
	X07  int64              `json:"x7,omitempty" protobuf:"varint,27,opt,name=x7" thrift:"27"`
	X08  int64              `json:"x8,omitempty" protobuf:"varint,28,opt,name=x8" thrift:"28"`
	X09  int64              `json:"x9,omitempty" protobuf:"varint,29,opt,name=x9" thrift:"29"`
	X10  int64              `json:"x10,omitempty" protobuf:"varint,30,opt,name=x10" thrift:"30"`
	X11  int64              `json:"x11,omitempty" protobuf:"varint,31,opt,name=x11" thrift:"31"`
	X12  int64              `json:"x12,omitempty" protobuf:"varint,32,opt,name=x12" thrift:"32"`
	X13  int64              `json:"x13,omitempty" protobuf:"varint,33,opt,name=x13" thrift:"33"`
	X14  int64              `json:"x14,omitempty" protobuf:"varint,34,opt,name=x14" thrift:"34"`
	X15  int64              `json:"x15,omitempty" protobuf:"varint,35,opt,name=x15" thrift:"35"`
	X16  int64              `json:"x16,omitempty" protobuf:"varint,36,opt,name=x16" thrift:"36"`
	X17  int64              `json:"x17,omitempty" protobuf:"varint,37,opt,name=x17" thrift:"37"`
	X18  int64              `json:"x18,omitempty" protobuf:"varint,38,opt,name=x18" thrift:"38"`
	X19  int64              `json:"x19,omitempty" protobuf:"varint,39,opt,name=x19" thrift:"39"`
	X20  int64              `json:"x20,omitempty" protobuf:"varint,40,opt,name=x20" thrift:"40"`
	X21  int64              `json:"x21,omitempty" protobuf:"varint,41,opt,name=x21" thrift:"41"`
	X22  int64              `json:"x22,omitempty" protobuf:"varint,42,opt,name=x22" thrift:"42"`
	X23  int64              `json:"x23,omitempty" protobuf:"varint,43,opt,name=x23" thrift:"43"`
}

type Peer231 struct {
	Back *Rec231   `json:"back,omitempty" protobuf:"bytes,1,opt,name=back" thrift:"1"`
	List []*Rec231 `json:"list,omitempty" protobuf:"bytes,2,rep,name=list" thrift:"2"`
	B    bool      `json:"b" protobuf:"varint,3,opt,name=b" thrift:"3"`
}

type Rec232 struct {
	M    map[string]Peer232 `json:"m,omitempty" protobuf:"bytes,6,rep,name=m" protobuf_key:"bytes,1,opt,name=key" protobuf_val:"bytes,2,opt,name=value" thrift:"6"`
	V    int64              `json:"v" protobuf:"varint,1,opt,name=v" thrift:"1"`
	Next *Rec232            `json:"next,omitempty" protobuf:"bytes,2,opt,name=next" thrift:"2"`
	Kids []Rec232           `json:"kids,omitempty" protobuf:"bytes,3,rep,name=kids" thrift:"3"`
	Peer *Peer232           `json:"peer,omitempty" protobuf:"bytes,4,opt,name=peer" thrift:"4"`
	S    string             `json:"s,omitempty" protobuf:"bytes,5,opt,name=s" thrift:"5"`
	X00  int64              `json:"x0,omitempty" protobuf:"varint,20,opt,name=x0" thrift:"20"`
	X01  int64              `json:"x1,omitempty" protobuf:"varint,21,opt,name=x1" thrift:"21"`
	X02  int64              `json:"x2,omitempty" protobuf:"varint,22,opt,name=x2" thrift:"22"`
	X03  int64              `json:"x3,omitempty" protobuf:"varint,23,opt,name=x3" thrift:"23"`
	X04  int64              `json:"x4,omitempty" protobuf:"varint,24,opt,name=x4" thrift:"24"`
	X05  int64              `json:"x5,omitempty" protobuf:"varint,25,opt,name=x5" thrift:"25"`
	X06  int64              `json:"x6,omitempty" protobuf:"varint,26,opt,name=x6" thrift:"26"`
	X07  int64              `json:"x7,omitempty" protobuf:"varint,27,opt,name=x7" thrift:"27"`
	X08  int64              `json:"x8,omitempty" protobuf:"varint,28,opt,name=x8" thrift:"28"`
	X09  int64              `json:"x9,omitempty" protobuf:"varint,29,opt,name=x9" thrift:"29"`
	X10  int64              `json:"x10,omitempty" protobuf:"varint,30,opt,name=x10" thrift:"30"`
	X11  int64              `json:"x11,omitempty" protobuf:"varint,31,opt,name=x11" thrift:"31"`
	X12  int64              `json:"x12,omitempty" protobuf:"varint,32,opt,name=x12" thrift:"32"`
	X13  int64              `json:"x13,omitempty" protobuf:"varint,33,opt,name=x13" thrift:"33"`
	X14  int64              `json:"x14,omitempty" protobuf:"varint,34,opt,name=x14" thrift:"34"`
	X15  int64              `json:"x15,omitempty" protobuf:"varint,35,opt,name=x15" thrift:"35"`
	X16  int64              `json:"x16,omitempty" protobuf:"varint,36,opt,name=x16" thrift:"36"`
	X17  int64              `json:"x17,omitempty" protobuf:"varint,37,opt,name=x17" thrift:"37"`
	X18  int64              `json:"x18,omitempty" protobuf:"varint,38,opt,name=x18" thrift:"38"`
	X19  int64              `json:"x19,omitempty" protobuf:"varint,39,opt,name=x19" thrift:"39"`
	X20  int64              `json:"x20,omitempty" protobuf:"varint,40,opt,name=x20" thrift:"40"`
	X21  int64              `json:"x21,omitempty" protobuf:"varint,41,opt,name=x21" thrift:"41"`
	X22  int64              `json:"x22,omitempty" protobuf:"varint,42,opt,name=x22" thrift:"42"`
	X23  int64              `json:"x23,omitempty" protobuf:"varint,43,opt,name=x23" thrift:"43"`
}

type Peer232 struct {
	Back *Rec232   `json:"back,omitempty" protobuf:"bytes,1,opt,name=back" thrift:"1"`
	List []*Rec232 `json:"list,omitempty" protobuf:"bytes,2,rep,name=list" thrift:"2"`
	B    bool      `json:"b" protobuf:"varint,3,opt,name=b" thrift:"3"`
}

type Rec233 struct {
	M    map[string]Peer233 `json:"m,omitempty" protobuf:"bytes,6,rep,name=m" protobuf_key:"bytes,1,opt,name=key" protobuf_val:"bytes,2,opt,name=value" thrift:"6"`
	V    int64              `json:"v" protobuf:"varint,1,opt,name=v" thrift:"1"`
	Next *Rec233            `json:"next,omitempty" protobuf:"bytes,2,opt,name=next" thrift:"2"`
	Kids []Rec233           `json:"kids,omitempty" protobuf:"bytes,3,rep,name=kids" thrift:"3"`
	Peer *Peer233           `json:"peer,omitempty" protobuf:"bytes,4,opt,name=peer" thrift:"4"`
	S    string             `json:"s,omitempty" protobuf:"bytes,5,opt,name=s" thrift:"5"`
	X00  int64              `json:"x0,omitempty" protobuf:"varint,20,opt,name=x0" thrift:"20"`
	X01  int64              `json:"x1,omitempty" protobuf:"varint,21,opt,name=x1" thrift:"21"`
	X02  int64              `json:"x2,omitempty" protobuf:"varint,22,opt,name=x2" thrift:"22"`
	X03  int64              `json:"x3,omitempty" protobuf:"varint,23,opt,name=x3" thrift:"23"`
	X04  int64              `json:"x4,omitempty" protobuf:"varint,24,opt,name=x4" thrift:"24"`
	X05  int64              `json:"x5,omitempty" protobuf:"varint,25,opt,name=x5" thrift:"25"`
	X06  int64              `json:"x6,omitempty" protobuf:"varint,26,opt,name=x6" thrift:"26"`
	X07  int64              `json:"x7,omitempty" protobuf:"varint,27,opt,name=x7" thrift:"27"`
	X08  int64              `json:"x8,omitempty" protobuf:"varint,28,opt,name=x8" thrift:"28"`
	X09  int64              `json:"x9,omitempty" protobuf:"varint,29,opt,name=x9" thrift:"29"`
	X10  int64              `json:"x10,omitempty" protobuf:"varint,30,opt,name=x10" thrift:"30"`
	X11  int64              `json:"x11,omitempty" protobuf:"varint,31,opt,name=x11" thrift:"31"`
	X12  int64              `json:"x12,omitempty" protobuf:"varint,32,opt,name=x12" thrift:"32"`
	X13  int64              `json:"x13,omitempty" protobuf:"varint,33,opt,name=x13" thrift:"33"`
	X14  int64              `json:"x14,omitempty" protobuf:"varint,34,opt,name=x14" thrift:"34"`
	X15  int64              `json:"x15,omitempty" protobuf:"varint,35,opt,name=x15" thrift:"35"`
	X16  int64              `json:"x16,omitempty" protobuf:"varint,36,opt,name=x16" thrift:"36"`
	X17  int64              `json:"x17,omitempty" protobuf:"varint,37,opt,name=x17" thrift:"37"`
	X18  int64              `json:"x18,omitempty" protobuf:"varint,38,opt,name=x18" thrift:"38"`
	X19  int64              `json:"x19,omitempty" protobuf:"varint,39,opt,name=x19" thrift:"39"`
	X20  int64              `json:"x20,omitempty" protobuf:"varint,40,opt,name=x20" thrift:"40"`
	X21  int64              `json:"x21,omitempty" protobuf:"varint,41,opt,name=x21" thrift:"41"`
	X22  int64              `json:"x22,omitempty" protobuf:"varint,42,opt,name=x22" thrift:"42"`
	X23  int64              `json:"x23,omitempty" protobuf:"varint,43,opt,name=x23" thrift:"43"`
}

type Peer233 struct {
	Back *Rec233   `json:"back,omitempty" protobuf:"bytes,1,opt,name=back" thrift:"1"`
	List []*Rec233 `json:"list,omitempty" protobuf:"bytes,2,rep,name=list" thrift:"2"`
	B    bool      `json:"b" protobuf:"varint,3,opt,name=b" thrift:"3"`
}

type Rec234 struct {
	M    map[string]Peer234 `json:"m,omitempty" protobuf:"bytes,6,rep,name=m" protobuf_key:"bytes,1,opt,name=key" protobuf_val:"bytes,2,opt,name=value" thrift:"6"`
	V    int64              `json:"v" protobuf:"varint,1,opt,name=v" thrift:"1"`
	Next *Rec234            `json:"next,omitempty" protobuf:"bytes,2,opt,name=next" thrift:"2"`
	Kids []Rec234           `json:"kids,omitempty" protobuf:"bytes,3,rep,name=kids" thrift:"3"`
	Peer *Peer234           `json:"peer,omitempty" protobuf:"bytes,4,opt,name=peer" thrift:"4"`
	S    string             `json:"s,omitempty" protobuf:"bytes,5,opt,name=s" thrift:"5"`
	X00  int64              `json:"x0,omitempty" protobuf:"varint,20,opt,name=x0" thrift:"20"`
	X01  int64              `json:"x1,omitempty" protobuf:"varint,21,opt,name=x1" thrift:"21"`
	X02  int64              `json:"x2,omitempty" protobuf:"varint,22,opt,name=x2" thrift:"22"`
	X03  int64              `json:"x3,omitempty" protobuf:"varint,23,opt,name=x3" thrift:"23"`
	X04  int64              `json:"x4,omitempty" protobuf:"varint,24,opt,name=x4" thrift:"24"`
	X05  int64              `json:"x5,omitempty" protobuf:"varint,25,opt,name=x5" thrift:"25"`
	X06  int64              `json:"x6,omitempty" protobuf:"varint,26,opt,name=x6" thrift:"26"`
	X07  int64              `json:"x7,omitempty" protobuf:"varint,27,opt,name=x7" thrift:"27"`
	X08  int64              `json:"x8,omitempty" protobuf:"varint,28,opt,name=x8" thrift:"28"`
	X09  int64              `json:"x9,omitempty" protobuf:"varint,29,opt,name=x9" thrift:"29"`
	X10  int64              `json:"x10,omitempty" protobuf:"varint,30,opt,name=x10" thrift:"30"`
	X11  int64              `json:"x11,omitempty" protobuf:"varint,31,opt,name=x11" thrift:"31"`
	X12  int64              `json:"x12,omitempty" protobuf:"varint,32,opt,name=x12" thrift:"32"`
	X13  int64              `json:"x13,omitempty" protobuf:"varint,33,opt,name=x13" thrift:"33"`
	X14  int64              `json:"x14,omitempty" protobuf:"varint,34,opt,name=x14" thrift:"34"`
	X15  int64              `json:"x15,omitempty" protobuf:"varint,35,opt,name=x15" thrift:"35"`
	X16  int64              `json:"x16,omitempty" protobuf:"varint,36,opt,name=x16" thrift:"36"`
	X17  int64              `json:"x17,omitempty" protobuf:"varint,37,opt,name=x17" thrift:"37"`
	X18  int64              `json:"x18,omitempty" protobuf:"varint,38,opt,name=x18" thrift:"38"`
	X19  int64              `json:"x19,omitempty" protobuf:"varint,39,opt,name=x19" thrift:"39"`
	X20  int64              `json:"x20,omitempty" protobuf:"varint,40,opt,name=x20" thrift:"40"`
	X21  int64              `json:"x21,omitempty" protobuf:"varint,41,opt,name=x21" thrift:"41"`
	X22  int64              `json:"x22,omitempty" protobuf:"varint,42,opt,name=x22" thrift:"42"`
	X23  int64              `json:"x23,omitempty" protobuf:"varint,43,opt,name=x23" thrift:"43"`
}

type Peer234 struct {
	Back *Rec234   `json:"back,omitempty" protobuf:"bytes,1,opt,name=back" thrift:"1"`
	List []*Rec234 `json:"list,omitempty" protobuf:"bytes,2,rep,name=list" thrift:"2"`
	B    bool      `json:"b" protobuf:"varint,3,opt,name=b" thrift:"3"`
}

type Rec235 struct {
	M    map[string]Peer235 `json:"m,omitempty" protobuf:"bytes,6,rep,name=m" protobuf_key:"bytes,1,opt,name=key" protobuf_val:"bytes,2,opt,name=value" thrift:"6"`
	V    int64              `json:"v" protobuf:"varint,1,opt,name=v" thrift:"1"`
	Next *Rec235            `json:"next,omitempty" protobuf:"bytes,2,opt,name=next" thrift:"2"`
	Kids []Rec235           `json:"kids,omitempty" protobuf:"bytes,3,rep,name=kids" thrift:"3"`
	Peer *Peer235           `json:"peer,omitempty" protobuf:"bytes,4,opt,name=peer" thrift:"4"`
	S    string             `json:"s,omitempty" protobuf:"bytes,5,opt,name=s" thrift:"5"`
	X00  int64              `json:"x0,omitempty" protobuf:"varint,20,opt,name=x0" thrift:"20"`
	X01  int64              `json:"x1,omitempty" protobuf:"varint,21,opt,name=x1" thrift:"21"`
	X02  int64              `json:"x2,omitempty" protobuf:"varint,22,opt,name=x2" thrift:"22"`
	X03  int64              `json:"x3,omitempty" protobuf:"varint,23,opt,name=x3" thrift:"23"`
	X04  int64              `json:"x4,omitempty" protobuf:"varint,24,opt,name=x4" thrift:"24"`
	X05  int64              `json:"x5,omitempty" protobuf:"varint,25,opt,name=x5" thrift:"25"`
	X06  int64              `json:"x6,omitempty" protobuf:"varint,26,opt,name=x6" thrift:"26"`
	X07  int64              `json:"x7,omitempty" protobuf:"varint,27,opt,name=x7" thrift:"27"`
	X08  int64              `json:"x8,omitempty" protobuf:"varint,28,opt,name=x8" thrift:"28"`
	X09  int64              `json:"x9,omitempty" protobuf:"varint,29,opt,name=x9" thrift:"29"`
	X10  int64              `json:"x10,omitempty" protobuf:"varint,30,opt,name=x10" thrift:"30"`
	X11  int64              `json:"x11,omitempty" protobuf:"varint,31,opt,name=x11" thrift:"31"`
	X12  int64              `json:"x12,omitempty" protobuf:"varint,32,opt,name=x12" thrift:"32"`
	X13  int64              `json:"x13,omitempty" protobuf:"varint,33,opt,name=x13" thrift:"33"`
	X14  int64              `json:"x14,omitempty" protobuf:"varint,34,opt,name=x14" thrift:"34"`
	X15  int64              `json:"x15,omitempty" protobuf:"varint,35,opt,name=x15" thrift:"35"`
	X16  int64              `json:"x16,omitempty" protobuf:"varint,36,opt,name=x16" thrift:"36"`
	X17  int64              `json:"x17,omitempty" protobuf:"varint,37,opt,name=x17" thrift:"37"`
	X18  int64              `json:"x18,omitempty" protobuf:"varint,38,opt,name=x18" thrift:"38"`
	X19  int64              `json:"x19,omitempty" protobuf:"varint,39,opt,name=x19" thrift:"39"`
	X20  int64              `json:"x20,omitempty" protobuf:"varint,40,opt,name=x20" thrift:"40"`
	X21  int64              `json:"x21,omitempty" protobuf:"varint,41,opt,name=x21" thrift:"41"`
	X22  int64              `json:"x22,omitempty" protobuf:"varint,42,opt,name=x22" thrift:"42"`
	X23  int64              `json:"x23,omitempty" protobuf:"varint,43,opt,name=x23" thrift:"43"`
}

type Peer235 struct {
	Back *Rec235   `json:"back,omitempty" protobuf:"bytes,1,opt,name=back" thrift:"1"`
	List []*Rec235 `json:"list,omitempty" protobuf:"bytes,2,rep,name=list" thrift:"2"`
	B    bool      `json:"b" protobuf:"varint,3,opt,name=b" thrift:"3"`
}

type Rec236 struct {
	M    map[string]Peer236 `json:"m,omitempty" protobuf:"bytes,6,rep,name=m" protobuf_key:"bytes,1,opt,name=key" protobuf_val:"bytes,2,opt,name=value" thrift:"6"`
	V    int64              `json:"v" protobuf:"varint,1,opt,name=v" thrift:"1"`
	Next *Rec236            `json:"next,omitempty" protobuf:"bytes,2,opt,name=next" thrift:"2"`
	Kids []Rec236           `json:"kids,omitempty" protobuf:"bytes,3,rep,name=kids" thrift:"3"`
	Peer *Peer236           `json:"peer,omitempty" protobuf:"bytes,4,opt,name=peer" thrift:"4"`
	S    string             `json:"s,omitempty" protobuf:"bytes,5,opt,name=s" thrift:"5"`
	X00  int64              `json:"x0,omitempty" protobuf:"varint,20,opt,name=x0" thrift:"20"`
	X01  int64              `json:"x1,omitempty" protobuf:"varint,21,opt,name=x1" thrift:"21"`
	X02  int64              `json:"x2,omitempty" protobuf:"varint,22,opt,name=x2" thrift:"22"`
	X03  int64              `json:"x3,omitempty" protobuf:"varint,23,opt,name=x3" thrift:"23"`
	X04  int64              `json:"x4,omitempty" protobuf:"varint,24,opt,name=x4" thrift:"24"`
	X05  int64              `json:"x5,omitempty" protobuf:"varint,25,opt,name=x5" thrift:"25"`
	X06  int64              `json:"x6,omitempty" protobuf:"varint,26,opt,name=x6" thrift:"26"`
	X07  int64              `json:"x7,omitempty" protobuf:"varint,27,opt,name=x7" thrift:"27"`
	X08  int64              `json:"x8,omitempty" protobuf:"varint,28,opt,name=x8" thrift:"28"`
	X09  int64              `json:"x9,omitempty" protobuf:"varint,29,opt,name=x9" thrift:"29"`
	X10  int64              `json:"x10,omitempty" protobuf:"varint,30,opt,name=x10" thrift:"30"`
	X11  int64              `json:"x11,omitempty" protobuf:"varint,31,opt,name=x11" thrift:"31"`
	X12  int64              `json:"x12,omitempty" protobuf:"varint,32,opt,name=x12" thrift:"32"`
	X13  int64              `json:"x13,omitempty" protobuf:"varint,33,opt,name=x13" thrift:"33"`
	X14  int64              `json:"x14,omitempty" protobuf:"varint,34,opt,name=x14" thrift:"34"`
	X15  int64              `json:"x15,omitempty" protobuf:"varint,35,opt,name=x15" thrift:"35"`
	X16  int64              `json:"x16,omitempty" protobuf:"varint,36,opt,name=x16" thrift:"36"`
	X17  int64              `json:"x17,omitempty" protobuf:"varint,37,opt,name=x17" thrift:"37"`
	X18  int64              `json:"x18,omitempty" protobuf:"varint,38,opt,name=x18" thrift:"38"`
	X19  int64              `json:"x19,omitempty" protobuf:"varint,39,opt,name=x19" thrift:"39"`
	X20  int64              `json:"x20,omitempty" protobuf:"varint,40,opt,name=x20" thrift:"40"`
	X21  int64              `json:"x21,omitempty" protobuf:"varint,41,opt,name=x21" thrift:"41"`
	X22  int64              `json:"x22,omitempty" protobuf:"varint,42,opt,name=x22" thrift:"42"`
	X23  int64              `json:"x23,omitempty" protobuf:"varint,43,opt,name=x23" thrift:"43"`
}

type Peer236 struct {
	Back *Rec236   `json:"back,omitempty" protobuf:"bytes,1,opt,name=back" thrift:"1"`
	List []*Rec236 `json:"list,omitempty" protobuf:"bytes,2,rep,name=list" thrift:"2"`
	B    bool      `json:"b" protobuf:"varint,3,opt,name=b" thrift:"3"`
}

type Rec237 struct {
	M    map[string]Peer237 `json:"m,omitempty" protobuf:"bytes,6,rep,name=m" protobuf_key:"bytes,1,opt,name=key" protobuf_val:"bytes,2,opt,name=value" thrift:"6"`
	V    int64              `json:"v" protobuf:"varint,1,opt,name=v" thrift:"1"`
	Next *Rec237            `json:"next,omitempty" protobuf:"bytes,2,opt,name=next" thrift:"2"`
	Kids []Rec237           `json:"kids,omitempty" protobuf:"bytes,3,rep,name=kids" thrift:"3"`
	Peer *Peer237           `json:"peer,omitempty" protobuf:"bytes,4,opt,name=peer" thrift:"4"`
	S    string             `json:"s,omitempty" protobuf:"bytes,5,opt,name=s" thrift:"5"`
	X00  int64              `json:"x0,omitempty" protobuf:"varint,20,opt,name=x0" thrift:"20"`
	X01  int64              `json:"x1,omitempty" protobuf:"varint,21,opt,name=x1" thrift:"21"`
	X02  int64              `json:"x2,omitempty" protobuf:"varint,22,opt,name=x2" thrift:"22"`
	X03  int64              `json:"x3,omitempty" protobuf:"varint,23,opt,name=x3" thrift:"23"`
	X04  int64              `json:"x4,omitempty" protobuf:"varint,24,opt,name=x4" thrift:"24"`
	X05  int64              `json:"x5,omitempty" protobuf:"varint,25,opt,name=x5" thrift:"25"`
	X06  int64              `json:"x6,omitempty" protobuf:"varint,26,opt,name=x6" thrift:"26"`
	X07  int64              `json:"x7,omitempty" protobuf:"varint,27,opt,name=x7" thrift:"27"`
	X08  int64              `json:"x8,omitempty" protobuf:"varint,28,opt,name=x8" thrift:"28"`
	X09  int64              `json:"x9,omitempty" protobuf:"varint,29,opt,name=x9" thrift:"29"`
	X10  int64              `json:"x10,omitempty" protobuf:"varint,30,opt,name=x10" thrift:"30"`
	X11  int64              `json:"x11,omitempty" protobuf:"varint,31,opt,name=x11" thrift:"31"`
	X12  int64              `json:"x12,omitempty" protobuf:"varint,32,opt,name=x12" thrift:"32"`
	X13  int64              `json:"x13,omitempty" protobuf:"varint,33,opt,name=x13" thrift:"33"`
	X14  int64              `json:"x14,omitempty" protobuf:"varint,34,opt,name=x14" thrift:"34"`
	X15  int64              `json:"x15,omitempty" protobuf:"varint,35,opt,name=x15" thrift:"35"`
	X16  int64              `json:"x16,omitempty" protobuf:"varint,36,opt,name=x16" thrift:"36"`
	X17  int64              `json:"x17,omitempty" protobuf:"varint,37,opt,name=x17" thrift:"37"`
	X18  int64              `json:"x18,omitempty" protobuf:"varint,38,opt,name=x18" thrift:"38"`
	X19  int64              `json:"x19,omitempty" protobuf:"varint,39,opt,name=x19" thrift:"39"`
	X20  int64              `json:"x20,omitempty" protobuf:"varint,40,opt,name=x20" thrift:"40"`
	X21  int64              `json:"x21,omitempty" protobuf:"varint,41,opt,name=x21" thrift:"41"`
	X22  int64              `json:"x22,omitempty" protobuf:"varint,42,opt,name=x22" thrift:"42"`
	X23  int64              `json:"x23,omitempty" protobuf:"varint,43,opt,name=x23" thrift:"43"`
}

type Peer237 struct {
	Back *Rec237   `json:"back,omitempty" protobuf:"bytes,1,opt,name=back" thrift:"1"`
	List []*Rec237 `json:"list,omitempty" protobuf:"bytes,2,rep,name=list" thrift:"2"`
	B    bool      `json:"b" protobuf:"varint,3,opt,name=b" thrift:"3"`
}

type Rec238 struct {
	M    map[string]Peer238 `json:"m,omitempty" protobuf:"bytes,6,rep,name=m" protobuf_key:"bytes,1,opt,name=key" protobuf_val:"bytes,2,opt,name=value" thrift:"6"`
	V    int64              `json:"v" protobuf:"varint,1,opt,name=v" thrift:"1"`
	Next *Rec238            `json:"next,omitempty" protobuf:"bytes,2,opt,name=next" thrift:"2"`
	Kids []Rec238           `json:"kids,omitempty" protobuf:"bytes,3,rep,name=kids" thrift:"3"`
	Peer *Peer238           `json:"peer,omitempty" protobuf:"bytes,4,opt,name=peer" thrift:"4"`
	S    string             `json:"s,omitempty" protobuf:"bytes,5,opt,name=s" thrift:"5"`
	X00  int64              `json:"x0,omitempty" protobuf:"varint,20,opt,name=x0" thrift:"20"`
	X01  int64              `json:"x1,omitempty" protobuf:"varint,21,opt,name=x1" thrift:"21"`
	X02  int64              `json:"x2,omitempty" protobuf:"varint,22,opt,name=x2" thrift:"22"`
	X03  int64              `json:"x3,omitempty" protobuf:"varint,23,opt,name=x3" thrift:"23"`
	X04  int64              `json:"x4,omitempty" protobuf:"varint,24,opt,name=x4" thrift:"24"`
	X05  int64              `json:"x5,omitempty" protobuf:"varint,25,opt,name=x5" thrift:"25"`
	X06  int64              `json:"x6,omitempty" protobuf:"varint,26,opt,name=x6" thrift:"26"`
	X07  int64              `json:"x7,omitempty" protobuf:"varint,27,opt,name=x7" thrift:"27"`
	X08  int64              `json:"x8,omitempty" protobuf:"varint,28,opt,name=x8" thrift:"28"`
	X09  int64              `json:"x9,omitempty" protobuf:"varint,29,opt,name=x9" thrift:"29"`
	X10  int64              `json:"x10,omitempty" protobuf:"varint,30,opt,name=x10" thrift:"30"`
	X11  int64              `json:"x11,omitempty" protobuf:"varint,31,opt,name=x11" thrift:"31"`
	X12  int64              `json:"x12,omitempty" protobuf:"varint,32,opt,name=x12" thrift:"32"`
	X13  int64              `json:"x13,omitempty" protobuf:"varint,33,opt,name=x13" thrift:"33"`
	X14  int64              `json:"x14,omitempty" protobuf:"varint,34,opt,name=x14" thrift:"34"`
	X15  int64              `json:"x15,omitempty" protobuf:"varint,35,opt,name=x15" thrift:"35"`
	X16  int64              `json:"x16,omitempty" protobuf:"varint,36,opt,name=x16" thrift:"36"`
	X17  int64              `json:"x17,omitempty" protobuf:"varint,37,opt,name=x17" thrift:"37"`
	X18  int64              `json:"x18,omitempty" protobuf:"varint,38,opt,name=x18" thrift:"38"`
	X19  int64              `json:"x19,omitempty" protobuf:"varint,39,opt,name=x19" thrift:"39"`
	X20  int64              `json:"x20,omitempty" protobuf:"varint,40,opt,name=x20" thrift:"40"`
	X21  int64              `json:"x21,omitempty" protobuf:"varint,41,opt,name=x21" thrift:"41"`
	X22  int64              `json:"x22,omitempty" protobuf:"varint,42,opt,name=x22" thrift:"42"`
	X23  int64              `json:"x23,omitempty" protobuf:"varint,43,opt,name=x23" thrift:"43"`
}

type Peer238 struct {
	Back *Rec238   `json:"back,omitempty" protobuf:"bytes,1,opt,name=back" thrift:"1"`
	List []*Rec238 `json:"list,omitempty" protobuf:"bytes,2,rep,name=list" thrift:"2"`
	B    bool      `json:"b" protobuf:"varint,3,opt,name=b" thrift:"3"`
}

type Rec239 struct {
	M    map[string]Peer239 `json:"m,omitempty" protobuf:"bytes,6,rep,name=m" protobuf_key:"bytes,1,opt,name=key" protobuf_val:"bytes,2,opt,name=value" thrift:"6"`
	V    int64              `json:"v" protobuf:"varint,1,opt,name=v" thrift:"1"`
	Next *Rec239            `json:"next,omitempty" protobuf:"bytes,2,opt,name=next" thrift:"2"`
	Kids []Rec239           `json:"kids,omitempty" protobuf:"bytes,3,rep,name=kids" thrift:"3"`
	Peer *Peer239           `json:"peer,omitempty" protobuf:"bytes,4,opt,name=peer" thrift:"4"`
	S    string             `json:"s,omitempty" protobuf:"bytes,5,opt,name=s" thrift:"5"`
	X00  int64              `json:"x0,omitempty" protobuf:"varint,20,opt,name=x0" thrift:"20"`
	X01  int64              `json:"x1,omitempty" protobuf:"varint,21,opt,name=x1" thrift:"21"`
	X02  int64              `json:"x2,omitempty" protobuf:"varint,22,opt,name=x2" thrift:"22"`
	X03  int64              `json:"x3,omitempty" protobuf:"varint,23,opt,name=x3" thrift:"23"`
	X04  int64              `json:"x4,omitempty" protobuf:"varint,24,opt,name=x4" thrift:"24"`
	X05  int64              `json:"x5,omitempty" protobuf:"varint,25,opt,name=x5" thrift:"25"`
	X06  int64              `json:"x6,omitempty" protobuf:"varint,26,opt,name=x6" thrift:"26"`
	X07  int64              `json:"x7,omitempty" protobuf:"varint,27,opt,name=x7" thrift:"27"`
	X08  int64              `json:"x8,omitempty" protobuf:"varint,28,opt,name=x8" thrift:"28"`
	X09  int64              `json:"x9,omitempty" protobuf:"varint,29,opt,name=x9" thrift:"29"`
	X10  int64              `json:"x10,omitempty" protobuf:"varint,30,opt,name=x10" thrift:"30"`
	X11  int64              `json:"x11,omitempty" protobuf:"varint,31,opt,name=x11" thrift:"31"`
	X12  int64              `json:"x12,omitempty" protobuf:"varint,32,opt,name=x12" thrift:"32"`
	X13  int64              `json:"x13,omitempty" protobuf:"varint,33,opt,name=x13" thrift:"33"`
	X14  int64              `json:"x14,omitempty" protobuf:"varint,34,opt,name=x14" thrift:"34"`
	X15  int64              `json:"x15,omitempty" protobuf:"varint,35,opt,name=x15" thrift:"35"`
	X16  int64              `json:"x16,omitempty" protobuf:"varint,36,opt,name=x16" thrift:"36"`
	X17  int64              `json:"x17,omitempty" protobuf:"varint,37,opt,name=x17" thrift:"37"`
	X18  int64              `json:"x18,omitempty" protobuf:"varint,38,opt,name=x18" thrift:"38"`
	X19  int64              `json:"x19,omitempty" protobuf:"varint,39,opt,name=x19" thrift:"39"`
	X20  int64              `json:"x20,omitempty" protobuf:"varint,40,opt,name=x20" thrift:"40"`
	X21  int64              `json:"x21,omitempty" protobuf:"varint,41,opt,name=x21" thrift:"41"`
	X22  int64              `json:"x22,omitempty" protobuf:"varint,42,opt,name=x22" thrift:"42"`
	X23  int64              `json:"x23,omitempty" protobuf:"varint,43,opt,name=x23" thrift:"43"`
}

type Peer239 struct {
	Back *Rec239   `json:"back,omitempty" protobuf:"bytes,1,opt,name=back" thrift:"1"`
	List []*Rec239 `json:"list,omitempty" protobuf:"bytes,2,rep,name=list" thrift:"2"`
	B    bool      `json:"b" protobuf:"varint,3,opt,name=b" thrift:"3"`
}

var recTypes = []reflect.Type{
	reflect.TypeOf(Rec000{}),
	reflect.TypeOf(Rec001{}),
	reflect.TypeOf(Rec002{}),
	reflect.TypeOf(Rec003{}),
	reflect.TypeOf(Rec004{}),
	reflect.TypeOf(Rec005{}),
	reflect.TypeOf(Rec006{}),
	reflect.TypeOf(Rec007{}),
	reflect.TypeOf(Rec008{}),
	reflect.TypeOf(Rec009{}),
	reflect.TypeOf(Rec010{}),
	reflect.TypeOf(Rec011{}),
	reflect.TypeOf(Rec012{}),
	reflect.TypeOf(Rec013{}),
	reflect.TypeOf(Rec014{}),
	reflect.TypeOf(Rec015{}),
	reflect.TypeOf(Rec016{}),
	reflect.TypeOf(Rec017{}),
	reflect.TypeOf(Rec018{}),
	reflect.TypeOf(Rec019{}),
	reflect.TypeOf(Rec020{}),
	reflect.TypeOf(Rec021{}),
	reflect.TypeOf(Rec022{}),
	reflect.TypeOf(Rec023{}),
	reflect.TypeOf(Rec024{}),
	reflect.TypeOf(Rec025{}),
	reflect.TypeOf(Rec026{}),
	reflect.TypeOf(Rec027{}),
	reflect.TypeOf(Rec028{}),
	reflect.TypeOf(Rec029{}),
	reflect.TypeOf(Rec030{}),
	reflect.TypeOf(Rec031{}),
	reflect.TypeOf(Rec032{}),
	reflect.TypeOf(Rec033{}),
	reflect.TypeOf(Rec034{}),
	reflect.TypeOf(Rec035{}),
	reflect.TypeOf(Rec036{}),
	reflect.TypeOf(Rec037{}),
	reflect.TypeOf(Rec038{}),
	reflect.TypeOf(Rec039{}),
	reflect.TypeOf(Rec040{}),
	reflect.TypeOf(Rec041{}),
	reflect.TypeOf(Rec042{}),
	reflect.TypeOf(Rec043{}),
	reflect.TypeOf(Rec044{}),
	reflect.TypeOf(Rec045{}),
	reflect.TypeOf(Rec046{}),
	reflect.TypeOf(Rec047{}),
	reflect.TypeOf(Rec048{}),
	reflect.TypeOf(Rec049{}),
	reflect.TypeOf(Rec050{}),
	reflect.TypeOf(Rec051{}),
	reflect.TypeOf(Rec052{}),
	reflect.TypeOf(Rec053{}),
	reflect.TypeOf(Rec054{}),
	reflect.TypeOf(Rec055{}),
	reflect.TypeOf(Rec056{}),
	reflect.TypeOf(Rec057{}),
	reflect.TypeOf(Rec058{}),
	reflect.TypeOf(Rec059{}),
	reflect.TypeOf(Rec060{}),
	reflect.TypeOf(Rec061{}),
	reflect.TypeOf(Rec062{}),
	reflect.TypeOf(Rec063{}),
	reflect.TypeOf(Rec064{}),
	reflect.TypeOf(Rec065{}),
	reflect.TypeOf(Rec066{}),
	reflect.TypeOf(Rec067{}),
	reflect.TypeOf(Rec068{}),
	reflect.TypeOf(Rec069{}),
	reflect.TypeOf(Rec070{}),
	reflect.TypeOf(Rec071{}),
	reflect.TypeOf(Rec072{}),
	reflect.TypeOf(Rec073{}),
	reflect.TypeOf(Rec074{}),
	reflect.TypeOf(Rec075{}),
	reflect.TypeOf(Rec076{}),
	reflect.TypeOf(Rec077{}),
	reflect.TypeOf(Rec078{}),
	reflect.TypeOf(Rec079{}),
	reflect.TypeOf(Rec080{}),
	reflect.TypeOf(Rec081{}),
	reflect.TypeOf(Rec082{}),
	reflect.TypeOf(Rec083{}),
	reflect.TypeOf(Rec084{}),
	reflect.TypeOf(Rec085{}),
	reflect.TypeOf(Rec086{}),
	reflect.TypeOf(Rec087{}),
	reflect.TypeOf(Rec088{}),
	reflect.TypeOf(Rec089{}),
	reflect.TypeOf(Rec090{}),
	reflect.TypeOf(Rec091{}),
	reflect.TypeOf(Rec092{}),
	reflect.TypeOf(Rec093{}),
	reflect.TypeOf(Rec094{}),
	reflect.TypeOf(Rec095{}),
	reflect.TypeOf(Rec096{}),
	reflect.TypeOf(Rec097{}),
	reflect.TypeOf(Rec098{}),
	reflect.TypeOf(Rec099{}),
	reflect.TypeOf(Rec100{}),
	reflect.TypeOf(Rec101{}),
	reflect.TypeOf(Rec102{}),
	reflect.TypeOf(Rec103{}),
	reflect.TypeOf(Rec104{}),
	reflect.TypeOf(Rec105{}),
	reflect.TypeOf(Rec106{}),
	reflect.TypeOf(Rec107{}),
	reflect.TypeOf(Rec108{}),
	reflect.TypeOf(Rec109{}),
	reflect.TypeOf(Rec110{}),
	reflect.TypeOf(Rec111{}),
	reflect.TypeOf(Rec112{}),
	reflect.TypeOf(Rec113{}),
	reflect.TypeOf(Rec114{}),
	reflect.TypeOf(Rec115{}),
	reflect.TypeOf(Rec116{}),
	reflect.TypeOf(Rec117{}),
	reflect.TypeOf(Rec118{}),
	reflect.TypeOf(Rec119{}),
	reflect.TypeOf(Rec120{}),
	reflect.TypeOf(Rec121{}),
	reflect.TypeOf(Rec122{}),
	reflect.TypeOf(Rec123{}),
	reflect.TypeOf(Rec124{}),
	reflect.TypeOf(Rec125{}),
	reflect.TypeOf(Rec126{}),
	reflect.TypeOf(Rec127{}),
	reflect.TypeOf(Rec128{}),
	reflect.TypeOf(Rec129{}),
	reflect.TypeOf(Rec130{}),
	reflect.TypeOf(Rec131{}),
	reflect.TypeOf(Rec132{}),
	reflect.TypeOf(Rec133{}),
	reflect.TypeOf(Rec134{}),
	reflect.TypeOf(Rec135{}),
	reflect.TypeOf(Rec136{}),
	reflect.TypeOf(Rec137{}),
	reflect.TypeOf(Rec138{}),
	reflect.TypeOf(Rec139{}),
	reflect.TypeOf(Rec140{}),
	reflect.TypeOf(Rec141{}),
	reflect.TypeOf(Rec142{}),
	reflect.TypeOf(Rec143{}),
	reflect.TypeOf(Rec144{}),
	reflect.TypeOf(Rec145{}),
	reflect.TypeOf(Rec146{}),
	reflect.TypeOf(Rec147{}),
	reflect.TypeOf(Rec148{}),
	reflect.TypeOf(Rec149{}),
	reflect.TypeOf(Rec150{}),
	reflect.TypeOf(Rec151{}),
	reflect.TypeOf(Rec152{}),
	reflect.TypeOf(Rec153{}),
	reflect.TypeOf(Rec154{}),
	reflect.TypeOf(Rec155{}),
	reflect.TypeOf(Rec156{}),
	reflect.TypeOf(Rec157{}),
	reflect.TypeOf(Rec158{}),
	reflect.TypeOf(Rec159{}),
	reflect.TypeOf(Rec160{}),
	reflect.TypeOf(Rec161{}),
	reflect.TypeOf(Rec162{}),
	reflect.TypeOf(Rec163{}),
	reflect.TypeOf(Rec164{}),
	reflect.TypeOf(Rec165{}),
	reflect.TypeOf(Rec166{}),
	reflect.TypeOf(Rec167{}),
	reflect.TypeOf(Rec168{}),
	reflect.TypeOf(Rec169{}),
	reflect.TypeOf(Rec170{}),
	reflect.TypeOf(Rec171{}),
	reflect.TypeOf(Rec172{}),
	reflect.TypeOf(Rec173{}),
	reflect.TypeOf(Rec174{}),
	reflect.TypeOf(Rec175{}),
	reflect.TypeOf(Rec176{}),
	reflect.TypeOf(Rec177{}),
	reflect.TypeOf(Rec178{}),
	reflect.TypeOf(Rec179{}),
	reflect.TypeOf(Rec180{}),
	reflect.TypeOf(Rec181{}),
	reflect.TypeOf(Rec182{}),
	reflect.TypeOf(Rec183{}),
	reflect.TypeOf(Rec184{}),
	reflect.TypeOf(Rec185{}),
	reflect.TypeOf(Rec186{}),
	reflect.TypeOf(Rec187{}),
	reflect.TypeOf(Rec188{}),
	reflect.TypeOf(Rec189{}),
	reflect.TypeOf(Rec190{}),
	reflect.TypeOf(Rec191{}),
	reflect.TypeOf(Rec192{}),
	reflect.TypeOf(Rec193{}),
	reflect.TypeOf(Rec194{}),
	reflect.TypeOf(Rec195{}),
	reflect.TypeOf(Rec196{}),
	reflect.TypeOf(Rec197{}),
	reflect.TypeOf(Rec198{}),
	reflect.TypeOf(Rec199{}),
	reflect.TypeOf(Rec200{}),
	reflect.TypeOf(Rec201{}),
	reflect.TypeOf(Rec202{}),
	reflect.TypeOf(Rec203{}),
	reflect.TypeOf(Rec204{}),
	reflect.TypeOf(Rec205{}),
	reflect.TypeOf(Rec206{}),
	reflect.TypeOf(Rec207{}),
	reflect.TypeOf(Rec208{}),
	reflect.TypeOf(Rec209{}),
	reflect.TypeOf(Rec210{}),
	reflect.TypeOf(Rec211{}),
	reflect.TypeOf(Rec212{}),
	reflect.TypeOf(Rec213{}),
	reflect.TypeOf(Rec214{}),
	reflect.TypeOf(Rec215{}),
	reflect.TypeOf(Rec216{}),
	reflect.TypeOf(Rec217{}),
	reflect.TypeOf(Rec218{}),
	reflect.TypeOf(Rec219{}),
	reflect.TypeOf(Rec220{}),
	reflect.TypeOf(Rec221{}),
	reflect.TypeOf(Rec222{}),
	reflect.TypeOf(Rec223{}),
	reflect.TypeOf(Rec224{}),
	reflect.TypeOf(Rec225{}),
	reflect.TypeOf(Rec226{}),
	reflect.TypeOf(Rec227{}),
	reflect.TypeOf(Rec228{}),
	reflect.TypeOf(Rec229{}),
	reflect.TypeOf(Rec230{}),
	reflect.TypeOf(Rec231{}),
	reflect.TypeOf(Rec232{}),
	reflect.TypeOf(Rec233{}),
	reflect.TypeOf(Rec234{}),
	reflect.TypeOf(Rec235{}),
	reflect.TypeOf(Rec236{}),
	reflect.TypeOf(Rec237{}),
	reflect.TypeOf(Rec238{}),
	reflect.TypeOf(Rec239{}),
}

var peerTypes = []reflect.Type{
	reflect.TypeOf(Peer000{}),
	reflect.TypeOf(Peer001{}),
	reflect.TypeOf(Peer002{}),
	reflect.TypeOf(Peer003{}),
	reflect.TypeOf(Peer004{}),
	reflect.TypeOf(Peer005{}),
	reflect.TypeOf(Peer006{}),
	reflect.TypeOf(Peer007{}),
	reflect.TypeOf(Peer008{}),
	reflect.TypeOf(Peer009{}),
	reflect.TypeOf(Peer010{}),
	reflect.TypeOf(Peer011{}),
	reflect.TypeOf(Peer012{}),
	reflect.TypeOf(Peer013{}),
	reflect.TypeOf(Peer014{}),
	reflect.TypeOf(Peer015{}),
	reflect.TypeOf(Peer016{}),
	reflect.TypeOf(Peer017{}),
	reflect.TypeOf(Peer018{}),
	reflect.TypeOf(Peer019{}),
	reflect.TypeOf(Peer020{}),
	reflect.TypeOf(Peer021{}),
	reflect.TypeOf(Peer022{}),
	reflect.TypeOf(Peer023{}),
	reflect.TypeOf(Peer024{}),
	reflect.TypeOf(Peer025{}),
	reflect.TypeOf(Peer026{}),
	reflect.TypeOf(Peer027{}),
	reflect.TypeOf(Peer028{}),
	reflect.TypeOf(Peer029{}),
	reflect.TypeOf(Peer030{}),
	reflect.TypeOf(Peer031{}),
	reflect.TypeOf(Peer032{}),
	reflect.TypeOf(Peer033{}),
	reflect.TypeOf(Peer034{}),
	reflect.TypeOf(Peer035{}),
	reflect.TypeOf(Peer036{}),
	reflect.TypeOf(Peer037{}),
	reflect.TypeOf(Peer038{}),
	reflect.TypeOf(Peer039{}),
	reflect.TypeOf(Peer040{}),
	reflect.TypeOf(Peer041{}),
	reflect.TypeOf(Peer042{}),
	reflect.TypeOf(Peer043{}),
	reflect.TypeOf(Peer044{}),
	reflect.TypeOf(Peer045{}),
	reflect.TypeOf(Peer046{}),
	reflect.TypeOf(Peer047{}),
	reflect.TypeOf(Peer048{}),
	reflect.TypeOf(Peer049{}),
	reflect.TypeOf(Peer050{}),
	reflect.TypeOf(Peer051{}),
	reflect.TypeOf(Peer052{}),
	reflect.TypeOf(Peer053{}),
	reflect.TypeOf(Peer054{}),
	reflect.TypeOf(Peer055{}),
	reflect.TypeOf(Peer056{}),
	reflect.TypeOf(Peer057{}),
	reflect.TypeOf(Peer058{}),
	reflect.TypeOf(Peer059{}),
	reflect.TypeOf(Peer060{}),
	reflect.TypeOf(Peer061{}),
	reflect.TypeOf(Peer062{}),
	reflect.TypeOf(Peer063{}),
	reflect.TypeOf(Peer064{}),
	reflect.TypeOf(Peer065{}),
	reflect.TypeOf(Peer066{}),
	reflect.TypeOf(Peer067{}),
	reflect.TypeOf(Peer068{}),
	reflect.TypeOf(Peer069{}),
	reflect.TypeOf(Peer070{}),
	reflect.TypeOf(Peer071{}),
	reflect.TypeOf(Peer072{}),
	reflect.TypeOf(Peer073{}),
	reflect.TypeOf(Peer074{}),
	reflect.TypeOf(Peer075{}),
	reflect.TypeOf(Peer076{}),
	reflect.TypeOf(Peer077{}),
	reflect.TypeOf(Peer078{}),
	reflect.TypeOf(Peer079{}),
	reflect.TypeOf(Peer080{}),
	reflect.TypeOf(Peer081{}),
	reflect.TypeOf(Peer082{}),
	reflect.TypeOf(Peer083{}),
	reflect.TypeOf(Peer084{}),
	reflect.TypeOf(Peer085{}),
	reflect.TypeOf(Peer086{}),
	reflect.TypeOf(Peer087{}),
	reflect.TypeOf(Peer088{}),
	reflect.TypeOf(Peer089{}),
	reflect.TypeOf(Peer090{}),
	reflect.TypeOf(Peer091{}),
	reflect.TypeOf(Peer092{}),
	reflect.TypeOf(Peer093{}),
	reflect.TypeOf(Peer094{}),
	reflect.TypeOf(Peer095{}),
	reflect.TypeOf(Peer096{}),
	reflect.TypeOf(Peer097{}),
	reflect.TypeOf(Peer098{}),
	reflect.TypeOf(Peer099{}),
	reflect.TypeOf(Peer100{}),
	reflect.TypeOf(Peer101{}),
	reflect.TypeOf(Peer102{}),
	reflect.TypeOf(Peer103{}),
	reflect.TypeOf(Peer104{}),
	reflect.TypeOf(Peer105{}),
	reflect.TypeOf(Peer106{}),
	reflect.TypeOf(Peer107{}),
	reflect.TypeOf(Peer108{}),
	reflect.TypeOf(Peer109{}),
	reflect.TypeOf(Peer110{}),
	reflect.TypeOf(Peer111{}),
	reflect.TypeOf(Peer112{}),
	reflect.TypeOf(Peer113{}),
	reflect.TypeOf(Peer114{}),
	reflect.TypeOf(Peer115{}),
	reflect.TypeOf(Peer116{}),
	reflect.TypeOf(Peer117{}),
	reflect.TypeOf(Peer118{}),
	reflect.TypeOf(Peer119{}),
	reflect.TypeOf(Peer120{}),
	reflect.TypeOf(Peer121{}),
	reflect.TypeOf(Peer122{}),
	reflect.TypeOf(Peer123{}),
	reflect.TypeOf(Peer124{}),
	reflect.TypeOf(Peer125{}),
	reflect.TypeOf(Peer126{}),
	reflect.TypeOf(Peer127{}),
	reflect.TypeOf(Peer128{}),
	reflect.TypeOf(Peer129{}),
	reflect.TypeOf(Peer130{}),
	reflect.TypeOf(Peer131{}),
	reflect.TypeOf(Peer132{}),
	reflect.TypeOf(Peer133{}),
	reflect.TypeOf(Peer134{}),
	reflect.TypeOf(Peer135{}),
	reflect.TypeOf(Peer136{}),
	reflect.TypeOf(Peer137{}),
	reflect.TypeOf(Peer138{}),
	reflect.TypeOf(Peer139{}),
	reflect.TypeOf(Peer140{}),
	reflect.TypeOf(Peer141{}),
	reflect.TypeOf(Peer142{}),
	reflect.TypeOf(Peer143{}),
	reflect.TypeOf(Peer144{}),
	reflect.TypeOf(Peer145{}),
	reflect.TypeOf(Peer146{}),
	reflect.TypeOf(Peer147{}),
	reflect.TypeOf(Peer148{}),
	reflect.TypeOf(Peer149{}),
	reflect.TypeOf(Peer150{}),
	reflect.TypeOf(Peer151{}),
	reflect.TypeOf(Peer152{}),
	reflect.TypeOf(Peer153{}),
	reflect.TypeOf(Peer154{}),
	reflect.TypeOf(Peer155{}),
	reflect.TypeOf(Peer156{}),
	reflect.TypeOf(Peer157{}),
	reflect.TypeOf(Peer158{}),
	reflect.TypeOf(Peer159{}),
	reflect.TypeOf(Peer160{}),
	reflect.TypeOf(Peer161{}),
	reflect.TypeOf(Peer162{}),
	reflect.TypeOf(Peer163{}),
	reflect.TypeOf(Peer164{}),
	reflect.TypeOf(Peer165{}),
	reflect.TypeOf(Peer166{}),
	reflect.TypeOf(Peer167{}),
	reflect.TypeOf(Peer168{}),
	reflect.TypeOf(Peer169{}),
	reflect.TypeOf(Peer170{}),
	reflect.TypeOf(Peer171{}),
	reflect.TypeOf(Peer172{}),
	reflect.TypeOf(Peer173{}),
	reflect.TypeOf(Peer174{}),
	reflect.TypeOf(Peer175{}),
	reflect.TypeOf(Peer176{}),
	reflect.TypeOf(Peer177{}),
	reflect.TypeOf(Peer178{}),
	reflect.TypeOf(Peer179{}),
	reflect.TypeOf(Peer180{}),
	reflect.TypeOf(Peer181{}),
	reflect.TypeOf(Peer182{}),
	reflect.TypeOf(Peer183{}),
	reflect.TypeOf(Peer184{}),
	reflect.TypeOf(Peer185{}),
	reflect.TypeOf(Peer186{}),
	reflect.TypeOf(Peer187{}),
	reflect.TypeOf(Peer188{}),
	reflect.TypeOf(Peer189{}),
	reflect.TypeOf(Peer190{}),
	reflect.TypeOf(Peer191{}),
	reflect.TypeOf(Peer192{}),
	reflect.TypeOf(Peer193{}),
	reflect.TypeOf(Peer194{}),
	reflect.TypeOf(Peer195{}),
	reflect.TypeOf(Peer196{}),
	reflect.TypeOf(Peer197{}),
	reflect.TypeOf(Peer198{}),
	reflect.TypeOf(Peer199{}),
	reflect.TypeOf(Peer200{}),
	reflect.TypeOf(Peer201{}),
	reflect.TypeOf(Peer202{}),
	reflect.TypeOf(Peer203{}),
	reflect.TypeOf(Peer204{}),
	reflect.TypeOf(Peer205{}),
	reflect.TypeOf(Peer206{}),
	reflect.TypeOf(Peer207{}),
	reflect.TypeOf(Peer208{}),
	reflect.TypeOf(Peer209{}),
	reflect.TypeOf(Peer210{}),
	reflect.TypeOf(Peer211{}),
	reflect.TypeOf(Peer212{}),
	reflect.TypeOf(Peer213{}),
	reflect.TypeOf(Peer214{}),
	reflect.TypeOf(Peer215{}),
	reflect.TypeOf(Peer216{}),
	reflect.TypeOf(Peer217{}),
	reflect.TypeOf(Peer218{}),
	reflect.TypeOf(Peer219{}),
	reflect.TypeOf(Peer220{}),
	reflect.TypeOf(Peer221{}),
	reflect.TypeOf(Peer222{}),
	reflect.TypeOf(Peer223{}),
	reflect.TypeOf(Peer224{}),
	reflect.TypeOf(Peer225{}),
	reflect.TypeOf(Peer226{}),
	reflect.TypeOf(Peer227{}),
	reflect.TypeOf(Peer228{}),
	reflect.TypeOf(Peer229{}),
	reflect.TypeOf(Peer230{}),
	reflect.TypeOf(Peer231{}),
	reflect.TypeOf(Peer232{}),
	reflect.TypeOf(Peer233{}),
	reflect.TypeOf(Peer234{}),
	reflect.TypeOf(Peer235{}),
	reflect.TypeOf(Peer236{}),
	reflect.TypeOf(Peer237{}),
	reflect.TypeOf(Peer238{}),
	reflect.TypeOf(Peer239{}),
}
