// vcheck is the supervisor: it builds the worker from /repo's current working
// tree in the build modes a property needs, re-executes the witnesses of known
// findings, shards the case lists over worker processes, attributes crashes to
// the journalled case, compares cross-process digests, writes the evidence file
// and decides the exit code.
package main

import (
	"bufio"
	"bytes"
	"crypto/sha1"
	"encoding/binary"
	"encoding/json"
	"fmt"
	"io"
	"os"
	"os/exec"
	"path/filepath"
	"regexp"
	"sort"
	"strconv"
	"strings"
	"sync"
	"syscall"
	"time"
)

// verifDir is the root of the verification tree: the directory ./check lives in
// (the check script changes into it before starting the supervisor).
var verifDir = func() string {
	if d, err := os.Getwd(); err == nil {
		if _, e := os.Stat(filepath.Join(d, "harness", "go.mod")); e == nil {
			return d
		}
	}
	return "/verif"
}()

type modeCfg struct {
	Name   string
	Tags   string
	Flags  []string
	Env    []string
	Shards int
	// RLimitKB > 0 runs the worker under ulimit -v.
	RLimitKB int
}

var modes = map[string]modeCfg{
	"plain":  {Name: "plain", Tags: "verif", Shards: 14, RLimitKB: 6 << 20},
	"purego": {Name: "purego", Tags: "verif,purego", Shards: 14, RLimitKB: 6 << 20},
	"race":   {Name: "race", Tags: "verif", Flags: []string{"-race"}, Shards: 10},
	"asan":   {Name: "asan", Tags: "verif", Flags: []string{"-asan"}, Shards: 12, Env: []string{"ASAN_OPTIONS=detect_leaks=0:abort_on_error=0:halt_on_error=1"}},
	// solo: a single-goroutine, single-P process used as the "running alone" oracle of C09.
	"solo": {Name: "solo", Tags: "verif", Shards: 1, Env: []string{"GOMAXPROCS=1", "VERIF_SOLO=1"}},
}

type propCfg struct {
	Quick, Thorough []string
	// Digests named by the workers must agree between all modes that emit them.
	CompareDigests bool
	WallQuick      time.Duration
	WallThorough   time.Duration
	// ShardsOverride per mode.
	Shards map[string]int
}

var props = map[string]propCfg{
	"C01": {Quick: []string{"plain"}, Thorough: []string{"plain", "asan", "purego"}},
	"C02": {Quick: []string{"plain"}, Thorough: []string{"plain", "race", "asan"}},
	"C03": {Quick: []string{"plain", "race"}, Thorough: []string{"plain", "race", "asan"}},
	"C04": {Quick: []string{"plain"}, Thorough: []string{"plain", "race"}},
	"C05": {Quick: []string{"plain"}, Thorough: []string{"plain", "purego"}},
	"C06": {Quick: []string{"plain", "race", "asan"}, Thorough: []string{"plain", "race", "asan"}},
	"C07": {Quick: []string{"plain", "race", "asan"}, Thorough: []string{"plain", "race", "asan"}},
	"C08": {Quick: []string{"plain", "race"}, Thorough: []string{"plain", "race", "asan"}},
	"C09": {Quick: []string{"race", "plain", "solo"}, Thorough: []string{"race", "plain", "solo"}, CompareDigests: true, Shards: map[string]int{"race": 1, "plain": 1}},
	"C10": {Quick: []string{"plain", "race"}, Thorough: []string{"plain", "race", "asan"}, Shards: map[string]int{"race": 6}},
	"C11": {Quick: []string{"plain"}, Thorough: []string{"plain", "race"}},
	"C12": {Quick: []string{"plain"}, Thorough: []string{"plain"}},
	"C13": {Quick: []string{"plain"}, Thorough: []string{"plain"}},
	"C14": {Quick: []string{"plain"}, Thorough: []string{"plain"}},
	"C15": {Quick: []string{"plain", "asan"}, Thorough: []string{"plain", "asan"}},
	"C16": {Quick: []string{"plain", "asan"}, Thorough: []string{"plain", "asan"}},
	"C17": {Quick: []string{"plain"}, Thorough: []string{"plain", "race"}},
	"C18": {Quick: []string{"plain"}, Thorough: []string{"plain"}},
	"C19": {Quick: []string{"plain"}, Thorough: []string{"plain", "asan"}},
	"C20": {Quick: []string{"plain", "purego"}, Thorough: []string{"plain", "purego"}, CompareDigests: true},
}

// ---------------------------------------------------------------------------

type violation struct {
	Prop    string `json:"property"`
	Sub     string `json:"sub"`
	Index   int    `json:"index"`
	Class   string `json:"class"`
	Outcome string `json:"outcome"`
	Key     string `json:"key"`
	Detail  string `json:"detail"`
	Witness any    `json:"witness,omitempty"`
	Mode    string `json:"build_mode"`
	Seed    uint64 `json:"seed"`
	Tier    string `json:"tier"`
	Stderr  string `json:"stderr_excerpt,omitempty"`
	// WitnessName is set for violations produced by re-executing a committed witness.
	WitnessName string `json:"witness_name,omitempty"`
}

func clean(s string) string {
	s = strings.ReplaceAll(s, "/", "|")
	s = strings.ReplaceAll(s, " ", "_")
	return s
}

func (v *violation) mkKey() {
	v.Key = v.Prop + "/" + v.Sub + "/" + clean(v.Class) + "/" + clean(v.Outcome)
}

type known struct {
	Prop, Key, Witness, Text, Mode string
}

type fixedEntry struct{ Prop, Rest string }

func loadKnown(prop string) (ks []known, fixed []fixedEntry) {
	f, err := os.Open(filepath.Join(verifDir, "KNOWN_FINDINGS.txt"))
	if err != nil {
		return
	}
	defer f.Close()
	sc := bufio.NewScanner(f)
	sc.Buffer(make([]byte, 1<<20), 1<<20)
	for sc.Scan() {
		line := strings.TrimSpace(sc.Text())
		if line == "" || line[0] == '#' {
			continue
		}
		if strings.HasPrefix(line, "known:") {
			body := strings.TrimSpace(line[len("known:"):])
			text := ""
			if i := strings.Index(body, "::"); i >= 0 {
				text = strings.TrimSpace(body[i+2:])
				body = body[:i]
			}
			k := known{Text: text, Mode: "plain"}
			for _, f := range strings.Fields(body) {
				kv := strings.SplitN(f, "=", 2)
				if len(kv) != 2 {
					continue
				}
				switch kv[0] {
				case "property":
					k.Prop = kv[1]
				case "key":
					k.Key = kv[1]
				case "witness":
					k.Witness = kv[1]
				case "mode":
					k.Mode = kv[1]
				}
			}
			if k.Prop == prop {
				ks = append(ks, k)
			}
		} else if strings.HasPrefix(line, "fixed:") {
			body := strings.TrimSpace(line[len("fixed:"):])
			fs := strings.Fields(body)
			if len(fs) > 0 && strings.TrimPrefix(fs[0], "property=") == prop {
				fixed = append(fixed, fixedEntry{prop, body})
			}
		}
	}
	return
}

// glob: '*' matches any run of characters.
func glob(pat, s string) bool {
	parts := strings.Split(pat, "*")
	if len(parts) == 1 {
		return pat == s
	}
	if !strings.HasPrefix(s, parts[0]) {
		return false
	}
	s = s[len(parts[0]):]
	for i := 1; i < len(parts)-1; i++ {
		j := strings.Index(s, parts[i])
		if j < 0 {
			return false
		}
		s = s[j+len(parts[i]):]
	}
	return strings.HasSuffix(s, parts[len(parts)-1])
}

// ---------------------------------------------------------------------------

type runState struct {
	prop     string
	tier     string
	seed     uint64
	buildDir string
	runDir   string
	bins     map[string]string

	mu           sync.Mutex
	viols        []violation
	inconclusive []string
	counts       map[string]int64
	perMode      map[string]*modeStats
	samples      []any
	digests      map[string]map[string]string // name -> mode -> val
	notes        []string
	rule         string
	trusted      []string
	subsInfo     []map[string]any
	distinct     map[uint64]struct{}
	distinctLB   int64
	trivial      int64
	evals        int64
	raceReports  int
	raceKeys     map[string]int
}

type modeStats struct {
	Evaluations int64   `json:"evaluations"`
	Workers     int     `json:"worker_processes"`
	Crashes     int     `json:"crashes"`
	Restarts    int     `json:"restarts"`
	Recycles    int     `json:"recycles,omitempty"`
	WallS       float64 `json:"wall_s"`
}

func env() []string {
	e := os.Environ()
	e = append(e, "GOFLAGS=-mod=mod", "GOPROXY=off", "GOSUMDB=off", "GOTOOLCHAIN=local", "CGO_ENABLED=1")
	return e
}

func (rs *runState) build(mode string) error {
	mc := modes[mode]
	bin := filepath.Join(rs.buildDir, "vworker-"+mode)
	args := []string{"build", "-tags", mc.Tags}
	if alt := os.Getenv("VERIF_REPO"); alt != "" {
		// self-test aid only: build against a scratch copy of the repository
		// (seeded mutants) instead of /repo.  Registered commands never set it.
		mf := filepath.Join(rs.buildDir, "go.mod")
		if _, err := os.Stat(mf); err != nil {
			gm, _ := os.ReadFile(filepath.Join(verifDir, "harness", "go.mod"))
			gm = bytes.Replace(gm, []byte("=> /repo"), []byte("=> "+alt), 1)
			os.WriteFile(mf, gm, 0o644)
			gs, _ := os.ReadFile(filepath.Join(verifDir, "harness", "go.sum"))
			os.WriteFile(filepath.Join(rs.buildDir, "go.sum"), gs, 0o644)
		}
		args = append(args, "-modfile="+mf)
	}
	args = append(args, mc.Flags...)
	args = append(args, "-o", bin, "./cmd/vworker")
	cmd := exec.Command("go", args...)
	cmd.Dir = filepath.Join(verifDir, "harness")
	cmd.Env = env()
	out, err := cmd.CombinedOutput()
	if err != nil {
		return fmt.Errorf("build mode %s failed: %v\n%s", mode, err, out)
	}
	rs.bins[mode] = bin
	return nil
}

var reFatal = []*regexp.Regexp{
	regexp.MustCompile(`(?m)^VERIF-CPU-BUDGET-EXCEEDED`),
	regexp.MustCompile(`(?m)^==\d+==ERROR: AddressSanitizer: (\S+)`),
	regexp.MustCompile(`(?m)^fatal error: (.*)$`),
	regexp.MustCompile(`(?m)^runtime: (out of memory.*)$`),
	regexp.MustCompile(`(?m)^panic: (.*)$`),
	regexp.MustCompile(`(?m)^(SIG[A-Z]+): `),
}
var reNum = regexp.MustCompile(`0x[0-9a-fA-F]+|\d+`)

func fatalSig(stderr string, exit string) string {
	for _, re := range reFatal {
		if m := re.FindStringSubmatch(stderr); m != nil {
			s := m[0]
			if len(m) > 1 {
				s = m[1]
			}
			if strings.HasPrefix(m[0], "==") {
				s = "asan:" + s
			}
			if strings.HasPrefix(m[0], "VERIF-CPU") {
				return "cpu-budget-exceeded"
			}
			if strings.Contains(stderr, "checkptr:") {
				if mm := regexp.MustCompile(`checkptr: ([a-z ]+)`).FindStringSubmatch(stderr); mm != nil {
					s = "checkptr:" + strings.TrimSpace(mm[1])
				}
			}
			if strings.Contains(s, "unexpected signal") || strings.Contains(s, "unexpected fault") {
				if mm := regexp.MustCompile(`\[signal (SIG[A-Z]+)`).FindStringSubmatch(stderr); mm != nil {
					s = mm[1]
				}
			}
			s = reNum.ReplaceAllString(s, "N")
			if len(s) > 80 {
				s = s[:80]
			}
			return "fatal:" + strings.ReplaceAll(strings.TrimSpace(s), " ", "_")
		}
	}
	return "fatal:exit-" + exit
}

func excerpt(stderr string) string {
	lines := strings.Split(stderr, "\n")
	var keep []string
	for _, l := range lines {
		if strings.Contains(l, "segmentio/encoding") || strings.HasPrefix(l, "fatal error") || strings.HasPrefix(l, "panic:") ||
			strings.Contains(l, "ERROR: AddressSanitizer") || strings.Contains(l, "checkptr") || strings.HasPrefix(l, "[signal") || strings.HasPrefix(l, "VERIF-") {
			keep = append(keep, strings.TrimSpace(l))
		}
		if len(keep) >= 25 {
			break
		}
	}
	return strings.Join(keep, "\n")
}

type workerResult struct {
	exitDesc string
	crashed  bool
	timedOut bool
	stalled  bool
	done     bool
	// recycleAt is set when the worker ended voluntarily because its heap had grown
	// (run-time built types are never freed): the shard continues in a fresh process.
	recycleAt string
}

// runOne runs one worker process to completion and folds its stdout into rs.
func (rs *runState) runOne(mode string, tag string, args []string, wall time.Duration, witnessName string) (res workerResult, journalSub string, journalIdx int, journalClass string, stderrText string) {
	mc := modes[mode]
	base := filepath.Join(rs.runDir, tag)
	outPath, errPath, jPath := base+".out", base+".err", base+".journal"
	os.Remove(jPath)
	full := append([]string{}, args...)
	full = append(full, "-journal", jPath)
	var cmd *exec.Cmd
	if mc.RLimitKB > 0 {
		sh := fmt.Sprintf("ulimit -v %d; exec \"$0\" \"$@\"", mc.RLimitKB)
		cmd = exec.Command("sh", append([]string{"-c", sh, rs.bins[mode]}, full...)...)
	} else {
		cmd = exec.Command(rs.bins[mode], full...)
	}
	cmd.Env = append(env(), mc.Env...)
	if mode == "race" {
		cmd.Env = append(cmd.Env, "GORACE=halt_on_error=0 log_path="+base+".racelog")
	}
	if mode == "asan" {
		cmd.Env = append(cmd.Env, "GODEBUG=asyncpreemptoff=0")
	}
	of, _ := os.Create(outPath)
	ef, _ := os.Create(errPath)
	cmd.Stdout, cmd.Stderr = of, ef
	cmd.Dir = rs.runDir
	if err := cmd.Start(); err != nil {
		res.crashed = true
		res.exitDesc = "start: " + err.Error()
		return
	}
	doneCh := make(chan error, 1)
	go func() { doneCh <- cmd.Wait() }()
	var err error
	stop := func() {
		cmd.Process.Signal(syscall.SIGQUIT)
		select {
		case err = <-doneCh:
		case <-time.After(20 * time.Second):
			cmd.Process.Kill()
			err = <-doneCh
		}
	}
	deadline := time.After(wall)
	tick := time.NewTicker(5 * time.Second)
	defer tick.Stop()
	lastCPU, idle := int64(-1), 0
wait:
	for {
		select {
		case err = <-doneCh:
			break wait
		case <-deadline:
			stop()
			res.timedOut = true
			break wait
		case <-tick.C:
			// a worker that has used next to no CPU time for a minute is not slow but stuck (a
			// runtime deadlocked after memory corruption looks like this): no wall-clock limit
			// of a reasonable size would ever end it
			cpu := procCPUTicks(cmd.Process.Pid)
			if cpu >= 0 && lastCPU >= 0 && cpu-lastCPU < 10 { // < 2% of one core; the idle runtime's own threads use about 0.1%
				idle++
			} else {
				idle = 0
			}
			lastCPU = cpu
			if idle >= 12 {
				stop()
				res.stalled = true
				break wait
			}
		}
	}
	of.Close()
	ef.Close()
	exitCode := 0
	if err != nil {
		if ee, ok := err.(*exec.ExitError); ok {
			exitCode = ee.ExitCode()
			res.exitDesc = ee.String()
		} else {
			res.exitDesc = err.Error()
			exitCode = -1
		}
	}
	rs.parseOut(outPath, mode, witnessName, &res)
	eb, _ := os.ReadFile(errPath)
	if len(eb) > 4<<20 {
		eb = eb[:4<<20]
	}
	stderrText = string(eb)
	// exit 66 = race detector found reports (halt_on_error=0): the worker itself finished.
	if exitCode != 0 && !(mode == "race" && exitCode == 66 && res.done) {
		res.crashed = true
	}
	if !res.done && exitCode == 0 {
		res.crashed = true
		res.exitDesc = "exit 0 without done marker"
	}
	if jb, e := os.ReadFile(jPath); e == nil {
		fs := strings.Fields(string(jb))
		if len(fs) >= 3 {
			journalSub = fs[0]
			journalIdx, _ = strconv.Atoi(fs[1])
			journalClass = fs[2]
		}
	}
	return
}

func (rs *runState) parseOut(path, mode, witnessName string, res *workerResult) {
	f, err := os.Open(path)
	if err != nil {
		return
	}
	defer f.Close()
	rd := bufio.NewReaderSize(f, 1<<20)
	var lastSnap map[string]any
	for {
		line, err := rd.ReadBytes('\n')
		if len(line) > 0 {
			var m map[string]any
			dec := json.NewDecoder(bytes.NewReader(line))
			dec.UseNumber()
			if e := dec.Decode(&m); e == nil {
				switch m["t"] {
				case "viol":
					v := violation{Prop: rs.prop, Mode: mode, WitnessName: witnessName}
					v.Sub, _ = m["sub"].(string)
					if n, ok := m["index"].(json.Number); ok {
						i, _ := n.Int64()
						v.Index = int(i)
					}
					v.Class, _ = m["class"].(string)
					v.Outcome, _ = m["outcome"].(string)
					v.Detail, _ = m["detail"].(string)
					v.Witness = m["witness"]
					v.Tier, _ = m["tier"].(string)
					v.Seed = rs.seed
					v.mkKey()
					rs.mu.Lock()
					rs.viols = append(rs.viols, v)
					rs.mu.Unlock()
				case "snap":
					lastSnap = m
				case "done":
					res.done = true
				case "recycle":
					res.recycleAt = fmt.Sprint(m["at"])
				case "digest":
					name := fmt.Sprint(m["sub"], "/", m["name"])
					rs.mu.Lock()
					if rs.digests[name] == nil {
						rs.digests[name] = map[string]string{}
					}
					rs.digests[name][mode] = fmt.Sprint(m["val"])
					rs.mu.Unlock()
				case "inconclusive":
					rs.mu.Lock()
					rs.inconclusive = append(rs.inconclusive, fmt.Sprintf("%s/%s: %v", mode, m["sub"], m["reason"]))
					rs.mu.Unlock()
				case "note":
					rs.mu.Lock()
					if len(rs.notes) < 50 {
						rs.notes = append(rs.notes, fmt.Sprintf("%s: %v", mode, m["detail"]))
					}
					rs.mu.Unlock()
				}
			}
		}
		if err != nil {
			break
		}
	}
	if lastSnap != nil {
		rs.mu.Lock()
		ms := rs.perMode[mode]
		if n, ok := lastSnap["evaluations"].(json.Number); ok {
			i, _ := n.Int64()
			rs.evals += i
			ms.Evaluations += i
		}
		if n, ok := lastSnap["trivial"].(json.Number); ok {
			i, _ := n.Int64()
			rs.trivial += i
		}
		if n, ok := lastSnap["distinct"].(json.Number); ok {
			i, _ := n.Int64()
			if i > rs.distinctLB {
				rs.distinctLB = i
			}
		}
		if cs, ok := lastSnap["counts"].(map[string]any); ok {
			for k, v := range cs {
				if n, ok := v.(json.Number); ok {
					i, _ := n.Int64()
					rs.counts[mode+":"+k] += i
				}
			}
		}
		if ss, ok := lastSnap["samples"].([]any); ok && len(rs.samples) < 10 {
			for _, s := range ss {
				if len(rs.samples) < 10 {
					rs.samples = append(rs.samples, s)
				}
			}
		}
		rs.mu.Unlock()
	}
}

func (rs *runState) mergeDistinct(path string) {
	b, err := os.ReadFile(path)
	if err != nil {
		return
	}
	rs.mu.Lock()
	for i := 0; i+8 <= len(b); i += 8 {
		if len(rs.distinct) >= 30_000_000 {
			break
		}
		rs.distinct[binary.LittleEndian.Uint64(b[i:])] = struct{}{}
	}
	rs.mu.Unlock()
	os.Remove(path)
}

// procCPUTicks: user+system time of a process in clock ticks, -1 when it cannot be read.
func procCPUTicks(pid int) int64 {
	b, err := os.ReadFile(fmt.Sprintf("/proc/%d/stat", pid))
	if err != nil {
		return -1
	}
	i := bytes.LastIndexByte(b, ')')
	if i < 0 {
		return -1
	}
	fs := strings.Fields(string(b[i+1:]))
	if len(fs) < 13 {
		return -1
	}
	u, e1 := strconv.ParseInt(fs[11], 10, 64)
	st, e2 := strconv.ParseInt(fs[12], 10, 64)
	if e1 != nil || e2 != nil {
		return -1
	}
	return u + st
}

// runShard runs a shard to the end of its case list, restarting after crashes.
func (rs *runState) runShard(mode string, shard, nshards int, wall time.Duration) {
	resume := ""
	ms := rs.perMode[mode]
	crashes, stalls := 0, 0
	for attempt := 0; ; attempt++ {
		tag := fmt.Sprintf("%s.s%d.a%d", mode, shard, attempt)
		dist := filepath.Join(rs.runDir, tag+".dist")
		args := []string{"-prop", rs.prop, "-mode", mode, "-seed", fmt.Sprint(rs.seed), "-tier", rs.tier,
			"-shard", fmt.Sprint(shard), "-nshards", fmt.Sprint(nshards), "-distfile", dist}
		if resume != "" {
			args = append(args, "-resume", resume)
		}
		res, jsub, jidx, jclass, stderr := rs.runOne(mode, tag, args, wall, "")
		rs.mergeDistinct(dist)
		rs.mu.Lock()
		ms.Workers++
		rs.mu.Unlock()
		if res.timedOut {
			rs.mu.Lock()
			rs.inconclusive = append(rs.inconclusive, fmt.Sprintf("%s shard %d: wall-clock watchdog fired at case %s#%d (inconclusive, not a violation)", mode, shard, jsub, jidx))
			rs.mu.Unlock()
			return
		}
		if res.stalled {
			// inconclusive for the case it was in; the rest of the shard still runs
			crashes++
			rs.mu.Lock()
			ms.Crashes++
			rs.inconclusive = append(rs.inconclusive, fmt.Sprintf("%s shard %d: worker used no CPU time for 60 s at case %s#%d (%s) and was stopped (inconclusive, not a violation)", mode, shard, jsub, jidx, jclass))
			rs.mu.Unlock()
			stalls++
			if jsub == "" || crashes > 60 || stalls >= 3 {
				return
			}
			resume = fmt.Sprintf("%s:%d", jsub, jidx+1)
			continue
		}
		if !res.crashed {
			if res.recycleAt != "" {
				rs.mu.Lock()
				ms.Recycles++
				rs.mu.Unlock()
				resume = res.recycleAt
				continue
			}
			return
		}
		crashes++
		rs.mu.Lock()
		ms.Crashes++
		rs.mu.Unlock()
		if jsub == "" {
			rs.mu.Lock()
			rs.inconclusive = append(rs.inconclusive, fmt.Sprintf("%s shard %d: worker died before its first case (%s): %s", mode, shard, res.exitDesc, firstLines(stderr, 5)))
			rs.mu.Unlock()
			return
		}
		sig := fatalSig(stderr, res.exitDesc)
		report := true
		if sig == "cpu-budget-exceeded" || strings.Contains(sig, "out_of_memory") {
			// exhaustion of a resource the worker shares between its cases (CPU seconds are per
			// case, but a loaded machine stretches them; memory accumulates in a long-lived
			// worker: run-time built types are never freed): confirm in a fresh process that
			// runs this case alone
			r2, _, _, _, st2 := rs.runOne(mode, tag+".confirm", []string{"-prop", rs.prop, "-mode", mode, "-seed", fmt.Sprint(rs.seed), "-tier", rs.tier, "-only", fmt.Sprintf("%s:%d", jsub, jidx)}, wall, "")
			if !(r2.crashed && fatalSig(st2, r2.exitDesc) == sig) {
				report = false
				rs.mu.Lock()
				rs.inconclusive = append(rs.inconclusive, fmt.Sprintf("%s: %s at %s#%d did not reproduce in a fresh process that ran the case alone", mode, sig, jsub, jidx))
				rs.mu.Unlock()
			}
		}
		if report {
			v := violation{Prop: rs.prop, Sub: jsub, Index: jidx, Class: jclass, Outcome: sig, Mode: mode, Seed: rs.seed, Tier: rs.tier,
				Detail: "worker process died while executing this case: " + res.exitDesc, Stderr: excerpt(stderr)}
			v.mkKey()
			rs.mu.Lock()
			rs.viols = append(rs.viols, v)
			rs.mu.Unlock()
		}
		if crashes > 60 {
			rs.mu.Lock()
			rs.inconclusive = append(rs.inconclusive, fmt.Sprintf("%s shard %d: more than 60 crashes, shard abandoned at %s#%d", mode, shard, jsub, jidx))
			rs.mu.Unlock()
			return
		}
		rs.mu.Lock()
		ms.Restarts++
		rs.mu.Unlock()
		resume = fmt.Sprintf("%s:%d", jsub, jidx+1)
	}
}

func firstLines(s string, n int) string {
	ls := strings.Split(s, "\n")
	if len(ls) > n {
		ls = ls[:n]
	}
	return strings.Join(ls, " | ")
}

// race logs -----------------------------------------------------------------

var reFrame = regexp.MustCompile(`(?m)^\s+(github\.com/segmentio/encoding/[^\s(]+)\(`)

func (rs *runState) scanRaceLogs() {
	files, _ := filepath.Glob(filepath.Join(rs.runDir, "*.racelog.*"))
	for _, f := range files {
		b, err := os.ReadFile(f)
		if err != nil {
			continue
		}
		blocks := strings.Split(string(b), "==================")
		for _, blk := range blocks {
			if !strings.Contains(blk, "WARNING: DATA RACE") {
				continue
			}
			rs.raceReports++
			// split into the two accesses
			parts := regexp.MustCompile(`(?m)^(Previous |)(read|write|atomic read|atomic write) at|^(Previous |)(Read|Write) at`).Split(blk, -1)
			var tops []string
			for _, p := range parts[1:] {
				sec := p
				if i := strings.Index(sec, "\n\n"); i >= 0 {
					sec = sec[:i]
				}
				fr := reFrame.FindAllStringSubmatch(sec, -1)
				if len(fr) > 0 {
					tops = append(tops, fr[0][1]) // innermost library frame of this access
				}
			}
			if len(tops) == 0 {
				rs.inconclusive = append(rs.inconclusive, "race report without a library frame (harness race?): "+firstLines(blk, 12))
				continue
			}
			sort.Strings(tops)
			key := strings.Join(tops, "~")
			rs.raceKeys[key]++
			if rs.raceKeys[key] == 1 {
				v := violation{Prop: rs.prop, Sub: "race-detector", Class: key, Outcome: "data-race", Mode: "race", Seed: rs.seed, Tier: rs.tier,
					Detail: "Go race detector report", Stderr: firstLines(blk, 60)}
				v.mkKey()
				rs.viols = append(rs.viols, v)
			}
		}
	}
}

// ---------------------------------------------------------------------------

func main() {
	if len(os.Args) < 3 {
		fmt.Fprintln(os.Stderr, "usage: vcheck <property> quick|thorough | vcheck <property> --replay <file>")
		os.Exit(2)
	}
	prop := os.Args[1]
	pc, ok := props[prop]
	if !ok {
		fmt.Fprintf(os.Stderr, "unknown property %s\n", prop)
		os.Exit(2)
	}
	seed := uint64(1)
	if s := os.Getenv("VERIF_SEED"); s != "" {
		if n, err := strconv.ParseUint(s, 10, 64); err == nil {
			seed = n
		} else if n, err := strconv.ParseInt(s, 10, 64); err == nil {
			seed = uint64(n)
		}
	}
	rs := &runState{prop: prop, seed: seed, bins: map[string]string{}, counts: map[string]int64{}, perMode: map[string]*modeStats{},
		digests: map[string]map[string]string{}, distinct: map[uint64]struct{}{}, raceKeys: map[string]int{}}
	pid := os.Getpid()
	rs.buildDir = filepath.Join(verifDir, ".build", fmt.Sprintf("%s.%d", prop, pid))
	rs.runDir = filepath.Join(verifDir, ".run", fmt.Sprintf("%s.%d", prop, pid))
	os.MkdirAll(rs.buildDir, 0o755)
	os.MkdirAll(rs.runDir, 0o755)
	keepRun := false
	defer func() {
		os.RemoveAll(rs.buildDir)
		if !keepRun {
			os.RemoveAll(rs.runDir)
		}
	}()

	if os.Args[2] == "--replay" {
		if len(os.Args) < 4 {
			fmt.Fprintln(os.Stderr, "missing replay file")
			os.Exit(2)
		}
		code := rs.replay(os.Args[3])
		os.RemoveAll(rs.buildDir)
		os.RemoveAll(rs.runDir)
		os.Exit(code)
	}

	rs.tier = os.Args[2]
	if t := os.Getenv("VERIF_TIER"); t == "quick" || t == "thorough" {
		rs.tier = t
	}
	if rs.tier != "quick" && rs.tier != "thorough" {
		fmt.Fprintln(os.Stderr, "tier must be quick or thorough")
		os.Exit(2)
	}
	start := time.Now()
	useModes := pc.Quick
	wall := pc.WallQuick
	if wall == 0 {
		wall = 25 * time.Minute
	}
	if rs.tier == "thorough" {
		useModes = pc.Thorough
		wall = pc.WallThorough
		if wall == 0 {
			wall = 4 * time.Hour
		}
	}
	if m := os.Getenv("VERIF_MODES"); m != "" { // development aid
		useModes = strings.Split(m, ",")
	}

	// 1. build (in parallel)
	var bw sync.WaitGroup
	berrs := make([]error, len(useModes))
	buildModes := append([]string{}, useModes...)
	if !containsStr(buildModes, "plain") {
		buildModes = append(buildModes, "plain")
		berrs = append(berrs, nil)
	}
	for i, m := range buildModes {
		bw.Add(1)
		go func(i int, m string) { defer bw.Done(); berrs[i] = rs.build(m) }(i, m)
	}
	bw.Wait()
	for _, e := range berrs {
		if e != nil {
			fmt.Println("BUILD-FAILED", e)
			os.RemoveAll(rs.buildDir)
			os.RemoveAll(rs.runDir)
			os.Exit(2)
		}
	}
	for _, m := range buildModes {
		rs.perMode[m] = &modeStats{}
	}

	// 2. sub list / rule
	rs.listSubs()

	// 3. witnesses of known findings
	knowns, fixed := loadKnown(prop)
	knownRepro := map[string]bool{}
	for _, k := range knowns {
		if k.Witness == "" {
			continue
		}
		if _, ok := rs.bins[k.Mode]; !ok {
			k.Mode = "plain"
		}
		before := len(rs.viols)
		res, _, _, _, stderr := rs.runOne(k.Mode, "witness."+clean(k.Witness), []string{"-prop", prop, "-mode", k.Mode, "-seed", fmt.Sprint(seed), "-tier", rs.tier, "-witness", k.Witness}, 10*time.Minute, k.Witness)
		failed := len(rs.viols) > before
		if res.crashed {
			failed = true
			v := violation{Prop: prop, Sub: "witness:" + k.Witness, Class: "witness", Outcome: fatalSig(stderr, res.exitDesc), Mode: k.Mode, WitnessName: k.Witness, Stderr: excerpt(stderr)}
			v.mkKey()
			rs.viols = append(rs.viols, v)
		}
		knownRepro[k.Witness] = failed
	}

	// 4. workloads, one mode after the other (each gets the whole machine)
	for _, m := range useModes {
		mc := modes[m]
		n := mc.Shards
		if o, ok := pc.Shards[m]; ok {
			n = o
		}
		if s := os.Getenv("VERIF_SHARDS"); s != "" {
			if k, err := strconv.Atoi(s); err == nil && k > 0 {
				n = k
			}
		}
		t0 := time.Now()
		var wg sync.WaitGroup
		for s := 0; s < n; s++ {
			wg.Add(1)
			go func(s int) { defer wg.Done(); rs.runShard(m, s, n, wall) }(s)
		}
		wg.Wait()
		rs.perMode[m].WallS = time.Since(t0).Seconds()
	}
	rs.scanRaceLogs()

	// 5. digests that must agree
	digestsCompared := 0
	if pc.CompareDigests {
		names := make([]string, 0, len(rs.digests))
		for n := range rs.digests {
			names = append(names, n)
		}
		sort.Strings(names)
		for _, n := range names {
			vals := rs.digests[n]
			if len(vals) < 2 {
				continue
			}
			digestsCompared++
			var first, fm string
			for _, m := range useModes {
				v, ok := vals[m]
				if !ok {
					continue
				}
				if first == "" {
					first, fm = v, m
				} else if v != first {
					sub := n
					name := ""
					if i := strings.Index(n, "/"); i >= 0 {
						sub, name = n[:i], n[i+1:]
					}
					v := violation{Prop: prop, Sub: sub, Class: digestClass(name), Outcome: "digest-mismatch:" + fm + "!=" + m, Mode: m, Seed: seed, Tier: rs.tier,
						Detail: fmt.Sprintf("digest %s: %s=%s %s=%s", n, fm, first, m, v), Witness: map[string]any{"digest": n}}
					v.mkKey()
					rs.viols = append(rs.viols, v)
				}
			}
		}
	}

	// 6. attribute to known findings
	attributed := map[string]int{}
	var fresh []violation
	for _, v := range rs.viols {
		matched := false
		for _, k := range knowns {
			if (v.WitnessName != "" && v.WitnessName == k.Witness) || (v.WitnessName == "" && k.Key != "" && glob(k.Key, v.Key)) {
				attributed[k.Witness+" "+k.Key]++
				matched = true
				break
			}
		}
		if !matched {
			fresh = append(fresh, v)
		}
	}
	for _, k := range knowns {
		if knownRepro[k.Witness] || attributed[k.Witness+" "+k.Key] > 0 {
			fmt.Printf("KNOWN-FINDING: property=%s %s [witness %s]\n", prop, k.Text, k.Witness)
		} else {
			fmt.Printf("note: known finding %q did not reproduce on this tree (witness passes, no workload hit)\n", k.Witness)
		}
	}
	_ = fixed

	// 7. replay files + VIOLATION lines (one per distinct key)
	seen := map[string]int{}
	var order []string
	first := map[string]violation{}
	for _, v := range fresh {
		if seen[v.Key] == 0 {
			order = append(order, v.Key)
			first[v.Key] = v
		}
		seen[v.Key]++
	}
	sort.Strings(order)
	os.MkdirAll(filepath.Join(verifDir, "replays", prop), 0o755)
	for i, k := range order {
		v := first[k]
		b, _ := json.MarshalIndent(v, "", " ")
		h := sha1.Sum([]byte(k))
		path := filepath.Join(verifDir, "replays", prop, fmt.Sprintf("%x.json", h[:8]))
		os.WriteFile(path, b, 0o644)
		if i < 40 {
			fmt.Printf("VIOLATION property=%s replay=%s key=%s count=%d :: %s\n", prop, path, k, seen[k], oneLine(v.Detail, 300))
		}
	}
	if len(order) > 40 {
		fmt.Printf("(%d further violation keys not printed; all replay files are under %s)\n", len(order)-40, filepath.Join(verifDir, "replays", prop))
	}

	// 8. evidence
	distinct := int64(len(rs.distinct))
	if distinct < rs.distinctLB {
		distinct = rs.distinctLB
	}
	cov := map[string]any{
		"evaluations":         rs.evals,
		"distinct_nontrivial": distinct,
		"rule":                rs.rule,
		"samples":             rs.samples,
		"trivial_cases":       rs.trivial,
		"sub_monitors":        rs.subsInfo,
		"build_modes":         rs.perMode,
		"counters":            rs.counts,
		"trusted_base":        rs.trusted,
		"inconclusive":        rs.inconclusive,
		"notes":               rs.notes,
		"race_reports":        rs.raceReports,
		"digests_compared":    digestsCompared,
		"known_findings_reproduced": func() []string {
			var r []string
			for _, k := range knowns {
				if knownRepro[k.Witness] {
					r = append(r, k.Witness)
				}
			}
			return r
		}(),
		"violations_attributed_to_known_findings": attributed,
		"violation_keys": order,
	}
	if len(rs.samples) == 0 {
		cov["samples"] = []any{"(no sample emitted)"}
	}
	ev := map[string]any{
		"property_id": prop, "tier": rs.tier, "seed": int64(seed), "level": "exploration", "coverage": cov,
		"assumptions": rs.trusted, "wall_s": time.Since(start).Seconds(), "violations": len(order),
	}
	os.MkdirAll(filepath.Join(verifDir, "evidence"), 0o755)
	eb, _ := json.MarshalIndent(ev, "", " ")
	if os.Getenv("VERIF_NOEVIDENCE") == "" {
		os.WriteFile(filepath.Join(verifDir, "evidence", prop+".json"), eb, 0o644)
	}

	for _, s := range rs.inconclusive {
		fmt.Println("INCONCLUSIVE:", oneLine(s, 400))
	}
	fmt.Printf("%s %s seed=%d: evaluations=%d distinct_nontrivial=%d modes=%v violations=%d known=%d wall=%.1fs\n", prop, rs.tier, seed, rs.evals, distinct, useModes, len(order), len(knowns), time.Since(start).Seconds())
	if len(order) > 0 {
		keepRun = true
		os.RemoveAll(rs.buildDir)
		// keep only the logs
		os.Exit(1)
	}
}

func digestClass(name string) string {
	if i := strings.IndexByte(name, '#'); i >= 0 {
		return name[:i]
	}
	return name
}

func oneLine(s string, n int) string {
	s = strings.ReplaceAll(s, "\n", " | ")
	if len(s) > n {
		s = s[:n] + "…"
	}
	return s
}

func containsStr(xs []string, s string) bool {
	for _, x := range xs {
		if x == s {
			return true
		}
	}
	return false
}

func (rs *runState) listSubs() {
	cmd := exec.Command(rs.bins["plain"], "-prop", rs.prop, "-tier", rs.tier, "-list")
	out, err := cmd.Output()
	if err != nil {
		return
	}
	for _, line := range bytes.Split(out, []byte("\n")) {
		var m map[string]any
		if json.Unmarshal(line, &m) != nil {
			continue
		}
		switch m["t"] {
		case "sub":
			delete(m, "t")
			rs.subsInfo = append(rs.subsInfo, m)
		case "info":
			rs.rule, _ = m["rule"].(string)
			if tb, ok := m["trusted"].([]any); ok {
				for _, t := range tb {
					rs.trusted = append(rs.trusted, fmt.Sprint(t))
				}
			}
		}
	}
}

func (rs *runState) replay(path string) int {
	b, err := os.ReadFile(path)
	if err != nil {
		fmt.Fprintln(os.Stderr, err)
		return 2
	}
	var v violation
	if err := json.Unmarshal(b, &v); err != nil {
		fmt.Fprintln(os.Stderr, err)
		return 2
	}
	mode := v.Mode
	if _, ok := modes[mode]; !ok {
		mode = "plain"
	}
	rs.tier = v.Tier
	if rs.tier == "" {
		rs.tier = "quick"
	}
	rs.seed = v.Seed
	if err := rs.build(mode); err != nil {
		fmt.Println("BUILD-FAILED", err)
		return 2
	}
	rs.perMode[mode] = &modeStats{}
	args := []string{"-prop", rs.prop, "-mode", mode, "-seed", fmt.Sprint(v.Seed), "-tier", rs.tier}
	if v.WitnessName != "" {
		args = append(args, "-witness", v.WitnessName)
	} else if strings.HasPrefix(v.Sub, "witness:") {
		args = append(args, "-witness", strings.TrimPrefix(v.Sub, "witness:"))
	} else {
		args = append(args, "-only", fmt.Sprintf("%s:%d", v.Sub, v.Index))
	}
	res, _, _, _, stderr := rs.runOne(mode, "replay", args, 30*time.Minute, "")
	if res.crashed {
		fmt.Printf("replayed case died: %s\n%s\n", fatalSig(stderr, res.exitDesc), excerpt(stderr))
		fmt.Printf("VIOLATION property=%s replay=%s\n", rs.prop, path)
		return 1
	}
	if len(rs.viols) > 0 {
		for _, nv := range rs.viols {
			fmt.Printf("reproduced: key=%s :: %s\n", nv.Key, oneLine(nv.Detail, 600))
		}
		fmt.Printf("VIOLATION property=%s replay=%s\n", rs.prop, path)
		return 1
	}
	fmt.Println("replay: the case no longer violates the property")
	return 0
}

var _ = io.EOF
