#!/bin/bash
# usage: keep_mutant2.sh <source dir with patch.diff demo*_test.go meta.json> <Cxx-mK> "<checks run + result>"
src=$1; dst=/verif/seeded/$2; note=$3
mkdir -p "$dst"; cp "$src"/patch.diff "$dst"/; cp "$src"/demo* "$dst"/ 2>/dev/null
jq --arg note "$note" '. + {confirmed_by_me: "scripts/verify_mutant.sh in a scratch worktree: demo passes without patch, existing suite passes with patch, demo fails with patch", checks_run: $note}' "$src/meta.json" > "$dst/meta.json"
echo kept $dst
