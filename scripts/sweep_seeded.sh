#!/bin/bash
# Runs every seeded change against its property's quick check (scratch worktree, never /repo) and
# prints one line per mutant: CAUGHT (exit 1 with a VIOLATION line) or MISSED.
# Two passes: first the plain build only (fast); what that misses is run again in all the build
# modes of the property (race, asan, purego, solo). SWEEP_JOBS mutants run at a time (default 4);
# the lines come out in completion order. Optional arguments: names of seeded directories.
cd /verif
one() {
  d=$1
  n=$(basename $d); p=${n%-*}
  out=$(VERIF_MODES=plain scripts/mutant_scratch.sh $d/patch.diff $p quick 2>&1)
  rc=$(echo "$out" | grep -a -o 'mutant-result.*exit=[0-9]*' | grep -o '[0-9]*$')
  nv=$(echo "$out" | grep -a -c '^VIOLATION')
  if [ "$rc" = "1" ] && [ "$nv" -gt 0 ]; then echo "CAUGHT $n (plain build, $nv violation keys)"; return; fi
  out=$(scripts/mutant_scratch.sh $d/patch.diff $p quick 2>&1)
  rc=$(echo "$out" | grep -a -o 'mutant-result.*exit=[0-9]*' | grep -o '[0-9]*$')
  nv=$(echo "$out" | grep -a -c '^VIOLATION')
  if [ "$rc" = "1" ] && [ "$nv" -gt 0 ]; then echo "CAUGHT $n (all build modes, $nv violation keys)"; else echo "MISSED $n rc=$rc"; fi
}
export -f one
if [ $# -gt 0 ]; then printf 'seeded/%s/\n' "$@"; else ls -d seeded/*/; fi | xargs -P ${SWEEP_JOBS:-4} -I{} bash -c "one {}"
