// Package mon links every property monitor into the worker.
package mon

import (
	_ "verifharness/mon/c01"
	_ "verifharness/mon/c02"
	_ "verifharness/mon/c03"
	_ "verifharness/mon/c04"
	_ "verifharness/mon/c05"
	_ "verifharness/mon/c06"
	_ "verifharness/mon/c07"
	_ "verifharness/mon/c08"
	_ "verifharness/mon/c09"
	_ "verifharness/mon/c10"
	_ "verifharness/mon/c11"
	_ "verifharness/mon/c12"
	_ "verifharness/mon/c13"
	_ "verifharness/mon/c14"
	_ "verifharness/mon/c15"
	_ "verifharness/mon/c16"
	_ "verifharness/mon/c17"
	_ "verifharness/mon/c18"
	_ "verifharness/mon/c19"
	_ "verifharness/mon/c20"
)
