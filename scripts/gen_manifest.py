#!/usr/bin/env python3
# Regenerates /verif/MANIFEST.json from the table below (claimed checks) and
# properties.jsonl (everything not claimed goes to not_applicable with a reason).
import json
claimed = json.load(open('/verif/scripts/claims.json'))
props = [json.loads(l) for l in open('/verif/properties.jsonl')]
checks, na = [], []
for p in props:
    pid = p['id']
    c = claimed.get(pid)
    if not c or c.get('unclaimed'):
        na.append({"property_id": pid, "reason": (c or {}).get('unclaimed', "monitor not implemented yet in this tree (work in progress); no claim is made")})
        continue
    checks.append({
        "property_id": pid,
        "quick_cmd": f"./check {pid} quick",
        "thorough_cmd": f"./check {pid} thorough",
        "evidence_file": f"/verif/evidence/{pid}.json",
        "replay_cmd_template": f"./check {pid} --replay {{path}}",
        "engine": "vcheck",
        "level_claimed": {"category": "exploration", "text": c['text'], "design_ref": c['design_ref']},
        "level_note": c['note'],
        "technique": c['technique'],
    })
hooks_commits = json.load(open('/verif/scripts/hook_commits.json'))
m = {
    "version": 1,
    "setup_cmd": "./setup.sh",
    "hooks": {"guard": "verif", "enable": "go build -tags verif (the harness module replaces github.com/segmentio/encoding with /repo)",
              "baseline_off_cmd": "./scripts/baseline_off.sh", "source_commits": hooks_commits, "add_only": True},
    "engines": [{"name": "vcheck", "path": "/verif/harness", "serves_properties": [c['property_id'] for c in checks],
                 "kind_free_text": "runtime monitoring: a supervisor (cmd/vcheck) builds a worker (cmd/vworker) from /repo's working tree in plain / purego / -race / -asan modes, shards deterministic case lists over worker processes, attributes process-fatal errors to the journalled case, and decides each property with differential, reference-model, canary and sanitizer oracles observing real executions"}],
    "checks": checks,
    "not_applicable": na,
    "notes": "All checks are runtime monitors (level 'exploration'): verdicts are 'held on the executions observed'. KNOWN_FINDINGS.txt lists genuine defects of the pinned tree that are recorded rather than repaired; see DESIGN.md.",
}
json.dump(m, open('/verif/MANIFEST.json', 'w'), indent=1)
print("claimed", [c['property_id'] for c in checks], "unclaimed", len(na))
