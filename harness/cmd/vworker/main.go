// vworker executes the cases of one shard of one property's monitors.
package main

import (
	"flag"
	"os"
	"strconv"
	"strings"

	"verifharness/core"
	_ "verifharness/mon"
)

func main() {
	var o core.Options
	var tier, resume, only string
	flag.StringVar(&o.Prop, "prop", "", "property id")
	flag.StringVar(&o.Mode, "mode", "plain", "build mode label")
	flag.Uint64Var(&o.Seed, "seed", 1, "seed")
	flag.StringVar(&tier, "tier", "quick", "quick|thorough")
	flag.IntVar(&o.Shard, "shard", 0, "shard")
	flag.IntVar(&o.NShards, "nshards", 1, "number of shards")
	flag.StringVar(&resume, "resume", "", "sub:index to resume from")
	flag.StringVar(&only, "only", "", "sub:index single case")
	flag.StringVar(&o.Witness, "witness", "", "run a known-finding witness")
	flag.StringVar(&o.Journal, "journal", "", "journal file")
	flag.StringVar(&o.DistFile, "distfile", "", "file receiving the distinct-case hashes")
	flag.BoolVar(&o.ListSubs, "list", false, "list sub-monitors")
	flag.Parse()
	if tier == "thorough" {
		o.Tier = core.Thorough
	}
	split := func(s string) (string, int) {
		i := strings.LastIndexByte(s, ':')
		n, _ := strconv.Atoi(s[i+1:])
		return s[:i], n
	}
	if resume != "" {
		o.ResumeSub, o.ResumeIndex = split(resume)
	}
	if only != "" {
		o.OnlySub, o.OnlyIndex = split(only)
		o.Only = true
	}
	os.Exit(core.RunWorker(o))
}
