// Package c10: json memory ownership - inputs untouched, results stable, aliasing opt-in.
package c10

import (
	"bytes"
	stdjson "encoding/json"
	"fmt"
	"io"
	"math"
	"reflect"
	"regexp"
	"strings"
	"sync"
	"unsafe"

	"github.com/segmentio/encoding/json"
	"verifharness/core"
	"verifharness/gen/jsondoc"
	"verifharness/gen/jtypes"
	"verifharness/mon/c02"
)

const pad = 48

// arena places doc inside a canary-filled backing array; the slice handed to the library has
// some spare capacity so that a write beyond len (but within cap) is caught as well.
func arena(doc []byte) (backing, in []byte) {
	backing = make([]byte, pad+len(doc)+pad)
	for i := range backing {
		backing[i] = 0x5A
	}
	copy(backing[pad:], doc)
	return backing, backing[pad : pad+len(doc) : pad+len(doc)+16]
}

type leaf struct {
	kind string // string | number | raw | bytes | mapkey
	ptr  uintptr
	n    int
	path string
}

var (
	tNumber = reflect.TypeOf(json.Number(""))
	tRaw    = reflect.TypeOf(json.RawMessage(nil))
)

// leaves collects the memory of every string-like leaf of v.
func leaves(v reflect.Value, path string, out *[]leaf, depth int) {
	if depth > 30 || !v.IsValid() {
		return
	}
	switch v.Kind() {
	case reflect.String:
		s := v.String()
		k := "string"
		if v.Type() == tNumber {
			k = "number"
		}
		if len(s) >= 2 {
			*out = append(*out, leaf{k, uintptr(unsafe.Pointer(unsafe.StringData(s))), len(s), path})
		}
	case reflect.Slice:
		if v.Type().Elem().Kind() == reflect.Uint8 {
			if v.Len() >= 2 {
				k := "bytes"
				if v.Type() == tRaw {
					k = "raw"
				}
				*out = append(*out, leaf{k, v.Pointer(), v.Len(), path})
			}
			return
		}
		for i := 0; i < v.Len() && i < 200; i++ {
			leaves(v.Index(i), fmt.Sprintf("%s[%d]", path, i), out, depth+1)
		}
	case reflect.Array:
		for i := 0; i < v.Len() && i < 200; i++ {
			leaves(v.Index(i), fmt.Sprintf("%s[%d]", path, i), out, depth+1)
		}
	case reflect.Map:
		it := v.MapRange()
		for it.Next() {
			if it.Key().Kind() == reflect.String {
				s := it.Key().String()
				if len(s) >= 2 {
					*out = append(*out, leaf{"mapkey", uintptr(unsafe.Pointer(unsafe.StringData(s))), len(s), path + ".key"})
				}
			}
			leaves(it.Value(), path+"[k]", out, depth+1)
		}
	case reflect.Pointer, reflect.Interface:
		if !v.IsNil() {
			leaves(v.Elem(), path, out, depth+1)
		}
	case reflect.Struct:
		for i := 0; i < v.NumField(); i++ {
			if v.Type().Field(i).IsExported() {
				leaves(v.Field(i), path+"."+v.Type().Field(i).Name, out, depth+1)
			}
		}
	}
}

func inside(l leaf, backing []byte) bool {
	lo := uintptr(unsafe.Pointer(&backing[0]))
	hi := lo + uintptr(len(backing))
	return l.ptr+uintptr(l.n) > lo && l.ptr < hi
}

func allowed(kind string, fl json.ParseFlags) bool {
	switch kind {
	case "string", "mapkey":
		return fl&json.DontCopyString != 0
	case "number":
		return fl&json.DontCopyNumber != 0
	case "raw":
		return fl&json.DontCopyRawMessage != 0
	}
	return false
}

// burst makes the library reuse its pooled buffers, sort scratch, tokenizer stacks and
// decoder buffers: on this goroutine and on 4 others.
var burstValues = []any{
	map[string]any{"zeta": 1, "alpha": "two", "mid": []any{1, 2, 3}, "x": map[string]any{"k": "v"}},
	map[string]string{"b": "1", "a": "2", "c": strings.Repeat("s", 300)},
	map[string][]string{"k": {"a", "b"}}, map[string]bool{"t": true, "f": false},
	map[string]stdjson.RawMessage{"r": stdjson.RawMessage(`{"a":1}`)},
	[]string{strings.Repeat("xy", 3000)}, struct{ A, B string }{"hello", strings.Repeat("w", 5000)}, strings.Repeat("q", 70000),
}

func burst(r *core.Rand, n int) {
	var wg sync.WaitGroup
	work := func(seed uint64) {
		defer wg.Done()
		rr := core.NewRand(seed)
		for i := 0; i < n; i++ {
			v := burstValues[rr.Intn(len(burstValues))]
			b, _ := json.Marshal(v)
			var buf bytes.Buffer
			json.NewEncoder(&buf).Encode(v)
			var x any
			json.Unmarshal(b, &x)
			tk := json.NewTokenizer(b)
			for tk.Next() {
			}
			d := json.NewDecoder(bytes.NewReader(append(b, b...)))
			d.Decode(&x)
			d.Decode(&x)
			json.Append(make([]byte, 0, 16), v, 0)
		}
	}
	wg.Add(5)
	for g := 0; g < 4; g++ {
		go work(r.Uint64())
	}
	work(r.Uint64())
	wg.Wait()
}

func show(x any) string {
	s := fmt.Sprintf("%#v", x)
	if len(s) > 260 {
		s = s[:260] + "…"
	}
	return s
}

func tr(b []byte) string {
	if len(b) > 200 {
		return string(b[:200]) + "…"
	}
	return string(b)
}

var publicFlags = []json.ParseFlags{json.DisallowUnknownFields, json.UseNumber, json.DontCopyString, json.DontCopyNumber, json.DontCopyRawMessage, json.DontMatchCaseInsensitiveStructFields, json.UseBigInt, json.UseInt64, json.UseUint64}

func flagWord(m int) json.ParseFlags {
	var f json.ParseFlags
	for i, x := range publicFlags {
		if m&(1<<i) != 0 {
			f |= x
		}
	}
	return f
}

// ownership target types: strings, numbers, raw messages, bytes, map keys in many positions
type ownT struct {
	S    string
	Long string `json:"a_rather_long_field_name_that_exceeds_sixty_four_bytes_in_total_length_for_the_lowercase_scratch"`
	N    json.Number
	R    json.RawMessage
	B    []byte
	M    map[string]string
	MI   map[string]any
	MR   map[string]json.RawMessage
	MS   map[string][]string
	A    any
	L    []string
	P    *string
	Sub  struct{ X, Y string }
	K    map[jtypes.NStr]json.Number
	Str  string  `json:",string"`
	I    int     `json:",string"`
	U8   uint8   `json:"u8,string"`
	F    float64 `json:",string"`
	Bo   bool    `json:",string"`
}

var ownType = reflect.TypeOf(ownT{})

func ownDoc(r *core.Rand) []byte {
	f := &jtypes.Filler{R: r, NoNaN: true, RawValid: true, MaxLen: 24, ValidUTF8: true}
	v := f.NewValue(ownType)
	b, err := stdjson.Marshal(v.Interface())
	if err != nil {
		return []byte(`{"S":"fallback value"}`)
	}
	// re-spell: upper-case keys (lower-casing scratch), escapes in strings
	s := string(b)
	if r.Bool() {
		s = strings.ReplaceAll(s, `"S":`, `"s":`)
		s = strings.ReplaceAll(s, `"a_rather_long`, `"A_RATHER_LONG`)
		s = strings.ReplaceAll(s, `"Sub":`, `"SUB":`)
	}
	if r.Bool() {
		s = strings.ReplaceAll(s, "a", `a`)
	}
	if r.Bool() {
		// leading zeroes are accepted in quoted integers
		s = strings.ReplaceAll(s, `"I":"`, `"I":"00`)
		s = strings.ReplaceAll(s, `"u8":"`, `"u8":"0`)
		s = strings.ReplaceAll(s, `"I":"00-`, `"I":"-00`)
	}
	if r.Bool() {
		// a json.Number may be given as a JSON string holding the number
		s = quoteNumberRe.ReplaceAllString(s, `"N":"$1"`)
	}
	return []byte(s)
}

var quoteNumberRe = regexp.MustCompile(`"N":(-?[0-9][0-9.eE+-]*)`)

func runDecodeOwnership(c *core.Case) {
	r := c.Rng
	var t reflect.Type
	var doc []byte
	if c.Index%3 != 0 {
		t, doc = ownType, ownDoc(r)
	} else {
		cfg := jtypes.DefaultCfg
		t = jtypes.New(r.Fork(1), cfg).Type(0)
		f := &jtypes.Filler{R: r.Fork(2), NoNaN: true, RawValid: true, MaxLen: 20}
		b, err := stdjson.Marshal(f.NewValue(t).Interface())
		if err != nil {
			return
		}
		doc = b
	}
	if r.Chance(1, 6) {
		doc = []byte(jsondoc.Mutate(r, string(doc))) // error paths must not write either
	}
	if c.Index%5 == 1 {
		doc = []byte(c02.DocFor(r, t)) // type-directed hostile literals: every decode path, accepted or rejected
	}
	fl := flagWord((c.Index * 37) % 512)
	if c.Index%4 == 0 {
		fl = 0
	}
	class := "copying"
	if fl&json.ZeroCopy != 0 {
		class = "zero-copy"
	}
	c.Journal("decode|" + class)
	backing, in := arena(doc)
	snap := append([]byte(nil), backing...)
	w := map[string]any{"type": jtypes.TypeString(t), "doc": tr(doc), "flags": uint32(fl)}

	target := reflect.New(t)
	var err error
	if sig, stk := core.Guard(func() { _, err = json.Parse(in, target.Interface(), fl) }); sig != "" {
		c.Violation("decode|"+class, sig, stk, w)
		return
	}
	if !bytes.Equal(backing, snap) {
		c.Violation("decode|"+class, "input-modified", fmt.Sprintf("Parse(flags=%#x) changed its input or the memory around it: %q -> %q", uint32(fl), tr(snap[pad:pad+len(doc)]), tr(backing[pad:pad+len(doc)])), w)
		return
	}
	if err != nil {
		c.Count("decode.errors", 1)
		return
	}
	// (b) pointer-range classification
	var ls []leaf
	leaves(target.Elem(), "", &ls, 0)
	aliased := 0
	for _, l := range ls {
		if inside(l, backing) {
			aliased++
			if !allowed(l.kind, fl) {
				c.Violation("decode|"+class+"|"+l.kind, "aliases-input", fmt.Sprintf("decoded %s at %s (%d bytes) points into the input buffer although its zero-copy flag is not set (flags=%#x)", l.kind, l.path, l.n, uint32(fl)), w)
				return
			}
		}
	}
	c.Count("leaves.checked", len(ls))
	c.Count("leaves.aliasing-input-under-flag", aliased)
	// (c) clobber test for non-aliasing decodes
	if fl&json.ZeroCopy == 0 {
		ref := reflect.New(t)
		json.Parse(append([]byte(nil), doc...), ref.Interface(), fl)
		for i := range in {
			in[i] = 0xAA
		}
		burst(r, 2)
		if !reflect.DeepEqual(target.Elem().Interface(), ref.Elem().Interface()) {
			c.Violation("decode|"+class, "value-changed-after-clobber", fmt.Sprintf("the value decoded from %q changed after the input buffer was overwritten and further library calls were made: now %s, expected %s", tr(doc), show(target.Elem().Interface()), show(ref.Elem().Interface())), w)
		}
	}
	// Unmarshal / Valid / AppendUnescape / Tokenizer leave the input alone too
	backing, in = arena(doc)
	snap = append(snap[:0], backing...)
	json.Valid(in)
	json.Unmarshal(in, reflect.New(t).Interface())
	tk := json.NewTokenizer(in)
	var toks [][]byte
	for tk.Next() {
		if tk.Delim == 0 && tk.Value.String() {
			s := tk.String()
			toks = append(toks, s)
			u := tk.Value.Unquote()
			_ = u
		}
	}
	if !bytes.Equal(backing, snap) {
		c.Violation("decode|tokenizer-valid-unmarshal", "input-modified", fmt.Sprintf("Valid/Unmarshal/Tokenizer changed the input %q", tr(doc)), w)
	}
	c.Distinct(core.Mix(core.HashBytes(doc), uint64(fl)), len(doc) > 2)
	c.Sample(aliased, map[string]any{"sub": "decode-ownership", "type": jtypes.TypeString(t), "flags": uint32(fl), "leaves": len(ls), "aliasing_input": aliased, "doc": tr(doc)})
}

// marshal results stay stable ---------------------------------------------------------------

var scalarTops = []any{"a top-level string", 12345, -1.5, true, false, nil, json.Number("77"), "", "<&>", strings.Repeat("long", 300)}

func runMarshalStability(c *core.Case) {
	c.Journal("marshal-stability")
	r := c.Rng
	cfg := jtypes.DefaultCfg
	t := jtypes.New(r.Fork(1), cfg).Type(0)
	if c.Index%3 == 0 {
		t = reflect.TypeOf(burstValues[r.Intn(len(burstValues))])
	}
	f := &jtypes.Filler{R: r.Fork(2), NoNaN: true, RawValid: true, MaxLen: []int{8, 200, 5000, 70000}[c.Index%4]}
	v := f.NewValue(t)
	var results [][]byte
	var snaps [][]byte
	for k := 0; k < 3; k++ {
		b, err := json.Marshal(v.Interface())
		if err != nil {
			return
		}
		results = append(results, b)
		snaps = append(snaps, append([]byte(nil), b...))
		var buf bytes.Buffer
		e := json.NewEncoder(&buf)
		if k == 1 {
			e.SetIndent("", " ")
		}
		e.Encode(v.Interface())
		results = append(results, buf.Bytes())
		snaps = append(snaps, append([]byte(nil), buf.Bytes()...))
		// MarshalIndent and Append results belong to the caller as well; top-level scalars
		// included (nothing to indent)
		for _, x := range []any{v.Interface(), scalarTops[(c.Index+k)%len(scalarTops)]} {
			if mi, err := json.MarshalIndent(x, core.Pick(r, []string{"", ">"}), core.Pick(r, []string{"", " ", "\t"})); err == nil {
				results = append(results, mi)
				snaps = append(snaps, append([]byte(nil), mi...))
			}
		}
		if k == 0 {
			// concurrent readers of the results while the library keeps working: a library write
			// into handed-out memory is a data race the race build reports
			var wg sync.WaitGroup
			stop := make(chan struct{})
			for g := 0; g < 2; g++ {
				wg.Add(1)
				go func() {
					defer wg.Done()
					h := uint64(0)
					for {
						select {
						case <-stop:
							_ = h
							return
						default:
							h ^= core.HashBytes(results[0])
						}
					}
				}()
			}
			burst(r, 3)
			close(stop)
			wg.Wait()
		} else {
			burst(r, 1)
		}
	}
	for i := range results {
		if !bytes.Equal(results[i], snaps[i]) {
			c.Violation("marshal-stability", "result-changed", fmt.Sprintf("a result of Marshal/Encode (#%d, %d bytes) changed after later library calls: now %q, was %q", i, len(snaps[i]), tr(results[i]), tr(snaps[i])), map[string]any{"type": jtypes.TypeString(t)})
			return
		}
	}
	if again, err := json.Marshal(v.Interface()); err != nil || !bytes.Equal(results[0], again) {
		c.Violation("marshal-stability", "remarshal-diff", fmt.Sprintf("marshalling the same value again gave different bytes: %q vs %q", tr(results[0]), tr(again)), map[string]any{"type": jtypes.TypeString(t)})
	}
	c.Count("marshal.results", len(results))
	c.Distinct(core.Mix(core.HashString(t.String()), core.HashBytes(results[0])), len(results[0]) > 2)
	c.Sample(len(results[0])/1000, map[string]any{"sub": "marshal-stability", "type": jtypes.TypeString(t), "result_bytes": len(results[0])})
}

// values returned by a Decoder stay stable while it compacts and regrows its buffer -------------

type recT struct {
	ID   string
	Num  json.Number
	Raw  json.RawMessage
	Tags map[string]string
	Any  any
	Blob []byte
}

// topLevelStability: a stream of bare values decoded one by one into *RawMessage, *Number, *string
// or *any targets; everything returned earlier must keep its contents.
func topLevelStability(c *core.Case) {
	r := c.Rng
	kind := (c.Index / 3) % 4
	var stream bytes.Buffer
	var want []string
	n := r.Range(200, 3000)
	for i := 0; i < n; i++ {
		var lit string
		switch kind {
		case 0: // RawMessage: any value
			lit = core.Pick(r, []string{`{"k":"` + r.ASCIIString(0, 30) + `"}`, `[1,2,"` + r.ASCIIString(0, 9) + `"]`, `"` + r.ASCIIString(0, 40) + `"`, jsondoc.Number(r)})
		case 1: // Number
			lit = jsondoc.Number(r)
			if !stdjson.Valid([]byte(lit)) {
				lit = "12345678"
			}
		default: // string / any
			lit = `"` + r.ASCIIString(2, 50) + `"`
		}
		stream.WriteString(lit)
		stream.WriteString(core.Pick(r, []string{"\n", " ", "\n\n"}))
		want = append(want, lit)
	}
	data := stream.Bytes()
	dec := json.NewDecoder(&chunked{data: data, step: core.Pick(r, []int{1 << 20, 4096, 777, 50000})})
	got := make([]string, 0, n)
	var raws []json.RawMessage
	var nums []json.Number
	var strs []string
	var anys []any
	for {
		var err error
		switch kind {
		case 0:
			var v json.RawMessage
			err = dec.Decode(&v)
			raws = append(raws, v)
		case 1:
			var v json.Number
			err = dec.Decode(&v)
			nums = append(nums, v)
		case 2:
			var v string
			err = dec.Decode(&v)
			strs = append(strs, v)
		default:
			var v any
			err = dec.Decode(&v)
			anys = append(anys, v)
		}
		if err != nil {
			if err != io.EOF {
				c.Violation("decoder-stability|top-level", "decode-error", fmt.Sprintf("Decoder failed on a valid stream of %d bare values: %v", n, err), nil)
				return
			}
			break
		}
	}
	burst(r, 1)
	for i := 0; i < n; i++ {
		var g string
		switch kind {
		case 0:
			if i < len(raws) {
				g = string(raws[i])
			}
		case 1:
			if i < len(nums) {
				g = string(nums[i])
			}
		case 2:
			if i < len(strs) {
				g = `"` + strs[i] + `"`
			}
		default:
			if i < len(anys) {
				s, _ := anys[i].(string)
				g = `"` + s + `"`
			}
		}
		got = append(got, g)
		if g != want[i] {
			c.Violation("decoder-stability|top-level", "earlier-value-changed", fmt.Sprintf("value #%d of %d decoded into a top-level %s target no longer has its contents after later Decode calls: now %q, the stream held %q", i, n, []string{"*RawMessage", "*Number", "*string", "*any"}[kind], tr([]byte(g)), tr([]byte(want[i]))), map[string]any{"values": n, "target": kind})
			return
		}
	}
	c.Count("decoder.top-level-values", n)
	c.Distinct(core.HashBytes(data), true)
}

func runDecoderStability(c *core.Case) {
	c.Journal("decoder-stability")
	if c.Index%3 == 2 {
		topLevelStability(c)
		return
	}
	r := c.Rng
	var stream bytes.Buffer
	var want []recT
	n := r.Range(20, 400)
	for i := 0; i < n; i++ {
		rec := recT{ID: r.ASCIIString(2, 60), Num: json.Number(jsondoc.Number(r)), Raw: json.RawMessage(`{"k":"` + r.ASCIIString(0, 30) + `"}`),
			Tags: map[string]string{r.ASCIIString(2, 9): r.ASCIIString(0, 40), "Key": strings.Repeat("v", r.Intn(300))}, Any: []any{r.ASCIIString(2, 20), map[string]any{r.ASCIIString(2, 6): r.ASCIIString(2, 9)}}, Blob: r.Bytes(r.Intn(80))}
		if !stdjson.Valid([]byte(rec.Num)) {
			rec.Num = "1"
		}
		if r.Chance(1, 20) {
			rec.ID = strings.Repeat("L", r.Range(4000, 40000)) // forces regrowth
		}
		b, _ := stdjson.Marshal(rec)
		stream.Write(b)
		stream.WriteString(core.Pick(r, []string{"\n", " ", "\n\n"}))
		var w recT
		stdjson.Unmarshal(b, &w)
		want = append(want, w)
	}
	// the stream may end in a bare number without anything after it, or inside a value
	ending := r.Intn(4)
	switch ending {
	case 1:
		stream.WriteString("12345")
	case 2:
		stream.WriteString(`{"ID":"cut`)
	}
	data := stream.Bytes()
	snap := append([]byte(nil), data...)
	// the reader hands out the caller's bytes in different ways: copied in chunks, or through
	// the standard in-memory readers that expose them directly
	var rd io.Reader
	switch r.Intn(3) {
	case 0:
		rd = &chunked{data: data, step: core.Pick(r, []int{1 << 20, 4096, 777, 50000})}
	case 1:
		rd = bytes.NewBuffer(data)
	default:
		rd = bytes.NewReader(data)
	}
	dec := json.NewDecoder(rd)
	var got []recT
	for {
		var v recT
		if err := dec.Decode(&v); err != nil {
			if err != io.EOF && ending == 0 {
				c.Violation("decoder-stability", "decode-error", fmt.Sprintf("Decoder failed on a valid stream of %d records: %v", n, err), nil)
				return
			}
			break
		}
		got = append(got, v)
		if len(got) > n {
			break
		}
	}
	if len(got) > n {
		got = got[:n]
	}
	burst(r, 1)
	if len(got) != len(want) {
		c.Violation("decoder-stability", "count-diff", fmt.Sprintf("%d records decoded, %d expected", len(got), len(want)), nil)
		return
	}
	for i := range got {
		if !reflect.DeepEqual(got[i], want[i]) {
			c.Violation("decoder-stability", "earlier-value-changed", fmt.Sprintf("record #%d of %d returned by an earlier Decode no longer has its contents after later Decode calls (stream %d bytes): now %s, expected %s", i, n, len(data), show(got[i]), show(want[i])), map[string]any{"records": n, "stream_bytes": len(data)})
			return
		}
	}
	if !bytes.Equal(data, snap) {
		c.Violation("decoder-stability", "reader-data-modified", "the bytes served by the reader were modified", nil)
	}
	c.Count("decoder.records", n)
	c.Count("decoder.stream-bytes", len(data))
	c.Distinct(core.HashBytes(data), true)
	c.Sample(len(data)/4096, map[string]any{"sub": "decoder-stability", "records": n, "stream_bytes": len(data)})
}

// zero-copy decoders: with any non-empty subset of the DontCopy options the decoded values may
// point into the Decoder's own buffer - and into nothing else: once the stream has ended, nothing
// the library does later (other Decoders, on this or other goroutines) may change them.
func runZeroCopyDecoders(c *core.Case) {
	c.Journal("zero-copy-decoders")
	r := c.Rng
	m := 1 + c.Index%7
	var stream bytes.Buffer
	var want []recT
	n := r.Range(1, 40)
	for i := 0; i < n; i++ {
		rec := recT{ID: r.ASCIIString(2, 60), Num: json.Number(fmt.Sprint(r.Int64())), Raw: json.RawMessage(`{"k":"` + r.ASCIIString(0, 30) + `"}`),
			Tags: map[string]string{r.ASCIIString(2, 9): r.ASCIIString(0, 40)}, Any: []any{r.ASCIIString(2, 20)}, Blob: r.Bytes(r.Intn(40))}
		b, _ := stdjson.Marshal(rec)
		stream.Write(b)
		stream.WriteString(core.Pick(r, []string{"\n", " ", ""}))
		var w recT
		stdjson.Unmarshal(b, &w)
		want = append(want, w)
	}
	data := stream.Bytes()
	dec := json.NewDecoder(&chunked{data: data, step: core.Pick(r, []int{1 << 20, 4096, 777})})
	var names []string
	if m&1 != 0 {
		dec.DontCopyString()
		names = append(names, "DontCopyString")
	}
	if m&2 != 0 {
		dec.DontCopyNumber()
		names = append(names, "DontCopyNumber")
	}
	if m&4 != 0 {
		dec.DontCopyRawMessage()
		names = append(names, "DontCopyRawMessage")
	}
	var got []recT
	for {
		var v recT
		err := dec.Decode(&v)
		if err == io.EOF {
			break
		}
		if err != nil {
			c.Violation("zero-copy-decoders", "decode-error", fmt.Sprintf("Decoder (%v) failed on a valid stream of %d records: %v", names, n, err), nil)
			return
		}
		got = append(got, v)
		if len(got) > n {
			break
		}
	}
	// later library activity: other decoders over other streams, here and on other goroutines
	for k := 0; k < 3; k++ {
		other := json.NewDecoder(strings.NewReader(strings.Repeat(`{"ID":"`+strings.Repeat("Z", 50+k)+`","Num":0,"Raw":[0,0,0,0]} `, 40)))
		if k == 1 {
			other.DontCopyString()
		}
		for {
			var v recT
			if other.Decode(&v) != nil {
				break
			}
		}
	}
	burst(r, 1)
	if len(got) != len(want) {
		c.Violation("zero-copy-decoders", "count-diff", fmt.Sprintf("%d records decoded, %d expected", len(got), len(want)), nil)
		return
	}
	for i := range got {
		if !reflect.DeepEqual(got[i], want[i]) {
			c.Violation("zero-copy-decoders|"+strings.Join(names, "+"), "earlier-value-changed", fmt.Sprintf("record #%d of %d decoded by a Decoder with %v changed after the stream had ended and other Decoders ran: now %s, expected %s", i, n, names, show(got[i]), show(want[i])), map[string]any{"records": n, "flags": names})
			return
		}
	}
	c.Count("zero-copy-decoder.records", n)
	c.Distinct(core.Mix(core.HashBytes(data), uint64(m)), true)
}

// map keys: member names stored in map[string]any / map[string]T targets are copies, also when a name
// occurs twice in one object and when the map already holds the key from an earlier decode.
func runMapKeys(c *core.Case) {
	c.Journal("map-keys")
	r := c.Rng
	keys := []string{r.ASCIIString(1, 12), r.ASCIIString(1, 12), "k", strings.Repeat("long", r.Range(1, 30))}
	var sb strings.Builder
	sb.WriteByte('{')
	n := r.Range(2, 12)
	for i := 0; i < n; i++ {
		if i > 0 {
			sb.WriteByte(',')
		}
		k := keys[r.Intn(len(keys))] // duplicates on purpose
		kb, _ := stdjson.Marshal(k)
		sb.Write(kb)
		sb.WriteByte(':')
		switch r.Intn(3) {
		case 0:
			fmt.Fprintf(&sb, "%d", r.Intn(1000))
		case 1:
			vb, _ := stdjson.Marshal(r.ASCIIString(0, 20))
			sb.Write(vb)
		default:
			kb2, _ := stdjson.Marshal(keys[r.Intn(len(keys))])
			fmt.Fprintf(&sb, `{%s:1,%s:2}`, kb2, kb2)
		}
	}
	sb.WriteByte('}')
	doc := []byte(sb.String())
	var want map[string]any
	if stdjson.Unmarshal(doc, &want) != nil {
		return
	}
	how := c.Index % 4
	got := map[string]any{}
	if c.Index%8 >= 4 {
		got = nil
	}
	backing, in := arena(doc)
	var err error
	switch how {
	case 0:
		err = json.Unmarshal(in, &got)
	case 1:
		_, err = json.Parse(in, &got, 0)
	case 2: // the map is long-lived: decoded into twice
		err = json.Unmarshal(in, &got)
		if err == nil {
			err = json.Unmarshal(in, &got)
		}
	default: // through a Decoder whose buffer is then reused for a long stream
		stream := append(append([]byte(nil), doc...), ' ')
		for len(stream) < 70000 {
			stream = append(stream, `{"pad":"`+strings.Repeat("p", 900)+`"} `...)
		}
		dec := json.NewDecoder(bytes.NewReader(stream))
		err = dec.Decode(&got)
		for err == nil {
			var skip struct{}
			if e := dec.Decode(&skip); e != nil {
				break
			}
		}
	}
	if err != nil {
		c.Violation("map-keys", "decode-error", fmt.Sprintf("decoding %q failed: %v", doc, err), nil)
		return
	}
	for i := range backing {
		backing[i] = 'X' // the caller reuses its buffer
	}
	burst(r, 1)
	if !reflect.DeepEqual(got, want) {
		c.Violation(fmt.Sprintf("map-keys|how%d", how), "keys-changed-with-the-input", fmt.Sprintf("map decoded from %q no longer equals the reference after the input buffer was overwritten: %s, want %s", doc, show(got), show(want)), map[string]any{"doc": string(doc), "how": how})
		return
	}
	for k := range want {
		if _, ok := got[k]; !ok {
			c.Violation(fmt.Sprintf("map-keys|how%d", how), "lookup-fails", fmt.Sprintf("key %q of the map decoded from %q cannot be looked up any more", k, doc), nil)
			return
		}
	}
	c.Count("map-keys.docs", 1)
	c.Distinct(core.Mix(core.HashBytes(doc), uint64(how)), true)
}

// reused destinations: a destination filled by a zero-copy Parse points into that call's input;
// a later plain Unmarshal into the same destination may replace what it holds, not write through
// it into the earlier input.
func runReusedDestination(c *core.Case) {
	c.Journal("reused-destination")
	r := c.Rng
	type dstT struct {
		Raw json.RawMessage
		Num json.Number
		S   string
		B   []byte
		L   []json.RawMessage
	}
	mk := func() []byte {
		d := dstT{Raw: json.RawMessage(`{"k":"` + r.ASCIIString(0, 40) + `"}`), Num: json.Number(fmt.Sprint(r.Int64())), S: r.ASCIIString(0, 40), B: r.Bytes(r.Intn(30)), L: []json.RawMessage{json.RawMessage(`[1,2,3]`), json.RawMessage(`"` + r.ASCIIString(0, 20) + `"`)}}
		b, _ := stdjson.Marshal(d)
		return b
	}
	doc1, doc2 := mk(), mk()
	backing1, in1 := arena(doc1)
	snap1 := append([]byte(nil), backing1...)
	var dst dstT
	if _, err := json.Parse(in1, &dst, json.ZeroCopy); err != nil {
		c.Violation("reused-destination", "decode-error", fmt.Sprintf("Parse(%q, ZeroCopy): %v", doc1, err), nil)
		return
	}
	backing2, in2 := arena(doc2)
	snap2 := append([]byte(nil), backing2...)
	var err error
	switch c.Index % 3 {
	case 0:
		err = json.Unmarshal(in2, &dst)
	case 1:
		_, err = json.Parse(in2, &dst, 0)
	default:
		err = json.NewDecoder(bytes.NewReader(in2)).Decode(&dst)
	}
	if err != nil {
		c.Violation("reused-destination", "decode-error", fmt.Sprintf("second decode of %q: %v", doc2, err), nil)
		return
	}
	if !bytes.Equal(backing1, snap1) {
		i := 0
		for backing1[i] == snap1[i] {
			i++
		}
		c.Violation("reused-destination", "earlier-input-written", fmt.Sprintf("a plain decode into a destination that a ZeroCopy Parse had filled wrote into that earlier call's input at offset %d: %q", i, backing1[max(0, i-10):min(len(backing1), i+30)]), map[string]any{"doc1": string(doc1), "doc2": string(doc2)})
		return
	}
	if !bytes.Equal(backing2, snap2) {
		c.Violation("reused-destination", "input-written", "the input of the second decode was modified", nil)
		return
	}
	var want dstT
	stdjson.Unmarshal(doc2, &want)
	for i := range backing2 {
		backing2[i] = 'X'
	}
	if !reflect.DeepEqual(dst, want) {
		c.Violation("reused-destination", "value-diff", fmt.Sprintf("after the second (copying) decode and the reuse of its input the destination holds %s, want %s", show(dst), show(want)), nil)
		return
	}
	c.Count("reused-destination.docs", 1)
	c.Distinct(core.Mix(core.HashBytes(doc1), core.HashBytes(doc2)), true)
}

// raw literals: null / true / false decoded into RawMessage destinations are copies like any other
// raw value: the caller may write into one result without changing another, or what is decoded next.
func runRawLiterals(c *core.Case) {
	c.Journal("raw-literals")
	r := c.Rng
	lits := []string{"null", "true", "false", "0", `""`, "[]", "{}"}
	var parts []string
	for n := r.Range(2, 8); n > 0; n-- {
		parts = append(parts, lits[r.Intn(len(lits))])
	}
	doc := []byte("[" + strings.Join(parts, ",") + "]")
	decode := func(how int) ([]json.RawMessage, error) {
		var out []json.RawMessage
		var err error
		switch how {
		case 0:
			err = json.Unmarshal(doc, &out)
		case 1:
			_, err = json.Parse(append([]byte(nil), doc...), &out, 0)
		default:
			err = json.NewDecoder(bytes.NewReader(doc)).Decode(&out)
		}
		return out, err
	}
	how := c.Index % 3
	first, err := decode(how)
	if err != nil || len(first) != len(parts) {
		c.Violation("raw-literals", "decode-error", fmt.Sprintf("decoding %s into []RawMessage: %v (%d elements)", doc, err, len(first)), nil)
		return
	}
	second, _ := decode((how + 1) % 3)
	// the caller recycles the first result: writes into its bytes
	for _, m := range first {
		for i := range m {
			m[i] = 'X'
		}
	}
	third, _ := decode(how)
	for name, res := range map[string][]json.RawMessage{"decoded before the write": second, "decoded after the write": third} {
		for i := range parts {
			if i >= len(res) || string(res[i]) != parts[i] {
				got := "missing"
				if i < len(res) {
					got = string(res[i])
				}
				c.Violation("raw-literals|"+parts[i], "shared-with-another-result", fmt.Sprintf("after the caller overwrote the bytes of one decoded []RawMessage, element %d of another one (%s) reads %q, want %q (document %s)", i, name, got, parts[i], doc), map[string]any{"doc": string(doc)})
				return
			}
		}
	}
	c.Count("raw-literals.docs", 1)
	c.Distinct(core.Mix(core.HashBytes(doc), uint64(how)), true)
}

// after failures: encodes that fail half-way (holding pooled buffers) followed by encodes that
// use two buffers at once; outputs obtained earlier keep their contents.
func runAfterFailures(c *core.Case) {
	c.Journal("after-failures")
	r := c.Rng
	keep, _ := json.Marshal(map[string]any{"kept": r.ASCIIString(10, 200)})
	keepSnap := append([]byte(nil), keep...)
	fails := []func() error{
		func() error { return json.NewEncoder(io.Discard).Encode(math.NaN()) },
		func() error { return json.NewEncoder(io.Discard).Encode(map[string]any{"a": 1, "c": make(chan int)}) },
		func() error { _, err := json.Marshal([]any{1, math.Inf(1)}); return err },
		func() error {
			_, err := json.Marshal(map[string]json.RawMessage{"a": json.RawMessage(`1`), "b": json.RawMessage(`{`)})
			return err
		},
		func() error {
			e := json.NewEncoder(io.Discard)
			e.SetIndent(">", " ")
			return e.Encode(struct{ F func() }{})
		},
	}
	for k := r.Range(1, 3); k > 0; k-- {
		i := r.Intn(len(fails))
		if err := fails[i](); err == nil {
			c.Violation("after-failures", "no-error", fmt.Sprintf("failing encode #%d returned nil", i), nil)
			return
		}
	}
	depth := r.Range(1, 4)
	pad := r.ASCIIString(0, 300)
	b, err := json.Marshal([]any{pad, selfMarshaler{depth}, "tail"})
	wantB, _ := stdjson.Marshal([]any{pad, selfMarshaler{depth}, "tail"})
	if err != nil || !bytes.Equal(b, wantB) {
		c.Violation("after-failures|Marshal", "output-overwritten", fmt.Sprintf("after failed encodes, Marshal of a value whose MarshalJSON calls Marshal gives %q (err %v), want %q", tr(b), err, tr(wantB)), nil)
		return
	}
	var buf bytes.Buffer
	e := json.NewEncoder(&buf)
	e.Encode(selfMarshaler{depth})
	e.Encode(map[string]any{"z": selfMarshaler{1}, "a": pad})
	var sbuf bytes.Buffer
	se := stdjson.NewEncoder(&sbuf)
	se.Encode(selfMarshaler{depth})
	se.Encode(map[string]any{"z": selfMarshaler{1}, "a": pad})
	if !bytes.Equal(buf.Bytes(), sbuf.Bytes()) {
		c.Violation("after-failures|Encoder", "output-overwritten", fmt.Sprintf("after failed encodes, an Encoder over marshalers that call Marshal wrote %q, want %q", tr(buf.Bytes()), tr(sbuf.Bytes())), nil)
		return
	}
	if !bytes.Equal(keep, keepSnap) || !bytes.Equal(b, wantB) {
		c.Violation("after-failures", "earlier-output-changed", "a Marshal result obtained earlier changed", nil)
		return
	}
	c.Count("after-failures.rounds", 1)
	c.Distinct(uint64(c.Index), true)
}

// selfMarshaler's MarshalJSON calls json.Marshal: two encode buffers are in use at once.
type selfMarshaler struct{ depth int }

func (s selfMarshaler) MarshalJSON() ([]byte, error) {
	var in any
	if s.depth > 0 {
		in = selfMarshaler{s.depth - 1}
	}
	return json.Marshal(map[string]any{"depth": s.depth, "in": in, "pad": strings.Repeat("q", 40*s.depth)})
}

// lent marshaler output: the slice MarshalJSON / MarshalText returns belongs to the program (a
// cached encoding, part of a bigger buffer); the library may read it during the call, never
// write to it or keep it.
type lentJSON struct{ b []byte }

func (l lentJSON) MarshalJSON() ([]byte, error) { return l.b, nil }

type lentText struct{ b []byte }

func (l *lentText) MarshalText() ([]byte, error) { return l.b, nil }

func runLentOutput(c *core.Case) {
	c.Journal("lent-marshaler-output")
	r := c.Rng
	docs := []string{`{"cached":true,"n":[1,2,3]}`, `"plain"`, `[1,2,3]`, `12345`, `{"a":"` + r.ASCIIString(0, 200) + `"}`, `{"k": [1, 2] }`, `"a<b"`, `null`}
	doc := docs[c.Index%len(docs)]
	backing := make([]byte, len(doc)+128)
	for i := range backing {
		backing[i] = 0xA5
	}
	copy(backing[32:], doc)
	lent := backing[32 : 32+len(doc)] // spare capacity behind it
	snap := append([]byte(nil), backing...)
	text := make([]byte, 96)
	for i := range text {
		text[i] = 0x5A
	}
	copy(text[16:], "text-key")
	lt := &lentText{text[16:24]}
	tsnap := append([]byte(nil), text...)
	values := []any{lentJSON{lent}, &lentJSON{lent}, []any{lentJSON{lent}}, map[string]any{"k": lentJSON{lent}}, struct{ A lentJSON }{lentJSON{lent}}, lt, map[string]*lentText{"v": lt}, []*lentText{lt}}
	v := values[(c.Index/len(docs))%len(values)]
	how := (c.Index / (len(docs) * len(values))) % 3
	switch how {
	case 0:
		json.Marshal(v)
	case 1:
		var buf bytes.Buffer
		e := json.NewEncoder(&buf)
		e.Encode(v)
		e.Encode(v)
	default:
		json.Append(make([]byte, 0, 8), v, json.AppendFlags(c.Index%8))
	}
	check := func(when string) bool {
		if !bytes.Equal(backing, snap) {
			i := 0
			for backing[i] == snap[i] {
				i++
			}
			c.Violation("lent-marshaler-output|MarshalJSON", "lent-memory-written", fmt.Sprintf("%s the buffer that holds the slice returned by MarshalJSON (%q at 32..%d) differs at offset %d: %q", when, doc, 32+len(doc), i, backing[max(0, i-8):min(len(backing), i+24)]), map[string]any{"doc": doc, "how": how})
			return false
		}
		if !bytes.Equal(text, tsnap) {
			c.Violation("lent-marshaler-output|MarshalText", "lent-memory-written", fmt.Sprintf("%s the buffer that holds the slice returned by MarshalText changed: %q", when, text), map[string]any{"how": how})
			return false
		}
		return true
	}
	if !check("right after the call") {
		return
	}
	// later calls on this goroutine (the pools are per P) and on others
	for k := 0; k < 4; k++ {
		json.Marshal(burstValues[(c.Index+k)%len(burstValues)])
		var buf bytes.Buffer
		json.NewEncoder(&buf).Encode(burstValues[(c.Index+k+1)%len(burstValues)])
	}
	if !check("after later Marshal / Encode calls on the same goroutine") {
		return
	}
	burst(r, 1)
	if !check("after later library calls on several goroutines") {
		return
	}
	c.Count("lent-output.checked", 1)
	c.Distinct(uint64(c.Index), true)
}

type chunked struct {
	data []byte
	pos  int
	step int
}

func (r *chunked) Read(p []byte) (int, error) {
	if r.pos >= len(r.data) {
		return 0, io.EOF
	}
	n := r.step
	if n > len(p) {
		n = len(p)
	}
	if n > len(r.data)-r.pos {
		n = len(r.data) - r.pos
	}
	copy(p, r.data[r.pos:r.pos+n])
	r.pos += n
	return n, nil
}

// Tokenizer.String / Unquote results and AppendUnescape ---------------------------------------------

// key fragments: the pre-computed `,"name":` texts of a struct type (one plain, one HTML-escaped)
// are shared by every encode of the type; encoding in one mode must not disturb the other.
type fragNames struct {
	A int    `json:"a<b"`
	B string `json:"x&y>z"`
	C bool   `json:"<<tag>>"`
	D int    `json:"plain"`
	E int    `json:"é&è"`
}

func runKeyFragments(c *core.Case) {
	c.Journal("key-fragments")
	r := c.Rng
	// a type not seen before in this process for every few cases: library type, local type, generated
	var v any
	switch c.Index % 3 {
	case 0:
		v = fragNames{A: r.Intn(100), B: r.ASCIIString(0, 5), C: r.Bool(), D: 1, E: 2}
	case 1:
		v = jtypes.EscNames{A: r.Intn(9), B: 2, C: r.ASCIIString(0, 4), D: true, E: 5, F: 6, G: 7, H: 8, I: 9, J: 10}
	default:
		t := reflect.StructOf([]reflect.StructField{
			{Name: "A", Type: reflect.TypeOf(0), Tag: reflect.StructTag(fmt.Sprintf(`json:"k%d<&>%s"`, c.Index, r.ASCIIString(0, 6)))},
			{Name: "B", Type: reflect.TypeOf(""), Tag: reflect.StructTag(fmt.Sprintf(`json:"&%s"`, r.ASCIIString(1, 6)))},
		})
		x := reflect.New(t).Elem()
		x.Field(0).SetInt(int64(r.Intn(50)))
		x.Field(1).SetString(r.ASCIIString(0, 5))
		v = x.Interface()
	}
	ref := func(html bool) []byte {
		var buf bytes.Buffer
		e := stdjson.NewEncoder(&buf)
		e.SetEscapeHTML(html)
		e.Encode(v)
		return bytes.TrimSuffix(buf.Bytes(), []byte("\n"))
	}
	wantHTML, wantPlain := ref(true), ref(false)
	order := []bool{r.Bool(), r.Bool(), true, false, true, false, false, true}
	for i, html := range order {
		fl := json.SortMapKeys
		want := wantPlain
		if html {
			fl |= json.EscapeHTML
			want = wantHTML
		}
		got, err := json.Append(nil, v, fl)
		if err != nil || !bytes.Equal(got, want) {
			c.Violation("key-fragments", "mode-disturbed", fmt.Sprintf("encode #%d (EscapeHTML=%v) of %T gives %s (err %v), encoding/json gives %s; order of modes %v", i, html, v, got, err, want, order[:i+1]), nil)
			return
		}
	}
	c.Count("key-fragments.encodes", len(order))
	c.Distinct(core.Mix(uint64(c.Index), core.HashBytes(wantHTML)), true)
}

func runTokenizerOwnership(c *core.Case) {
	c.Journal("tokenizer-ownership")
	r := c.Rng
	doc := []byte(jsondoc.Valid(r, jsondoc.DefaultOpts))
	backing, in := arena(doc)
	snap := append([]byte(nil), backing...)
	tk := json.NewTokenizer(in)
	type kept struct {
		b    []byte
		copy []byte
		esc  bool
	}
	var ks []kept
	for tk.Next() {
		if tk.Delim == 0 && tk.Value.String() {
			s := tk.String()
			esc := bytes.IndexByte(tk.Value, '\\') >= 0
			ks = append(ks, kept{s, append([]byte(nil), s...), esc})
			if esc && len(s) >= 2 {
				l := leaf{"string", uintptr(unsafe.Pointer(&s[0])), len(s), ""}
				if inside(l, backing) {
					c.Violation("tokenizer-ownership", "unescaped-string-aliases-input", fmt.Sprintf("String() of the escaped token %q points into the input", tr(tk.Value)), nil)
				}
			}
		}
	}
	burst(r, 1)
	for _, k := range ks {
		if !bytes.Equal(k.b, k.copy) {
			c.Violation("tokenizer-ownership", "string-changed", fmt.Sprintf("a slice returned by Tokenizer.String changed after later library calls: %q -> %q", tr(k.copy), tr(k.b)), nil)
			break
		}
	}
	if !bytes.Equal(backing, snap) {
		c.Violation("tokenizer-ownership", "input-modified", fmt.Sprintf("Tokenizer modified its input %q", tr(doc)), nil)
	}
	// AppendUnescape
	lit := []byte(jsondoc.StringLit(r, r.String(40), true))
	b2, in2 := arena(lit)
	s2 := append([]byte(nil), b2...)
	out := json.AppendUnescape(nil, in2, 0)
	if !bytes.Equal(b2, s2) {
		c.Violation("AppendUnescape", "input-modified", fmt.Sprintf("AppendUnescape modified its input %q", lit), nil)
	}
	if len(out) >= 2 && inside(leaf{"string", uintptr(unsafe.Pointer(&out[0])), len(out), ""}, b2) {
		c.Violation("AppendUnescape", "aliases-input", "result points into the input", nil)
	}
	c.Count("tokenizer.strings", len(ks))
	c.Distinct(core.HashBytes(doc), len(doc) > 2)
}

func init() {
	core.Register(&core.Monitor{
		Prop:    "C10",
		Rule:    "decode-ownership: a document (a struct covering strings, a >64-byte field name, Number, RawMessage, []byte, five map kinds, interfaces, ',string'; or a generated type), optionally re-spelled with upper-case keys and \\u escapes or mutated, is placed inside a canary-filled backing array and parsed under a rotating subset of the 9 public ParseFlags: the whole backing array must be unchanged; every string/Number/RawMessage/[]byte/map-key leaf (len>=2) of the result is classified by address as inside or outside the input buffer and may be inside only under its own DontCopy flag; without zero-copy flags the input is then overwritten with 0xAA, a burst of Marshal/Encode/Unmarshal/Tokenizer/Decoder calls runs on 5 goroutines and the value must still equal a reference decode. marshal-stability: results of Marshal/Encoder are snapshotted, concurrently read while bursts run (race build) and re-compared; re-marshalling gives identical bytes. decoder-stability: 20-400 records (some 4-40 KB), or 200-3000 bare values decoded into top-level *RawMessage / *Number / *string / *any targets, through Decoder with chunked readers; every earlier record must keep its contents after all later Decode calls. key-fragments: struct types whose field names need HTML escaping are encoded eight times in a random order of EscapeHTML on/off, every output compared with encoding/json's for that mode. tokenizer-ownership: String()/Unquote results and AppendUnescape. Distinct by (document, flags). zero-copy-decoders: a Decoder with each non-empty subset of the three DontCopy options over a short stream read to io.EOF; afterwards other Decoders run on this and other goroutines and the decoded records must keep their contents. lent-marshaler-output: MarshalJSON / MarshalText return a slice of a bigger canary-filled buffer with spare capacity (top level, by pointer, in slices, maps and fields) through Marshal, Encoder.Encode twice and Append: the buffer is unchanged right after the call, after later calls on the same goroutine and after a burst on others. map-keys: objects with duplicate member names into fresh, nil and long-lived map[string]any targets (Unmarshal, Parse, twice into the same map, a Decoder that goes on reading 70 KB): after the input is overwritten the map equals encoding/json's and every key can be looked up. reused-destination: a destination filled by a ZeroCopy Parse is decoded into again without flags: the earlier input is unchanged, the value is the second document's and survives the reuse of its input. after-failures: 1-3 encodes that fail half-way, then Marshal / Encoder over marshalers that call Marshal: bytes equal to encoding/json's, earlier outputs unchanged. marshal-stability also keeps MarshalIndent results, top-level scalars included. raw-literals: null/true/false/0/\"\"/[]/{} decoded into []RawMessage (Unmarshal, Parse, Decoder): after the caller overwrites one result, results decoded before and after still read as the document says.",
		Trusted: []string{"address-range classification via reflect/unsafe in the harness", "encoding/json for reference decodes", "Go race detector for library writes into handed-out memory (race build)"},
		Subs: []core.Sub{
			{Name: "decode-ownership", N: core.Const(6000, 300000), Run: runDecodeOwnership},
			{Name: "marshal-stability", N: core.Const(1200, 50000), Run: runMarshalStability},
			{Name: "decoder-stability", N: core.Const(500, 20000), Run: runDecoderStability},
			{Name: "zero-copy-decoders", N: core.Const(350, 14000), Run: runZeroCopyDecoders},
			{Name: "lent-marshaler-output", N: core.Const(192, 1920), Run: runLentOutput},
			{Name: "map-keys", N: core.Const(800, 30000), Run: runMapKeys},
			{Name: "reused-destination", N: core.Const(300, 9000), Run: runReusedDestination},
			{Name: "raw-literals", N: core.Const(300, 9000), Run: runRawLiterals, Modes: []string{"plain"}},
			{Name: "after-failures", N: core.Const(200, 6000), Run: runAfterFailures, Modes: []string{"plain"}},
			{Name: "key-fragments", N: core.Const(600, 20000), Run: runKeyFragments},
			{Name: "tokenizer-ownership", N: core.Const(4000, 200000), Run: runTokenizerOwnership},
		},
	})
}
