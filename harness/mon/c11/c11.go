// Package c11: json.Decoder yields the same value stream however the bytes arrive.
package c11

import (
	"bytes"
	stdjson "encoding/json"
	"errors"
	"fmt"
	"io"
	"strings"

	"github.com/segmentio/encoding/json"
	"verifharness/core"
	"verifharness/gen/jsondoc"
)

type stream struct {
	data   []byte
	starts []int // start offset of value i
	ends   []int // end offset (exclusive) of value i
	desc   string
}

var errReader = errors.New("c11: injected reader failure")

func bigString(r *core.Rand, n int) string {
	var sb strings.Builder
	sb.WriteByte('"')
	for sb.Len() < n-1 {
		if r.Chance(1, 50) {
			sb.WriteString(core.Pick(r, []string{`\n`, `\"`, `\\`, `é`, `A`, ` `}))
		} else {
			sb.WriteByte(byte('a' + r.Intn(26)))
		}
	}
	sb.WriteByte('"')
	return sb.String()
}

// lateEscapes is a value whose first `clean` bytes are plain printable ASCII without any
// backslash and which only then starts to hold escapes and non-ASCII characters: hints computed
// on the first buffer-full must not be applied to what is read later.
func lateEscapes(r *core.Rand, clean, total int, array bool) string {
	var sb strings.Builder
	if array {
		sb.WriteString("[\"k\",")
	}
	sb.WriteByte('"')
	for sb.Len() < clean {
		sb.WriteByte(byte('a' + r.Intn(26)))
	}
	esc := []string{"\\n", "\\\"", "\\\\", "é", "\\u00e9", "\\\"x\\\""}
	for sb.Len() < total {
		if r.Chance(1, 6) {
			sb.WriteString(esc[r.Intn(len(esc))])
		} else {
			sb.WriteByte(byte('a' + r.Intn(26)))
		}
	}
	sb.WriteByte('"')
	if array {
		sb.WriteString(",{\"a\\\"b\":1}]")
	}
	return sb.String()
}

func bigNumber(r *core.Rand, n int) string {
	var sb strings.Builder
	sb.WriteByte(byte('1' + r.Intn(9)))
	for sb.Len() < n {
		sb.WriteByte(byte('0' + r.Intn(10)))
	}
	return sb.String()
}

func bigArray(r *core.Rand, n int) string {
	var sb strings.Builder
	sb.WriteByte('[')
	for sb.Len() < n-8 {
		if sb.Len() > 1 {
			sb.WriteByte(',')
		}
		sb.WriteString(jsondoc.Number(r))
	}
	sb.WriteByte(']')
	return sb.String()
}

func genValue(r *core.Rand, kind int) string {
	switch kind {
	case 0:
		return jsondoc.Number(r)
	case 1:
		return core.Pick(r, []string{"true", "false", "null"})
	case 2:
		return jsondoc.StringLit(r, r.String(30), true)
	case 3:
		o := jsondoc.DefaultOpts
		o.MaxDepth = 3
		return jsondoc.Valid(r, o)
	default:
		return "{}"
	}
}

var pivots = []int{4095, 4096, 4097, 8192, 32767, 32768, 32769, 65537}

// genStream builds a stream of values; profile selects the size regime.
func genStream(r *core.Rand, profile int) *stream {
	s := &stream{}
	var sb bytes.Buffer
	add := func(v string) {
		// separator
		prevSelfDelim := sb.Len() == 0 || strings.ContainsRune(`}]"`, rune(sb.Bytes()[sb.Len()-1]))
		nextSelfDelim := strings.ContainsRune(`{["`, rune(v[0]))
		sep := core.Pick(r, []string{" ", "\n", "  ", " \t\r\n", "\n\n", "\r\n"})
		if (prevSelfDelim || nextSelfDelim) && r.Chance(1, 3) {
			sep = ""
		}
		if sb.Len() == 0 && r.Bool() {
			sep = ""
		}
		if r.Chance(1, 40) {
			sep = strings.Repeat(" ", r.Range(1, 9000))
		}
		sb.WriteString(sep)
		s.starts = append(s.starts, sb.Len())
		sb.WriteString(v)
		s.ends = append(s.ends, sb.Len())
	}
	switch profile {
	case 0: // many small values
		n := r.Range(1, 200)
		for i := 0; i < n; i++ {
			add(genValue(r, r.Intn(5)))
		}
		s.desc = fmt.Sprintf("%d small values", n)
	case 1: // fixed-width scalar records crossing every refill boundary (top-level numbers / literals)
		rec := core.Pick(r, []string{"123456", "12", "-7", "true", "null", "1.5e3", "9", "false", `"ab"`})
		target := core.Pick(r, []int{5000, 33000, 40000, 70000, 140000})
		for sb.Len() < target {
			add(rec)
		}
		s.desc = fmt.Sprintf("records %q up to %d bytes", rec, target)
	case 2: // one big value around a pivot, surrounded by small ones
		p := core.Pick(r, pivots) + r.Range(-3, 3)
		for i := r.Intn(3); i > 0; i-- {
			add(genValue(r, r.Intn(5)))
		}
		switch r.Intn(4) {
		case 0:
			add(bigString(r, p))
		case 1:
			add(bigNumber(r, p))
		case 2:
			add(bigArray(r, p))
		default:
			clean := core.Pick(r, []int{4096, 32768, 65536}) + r.Range(-2, 300)
			add(lateEscapes(r, clean, clean+r.Range(10, 3000), r.Bool()))
			p = clean
		}
		for i := r.Intn(4); i > 0; i-- {
			add(genValue(r, r.Intn(5)))
		}
		s.desc = fmt.Sprintf("big value of ~%d bytes", p)
	case 3: // prefix sized so that the next values straddle a pivot
		p := core.Pick(r, pivots)
		pad := p - r.Range(0, 12)
		add(bigString(r, pad/2))
		for sb.Len() < pad-20 {
			add(core.Pick(r, []string{"1", `"x"`, "[]", "null"}))
		}
		for i := 0; i < 6; i++ {
			add(genValue(r, r.Intn(3)))
		}
		s.desc = fmt.Sprintf("values straddling offset %d", p)
	default: // 1 MiB
		add(genValue(r, 0))
		add(bigString(r, 1<<20+r.Intn(100)))
		add(bigNumber(r, 300))
		add(genValue(r, 3))
		s.desc = "1 MiB string"
	}
	if r.Bool() {
		sb.WriteString(core.Pick(r, []string{" ", "\n", "  \n ", strings.Repeat("\n", 5000)}))
	}
	s.data = sb.Bytes()
	return s
}

// schedReader delivers data[:len] according to a chunk schedule and then its terminal error.
type schedReader struct {
	data      []byte
	pos       int
	next      func() int
	term      error
	withData  bool
	delivered int
	zeroRun   int
}

func (r *schedReader) Read(p []byte) (int, error) {
	if r.pos >= len(r.data) {
		return 0, r.term
	}
	n := r.next()
	if n == 0 && r.zeroRun < 2 {
		r.zeroRun++
		return 0, nil
	}
	r.zeroRun = 0
	if n <= 0 {
		n = 1
	}
	if n > len(p) {
		n = len(p)
	}
	if n > len(r.data)-r.pos {
		n = len(r.data) - r.pos
	}
	copy(p, r.data[r.pos:r.pos+n])
	r.pos += n
	r.delivered = r.pos
	if r.pos == len(r.data) && r.withData {
		return n, r.term
	}
	return n, nil
}

type schedule struct {
	name string
	mk   func(r *core.Rand) func() int
}

func fixed(n int) schedule {
	return schedule{fmt.Sprintf("fixed-%d", n), func(*core.Rand) func() int { return func() int { return n } }}
}

var schedules = []schedule{
	fixed(1), fixed(2), fixed(7), fixed(4095), fixed(4096), fixed(4097), fixed(32768), fixed(1 << 30),
	{"random-small", func(r *core.Rand) func() int { return func() int { return 1 + r.Intn(16) } }},
	{"random-mixed", func(r *core.Rand) func() int {
		return func() int { return core.Pick(r, []int{1, 3, 100, 4095, 4096, 5000, 40000}) }
	}},
	{"zero-interleaved", func(r *core.Rand) func() int {
		return func() int {
			if r.Chance(1, 3) {
				return 0
			}
			return 1 + r.Intn(5000)
		}
	}},
	{"random-large", func(r *core.Rand) func() int { return func() int { return 1 + r.Intn(70000) } }},
}

type result struct {
	vals [][]byte
	err  error
	offs []int64
}

func stdDecodeAll(d []byte) (vals [][]byte, err error) {
	dec := stdjson.NewDecoder(bytes.NewReader(d))
	for {
		var raw stdjson.RawMessage
		if e := dec.Decode(&raw); e != nil {
			return vals, e
		}
		vals = append(vals, append([]byte(nil), raw...))
	}
}

func isEOFClass(e error) bool { return e == io.EOF }

// runSchedule decodes D through the package Decoder under one schedule and checks every clause.
func runSchedule(c *core.Case, class string, st *stream, cut int, term error, withData bool, sc schedule, want [][]byte, wantErr error, useAny bool) (got [][]byte, ok bool) {
	D := st.data[:cut]
	rd := &schedReader{data: D, next: sc.mk(c.Rng.Fork(uint64(len(sc.name)))), term: term, withData: withData}
	dec := json.NewDecoder(rd)
	if useAny {
		dec.UseNumber()
	}
	viol := func(outcome, detail string) {
		c.Violation(class, outcome, fmt.Sprintf("%s; stream: %s, %d bytes delivered of %d, terminal=%v withData=%v, schedule=%s", detail, st.desc, cut, len(st.data), term, withData, sc.name),
			map[string]any{"stream": st.desc, "cut": cut, "schedule": sc.name, "terminal": fmt.Sprint(term)})
		ok = false
	}
	ok = true
	var lastOff int64
	var termErr error
	for i := 0; ; i++ {
		var raw json.RawMessage
		var v any
		var err error
		if useAny {
			err = dec.Decode(&v)
		} else if i%5 == 3 {
			// a target nothing can be decoded into: like encoding/json, the Decoder reports it
			// and has consumed the value; at the end of the input the terminal result comes first
			err = dec.Decode([]any{nil, struct{ A int }{}, (*int)(nil)}[(i/5)%3])
			var iue *json.InvalidUnmarshalError
			if errors.As(err, &iue) {
				if i >= len(want) {
					viol("invalid-target-before-terminal", fmt.Sprintf("Decode into an invalid target returned %v where std yields the terminal result %v (%d values)", err, wantErr, len(want)))
					return got, false
				}
				raw, err = append(json.RawMessage(nil), want[i]...), nil
			} else if err == nil {
				viol("invalid-target-accepted", "Decode into an invalid target returned nil")
				return got, false
			}
		} else {
			err = dec.Decode(&raw)
		}
		if err != nil {
			termErr = err
			break
		}
		if useAny {
			var w any
			if i < len(want) {
				sd := stdjson.NewDecoder(bytes.NewReader(want[i]))
				sd.UseNumber()
				sd.Decode(&w)
				b1, _ := stdjson.Marshal(v)
				b2, _ := stdjson.Marshal(w)
				raw = b1
				if !bytes.Equal(b1, b2) {
					viol("value-diff", fmt.Sprintf("value #%d decodes to %s, std %s", i, trunc(b1), trunc(b2)))
					return got, false
				}
			}
			raw = nil
		}
		got = append(got, append([]byte(nil), raw...))
		if i >= len(want) {
			viol("extra-value", fmt.Sprintf("value #%d %q returned but std yields only %d values then %v", i, trunc(raw), len(want), wantErr))
			return got, false
		}
		if !useAny && !bytes.Equal(raw, want[i]) {
			viol("value-diff", fmt.Sprintf("value #%d = %q, std %q", i, trunc(raw), trunc(want[i])))
			return got, false
		}
		// InputOffset: monotone, within [end of value i, start of value i+1]
		off := dec.InputOffset()
		if off < lastOff {
			viol("offset-decreased", fmt.Sprintf("InputOffset went from %d to %d after value #%d", lastOff, off, i))
		}
		lastOff = off
		if i < len(st.ends) && st.ends[i] <= cut {
			lo := int64(st.ends[i])
			hi := int64(cut)
			if i+1 < len(st.starts) && st.starts[i+1] < cut {
				hi = int64(st.starts[i+1])
			}
			if off < lo || off > hi {
				viol("offset-out-of-range", fmt.Sprintf("after value #%d InputOffset=%d, want within [%d,%d]", i, off, lo, hi))
			}
			// Buffered ++ unread == unconsumed input
			buf, _ := io.ReadAll(dec.Buffered())
			rest := append(buf, D[rd.delivered:]...)
			if len(rest) > cut || !bytes.Equal(rest, D[cut-len(rest):]) {
				viol("buffered-mismatch", fmt.Sprintf("after value #%d Buffered()+unread is not a suffix of the input", i))
			} else if p := int64(cut - len(rest)); p < lo || p > hi {
				viol("buffered-position", fmt.Sprintf("after value #%d Buffered()+unread starts at offset %d, want within [%d,%d]", i, p, lo, hi))
			}
		}
		if i > len(D)+2 {
			viol("no-termination", "more values than bytes")
			return got, false
		}
	}
	// terminal condition
	if term == io.EOF {
		if len(got) != len(want) {
			viol("missing-values", fmt.Sprintf("%d values then %v; std yields %d values then %v", len(got), termErr, len(want), wantErr))
			return got, false
		}
		if wantErr == io.EOF {
			if termErr != io.EOF {
				viol("terminal-not-EOF", fmt.Sprintf("clean end of input but Decode returned %v", termErr))
			}
		} else if termErr == io.EOF || termErr == nil {
			viol("terminal-EOF-inside-value", fmt.Sprintf("stream ends inside a value (std: %v) but Decode returned %v", wantErr, termErr))
		}
	} else {
		// the reader failed with E: a prefix of the values, then E (or a syntax error already present in D)
		if len(got) > len(want) {
			viol("extra-value", "more values than std")
		}
		_, stdSyntax := wantErr.(*stdjson.SyntaxError)
		if stdSyntax && wantErr != io.ErrUnexpectedEOF && !strings.Contains(wantErr.Error(), "unexpected end") {
			if termErr == nil || termErr == io.EOF {
				viol("terminal-EOF-on-error", fmt.Sprintf("reader failed / syntax error, Decode returned %v", termErr))
			}
		} else if termErr != term {
			viol("reader-error-not-surfaced", fmt.Sprintf("reader failed with %v after %d bytes, Decode returned %v after %d of %d values", term, cut, termErr, len(got), len(want)))
		}
	}
	// sticky: further Decode calls must not yield a value, and a stream that ended badly does not
	// turn into one that ended cleanly (nor the other way round)
	for k := 0; k < 2; k++ {
		var extra json.RawMessage
		err := dec.Decode(&extra)
		if err == nil {
			viol("value-after-terminal", fmt.Sprintf("Decode returned %q after the terminal result %v", trunc(extra), termErr))
			break
		}
		if termErr != nil && (err == io.EOF) != (termErr == io.EOF) {
			viol("terminal-result-not-sticky", fmt.Sprintf("Decode returned %v, and on the next call %v", termErr, err))
			break
		}
	}
	return got, ok
}

func trunc(b []byte) string {
	if len(b) > 80 {
		return string(b[:40]) + "…" + string(b[len(b)-30:])
	}
	return string(b)
}

func runStreams(c *core.Case) {
	r := c.Rng
	profile := c.Index % 16
	switch {
	case profile < 6:
		profile = 0
	case profile < 10:
		profile = 1
	case profile < 13:
		profile = 2
	case profile < 15 || c.Index%64 != 15:
		profile = 3
	default:
		profile = 4
	}
	class := []string{"small-values", "scalar-records", "big-value", "straddle", "1MiB"}[profile]
	c.Journal(class)
	c.Budget(120e9)
	st := genStream(r, profile)
	nsched := 6
	if c.Tier == core.Thorough {
		nsched = 12
	}
	// terminal scenarios: clean EOF, cut inside / between values with EOF, reader error
	type scen struct {
		cut      int
		term     error
		withData bool
	}
	scens := []scen{{len(st.data), io.EOF, false}, {len(st.data), io.EOF, true}}
	for k := 0; k < 3; k++ {
		cut := r.Intn(len(st.data) + 1)
		if r.Bool() && len(st.ends) > 0 {
			i := r.Intn(len(st.ends))
			cut = core.Pick(r, []int{st.ends[i], st.starts[i], st.ends[i] - 1, st.starts[i] + 1})
			if cut < 0 {
				cut = 0
			}
		}
		scens = append(scens, scen{cut, io.EOF, r.Bool()}, scen{cut, errReader, r.Bool()})
	}
	n := 0
	for si, sc := range scens {
		want, wantErr := stdDecodeAll(st.data[:sc.cut])
		for k := 0; k < nsched; k++ {
			sched := schedules[(si*5+k*7+c.Index)%len(schedules)]
			if k < 2 {
				sched = schedules[[]int{7, 0}[k]] // single read, and one byte at a time
				if len(st.data) > 300000 && k == 1 {
					sched = schedules[3]
				}
			}
			useAny := (k+si)%5 == 4
			runSchedule(c, class, st, sc.cut, sc.term, sc.withData, sched, want, wantErr, useAny)
			n++
		}
	}
	c.Count("decoder.runs", n)
	c.Count("streams", 1)
	c.Count("stream.bytes", len(st.data))
	if len(st.data) > 32768 {
		c.Count("streams.over-32KiB", 1)
	}
	c.Distinct(core.HashBytes(st.data), len(st.starts) > 0)
	c.Sample(len(st.data)/4096, map[string]any{"sub": "streams", "stream": st.desc, "bytes": len(st.data), "values": len(st.starts), "scenarios": len(scens), "schedules_per_scenario": nsched, "head": trunc(st.data)})
}

// short streams: terminal error / end of input at EVERY offset, all schedules
func runShort(c *core.Case) {
	c.Journal("short-every-offset")
	r := c.Rng
	st := &stream{}
	var sb bytes.Buffer
	n := r.Range(1, 5)
	for i := 0; i < n; i++ {
		v := genValue(r, r.Intn(4))
		if len(v) > 60 {
			v = "[1,2]"
		}
		sep := core.Pick(r, []string{" ", "\n", "  "})
		if i == 0 && r.Bool() {
			sep = ""
		}
		sb.WriteString(sep)
		st.starts = append(st.starts, sb.Len())
		sb.WriteString(v)
		st.ends = append(st.ends, sb.Len())
	}
	if r.Bool() {
		sb.WriteString(" \n")
	}
	st.data = sb.Bytes()
	st.desc = fmt.Sprintf("short stream %q", trunc(st.data))
	runs := 0
	for cut := 0; cut <= len(st.data); cut++ {
		want, wantErr := stdDecodeAll(st.data[:cut])
		for _, term := range []error{io.EOF, errReader} {
			for _, wd := range []bool{false, true} {
				for _, si := range []int{0, 1, 7, 10} {
					runSchedule(c, "short-every-offset", st, cut, term, wd, schedules[si], want, wantErr, false)
					runs++
				}
			}
		}
	}
	c.Count("decoder.runs", runs)
	c.Count("streams", 1)
	c.Distinct(core.HashBytes(st.data)^1, true)
	c.Sample(0, map[string]any{"sub": "short", "stream": string(st.data), "cuts": len(st.data) + 1, "runs": runs})
}

// Parse remainder contract
func runParseRest(c *core.Case) {
	c.Journal("parse-remainder")
	r := c.Rng
	for k := 0; k < 8; k++ {
		v1 := genValue(r, r.Intn(4))
		if r.Chance(1, 4) { // numbers no integer target can hold, in every spelling
			v1 = core.Pick(r, []string{"99999999999999999999", "99999999999999999999.5", "-99999999999999999999e2", "18446744073709551616", "-9223372036854775809", "123456789012345678901234567890E-3", "9223372036854775808.0e+1", "300", "-129", "1.5", "1e3", "-0.0e-0"})
		}
		ws1 := core.Pick(r, []string{"", " ", "\n\t ", "  "})
		lead := core.Pick(r, []string{"", " ", "\n"})
		tail := core.Pick(r, []string{"", genValue(r, r.Intn(4)), "x", "]", ",1", genValue(r, 0) + " " + genValue(r, 2)})
		if tail != "" && ws1 == "" && !strings.ContainsRune(`}]"`, rune(v1[len(v1)-1])) && !strings.ContainsRune(`{["x],`, rune(tail[0])) {
			ws1 = " "
		}
		in := []byte(lead + v1 + ws1 + tail)
		var raw json.RawMessage
		rest, err := json.Parse(append([]byte(nil), in...), &raw, 0)
		if err != nil {
			// the first value is valid by construction
			if stdjson.Valid([]byte(v1)) {
				c.Violation("parse-remainder", "error-on-valid-first-value", fmt.Sprintf("Parse(%q): %v", in, err), map[string]any{"input": string(in)})
			}
			continue
		}
		if string(rest) != tail {
			c.Violation("parse-remainder", "remainder-diff", fmt.Sprintf("Parse(%q) remainder %q, want %q", in, rest, tail), map[string]any{"input": string(in)})
		}
		if !bytes.Equal(raw, []byte(v1)) {
			c.Violation("parse-remainder", "value-diff", fmt.Sprintf("Parse(%q) value %q, want %q", in, raw, v1), map[string]any{"input": string(in)})
		}
		// typed target, incl. a target whose decoding fails after a syntactically valid first value
		var iv int
		rest2, err2 := json.Parse(append([]byte(nil), in...), &iv, 0)
		var sv int
		if e := stdjson.Unmarshal([]byte(v1), &sv); e != nil {
			if _, isSyntax := err2.(*json.SyntaxError); err2 == nil || isSyntax {
				c.Violation("parse-remainder", "typed-error-diff", fmt.Sprintf("Parse(%q, *int) err=%v, std rejects %q with %v", in, err2, v1, e), map[string]any{"input": string(in)})
			} else if string(rest2) != tail {
				c.Violation("parse-remainder", "remainder-diff-after-type-error", fmt.Sprintf("Parse(%q, *int) failed with %v; remainder %q, want %q", in, err2, rest2, tail), map[string]any{"input": string(in)})
			}
		} else if err2 == nil && string(rest2) != tail {
			c.Violation("parse-remainder", "remainder-diff", fmt.Sprintf("Parse(%q, *int) remainder %q, want %q", in, rest2, tail), map[string]any{"input": string(in)})
		}
		// a destination nothing can be decoded into: the error says so, the remainder is the same
		for _, tgt := range []any{nil, 7, (*int)(nil)} {
			rest4, err4 := json.Parse(append([]byte(nil), in...), tgt, 0)
			var iue *json.InvalidUnmarshalError
			if !errors.As(err4, &iue) {
				c.Violation("parse-remainder", "invalid-target-error", fmt.Sprintf("Parse(%q, %T) returned %v, want an InvalidUnmarshalError", in, tgt, err4), map[string]any{"input": string(in)})
				break
			}
			if string(rest4) != tail {
				c.Violation("parse-remainder", "remainder-diff-invalid-target", fmt.Sprintf("Parse(%q, %T) remainder %q, want %q", in, tgt, rest4, tail), map[string]any{"input": string(in)})
				break
			}
		}
		// other integer targets: the remainder does not depend on why the number does not fit
		for _, tgt := range []any{new(uint64), new(int8), new(uint16), new(int64)} {
			rest3, err3 := json.Parse(append([]byte(nil), in...), tgt, 0)
			if _, isSyntax := err3.(*json.SyntaxError); isSyntax {
				continue // not a number at all: covered above
			}
			if string(rest3) != tail {
				c.Violation("parse-remainder", "remainder-diff-typed", fmt.Sprintf("Parse(%q, %T) (err %v) remainder %q, want %q", in, tgt, err3, rest3, tail), map[string]any{"input": string(in)})
				break
			}
		}
		c.Distinct(core.HashBytes(in), true)
	}
	c.Count("parse.calls", 48)
}

func init() {
	core.Register(&core.Monitor{
		Prop:    "C11",
		Rule:    "streams: a generated stream of JSON values (profiles: 1-200 small values; fixed-width top-level scalar records crossing every refill boundary up to 140 KiB; one string/number/array of about 4095..65537 bytes; values straddling those offsets; a 1 MiB string) x terminal scenarios (clean io.EOF, data returned together with io.EOF, end of input / injected reader error at value boundaries +-1 and random offsets) x chunk schedules (whole input, 1, 2, 7, 4095, 4096, 4097, 32768, random small/mixed/large, zero-length reads interleaved). For each run the values (RawMessage bytes, or `any` with UseNumber) must equal those of encoding/json's Decoder over a single bytes.Reader of the delivered bytes; the terminal result must be io.EOF exactly at a clean end, a non-EOF error inside a value, and the reader's own error when it failed; InputOffset must be monotone and lie in [end of value, start of next]; Buffered() followed by the unread part of the reader must be the unconsumed input starting in that same interval; no value after the terminal result, and two further Decode calls keep reporting the same kind of end (io.EOF stays io.EOF, an error stays an error). short: streams of <= 5 small values with the end of input / reader error at EVERY offset. every fifth Decode of the RawMessage runs uses an invalid target (nil, non-pointer, nil pointer): an InvalidUnmarshalError and the value consumed, the terminal result at the end. parse-remainder: Parse must return exactly the bytes after the first value and its trailing whitespace (also when decoding the value fails with a type error). Distinct by stream hash.",
		Trusted: []string{"encoding/json.Decoder over bytes.Reader (go1.23.5) as the single-read reference", "the generator's own record of where each value starts and ends"},
		Subs: []core.Sub{
			{Name: "streams", N: core.Const(800, 8000), Run: runStreams},
			{Name: "short", N: core.Const(800, 12000), Run: runShort},
			{Name: "parse-remainder", N: core.Const(3000, 100000), Run: runParseRest},
		},
	})
}
