// Package tspec is a reference model of the Apache Thrift binary and compact protocol
// specifications (doc/specs/thrift-binary-protocol.md, thrift-compact-protocol.md), written from
// the clauses of the specifications and independent of the package under test: a logical value
// tree (Node), an encoder for each protocol with switches for the alternative conformant
// spellings (long forms where a short form exists, field order, BOOL element type 1), and a
// strict parser for each protocol that rejects anything the specification does not allow.
package tspec

import (
	"encoding/binary"
	"errors"
	"fmt"
	"math"
	"sort"
	"strings"
)

// Kind is a logical thrift type.
type Kind int

const (
	BOOL Kind = iota + 1
	I8
	I16
	I32
	I64
	DOUBLE
	BINARY
	LIST
	SET
	MAP
	STRUCT
)

func (k Kind) String() string {
	return [...]string{"?", "BOOL", "I8", "I16", "I32", "I64", "DOUBLE", "BINARY", "LIST", "SET", "MAP", "STRUCT"}[k]
}

// binary protocol type codes (thrift-binary-protocol.md, "Struct encoding")
var binCode = map[Kind]byte{BOOL: 2, I8: 3, DOUBLE: 4, I16: 6, I32: 8, I64: 10, BINARY: 11, STRUCT: 12, MAP: 13, SET: 14, LIST: 15}

// compact protocol type codes (thrift-compact-protocol.md, "Struct encoding"; BOOL is 1/2 in
// field headers, 2 (1 accepted) as element type)
var cmpCode = map[Kind]byte{BOOL: 2, I8: 3, I16: 4, I32: 5, I64: 6, DOUBLE: 7, BINARY: 8, LIST: 9, SET: 10, MAP: 11, STRUCT: 12}

var binKind, cmpKind = map[byte]Kind{}, map[byte]Kind{}

func init() {
	for k, c := range binCode {
		binKind[c] = k
	}
	for k, c := range cmpCode {
		cmpKind[c] = k
	}
}

// Node is a logical value.
type Node struct {
	K      Kind
	B      bool
	I      int64
	F      float64
	S      []byte
	Elem   Kind // LIST, SET
	Key    Kind // MAP
	Val    Kind // MAP
	Items  []Node
	Pairs  [][2]Node
	Fields []Field
}

type Field struct {
	ID int16
	V  Node
}

func Bool(b bool) Node         { return Node{K: BOOL, B: b} }
func Int(k Kind, v int64) Node { return Node{K: k, I: v} }
func Double(f float64) Node    { return Node{K: DOUBLE, F: f} }
func Binary(b []byte) Node     { return Node{K: BINARY, S: b} }

// Opts selects among the conformant spellings.
type Opts struct {
	LongFieldHeaders bool // compact: never use the delta short form
	LongListHeaders  bool // compact: always 0xF? + varint size
	BoolElemType1    bool // compact: element type 1 instead of 2 for bool collections
	KeepFieldOrder   bool // do not sort struct fields by id (any order is conformant)
}

// ---- binary protocol -------------------------------------------------------------------------

func EncodeBinary(n Node, o Opts) []byte { return appendBinary(nil, n, o) }

func be(b []byte, v uint64, size int) []byte {
	for i := size - 1; i >= 0; i-- {
		b = append(b, byte(v>>(8*uint(i))))
	}
	return b
}

func fields(n Node, o Opts) []Field {
	fs := append([]Field(nil), n.Fields...)
	if !o.KeepFieldOrder {
		sort.SliceStable(fs, func(i, j int) bool { return fs[i].ID < fs[j].ID })
	}
	return fs
}

func appendBinary(b []byte, n Node, o Opts) []byte {
	switch n.K {
	case BOOL:
		if n.B {
			return append(b, 1)
		}
		return append(b, 0)
	case I8:
		return append(b, byte(n.I))
	case I16:
		return be(b, uint64(n.I), 2)
	case I32:
		return be(b, uint64(n.I), 4)
	case I64:
		return be(b, uint64(n.I), 8)
	case DOUBLE:
		return be(b, math.Float64bits(n.F), 8)
	case BINARY:
		b = be(b, uint64(len(n.S)), 4)
		return append(b, n.S...)
	case LIST, SET:
		b = append(b, binCode[n.Elem])
		b = be(b, uint64(len(n.Items)), 4)
		for _, it := range n.Items {
			b = appendBinary(b, it, o)
		}
		return b
	case MAP:
		b = append(b, binCode[n.Key], binCode[n.Val])
		b = be(b, uint64(len(n.Pairs)), 4)
		for _, p := range n.Pairs {
			b = appendBinary(b, p[0], o)
			b = appendBinary(b, p[1], o)
		}
		return b
	case STRUCT:
		for _, f := range fields(n, o) {
			b = append(b, binCode[f.V.K])
			b = be(b, uint64(f.ID), 2)
			b = appendBinary(b, f.V, o)
		}
		return append(b, 0)
	}
	panic("tspec: bad node")
}

// BinaryMessage encodes a message header (strict: version 1 in the high word).
func BinaryMessage(strict bool, typ int, name string, seq int32) []byte {
	var b []byte
	if strict {
		b = be(b, uint64(0x80010000|uint32(typ&7)), 4)
		b = be(b, uint64(len(name)), 4)
		b = append(b, name...)
	} else {
		b = be(b, uint64(len(name)), 4)
		b = append(b, name...)
		b = append(b, byte(typ))
	}
	return be(b, uint64(uint32(seq)), 4)
}

var ErrTruncated = errors.New("tspec: truncated")

type rd struct {
	b   []byte
	pos int
}

func (r *rd) take(n int) ([]byte, error) {
	if n < 0 || len(r.b)-r.pos < n {
		return nil, ErrTruncated
	}
	s := r.b[r.pos : r.pos+n]
	r.pos += n
	return s, nil
}

func (r *rd) byte() (byte, error) {
	s, err := r.take(1)
	if err != nil {
		return 0, err
	}
	return s[0], nil
}

func (r *rd) beInt(size int) (int64, error) {
	s, err := r.take(size)
	if err != nil {
		return 0, err
	}
	var u uint64
	for _, c := range s {
		u = u<<8 | uint64(c)
	}
	shift := uint(64 - 8*size)
	return int64(u<<shift) >> shift, nil
}

// ParseBinary parses a value of kind k; elem/key/val are filled from the wire.
func ParseBinary(b []byte, k Kind) (Node, int, error) {
	r := &rd{b: b}
	n, err := r.binary(k, 0)
	return n, r.pos, err
}

func (r *rd) binary(k Kind, depth int) (Node, error) {
	if depth > 64 {
		return Node{}, fmt.Errorf("tspec: too deep")
	}
	n := Node{K: k}
	var err error
	switch k {
	case BOOL:
		var c byte
		if c, err = r.byte(); err == nil && c > 1 {
			err = fmt.Errorf("tspec: binary bool byte %#x", c)
		}
		n.B = c == 1
	case I8:
		n.I, err = r.beInt(1)
	case I16:
		n.I, err = r.beInt(2)
	case I32:
		n.I, err = r.beInt(4)
	case I64:
		n.I, err = r.beInt(8)
	case DOUBLE:
		var v int64
		v, err = r.beInt(8)
		n.F = math.Float64frombits(uint64(v))
	case BINARY:
		var l int64
		if l, err = r.beInt(4); err != nil {
			return n, err
		}
		if l < 0 {
			return n, fmt.Errorf("tspec: negative length")
		}
		var s []byte
		s, err = r.take(int(l))
		n.S = append([]byte{}, s...)
	case LIST, SET:
		var c byte
		if c, err = r.byte(); err != nil {
			return n, err
		}
		var ok bool
		if n.Elem, ok = binKind[c]; !ok {
			return n, fmt.Errorf("tspec: binary element type code %d", c)
		}
		var l int64
		if l, err = r.beInt(4); err != nil {
			return n, err
		}
		if l < 0 || int(l) > len(r.b)-r.pos {
			return n, fmt.Errorf("tspec: list size %d", l)
		}
		n.Items = make([]Node, 0, l)
		for i := 0; i < int(l); i++ {
			it, e := r.binary(n.Elem, depth+1)
			if e != nil {
				return n, e
			}
			n.Items = append(n.Items, it)
		}
	case MAP:
		var kc, vc byte
		if kc, err = r.byte(); err != nil {
			return n, err
		}
		if vc, err = r.byte(); err != nil {
			return n, err
		}
		var ok1, ok2 bool
		n.Key, ok1 = binKind[kc]
		n.Val, ok2 = binKind[vc]
		if !ok1 || !ok2 {
			return n, fmt.Errorf("tspec: binary map type codes %d,%d", kc, vc)
		}
		var l int64
		if l, err = r.beInt(4); err != nil {
			return n, err
		}
		if l < 0 || int(l) > len(r.b)-r.pos {
			return n, fmt.Errorf("tspec: map size %d", l)
		}
		for i := 0; i < int(l); i++ {
			kn, e := r.binary(n.Key, depth+1)
			if e != nil {
				return n, e
			}
			vn, e := r.binary(n.Val, depth+1)
			if e != nil {
				return n, e
			}
			n.Pairs = append(n.Pairs, [2]Node{kn, vn})
		}
	case STRUCT:
		for {
			c, e := r.byte()
			if e != nil {
				return n, e
			}
			if c == 0 {
				return n, nil
			}
			fk, ok := binKind[c]
			if !ok {
				return n, fmt.Errorf("tspec: binary field type code %d", c)
			}
			id, e := r.beInt(2)
			if e != nil {
				return n, e
			}
			v, e := r.binary(fk, depth+1)
			if e != nil {
				return n, e
			}
			n.Fields = append(n.Fields, Field{ID: int16(id), V: v})
		}
	default:
		err = fmt.Errorf("tspec: bad kind")
	}
	return n, err
}

// ---- compact protocol ------------------------------------------------------------------------

func EncodeCompact(n Node, o Opts) []byte { return appendCompact(nil, n, o) }

func uvarint(b []byte, v uint64) []byte {
	for v >= 0x80 {
		b = append(b, byte(v)|0x80)
		v >>= 7
	}
	return append(b, byte(v))
}

func zigzag(b []byte, v int64) []byte { return uvarint(b, uint64(v<<1)^uint64(v>>63)) }

func elemCode(k Kind, o Opts) byte {
	if k == BOOL && o.BoolElemType1 {
		return 1
	}
	return cmpCode[k]
}

func appendCompact(b []byte, n Node, o Opts) []byte {
	switch n.K {
	case BOOL: // outside a field header (collection element): 1 = true, 2 = false
		if n.B {
			return append(b, 1)
		}
		return append(b, 2)
	case I8:
		return append(b, byte(n.I))
	case I16, I32, I64:
		return zigzag(b, n.I)
	case DOUBLE:
		return binary.LittleEndian.AppendUint64(b, math.Float64bits(n.F))
	case BINARY:
		b = uvarint(b, uint64(len(n.S)))
		return append(b, n.S...)
	case LIST, SET:
		if len(n.Items) < 15 && !o.LongListHeaders {
			b = append(b, byte(len(n.Items))<<4|elemCode(n.Elem, o))
		} else {
			b = append(b, 0xF0|elemCode(n.Elem, o))
			b = uvarint(b, uint64(len(n.Items)))
		}
		for _, it := range n.Items {
			b = appendCompact(b, it, o)
		}
		return b
	case MAP:
		if len(n.Pairs) == 0 {
			return append(b, 0)
		}
		b = uvarint(b, uint64(len(n.Pairs)))
		b = append(b, elemCode(n.Key, o)<<4|elemCode(n.Val, o))
		for _, p := range n.Pairs {
			b = appendCompact(b, p[0], o)
			b = appendCompact(b, p[1], o)
		}
		return b
	case STRUCT:
		last := int16(0)
		for _, f := range fields(n, o) {
			code := cmpCode[f.V.K]
			if f.V.K == BOOL {
				code = 2
				if f.V.B {
					code = 1
				}
			}
			if d := int(f.ID) - int(last); d > 0 && d <= 15 && !o.LongFieldHeaders {
				b = append(b, byte(d)<<4|code)
			} else {
				b = append(b, code)
				b = zigzag(b, int64(f.ID))
			}
			if f.V.K != BOOL {
				b = appendCompact(b, f.V, o)
			}
			last = f.ID
		}
		return append(b, 0)
	}
	panic("tspec: bad node")
}

// CompactMessage encodes a message header: protocol id 0x82, version 1 in the low five bits and
// the type in the high three, the sequence id as a 32-bit varint, the name.
func CompactMessage(typ int, name string, seq int32) []byte {
	b := []byte{0x82, byte(typ&7)<<5 | 1}
	b = uvarint(b, uint64(uint32(seq)))
	b = uvarint(b, uint64(len(name)))
	return append(b, name...)
}

func (r *rd) uvarint(maxBytes int) (uint64, error) {
	var v uint64
	for i := 0; ; i++ {
		c, err := r.byte()
		if err != nil {
			return 0, err
		}
		if i >= maxBytes {
			return 0, fmt.Errorf("tspec: varint too long")
		}
		v |= uint64(c&0x7f) << (7 * uint(i))
		if c < 0x80 {
			return v, nil
		}
	}
}

func (r *rd) zigzag(bits int) (int64, error) {
	u, err := r.uvarint(10)
	if err != nil {
		return 0, err
	}
	v := int64(u>>1) ^ -int64(u&1)
	if bits < 64 && (v < -(1<<(uint(bits)-1)) || v >= 1<<(uint(bits)-1)) {
		return 0, fmt.Errorf("tspec: i%d out of range: %d", bits, v)
	}
	return v, nil
}

func ParseCompact(b []byte, k Kind) (Node, int, error) {
	r := &rd{b: b}
	n, err := r.compact(k, 0)
	return n, r.pos, err
}

func (r *rd) elemKind(c byte) (Kind, error) {
	if c == 1 {
		return BOOL, nil
	}
	if k, ok := cmpKind[c]; ok {
		return k, nil
	}
	return 0, fmt.Errorf("tspec: compact element type code %d", c)
}

func (r *rd) compact(k Kind, depth int) (Node, error) {
	if depth > 64 {
		return Node{}, fmt.Errorf("tspec: too deep")
	}
	n := Node{K: k}
	var err error
	switch k {
	case BOOL:
		var c byte
		if c, err = r.byte(); err == nil && c != 1 && c != 2 {
			err = fmt.Errorf("tspec: compact bool element byte %#x", c)
		}
		n.B = c == 1
	case I8:
		n.I, err = r.beInt(1)
	case I16:
		n.I, err = r.zigzag(16)
	case I32:
		n.I, err = r.zigzag(32)
	case I64:
		n.I, err = r.zigzag(64)
	case DOUBLE:
		var s []byte
		if s, err = r.take(8); err == nil {
			n.F = math.Float64frombits(binary.LittleEndian.Uint64(s))
		}
	case BINARY:
		var l uint64
		if l, err = r.uvarint(5); err != nil {
			return n, err
		}
		if l > math.MaxInt32 {
			return n, fmt.Errorf("tspec: length")
		}
		var s []byte
		s, err = r.take(int(l))
		n.S = append([]byte{}, s...)
	case LIST, SET:
		var c byte
		if c, err = r.byte(); err != nil {
			return n, err
		}
		size := uint64(c >> 4)
		if size == 15 {
			if size, err = r.uvarint(5); err != nil {
				return n, err
			}
		}
		if n.Elem, err = r.elemKind(c & 0xF); err != nil {
			return n, err
		}
		if size > uint64(len(r.b)-r.pos) {
			return n, fmt.Errorf("tspec: list size %d", size)
		}
		for i := 0; i < int(size); i++ {
			it, e := r.compact(n.Elem, depth+1)
			if e != nil {
				return n, e
			}
			n.Items = append(n.Items, it)
		}
	case MAP:
		var size uint64
		if size, err = r.uvarint(5); err != nil {
			return n, err
		}
		if size == 0 {
			return n, nil
		}
		var c byte
		if c, err = r.byte(); err != nil {
			return n, err
		}
		if n.Key, err = r.elemKind(c >> 4); err != nil {
			return n, err
		}
		if n.Val, err = r.elemKind(c & 0xF); err != nil {
			return n, err
		}
		if size > uint64(len(r.b)-r.pos) {
			return n, fmt.Errorf("tspec: map size %d", size)
		}
		for i := 0; i < int(size); i++ {
			kn, e := r.compact(n.Key, depth+1)
			if e != nil {
				return n, e
			}
			vn, e := r.compact(n.Val, depth+1)
			if e != nil {
				return n, e
			}
			n.Pairs = append(n.Pairs, [2]Node{kn, vn})
		}
	case STRUCT:
		last := int64(0)
		for {
			c, e := r.byte()
			if e != nil {
				return n, e
			}
			if c == 0 {
				return n, nil
			}
			id := last + int64(c>>4)
			if c>>4 == 0 {
				if id, e = r.zigzag(16); e != nil {
					return n, e
				}
			}
			if id < math.MinInt16 || id > math.MaxInt16 {
				return n, fmt.Errorf("tspec: field id %d", id)
			}
			var v Node
			switch t := c & 0xF; t {
			case 1, 2:
				v = Bool(t == 1)
			default:
				fk, ok := cmpKind[t]
				if !ok {
					return n, fmt.Errorf("tspec: compact field type code %d", t)
				}
				if v, e = r.compact(fk, depth+1); e != nil {
					return n, e
				}
			}
			n.Fields = append(n.Fields, Field{ID: int16(id), V: v})
			last = id
		}
	default:
		err = fmt.Errorf("tspec: bad kind")
	}
	return n, err
}

// ---- annotation ------------------------------------------------------------------------------

// Labels returns, for every byte of Encode*(n, o), the construct that produced it
// ("field-header", "stop", "list-header", "map-header", "bool", "i8", "i16", "i32", "i64", "double",
// "binary-length", "binary-bytes"), used to classify a difference by the first differing byte.
func Labels(n Node, o Opts, compact bool) []string {
	var lab []string
	var walk func(n Node)
	enc := func(n Node) int {
		if compact {
			return len(EncodeCompact(n, o))
		}
		return len(EncodeBinary(n, o))
	}
	add := func(k int, l string) {
		for ; k > 0; k-- {
			lab = append(lab, l)
		}
	}
	walk = func(n Node) {
		switch n.K {
		case BOOL:
			add(1, "bool")
		case I8, I16, I32, I64:
			add(enc(n), strings.ToLower(n.K.String()))
		case DOUBLE:
			add(8, "double")
		case BINARY:
			add(enc(n)-len(n.S), "binary-length")
			add(len(n.S), "binary-bytes")
		case LIST, SET:
			h := enc(Node{K: n.K, Elem: n.Elem, Items: make([]Node, 0)})
			if compact {
				h = 1
				if len(n.Items) >= 15 || o.LongListHeaders {
					h = 1 + len(uvarint(nil, uint64(len(n.Items))))
				}
			}
			add(h, "list-header")
			for _, it := range n.Items {
				walk(it)
			}
		case MAP:
			h := 6
			if compact {
				h = 1
				if len(n.Pairs) > 0 {
					h = 1 + len(uvarint(nil, uint64(len(n.Pairs))))
				}
			}
			add(h, "map-header")
			for _, p := range n.Pairs {
				walk(p[0])
				walk(p[1])
			}
		case STRUCT:
			last := int16(0)
			for _, f := range fields(n, o) {
				h := 3
				if compact {
					h = 1
					if d := int(f.ID) - int(last); !(d > 0 && d <= 15) || o.LongFieldHeaders {
						h = 1 + len(zigzag(nil, int64(f.ID)))
					}
				}
				add(h, "field-header")
				if !(compact && f.V.K == BOOL) {
					walk(f.V)
				}
				last = f.ID
			}
			add(1, "stop")
		}
	}
	walk(n)
	return lab
}

// ---- comparison ------------------------------------------------------------------------------

// Canon renders a node with struct fields by id and set/map entries sorted, so that two nodes
// with the same logical content render identically.
func Canon(n Node) string {
	var sb strings.Builder
	canon(&sb, n)
	return sb.String()
}

func canon(sb *strings.Builder, n Node) {
	switch n.K {
	case BOOL:
		fmt.Fprintf(sb, "%v", n.B)
	case I8, I16, I32, I64:
		fmt.Fprintf(sb, "%s(%d)", strings.ToLower(n.K.String()), n.I)
	case DOUBLE:
		fmt.Fprintf(sb, "d(%016x)", math.Float64bits(n.F))
	case BINARY:
		fmt.Fprintf(sb, "b(%x)", n.S)
	case LIST:
		fmt.Fprintf(sb, "list<%s>[", n.Elem)
		for _, it := range n.Items {
			canon(sb, it)
			sb.WriteByte(',')
		}
		sb.WriteByte(']')
	case SET:
		items := make([]string, len(n.Items))
		for i, it := range n.Items {
			items[i] = Canon(it)
		}
		sort.Strings(items)
		fmt.Fprintf(sb, "set<%s>{%s}", n.Elem, strings.Join(items, ","))
	case MAP:
		items := make([]string, len(n.Pairs))
		for i, p := range n.Pairs {
			items[i] = Canon(p[0]) + ":" + Canon(p[1])
		}
		sort.Strings(items)
		if len(items) == 0 {
			sb.WriteString("map{}") // an empty map carries no types in the compact protocol
		} else {
			fmt.Fprintf(sb, "map<%s,%s>{%s}", n.Key, n.Val, strings.Join(items, ","))
		}
	case STRUCT:
		fs := fields(n, Opts{})
		sb.WriteString("struct{")
		for _, f := range fs {
			fmt.Fprintf(sb, "%d:", f.ID)
			canon(sb, f.V)
			sb.WriteByte(';')
		}
		sb.WriteByte('}')
	}
}

// HasUnordered reports whether the node holds a set or map with more than one entry (the
// bytes then depend on an iteration order the specification leaves open).
func HasUnordered(n Node) bool {
	switch n.K {
	case SET:
		if len(n.Items) > 1 {
			return true
		}
	case MAP:
		if len(n.Pairs) > 1 {
			return true
		}
	}
	for _, it := range n.Items {
		if HasUnordered(it) {
			return true
		}
	}
	for _, p := range n.Pairs {
		if HasUnordered(p[0]) || HasUnordered(p[1]) {
			return true
		}
	}
	for _, f := range n.Fields {
		if HasUnordered(f.V) {
			return true
		}
	}
	return false
}
