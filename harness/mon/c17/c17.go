// Package c17: json.Tokenizer enumerates exactly the tokens of the document.
package c17

import (
	"bytes"
	stdjson "encoding/json"
	"fmt"
	"io"
	"strconv"
	"strings"
	"unsafe"

	"github.com/segmentio/encoding/json"
	"verifharness/core"
	"verifharness/gen/jsondoc"
)

// tok is one token as observed on a Tokenizer.
type tok struct {
	Delim  byte
	Value  string
	Depth  int
	Index  int
	IsKey  bool
	Kind   json.Kind
	Remain int
}

func (t tok) String() string {
	return fmt.Sprintf("{%q d=%d i=%d key=%v kind=%d}", t.Value, t.Depth, t.Index, t.IsKey, t.Kind)
}

// collect runs a tokenizer to the end and records what it showed.
func collect(t *json.Tokenizer, max int) (toks []tok, err error, steps int) {
	for t.Next() {
		steps++
		toks = append(toks, tok{byte(t.Delim), string(t.Value), t.Depth, t.Index, t.IsKey, t.Kind(), t.Remaining()})
		if steps > max {
			return toks, fmt.Errorf("tokenizer did not terminate after %d tokens", steps), steps
		}
	}
	return toks, t.Err, steps
}

// refTok is what encoding/json's token stream implies for one scalar or opening delimiter.
type refTok struct {
	tk    stdjson.Token
	depth int
	index int
	isKey bool
	open  bool
	close bool
}

type frame struct {
	obj     bool
	n       int
	wantKey bool
}

func refTokens(doc []byte) ([]refTok, error) {
	dec := stdjson.NewDecoder(bytes.NewReader(doc))
	dec.UseNumber()
	var st []frame
	var out []refTok
	for {
		tk, err := dec.Token()
		if err == io.EOF {
			return out, nil
		}
		if err != nil {
			return out, err
		}
		rt := refTok{tk: tk, depth: len(st)}
		if d, ok := tk.(stdjson.Delim); ok && (d == '}' || d == ']') {
			rt.close = true
			st = st[:len(st)-1]
			rt.depth = len(st)
			if len(st) > 0 {
				p := &st[len(st)-1]
				if p.obj {
					p.wantKey = true
				}
				p.n++
			}
			out = append(out, rt)
			continue
		}
		if len(st) > 0 {
			p := &st[len(st)-1]
			rt.index = p.n
			if p.obj && p.wantKey {
				rt.isKey = true
			}
		}
		if d, ok := tk.(stdjson.Delim); ok {
			rt.open = true
			if len(st) > 0 {
				st[len(st)-1].wantKey = false
			}
			st = append(st, frame{obj: d == '{', wantKey: d == '{'})
			out = append(out, rt)
			continue
		}
		// scalar
		if len(st) > 0 {
			p := &st[len(st)-1]
			if p.obj && p.wantKey {
				p.wantKey = false // the value follows
			} else {
				p.n++
				if p.obj {
					p.wantKey = true
				}
			}
		}
		out = append(out, rt)
	}
}

func checkValidDoc(c *core.Case, class string, doc []byte) {
	in := append([]byte(nil), doc...)
	var toks []tok
	var terr error
	tz := json.NewTokenizer(in)
	if sig, stack := core.Guard(func() { toks, terr, _ = collectChecked(c, class, tz, in) }); sig != "" {
		c.Violation(class, sig, fmt.Sprintf("Tokenizer panicked on %q: %s", trunc(doc), stack), map[string]any{"doc": string(doc)})
		return
	}
	if !bytes.Equal(in, doc) {
		c.Violation(class, "input-modified", fmt.Sprintf("tokenizer changed its input %q", trunc(doc)), nil)
	}
	if terr != nil {
		c.Violation(class, "err-on-valid-doc", fmt.Sprintf("Err=%v on valid document %q", terr, trunc(doc)), map[string]any{"doc": string(doc)})
		return
	}
	// 1. concatenation == compact
	var cat bytes.Buffer
	for _, t := range toks {
		cat.WriteString(t.Value)
	}
	var cmp bytes.Buffer
	if err := stdjson.Compact(&cmp, doc); err != nil {
		return // not a valid document for the reference
	}
	if !bytes.Equal(cat.Bytes(), cmp.Bytes()) {
		c.Violation(class, "concat!=compact", fmt.Sprintf("doc %q: tokens %q, compact %q", trunc(doc), trunc(cat.Bytes()), trunc(cmp.Bytes())), map[string]any{"doc": string(doc)})
		return
	}
	// 2. positions and values against the reference token stream
	ref, err := refTokens(doc)
	if err != nil {
		return
	}
	k := 0
	for _, t := range toks {
		if t.Delim == ',' || t.Delim == ':' {
			continue
		}
		if k >= len(ref) {
			c.Violation(class, "extra-token", fmt.Sprintf("doc %q: token %v beyond the reference stream", trunc(doc), t), map[string]any{"doc": string(doc)})
			return
		}
		r := ref[k]
		k++
		if r.close {
			if t.Delim != byte(r.tk.(stdjson.Delim)) {
				c.Violation(class, "token-mismatch", fmt.Sprintf("doc %q: got %v want closing %v", trunc(doc), t, r.tk), map[string]any{"doc": string(doc)})
				return
			}
			continue
		}
		if t.Depth != r.depth || t.Index != r.index || t.IsKey != r.isKey {
			what := "depth"
			if t.Depth == r.depth {
				what = "index"
				if t.Index == r.index {
					what = "iskey"
				}
			}
			c.Violation(class, "position-"+what, fmt.Sprintf("doc %q: token %v, reference depth=%d index=%d isKey=%v", trunc(doc), t, r.depth, r.index, r.isKey), map[string]any{"doc": string(doc), "token": t.Value})
			return
		}
		if !valueAgrees(c, class, doc, t, r) {
			return
		}
	}
	if k != len(ref) {
		c.Violation(class, "missing-token", fmt.Sprintf("doc %q: %d reference tokens, tokenizer produced %d", trunc(doc), len(ref), k), map[string]any{"doc": string(doc)})
	}
}

// collectChecked is collect plus the per-token sub-slice / accessor checks that need the live tokenizer.
func collectChecked(c *core.Case, class string, t *json.Tokenizer, in []byte) (toks []tok, err error, steps int) {
	max := len(in) + 1
	for t.Next() {
		steps++
		tk := tok{byte(t.Delim), string(t.Value), t.Depth, t.Index, t.IsKey, t.Kind(), t.Remaining()}
		toks = append(toks, tk)
		if steps > max {
			c.Violation(class, "too-many-tokens", fmt.Sprintf("more than len+1=%d successful Next calls on %q", max, trunc(in)), map[string]any{"doc": string(in)})
			return toks, nil, steps
		}
		// Value must be the sub-slice of the input ending Remaining() bytes before its end
		end := len(in) - t.Remaining()
		start := end - len(t.Value)
		if start < 0 || len(t.Value) == 0 || unsafe.SliceData(t.Value) != unsafe.SliceData(in[start:end]) {
			c.Violation(class, "value-not-subslice", fmt.Sprintf("token %q of %q is not in[%d:%d]", t.Value, trunc(in), start, end), map[string]any{"doc": string(in)})
		}
		// punctuation and closing delimiters are not values: no kind (Kind is "the kind of the
		// value the tokenizer is positioned on"), in particular not the previous token's
		if d := t.Delim; (d == ',' || d == ':' || d == '}' || d == ']') && t.Kind() != json.Undefined {
			c.Violation(class, "kind-of-punctuation", fmt.Sprintf("token %q of %q reports Kind %v", t.Value, trunc(in), t.Kind()), map[string]any{"doc": string(in)})
		}
		// accessors that need the live tokenizer
		rv := t.Value
		switch {
		case t.Delim != 0:
		case rv.String():
			want, ok := stdUnquote(rv)
			if ok {
				if got := t.String(); string(got) != want {
					c.Violation(class, "String()-diff", fmt.Sprintf("token %q: String()=%q want %q", rv, got, want), map[string]any{"token": string(rv)})
				}
				var uq, auq []byte
				if sig, _ := core.Guard(func() { uq = rv.Unquote(); auq = rv.AppendUnquote([]byte("pre")) }); sig != "" {
					c.Violation(class, "Unquote-"+sig, fmt.Sprintf("Unquote panicked on the well-formed string token %q", rv), map[string]any{"token": string(rv)})
				} else if string(uq) != want {
					c.Violation(class, "Unquote()-diff", fmt.Sprintf("token %q: Unquote()=%q want %q", rv, uq, want), map[string]any{"token": string(rv)})
				} else if string(auq) != "pre"+want {
					c.Violation(class, "AppendUnquote()-diff", fmt.Sprintf("token %q: AppendUnquote(\"pre\")=%q want %q", rv, auq, "pre"+want), map[string]any{"token": string(rv)})
				}
			}
		case rv.Number():
			lit := string(rv)
			if f, e := strconv.ParseFloat(lit, 64); e == nil {
				if got := t.Float(); got != f {
					c.Violation(class, "Float()-diff", fmt.Sprintf("token %s: Float()=%v want %v", lit, got, f), map[string]any{"token": lit})
				}
			}
			switch t.Kind() {
			case json.Uint:
				if u, e := strconv.ParseUint(lit, 10, 64); e == nil {
					if got := t.Uint(); got != u {
						c.Violation(class, "Uint()-diff", fmt.Sprintf("token %s: Uint()=%v", lit, got), map[string]any{"token": lit})
					}
				}
				if i, e := strconv.ParseInt(lit, 10, 64); e == nil {
					if got := t.Int(); got != i {
						c.Violation(class, "Int()-diff", fmt.Sprintf("token %s: Int()=%v", lit, got), map[string]any{"token": lit})
					}
				}
			case json.Int:
				if i, e := strconv.ParseInt(lit, 10, 64); e == nil {
					if got := t.Int(); got != i {
						c.Violation(class, "Int()-diff", fmt.Sprintf("token %s: Int()=%v", lit, got), map[string]any{"token": lit})
					}
				}
			}
		}
	}
	return toks, t.Err, steps
}

func stdUnquote(v []byte) (string, bool) {
	var s string
	if err := stdjson.Unmarshal(v, &s); err != nil {
		return "", false
	}
	return s, true
}

func valueAgrees(c *core.Case, class string, doc []byte, t tok, r refTok) bool {
	bad := func(why string) bool {
		c.Violation(class, "kind-"+why, fmt.Sprintf("doc %q: token %v vs reference %#v", trunc(doc), t, r.tk), map[string]any{"doc": string(doc), "token": t.Value})
		return false
	}
	rv := json.RawValue(t.Value)
	preds := 0
	for _, p := range []bool{rv.String(), rv.Null(), rv.True(), rv.False(), rv.Number()} {
		if p {
			preds++
		}
	}
	switch v := r.tk.(type) {
	case stdjson.Delim:
		if t.Delim != byte(v) {
			return bad("delim")
		}
		if (v == '{' && t.Kind != json.Object) || (v == '[' && t.Kind != json.Array) {
			return bad("delim-kind")
		}
	case string:
		if t.Kind.Class() != json.String || !rv.String() || preds != 1 {
			return bad("string")
		}
	case stdjson.Number:
		if t.Kind.Class() != json.Num || !rv.Number() || preds != 1 || string(v) != t.Value {
			return bad("number")
		}
		isFloat := strings.ContainsAny(t.Value, ".eE")
		neg := strings.HasPrefix(t.Value, "-")
		switch {
		case isFloat && t.Kind != json.Float, !isFloat && neg && t.Kind != json.Int, !isFloat && !neg && t.Kind != json.Uint:
			return bad("number-kind")
		}
	case bool:
		if t.Kind.Class() != json.Bool || (v && (t.Kind != json.True || !rv.True())) || (!v && (t.Kind != json.False || !rv.False())) || preds != 1 {
			return bad("bool")
		}
	case nil:
		if t.Kind != json.Null || !rv.Null() || preds != 1 {
			return bad("null")
		}
	}
	return true
}

func trunc(b []byte) string {
	if len(b) > 200 {
		return string(b[:200]) + "…"
	}
	return string(b)
}

// shapes the random grammar rarely produces
func specialDoc(r *core.Rand, k int) string {
	switch k % 8 {
	case 0: // deep nesting
		n := r.Range(50, 200)
		return strings.Repeat(`[{"a":`, n) + `1` + strings.Repeat(`}]`, n)
	case 1: // long sibling list; now and then beyond 2^16 siblings, nested one level down
		n := r.Range(100, 1500)
		if r.Chance(1, 12) {
			n = r.Range(65530, 66100)
		}
		var sb strings.Builder
		if n > 60000 {
			sb.WriteString(`{"list":`)
		}
		sb.WriteString("[")
		for i := 0; i < n; i++ {
			if i > 0 {
				sb.WriteString(",")
			}
			sb.WriteString(strconv.Itoa(i))
		}
		sb.WriteString("]")
		if n > 60000 {
			sb.WriteString(`,"after":[true]}`)
		}
		return sb.String()
	case 2: // empty containers inside non-empty ones
		return `[[],{},[[]],{"a":{}},{"b":[]},[{}],[] , {} ]`
	case 3: // keys after nested objects
		return `{"a":{"b":{"c":1},"d":2},"e":[{"f":3},"g"],"h":"i","j":{"k":[]},"l":null}`
	case 4:
		n := r.Range(1, 400)
		var sb strings.Builder
		sb.WriteString("{")
		for i := 0; i < n; i++ {
			if i > 0 {
				sb.WriteString(",")
			}
			fmt.Fprintf(&sb, `"k%d":[%d,{"x":%d}]`, i, i, i)
		}
		sb.WriteString("}")
		return sb.String()
	case 5:
		return " \n\t" + jsondoc.Number(r) + "\r\n "
	case 6:
		return jsondoc.StringLit(r, r.String(100), true)
	default:
		return `{"a\"b":"é😀\\","A":[true,false,null,-0,1e5,"\/"]}`
	}
}

func runValidDocs(c *core.Case) {
	c.Journal("valid-doc")
	for i := 0; i < 8; i++ {
		var doc string
		if c.Rng.Chance(1, 6) {
			doc = specialDoc(c.Rng, c.Rng.Intn(8))
		} else {
			o := jsondoc.DefaultOpts
			o.MaxDepth = c.Rng.Range(1, 7)
			o.MaxElems = c.Rng.Range(1, 9)
			doc = jsondoc.Valid(c.Rng, o)
		}
		if !stdjson.Valid([]byte(doc)) {
			c.Count("generator.invalid", 1)
			continue
		}
		checkValidDoc(c, "valid-doc", []byte(doc))
		c.Distinct(core.HashString(doc), len(doc) > 2)
		if i == 0 {
			c.Sample(len(doc), map[string]any{"sub": "valid-docs", "doc": trunc([]byte(doc))})
		}
	}
	c.Count("docs.valid", 8)
}

// arbitrary bytes: termination, panics, stickiness ------------------------------------------

func checkArbitrary(c *core.Case, class string, doc []byte) {
	in := append([]byte(nil), doc...)
	tz := json.NewTokenizer(in)
	var steps int
	var terr error
	if sig, stack := core.Guard(func() {
		_, terr, steps = collect(tz, len(in)+1)
		if terr != nil && strings.HasPrefix(terr.Error(), "tokenizer did not terminate") {
			c.Violation(class, "too-many-tokens", fmt.Sprintf("more than len+1 successful Next calls on %q", trunc(doc)), map[string]any{"doc": string(doc)})
			return
		}
		// once Err is set Next keeps returning false
		if terr != nil {
			for k := 0; k < 3; k++ {
				if tz.Next() {
					c.Violation(class, "next-after-err", fmt.Sprintf("Next returned true after Err=%v on %q", terr, trunc(doc)), map[string]any{"doc": string(doc)})
					break
				}
				if tz.Err == nil {
					c.Violation(class, "err-cleared", fmt.Sprintf("Err was reset by Next on %q", trunc(doc)), map[string]any{"doc": string(doc)})
					break
				}
			}
		} else {
			for k := 0; k < 2; k++ {
				if tz.Next() {
					c.Violation(class, "next-after-end", fmt.Sprintf("Next returned true after the end of %q", trunc(doc)), map[string]any{"doc": string(doc)})
				}
			}
		}
	}); sig != "" {
		c.Violation(class, sig, fmt.Sprintf("Tokenizer panicked on %q after %d tokens: %s", trunc(doc), steps, stack), map[string]any{"doc": string(doc)})
	}
	if !bytes.Equal(in, doc) {
		c.Violation(class, "input-modified", fmt.Sprintf("tokenizer changed its input %q", trunc(doc)), nil)
	}
}

func runArbitrary(c *core.Case) {
	c.Journal("arbitrary")
	for i := 0; i < 16; i++ {
		var doc string
		switch c.Rng.Intn(4) {
		case 0:
			doc = string(c.Rng.Bytes(c.Rng.Intn(40)))
		case 1:
			n := c.Rng.Intn(12)
			var sb strings.Builder
			for k := 0; k < n; k++ {
				sb.WriteString(jsondoc.Tokens[c.Rng.Intn(len(jsondoc.Tokens))])
			}
			doc = sb.String()
		default:
			doc = jsondoc.Mutate(c.Rng, jsondoc.Valid(c.Rng, jsondoc.DefaultOpts))
		}
		checkArbitrary(c, "arbitrary", []byte(doc))
		if stdjson.Valid([]byte(doc)) {
			checkValidDoc(c, "valid-doc", []byte(doc))
		}
		c.Distinct(core.HashString(doc), len(doc) > 0)
		if i == 0 {
			c.Sample(0, map[string]any{"sub": "arbitrary", "doc": trunc([]byte(doc))})
		}
	}
	c.Count("docs.arbitrary", 16)
}

// exhaustive token sequences -----------------------------------------------------------------

func runTokSeq(c *core.Case) {
	c.Journal("token-sequences")
	T := jsondoc.Tokens
	n := len(T)
	a := c.Index / n
	b := c.Index % n
	cnt := 0
	for x := -1; x < n; x++ {
		for y := -1; y < n; y++ {
			if x == -1 && y != -1 {
				continue
			}
			doc := T[a] + T[b]
			if x >= 0 {
				doc += T[x]
			}
			if y >= 0 {
				doc += T[y]
			}
			checkArbitrary(c, "token-sequences", []byte(doc))
			if stdjson.Valid([]byte(doc)) {
				checkValidDoc(c, "valid-doc", []byte(doc))
				cnt++
			}
		}
	}
	c.Count("docs.tokenseq", (n+1)*n+1)
	c.Count("docs.tokenseq.valid", cnt)
	c.Distinct(uint64(c.Index)+1<<32, true)
}

// histories: Reset and pooled-stack reuse ------------------------------------------------------

func sameStream(a, b []tok) int {
	for i := 0; i < len(a) && i < len(b); i++ {
		if a[i] != b[i] {
			return i
		}
	}
	if len(a) != len(b) {
		if len(a) < len(b) {
			return len(a)
		}
		return len(b)
	}
	return -1
}

func anyDoc(r *core.Rand) []byte {
	switch r.Intn(5) {
	case 0:
		return []byte(jsondoc.Mutate(r, jsondoc.Valid(r, jsondoc.DefaultOpts)))
	case 1:
		return []byte(specialDoc(r, r.Intn(8)))
	case 2: // truncated: leaves containers open
		d := jsondoc.Valid(r, jsondoc.DefaultOpts)
		return []byte(d[:r.Intn(len(d)+1)])
	default:
		return []byte(jsondoc.Valid(r, jsondoc.DefaultOpts))
	}
}

func runHistory(c *core.Case) {
	c.Journal("reset-history")
	r := c.Rng
	docB := anyDoc(r)
	fresh, ferr, _ := collect(json.NewTokenizer(append([]byte(nil), docB...)), len(docB)+1)
	// history: 1-3 earlier documents consumed fully, partially, or up to an error, then Reset(docB)
	tz := json.NewTokenizer(nil)
	var hist []string
	nprev := 1 + r.Intn(3)
	for i := 0; i < nprev; i++ {
		docA := anyDoc(r)
		tz.Reset(append([]byte(nil), docA...))
		limit := len(docA) + 1
		mode := r.Intn(3)
		if mode == 1 {
			limit = r.Intn(12)
		}
		n := 0
		for n < limit && tz.Next() {
			n++
		}
		hist = append(hist, fmt.Sprintf("%q:%d tokens(mode %d)", trunc(docA), n, mode))
		// other tokenizers running to completion in between share the stack pool
		if r.Bool() {
			other := json.NewTokenizer(anyDoc(r))
			for k := 0; k < 50 && other.Next(); k++ {
			}
			if r.Bool() {
				other.Reset(nil)
			}
		}
	}
	tz.Reset(append([]byte(nil), docB...))
	got, gerr, _ := collect(tz, len(docB)+1)
	if i := sameStream(fresh, got); i >= 0 || (ferr == nil) != (gerr == nil) {
		c.Violation("reset-history", "reset!=fresh", fmt.Sprintf("after history %v, Reset(%q) differs from a new tokenizer at token %d: fresh err=%v reset err=%v; fresh=%v reset=%v",
			hist, trunc(docB), i, ferr, gerr, around(fresh, i), around(got, i)), map[string]any{"history": hist, "doc": string(docB)})
	}
	// interleaving: t1 paused mid-document while t2 runs; t1's stream must equal its solo stream
	docA := anyDoc(r)
	solo, soloErr, _ := collect(json.NewTokenizer(append([]byte(nil), docA...)), len(docA)+1)
	t1 := json.NewTokenizer(append([]byte(nil), docA...))
	var inter []tok
	pause := r.Intn(10)
	for k := 0; k < pause && t1.Next(); k++ {
		inter = append(inter, tok{byte(t1.Delim), string(t1.Value), t1.Depth, t1.Index, t1.IsKey, t1.Kind(), t1.Remaining()})
	}
	t2 := json.NewTokenizer(anyDoc(r))
	for k := 0; k < 200 && t2.Next(); k++ {
	}
	t2.Reset(nil)
	t3 := json.NewTokenizer(anyDoc(r))
	for k := 0; k < r.Intn(20) && t3.Next(); k++ {
	}
	rest, ierr, _ := collect(t1, len(docA)+1)
	inter = append(inter, rest...)
	if i := sameStream(solo, inter); i >= 0 || (soloErr == nil) != (ierr == nil) {
		c.Violation("interleaved", "interleaved!=solo", fmt.Sprintf("doc %q paused after %d tokens while other tokenizers ran: differs at token %d; solo=%v interleaved=%v", trunc(docA), pause, i, around(solo, i), around(inter, i)),
			map[string]any{"doc": string(docA), "pause": pause})
	}
	c.Count("histories", 1)
	c.Distinct(core.Mix(core.HashBytes(docB), core.HashBytes(docA)), true)
	c.Sample(nprev, map[string]any{"sub": "histories", "history": hist, "then_reset_to": trunc(docB)})
}

func around(ts []tok, i int) []tok {
	if i < 0 {
		return nil
	}
	lo, hi := i-1, i+2
	if lo < 0 {
		lo = 0
	}
	if hi > len(ts) {
		hi = len(ts)
	}
	return ts[lo:hi]
}

func init() {
	core.Register(&core.Monitor{
		Prop:    "C17",
		Rule:    "valid-docs: generated valid documents (random grammar with hostile spellings, plus deep nesting to 200, sibling lists to 1500 and now and then beyond 65536, empty containers in non-empty ones, keys after nested objects): concatenated Values == encoding/json.Compact; every non-comma/colon token is matched with encoding/json.Decoder.Token (UseNumber) and Depth/Index/IsKey compared with the values derived from that stream; Value must be the sub-slice of the input ending Remaining() bytes before its end (pointer identity); Kind (Undefined on commas, colons and closing delimiters), RawValue predicates, String/Unquote/AppendUnquote, Int/Uint/Float/Bool compared with std's decoded token. arbitrary + token-sequences (all sequences of 2-4 tokens over a 40-token alphabet): no panic, at most len+1 successful Next, Next stays false and Err stays set after an error; documents std accepts also go through the exact-stream check. histories: Reset after 1-3 earlier documents (consumed fully / partially / to an error, other tokenizers sharing the stack pool in between) must give the same stream as a new tokenizer; a tokenizer paused mid-document while others run must give its solo stream. Distinct by document hash; non-trivial = non-empty.",
		Trusted: []string{"encoding/json (go1.23.5): Decoder.Token, Compact, Unmarshal of string tokens, Valid", "strconv for number values", "the depth/index/key tracker in mon/c17.refTokens"},
		Subs: []core.Sub{
			{Name: "valid-docs", N: core.Const(30000, 400000), Run: runValidDocs},
			{Name: "arbitrary", N: core.Const(40000, 1000000), Run: runArbitrary},
			{Name: "token-sequences", N: func(t core.Tier) int {
				n := len(jsondoc.Tokens)
				if t == core.Thorough {
					return n * n
				}
				return n * n / 2
			}, Run: runTokSeq},
			{Name: "histories", N: core.Const(30000, 600000), Run: runHistory},
		},
	})
}
