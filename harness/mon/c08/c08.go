// Package c08: thrift decoding is total, bounded and skips unknown fields.
package c08

import (
	"bytes"
	"errors"
	"fmt"
	"io"
	"reflect"
	"runtime"
	"strings"

	"github.com/segmentio/encoding/thrift"
	"verifharness/core"
	"verifharness/gen/tspec"
	"verifharness/gen/ttypes"
)

type proto struct {
	name    string
	p       thrift.Protocol
	compact bool
}

var protocols = []proto{
	{"binary", &thrift.BinaryProtocol{}, false},
	{"compact", &thrift.CompactProtocol{}, true},
}

func (p proto) encode(n tspec.Node) []byte {
	if p.compact {
		return tspec.EncodeCompact(n, tspec.Opts{})
	}
	return tspec.EncodeBinary(n, tspec.Opts{})
}

func tr(b []byte) []byte {
	if len(b) > 64 {
		return b[:64]
	}
	return b
}

func show(v reflect.Value) string {
	s := fmt.Sprintf("%+v", v.Interface())
	if len(s) > 200 {
		s = s[:200] + "…"
	}
	return s
}

func genType(c *core.Case, cfg ttypes.Cfg) (t reflect.Type, ok bool) {
	sig, _ := core.Guard(func() {
		g := ttypes.New(c.Rng.Fork(1), cfg)
		t = g.Struct(0)
	})
	return t, sig == ""
}

// maxElem is the largest in-memory size of one element of any collection reachable from t: the
// constant of "memory within a constant factor of the bytes available" for this type.
func maxElem(t reflect.Type, seen map[reflect.Type]bool) int {
	if seen[t] {
		return 0
	}
	seen[t] = true
	m := int(t.Size())
	switch t.Kind() {
	case reflect.Pointer, reflect.Slice:
		if e := maxElem(t.Elem(), seen); e > m {
			m = e
		}
	case reflect.Map:
		if e := maxElem(t.Elem(), seen) + maxElem(t.Key(), seen) + 48; e > m {
			m = e
		}
	case reflect.Struct:
		// decoding a struct value takes a bitmap of one bit per id of its id range
		if fs, _ := ttypes.Fields(t); len(fs) > 0 {
			m += (int(fs[len(fs)-1].ID)-int(fs[0].ID))/8 + 16
		}
		for i := 0; i < t.NumField(); i++ {
			if e := maxElem(t.Field(i).Type, seen); e > m {
				m = e
			}
		}
	}
	return m
}

var warmed = map[reflect.Type]bool{}

// warm builds the decoder of t once, so that codec construction is not metered.
func warm(t reflect.Type) {
	if warmed[t] {
		return
	}
	warmed[t] = true
	for _, p := range protocols {
		core.Guard(func() { thrift.Unmarshal(p.p, []byte{0}, reflect.New(t).Interface()) })
	}
}

type outcome struct {
	err   error
	sig   string
	stack string
	alloc uint64
}

// decode runs Unmarshal under a panic guard and an allocation meter.
func decode(p proto, b []byte, t reflect.Type, strict bool) (reflect.Value, outcome) {
	warm(t)
	out := reflect.New(t)
	var o outcome
	var m0, m1 runtime.MemStats
	runtime.ReadMemStats(&m0)
	o.sig, o.stack = core.Guard(func() {
		if strict {
			br := bytes.NewReader(b)
			var d *thrift.Decoder
			if len(b)%2 == 0 {
				d = thrift.NewDecoder(p.p.NewReader(br))
				d.SetStrict(true)
			} else {
				// strictness is a property of the Decoder, not of the reader it started with
				d = thrift.NewDecoder(protocols[(len(b)/2)%len(protocols)].p.NewReader(bytes.NewReader(nil)))
				d.SetStrict(true)
				d.Reset(p.p.NewReader(br))
			}
			o.err = d.Decode(out.Interface())
		} else {
			o.err = thrift.Unmarshal(p.p, b, out.Interface())
		}
	})
	runtime.ReadMemStats(&m1)
	o.alloc = m1.TotalAlloc - m0.TotalAlloc
	return out.Elem(), o
}

func budget(t reflect.Type, n int) uint64 {
	return uint64(1<<20) + uint64(n)*uint64(maxElem(t, map[reflect.Type]bool{})+64)*4
}

// checkTotal applies the clauses that hold for every input.
func checkTotal(c *core.Case, cls string, p proto, b []byte, t reflect.Type, o outcome) bool {
	w := map[string]any{"type": ttypes.TypeString(t), "input_hex": fmt.Sprintf("%x", tr(b)), "len": len(b), "protocol": p.name}
	if o.sig != "" {
		c.Violation(cls+"|"+p.name, o.sig, fmt.Sprintf("Unmarshal(%s) of %x (%d bytes) into %s panicked: %s", p.name, tr(b), len(b), ttypes.TypeString(t), o.stack), w)
		return false
	}
	if lim := budget(t, len(b)); o.alloc > lim {
		c.Violation(cls+"|"+p.name, "allocation-out-of-proportion", fmt.Sprintf("Unmarshal(%s) of %d bytes (%x) allocated %d bytes (budget for this type %d): err=%v", p.name, len(b), tr(b), o.alloc, lim, o.err), w)
		return false
	}
	if len(b) == 0 && !errors.Is(o.err, io.EOF) && !errors.Is(o.err, io.ErrUnexpectedEOF) {
		c.Violation(cls+"|"+p.name, "empty-input-not-EOF", fmt.Sprintf("Unmarshal(%s) of the empty input gives %v, want an EOF error", p.name, o.err), w)
		return false
	}
	if len(b) > 0 && o.err == io.EOF {
		c.Violation(cls+"|"+p.name, "plain-EOF-for-nonempty-input", fmt.Sprintf("Unmarshal(%s) of the non-empty input %x reports plain io.EOF", p.name, tr(b)), w)
		return false
	}
	return true
}

// ---- prefixes: every truncation of a valid encoding --------------------------------------------

func runPrefixes(c *core.Case) {
	t, ok := genType(c, ttypes.Cfg{MaxDepth: 2, MaxFields: 6, Embedding: true})
	if !ok {
		return
	}
	if c.Index%3 == 0 && t.NumField() > 0 { // a bare list, set, map, string, number or pointer at the top level
		t = t.Field(c.Rng.Intn(t.NumField())).Type
		if t.Kind() == reflect.Interface {
			return
		}
	}
	f := &ttypes.Filler{R: c.Rng.Fork(2), MaxLen: 6}
	v := f.NewValue(t)
	tree := ttypes.TreeOf(v)
	for _, p := range protocols {
		full := p.encode(tree)
		c.Journal("prefixes|" + p.name)
		step := 1
		if len(full) > 400 {
			step = len(full) / 200
		}
		for cut := 0; cut < len(full); cut += step {
			b := full[:cut:cut]
			_, o := decode(p, b, t, false)
			if !checkTotal(c, "prefixes", p, b, t, o) {
				return
			}
			if o.err == nil {
				c.Violation("prefixes|"+p.name, "truncated-input-accepted", fmt.Sprintf("Unmarshal(%s) accepts %x, the first %d of %d bytes of a valid encoding of %s", p.name, tr(b), cut, len(full), show(v)), map[string]any{"type": ttypes.TypeString(t), "input_hex": fmt.Sprintf("%x", tr(b)), "cut": cut})
				return
			}
			if cut > 0 && !errors.Is(o.err, io.ErrUnexpectedEOF) {
				c.Violation("prefixes|"+p.name, "truncation-not-unexpected-EOF", fmt.Sprintf("Unmarshal(%s) of the first %d of %d bytes (%x) of a valid encoding reports %q, not an unexpected-EOF error", p.name, cut, len(full), tr(b), o.err), map[string]any{"type": ttypes.TypeString(t), "input_hex": fmt.Sprintf("%x", tr(b)), "cut": cut})
				return
			}
			c.Count("prefixes.decoded", 1)
		}
		// the whole encoding decodes to the value; with anything appended it is rejected
		got, o := decode(p, full, t, false)
		if !checkTotal(c, "prefixes", p, full, t, o) {
			return
		}
		if o.err != nil {
			c.Violation("valid|"+p.name, "rejected", fmt.Sprintf("Unmarshal(%s) rejects the valid encoding %x of %s: %v", p.name, tr(full), show(v), o.err), nil)
			return
		}
		if ok, d := ttypes.Equal(v, got); !ok {
			c.Violation("valid|"+p.name, "value-diff", d, nil)
			return
		}
		// a bare collection decoded into a target with other element types is skipped as a
		// whole (outside strict mode): every proper prefix must still be an unexpected-EOF error
		if alt := mismatchingTarget(t); alt != nil {
			c.Journal("prefixes-skipped|" + p.name)
			if _, o := decode(p, full, alt, false); o.sig != "" || o.err != nil {
				c.Violation("prefixes-skipped|"+p.name, "skipped-collection-rejected", fmt.Sprintf("Unmarshal(%s) of a valid %s into %s (elements skipped): panic %q err %v", p.name, t, alt, o.sig, o.err), nil)
				return
			}
			for cut := 1; cut < len(full); cut += step {
				b := full[:cut:cut]
				_, o := decode(p, b, alt, false)
				if !checkTotal(c, "prefixes-skipped", p, b, alt, o) {
					return
				}
				if o.err == nil || !errors.Is(o.err, io.ErrUnexpectedEOF) {
					c.Violation("prefixes-skipped|"+p.name, "truncated-skipped-collection", fmt.Sprintf("Unmarshal(%s) of the first %d of %d bytes (%x) of a %s into %s reports %v, not an unexpected-EOF error", p.name, cut, len(full), tr(b), t, alt, o.err), map[string]any{"input_hex": fmt.Sprintf("%x", tr(b)), "cut": cut})
					return
				}
				c.Count("prefixes.skipped-decoded", 1)
			}
		}
		extra := append(append([]byte(nil), full...), c.Rng.Bytes(c.Rng.Range(1, 4))...)
		if _, o := decode(p, extra, t, false); o.sig != "" || o.err == nil {
			c.Violation("trailing|"+p.name, "trailing-bytes-accepted", fmt.Sprintf("Unmarshal(%s) accepts %x followed by %d more bytes (panic %q)", p.name, tr(full), len(extra)-len(full), o.sig), map[string]any{"type": ttypes.TypeString(t), "input_hex": fmt.Sprintf("%x", tr(extra))})
			return
		}
		c.Distinct(core.Mix(core.HashString(t.String()), core.HashBytes(full)), len(full) > 1)
	}
}

// mismatchingTarget returns, for a bare list / set / map type, a target of the same collection
// kind whose elements have another thrift type (nil for anything else).
func mismatchingTarget(t reflect.Type) reflect.Type {
	other := func(e reflect.Type) reflect.Type {
		for e.Kind() == reflect.Pointer {
			e = e.Elem()
		}
		if e.Kind() == reflect.String || (e.Kind() == reflect.Slice && e.Elem().Kind() == reflect.Uint8) {
			return reflect.TypeOf(int64(0))
		}
		return reflect.TypeOf("")
	}
	switch t.Kind() {
	case reflect.Slice:
		if t.Elem().Kind() == reflect.Uint8 {
			return nil
		}
		return reflect.SliceOf(other(t.Elem()))
	case reflect.Map:
		if t.Elem().Size() == 0 { // set
			return reflect.MapOf(other(t.Key()), t.Elem())
		}
		return reflect.MapOf(t.Key(), other(t.Elem()))
	}
	return nil
}

// ---- unknown fields --------------------------------------------------------------------------------

func randNode(r *core.Rand, depth int) tspec.Node {
	k := tspec.Kind(r.Range(1, 11))
	if depth > 2 && k >= tspec.LIST {
		k = tspec.Kind(r.Range(1, 7))
	}
	return randNodeOf(r, k, depth)
}

func randNodeOf(r *core.Rand, k tspec.Kind, depth int) tspec.Node {
	n := tspec.Node{K: k}
	switch k {
	case tspec.BOOL:
		n.B = r.Bool()
	case tspec.I8:
		n.I = int64(int8(r.Int64()))
	case tspec.I16:
		n.I = int64(int16(r.Int64()))
	case tspec.I32:
		n.I = int64(int32(r.Int64()))
	case tspec.I64:
		n.I = r.Int64()
	case tspec.DOUBLE:
		n.F = r.Float(true)
	case tspec.BINARY:
		n.S = r.Bytes(r.Intn(20))
	case tspec.LIST, tspec.SET:
		n.Elem = tspec.Kind(r.Range(1, 11))
		if depth > 2 && n.Elem >= tspec.LIST {
			n.Elem = tspec.I32
		}
		cnt := []int{0, 1, 2, 3, 14, 15, 16}[r.Intn(7)]
		for i := 0; i < cnt; i++ {
			n.Items = append(n.Items, randNodeOf(r, n.Elem, depth+1))
		}
	case tspec.MAP:
		n.Key = tspec.Kind(r.Range(1, 7))
		n.Val = tspec.Kind(r.Range(1, 11))
		if depth > 2 && n.Val >= tspec.LIST {
			n.Val = tspec.BINARY
		}
		cnt := r.Intn(4)
		for i := 0; i < cnt; i++ {
			n.Pairs = append(n.Pairs, [2]tspec.Node{randNodeOf(r, n.Key, depth+1), randNodeOf(r, n.Val, depth+1)})
		}
	case tspec.STRUCT:
		cnt := r.Intn(4)
		id := 0
		for i := 0; i < cnt; i++ {
			id += r.Range(1, 40)
			n.Fields = append(n.Fields, tspec.Field{ID: int16(id), V: randNode(r, depth+1)})
		}
	}
	return n
}

// addUnknown inserts fields with undeclared ids into every struct node that corresponds to a
// Go struct type (walking type and tree in parallel).
func addUnknown(r *core.Rand, n tspec.Node, t reflect.Type, count *int) tspec.Node {
	for t.Kind() == reflect.Pointer {
		t = t.Elem()
	}
	out := n
	switch n.K {
	case tspec.STRUCT:
		if t.Kind() != reflect.Struct {
			return n
		}
		fs, _ := ttypes.Fields(t)
		declared := map[int16]reflect.Type{}
		for _, f := range fs {
			declared[f.ID] = f.Type
		}
		out.Fields = nil
		for _, f := range n.Fields {
			if ft, ok := declared[f.ID]; ok {
				f.V = addUnknown(r, f.V, ft, count)
			}
			out.Fields = append(out.Fields, f)
		}
		for k := r.Intn(3); k > 0; k-- {
			var id int16
			for try := 0; try < 20; try++ {
				switch r.Intn(4) {
				case 0:
					id = int16(r.Range(-5, 20))
				case 1:
					id = int16(r.Range(1, 32767))
				case 2:
					if len(fs) > 0 {
						id = fs[r.Intn(len(fs))].ID + int16(r.Range(-2, 2))
					}
				default:
					id = int16([]int{-32768, -1, 63, 64, 65, 127, 128, 129, 32767}[r.Intn(9)])
				}
				dup := id == 0
				for _, f := range out.Fields {
					if f.ID == id {
						dup = true
					}
				}
				if _, ok := declared[id]; !ok && !dup {
					break
				}
				id = 0
			}
			if id == 0 {
				continue
			}
			out.Fields = append(out.Fields, tspec.Field{ID: id, V: randNode(r, 1)})
			*count++
		}
	case tspec.LIST:
		if t.Kind() != reflect.Slice {
			return n
		}
		out.Items = make([]tspec.Node, len(n.Items))
		for i, it := range n.Items {
			out.Items[i] = addUnknown(r, it, t.Elem(), count)
		}
	case tspec.MAP:
		if t.Kind() != reflect.Map {
			return n
		}
		out.Pairs = make([][2]tspec.Node, len(n.Pairs))
		for i, p := range n.Pairs {
			out.Pairs[i] = [2]tspec.Node{p[0], addUnknown(r, p[1], t.Elem(), count)}
		}
	}
	return out
}

func runUnknown(c *core.Case) {
	t, ok := genType(c, ttypes.Cfg{MaxDepth: 2, MaxFields: 6, Embedding: true, Unions: c.Index%3 == 0})
	if !ok {
		return
	}
	r := c.Rng
	f := &ttypes.Filler{R: r.Fork(2), MaxLen: 6}
	v := f.NewValue(t)
	cnt := 0
	tree := addUnknown(r, ttypes.TreeOf(v), t, &cnt)
	for _, p := range protocols {
		b := p.encode(tree)
		c.Journal("unknown-fields|" + p.name)
		got, o := decode(p, b, t, c.Index%2 == 0)
		if !checkTotal(c, "unknown-fields", p, b, t, o) {
			return
		}
		w := map[string]any{"type": ttypes.TypeString(t), "input_hex": fmt.Sprintf("%x", tr(b)), "content": clip(tspec.Canon(tree), 400)}
		if o.err != nil {
			c.Violation("unknown-fields|"+p.name, "rejected", fmt.Sprintf("Unmarshal(%s) of a valid encoding with %d undeclared fields fails: %v (content %s)", p.name, cnt, o.err, clip(tspec.Canon(tree), 300)), w)
			return
		}
		if ok, d := ttypes.Equal(v, got); !ok {
			c.Violation("unknown-fields|"+p.name, "value-diff", fmt.Sprintf("%s | with %d undeclared fields the value decodes differently: want %s | got %s | content %s", d, cnt, show(v), show(got), clip(tspec.Canon(tree), 300)), w)
			return
		}
	}
	c.Count("unknown-fields.inserted", cnt)
	c.Distinct(core.HashString(tspec.Canon(tree)), cnt > 0)
}

// retypeNested re-types one field of a struct node that sits below a map value, a list element
// or a struct field of the root (chosen at random among all of them).
func retypeNested(r *core.Rand, root tspec.Node, t reflect.Type) (tspec.Node, string, bool) {
	type site struct {
		path  []int // indexes: field position / item index / pair index
		where string
	}
	var sites []site
	var walk func(n tspec.Node, t reflect.Type, path []int, where string, depth int)
	walk = func(n tspec.Node, t reflect.Type, path []int, where string, depth int) {
		for t.Kind() == reflect.Pointer {
			t = t.Elem()
		}
		switch n.K {
		case tspec.STRUCT:
			if t.Kind() != reflect.Struct {
				return
			}
			if depth > 0 && len(n.Fields) > 0 {
				sites = append(sites, site{append([]int(nil), path...), where})
			}
			fs, _ := ttypes.Fields(t)
			byID := map[int16]reflect.Type{}
			for _, f := range fs {
				byID[f.ID] = f.Type
			}
			for i, f := range n.Fields {
				if ft, ok := byID[f.ID]; ok {
					walk(f.V, ft, append(path, i), where+"/field", depth+1)
				}
			}
		case tspec.LIST:
			if t.Kind() == reflect.Slice {
				for i, it := range n.Items {
					walk(it, t.Elem(), append(path, i), where+"/list-element", depth+1)
				}
			}
		case tspec.MAP:
			if t.Kind() == reflect.Map {
				for i, p := range n.Pairs {
					walk(p[1], t.Elem(), append(path, i), where+"/map-value", depth+1)
				}
			}
		}
	}
	walk(root, t, nil, "", 0)
	// prefer sites below a map or a list
	var pref []site
	for _, s := range sites {
		if strings.Contains(s.where, "map-value") || strings.Contains(s.where, "list-element") {
			pref = append(pref, s)
		}
	}
	if len(pref) > 0 {
		sites = pref
	}
	if len(sites) == 0 {
		return root, "", false
	}
	s := sites[r.Intn(len(sites))]
	var rewrite func(n tspec.Node, path []int) tspec.Node
	rewrite = func(n tspec.Node, path []int) tspec.Node {
		out := n
		if len(path) == 0 {
			out.Fields = append([]tspec.Field(nil), n.Fields...)
			i := r.Intn(len(out.Fields))
			for {
				other := randNode(r, 2)
				if other.K != out.Fields[i].V.K && !(other.K == tspec.BOOL && out.Fields[i].V.K == tspec.BOOL) {
					out.Fields[i].V = other
					break
				}
			}
			return out
		}
		i := path[0]
		switch n.K {
		case tspec.STRUCT:
			out.Fields = append([]tspec.Field(nil), n.Fields...)
			out.Fields[i].V = rewrite(n.Fields[i].V, path[1:])
		case tspec.LIST:
			out.Items = append([]tspec.Node(nil), n.Items...)
			out.Items[i] = rewrite(n.Items[i], path[1:])
		case tspec.MAP:
			out.Pairs = append([][2]tspec.Node(nil), n.Pairs...)
			out.Pairs[i] = [2]tspec.Node{n.Pairs[i][0], rewrite(n.Pairs[i][1], path[1:])}
		}
		return out
	}
	return rewrite(root, s.path), "below " + strings.TrimPrefix(s.where, "/"), true
}

func describe(n tspec.Node) string {
	switch n.K {
	case tspec.LIST, tspec.SET:
		return fmt.Sprintf("%s<%s>", n.K, n.Elem)
	case tspec.MAP:
		return fmt.Sprintf("MAP<%s,%s>", n.Key, n.Val)
	}
	return n.K.String()
}

func clip(s string, n int) string {
	if len(s) > n {
		return s[:n] + "…"
	}
	return s
}

// ---- required fields and strict type checks ----------------------------------------------------

func runRequired(c *core.Case) {
	t, ok := genType(c, ttypes.Cfg{MaxDepth: 2, MaxFields: 8})
	if !ok {
		return
	}
	r := c.Rng
	fs, _ := ttypes.Fields(t)
	var req []ttypes.FieldInfo
	for _, f := range fs {
		if f.Required {
			req = append(req, f)
		}
	}
	f := &ttypes.Filler{R: r.Fork(2), MaxLen: 4}
	v := f.NewValue(t)
	tree := ttypes.TreeOf(v)
	if len(req) > 0 {
		drop := req[r.Intn(len(req))]
		cut := tree
		cut.Fields = nil
		for _, fl := range tree.Fields {
			if fl.ID != drop.ID {
				cut.Fields = append(cut.Fields, fl)
			}
		}
		for _, p := range protocols {
			b := p.encode(cut)
			c.Journal("missing-required|" + p.name)
			_, o := decode(p, b, t, false)
			if !checkTotal(c, "missing-required", p, b, t, o) {
				return
			}
			var mf *thrift.MissingField
			w := map[string]any{"type": ttypes.TypeString(t), "input_hex": fmt.Sprintf("%x", tr(b)), "dropped": drop.ID}
			if !errors.As(o.err, &mf) {
				c.Violation("missing-required|"+p.name, "not-reported", fmt.Sprintf("required field %d is absent from %x but Unmarshal(%s) reports %v", drop.ID, tr(b), p.name, o.err), w)
				return
			}
			if mf.Field.ID != drop.ID {
				c.Violation("missing-required|"+p.name, "wrong-field-reported", fmt.Sprintf("required field %d is the only one absent from %x but MissingField names field %d (%s)", drop.ID, tr(b), mf.Field.ID, ttypes.TypeString(t)), w)
				return
			}
			c.Count("missing-required.reported", 1)
		}
		// another required field present twice (legal: the later occurrence wins) does not make
		// up for the absent one
		if len(req) >= 2 {
			var other ttypes.FieldInfo
			for _, q := range req {
				if q.ID != drop.ID {
					other = q
				}
			}
			dup := cut
			dup.Fields = append([]tspec.Field(nil), cut.Fields...)
			for _, fl := range cut.Fields {
				if fl.ID == other.ID {
					dup.Fields = append(dup.Fields, fl, fl)
				}
			}
			for _, p := range protocols {
				b := p.encode(dup)
				c.Journal("missing-required-with-duplicates|" + p.name)
				_, o := decode(p, b, t, false)
				if !checkTotal(c, "missing-required", p, b, t, o) {
					return
				}
				var mf *thrift.MissingField
				if !errors.As(o.err, &mf) || mf.Field.ID != drop.ID {
					c.Violation("missing-required-with-duplicates|"+p.name, "not-reported", fmt.Sprintf("required field %d is absent from %x (required field %d occurs three times) but Unmarshal(%s) reports %v", drop.ID, tr(b), other.ID, p.name, o.err), map[string]any{"type": ttypes.TypeString(t), "input_hex": fmt.Sprintf("%x", tr(b)), "dropped": drop.ID})
					return
				}
				c.Count("missing-required.reported-with-duplicates", 1)
			}
		}
	}
	// histories: the outcome of a decode does not depend on the decodes before it
	if len(req) >= 2 {
		without := func(id int16) tspec.Node {
			n := tree
			n.Fields = nil
			for _, fl := range tree.Fields {
				if fl.ID != id {
					n.Fields = append(n.Fields, fl)
				}
			}
			return n
		}
		a, b2 := req[0], req[len(req)-1]
		for _, p := range protocols {
			c.Journal("history|" + p.name)
			full := p.encode(tree)
			type step struct {
				name string
				in   []byte
				miss int16 // 0: must succeed; -1: any error
			}
			cutA, cutB := p.encode(without(a.ID)), p.encode(without(b2.ID))
			steps := []step{{"without-last-required", cutB, b2.ID}, {"without-first-required", cutA, a.ID}, {"truncated", full[:len(full)-1], -1}, {"without-first-required", cutA, a.ID}, {"truncated-early", full[:len(full)/2], -1}, {"without-last-required", cutB, b2.ID}, {"complete", full, 0}, {"without-first-required", cutA, a.ID}}
			var trail []string
			for _, st := range steps {
				trail = append(trail, st.name)
				got, o := decode(p, st.in, t, false)
				if !checkTotal(c, "history", p, st.in, t, o) {
					return
				}
				var mf *thrift.MissingField
				bad := ""
				switch {
				case st.miss == 0:
					if o.err != nil {
						bad = fmt.Sprintf("the complete encoding is rejected: %v", o.err)
					} else if ok, d := ttypes.Equal(v, got); !ok {
						bad = "the complete encoding decodes differently: " + d
					}
				case st.miss == -1:
					if o.err == nil {
						bad = "a truncated encoding is accepted"
					}
				default:
					if !errors.As(o.err, &mf) || mf.Field.ID != st.miss {
						bad = fmt.Sprintf("required field %d is absent but the decode reports %v", st.miss, o.err)
					}
				}
				if bad != "" {
					c.Violation("history|"+p.name, "outcome-depends-on-earlier-decodes", fmt.Sprintf("after the decodes %v of the same type: %s (each step has the expected outcome when run first)", trail, bad), map[string]any{"type": ttypes.TypeString(t), "history": trail})
					return
				}
			}
			c.Count("history.steps", len(steps))
		}
	}
	// strict mode below containers: a field of a struct nested in map values, list elements or
	// other structs is re-typed; the strict flag must reach it
	if mutN, where, ok := retypeNested(r, tree, t); ok {
		for _, p := range protocols {
			b := p.encode(mutN)
			c.Journal("strict-type-mismatch-nested|" + p.name)
			_, o := decode(p, b, t, true)
			if !checkTotal(c, "strict-type-mismatch-nested", p, b, t, o) {
				return
			}
			var tm *thrift.TypeMismatch
			if !errors.As(o.err, &tm) {
				c.Violation("strict-type-mismatch-nested|"+p.name, "not-reported", fmt.Sprintf("a field of a struct nested %s holds another thrift type than declared; a strict Decoder(%s) reports %v (input %x)", where, p.name, o.err, tr(b)), map[string]any{"type": ttypes.TypeString(t), "input_hex": fmt.Sprintf("%x", tr(b)), "where": where})
				return
			}
			c.Count("strict-type-mismatch.nested-reported", 1)
		}
	}
	// strict mode: one field with another wire type
	if len(tree.Fields) > 0 {
		i := r.Intn(len(tree.Fields))
		orig := tree.Fields[i].V.K
		var other tspec.Node
		for try := 0; ; try++ {
			other = randNode(r, 2)
			if other.K != orig {
				break
			}
			// same collection kind with other element types (only in strict mode a
			// TypeMismatch; outside it the elements are skipped)
			cur := tree.Fields[i].V
			if try < 20 && r.Bool() && (orig == tspec.LIST || orig == tspec.SET) && other.Elem != cur.Elem && !(other.Elem == tspec.BOOL && cur.Elem == tspec.BOOL) && len(other.Items) > 0 {
				break
			}
			if try < 20 && r.Bool() && orig == tspec.MAP && (other.Key != cur.Key || other.Val != cur.Val) && len(other.Pairs) > 0 {
				break
			}
		}
		mut := tree
		mut.Fields = append([]tspec.Field(nil), tree.Fields...)
		mut.Fields[i].V = other
		for _, p := range protocols {
			b := p.encode(mut)
			c.Journal("strict-type-mismatch|" + p.name)
			_, o := decode(p, b, t, true)
			if !checkTotal(c, "strict-type-mismatch", p, b, t, o) {
				return
			}
			var tm *thrift.TypeMismatch
			if !errors.As(o.err, &tm) {
				c.Violation("strict-type-mismatch|"+p.name, "not-reported", fmt.Sprintf("field %d holds a %s where the struct declares %s; a strict Decoder(%s) reports %v (input %x)", mut.Fields[i].ID, other.K, orig, p.name, o.err, tr(b)), map[string]any{"type": ttypes.TypeString(t), "input_hex": fmt.Sprintf("%x", tr(b))})
				return
			}
			// outside strict mode the value that cannot be decoded is skipped: no error, the field
			// keeps its zero value and every other field decodes as before
			got, o2 := decode(p, b, t, false)
			if !checkTotal(c, "nonstrict-type-mismatch", p, b, t, o2) {
				return
			}
			want, _ := decode(p, p.encode(tree), t, false)
			for _, fi := range fs {
				if fi.ID == mut.Fields[i].ID {
					want.FieldByIndex(fi.Index).SetZero()
				}
			}
			w2 := map[string]any{"type": ttypes.TypeString(t), "input_hex": fmt.Sprintf("%x", tr(b)), "retyped_field": mut.Fields[i].ID}
			if o2.err != nil {
				c.Violation("nonstrict-type-mismatch|"+p.name, "rejected", fmt.Sprintf("field %d holds a %s where the struct declares %s; a non-strict decode(%s) fails: %v (input %x)", mut.Fields[i].ID, describe(other), describe(tree.Fields[i].V), p.name, o2.err, tr(b)), w2)
				return
			}
			if ok, d := ttypes.Equal(want, got); !ok {
				c.Violation("nonstrict-type-mismatch|"+p.name, "other-fields-disturbed", fmt.Sprintf("%s | field %d holds a %s where the struct declares %s; after the non-strict decode(%s) the other fields differ: want %s | got %s", d, mut.Fields[i].ID, describe(other), describe(tree.Fields[i].V), p.name, show(want), show(got)), w2)
				return
			}
			c.Count("strict-type-mismatch.reported", 1)
		}
	}
	c.Distinct(core.HashString(t.String()), len(fs) > 0)
}

// ---- hostile inputs: mutated encodings, size bombs, random bytes ---------------------------------

func mutate(r *core.Rand, b []byte) []byte {
	out := append([]byte(nil), b...)
	for k := r.Range(1, 3); k > 0 && len(out) > 0; k-- {
		i := r.Intn(len(out))
		switch r.Intn(6) {
		case 0:
			out[i] ^= 1 << uint(r.Intn(8))
		case 1:
			out[i] = byte(r.Intn(256))
		case 2:
			out[i] = []byte{0x00, 0x7f, 0x80, 0xff, 0xf0, 0x0f}[r.Intn(6)]
		case 3: // a huge big-endian or varint size
			ins := [][]byte{{0x7f, 0xff, 0xff, 0xff}, {0xff, 0xff, 0xff, 0xff}, {0x80, 0x00, 0x00, 0x00}, {0xff, 0xff, 0xff, 0xff, 0x07}, {0xff, 0xff, 0xff, 0xff, 0x0f}, {0x40, 0x00, 0x00, 0x00}}[r.Intn(6)]
			out = append(out[:i:i], append(ins, out[i:]...)...)
		case 4:
			out = append(out[:i:i], out[i+1:]...)
		default:
			j := r.Intn(len(out))
			if i > j {
				i, j = j, i
			}
			out = append(out[:i:i], out[j:]...)
		}
	}
	return out
}

func runMutated(c *core.Case) {
	t, ok := genType(c, ttypes.Cfg{MaxDepth: 2, MaxFields: 6, Unions: true, Embedding: true})
	if !ok {
		return
	}
	r := c.Rng
	f := &ttypes.Filler{R: r.Fork(2), MaxLen: 6}
	v := f.NewValue(t)
	tree := ttypes.TreeOf(v)
	for _, p := range protocols {
		full := p.encode(tree)
		for k := 0; k < 6; k++ {
			b := mutate(r, full)
			c.Journal("mutated|" + p.name)
			_, o := decode(p, b, t, k%2 == 0)
			if !checkTotal(c, "mutated", p, b, t, o) {
				return
			}
			if o.err != nil {
				c.Count("mutated.rejected", 1)
			} else {
				c.Count("mutated.accepted", 1)
			}
			c.Distinct(core.HashBytes(b), true)
		}
	}
}

// bombs: a collection or string header that announces far more than the input holds
func runBombs(c *core.Case) {
	r := c.Rng
	type T struct {
		L  []int64            `thrift:"1"`
		S  string             `thrift:"2"`
		B  []byte             `thrift:"3"`
		M  map[int32]string   `thrift:"4"`
		Z  map[int64]struct{} `thrift:"5"`
		LS [][]string         `thrift:"6"`
		LT []struct {
			A [16]int64
			X int8 `thrift:"1"`
		} `thrift:"7"`
	}
	t := reflect.TypeOf(T{})
	if c.Index%4 == 1 {
		unknownBombs(c, t)
		return
	}
	sizes := []uint32{1 << 16, 1 << 20, 1 << 24, 1 << 27, 1<<31 - 1, 1 << 31, 1<<32 - 1, 0xfffffff0}
	size := sizes[r.Intn(len(sizes))]
	field := r.Range(1, 7)
	tail := r.Bytes(r.Intn(24))
	be := func(v uint32) []byte { return []byte{byte(v >> 24), byte(v >> 16), byte(v >> 8), byte(v)} }
	uv := func(v uint64) []byte {
		var b []byte
		for v >= 0x80 {
			b = append(b, byte(v)|0x80)
			v >>= 7
		}
		return append(b, byte(v))
	}
	for _, p := range protocols {
		var b []byte
		if !p.compact {
			code := map[int]byte{1: 15, 2: 11, 3: 11, 4: 13, 5: 14, 6: 15, 7: 15}[field]
			b = append(b, code, 0, byte(field))
			switch field {
			case 1:
				b = append(append(b, 10), be(size)...)
			case 2, 3:
				b = append(b, be(size)...)
			case 4:
				b = append(append(b, 8, 11), be(size)...)
			case 5:
				b = append(append(b, 10), be(size)...)
			case 6:
				b = append(append(b, 15), be(size)...)
			case 7:
				b = append(append(b, 12), be(size)...)
			}
		} else {
			code := map[int]byte{1: 9, 2: 8, 3: 8, 4: 11, 5: 10, 6: 9, 7: 9}[field]
			b = append(b, byte(field)<<4|code)
			switch field {
			case 1:
				b = append(append(b, 0xF6), uv(uint64(size))...)
			case 2, 3:
				b = append(b, uv(uint64(size))...)
			case 4:
				b = append(append(b, uv(uint64(size))...), 0x58)
			case 5:
				b = append(append(b, 0xF6), uv(uint64(size))...)
			case 6:
				b = append(append(b, 0xF9), uv(uint64(size))...)
			case 7:
				b = append(append(b, 0xFC), uv(uint64(size))...)
			}
		}
		// every third case the announced elements really start to arrive: more of them than the
		// decoder preallocates (64 KiB worth), far fewer than announced
		if c.Index%3 == 2 && (field == 1 || field == 5 || field == 6 || field == 7) && size >= 1<<20 && size <= 1<<31-1 {
			var elem []byte
			n := 0
			switch field {
			case 1, 5: // i64: preallocation 8192 / 4096 elements
				n = 8192 + r.Range(1, 600)
				elem = []byte{0, 0, 0, 0, 0, 0, 0, 7}
				if p.compact {
					elem = []byte{14}
				}
			case 6: // list<list<string>>: 24-byte elements, 2730 preallocated
				n = 2730 + r.Range(1, 300)
				elem = []byte{11, 0, 0, 0, 0}
				if p.compact {
					elem = []byte{0x08}
				}
			case 7: // list<struct>: 136-byte elements, 481 preallocated
				n = 481 + r.Range(1, 100)
				elem = []byte{0}
			}
			tail = bytes.Repeat(elem, n)
			if field == 5 { // set elements must differ to stay in the map
				tail = tail[:0]
				for i := 0; i < n; i++ {
					if p.compact {
						tail = append(tail, uv(uint64(i)<<1)...)
					} else {
						tail = append(tail, be(0)...)
						tail = append(tail, be(uint32(i))...)
					}
				}
			}
			c.Count("size-bombs.with-partial-content", 1)
		}
		b = append(b, tail...)
		c.Journal(fmt.Sprintf("size-bomb|%s|field%d|%#x", p.name, field, size))
		_, o := decode(p, b, t, false)
		if !checkTotal(c, fmt.Sprintf("size-bomb|field%d", field), p, b, t, o) {
			return
		}
		if o.err == nil {
			c.Violation(fmt.Sprintf("size-bomb|field%d|%s", field, p.name), "accepted", fmt.Sprintf("Unmarshal(%s) accepts %x, whose field %d announces %d elements/bytes with %d bytes of input left", p.name, tr(b), field, size, len(tail)), map[string]any{"input_hex": fmt.Sprintf("%x", b)})
			return
		}
		c.Count("size-bombs.rejected", 1)
		c.Distinct(core.Mix(uint64(size), uint64(field)<<8|uint64(len(tail))), true)
	}
}

// unknownBombs: the oversized collection sits in a field the target does not declare (at the top
// level or inside an undeclared struct), its elements have a fixed width, and the announced count
// times that width does not fit in 32 bits; zero, one or two elements are really there, then the
// struct ends properly. Skipping it must fail: the input ends long before the collection does.
func unknownBombs(c *core.Case, t reflect.Type) {
	r := c.Rng
	be := func(v uint32) []byte { return []byte{byte(v >> 24), byte(v >> 16), byte(v >> 8), byte(v)} }
	uv := func(v uint64) []byte {
		var b []byte
		for v >= 0x80 {
			b = append(b, byte(v)|0x80)
			v >>= 7
		}
		return append(b, byte(v))
	}
	size := []uint32{0x20000001, 0x7FFFFFFF, 0x10000000, 0x40000000, 0x40000001, 0x08000001, 0x30000000, 0x10000001, 0x7FFFFFFE, 0x00010000}[r.Intn(10)]
	present := r.Intn(3)
	isSet := r.Bool()
	nested := r.Bool()
	for _, p := range protocols {
		var b []byte
		var width int
		if !p.compact {
			et := []byte{2, 3, 4, 6, 8, 10}[r.Intn(6)]
			width = map[byte]int{2: 1, 3: 1, 4: 8, 6: 2, 8: 4, 10: 8}[et]
			if nested {
				b = append(b, 12, 0, 98) // undeclared struct 98 {
			}
			code := byte(15)
			if isSet {
				code = 14
			}
			b = append(b, code, 0, 99, et)
			b = append(b, be(size)...)
		} else {
			et := []byte{1, 3, 7}[r.Intn(3)]
			width = map[byte]int{1: 1, 3: 1, 7: 8}[et]
			if nested {
				b = append(b, 0x0C, 0xC4, 0x01) // undeclared struct 98 {
			}
			code := byte(9)
			if isSet {
				code = 10
			}
			b = append(b, code, 0xC6, 0x01, 0xF0|et)
			b = append(b, uv(uint64(size))...)
		}
		for i := 0; i < present*width; i++ {
			b = append(b, 1)
		}
		if nested {
			b = append(b, 0) // } of the undeclared struct
		}
		b = append(b, 0)
		cls := fmt.Sprintf("size-bomb|undeclared|width%d", width)
		c.Journal(fmt.Sprintf("%s|%s|%#x", cls, p.name, size))
		_, o := decode(p, b, t, false)
		if !checkTotal(c, cls, p, b, t, o) {
			return
		}
		if o.err == nil {
			c.Violation(cls+"|"+p.name, "accepted", fmt.Sprintf("Unmarshal(%s) accepts %x: an undeclared collection announces %d elements of %d bytes, %d are present", p.name, b, size, width, present), map[string]any{"input_hex": fmt.Sprintf("%x", b)})
			return
		}
		c.Count("size-bombs.undeclared.rejected", 1)
		c.Distinct(core.Mix(uint64(size), uint64(width)<<8|uint64(present)<<4|uint64(b2i(nested))<<1|uint64(b2i(isSet))), true)
	}
}

func b2i(b bool) int {
	if b {
		return 1
	}
	return 0
}

func runRandom(c *core.Case) {
	t, ok := genType(c, ttypes.Cfg{MaxDepth: 2, MaxFields: 6, Unions: true})
	if !ok {
		return
	}
	r := c.Rng
	n := r.Intn(64)
	b := r.Bytes(n)
	if r.Bool() { // bias toward bytes that look like headers
		for i := range b {
			if r.Chance(1, 2) {
				b[i] = []byte{0, 1, 2, 3, 4, 6, 8, 10, 11, 12, 13, 14, 15, 0x15, 0x16, 0x18, 0x19, 0x1c, 0x2b, 0xf9, 0xff, 0x7f, 0x80}[r.Intn(23)]
			}
		}
	}
	for _, p := range protocols {
		c.Journal("random|" + p.name)
		_, o := decode(p, b, t, c.Index%2 == 0)
		if !checkTotal(c, "random", p, b, t, o) {
			return
		}
		if o.err != nil {
			c.Count("random.rejected", 1)
		} else {
			c.Count("random.accepted", 1)
		}
	}
	c.Distinct(core.HashBytes(b), n > 0)
}

// ---- reader methods on arbitrary bytes -----------------------------------------------------------

func runReaders(c *core.Case) {
	r := c.Rng
	b := r.Bytes(r.Intn(24))
	if r.Bool() && len(b) >= 4 {
		copy(b, [][]byte{{0x7f, 0xff, 0xff, 0xff}, {0xff, 0xff, 0xff, 0xff}, {0x80, 0x01, 0x00, 0x01}, {0xff, 0xff, 0xff, 0x7f}}[r.Intn(4)])
	}
	// every fourth case: a varint that denotes 2^64 or more (ten bytes whose last is above 1, or
	// more than ten bytes): no integer, length or size of the compact protocol
	overflow := c.Index%4 == 3
	if overflow {
		v := make([]byte, 9, 40)
		for i := range v {
			v[i] = 0x80 | byte(r.Intn(128))
		}
		if r.Bool() {
			v = append(v, byte(r.Range(2, 0x7f)))
		} else {
			v = append(v, 0x80|byte(r.Intn(128)), byte(r.Intn(2)))
		}
		b = append(v, r.Bytes(r.Intn(12))...)
	}
	methods := []string{"ReadBool", "ReadInt8", "ReadInt16", "ReadInt32", "ReadInt64", "ReadFloat64", "ReadBytes", "ReadString", "ReadLength", "ReadMessage", "ReadField", "ReadList", "ReadSet", "ReadMap"}
	for _, p := range protocols {
		for _, m := range methods {
			c.Journal("reader|" + p.name + "|" + m)
			br := bytes.NewReader(b)
			rd := p.p.NewReader(br)
			var res []reflect.Value
			var m0, m1 runtime.MemStats
			runtime.ReadMemStats(&m0)
			sig, stk := core.Guard(func() { res = reflect.ValueOf(rd).MethodByName(m).Call(nil) })
			runtime.ReadMemStats(&m1)
			w := map[string]any{"input_hex": fmt.Sprintf("%x", b), "method": m, "protocol": p.name}
			if sig != "" {
				c.Violation("reader|"+p.name+"|"+m, sig, fmt.Sprintf("%s.%s on %x panicked: %s", p.name, m, b, stk), w)
				continue
			}
			if a := m1.TotalAlloc - m0.TotalAlloc; a > 256<<10 {
				c.Violation("reader|"+p.name+"|"+m, "allocation-out-of-proportion", fmt.Sprintf("%s.%s on the %d bytes %x allocated %d bytes", p.name, m, len(b), b, a), w)
				continue
			}
			err, _ := res[1].Interface().(error)
			consumed := len(b) - br.Len()
			if overflow && p.compact && err == nil && (m == "ReadInt64" || m == "ReadInt32" || m == "ReadInt16" || m == "ReadLength" || m == "ReadBytes" || m == "ReadString") {
				c.Violation("reader|"+p.name+"|"+m, "varint-overflow-accepted", fmt.Sprintf("%s.%s on %x, which starts with a varint of more than 64 bits, succeeds (returns %v)", p.name, m, b, res[0].Interface()), w)
				continue
			}
			if err == nil {
				// a successful read cannot have needed more than the input holds
				switch v := res[0].Interface().(type) {
				case []byte:
					if len(v) > len(b) {
						c.Violation("reader|"+p.name+"|"+m, "more-than-the-input", fmt.Sprintf("%s.%s on %x returned %d bytes", p.name, m, b, len(v)), w)
					}
				case int:
					if v < 0 {
						c.Violation("reader|"+p.name+"|"+m, "negative-length", fmt.Sprintf("%s.%s on %x returned %d", p.name, m, b, v), w)
					}
				case thrift.List:
					if v.Size < 0 {
						c.Violation("reader|"+p.name+"|"+m, "negative-size", fmt.Sprintf("%s.%s on %x returned size %d without error", p.name, m, b, v.Size), w)
					}
				case thrift.Set:
					if v.Size < 0 {
						c.Violation("reader|"+p.name+"|"+m, "negative-size", fmt.Sprintf("%s.%s on %x returned size %d without error", p.name, m, b, v.Size), w)
					}
				case thrift.Map:
					if v.Size < 0 {
						c.Violation("reader|"+p.name+"|"+m, "negative-size", fmt.Sprintf("%s.%s on %x returned size %d without error", p.name, m, b, v.Size), w)
					}
				}
				// fixed-width reads succeed only when all their bytes were there
				if !p.compact {
					need := map[string]int{"ReadInt16": 2, "ReadInt32": 4, "ReadInt64": 8, "ReadFloat64": 8, "ReadLength": 4}[m]
					if need > len(b) {
						c.Violation("reader|"+p.name+"|"+m, "short-read-accepted", fmt.Sprintf("%s.%s on the %d bytes %x succeeds (returns %v)", p.name, m, len(b), b, res[0].Interface()), w)
					}
				}
			} else if len(b) > 0 && consumed == len(b) && err == io.EOF && !strings.HasPrefix(m, "ReadBool") && !strings.HasPrefix(m, "ReadInt8") {
				c.Violation("reader|"+p.name+"|"+m, "plain-EOF-after-partial-read", fmt.Sprintf("%s.%s on %x consumed %d bytes and reports plain io.EOF", p.name, m, b, consumed), w)
			}
			c.Count("reader-calls", 1)
		}
	}
	c.Distinct(core.HashBytes(b), true)
}

func init() {
	core.Register(&core.Monitor{
		Prop:    "C08",
		Rule:    "prefixes (struct targets, and every third case a bare list/set/map/string/number/pointer target): every prefix (all of them up to 400 bytes, 200 evenly spaced beyond) of a specification-conformant encoding of a generated value, both protocols: no panic, an error, io.EOF only for the empty input and an error that Is io.ErrUnexpectedEOF otherwise; the whole encoding decodes to the value; with 1-4 bytes appended Unmarshal reports an error; a bare list/set/map is also decoded into a target with other element types (the elements are skipped): accepted in full, unexpected-EOF for every prefix. unknown-fields: fields with undeclared ids (negative, below/above/between the declared ones, at 63/64/65/127/128/129/32767) holding values of every thrift type incl. nested lists, sets, maps and structs are inserted into every struct level of the encoding: the decoded value is unchanged (strict and non-strict). required: the encoding with one required field removed yields *MissingField naming that field, also when another required field occurs several times; an 8-step history of failing and succeeding decodes of one type gives each step the outcome it has in isolation; one field re-typed (another kind, or the same collection kind with other element types) yields *TypeMismatch from a strict Decoder (fresh, or made strict and then Reset onto the input), also when the field belongs to a struct nested in map values, list elements or other structs; a non-strict one returns no error, leaves that field zero and decodes every other field as before. mutated / random: bit flips, byte substitutions, deletions, huge big-endian and varint sizes spliced into valid encodings, and random bytes biased to header values: no panic; bytes allocated (runtime.MemStats.TotalAlloc around the second and later calls for a type) within 1 MiB (64 KiB of preallocation per nesting level of the decoder, with map overhead) + 4 x len(input) x (largest element size of the target type incl. one bit per id of a struct's id range + 64). size-bombs (also in undeclared fields and undeclared nested structs, with fixed-width elements whose total size overflows 32 bits): list, set, map, string and binary headers announcing 2^16 .. 2^32-1 elements followed by 0-23 bytes, or by slightly more real elements than the decoder preallocates: rejected within the same allocation budget. readers: every Reader method of both protocols on short arbitrary inputs (every fourth one starting with a varint of more than 64 bits, which the compact integer, length, string and binary reads must reject): no panic, <= 256 KiB allocated, no negative sizes, fixed-width reads fail on short input.",
		Trusted: []string{"harness/gen/tspec encoders for the valid encodings", "runtime.MemStats.TotalAlloc as the allocation meter (single goroutine)", "errors.Is(err, io.ErrUnexpectedEOF) as the 'unexpected-EOF class'"},
		Subs: []core.Sub{
			{Name: "prefixes", N: core.Const(1500, 60000), Run: runPrefixes},
			{Name: "unknown-fields", N: core.Const(6000, 200000), Run: runUnknown},
			{Name: "required", N: core.Const(4000, 100000), Run: runRequired},
			{Name: "mutated", N: core.Const(4000, 300000), Run: runMutated},
			{Name: "size-bombs", N: core.Const(1500, 30000), Run: runBombs},
			{Name: "random", N: core.Const(8000, 500000), Run: runRandom},
			{Name: "readers", N: core.Const(3000, 100000), Run: runReaders},
		},
	})
}
