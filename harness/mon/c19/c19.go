// Package c19: proto rewriters replace exactly the templated fields.
package c19

import (
	"bytes"
	stdjson "encoding/json"
	"fmt"
	"math"
	"reflect"
	"sort"
	"strconv"
	"strings"

	"github.com/segmentio/encoding/proto"
	refproto "google.golang.org/protobuf/proto"
	"google.golang.org/protobuf/types/dynamicpb"
	"verifharness/core"
	"verifharness/gen/pdesc"
	"verifharness/gen/ptypes"
	"verifharness/gen/pwire"
)

// message type generator (all fields tagged with a name, or none tagged) ------------------------

var scalarKinds = []reflect.Type{
	reflect.TypeOf(false), reflect.TypeOf(int32(0)), reflect.TypeOf(int64(0)), reflect.TypeOf(uint32(0)), reflect.TypeOf(uint64(0)), reflect.TypeOf(int(0)), reflect.TypeOf(uint(0)),
	reflect.TypeOf(float32(0)), reflect.TypeOf(float64(0)), reflect.TypeOf(""), reflect.TypeOf([]byte(nil)),
}

var numberPool = []int{1, 2, 3, 4, 5, 15, 16, 17, 63, 64, 65, 127, 128, 255, 256, 257, 300, 2047, 2048, 16383, 16384, 65535, 65536, 70001, 131071}

func wireFor(r *core.Rand, t reflect.Type) string {
	switch t.Kind() {
	case reflect.Int32:
		return core.Pick(r, []string{"varint", "varint", "zigzag32"})
	case reflect.Int64, reflect.Int:
		return core.Pick(r, []string{"varint", "varint", "zigzag64"})
	case reflect.Uint32:
		return core.Pick(r, []string{"varint", "varint", "fixed32"})
	case reflect.Uint64:
		return core.Pick(r, []string{"varint", "varint", "fixed64"})
	case reflect.Float32:
		return "fixed32"
	case reflect.Float64:
		return "fixed64"
	case reflect.Bool, reflect.Uint:
		return "varint"
	}
	return "bytes"
}

func genMessage(r *core.Rand, depth int, tagged bool) reflect.Type {
	n := r.Range(1, 7)
	used := map[int]bool{}
	var fs []reflect.StructField
	for i := 0; i < n; i++ {
		var ft reflect.Type
		wire := ""
		rep := "opt"
		switch k := r.Intn(12); {
		case k < 6:
			ft = scalarKinds[r.Intn(len(scalarKinds))]
			wire = wireFor(r, ft)
			if ft.Kind() != reflect.Slice && r.Chance(1, 4) {
				ft = reflect.PointerTo(ft) // optional scalar
			}
		case k < 8 && depth < 2:
			ft = genMessage(r, depth+1, tagged)
			if r.Bool() {
				ft = reflect.PointerTo(ft)
			}
			wire = "bytes"
		case k < 10:
			e := scalarKinds[r.Intn(len(scalarKinds)-1)]
			wire = wireFor(r, e)
			ft = reflect.SliceOf(e)
			rep = "rep"
		case k < 11 && depth < 2:
			ft = reflect.SliceOf(genMessage(r, depth+1, tagged))
			wire, rep = "bytes", "rep"
		default:
			ft = reflect.MapOf(reflect.TypeOf(""), core.Pick(r, []reflect.Type{reflect.TypeOf(""), reflect.TypeOf(int64(0)), reflect.TypeOf(uint32(0)), reflect.TypeOf(true), reflect.TypeOf(float64(0))}))
			wire, rep = "bytes", "rep"
		}
		f := reflect.StructField{Name: fmt.Sprintf("F%d", i), Type: ft}
		if tagged {
			num := i + 1
			switch r.Intn(4) {
			case 0, 1:
				num = numberPool[r.Intn(len(numberPool))]
			case 2:
				// a number at a power-of-two distance from one already used (bitmap aliasing)
				if len(used) > 0 {
					min := 1 << 30
					for u := range used {
						if u < min {
							min = u
						}
					}
					num = min + []int{8, 16, 32, 64, 128, 256, 512, 1024, 4096}[r.Intn(9)]*r.Range(1, 3)
				}
			}
			for used[num] {
				num++
			}
			used[num] = true
			f.Tag = reflect.StructTag(fmt.Sprintf(`protobuf:"%s,%d,%s,name=n%d"`, wire, num, rep, i))
		}
		if !tagged && r.Chance(1, 4) {
			// an unexported field in between: it takes no field number
			fs = append(fs, reflect.StructField{Name: fmt.Sprintf("u%d", i), PkgPath: "verifharness/mon/c19", Type: reflect.TypeOf(int32(0))})
		}
		fs = append(fs, f)
	}
	return reflect.StructOf(fs)
}

// fieldName is the template key of a field (tag name= or Go name).
func fieldName(f reflect.StructField) string {
	if tag, ok := f.Tag.Lookup("protobuf"); ok {
		for _, p := range strings.Split(tag, ",") {
			if strings.HasPrefix(p, "name=") {
				return p[5:]
			}
		}
	}
	return f.Name
}

// template generation + independent application -----------------------------------------------

type tplCtx struct {
	r     *core.Rand
	bitor map[string]any // RewriterRules for this level
	nrule int
}

func jsonNum(v reflect.Value) string {
	switch v.Kind() {
	case reflect.Int, reflect.Int32, reflect.Int64:
		return strconv.FormatInt(v.Int(), 10)
	case reflect.Uint, reflect.Uint32, reflect.Uint64:
		return strconv.FormatUint(v.Uint(), 10)
	case reflect.Float32:
		return strconv.FormatFloat(v.Float(), 'g', -1, 32)
	default:
		return strconv.FormatFloat(v.Float(), 'g', -1, 64)
	}
}

// scalarTemplate picks a template value for a scalar field, sets dst to what the field must hold
// afterwards and returns the JSON text.
func scalarTemplate(r *core.Rand, dst reflect.Value) string {
	zero := r.Chance(1, 5)
	switch dst.Kind() {
	case reflect.Bool:
		b := !zero
		dst.SetBool(b)
		return strconv.FormatBool(b)
	case reflect.Int, reflect.Int64:
		x := r.Int64()
		if zero {
			x = 0
		}
		dst.SetInt(x)
		return jsonNum(dst)
	case reflect.Int32:
		x := int64(int32(r.Int64()))
		if zero {
			x = 0
		}
		dst.SetInt(x)
		return jsonNum(dst)
	case reflect.Uint, reflect.Uint64:
		x := r.Uint64B()
		if zero {
			x = 0
		}
		dst.SetUint(x)
		return jsonNum(dst)
	case reflect.Uint32:
		x := uint64(uint32(r.Uint64B()))
		if zero {
			x = 0
		}
		dst.SetUint(x)
		return jsonNum(dst)
	case reflect.Float32:
		if r.Chance(1, 6) {
			// decimals that must be rounded to float32 in one step: just beside a rounding
			// midpoint, and below the smallest subnormal (zero: the field is cleared)
			lit := core.Pick(r, []string{"16777217.0000000001", "1.00000005960464477539062501", "0.99999997019767761230468749", "33554434.000000001", "1e-46", "7.0064923216240854e-46", "2.0000001192092896"})
			f32, _ := strconv.ParseFloat(lit, 32)
			dst.SetFloat(f32)
			return lit
		}
		f := float64(r.Float32(false))
		if zero || math.IsInf(f, 0) {
			f = 0
		}
		dst.SetFloat(f)
		return jsonNum(dst)
	case reflect.Float64:
		f := r.Float(false)
		if zero {
			f = 0
		}
		dst.SetFloat(f)
		return jsonNum(dst)
	case reflect.String:
		s := strings.ToValidUTF8(r.String(10), "?")
		if zero {
			s = ""
		}
		dst.SetString(s)
		b, _ := stdjson.Marshal(s)
		return string(b)
	case reflect.Slice: // []byte: the template holds a plain string whose bytes are used
		s := r.ASCIIString(0, 12)
		if zero {
			s = ""
		}
		if s == "" {
			dst.SetZero()
		} else {
			dst.SetBytes([]byte(s))
		}
		b, _ := stdjson.Marshal(s)
		return string(b)
	}
	return "null"
}

func isZeroScalar(v reflect.Value) bool {
	return v.IsZero() || (v.Kind() == reflect.Slice && v.Len() == 0)
}

// template builds a JSON template for message value v (of struct type t), mutating v into the
// value the rewritten message must decode to. rules receives BitOr rules (by template key).
func template(r *core.Rand, v reflect.Value, depth int, rules proto.RewriterRules, full bool) string {
	t := v.Type()
	var members []string
	for i := 0; i < t.NumField(); i++ {
		if !full && !r.Chance(1, 2) {
			continue
		}
		f := t.Field(i)
		if !f.IsExported() {
			continue
		}
		name, _ := stdjson.Marshal(fieldName(f))
		dst := v.Field(i)
		ft := f.Type
		switch {
		case ft.Kind() == reflect.Map:
			// the whole map is replaced; string keys only
			m := reflect.MakeMap(ft)
			var parts []string
			for k := r.Intn(3); k > 0; k-- {
				key := r.ASCIIString(0, 6) // "" included: an entry without key member
				ev := reflect.New(ft.Elem()).Elem()
				js := scalarTemplate(r, ev) // zero included: an entry without value member, m[key] = zero
				kb, _ := stdjson.Marshal(key)
				if m.MapIndex(reflect.ValueOf(key)).IsValid() {
					continue
				}
				m.SetMapIndex(reflect.ValueOf(key), ev)
				parts = append(parts, string(kb)+":"+js)
			}
			dst.Set(m)
			members = append(members, string(name)+":{"+strings.Join(parts, ",")+"}")
		case ft.Kind() == reflect.Slice && ft.Elem().Kind() == reflect.Struct:
			s := reflect.MakeSlice(ft, 0, 2)
			var parts []string
			for k := r.Intn(3); k > 0; k-- {
				ev := reflect.New(ft.Elem()).Elem()
				js := template(r, ev, depth+1, nil, true) // elements fully specified
				s = reflect.Append(s, ev)                 // an empty element is an element
				parts = append(parts, js)
			}
			dst.Set(s)
			members = append(members, string(name)+":["+strings.Join(parts, ",")+"]")
		case ft.Kind() == reflect.Slice && ft.Elem().Kind() != reflect.Uint8:
			s := reflect.MakeSlice(ft, 0, 3)
			var parts []string
			for k := r.Intn(4); k > 0; k-- {
				ev := reflect.New(ft.Elem()).Elem()
				js := scalarTemplate(r, ev)
				parts = append(parts, js)
				s = reflect.Append(s, ev) // zero elements count
			}
			dst.Set(s)
			members = append(members, string(name)+":["+strings.Join(parts, ",")+"]")
		case ft.Kind() == reflect.Struct || (ft.Kind() == reflect.Pointer && ft.Elem().Kind() == reflect.Struct):
			sub := dst
			wasNil := false
			if ft.Kind() == reflect.Pointer {
				if dst.IsNil() {
					wasNil = true
					dst.Set(reflect.New(ft.Elem()))
				}
				sub = dst.Elem()
			}
			var subRules proto.RewriterRules
			if rules != nil && r.Chance(1, 3) {
				subRules = proto.RewriterRules{}
			}
			js := template(r, sub, depth+1, subRules, full)
			if wasNil && isEmpty(sub) {
				dst.SetZero() // nothing to write: the field stays absent
			}
			if subRules != nil && len(subRules) > 0 {
				rules[fieldName(f)] = subRules
			}
			members = append(members, string(name)+":"+js)
		case ft.Kind() == reflect.Pointer:
			// optional scalar: a zero in the template removes the field (nil), anything else is
			// pointed at
			tmp := reflect.New(ft.Elem()).Elem()
			js := scalarTemplate(r, tmp)
			if isZeroScalar(tmp) {
				dst.SetZero()
			} else {
				p := reflect.New(ft.Elem())
				p.Elem().Set(tmp)
				dst.Set(p)
			}
			members = append(members, string(name)+":"+js)
		default:
			// integer fields may use a BitOr rule instead of replacement
			if rules != nil && r.Chance(1, 4) {
				switch dst.Kind() {
				case reflect.Int32:
					if r.Chance(1, 3) { // the mask type need not have the signedness of the field
						mask := uint32(r.Uint64B())
						rules[fieldName(f)] = proto.BitOr[uint32]{}
						dst.SetInt(int64(int32(uint32(dst.Int()) | mask)))
						members = append(members, string(name)+":"+strconv.FormatUint(uint64(mask), 10))
						continue
					}
					mask := int32(r.Int64())
					rules[fieldName(f)] = proto.BitOr[int32]{}
					dst.SetInt(int64(int32(dst.Int()) | mask))
					members = append(members, string(name)+":"+strconv.FormatInt(int64(mask), 10))
					continue
				case reflect.Int64, reflect.Int:
					if r.Chance(1, 3) {
						mask := r.Uint64B()
						rules[fieldName(f)] = proto.BitOr[uint64]{}
						dst.SetInt(int64(uint64(dst.Int()) | mask))
						members = append(members, string(name)+":"+strconv.FormatUint(mask, 10))
						continue
					}
					mask := r.Int64()
					rules[fieldName(f)] = proto.BitOr[int64]{}
					dst.SetInt(dst.Int() | mask)
					members = append(members, string(name)+":"+strconv.FormatInt(mask, 10))
					continue
				case reflect.Uint32:
					mask := uint32(r.Uint64B())
					rules[fieldName(f)] = proto.BitOr[uint32]{}
					dst.SetUint(uint64(uint32(dst.Uint()) | mask))
					members = append(members, string(name)+":"+strconv.FormatUint(uint64(mask), 10))
					continue
				case reflect.Uint64, reflect.Uint:
					mask := r.Uint64B()
					rules[fieldName(f)] = proto.BitOr[uint64]{}
					dst.SetUint(dst.Uint() | mask)
					members = append(members, string(name)+":"+strconv.FormatUint(mask, 10))
					continue
				}
			}
			members = append(members, string(name)+":"+scalarTemplate(r, dst))
		}
	}
	// JSON object member order is irrelevant for the rewriter; shuffle
	for i := len(members) - 1; i > 0; i-- {
		j := r.Intn(i + 1)
		members[i], members[j] = members[j], members[i]
	}
	return "{" + strings.Join(members, ",") + "}"
}

// normEmpty sets pointers to messages that encode to nothing to nil: a templated sub-message
// that ends up empty is not written at all, and a BitOr with an absent field materialises an
// explicit zero; the statement is about values, for which both spellings mean the same.
func normEmpty(v reflect.Value) {
	switch v.Kind() {
	case reflect.Struct:
		for i := 0; i < v.NumField(); i++ {
			normEmpty(v.Field(i))
		}
	case reflect.Pointer:
		if v.IsNil() {
			return
		}
		normEmpty(v.Elem())
		if v.Elem().Kind() == reflect.Struct && isEmpty(v.Elem()) && v.CanSet() {
			v.SetZero()
		}
	case reflect.Slice:
		if v.Type().Elem().Kind() == reflect.Struct {
			for i := 0; i < v.Len(); i++ {
				normEmpty(v.Index(i))
			}
		}
	}
}

// isEmpty reports whether a message value encodes to nothing.
func isEmpty(v reflect.Value) bool {
	switch v.Kind() {
	case reflect.Struct:
		for i := 0; i < v.NumField(); i++ {
			if !isEmpty(v.Field(i)) {
				return false
			}
		}
		return true
	case reflect.Pointer:
		return v.IsNil() || isEmpty(v.Elem())
	case reflect.Slice, reflect.Map:
		return v.Len() == 0
	}
	return v.IsZero()
}

// templated returns the field numbers a template mentions at the top level.
func templatedNumbers(t reflect.Type, tpl string) map[int]bool {
	var m map[string]stdjson.RawMessage
	stdjson.Unmarshal([]byte(tpl), &m)
	out := map[int]bool{}
	for _, fi := range pwire.FieldsOf(t) {
		if _, ok := m[fieldName(t.Field(fi.Index))]; ok {
			out[fi.Number] = true
		}
	}
	return out
}

type rawField struct {
	num, typ int
	raw      string
}

func untouched(b []byte, skip map[int]bool) ([]rawField, bool) {
	fs, ok := pwire.Fields(b)
	if !ok {
		return nil, false
	}
	var out []rawField
	for _, f := range fs {
		if !skip[f.Num] {
			out = append(out, rawField{f.Num, f.Typ, string(b[f.ValStart:f.End])})
		}
	}
	return out, true
}

func show(v reflect.Value) string {
	s := fmt.Sprintf("%+v", v.Interface())
	if len(s) > 260 {
		s = s[:260] + "…"
	}
	return s
}

func tr(b []byte) []byte {
	if len(b) > 96 {
		return b[:96]
	}
	return b
}

func runTemplates(c *core.Case) {
	r := c.Rng
	ptypes.NilEquivalent = nil
	tagged := c.Index%3 != 0
	t := genMessage(r.Fork(1), 0, tagged)
	c.Journal("template")
	w := map[string]any{"type": ptypes.TypeString(t)}
	f := &ptypes.Filler{R: r.Fork(2), NoNaN: true, NoNilMapValues: true}
	v := f.NewValue(t)
	in, err := proto.Marshal(v.Interface())
	if err != nil {
		return
	}
	// input variants: canonical; unknown fields interleaved; a templated scalar present repeatedly
	variant := c.Index % 4
	if variant == 1 || variant == 3 {
		n := 0
		in = pwire.InsertUnknown(r, in, t, func(reflect.Type) bool { return false }, 40, &n)
	}
	if variant >= 2 {
		// a singular field present repeatedly: a second message holding one field is appended
		// (scalars: last one wins; messages: merged)
		var cand []int
		for i := 0; i < t.NumField(); i++ {
			ft := t.Field(i).Type
			if !t.Field(i).IsExported() {
				continue
			}
			if ft.Kind() != reflect.Map && !(ft.Kind() == reflect.Slice && ft.Elem().Kind() != reflect.Uint8) {
				cand = append(cand, i)
			}
		}
		if len(cand) > 0 {
			k := cand[r.Intn(len(cand))]
			v2 := f.NewValue(t)
			only := reflect.New(t).Elem()
			only.Field(k).Set(v2.Field(k))
			if extra, e := proto.Marshal(only.Interface()); e == nil && len(extra) > 0 {
				in = append(in[:len(in):len(in)], extra...)
				c.Count("inputs.field-present-repeatedly", 1)
				w["repeated_field"] = t.Field(k).Name
			}
		}
	}
	// the value the input decodes to (the original of the statement)
	orig := reflect.New(t)
	if e := proto.Unmarshal(append([]byte(nil), in...), orig.Interface()); e != nil {
		c.Count("skipped.input-undecodable", 1)
		return
	}
	want := reflect.New(t).Elem()
	want.Set(orig.Elem())
	// deep copy through a round trip so that the template application does not alias orig
	cp := reflect.New(t)
	proto.Unmarshal(append([]byte(nil), in...), cp.Interface())
	want = cp.Elem()
	rules := proto.RewriterRules{}
	useRules := c.Index%2 == 0
	var tpl string
	if useRules {
		tpl = template(r, want, 0, rules, false)
	} else {
		tpl = template(r, want, 0, nil, false)
	}
	check(c, t, in, tpl, rules, useRules, want, w, variant)
}

// check applies the template to in and compares with want.
func check(c *core.Case, t reflect.Type, in []byte, tpl string, rules proto.RewriterRules, useRules bool, want reflect.Value, w map[string]any, variant int) {
	w["template"] = tpl
	w["input_hex"] = fmt.Sprintf("%x", tr(in))
	var rw proto.Rewriter
	var perr error
	pfx, _ := w["journal"].(string)
	if pfx == "" {
		pfx = "template|"
	}
	c.Journal(pfx + "ParseRewriteTemplate")
	if sig, stk := core.Guard(func() {
		if useRules {
			rw, perr = proto.ParseRewriteTemplate(proto.TypeOf(t), []byte(tpl), rules)
		} else {
			rw, perr = proto.ParseRewriteTemplate(proto.TypeOf(t), []byte(tpl))
		}
	}); sig != "" {
		c.Violation("ParseRewriteTemplate", sig, fmt.Sprintf("template %s for %s: %s", tpl, t, stk), w)
		return
	}
	if perr != nil {
		c.Violation("ParseRewriteTemplate", "error", fmt.Sprintf("template %s for %s rejected: %v", tpl, t, perr), w)
		return
	}
	inSnap := append([]byte(nil), in...)
	tplSnap := []byte(tpl)
	var out []byte
	var rerr error
	c.Journal(pfx + "Rewrite")
	prefix := []byte("PFX")
	if sig, stk := core.Guard(func() { out, rerr = rw.Rewrite(append([]byte(nil), prefix...), in) }); sig != "" {
		c.Violation("Rewrite", sig, fmt.Sprintf("Rewrite(%x) with template %s panicked: %s", tr(in), tpl, stk), w)
		return
	}
	if rerr != nil {
		c.Violation("Rewrite", "error", fmt.Sprintf("Rewrite(%x) with template %s failed: %v", tr(in), tpl, rerr), w)
		return
	}
	if !bytes.Equal(in, inSnap) || string(tplSnap) != tpl {
		c.Violation("Rewrite", "input-modified", "the input message was modified", w)
	}
	if !bytes.HasPrefix(out, prefix) {
		c.Violation("Rewrite", "out-prefix-lost", "Rewrite did not append to out", w)
		return
	}
	out = out[len(prefix):]
	w["output_hex"] = fmt.Sprintf("%x", tr(out))
	// 1. valid message
	if _, ok := pwire.Fields(out); !ok {
		c.Violation("Rewrite", "output-not-a-message", fmt.Sprintf("output %x is not a well-formed message (input %x, template %s)", tr(out), tr(in), tpl), w)
		return
	}
	// 2. decodes to the original with the templated fields replaced
	got := reflect.New(t)
	if e := proto.Unmarshal(append([]byte(nil), out...), got.Interface()); e != nil {
		c.Violation("Rewrite", "output-undecodable", fmt.Sprintf("output %x does not decode: %v (input %x, template %s)", tr(out), e, tr(in), tpl), w)
		return
	}
	normEmpty(want)
	normEmpty(got.Elem())
	ok1, d1 := ptypes.Equal(want, got.Elem())
	if !ok1 {
		cls := "Rewrite|" + diffClass(d1, t)
		if rf, _ := w["repeated_field"].(string); rf != "" && firstName(d1) == rf {
			// the templated field itself is present more than once in the input
			if k := diffClass(d1, t); k == "nested" {
				cls = "present-repeatedly|message"
			} else {
				cls = "present-repeatedly|bitor"
			}
		}
		c.Violation(cls, "value-diff", fmt.Sprintf("%s | input %x | template %s | output %x | want %s | got %s", d1, tr(in), tpl, tr(out), show(want), show(got.Elem())), w)
		return
	}
	// the reference implementation agrees (for types with a .proto equivalent)
	if md, e := pdesc.Descriptor(t); e == nil {
		msg := dynamicpb.NewMessage(md)
		stripped := out
		if e := refproto.Unmarshal(stripped, msg); e != nil {
			c.Violation("Rewrite", "reference-rejects-output", fmt.Sprintf("the reference implementation rejects the output %x: %v", tr(out), e), w)
			return
		}
	}
	// 3. fields the template does not mention: same ordered list of (number, wire type, bytes)
	skip := templatedNumbers(t, tpl)
	a, _ := untouched(in, skip)
	b, okb := untouched(out, skip)
	same := okb && len(a) == len(b)
	for i := 0; same && i < len(a); i++ {
		same = a[i] == b[i]
	}
	if !same {
		c.Violation("Rewrite", "untemplated-fields-changed", fmt.Sprintf("fields not mentioned by the template were dropped, duplicated, reordered or changed: input %x -> output %x (template %s)", tr(in), tr(out), tpl), w)
		return
	}
	// applying the same rewriter again gives the same bytes (the rewriter is not consumed), also
	// after the caller has overwritten the slices returned earlier up to their capacity
	for round := 2; round <= 4; round++ {
		out2, e2 := rw.Rewrite(nil, in)
		if e2 != nil || !bytes.Equal(out2, out) {
			c.Violation("Rewrite", "later-application-differs", fmt.Sprintf("application #%d of the same Rewriter gives %x (err %v), the first gave %x (template %s)", round, tr(out2), e2, tr(out), tpl), w)
			break
		}
		out2 = out2[:cap(out2)]
		for i := range out2 {
			out2[i] = 0xAA
		}
	}
	if !bytes.Equal(in, inSnap) {
		c.Violation("Rewrite", "input-modified", "the input message was modified by a later application", w)
	}
	c.Count("rewrites", 1)
	if useRules && strings.Contains(fmt.Sprint(rules), "BitOr") {
		c.Count("rewrites.with-bitor", 1)
	}
	if variant == 1 || variant == 3 {
		c.Count("inputs.unknown-fields-interleaved", 1)
	}
	c.Count("templated-fields", len(skip))
	c.Distinct(core.Mix(core.HashString(t.String()), core.HashString(tpl)), len(skip) > 0)
	c.Sample(len(tpl)/40, map[string]any{"sub": "templates", "type": ptypes.TypeString(t), "template": tpl, "input_hex": fmt.Sprintf("%x", tr(in)), "rules": useRules})
}

// firstName is the first path component of a difference.
func firstName(d string) string {
	p := strings.TrimPrefix(d, ".")
	for i, ch := range p {
		if ch == '.' || ch == '[' || ch == ':' || ch == '*' {
			return p[:i]
		}
	}
	return p
}

func diffClass(d string, t reflect.Type) string {
	name := firstName(d)
	if f, ok := t.FieldByName(name); ok {
		ft := f.Type
		for ft.Kind() == reflect.Pointer {
			ft = ft.Elem()
		}
		switch ft.Kind() {
		case reflect.Struct:
			return "nested"
		case reflect.Map:
			return "map"
		case reflect.Slice:
			if ft.Elem().Kind() == reflect.Uint8 {
				return "bytes"
			}
			if ft.Elem().Kind() == reflect.Struct {
				return "repeated-nested"
			}
			return "repeated-" + ft.Elem().Kind().String()
		}
		return ft.Kind().String()
	}
	return "unknown"
}

// MessageRewriter literals, MultiRewriter
func runLiterals(c *core.Case) {
	c.Journal("message-rewriter-literal")
	r := c.Rng
	type T struct {
		A int32  `protobuf:"varint,1,opt,name=a"`
		B string `protobuf:"bytes,2,opt,name=b"`
		C uint64 `protobuf:"varint,300,opt,name=c"`
		D []byte `protobuf:"bytes,70000,opt,name=d"`
	}
	v := T{A: int32(r.Int64()), B: r.ASCIIString(0, 8), C: r.Uint64B(), D: r.Bytes(r.Intn(6))}
	in, _ := proto.Marshal(v)
	num := core.Pick(r, []int{1, 2, 63, 64, 65, 255, 256, 257, 300, 1000, 70000})
	val := r.Uint64B()
	num2 := num + []int{8, 16, 32, 64, 128, 256, 1024}[r.Intn(7)]
	mr := make(proto.MessageRewriter, num2+1)
	mr[num] = proto.FieldNumber(num).Uint64(val)
	mr[num2] = proto.FieldNumber(num2).Uint64(val + 1)
	var rw proto.Rewriter = mr
	if r.Bool() {
		rw = proto.MultiRewriter(mr)
	}
	var out []byte
	var err error
	if sig, stk := core.Guard(func() { out, err = rw.Rewrite(nil, in) }); sig != "" {
		c.Violation("MessageRewriter|field>="+bucket(num), sig, fmt.Sprintf("MessageRewriter with a rule for field %d panicked on %x: %s", num, in, stk), map[string]any{"field": num})
		return
	}
	if err != nil {
		c.Violation("MessageRewriter", "error", err.Error(), nil)
		return
	}
	fs, ok := pwire.Fields(out)
	cnt, cnt2 := 0, 0
	for _, f := range fs {
		if f.Num == num {
			cnt++
		}
		if f.Num == num2 {
			cnt2++
		}
	}
	if ok && cnt2 != 1 {
		c.Violation("MessageRewriter|two-rules", "field-count", fmt.Sprintf("with rules for fields %d and %d the output %x holds field %d %d times (input %x)", num, num2, out, num2, cnt2, in), map[string]any{"field": num2})
	}
	if !ok || cnt != 1 {
		c.Violation("MessageRewriter|field>="+bucket(num), "field-count", fmt.Sprintf("after rewriting field %d the output %x holds it %d times", num, out, cnt), map[string]any{"field": num})
	}
	skip := map[int]bool{num: true, num2: true}
	a, _ := untouched(in, skip)
	b, _ := untouched(out, skip)
	if fmt.Sprint(a) != fmt.Sprint(b) {
		c.Violation("MessageRewriter", "untemplated-fields-changed", fmt.Sprintf("%x -> %x", in, out), nil)
	}
	c.Count("literal-rewrites", 1)
	c.Distinct(uint64(num)<<32|uint64(uint32(val)), true)
}

func bucket(n int) string {
	switch {
	case n >= 65536:
		return "65536"
	case n >= 256:
		return "256"
	case n >= 64:
		return "64"
	}
	return "1"
}

var _ = sort.Ints

// huge field numbers: the wire format allows numbers up to 2^29-1
func runHuge(c *core.Case) {
	num := []int{1 << 20, 1 << 22, 1<<29 - 1}[c.Index%3]
	c.Journal(fmt.Sprintf("huge-field-number|%d", num))
	t := reflect.StructOf([]reflect.StructField{
		{Name: "A", Type: reflect.TypeOf(int64(0)), Tag: `protobuf:"varint,1,opt,name=a"`},
		{Name: "Z", Type: reflect.TypeOf(int64(0)), Tag: reflect.StructTag(fmt.Sprintf(`protobuf:"varint,%d,opt,name=z"`, num))},
	})
	v := reflect.New(t).Elem()
	v.Field(0).SetInt(5)
	v.Field(1).SetInt(6)
	in, err := proto.Marshal(v.Interface())
	if err != nil {
		c.Violation("huge-field-number", "marshal-error", err.Error(), nil)
		return
	}
	want := reflect.New(t).Elem()
	want.Field(0).SetInt(5)
	want.Field(1).SetInt(9)
	check(c, t, in, `{"z":9}`, nil, false, want, map[string]any{"field": num, "journal": fmt.Sprintf("huge-field-number|%d|", num)}, 0)
}

func witnessHuge(c *core.Case) { c.Index = 2; runHuge(c) }

// known findings: a templated singular field that the input holds more than once
func witnessRepeatedBitOr(c *core.Case) {
	c.Journal("present-repeatedly|bitor")
	type T struct {
		Flags uint64 `protobuf:"varint,1,opt,name=flags"`
	}
	in := []byte{0x08, 0x01, 0x08, 0x02} // flags=1, then flags=2: decodes to 2
	want := reflect.ValueOf(&T{Flags: 2 | 4}).Elem()
	check(c, reflect.TypeOf(T{}), in, `{"flags":4}`, proto.RewriterRules{"flags": proto.BitOr[uint64]{}}, true, want, map[string]any{"repeated_field": "Flags"}, 2)
}

func witnessRepeatedMessage(c *core.Case) {
	c.Journal("present-repeatedly|message")
	type S struct {
		A int32 `protobuf:"varint,1,opt,name=a"`
		B int32 `protobuf:"varint,2,opt,name=b"`
	}
	type T struct {
		M S `protobuf:"bytes,1,opt,name=m"`
	}
	in := []byte{0x0a, 0x02, 0x08, 0x01, 0x0a, 0x02, 0x10, 0x02} // m{a:1} m{b:2}: decodes to m{a:1,b:2}
	want := reflect.ValueOf(&T{M: S{A: 7, B: 2}}).Elem()
	check(c, reflect.TypeOf(T{}), in, `{"m":{"a":7}}`, nil, false, want, map[string]any{"repeated_field": "M"}, 2)
}

func init() {
	core.Register(&core.Monitor{
		Prop:    "C19",
		Rule:    "templates: a message type (1-7 fields per level, nesting <= 2; all scalar kinds, zigzag/fixed tags, nested by value and by pointer, repeated scalars and messages, string-keyed maps; all fields tagged with names and numbers incl. 63/64/65, 255/256/257, 2047/2048, 65535/65536, 131071, or none tagged), an encoded input (canonical, or with unknown fields interleaved at all levels) and a JSON template over a random subset of fields (zero values included, also as elements of repeated fields, as all-zero message elements and as empty map keys and zero map values; nested templates; repeated and map fields replaced as a whole; BitOr rules for integer fields, also nested RewriterRules). The expected value is computed independently by applying the template to the decoded input with reflection. Checked: ParseRewriteTemplate and Rewrite do not fail or panic; the output is a well-formed message (reference scanner, dynamicpb) that decodes to the expected value; the fields the template does not mention form the same ordered (number, wire type, bytes) list in input and output; input and template bytes unchanged; out is appended to; a second application gives the same bytes. literals: MessageRewriter / MultiRewriter with a rule for field numbers up to 70000. Distinct by (type, template).",
		Trusted: []string{"the reflection-based template application in mon/c19 (transcribed from the statement)", "protowire / dynamicpb v1.25.0 for well-formedness", "proto.Unmarshal of the same build to decode input and output (its correctness is C03/C12)"},
		Subs: []core.Sub{
			{Name: "templates", N: core.Const(20000, 600000), Run: runTemplates},
			{Name: "literals", N: core.Const(2000, 20000), Run: runLiterals},
			{Name: "huge-numbers", N: core.Const(3, 3), Run: runHuge, Modes: []string{"plain"}},
		},
	})
}
